/-
  Lemmas for property C14: `ScalarMult` (fixed 4-bit windows over all bytes of the scalar)
  computes `[scalar]P` for a scalar of any length.  Also the precomputation lemma shared with the
  double-scalar routine (a list built by repeatedly adding a fixed point to its last element).
-/
import SMGo.Proofs.CurveSem
namespace SMGo.Proofs.CurveMult
open SMGo SMGo.Model.Curve SMGo.Proofs.CurveBits SMGo.Proofs.CurveSem SMGo.Proofs.UtilsCmp

variable {Γ : Type} {A : Type} [AddCommGroup A]
variable {G : GOps Γ} {ok : Γ → Prop} {okXY : List Nat → List Nat → Prop} {sem : Γ → A}

/-- entry `i` of the list denotes `[c0 + i*d] x` -/
def Arith (G : GOps Γ) (ok : Γ → Prop) (sem : Γ → A) (x : A) (c0 d : Nat) (l : List Γ) : Prop :=
  ∀ i, i < l.length → ok (l.getD i G.infinity) ∧ sem (l.getD i G.infinity) = (c0 + i * d) • x

theorem getLastD_eq (l : List Γ) (h : 1 ≤ l.length) (a b : Γ) : l.getLastD a = l.getD (l.length - 1) b := by
  rw [List.getLastD_eq_getLast?, List.getLast?_eq_getElem?, List.getD_eq_getElem?_getD,
    List.getElem?_eq_getElem (by omega)]
  rfl

theorem arith_append (S : Sem G ok okXY sem) (x : A) (c0 d : Nat) (P Q : Γ) (hQ : ok Q) (hQs : sem Q = d • x)
    (l : List Γ) (h1 : 1 ≤ l.length) (hA : Arith G ok sem x c0 d l) :
    Arith G ok sem x c0 d (l ++ [G.add (l.getLastD P) Q]) := by
  intro i hi
  rw [List.length_append, List.length_singleton] at hi
  rw [List.getD_eq_getElem?_getD]
  by_cases hlt : i < l.length
  · rw [List.getElem?_append_left hlt, ← List.getD_eq_getElem?_getD]
    exact hA i hlt
  · have : i = l.length := by omega
    subst this
    rw [List.getElem?_append_right (Nat.le_refl _)]
    simp only [Nat.sub_self, List.getElem?_cons_zero, Option.getD_some]
    rw [getLastD_eq l h1 P G.infinity]
    obtain ⟨o1, s1⟩ := hA (l.length - 1) (by omega)
    obtain ⟨o2, s2⟩ := S.add _ Q o1 hQ
    refine ⟨o2, ?_⟩
    rw [s2, s1, hQs, ← add_nsmul]
    congr 1
    have : l.length = (l.length - 1) + 1 := by omega
    generalize l.length - 1 = t at this
    rw [this, Nat.succ_mul]
    omega

/-- `m` rounds of `l := l ++ [Add(last l, Q)]` -/
theorem build_spec (S : Sem G ok okXY sem) (x : A) (c0 d : Nat) (P Q : Γ) (hQ : ok Q) (hQs : sem Q = d • x)
    (l0 : List Γ) (h0 : 1 ≤ l0.length) (hA : Arith G ok sem x c0 d l0) (m : Nat) :
    ((List.range m).foldl (fun (l : List Γ) _ => l ++ [G.add (l.getLastD P) Q]) l0).length = l0.length + m ∧
    Arith G ok sem x c0 d ((List.range m).foldl (fun (l : List Γ) _ => l ++ [G.add (l.getLastD P) Q]) l0) := by
  induction m with
  | zero => exact ⟨rfl, hA⟩
  | succ m ih =>
    rw [List.range_succ, List.foldl_append]
    simp only [List.foldl_cons, List.foldl_nil]
    obtain ⟨i1, i2⟩ := ih
    refine ⟨?_, arith_append S x c0 d P Q hQ hQs _ (by omega) i2⟩
    rw [List.length_append, i1, List.length_singleton, Nat.add_assoc]

theorem double4_spec (S : Sem G ok okXY sem) (p : Γ) (hp : ok p) :
    ok (double4 G p) ∧ sem (double4 G p) = 16 • sem p := by
  unfold double4
  obtain ⟨o1, s1⟩ := S.double p hp
  obtain ⟨o2, s2⟩ := S.double _ o1
  obtain ⟨o3, s3⟩ := S.double _ o2
  obtain ⟨o4, s4⟩ := S.double _ o3
  refine ⟨o4, ?_⟩
  rw [s4, s3, s2, s1]
  have : (16 : Nat) = 2 * (2 * (2 * 2)) := rfl
  rw [this, mul_nsmul, mul_nsmul, mul_nsmul, two_nsmul, two_nsmul, two_nsmul, two_nsmul]

/-- the table `P, 2P, …, 15P` of `ScalarMult` -/
theorem pre15_spec (S : Sem G ok okXY sem) (P : Γ) (hP : ok P) :
    ((List.range 13).foldl (fun (l : List Γ) _ => l ++ [G.add (l.getLastD P) P]) [P, G.double P]).length = 15 ∧
    Arith G ok sem (sem P) 1 1
      ((List.range 13).foldl (fun (l : List Γ) _ => l ++ [G.add (l.getLastD P) P]) [P, G.double P]) := by
  obtain ⟨o2, s2⟩ := S.double P hP
  have hA : Arith G ok sem (sem P) 1 1 [P, G.double P] := by
    intro i hi
    have : i = 0 ∨ i = 1 := by simp at hi; omega
    rcases this with rfl | rfl
    · refine ⟨hP, ?_⟩
      show sem P = (1 + 0 * 1) • sem P
      rw [Nat.zero_mul, Nat.add_zero, one_nsmul]
    · refine ⟨o2, ?_⟩
      show sem (G.double P) = _
      rw [s2, ← two_nsmul]
  exact build_spec S (sem P) 1 1 P P hP (by rw [one_nsmul]) [P, G.double P] (by simp) hA 13

/-- constant-time selection from the transformed table: `[bits]P` -/
theorem select15 (S : Sem G ok okXY sem) (x : A) (pts : List Γ) (hl : pts.length = 15)
    (hA : Arith G ok sem x 1 1 pts) (bits : Nat) (hb : bits ≤ 15) :
    ∃ q, G.selectXYZ (G.transform pts) 15 bits = .ok q ∧ ok q ∧ sem q = bits • x := by
  obtain ⟨q, e, hq, hs⟩ := S.selectXYZ pts bits hl (fun i hi => (hA i (by omega)).1) hb
  refine ⟨q, e, hq, ?_⟩
  rw [hs]
  by_cases h0 : bits = 0
  · rw [if_pos h0, h0, zero_nsmul]
  · rw [if_neg h0, (hA (bits - 1) (by omega)).2]
    congr 1; omega

/-- the body of the `for _, b := range scalar` loop -/
def multStep (G : GOps Γ) (tbl : Table) (st : Γ × Bool) (b : UInt8) : Outcome (Γ × Bool) := do
  let (ret, skip) := st
  let ret := if !skip then double4 G ret else ret
  let tmp ← G.selectXYZ tbl 15 (b.toNat >>> 4)
  let ret := G.add ret tmp
  let ret := double4 G ret
  let tmp ← G.selectXYZ tbl 15 (b.toNat &&& 0x0f)
  pure (G.add ret tmp, false)

theorem scalarMult_eq (G : GOps Γ) (P : Γ) (scalar : Bytes) :
    scalarMult G P scalar
      = (scalar.foldlM (multStep G (G.transform
          ((List.range 13).foldl (fun (l : List Γ) _ => l ++ [G.add (l.getLastD P) P]) [P, G.double P])))
          (G.infinity, true)) >>= fun st => pure st.1 := rfl

theorem scalarMult_spec (S : Sem G ok okXY sem) (P : Γ) (hP : ok P) (scalar : Bytes) :
    ∃ q, scalarMult G P scalar = .ok q ∧ ok q ∧ sem q = Bytes.toNatBE scalar • sem P := by
  obtain ⟨hl, hA⟩ := pre15_spec S P hP
  rw [scalarMult_eq]
  generalize (List.range 13).foldl (fun (l : List Γ) _ => l ++ [G.add (l.getLastD P) P]) [P, G.double P] = pre
    at hl hA ⊢
  obtain ⟨st', e, hinv⟩ := foldlM_list_inv (multStep G (G.transform pre))
    (fun pre' st => Inv ok sem st (Bytes.toNatBE pre' • sem P)) scalar (G.infinity, true)
    (by
      have : Bytes.toNatBE [] = 0 := rfl
      rw [this, zero_nsmul]; exact inv_init S)
    (by
      intro pre' b st h
      obtain ⟨ret, skip⟩ := st
      have hb : b.toNat < 256 := UInt8.toNat_lt b
      have ehi : b.toNat >>> 4 = b.toNat / 16 := by rw [Nat.shiftRight_eq_div_pow]
      have elo : b.toNat &&& 0x0f = b.toNat % 16 := Nat.and_two_pow_sub_one_eq_mod b.toNat 4
      obtain ⟨q1, e1, hq1, hs1⟩ := select15 S (sem P) pre hl hA (b.toNat / 16) (by omega)
      obtain ⟨q2, e2, hq2, hs2⟩ := select15 S (sem P) pre hl hA (b.toNat % 16) (by omega)
      simp only [multStep, ehi, elo, e1, e2, Outcome.bind_ok, Outcome.pure_eq]
      -- the accumulator after the optional four doublings denotes 16 • v
      have hd : ok (if (!skip) = true then double4 G ret else ret) ∧
          sem (if (!skip) = true then double4 G ret else ret) = 16 • (Bytes.toNatBE pre' • sem P) := by
        obtain ⟨h1, h2, h3⟩ := h
        cases skip with
        | true =>
          simp only [Bool.not_true, Bool.false_eq_true, if_false]
          refine ⟨h1, ?_⟩
          rw [h3 rfl, nsmul_zero]; exact h2.trans (h3 rfl)
        | false =>
          simp only [Bool.not_false, if_true]
          obtain ⟨d1, d2⟩ := double4_spec S ret h1
          exact ⟨d1, by rw [d2]; exact congrArg _ h2⟩
      obtain ⟨hd1, hd2⟩ := hd
      generalize (if (!skip) = true then double4 G ret else ret) = r1 at hd1 hd2
      obtain ⟨a1, a2⟩ := S.add r1 q1 hd1 hq1
      obtain ⟨d1, d2⟩ := double4_spec S _ a1
      obtain ⟨a3, a4⟩ := S.add _ q2 d1 hq2
      refine ⟨_, rfl, a3, ?_, fun h => by cases h⟩
      show sem (G.add (double4 G (G.add r1 q1)) q2) = _
      rw [a4, d2, a2, hd2, hs1, hs2, toNatBE_append_singleton, ← mul_nsmul', ← add_nsmul, ← mul_nsmul',
        ← add_nsmul]
      congr 1
      omega)
  simp only [e, Outcome.bind_ok, Outcome.pure_eq]
  exact ⟨_, rfl, hinv.1, hinv.2.1⟩

end SMGo.Proofs.CurveMult
