/-
  Refinement: the generated IR of the element wrappers of /repo/sm2/internal/fiat (SMGo/Gen/CTIRProg.lean:
  `fn_8` MultiSelect, `fn_9`–`fn_11` Select / sm2Selectznz / sm2CmovznzU64, `fn_28`/`fn_29`/`fn_32`
  Bytes / bytes / sm2InvertEndianness, `fn_37`/`fn_38` Equal / IsZero, `fn_33` SetBytes) computes the
  hand-written models of SMGo/Model/Field.lean.  Style of SMGo/Proofs/CTIRRefineUtils.lean.

  The big straight-line Fiat primitives (sm2FromMontgomery, sm2ToBytes, sm2FromBytes, sm2ToMontgomery) are
  HYPOTHESES of the form `Computes …` (the body of the IR function, started on the encoded arguments,
  returns the encoded result of the corresponding `FieldOps` primitive): `BytesPrims`, `SetBytesPrims`.

  Findings (model vs IR):
  * MultiSelect: NO disagreement — `bits = 0` (the model's `bits + 255` is the byte `bits - 1`), `width > 256`
    (`byte(i)` wraps on both sides), every `fallbackCond ≥ 0`, limbs ≥ 2^64 (cut by the masks on both sides) are
    all covered by `ir_multiSelect_ok`; a table with fewer than `width` rows is a stuck run (`ir_multiSelect_stuck`).
    Not expressible in the model (natural numbers): negative `width` / `fallbackCond`.
  * Select: the model `Model.Field.select` (`if cond = 0 then b else a`) and the IR AGREE for `cond ∈ {0,1}`
    (`ir_select_ok`) and DISAGREE otherwise: the IR (like the Go code, `sm2Uint1(cond)` being a plain conversion)
    stores the bit-mix `selectN a b cond` (`ir_select_general`); counter-example `cond = 2`, a = [1,2,3,4],
    b = [8,16,32,64]: IR [0,2,2,4], model [1,2,3,4] (`select_cond2_disagrees`).
  * SetBytes: on both error paths the IR returns (receiver unchanged, a zero element standing for `nil`, 1).
-/
import SMGo.Proofs.CTIRRefineUtils
import SMGo.Gen.CTIRProg
import SMGo.Model.Field
open SMGo SMGo.Model.CTIR SMGo.Gen.CTIRProg SMGo.Proofs.CTIRRefineUtils
set_option linter.unusedSimpArgs false

namespace SMGo.Proofs.CTIRRefineField

/-! ## Encodings -/

/-- a Go `[4]uint64` (any array of unsigned integers) -/
def limbsV (l : List Nat) : Val := .arr (l.map (fun (x : Nat) => Val.int (x : Int)))
/-- an `SM2Element`: a struct with the single field `x [4]uint64` -/
def elemV (l : List Nat) : Val := .arr [limbsV l]
/-- a `[]*[4]uint64` -/
def tableV (rows : List (List Nat)) : Val := .arr (rows.map limbsV)

theorem limbs_getElem? (l : List Nat) (k : Nat) (h : k < l.length) :
    (l.map (fun (x : Nat) => Val.int (x : Int)))[k]? = some (.int ((l.getD k 0 : Nat) : Int)) := by
  rw [List.getElem?_map, List.getD_eq_getElem?_getD, List.getElem?_eq_getElem h]
  rfl

/-! ## Arithmetic: IR integers at `uint64` / `uint8` vs natural numbers -/

theorem pat_u64_nat (n : Nat) : pat .u64 (n : Int) = n % 18446744073709551616 := by
  simp only [pat, Ty.bits]
  omega

theorem norm_u64_small {n : Nat} (h : n < 18446744073709551616) : norm .u64 (n : Int) = (n : Int) := by
  simp only [norm]; omega

theorem and_mask (a m : Nat) (hm : m < 18446744073709551616) :
    a % 18446744073709551616 &&& m % 18446744073709551616 = a &&& m := by
  have h := @Nat.and_mod_two_pow a m 64
  have h2 : a &&& m < 18446744073709551616 := Nat.lt_of_le_of_lt Nat.and_le_right hm
  rw [show (2 : Nat) ^ 64 = 18446744073709551616 from rfl] at h
  rw [← h, Nat.mod_eq_of_lt h2]

/-- `a & m` at `uint64`, `m` a 64-bit mask (no bound on `a` needed) -/
theorem and_u64_eq (a m : Nat) (hm : m < 18446744073709551616) :
    evalOp2 (.and .u64) (a : Int) (m : Int) = some (((a &&& m : Nat) : Nat) : Int) := by
  have h2 : a &&& m < 18446744073709551616 := Nat.lt_of_le_of_lt Nat.and_le_right hm
  simp only [evalOp2, pat_u64_nat, and_mask a m hm]
  rw [norm_u64_small h2]

theorem or_u64_eq (a b : Nat) (ha : a < 18446744073709551616) (hb : b < 18446744073709551616) :
    evalOp2 (.or .u64) (a : Int) (b : Int) = some (((a ||| b : Nat) : Nat) : Int) := by
  have h2 : a ||| b < 2 ^ 64 := Nat.or_lt_two_pow (n := 64) ha hb
  simp only [evalOp2, pat_u64_nat, Nat.mod_eq_of_lt ha, Nat.mod_eq_of_lt hb]
  rw [norm_u64_small h2]

/-- the mask `uint64(c) * 0xffffffffffffffff` -/
def maskOf (c : Nat) : Nat := c * 18446744073709551615 % 18446744073709551616

theorem maskOf_lt (c : Nat) : maskOf c < 18446744073709551616 := Nat.mod_lt _ (by decide)

theorem mask_u64_eq (c : Nat) :
    norm .u64 (norm .u64 (c : Int) * 18446744073709551615) = ((maskOf c : Nat) : Int) := by
  simp only [norm, maskOf]
  have e : ((c : Int) % 18446744073709551616 * 18446744073709551615) % 18446744073709551616
      = ((c : Int) * 18446744073709551615) % 18446744073709551616 := by
    rw [Int.mul_emod, Int.emod_emod_of_dvd _ (Int.dvd_refl _), ← Int.mul_emod]
  rw [e]
  omega

/-- `^x` at `uint64` -/
theorem not_u64_eq {m : Nat} (h : m < 18446744073709551616) :
    norm .u64 (-(m : Int) - 1) = ((18446744073709551615 - m : Nat) : Int) := by
  simp only [norm]; omega

/-- `subtle.ConstantTimeByteEq(byte(i), bits - 1)` -/
theorem byteEq_eq (i bits : Nat) :
    ofBool (norm .u8 (i : Int) == norm .u8 ((bits : Int) - 1)) = ((Model.Field.byteEq i (bits + 255) : Nat) : Int) := by
  simp only [norm, Model.Field.byteEq, ofBool]
  by_cases h : i % 256 = (bits + 255) % 256
  · have h' : (i : Int) % 256 = ((bits : Int) - 1) % 256 := by omega
    simp [h, h']
  · have h' : ¬ ((i : Int) % 256 = ((bits : Int) - 1) % 256) := by omega
    simp [h, h']

theorem byteEq_le (x y : Nat) : Model.Field.byteEq x y ≤ 1 := by
  simp only [Model.Field.byteEq]; split <;> omega


/-! ## Generic helpers of the symbolic execution -/

section Helpers
variable {P : Prog} {G : Nat → Val} {X : Oracle}

/-- a `declass` statement is, functionally, an assignment of an integer -/
theorem _root_.SMGo.Model.CTIR.EvIn.declass {env : Env} {x site : Nat} {e : Expr} {n : Int}
    (he : evalV G env e = some (.int n)) :
    EvIn P G X 1 env (.declass x site e) (env.set x (.int n)) .norm := by
  intro f hf; obtain ⟨f, rfl⟩ := Nat.exists_eq_add_of_le' hf
  rw [execV_declass, he]

theorem updPath_c1 (l : List Val) (k : Nat) (v : Val) (h : k < l.length) :
    updPath (.arr l) [k] v = some (.arr (l.set k v)) := by
  simp [updPath, List.getElem?_eq_getElem h]

theorem updPath_c2 (l m : List Val) (k j : Nat) (v : Val) (hk : l[k]? = some (.arr m)) (hj : j < m.length) :
    updPath (.arr l) [k, j] v = some (.arr (l.set k (.arr (m.set j v)))) := by
  simp [updPath, hk, List.getElem?_eq_getElem hj]

theorem evalV_limb {env : Env} {a : Expr} {l : List Nat} {k : Nat}
    (ha : evalV G env a = some (limbsV l)) (hk : k < l.length) :
    evalV G env (.idxc a k) = some (.int ((l.getD k 0 : Nat) : Int)) := by
  rw [evalV_idxc, ha]
  simp only [limbsV]
  exact limbs_getElem? l k hk

/-- `x[k] = e` on an array of unsigned integers -/
theorem _root_.SMGo.Model.CTIR.EvIn.assignLimb {env : Env} {x k : Nat} {e : Expr} {l : List Nat} {n : Nat}
    (he : evalV G env e = some (.int (n : Int))) (hx : env x = limbsV l) (hk : k < l.length) :
    EvIn P G X 1 env (.assign x [.c k] e) (env.set x (limbsV (l.set k n))) .norm := by
  refine EvIn.assignPath he (ks := [k]) ?_ ?_
  · simp [pathV_c]
  · rw [hx, limbsV, updPath_c1 _ _ _ (by simpa using hk)]
    simp [limbsV, List.map_set]

/-- `x.x[k] = e` on an element -/
theorem _root_.SMGo.Model.CTIR.EvIn.assignElemLimb {env : Env} {x k : Nat} {e : Expr} {l : List Nat} {n : Nat}
    (he : evalV G env e = some (.int (n : Int))) (hx : env x = elemV l) (hk : k < l.length) :
    EvIn P G X 1 env (.assign x [.c 0, .c k] e) (env.set x (elemV (l.set k n))) .norm := by
  refine EvIn.assignPath he (ks := [0, k]) ?_ ?_
  · simp [pathV_c]
  · rw [hx, elemV, limbsV, updPath_c2 _ _ 0 k _ rfl (by simpa using hk)]
    simp [elemV, limbsV, List.map_set]

/-- a prefix of statements that all end normally: it can be put in front of any continuation, for
    completed runs (`K` more fuel) and for stuck runs -/
def Pre (P : Prog) (G : Nat → Val) (X : Oracle) (K : Nat) (env : Env) (ss : List Stmt) (env' : Env) : Prop :=
  ∀ rest : Stmt,
    (∀ F env'' c, EvIn P G X F env' rest env'' c → EvIn P G X (F + K) env (seqs (ss ++ [rest])) env'' c) ∧
    (Stuck P G X env' rest → Stuck P G X env (seqs (ss ++ [rest])))

theorem Pre.nil (env : Env) : Pre P G X 0 env [] env := fun _ => ⟨fun _ _ _ h => h, fun h => h⟩

theorem seqs_cons_append (s : Stmt) (ss : List Stmt) (rest : Stmt) :
    seqs (s :: ss ++ [rest]) = .seq s (seqs (ss ++ [rest])) := by
  cases ss <;> rfl

theorem Pre.cons {K F1 : Nat} {env env1 env' : Env} {s : Stmt} {ss : List Stmt}
    (h : EvIn P G X F1 env s env1 .norm) (hs : Pre P G X K env1 ss env') :
    Pre P G X (K + F1 + 1) env (s :: ss) env' := by
  intro rest
  rw [seqs_cons_append]
  refine ⟨fun F env'' c hr => ?_, fun hr => ?_⟩
  · exact (EvIn.seq h ((hs rest).1 F env'' c hr)).mono (by omega)
  · exact Stuck.seq_right h ((hs rest).2 hr)

theorem seqs_append (ss1 ss2 : List Stmt) (rest : Stmt) :
    seqs ((ss1 ++ ss2) ++ [rest]) = seqs (ss1 ++ [seqs (ss2 ++ [rest])]) := by
  induction ss1 with
  | nil => rfl
  | cons s ss1 ih =>
    have e1 := seqs_cons_append s (ss1 ++ ss2) rest
    have e2 := seqs_cons_append s ss1 (seqs (ss2 ++ [rest]))
    simp only [List.cons_append] at e1 e2 ⊢
    rw [e1, e2, ih]

theorem Pre.append {K1 K2 : Nat} {env env1 env2 : Env} {ss1 ss2 : List Stmt}
    (h1 : Pre P G X K1 env ss1 env1) (h2 : Pre P G X K2 env1 ss2 env2) :
    Pre P G X (K2 + K1) env (ss1 ++ ss2) env2 := by
  intro rest
  rw [seqs_append]
  refine ⟨fun F env'' c hr => ?_, fun hr => ?_⟩
  · exact ((h1 _).1 _ _ _ ((h2 rest).1 F env'' c hr)).mono (by omega)
  · exact (h1 _).2 ((h2 rest).2 hr)

theorem Pre.mono {K K' : Nat} {env env' : Env} {ss : List Stmt} (h : Pre P G X K env ss env') (hK : K ≤ K') :
    Pre P G X K' env ss env' :=
  fun rest => ⟨fun F env'' c hr => ((h rest).1 F env'' c hr).mono (by omega), (h rest).2⟩

end Helpers


/-! ## 1. MultiSelect -/

/-- one round of the loop of the model -/
def msStep (pre : List (List Nat)) (bits : Nat) (out : List Nat) (i : Nat) : List Nat :=
  [out.getD 0 0 ||| ((pre.getD i []).getD 0 0 &&& maskOf (Model.Field.byteEq i (bits + 255))),
   out.getD 1 0 ||| ((pre.getD i []).getD 1 0 &&& maskOf (Model.Field.byteEq i (bits + 255))),
   out.getD 2 0 ||| ((pre.getD i []).getD 2 0 &&& maskOf (Model.Field.byteEq i (bits + 255))),
   out.getD 3 0 ||| ((pre.getD i []).getD 3 0 &&& maskOf (Model.Field.byteEq i (bits + 255)))]

/-- the masked fallback: the value of `out` before the loop -/
def msInit (fb : List Nat) (fc : Nat) : List Nat :=
  [fb.getD 0 0 &&& (18446744073709551615 - maskOf fc), fb.getD 1 0 &&& (18446744073709551615 - maskOf fc),
   fb.getD 2 0 &&& (18446744073709551615 - maskOf fc), fb.getD 3 0 &&& (18446744073709551615 - maskOf fc)]

theorem multiSelect_unfold (pre : List (List Nat)) (width bits : Nat) (fb : List Nat) (fc : Nat) :
    Model.Field.multiSelectLimbs pre width bits fb fc
      = (List.range width).foldl (msStep pre bits) (msInit fb fc) := rfl

/-- four limbs below 2^64 -/
def Out4 (o : List Nat) : Prop :=
  ∃ a b c d, o = [a, b, c, d] ∧ a < 18446744073709551616 ∧ b < 18446744073709551616 ∧
    c < 18446744073709551616 ∧ d < 18446744073709551616

theorem or_and_lt {a e c : Nat} (ha : a < 18446744073709551616) (hc : c < 18446744073709551616) :
    a ||| (e &&& c) < 18446744073709551616 :=
  Nat.or_lt_two_pow (n := 64) ha (Nat.lt_of_le_of_lt Nat.and_le_right hc)

theorem msStep_out4 (pre : List (List Nat)) (bits : Nat) (o : List Nat) (i : Nat) (ho : Out4 o) :
    Out4 (msStep pre bits o i) := by
  obtain ⟨a, b, c, d, rfl, ha, hb, hc, hd⟩ := ho
  exact ⟨_, _, _, _, rfl, or_and_lt ha (maskOf_lt _), or_and_lt hb (maskOf_lt _), or_and_lt hc (maskOf_lt _),
    or_and_lt hd (maskOf_lt _)⟩

theorem msInit_out4 (fb : List Nat) (fc : Nat) : Out4 (msInit fb fc) := by
  have hm : 18446744073709551615 - maskOf fc < 18446744073709551616 := by omega
  exact ⟨_, _, _, _, rfl, Nat.lt_of_le_of_lt Nat.and_le_right hm, Nat.lt_of_le_of_lt Nat.and_le_right hm,
    Nat.lt_of_le_of_lt Nat.and_le_right hm, Nat.lt_of_le_of_lt Nat.and_le_right hm⟩

def msCond : Expr := .op2 .lt (.var 11) (.var 2)
def msBody : Stmt := seqs [.assign 12 [] (.op2 (.mul .u64) (.op1 (.conv .u64) (.op2 .cteq8 (.op1 (.conv .u8) (.var 11)) (.op2 (.sub .u8) (.var 3) (.lit 1)))) (.lit 18446744073709551615)),
    .assign 8 [] (.idx (.var 1) (.var 11)),
    .assign 7 [.c 0] (.op2 (.or .u64) (.idxc (.var 7) 0) (.op2 (.and .u64) (.idxc (.var 8) 0) (.var 12))),
    .assign 7 [.c 1] (.op2 (.or .u64) (.idxc (.var 7) 1) (.op2 (.and .u64) (.idxc (.var 8) 1) (.var 12))),
    .assign 7 [.c 2] (.op2 (.or .u64) (.idxc (.var 7) 2) (.op2 (.and .u64) (.idxc (.var 8) 2) (.var 12))),
    .assign 7 [.c 3] (.op2 (.or .u64) (.idxc (.var 7) 3) (.op2 (.and .u64) (.idxc (.var 8) 3) (.var 12)))]
def msPost : Stmt := .assign 11 [] (.op2 (.add .i64) (.var 11) (.lit 1))
def msLoop : Stmt := .loop msCond msBody msPost
def msPro : List Stmt := [.assign 7 [] (.mk (.lit 4) (.lit 0)),
    .assign 8 [] (.mk (.lit 4) (.lit 0)),
    .assign 9 [] (.idxc (.var 4) 0),
    .assign 10 [] (.op1 (.not .u64) (.op2 (.mul .u64) (.op1 (.conv .u64) (.var 5)) (.lit 18446744073709551615))),
    .assign 7 [.c 0] (.op2 (.and .u64) (.idxc (.var 9) 0) (.var 10)),
    .assign 7 [.c 1] (.op2 (.and .u64) (.idxc (.var 9) 1) (.var 10)),
    .assign 7 [.c 2] (.op2 (.and .u64) (.idxc (.var 9) 2) (.var 10)),
    .assign 7 [.c 3] (.op2 (.and .u64) (.idxc (.var 9) 3) (.var 10)),
    .assign 11 [] (.lit 0)]
def msTail : List Stmt := [.assign 0 [.c 0, .c 0] (.idxc (.var 7) 0),
    .assign 0 [.c 0, .c 1] (.idxc (.var 7) 1),
    .assign 0 [.c 0, .c 2] (.idxc (.var 7) 2),
    .assign 0 [.c 0, .c 3] (.idxc (.var 7) 3)]

theorem fn_8_body : fn_8.body = seqs (msPro ++ [seqs ([msLoop] ++ [seqs (msTail ++ [.ret [(.var 0)]])])]) := rfl

section MultiSelect
variable {P : Prog} {G : Nat → Val} {X : Oracle}

/-- the state of the loop: `i` rounds done, accumulator `o` -/
structure InvMS (env : Env) (v : Val) (pre : List (List Nat)) (width bits i : Nat) (o : List Nat) : Prop where
  h0 : env 0 = v
  h1 : env 1 = tableV pre
  h2 : env 2 = .int (width : Int)
  h3 : env 3 = .int (bits : Int)
  h11 : env 11 = .int (i : Int)
  h7 : env 7 = limbsV o

/-- `out[k] |= pre[k] & cond` -/
theorem evalV_orand {env : Env} {x y z k : Nat} {lo le : List Nat} {c : Nat}
    (hx : env x = limbsV lo) (hy : env y = limbsV le) (hz : env z = .int (c : Int))
    (hk1 : k < lo.length) (hk2 : k < le.length) (hc : c < 18446744073709551616)
    (ho : lo.getD k 0 < 18446744073709551616) :
    evalV G env (.op2 (.or .u64) (.idxc (.var x) k) (.op2 (.and .u64) (.idxc (.var y) k) (.var z)))
      = some (.int ((lo.getD k 0 ||| (le.getD k 0 &&& c) : Nat) : Int)) := by
  have a1 : evalV G env (.idxc (.var x) k) = some (.int ((lo.getD k 0 : Nat) : Int)) :=
    evalV_limb (by rw [evalV_var, hx]) hk1
  have a2 : evalV G env (.idxc (.var y) k) = some (.int ((le.getD k 0 : Nat) : Int)) :=
    evalV_limb (by rw [evalV_var, hy]) hk2
  have hand : le.getD k 0 &&& c < 18446744073709551616 := Nat.lt_of_le_of_lt Nat.and_le_right hc
  rw [evalV_op2, a1, evalV_op2, a2, evalV_var, hz]
  simp only [and_u64_eq _ _ hc, Option.map_some, or_u64_eq _ _ ho hand]

/-- `out[k] = fb[k] & fbCond` -/
theorem evalV_and {env : Env} {y z k : Nat} {le : List Nat} {c : Nat}
    (hy : env y = limbsV le) (hz : env z = .int (c : Int)) (hk2 : k < le.length) (hc : c < 18446744073709551616) :
    evalV G env (.op2 (.and .u64) (.idxc (.var y) k) (.var z)) = some (.int ((le.getD k 0 &&& c : Nat) : Int)) := by
  have a2 : evalV G env (.idxc (.var y) k) = some (.int ((le.getD k 0 : Nat) : Int)) :=
    evalV_limb (by rw [evalV_var, hy]) hk2
  rw [evalV_op2, a2, evalV_var, hz]
  simp only [and_u64_eq _ _ hc, Option.map_some]

theorem ms_cond_true {env : Env} {i w : Nat} (h11 : env 11 = .int (i : Int)) (h2 : env 2 = .int (w : Int)) (h : i < w) :
    evalV G env msCond = some (.int 1) := by
  have : (i : Int) < (w : Int) := by omega
  simp [msCond, evalV_op2, evalV_var, h11, h2, evalOp2, ofBool, this]

theorem ms_cond_false {env : Env} {i w : Nat} (h11 : env 11 = .int (i : Int)) (h2 : env 2 = .int (w : Int)) (h : ¬ i < w) :
    evalV G env msCond = some (.int 0) := by
  have : ¬ (i : Int) < (w : Int) := by omega
  simp [msCond, evalV_op2, evalV_var, h11, h2, evalOp2, ofBool, this]

/-- the mask of round `i` -/
theorem ms_mask {env : Env} {i bits : Nat} (h11 : env 11 = .int (i : Int)) (h3 : env 3 = .int (bits : Int)) :
    evalV G env (.op2 (.mul .u64) (.op1 (.conv .u64) (.op2 .cteq8 (.op1 (.conv .u8) (.var 11)) (.op2 (.sub .u8) (.var 3) (.lit 1)))) (.lit 18446744073709551615))
      = some (.int ((maskOf (Model.Field.byteEq i (bits + 255)) : Nat) : Int)) := by
  simp only [evalV_op2, evalV_op1, evalV_var, evalV_lit, h11, h3, evalOp2, evalOp1, Option.map_some, byteEq_eq,
    mask_u64_eq]

/-- one round of the body at index `i`, row `i` of the table present -/
theorem ms_body_round {env : Env} {v : Val} {pre : List (List Nat)} {width bits i : Nat} {o row : List Nat}
    (h : InvMS env v pre width bits i o) (ho : Out4 o) (hr : pre[i]? = some row) (hrow : 4 ≤ row.length) :
    ∃ env1, EvIn P G X 11 env msBody env1 .norm ∧ InvMS env1 v pre width bits i (msStep pre bits o i) := by
  obtain ⟨o0, o1, o2, o3, rfl, b0, b1, b2, b3⟩ := ho
  obtain ⟨h0, h1, h2, h3, h11, h7⟩ := h
  have hc := maskOf_lt (Model.Field.byteEq i (bits + 255))
  generalize hcdef : maskOf (Model.Field.byteEq i (bits + 255)) = c at hc
  have hrow' : pre.getD i [] = row := by rw [List.getD_eq_getElem?_getD, hr]; rfl
  have hstep : msStep pre bits [o0, o1, o2, o3] i =
      [o0 ||| (row.getD 0 0 &&& c), o1 ||| (row.getD 1 0 &&& c), o2 ||| (row.getD 2 0 &&& c), o3 ||| (row.getD 3 0 &&& c)] := by
    simp only [msStep, hrow', hcdef]; rfl
  rw [hstep]
  let e1 := env.set 12 (.int (c : Int))
  let e2 := e1.set 8 (limbsV row)
  let e3 := e2.set 7 (limbsV [o0 ||| (row.getD 0 0 &&& c), o1, o2, o3])
  let e4 := e3.set 7 (limbsV [o0 ||| (row.getD 0 0 &&& c), o1 ||| (row.getD 1 0 &&& c), o2, o3])
  let e5 := e4.set 7 (limbsV [o0 ||| (row.getD 0 0 &&& c), o1 ||| (row.getD 1 0 &&& c), o2 ||| (row.getD 2 0 &&& c), o3])
  let e6 := e5.set 7 (limbsV [o0 ||| (row.getD 0 0 &&& c), o1 ||| (row.getD 1 0 &&& c), o2 ||| (row.getD 2 0 &&& c), o3 ||| (row.getD 3 0 &&& c)])
  have s1 := ms_mask (G := G) h11 h3
  rw [hcdef] at s1
  have s2 : evalV G e1 (.idx (.var 1) (.var 11)) = some (limbsV row) := by
    have g1 : e1 1 = tableV pre := by simp [e1, Env.set, h1]
    have g11 : e1 11 = .int (i : Int) := by simp [e1, Env.set, h11]
    simp only [evalV_idx, evalV_var, g1, g11, tableV, getIdx_ofNat, List.getElem?_map, hr, Option.map_some]
  have s3 : evalV G e2 (.op2 (.or .u64) (.idxc (.var 7) 0) (.op2 (.and .u64) (.idxc (.var 8) 0) (.var 12)))
      = some (.int ((o0 ||| (row.getD 0 0 &&& c) : Nat) : Int)) :=
    evalV_orand (lo := [o0, o1, o2, o3]) (le := row) (by simp [e2, e1, Env.set, h7]) (by simp [e2, Env.set])
      (by simp [e2, e1, Env.set]) (by simp) (by omega) hc b0
  have a3 : EvIn P G X 1 e2 _ e3 .norm :=
    EvIn.assignLimb (l := [o0, o1, o2, o3]) (k := 0) s3 (by simp [e2, e1, Env.set, h7]) (by simp)
  have s4 : evalV G e3 (.op2 (.or .u64) (.idxc (.var 7) 1) (.op2 (.and .u64) (.idxc (.var 8) 1) (.var 12)))
      = some (.int ((o1 ||| (row.getD 1 0 &&& c) : Nat) : Int)) :=
    evalV_orand (lo := [(o0 ||| (row.getD 0 0 &&& c)), o1, o2, o3]) (le := row) (by simp [e3, Env.set]) (by simp [e3, e2, Env.set])
      (by simp [e3, e2, e1, Env.set]) (by simp) (by omega) hc b1
  have a4 : EvIn P G X 1 e3 _ e4 .norm :=
    EvIn.assignLimb (l := [(o0 ||| (row.getD 0 0 &&& c)), o1, o2, o3]) (k := 1) s4 (by simp [e3, Env.set]) (by simp)
  have s5 : evalV G e4 (.op2 (.or .u64) (.idxc (.var 7) 2) (.op2 (.and .u64) (.idxc (.var 8) 2) (.var 12)))
      = some (.int ((o2 ||| (row.getD 2 0 &&& c) : Nat) : Int)) :=
    evalV_orand (lo := [(o0 ||| (row.getD 0 0 &&& c)), (o1 ||| (row.getD 1 0 &&& c)), o2, o3]) (le := row) (by simp [e4, Env.set]) (by simp [e4, e3, e2, Env.set])
      (by simp [e4, e3, e2, e1, Env.set]) (by simp) (by omega) hc b2
  have a5 : EvIn P G X 1 e4 _ e5 .norm :=
    EvIn.assignLimb (l := [(o0 ||| (row.getD 0 0 &&& c)), (o1 ||| (row.getD 1 0 &&& c)), o2, o3]) (k := 2) s5 (by simp [e4, Env.set]) (by simp)
  have s6 : evalV G e5 (.op2 (.or .u64) (.idxc (.var 7) 3) (.op2 (.and .u64) (.idxc (.var 8) 3) (.var 12)))
      = some (.int ((o3 ||| (row.getD 3 0 &&& c) : Nat) : Int)) :=
    evalV_orand (lo := [(o0 ||| (row.getD 0 0 &&& c)), (o1 ||| (row.getD 1 0 &&& c)), (o2 ||| (row.getD 2 0 &&& c)), o3]) (le := row) (by simp [e5, Env.set]) (by simp [e5, e4, e3, e2, Env.set])
      (by simp [e5, e4, e3, e2, e1, Env.set]) (by simp) (by omega) hc b3
  have a6 : EvIn P G X 1 e5 _ e6 .norm :=
    EvIn.assignLimb (l := [(o0 ||| (row.getD 0 0 &&& c)), (o1 ||| (row.getD 1 0 &&& c)), (o2 ||| (row.getD 2 0 &&& c)), o3]) (k := 3) s6 (by simp [e5, Env.set]) (by simp)
  refine ⟨e6, ?_, ?_⟩
  · exact (EvIn.seq (EvIn.assign s1) (EvIn.seq (EvIn.assign s2) (EvIn.seq a3 (EvIn.seq a4 (EvIn.seq a5 a6))))).mono (by decide)
  · refine ⟨?_, ?_, ?_, ?_, ?_, ?_⟩
    · simp [e6, e5, e4, e3, e2, e1, Env.set, h0]
    · simp [e6, e5, e4, e3, e2, e1, Env.set, h1]
    · simp [e6, e5, e4, e3, e2, e1, Env.set, h2]
    · simp [e6, e5, e4, e3, e2, e1, Env.set, h3]
    · simp [e6, e5, e4, e3, e2, e1, Env.set, h11]
    · simp [e6, Env.set]


theorem ms_post_step {env : Env} {v : Val} {pre : List (List Nat)} {width bits i : Nat} {o : List Nat}
    (h : InvMS env v pre width bits i o) (hi : i + 1 < 9223372036854775808) :
    ∃ env2, EvIn P G X 1 env msPost env2 .norm ∧ InvMS env2 v pre width bits (i + 1) o := by
  obtain ⟨h0, h1, h2, h3, h11, h7⟩ := h
  have s : evalV G env (.op2 (.add .i64) (.var 11) (.lit 1)) = some (.int ((i + 1 : Nat) : Int)) := by
    simp only [evalV_op2, evalV_var, evalV_lit, h11, evalOp2, Option.map_some]
    rw [norm_i64_small (by omega) (by omega)]
    rfl
  refine ⟨env.set 11 (.int ((i + 1 : Nat) : Int)), EvIn.assign s, ?_, ?_, ?_, ?_, ?_, ?_⟩ <;> simp [Env.set, *]

/-- the rows of the table that the loop reads -/
def RowsOk (pre : List (List Nat)) (n : Nat) : Prop := ∀ j, j < n → ∃ row, pre[j]? = some row ∧ 4 ≤ row.length

/-- the loop computes the fold of `msStep` over the remaining indices -/
theorem ms_loop_ok (v : Val) (pre : List (List Nat)) (width bits : Nat) (hw : width < 9223372036854775808)
    (hpre : RowsOk pre width) : ∀ (n i : Nat) (env : Env) (o : List Nat),
    InvMS env v pre width bits i o → Out4 o → i + n = width →
    ∃ env', EvIn P G X (13 * n + 1) env msLoop env' .norm ∧ env' 0 = v ∧
      env' 7 = limbsV ((List.range' i n).foldl (msStep pre bits) o) ∧
      Out4 ((List.range' i n).foldl (msStep pre bits) o) := by
  intro n
  induction n with
  | zero =>
    intro i env o h ho hin
    exact ⟨env, EvIn.loop_exit (ms_cond_false h.h11 h.h2 (by omega)) rfl, h.h0, h.h7, ho⟩
  | succ n ih =>
    intro i env o h ho hin
    obtain ⟨row, hr, hrow⟩ := hpre i (by omega)
    obtain ⟨env1, hbody, hinv1⟩ := ms_body_round (P := P) (G := G) (X := X) h ho hr hrow
    obtain ⟨env2, hpost, hinv2⟩ := ms_post_step (P := P) (G := G) (X := X) hinv1 (by omega)
    obtain ⟨env', hl, r0, r7, ro⟩ := ih (i + 1) env2 _ hinv2 (msStep_out4 pre bits o i ho) (by omega)
    refine ⟨env', ?_, r0, ?_, ?_⟩
    · exact (EvIn.loop_round (ms_cond_true h.h11 h.h2 (by omega)) rfl hbody (Or.inl rfl) hpost hl).mono (by omega)
    · rw [List.range'_succ, List.foldl_cons]; exact r7
    · rw [List.range'_succ, List.foldl_cons]; exact ro

/-- a table with fewer than `width` rows: the run is stuck (index out of range) -/
theorem ms_loop_stuck (v : Val) (pre : List (List Nat)) (width bits : Nat) (hw : width < 9223372036854775808)
    (hlen : pre.length < width) (hpre : RowsOk pre pre.length) : ∀ (n i : Nat) (env : Env) (o : List Nat),
    InvMS env v pre width bits i o → Out4 o → i + n = pre.length → Stuck P G X env msLoop := by
  intro n
  induction n with
  | zero =>
    intro i env o h ho hin
    have hnone : pre[i]? = none := List.getElem?_eq_none (by omega)
    apply Stuck.loop_body (ms_cond_true h.h11 h.h2 (by omega)) rfl
    apply Stuck.seq_right (EvIn.assign (ms_mask (G := G) h.h11 h.h3))
    apply Stuck.seq_left
    apply Stuck.assign
    have g1 : (env.set 12 (.int ((maskOf (Model.Field.byteEq i (bits + 255)) : Nat) : Int))) 1 = tableV pre := by
      simp [Env.set, h.h1]
    have g11 : (env.set 12 (.int ((maskOf (Model.Field.byteEq i (bits + 255)) : Nat) : Int))) 11 = .int (i : Int) := by
      simp [Env.set, h.h11]
    simp only [evalV_idx, evalV_var, g1, g11, tableV, getIdx_ofNat, List.getElem?_map, hnone, Option.map_none]
  | succ n ih =>
    intro i env o h ho hin
    obtain ⟨row, hr, hrow⟩ := hpre i (by omega)
    obtain ⟨env1, hbody, hinv1⟩ := ms_body_round (P := P) (G := G) (X := X) h ho hr hrow
    obtain ⟨env2, hpost, hinv2⟩ := ms_post_step (P := P) (G := G) (X := X) hinv1 (by omega)
    exact Stuck.loop_round (ms_cond_true h.h11 h.h2 (by omega)) rfl hbody (Or.inl rfl) hpost
      (ih (i + 1) env2 _ hinv2 (msStep_out4 pre bits o i ho) (by omega))


theorem len4 {α : Type} (l : List α) (h : l.length = 4) : ∃ a b c d, l = [a, b, c, d] := by
  match l, h with
  | [a, b, c, d], _ => exact ⟨a, b, c, d, rfl⟩

theorem evalV_mk4 (env : Env) : evalV G env (.mk (.lit 4) (.lit 0)) = some (limbsV [0, 0, 0, 0]) := by
  rw [evalV_mk]; rfl

/-- the state before the loop of MultiSelect -/
theorem ms_prologue (v : Val) (pre : List (List Nat)) (width bits : Nat) (fb : List Nat) (fc : Nat) (hfb : 4 ≤ fb.length) :
    ∃ envP, Pre P G X 18 (Env.ofList [v, tableV pre, .int (width : Int), .int (bits : Int), elemV fb, .int (fc : Int)])
      msPro envP ∧ InvMS envP v pre width bits 0 (msInit fb fc) := by
  have hm : 18446744073709551615 - maskOf fc < 18446744073709551616 := by omega
  generalize hmdef : 18446744073709551615 - maskOf fc = m at hm
  have hinit : msInit fb fc = [fb.getD 0 0 &&& m, fb.getD 1 0 &&& m, fb.getD 2 0 &&& m, fb.getD 3 0 &&& m] := by
    simp only [msInit, hmdef]
  rw [hinit]
  let e0 : Env := Env.ofList [v, tableV pre, .int (width : Int), .int (bits : Int), elemV fb, .int (fc : Int)]
  let e1 := e0.set 7 (limbsV [0, 0, 0, 0])
  let e2 := e1.set 8 (limbsV [0, 0, 0, 0])
  let e3 := e2.set 9 (limbsV fb)
  let e4 := e3.set 10 (.int (m : Int))
  let e5 := e4.set 7 (limbsV [fb.getD 0 0 &&& m, 0, 0, 0])
  let e6 := e5.set 7 (limbsV [fb.getD 0 0 &&& m, fb.getD 1 0 &&& m, 0, 0])
  let e7 := e6.set 7 (limbsV [fb.getD 0 0 &&& m, fb.getD 1 0 &&& m, fb.getD 2 0 &&& m, 0])
  let e8 := e7.set 7 (limbsV [fb.getD 0 0 &&& m, fb.getD 1 0 &&& m, fb.getD 2 0 &&& m, fb.getD 3 0 &&& m])
  let e9 := e8.set 11 (.int ((0 : Nat) : Int))
  have s3 : evalV G e2 (.idxc (.var 4) 0) = some (limbsV fb) := by
    have g4 : e2 4 = elemV fb := by simp [e2, e1, e0, Env.set, Env.ofList]
    simp only [evalV_idxc, evalV_var, g4, elemV]
    rfl
  have s4 : evalV G e3 (.op1 (.not .u64) (.op2 (.mul .u64) (.op1 (.conv .u64) (.var 5)) (.lit 18446744073709551615)))
      = some (.int (m : Int)) := by
    have g5 : e3 5 = .int (fc : Int) := by simp [e3, e2, e1, e0, Env.set, Env.ofList]
    simp only [evalV_op1, evalV_op2, evalV_var, evalV_lit, g5, evalOp2, evalOp1, Option.map_some, mask_u64_eq,
      not_u64_eq (maskOf_lt fc), hmdef]
  have s5 : evalV G e4 (.op2 (.and .u64) (.idxc (.var 9) 0) (.var 10)) = some (.int ((fb.getD 0 0 &&& m : Nat) : Int)) :=
    evalV_and (le := fb) (by simp [e4, e3, Env.set]) (by simp [e4, Env.set]) (by omega) hm
  have a5 : EvIn P G X 1 e4 _ e5 .norm :=
    EvIn.assignLimb (l := [0, 0, 0, 0]) (k := 0) s5 (by simp [e4, e3, e2, e1, Env.set]) (by simp)
  have s6 : evalV G e5 (.op2 (.and .u64) (.idxc (.var 9) 1) (.var 10)) = some (.int ((fb.getD 1 0 &&& m : Nat) : Int)) :=
    evalV_and (le := fb) (by simp [e5, e4, e3, Env.set]) (by simp [e5, e4, Env.set]) (by omega) hm
  have a6 : EvIn P G X 1 e5 _ e6 .norm :=
    EvIn.assignLimb (l := [fb.getD 0 0 &&& m, 0, 0, 0]) (k := 1) s6 (by simp [e5, Env.set]) (by simp)
  have s7 : evalV G e6 (.op2 (.and .u64) (.idxc (.var 9) 2) (.var 10)) = some (.int ((fb.getD 2 0 &&& m : Nat) : Int)) :=
    evalV_and (le := fb) (by simp [e6, e5, e4, e3, Env.set]) (by simp [e6, e5, e4, Env.set]) (by omega) hm
  have a7 : EvIn P G X 1 e6 _ e7 .norm :=
    EvIn.assignLimb (l := [fb.getD 0 0 &&& m, fb.getD 1 0 &&& m, 0, 0]) (k := 2) s7 (by simp [e6, Env.set]) (by simp)
  have s8 : evalV G e7 (.op2 (.and .u64) (.idxc (.var 9) 3) (.var 10)) = some (.int ((fb.getD 3 0 &&& m : Nat) : Int)) :=
    evalV_and (le := fb) (by simp [e7, e6, e5, e4, e3, Env.set]) (by simp [e7, e6, e5, e4, Env.set]) (by omega) hm
  have a8 : EvIn P G X 1 e7 _ e8 .norm :=
    EvIn.assignLimb (l := [fb.getD 0 0 &&& m, fb.getD 1 0 &&& m, fb.getD 2 0 &&& m, 0]) (k := 3) s8
      (by simp [e7, Env.set]) (by simp)
  have a9 : EvIn P G X 1 e8 (.assign 11 [] (.lit 0)) e9 .norm := EvIn.assign rfl
  refine ⟨e9, ?_, ?_⟩
  · exact Pre.cons (EvIn.assign (evalV_mk4 _)) (Pre.cons (EvIn.assign (evalV_mk4 _)) (Pre.cons (EvIn.assign s3)
      (Pre.cons (EvIn.assign s4) (Pre.cons a5 (Pre.cons a6 (Pre.cons a7 (Pre.cons a8 (Pre.cons a9 (Pre.nil _)))))))))
  · refine ⟨?_, ?_, ?_, ?_, ?_, ?_⟩
    · simp [e9, e8, e7, e6, e5, e4, e3, e2, e1, e0, Env.set, Env.ofList]
    · simp [e9, e8, e7, e6, e5, e4, e3, e2, e1, e0, Env.set, Env.ofList]
    · simp [e9, e8, e7, e6, e5, e4, e3, e2, e1, e0, Env.set, Env.ofList]
    · simp [e9, e8, e7, e6, e5, e4, e3, e2, e1, e0, Env.set, Env.ofList]
    · simp [e9, Env.set]
    · simp [e9, e8, Env.set]

/-- the copy of the accumulator into `v.x` and the return -/
theorem ms_tail {env : Env} {v0 r : List Nat} (hv : v0.length = 4) (hr : r.length = 4)
    (h0 : env 0 = elemV v0) (h7 : env 7 = limbsV r) :
    ∃ env', EvIn P G X 9 env (seqs (msTail ++ [.ret [(.var 0)]])) env' (.ret [elemV r]) := by
  obtain ⟨a, b, c, d, rfl⟩ := len4 v0 hv
  obtain ⟨r0, r1, r2, r3, rfl⟩ := len4 r hr
  let e1 := env.set 0 (elemV [r0, b, c, d])
  let e2 := e1.set 0 (elemV [r0, r1, c, d])
  let e3 := e2.set 0 (elemV [r0, r1, r2, d])
  let e4 := e3.set 0 (elemV [r0, r1, r2, r3])
  have s1 : evalV G env (.idxc (.var 7) 0) = some (.int (r0 : Int)) :=
    evalV_limb (l := [r0, r1, r2, r3]) (by rw [evalV_var, h7]) (by simp)
  have a1 : EvIn P G X 1 env _ e1 .norm := EvIn.assignElemLimb (l := [a, b, c, d]) (k := 0) s1 h0 (by simp)
  have s2 : evalV G e1 (.idxc (.var 7) 1) = some (.int (r1 : Int)) :=
    evalV_limb (l := [r0, r1, r2, r3]) (by rw [evalV_var]; simp [e1, Env.set, h7]) (by simp)
  have a2 : EvIn P G X 1 e1 _ e2 .norm :=
    EvIn.assignElemLimb (l := [r0, b, c, d]) (k := 1) s2 (by simp [e1, Env.set]) (by simp)
  have s3 : evalV G e2 (.idxc (.var 7) 2) = some (.int (r2 : Int)) :=
    evalV_limb (l := [r0, r1, r2, r3]) (by rw [evalV_var]; simp [e2, e1, Env.set, h7]) (by simp)
  have a3 : EvIn P G X 1 e2 _ e3 .norm :=
    EvIn.assignElemLimb (l := [r0, r1, c, d]) (k := 2) s3 (by simp [e2, Env.set]) (by simp)
  have s4 : evalV G e3 (.idxc (.var 7) 3) = some (.int (r3 : Int)) :=
    evalV_limb (l := [r0, r1, r2, r3]) (by rw [evalV_var]; simp [e3, e2, e1, Env.set, h7]) (by simp)
  have a4 : EvIn P G X 1 e3 _ e4 .norm :=
    EvIn.assignElemLimb (l := [r0, r1, r2, d]) (k := 3) s4 (by simp [e3, Env.set]) (by simp)
  have sr : evalVs G e4 [(.var 0)] = some [elemV [r0, r1, r2, r3]] := by
    simp [evalVs_cons, e4, Env.set]
  exact ⟨e4, (EvIn.seq a1 (EvIn.seq a2 (EvIn.seq a3 (EvIn.seq a4 (EvIn.ret sr))))).mono (by decide)⟩

end MultiSelect

/-! ### The whole function -/

section MultiSelectWhole
variable {G : Nat → Val} {X : Oracle}

/-- fuel that suffices for MultiSelect with `width` rounds -/
def fuelMS (width : Nat) : Nat := 13 * width + 32

theorem fn8_lookup : prog[f_fiat_SM2Element_MultiSelect]? = some fn_8 := rfl

theorem Out4.length {o : List Nat} (h : Out4 o) : o.length = 4 := by
  obtain ⟨a, b, c, d, rfl, _⟩ := h; rfl

/-- body level, for ANY program (the body calls nothing) -/
theorem multiSelect_body_ok {P : Prog} (v0 : List Nat) (pre : List (List Nat)) (width bits : Nat) (fb : List Nat) (fc : Nat)
    (hv : v0.length = 4) (hfb : 4 ≤ fb.length) (hw : width < 9223372036854775808) (hpre : RowsOk pre width) :
    ∃ env', EvIn P G X (fuelMS width - 1)
      (Env.ofList [elemV v0, tableV pre, .int (width : Int), .int (bits : Int), elemV fb, .int (fc : Int)]) fn_8.body env'
      (.ret [elemV (Model.Field.multiSelectLimbs pre width bits fb fc)]) := by
  obtain ⟨envP, hpro, hinv⟩ := ms_prologue (P := P) (G := G) (X := X) (elemV v0) pre width bits fb fc hfb
  obtain ⟨envL, hloop, l0, l7, lo⟩ := ms_loop_ok (P := P) (G := G) (X := X) (elemV v0) pre width bits hw hpre width 0 envP _
    hinv (msInit_out4 fb fc) (by omega)
  rw [← List.range_eq_range', ← multiSelect_unfold] at l7 lo
  obtain ⟨envT, htail⟩ := ms_tail (P := P) (G := G) (X := X) hv lo.length l0 l7
  refine ⟨envT, ?_⟩
  rw [fn_8_body]
  exact ((hpro _).1 _ _ _ (EvIn.seq hloop htail)).mono (by simp only [fuelMS]; omega)

/-- **MultiSelect** = `Model.Field.multiSelectLimbs`, for every `width` of a Go `int`, every `bits`, every
    `fallbackCond ≥ 0`, all limbs (no bound needed: the masks cut them), a table with at least `width`
    rows of (at least) 4 limbs -/
theorem ir_multiSelect_ok (v0 : List Nat) (pre : List (List Nat)) (width bits : Nat) (fb : List Nat) (fc : Nat)
    (hv : v0.length = 4) (hfb : 4 ≤ fb.length) (hw : width < 9223372036854775808) (hpre : RowsOk pre width) :
    ∀ f, fuelMS width ≤ f →
      runV prog G X f f_fiat_SM2Element_MultiSelect
        [elemV v0, tableV pre, .int (width : Int), .int (bits : Int), elemV fb, .int (fc : Int)]
        = .ret [elemV (Model.Field.multiSelectLimbs pre width bits fb fc)] := by
  obtain ⟨env', hb⟩ := multiSelect_body_ok (P := prog) (G := G) (X := X) v0 pre width bits fb fc hv hfb hw hpre
  intro f hf
  exact runV_of_EvIn fn8_lookup rfl rfl hb f (by simp only [fuelMS] at hf ⊢; omega)

/-- a table with fewer than `width` rows: `(*precomputed)[i]` is out of range, the run is stuck with every fuel -/
theorem ir_multiSelect_stuck (v0 : List Nat) (pre : List (List Nat)) (width bits : Nat) (fb : List Nat) (fc : Nat)
    (hfb : 4 ≤ fb.length) (hw : width < 9223372036854775808) (hlen : pre.length < width) (hpre : RowsOk pre pre.length) :
    ∀ f, runV prog G X f f_fiat_SM2Element_MultiSelect
        [elemV v0, tableV pre, .int (width : Int), .int (bits : Int), elemV fb, .int (fc : Int)] = .stuck := by
  obtain ⟨envP, hpro, hinv⟩ := ms_prologue (P := prog) (G := G) (X := X) (elemV v0) pre width bits fb fc hfb
  have hloop := ms_loop_stuck (P := prog) (G := G) (X := X) (elemV v0) pre width bits hw hlen hpre pre.length 0 envP _
    hinv (msInit_out4 fb fc) (by omega)
  refine runV_of_Stuck fn8_lookup ?_
  rw [fn_8_body]
  exact (hpro _).2 (Stuck.seq_left hloop)

end MultiSelectWhole


/-! ## 2. Select (through sm2Selectznz and sm2CmovznzU64) -/

theorem and_u64_eq' (m a : Nat) (hm : m < 18446744073709551616) :
    evalOp2 (.and .u64) (m : Int) (a : Int) = some (((m &&& a : Nat) : Nat) : Int) := by
  rw [Nat.and_comm m a]
  have h2 : a &&& m < 18446744073709551616 := Nat.lt_of_le_of_lt Nat.and_le_right hm
  simp only [evalOp2, pat_u64_nat, Nat.and_comm (m % 18446744073709551616), and_mask a m hm]
  rw [norm_u64_small h2]

theorem not_u64_op {m : Nat} (h : m < 18446744073709551616) :
    evalOp1 (.not .u64) (m : Int) = ((18446744073709551615 - m : Nat) : Int) := by
  simp only [evalOp1]; exact not_u64_eq h

/-- what `sm2CmovznzU64(&out, arg1, arg2, arg3)` stores: `(x1 & arg3) | (^x1 & arg2)`, `x1 = arg1 * 0xff…ff` -/
def cmovN (c a2 a3 : Nat) : Nat :=
  (maskOf c &&& a3) ||| ((18446744073709551615 - maskOf c) &&& a2)

theorem cmovN_zero (a2 a3 : Nat) (h : a2 < 18446744073709551616) : cmovN 0 a2 a3 = a2 := by
  have e : maskOf 0 = 0 := rfl
  have e2 := Nat.and_two_pow_sub_one_eq_mod a2 64
  rw [show (2 : Nat) ^ 64 - 1 = 18446744073709551615 from rfl, show (2 : Nat) ^ 64 = 18446744073709551616 from rfl,
    Nat.mod_eq_of_lt h] at e2
  simp only [cmovN, e, Nat.zero_and, Nat.zero_or, Nat.sub_zero, Nat.and_comm 18446744073709551615 a2, e2]

theorem cmovN_one (a2 a3 : Nat) (h : a3 < 18446744073709551616) : cmovN 1 a2 a3 = a3 := by
  have e : maskOf 1 = 18446744073709551615 := rfl
  have e2 := Nat.and_two_pow_sub_one_eq_mod a3 64
  rw [show (2 : Nat) ^ 64 - 1 = 18446744073709551615 from rfl, show (2 : Nat) ^ 64 = 18446744073709551616 from rfl,
    Nat.mod_eq_of_lt h] at e2
  simp only [cmovN, e, Nat.sub_self, Nat.zero_and, Nat.or_zero, Nat.and_comm 18446744073709551615 a3, e2]

theorem maskOf_mod (c : Nat) : maskOf (c % 18446744073709551616) = maskOf c := by
  simp only [maskOf]; omega

theorem fn_11_body : fn_11.body =
    seqs [.assign 5 [] (.op2 (.mul .u64) (.op1 (.conv .u64) (.var 1)) (.lit 18446744073709551615)),
      .assign 6 [] (.op2 (.or .u64) (.op2 (.and .u64) (.var 5) (.var 3)) (.op2 (.and .u64) (.op1 (.not .u64) (.var 5)) (.var 2))),
      .assign 0 [] (.var 6),
      .ret [(.var 0)]] := rfl

section Select
variable {P : Prog} {G : Nat → Val} {X : Oracle}

/-- sm2CmovznzU64, body level, any program (calls nothing), any `arg1` (not only 0/1), any old `*out1` -/
theorem cmov_body_ok (out1 : Val) (c a2 a3 : Nat) :
    ∃ env', EvIn P G X 7 (Env.ofList [out1, .int (c : Int), .int (a2 : Int), .int (a3 : Int)]) fn_11.body env'
      (.ret [.int ((cmovN c a2 a3 : Nat) : Int)]) := by
  let e0 : Env := Env.ofList [out1, .int (c : Int), .int (a2 : Int), .int (a3 : Int)]
  let e1 := e0.set 5 (.int ((maskOf c : Nat) : Int))
  let e2 := e1.set 6 (.int ((cmovN c a2 a3 : Nat) : Int))
  let e3 := e2.set 0 (.int ((cmovN c a2 a3 : Nat) : Int))
  have hm := maskOf_lt c
  have hm' : 18446744073709551615 - maskOf c < 18446744073709551616 := by omega
  have s1 : evalV G e0 (.op2 (.mul .u64) (.op1 (.conv .u64) (.var 1)) (.lit 18446744073709551615))
      = some (.int ((maskOf c : Nat) : Int)) := by
    have g1 : e0 1 = .int (c : Int) := by simp [e0, Env.ofList]
    simp only [evalV_op2, evalV_op1, evalV_var, evalV_lit, g1, evalOp2, evalOp1, Option.map_some, mask_u64_eq]
  have s2 : evalV G e1 (.op2 (.or .u64) (.op2 (.and .u64) (.var 5) (.var 3)) (.op2 (.and .u64) (.op1 (.not .u64) (.var 5)) (.var 2)))
      = some (.int ((cmovN c a2 a3 : Nat) : Int)) := by
    have g5 : e1 5 = .int ((maskOf c : Nat) : Int) := by simp [e1, Env.set]
    have g3 : e1 3 = .int (a3 : Int) := by simp [e1, e0, Env.set, Env.ofList]
    have g2 : e1 2 = .int (a2 : Int) := by simp [e1, e0, Env.set, Env.ofList]
    have b1 : maskOf c &&& a3 < 18446744073709551616 := Nat.lt_of_le_of_lt Nat.and_le_left hm
    have b2 : (18446744073709551615 - maskOf c) &&& a2 < 18446744073709551616 := Nat.lt_of_le_of_lt Nat.and_le_left hm'
    simp only [evalV_op2, evalV_op1, evalV_var, g5, g3, g2, not_u64_op hm, and_u64_eq' _ _ hm, and_u64_eq' _ _ hm',
      Option.map_some, or_u64_eq _ _ b1 b2, cmovN]
  have s3 : evalV G e2 (.var 6) = some (.int ((cmovN c a2 a3 : Nat) : Int)) := by simp [e2, Env.set]
  have sr : evalVs G e3 [(.var 0)] = some [.int ((cmovN c a2 a3 : Nat) : Int)] := by simp [evalVs_cons, e3, Env.set]
  rw [fn_11_body]
  exact ⟨e3, (EvIn.seq (EvIn.assign s1) (EvIn.seq (EvIn.assign s2) (EvIn.seq (EvIn.assign s3) (EvIn.ret sr)))).mono (by decide)⟩


/-- the `k`-th call of sm2CmovznzU64 in sm2Selectznz with its store `out1[k] = t` -/
def szPair (t k : Nat) : List Stmt :=
  [.call [t] 11 [(.idxc (.var 0) k), (.var 1), (.idxc (.var 2) k), (.idxc (.var 3) k)], .assign 0 [.c k] (.var t)]

theorem fn_10_body : fn_10.body =
    seqs ((szPair 5 0 ++ (szPair 6 1 ++ (szPair 7 2 ++ szPair 8 3))) ++ [.ret [(.var 0)]]) := rfl

structure InvSZ (env : Env) (o : List Nat) (c : Nat) (a2 a3 : List Nat) : Prop where
  h0 : env 0 = limbsV o
  h1 : env 1 = .int (c : Int)
  h2 : env 2 = limbsV a2
  h3 : env 3 = limbsV a3

theorem sz_pair (h11 : P[11]? = some fn_11) {env : Env} {t k : Nat} {o a2 a3 : List Nat} {c : Nat}
    (h : InvSZ env o c a2 a3) (ht : 4 ≤ t) (hk : k < o.length) (hk2 : k < a2.length) (hk3 : k < a3.length) :
    ∃ env', Pre P G X 11 env (szPair t k) env' ∧
      InvSZ env' (o.set k (cmovN c (a2.getD k 0) (a3.getD k 0))) c a2 a3 := by
  obtain ⟨h0, h1, h2, h3⟩ := h
  have q0 : evalV G env (.idxc (.var 0) k) = some (.int ((o.getD k 0 : Nat) : Int)) :=
    evalV_limb (by rw [evalV_var, h0]) hk
  have q2 : evalV G env (.idxc (.var 2) k) = some (.int ((a2.getD k 0 : Nat) : Int)) :=
    evalV_limb (by rw [evalV_var, h2]) hk2
  have q3 : evalV G env (.idxc (.var 3) k) = some (.int ((a3.getD k 0 : Nat) : Int)) :=
    evalV_limb (by rw [evalV_var, h3]) hk3
  have ha : evalVs G env [(.idxc (.var 0) k), (.var 1), (.idxc (.var 2) k), (.idxc (.var 3) k)]
      = some [.int ((o.getD k 0 : Nat) : Int), .int (c : Int), .int ((a2.getD k 0 : Nat) : Int), .int ((a3.getD k 0 : Nat) : Int)] := by
    simp only [evalVs_cons, evalVs_nil, q0, evalV_var, h1, q2, q3]
  obtain ⟨envc, hb⟩ := cmov_body_ok (P := P) (G := G) (X := X) (.int ((o.getD k 0 : Nat) : Int)) c (a2.getD k 0) (a3.getD k 0)
  let e1 := env.set t (.int ((cmovN c (a2.getD k 0) (a3.getD k 0) : Nat) : Int))
  have c1 : EvIn P G X 8 env (.call [t] 11 [(.idxc (.var 0) k), (.var 1), (.idxc (.var 2) k), (.idxc (.var 3) k)]) e1 .norm :=
    EvIn.call ha h11 rfl rfl hb rfl
  have s : evalV G e1 (.var t) = some (.int ((cmovN c (a2.getD k 0) (a3.getD k 0) : Nat) : Int)) := by
    simp [e1, Env.set]
  have g0 : e1 0 = limbsV o := (Env.set_other env _ (by omega : 0 ≠ t)).trans h0
  have c2 := EvIn.assignLimb (P := P) (X := X) (x := 0) s g0 hk
  refine ⟨_, (Pre.cons c1 (Pre.cons c2 (Pre.nil _))).mono (by decide), ⟨Env.set_same _ _ _, ?_, ?_, ?_⟩⟩
  · exact (Env.set_other _ _ (by omega : (1 : Nat) ≠ 0)).trans ((Env.set_other env _ (by omega : 1 ≠ t)).trans h1)
  · exact (Env.set_other _ _ (by omega : (2 : Nat) ≠ 0)).trans ((Env.set_other env _ (by omega : 2 ≠ t)).trans h2)
  · exact (Env.set_other _ _ (by omega : (3 : Nat) ≠ 0)).trans ((Env.set_other env _ (by omega : 3 ≠ t)).trans h3)

/-- what `sm2Selectznz(&out, arg1, &arg2, &arg3)` stores -/
def selznzN (c : Nat) (a2 a3 : List Nat) : List Nat :=
  [cmovN c (a2.getD 0 0) (a3.getD 0 0), cmovN c (a2.getD 1 0) (a3.getD 1 0),
   cmovN c (a2.getD 2 0) (a3.getD 2 0), cmovN c (a2.getD 3 0) (a3.getD 3 0)]

/-- sm2Selectznz, body level, in any program whose function 11 is sm2CmovznzU64 -/
theorem selznz_body_ok (h11 : P[11]? = some fn_11) (o a2 a3 : List Nat) (c : Nat)
    (ho : o.length = 4) (h2 : 4 ≤ a2.length) (h3 : 4 ≤ a3.length) :
    ∃ env', EvIn P G X 45 (Env.ofList [limbsV o, .int (c : Int), limbsV a2, limbsV a3]) fn_10.body env'
      (.ret [limbsV (selznzN c a2 a3)]) := by
  obtain ⟨x0, x1, x2, x3, rfl⟩ := len4 o ho
  have i0 : InvSZ (Env.ofList [limbsV [x0, x1, x2, x3], .int (c : Int), limbsV a2, limbsV a3]) [x0, x1, x2, x3] c a2 a3 :=
    ⟨rfl, rfl, rfl, rfl⟩
  obtain ⟨e1, p1, i1⟩ := sz_pair (G := G) (X := X) h11 (t := 5) (k := 0) i0 (by omega) (by simp) (by omega) (by omega)
  obtain ⟨e2, p2, i2⟩ := sz_pair (G := G) (X := X) h11 (t := 6) (k := 1) i1 (by omega) (by simp) (by omega) (by omega)
  obtain ⟨e3, p3, i3⟩ := sz_pair (G := G) (X := X) h11 (t := 7) (k := 2) i2 (by omega) (by simp) (by omega) (by omega)
  obtain ⟨e4, p4, i4⟩ := sz_pair (G := G) (X := X) h11 (t := 8) (k := 3) i3 (by omega) (by simp) (by omega) (by omega)
  have sr : evalVs G e4 [(.var 0)] = some [limbsV (selznzN c a2 a3)] := by
    simp only [evalVs_cons, evalVs_nil, evalV_var, i4.h0]
    rfl
  rw [fn_10_body]
  exact ⟨e4, ((Pre.append p1 (Pre.append p2 (Pre.append p3 p4)) _).1 _ _ _ (EvIn.ret sr)).mono (by decide)⟩

/-- what `v.Select(a, b, cond)` stores for ANY `cond ≥ 0`: limb-wise
    `(m & a[k]) | (^m & b[k])` with `m = uint64(cond) * 0xffffffffffffffff` -/
def selectN (a b : List Nat) (cond : Nat) : List Nat := selznzN (cond % 18446744073709551616) b a

theorem fn_9_body : fn_9.body =
    seqs ([.call [5] 10 [(.idxc (.var 0) 0), (.op1 (.conv .u64) (.var 3)), (.idxc (.var 2) 0), (.idxc (.var 1) 0)],
      .assign 0 [.c 0] (.var 5)] ++ [.seq (.ret [(.var 0), (.var 0)]) .panic]) := rfl

theorem evalV_field0 {env : Env} {x : Nat} {l : List Nat} (h : env x = elemV l) :
    evalV G env (.idxc (.var x) 0) = some (limbsV l) := by
  simp only [evalV_idxc, evalV_var, h, elemV]
  rfl

/-- Select, body level, in any program whose functions 10, 11 are sm2Selectznz, sm2CmovznzU64 -/
theorem select_body_ok (h10 : P[10]? = some fn_10) (h11 : P[11]? = some fn_11) (v0 a b : List Nat) (cond : Nat)
    (hv : v0.length = 4) (ha : 4 ≤ a.length) (hb : 4 ≤ b.length) :
    ∃ env', EvIn P G X 53 (Env.ofList [elemV v0, elemV a, elemV b, .int (cond : Int)]) fn_9.body env'
      (.ret [elemV (selectN a b cond), elemV (selectN a b cond)]) := by
  let e0 : Env := Env.ofList [elemV v0, elemV a, elemV b, .int (cond : Int)]
  let r := selectN a b cond
  let e1 := e0.set 5 (limbsV r)
  let e2 := e1.set 0 (elemV r)
  have hargs : evalVs G e0 [(.idxc (.var 0) 0), (.op1 (.conv .u64) (.var 3)), (.idxc (.var 2) 0), (.idxc (.var 1) 0)]
      = some [limbsV v0, .int ((cond % 18446744073709551616 : Nat) : Int), limbsV b, limbsV a] := by
    have q0 : evalV G e0 (.idxc (.var 0) 0) = some (limbsV v0) := evalV_field0 rfl
    have q1 : evalV G e0 (.idxc (.var 1) 0) = some (limbsV a) := evalV_field0 rfl
    have q2 : evalV G e0 (.idxc (.var 2) 0) = some (limbsV b) := evalV_field0 rfl
    have g3 : e0 3 = .int (cond : Int) := rfl
    simp only [evalVs_cons, evalVs_nil, q0, q1, q2, evalV_op1, evalV_var, g3, evalOp1, norm]
    rfl
  obtain ⟨envc, hbody⟩ := selznz_body_ok (P := P) (G := G) (X := X) h11 v0 b a (cond % 18446744073709551616) hv hb ha
  have c1 : EvIn P G X 46 e0 (.call [5] 10 [(.idxc (.var 0) 0), (.op1 (.conv .u64) (.var 3)), (.idxc (.var 2) 0), (.idxc (.var 1) 0)]) e1 .norm :=
    EvIn.call hargs h10 rfl rfl hbody rfl
  have c2 : EvIn P G X 1 e1 (.assign 0 [.c 0] (.var 5)) e2 .norm := by
    have s : evalV G e1 (.var 5) = some (limbsV r) := by simp [e1, Env.set]
    have g0 : e1 0 = .arr [limbsV v0] := by simp [e1, e0, Env.set, Env.ofList, elemV]
    exact EvIn.assignPath s (ks := [0]) (by simp [pathV_c]) (by rw [g0, updPath_c1 _ _ _ (by simp)]; rfl)
  have sr : evalVs G e2 [(.var 0), (.var 0)] = some [elemV r, elemV r] := by simp [evalVs_cons, e2, Env.set]
  rw [fn_9_body]
  exact ⟨e2, ((Pre.cons c1 (Pre.cons c2 (Pre.nil _)) _).1 _ _ _ (EvIn.seq_stop (EvIn.ret sr) (by simp))).mono (by decide)⟩

end Select

section SelectWhole
variable {G : Nat → Val} {X : Oracle}

def fuelSelect : Nat := 54

theorem fn9_lookup : prog[f_fiat_SM2Element_Select]? = some fn_9 := rfl

/-- **Select**, every `cond ≥ 0`: the IR stores (and returns) the limb-wise mix `selectN a b cond` -/
theorem ir_select_general (v0 a b : List Nat) (cond : Nat) (hv : v0.length = 4) (ha : 4 ≤ a.length) (hb : 4 ≤ b.length) :
    ∀ f, fuelSelect ≤ f →
      runV prog G X f f_fiat_SM2Element_Select [elemV v0, elemV a, elemV b, .int (cond : Int)]
        = .ret [elemV (selectN a b cond), elemV (selectN a b cond)] := by
  obtain ⟨env', hb⟩ := select_body_ok (P := prog) (G := G) (X := X) rfl rfl v0 a b cond hv ha hb
  intro f hf
  exact runV_of_EvIn fn9_lookup rfl rfl hb f (by simp only [fuelSelect] at hf; omega)

/-- on `cond ∈ {0, 1}` and elements of four limbs below 2^64 the mix is the model's `select` -/
theorem selectN_eq_model (a b : List Nat) (cond : Nat) (ha : Out4 a) (hb : Out4 b) (hc : cond ≤ 1) :
    selectN a b cond = Model.Field.select a b cond := by
  obtain ⟨a0, a1, a2, a3, rfl, ha0, ha1, ha2, ha3⟩ := ha
  obtain ⟨b0, b1, b2, b3, rfl, hb0, hb1, hb2, hb3⟩ := hb
  have : cond = 0 ∨ cond = 1 := by omega
  rcases this with rfl | rfl
  · simp only [selectN, selznzN, Model.Field.select, Nat.zero_mod, List.getD_cons_zero, List.getD_cons_succ,
      cmovN_zero _ _ hb0, cmovN_zero _ _ hb1, cmovN_zero _ _ hb2, cmovN_zero _ _ hb3, if_true]
  · simp only [selectN, selznzN, Model.Field.select, show 1 % 18446744073709551616 = 1 from rfl, List.getD_cons_zero,
      List.getD_cons_succ, cmovN_one _ _ ha0, cmovN_one _ _ ha1, cmovN_one _ _ ha2, cmovN_one _ _ ha3]
    rfl

/-- **Select** = `Model.Field.select` for `cond ∈ {0, 1}` -/
theorem ir_select_ok (v0 a b : List Nat) (cond : Nat) (hv : v0.length = 4) (ha : Out4 a) (hb : Out4 b) (hc : cond ≤ 1) :
    ∀ f, fuelSelect ≤ f →
      runV prog G X f f_fiat_SM2Element_Select [elemV v0, elemV a, elemV b, .int (cond : Int)]
        = .ret [elemV (Model.Field.select a b cond), elemV (Model.Field.select a b cond)] := by
  rw [← selectN_eq_model a b cond ha hb hc]
  exact ir_select_general v0 a b cond hv (by rw [ha.length]; omega) (by rw [hb.length]; omega)

/-- DISAGREEMENT outside `cond ∈ {0, 1}`: for `cond = 2`, a = [1,2,3,4], b = [8,16,32,64] the IR (as the Go
    code: `sm2Uint1(cond)` is a plain conversion to uint64, the mask is `2 * 0xff…ff = 0xff…fe`) stores the
    bit-mix [0,2,2,4], the model `Model.Field.select` (`if cond = 0 then b else a`) says a = [1,2,3,4] -/
theorem select_cond2_disagrees :
    selectN [1, 2, 3, 4] [8, 16, 32, 64] 2 = [0, 2, 2, 4] ∧
      Model.Field.select [1, 2, 3, 4] [8, 16, 32, 64] 2 = [1, 2, 3, 4] := by
  decide

end SelectWhole


/-! ## 3. Bytes, IsZero, Equal, SetBytes modulo the Fiat primitives -/

/-! ### sm2InvertEndianness: reverses an array in place (fully proved, any array) -/

def ieIdx : Expr := .op2 (.sub .i64) (.op2 (.sub .i64) (.len (.var 0)) (.lit 1)) (.var 2)
def ieCond : Expr := .op2 .lt (.var 2) (.op1 (.shrc 1) (.len (.var 0)))
def ieBody : Stmt := seqs [.assign 3 [] (.idx (.var 0) ieIdx),
    .assign 4 [] (.idx (.var 0) (.var 2)),
    .assign 0 [.e (.var 2)] (.var 3),
    .assign 0 [.e ieIdx] (.var 4)]
def iePost : Stmt := .assign 2 [] (.op2 (.add .i64) (.var 2) (.lit 1))
def ieLoop : Stmt := .loop ieCond ieBody iePost

theorem fn_32_body : fn_32.body = seqs [.assign 2 [] (.lit 0), ieLoop, .ret [(.var 0)]] := rfl

section InvertEndianness
variable {P : Prog} {G : Nat → Val} {X : Oracle}

/-- `x[ie] = e`, computed index -/
theorem _root_.SMGo.Model.CTIR.EvIn.assignIdxE {env : Env} {x : Nat} {ie e : Expr} {l : List Val} {k : Nat} {v : Val}
    (he : evalV G env e = some v) (hi : evalV G env ie = some (.int (k : Int))) (hx : env x = .arr l) (hk : k < l.length) :
    EvIn P G X 1 env (.assign x [.e ie] e) (env.set x (.arr (l.set k v))) .norm := by
  refine EvIn.assignPath he (ks := [k]) ?_ ?_
  · have : ¬ ((k : Int) < 0) := by omega
    simp [pathV_e, hi, this]
  · rw [hx, updPath_c1 _ _ _ hk]

theorem ie_idx {env : Env} {cur : List Val} {i : Nat} (h0 : env 0 = .arr cur) (h2 : env 2 = .int (i : Int))
    (hn : cur.length < 9223372036854775808) (hi : i < cur.length) :
    evalV G env ieIdx = some (.int ((cur.length - 1 - i : Nat) : Int)) := by
  simp only [ieIdx, evalV_op2, evalV_len, evalV_var, evalV_lit, h0, h2, evalOp2, Option.map_some]
  rw [norm_i64_small (n := (cur.length : Int) - 1) (by omega) (by omega), norm_i64_small (by omega) (by omega)]
  congr 2; omega

theorem ie_cond {env : Env} {cur : List Val} {i : Nat} (h0 : env 0 = .arr cur) (h2 : env 2 = .int (i : Int)) :
    evalV G env ieCond = some (.int (ofBool (decide (i < cur.length / 2)))) := by
  have e : ((cur.length : Int) >>> 1) = ((cur.length / 2 : Nat) : Int) := by
    rw [show ((cur.length : Int) >>> 1) = ((cur.length >>> 1 : Nat) : Int) from rfl, Nat.shiftRight_eq_div_pow]
  simp only [ieCond, evalV_op2, evalV_op1, evalV_len, evalV_var, h0, h2, evalOp2, evalOp1, Option.map_some, e]
  congr 3
  simp only [decide_eq_decide]
  omega

/-- one round: swap positions `i` and `n-1-i` -/
theorem ie_body_round {env : Env} {cur : List Val} {i : Nat} {x y : Val} (h0 : env 0 = .arr cur) (h2 : env 2 = .int (i : Int))
    (hn : cur.length < 9223372036854775808) (hi : i < cur.length)
    (hx : cur[cur.length - 1 - i]? = some x) (hy : cur[i]? = some y) :
    ∃ env1, EvIn P G X 7 env ieBody env1 .norm ∧ env1 0 = .arr ((cur.set i x).set (cur.length - 1 - i) y) ∧
      env1 2 = .int (i : Int) := by
  let e1 := env.set 3 x
  let e2 := e1.set 4 y
  let e3 := e2.set 0 (.arr (cur.set i x))
  let e4 := e3.set 0 (.arr ((cur.set i x).set (cur.length - 1 - i) y))
  have s1 : evalV G env (.idx (.var 0) ieIdx) = some x := by
    rw [evalV_idx, evalV_var, h0, ie_idx h0 h2 hn hi]
    simp only [getIdx_ofNat, hx]
  have s2 : evalV G e1 (.idx (.var 0) (.var 2)) = some y := by
    have g0 : e1 0 = .arr cur := by simp [e1, Env.set, h0]
    have g2 : e1 2 = .int (i : Int) := by simp [e1, Env.set, h2]
    simp only [evalV_idx, evalV_var, g0, g2, getIdx_ofNat, hy]
  have a3 : EvIn P G X 1 e2 (.assign 0 [.e (.var 2)] (.var 3)) e3 .norm :=
    EvIn.assignIdxE (l := cur) (k := i) (by simp [e2, e1, Env.set]) (by simp [e2, e1, Env.set, h2])
      (by simp [e2, e1, Env.set, h0]) hi
  have a4 : EvIn P G X 1 e3 (.assign 0 [.e ieIdx] (.var 4)) e4 .norm := by
    have g0 : e3 0 = .arr (cur.set i x) := by simp [e3, Env.set]
    have g2 : e3 2 = .int (i : Int) := by simp [e3, e2, e1, Env.set, h2]
    have hi' := ie_idx (G := G) g0 g2 (by simpa using hn) (by simpa using hi)
    rw [List.length_set] at hi'
    exact EvIn.assignIdxE (l := cur.set i x) (k := cur.length - 1 - i) (by simp [e3, e2, Env.set]) hi' g0
      (by rw [List.length_set]; omega)
  refine ⟨e4, ?_, ?_, ?_⟩
  · exact (EvIn.seq (EvIn.assign s1) (EvIn.seq (EvIn.assign s2) (EvIn.seq a3 a4))).mono (by decide)
  · simp [e4, Env.set]
  · simp [e4, e3, e2, e1, Env.set, h2]

/-- after `i` rounds the first `i` and the last `i` positions are exchanged -/
def Swapped (l cur : List Val) (i : Nat) : Prop :=
  cur.length = l.length ∧
    ∀ j, j < l.length → cur[j]? = if j < i ∨ l.length - i ≤ j then l[l.length - 1 - j]? else l[j]?

theorem swapped_zero (l : List Val) : Swapped l l 0 := by
  refine ⟨rfl, fun j hj => ?_⟩
  have : ¬ (j < 0 ∨ l.length - 0 ≤ j) := by omega
  rw [if_neg this]

theorem swapped_step {l cur : List Val} {i : Nat} (h : Swapped l cur i) (hi : i < l.length / 2) :
    ∃ x y, cur[cur.length - 1 - i]? = some x ∧ cur[i]? = some y ∧
      Swapped l ((cur.set i x).set (cur.length - 1 - i) y) (i + 1) := by
  obtain ⟨hlen, hc⟩ := h
  have hx := hc (l.length - 1 - i) (by omega)
  have hy := hc i (by omega)
  rw [if_neg (by omega)] at hx hy
  have hx' : l[l.length - 1 - i]? = some (l[l.length - 1 - i]'(by omega)) := List.getElem?_eq_getElem (by omega)
  have hy' : l[i]? = some (l[i]'(by omega)) := List.getElem?_eq_getElem (by omega)
  refine ⟨l[l.length - 1 - i]'(by omega), l[i]'(by omega), by rw [hlen, hx, hx'], by rw [hy, hy'], ?_, ?_⟩
  · simp [hlen]
  · intro j hj
    rw [hlen, List.getElem?_set, List.getElem?_set]
    by_cases h1 : l.length - 1 - i = j
    · subst h1
      rw [if_pos rfl, if_pos (by rw [List.length_set]; omega), if_pos (by omega)]
      rw [← hy']; congr 1; omega
    · rw [if_neg h1]
      by_cases h2 : i = j
      · subst h2
        rw [if_pos rfl, if_pos (by omega), if_pos (by omega), ← hx']
      · rw [if_neg h2, hc j hj]
        by_cases h3 : j < i ∨ l.length - i ≤ j
        · rw [if_pos h3, if_pos (by omega)]
        · rw [if_neg h3, if_neg (by omega)]

theorem swapped_done {l cur : List Val} (h : Swapped l cur (l.length / 2)) : cur = l.reverse := by
  obtain ⟨hlen, hc⟩ := h
  apply List.ext_getElem?
  intro j
  by_cases hj : j < l.length
  · rw [hc j hj, List.getElem?_reverse hj]
    by_cases h3 : j < l.length / 2 ∨ l.length - l.length / 2 ≤ j
    · rw [if_pos h3]
    · rw [if_neg h3]; congr 1; omega
  · rw [List.getElem?_eq_none (by omega), List.getElem?_eq_none (by rw [List.length_reverse]; omega)]

theorem ie_post {env : Env} {cur : List Val} {i : Nat} (h0 : env 0 = .arr cur) (h2 : env 2 = .int (i : Int))
    (hi : i + 1 < 9223372036854775808) :
    ∃ env2, EvIn P G X 1 env iePost env2 .norm ∧ env2 0 = .arr cur ∧ env2 2 = .int ((i + 1 : Nat) : Int) := by
  have s : evalV G env (.op2 (.add .i64) (.var 2) (.lit 1)) = some (.int ((i + 1 : Nat) : Int)) := by
    simp only [evalV_op2, evalV_var, evalV_lit, h2, evalOp2, Option.map_some]
    rw [norm_i64_small (by omega) (by omega)]
    rfl
  exact ⟨env.set 2 (.int ((i + 1 : Nat) : Int)), EvIn.assign s, by simp [Env.set, h0], by simp [Env.set]⟩

theorem ie_loop_ok (l : List Val) (hn : l.length < 9223372036854775808) : ∀ (m i : Nat) (env : Env) (cur : List Val),
    env 0 = .arr cur → env 2 = .int (i : Int) → Swapped l cur i → i + m = l.length / 2 →
    ∃ env', EvIn P G X (9 * m + 1) env ieLoop env' .norm ∧ env' 0 = .arr l.reverse := by
  intro m
  induction m with
  | zero =>
    intro i env cur h0 h2 hs him
    have hc := ie_cond (G := G) h0 h2
    rw [hs.1, show decide (i < l.length / 2) = false from by simp; omega] at hc
    have : i = l.length / 2 := by omega
    subst this
    exact ⟨env, EvIn.loop_exit hc rfl, by rw [h0, swapped_done hs]⟩
  | succ m ih =>
    intro i env cur h0 h2 hs him
    have hc := ie_cond (G := G) h0 h2
    rw [hs.1, show decide (i < l.length / 2) = true from by simp; omega] at hc
    obtain ⟨x, y, hx, hy, hs'⟩ := swapped_step hs (by omega)
    obtain ⟨env1, hbody, b0, b2⟩ := ie_body_round (P := P) (G := G) (X := X) h0 h2 (by rw [hs.1]; exact hn)
      (by rw [hs.1]; omega) hx hy
    obtain ⟨env2, hpost, p0, p2⟩ := ie_post (P := P) (G := G) (X := X) b0 b2 (by omega)
    obtain ⟨env', hl, r0⟩ := ih (i + 1) env2 _ p0 p2 hs' (by omega)
    exact ⟨env', (EvIn.loop_round hc rfl hbody (Or.inl rfl) hpost hl).mono (by omega), r0⟩

/-- fuel for sm2InvertEndianness on an array of length `n` -/
def fuelIE (n : Nat) : Nat := 9 * (n / 2) + 8

/-- sm2InvertEndianness, body level, any program (calls nothing), any array shorter than 2^63 -/
theorem ie_fn_body_ok (l : List Val) (hn : l.length < 9223372036854775808) :
    ∃ env', EvIn P G X (fuelIE l.length - 1) (Env.ofList [.arr l]) fn_32.body env' (.ret [.arr l.reverse]) := by
  have a1 : EvIn P G X 1 (Env.ofList [.arr l]) (.assign 2 [] (.lit 0)) ((Env.ofList [.arr l]).set 2 (.int ((0 : Nat) : Int))) .norm :=
    EvIn.assign rfl
  obtain ⟨env', hl, r0⟩ := ie_loop_ok (P := P) (G := G) (X := X) l hn (l.length / 2) 0
    ((Env.ofList [.arr l]).set 2 (.int ((0 : Nat) : Int))) l (by simp [Env.set, Env.ofList]) (by simp [Env.set]) (swapped_zero l) (by omega)
  have sr : evalVs G env' [(.var 0)] = some [.arr l.reverse] := by simp [evalVs_cons, r0]
  rw [fn_32_body]
  exact ⟨env', (EvIn.seq a1 (EvIn.seq hl (EvIn.ret sr))).mono (by simp only [fuelIE]; omega)⟩

theorem fn32_lookup : prog[f_fiat_sm2InvertEndianness]? = some fn_32 := rfl

/-- **sm2InvertEndianness** reverses its argument, for every array (of any values) shorter than 2^63 -/
theorem ir_invertEndianness (l : List Val) (hn : l.length < 9223372036854775808) :
    ∀ f, fuelIE l.length ≤ f → runV prog G X f f_fiat_sm2InvertEndianness [.arr l] = .ret [.arr l.reverse] := by
  obtain ⟨env', hb⟩ := ie_fn_body_ok (P := prog) (G := G) (X := X) l hn
  intro f hf
  exact runV_of_EvIn fn32_lookup rfl rfl hb f (by simp only [fuelIE] at hf ⊢; omega)

end InvertEndianness


/-! ### Functions as hypotheses: `Computes` -/

/-- function `g` of `P` is a real function and its body, started on `args`, returns `res` with any fuel ≥ `F` -/
def Computes (P : Prog) (G : Nat → Val) (X : Oracle) (g F : Nat) (args res : List Val) : Prop :=
  ∃ fn env', P[g]? = some fn ∧ fn.stub = false ∧ args.length = fn.nparams ∧
    EvIn P G X F (Env.ofList args) fn.body env' (.ret res)

section ComputesLemmas
variable {P : Prog} {G : Nat → Val} {X : Oracle}

theorem Computes.of_body {g F : Nat} {args res : List Val} {fn : Fn} {env' : Env} (hg : P[g]? = some fn)
    (hs : fn.stub = false) (hn : args.length = fn.nparams) (h : EvIn P G X F (Env.ofList args) fn.body env' (.ret res)) :
    Computes P G X g F args res := ⟨fn, env', hg, hs, hn, h⟩

theorem Computes.mono {g F F' : Nat} {args res : List Val} (h : Computes P G X g F args res) (hF : F ≤ F') :
    Computes P G X g F' args res := by
  obtain ⟨fn, env', hg, hs, hn, hb⟩ := h
  exact ⟨fn, env', hg, hs, hn, hb.mono hF⟩

/-- a call statement of a function that `Computes` -/
theorem Computes.call {g F : Nat} {vs rs : List Val} (h : Computes P G X g F vs rs) {env env1 : Env} {lhs : List Nat}
    {args : List Expr} (ha : evalVs G env args = some vs) (hset : env.setMany lhs rs = some env1) :
    EvIn P G X (F + 1) env (.call lhs g args) env1 .norm := by
  obtain ⟨fn, env', hg, hs, hn, hb⟩ := h
  exact EvIn.call ha hg hs hn hb hset

theorem Computes.runV {g F : Nat} {args res : List Val} (h : Computes P G X g F args res) :
    ∀ f, F ≤ f → runV P G X f g args = .ret res := by
  obtain ⟨fn, env', hg, hs, hn, hb⟩ := h
  exact runV_of_EvIn hg hs hn hb

/-- sm2InvertEndianness as a `Computes` fact -/
theorem ie_computes (h32 : P[32]? = some fn_32) (l : List Val) (hn : l.length < 9223372036854775808) :
    Computes P G X 32 (fuelIE l.length - 1) [.arr l] [.arr l.reverse] := by
  obtain ⟨env', hb⟩ := ie_fn_body_ok (P := P) (G := G) (X := X) l hn
  exact Computes.of_body h32 rfl rfl hb

end ComputesLemmas

/-! ### bytes and Bytes -/

theorem bytesV_reverse (b : Bytes) : bytesV b.reverse = .arr (b.map (fun x => Val.int (Int.ofNat x.toNat))).reverse := by
  simp only [bytesV, List.map_reverse]

theorem fn_29_body : fn_29.body =
    seqs ([.assign 3 [] (.mk (.lit 4) (.lit 0)),
      .call [3] 30 [(.var 3), (.idxc (.var 0) 0)],
      .call [1] 31 [(.var 1), (.var 3)],
      .call [1] 32 [(.var 1)]] ++ [.seq (.ret [(.var 1), (.var 1)]) .panic]) := rfl

theorem fn_28_body : fn_28.body =
    seqs ([.assign 2 [] (.mk (.lit 32) (.lit 0)),
      .call [2, 3] 29 [(.var 0), (.var 2)]] ++ [.seq (.ret [(.var 3)]) .panic]) := rfl

section BytesFn
variable {P : Prog} {G : Nat → Val} {X : Oracle}

/-- fuel for `(*SM2Element).bytes` given the fuels of sm2FromMontgomery and sm2ToBytes and the length of the encoding -/
def fuelbytes (Fm Ft n : Nat) : Nat := Fm + Ft + fuelIE n + 12

/-- `(*SM2Element).bytes`, on raw values: limbs `e`, `fm` = what sm2FromMontgomery computes from `e` (into a zeroed
    `tmp`), `tb` = what sm2ToBytes computes from `fm` (into `out`) -/
theorem bytes_computes (h29 : P[29]? = some fn_29) (h32 : P[32]? = some fn_32) {Fm Ft : Nat} (e fm : List Nat) (out tb : Bytes)
    (hFM : Computes P G X 30 Fm [limbsV [0, 0, 0, 0], limbsV e] [limbsV fm])
    (hTB : Computes P G X 31 Ft [bytesV out, limbsV fm] [bytesV tb])
    (hlen : tb.length < 9223372036854775808) :
    Computes P G X 29 (fuelbytes Fm Ft tb.length) [elemV e, bytesV out] [bytesV tb.reverse, bytesV tb.reverse] := by
  let e0 : Env := Env.ofList [elemV e, bytesV out]
  let e1 := e0.set 3 (limbsV [0, 0, 0, 0])
  let e2 := e1.set 3 (limbsV fm)
  let e3 := e2.set 1 (bytesV tb)
  let e4 := e3.set 1 (bytesV tb.reverse)
  have c1 : EvIn P G X 1 e0 (.assign 3 [] (.mk (.lit 4) (.lit 0))) e1 .norm := EvIn.assign (evalV_mk4 _)
  have c2 : EvIn P G X (Fm + 1) e1 (.call [3] 30 [(.var 3), (.idxc (.var 0) 0)]) e2 .norm := by
    refine hFM.call ?_ rfl
    have q : evalV G e1 (.idxc (.var 0) 0) = some (limbsV e) := evalV_field0 (by simp [e1, e0, Env.set, Env.ofList])
    simp only [evalVs_cons, evalVs_nil, evalV_var, q]
    simp [e1, Env.set]
  have c3 : EvIn P G X (Ft + 1) e2 (.call [1] 31 [(.var 1), (.var 3)]) e3 .norm := by
    refine hTB.call ?_ rfl
    simp only [evalVs_cons, evalVs_nil, evalV_var]
    simp [e2, e1, e0, Env.set, Env.ofList]
  have c4 : EvIn P G X (fuelIE tb.length - 1 + 1) e3 (.call [1] 32 [(.var 1)]) e4 .norm := by
    have hc := ie_computes (P := P) (G := G) (X := X) h32 (tb.map (fun x => Val.int (Int.ofNat x.toNat))) (by simpa using hlen)
    rw [List.length_map] at hc
    refine hc.call (env := e3) (lhs := [1]) (env1 := e4) ?_ ?_
    · simp only [evalVs_cons, evalVs_nil, evalV_var]
      simp [e3, Env.set, bytesV]
    · simp only [e4, bytesV_reverse]; rfl
  have sr : evalVs G e4 [(.var 1), (.var 1)] = some [bytesV tb.reverse, bytesV tb.reverse] := by
    simp [evalVs_cons, e4, Env.set]
  refine Computes.of_body h29 rfl rfl (env' := e4) ?_
  rw [fn_29_body]
  exact ((Pre.cons c1 (Pre.cons c2 (Pre.cons c3 (Pre.cons c4 (Pre.nil _)))) _).1 _ _ _
    (EvIn.seq_stop (EvIn.ret sr) (by simp))).mono (by simp only [fuelbytes, fuelIE]; omega)

theorem zeros32 : (Val.arr (List.replicate (32 : Int).toNat (Val.int 0))) = bytesV (List.replicate 32 0) := rfl

/-- fuel for `(*SM2Element).Bytes` -/
def fuelBytes (Fm Ft n : Nat) : Nat := fuelbytes Fm Ft n + 8

/-- `(*SM2Element).Bytes`, on raw values (the `out` of sm2ToBytes is the zeroed 32-byte array) -/
theorem Bytes_computes (h28 : P[28]? = some fn_28) (h29 : P[29]? = some fn_29) (h32 : P[32]? = some fn_32) {Fm Ft : Nat}
    (e fm : List Nat) (tb : Bytes)
    (hFM : Computes P G X 30 Fm [limbsV [0, 0, 0, 0], limbsV e] [limbsV fm])
    (hTB : Computes P G X 31 Ft [bytesV (List.replicate 32 0), limbsV fm] [bytesV tb])
    (hlen : tb.length < 9223372036854775808) :
    Computes P G X 28 (fuelBytes Fm Ft tb.length - 1) [elemV e] [bytesV tb.reverse] := by
  let e0 : Env := Env.ofList [elemV e]
  let e1 := e0.set 2 (bytesV (List.replicate 32 0))
  let e2 := (e1.set 2 (bytesV tb.reverse)).set 3 (bytesV tb.reverse)
  have c1 : EvIn P G X 1 e0 (.assign 2 [] (.mk (.lit 32) (.lit 0))) e1 .norm := by
    refine EvIn.assign ?_
    rw [evalV_mk]
    simp only [evalV_lit]
    exact congrArg some zeros32
  have c2 : EvIn P G X (fuelbytes Fm Ft tb.length + 1) e1 (.call [2, 3] 29 [(.var 0), (.var 2)]) e2 .norm := by
    refine (bytes_computes (P := P) (G := G) (X := X) h29 h32 e fm _ tb hFM hTB hlen).call ?_ rfl
    simp only [evalVs_cons, evalVs_nil, evalV_var]
    simp [e1, e0, Env.set, Env.ofList]
  have sr : evalVs G e2 [(.var 3)] = some [bytesV tb.reverse] := by simp [evalVs_cons, e2, Env.set]
  refine Computes.of_body h28 rfl rfl (env' := e2) ?_
  rw [fn_28_body]
  exact ((Pre.cons c1 (Pre.cons c2 (Pre.nil _)) _).1 _ _ _
    (EvIn.seq_stop (EvIn.ret sr) (by simp))).mono (by simp only [fuelBytes]; omega)

end BytesFn


/-! ### The wrappers over an abstract `FieldOps` -/

/-- the program contains the generated wrappers (true for `prog`, and for every slice that keeps them) -/
structure HasWrappers (P : Prog) : Prop where
  h0 : P[0]? = some fn_0
  h28 : P[28]? = some fn_28
  h29 : P[29]? = some fn_29
  h32 : P[32]? = some fn_32
  h33 : P[33]? = some fn_33
  h37 : P[37]? = some fn_37
  h38 : P[38]? = some fn_38

theorem prog_hasWrappers : HasWrappers prog := ⟨rfl, rfl, rfl, rfl, rfl, rfl, rfl⟩

/-- byte-array equality as `subtle.ConstantTimeCompare` computes it, on encodings of byte strings -/
theorem ctEq_bytes (a : Bytes) : ∀ b : Bytes,
    ctEqList (a.map (fun x => Val.int (Int.ofNat x.toNat))) (b.map (fun x => Val.int (Int.ofNat x.toNat)))
      = some (if a = b then 1 else 0) := by
  induction a with
  | nil => intro b; cases b <;> simp [ctEqList]
  | cons x as ih =>
    intro b
    cases b with
    | nil => simp [ctEqList]
    | cons y bs =>
      simp only [List.map_cons, ctEqList, ih bs]
      by_cases hxy : x = y
      · subst hxy
        by_cases hab : as = bs
        · simp [hab]
        · simp [hab]
      · have : ¬ ((x.toNat : Int) = (y.toNat : Int)) := by
          intro h; exact hxy (UInt8.toNat_inj.mp (Int.ofNat.inj h))
        simp [hxy, this]

theorem evalV_cteq_bytes {G : Nat → Val} {env : Env} {ea eb : Expr} {a b : Bytes} (ha : evalV G env ea = some (bytesV a))
    (hb : evalV G env eb = some (bytesV b)) :
    evalV G env (.cteq ea eb) = some (.int (((if a = b then 1 else 0 : Nat) : Nat) : Int)) := by
  rw [evalV_cteq, ha, hb]
  simp only [bytesV, ctEq_bytes, Option.map_some]
  split <;> rfl

theorem fn_38_body : fn_38.body =
    seqs ([.call [2] 28 [(.var 0)], .assign 3 [] (.var 2)] ++ [.seq (.ret [(.cteq (.var 3) (.glob 2))]) .panic]) := rfl

theorem fn_37_body : fn_37.body =
    seqs ([.call [3] 28 [(.var 0)], .assign 4 [] (.var 3), .call [5] 28 [(.var 1)], .assign 6 [] (.var 5)]
      ++ [.seq (.ret [(.cteq (.var 4) (.var 6))]) .panic]) := rfl

section FieldLevel
variable {α : Type} {P : Prog} {G : Nat → Val} {X : Oracle}

/-- HYPOTHESES on the two Fiat primitives used by `Bytes`, at the element `x` (encoded by its limbs `enc x`):
    sm2FromMontgomery (function 30, called with a zeroed `tmp`) and sm2ToBytes (function 31, called with the
    zeroed 32-byte `out`) compute the model's primitives, and the byte string has 32 bytes -/
structure BytesPrims (P : Prog) (G : Nat → Val) (X : Oracle) (F : Model.Field.FieldOps α) (enc : α → List Nat)
    (Fm Ft : Nat) (x : α) : Prop where
  fm : Computes P G X f_fiat_sm2FromMontgomery Fm [limbsV [0, 0, 0, 0], limbsV (enc x)] [limbsV (enc (F.fromMontgomery x))]
  tb : Computes P G X f_fiat_sm2ToBytes Ft [bytesV (List.replicate 32 0), limbsV (enc (F.fromMontgomery x))]
        [bytesV (F.toBytesLE (F.fromMontgomery x))]
  len : (F.toBytesLE (F.fromMontgomery x)).length = 32

/-- fuel for Bytes with a 32-byte encoding: `Fm + Ft + 172` -/
def fuelBytes32 (Fm Ft : Nat) : Nat := fuelBytes Fm Ft 32

/-- **Bytes** computes `Model.Field.bytes` -/
theorem Bytes_field (hw : HasWrappers P) {F : Model.Field.FieldOps α} {enc : α → List Nat} {Fm Ft : Nat} {x : α}
    (h : BytesPrims P G X F enc Fm Ft x) :
    Computes P G X f_fiat_SM2Element_Bytes (fuelBytes32 Fm Ft - 1) [elemV (enc x)] [bytesV (Model.Field.bytes F x)] := by
  have := Bytes_computes (P := P) (G := G) (X := X) hw.h28 hw.h29 hw.h32 (enc x) (enc (F.fromMontgomery x))
    (F.toBytesLE (F.fromMontgomery x)) h.fm h.tb (by rw [h.len]; decide)
  rw [h.len] at this
  exact this

/-- fuel for IsZero -/
def fuelIsZero (Fm Ft : Nat) : Nat := fuelBytes32 Fm Ft + 8

/-- **IsZero** computes `Model.Field.isZero`, given that the global sm2ZeroEncoding (global 2) holds the
    encoding of the zero element -/
theorem IsZero_field (hw : HasWrappers P) {F : Model.Field.FieldOps α} {enc : α → List Nat} {Fm Ft : Nat} {x : α}
    (h : BytesPrims P G X F enc Fm Ft x) (hG : G 2 = bytesV (Model.Field.bytes F F.zero)) :
    Computes P G X f_fiat_SM2Element_IsZero (fuelIsZero Fm Ft - 1) [elemV (enc x)]
      [.int ((Model.Field.isZero F x : Nat) : Int)] := by
  let e0 : Env := Env.ofList [elemV (enc x)]
  let e1 := e0.set 2 (bytesV (Model.Field.bytes F x))
  let e2 := e1.set 3 (bytesV (Model.Field.bytes F x))
  have c1 : EvIn P G X (fuelBytes32 Fm Ft - 1 + 1) e0 (.call [2] 28 [(.var 0)]) e1 .norm := by
    refine (Bytes_field hw h).call ?_ rfl
    simp only [evalVs_cons, evalVs_nil, evalV_var]
    simp [e0, Env.ofList]
  have c2 : EvIn P G X 1 e1 (.assign 3 [] (.var 2)) e2 .norm := EvIn.assign (by simp [e1, Env.set])
  have sr : evalVs G e2 [(.cteq (.var 3) (.glob 2))] = some [.int ((Model.Field.isZero F x : Nat) : Int)] := by
    have q := evalV_cteq_bytes (G := G) (env := e2) (ea := .var 3) (eb := .glob 2) (a := Model.Field.bytes F x)
      (b := Model.Field.bytes F F.zero) (by simp [e2, Env.set]) (by simp [hG])
    simp only [evalVs_cons, evalVs_nil, q, Model.Field.isZero]
  refine Computes.of_body hw.h38 rfl rfl (env' := e2) ?_
  rw [fn_38_body]
  exact ((Pre.cons c1 (Pre.cons c2 (Pre.nil _)) _).1 _ _ _
    (EvIn.seq_stop (EvIn.ret sr) (by simp))).mono (by simp only [fuelIsZero, fuelBytes32, fuelBytes, fuelbytes]; omega)

/-- fuel for Equal -/
def fuelEqual (Fm Ft : Nat) : Nat := 2 * fuelBytes32 Fm Ft + 12

/-- **Equal** computes `Model.Field.equal` -/
theorem Equal_field (hw : HasWrappers P) {F : Model.Field.FieldOps α} {enc : α → List Nat} {Fm Ft : Nat} {x t : α}
    (hx : BytesPrims P G X F enc Fm Ft x) (ht : BytesPrims P G X F enc Fm Ft t) :
    Computes P G X f_fiat_SM2Element_Equal (fuelEqual Fm Ft - 1) [elemV (enc x), elemV (enc t)]
      [.int ((Model.Field.equal F x t : Nat) : Int)] := by
  let e0 : Env := Env.ofList [elemV (enc x), elemV (enc t)]
  let e1 := e0.set 3 (bytesV (Model.Field.bytes F x))
  let e2 := e1.set 4 (bytesV (Model.Field.bytes F x))
  let e3 := e2.set 5 (bytesV (Model.Field.bytes F t))
  let e4 := e3.set 6 (bytesV (Model.Field.bytes F t))
  have c1 : EvIn P G X (fuelBytes32 Fm Ft - 1 + 1) e0 (.call [3] 28 [(.var 0)]) e1 .norm := by
    refine (Bytes_field hw hx).call ?_ rfl
    simp only [evalVs_cons, evalVs_nil, evalV_var]
    simp [e0, Env.ofList]
  have c2 : EvIn P G X 1 e1 (.assign 4 [] (.var 3)) e2 .norm := EvIn.assign (by simp [e1, Env.set])
  have c3 : EvIn P G X (fuelBytes32 Fm Ft - 1 + 1) e2 (.call [5] 28 [(.var 1)]) e3 .norm := by
    refine (Bytes_field hw ht).call ?_ rfl
    simp only [evalVs_cons, evalVs_nil, evalV_var]
    simp [e2, e1, e0, Env.set, Env.ofList]
  have c4 : EvIn P G X 1 e3 (.assign 6 [] (.var 5)) e4 .norm := EvIn.assign (by simp [e3, Env.set])
  have sr : evalVs G e4 [(.cteq (.var 4) (.var 6))] = some [.int ((Model.Field.equal F x t : Nat) : Int)] := by
    have q := evalV_cteq_bytes (G := G) (env := e4) (ea := .var 4) (eb := .var 6) (a := Model.Field.bytes F x)
      (b := Model.Field.bytes F t) (by simp [e4, e3, e2, Env.set]) (by simp [e4, Env.set])
    simp only [evalVs_cons, evalVs_nil, q, Model.Field.equal]
  refine Computes.of_body hw.h37 rfl rfl (env' := e4) ?_
  rw [fn_37_body]
  exact ((Pre.cons c1 (Pre.cons c2 (Pre.cons c3 (Pre.cons c4 (Pre.nil _)))) _).1 _ _ _
    (EvIn.seq_stop (EvIn.ret sr) (by simp))).mono (by simp only [fuelEqual, fuelBytes32, fuelBytes, fuelbytes]; omega)

end FieldLevel


/-! ### SetBytes -/

def sbErr : Stmt := .ret [(.var 0), (.mk (.lit 1) (.mk (.lit 4) (.lit 0))), (.lit 1)]
def sbIte1 : Stmt := .ite (.op2 .ne (.len (.var 1)) (.lit 32)) sbErr .skip
def sbCall : Stmt := .call [3] 0 [(.var 1), (.glob 1), (.lit 32)]
def sbDecl : Stmt := .declass 4 2 (.op2 .gt (.var 3) (.lit 0))
def sbIte2 : Stmt := .ite (.var 4) sbErr .skip
def sbCopy : Expr := .cat (.slice (.var 5) (.lit 0) (.lit 0)) (.cat (.slice (.var 1) (.lit 0) (.var 6)) (.slice (.var 5) (.op2 (.add .i64) (.lit 0) (.var 6)) (.len (.var 5))))
def sbTail : List Stmt := [.assign 5 [] (.mk (.lit 32) (.lit 0)),
    .assign 6 [] (.op2 .min (.op2 (.sub .i64) (.len (.var 5)) (.lit 0)) (.len (.var 1))),
    .assign 5 [] sbCopy,
    .call [5] 32 [(.var 5)],
    .assign 7 [] (.mk (.lit 4) (.lit 0)),
    .call [7] 35 [(.var 7), (.var 5)],
    .call [8] 36 [(.idxc (.var 0) 0), (.var 7)],
    .assign 0 [.c 0] (.var 8)]
def sbRet : Stmt := .seq (.ret [(.var 0), (.var 0), (.lit 0)]) .panic

/-- the body of SetBytes, cut after the length test -/
theorem fn_33_body1 : fn_33.body = .seq sbIte1 (seqs ([sbCall, sbDecl] ++ [seqs ([sbIte2] ++ [seqs (sbTail ++ [sbRet])])])) := rfl
/-- … after the verdict of the comparison -/
theorem fn_33_body2 : fn_33.body = seqs ([sbIte1, sbCall, sbDecl] ++ [.seq sbIte2 (seqs (sbTail ++ [sbRet]))]) := rfl
/-- … and as one straight line -/
theorem fn_33_body3 : fn_33.body = seqs (([sbIte1, sbCall, sbDecl, sbIte2] ++ sbTail) ++ [sbRet]) := rfl

theorem sliceList_front (l : List Val) : sliceList l 0 0 = some [] := by
  have : ¬ ((0 : Int) < 0 ∨ (0 : Int) < 0 ∨ (l.length : Int) < 0) := by omega
  simp [sliceList, this]

theorem sliceList_full (l : List Val) : sliceList l 0 (l.length : Int) = some l := by
  have : ¬ ((0 : Int) < 0 ∨ (l.length : Int) < 0 ∨ (l.length : Int) < (l.length : Int)) := by omega
  simp [sliceList, this]

theorem sliceList_back (l : List Val) : sliceList l (l.length : Int) (l.length : Int) = some [] := by
  have : ¬ ((l.length : Int) < 0 ∨ (l.length : Int) < (l.length : Int) ∨ (l.length : Int) < (l.length : Int)) := by omega
  simp [sliceList, this]

section SetBytes
variable {α : Type} {P : Prog} {G : Nat → Val} {X : Oracle}

/-- what the error paths of SetBytes return: the receiver unchanged, a zero element (the IR's stand-in for the
    `nil` pointer result), and the error flag 1 -/
theorem sb_err_ret {env : Env} {old : List Nat} (h0 : env 0 = elemV old) :
    EvIn P G X 1 env sbErr env (.ret [elemV old, elemV [0, 0, 0, 0], .int 1]) := by
  refine EvIn.ret ?_
  have q : evalV G env (.mk (.lit 1) (.mk (.lit 4) (.lit 0))) = some (elemV [0, 0, 0, 0]) := by
    rw [evalV_mk, evalV_mk]; rfl
  simp only [evalVs_cons, evalVs_nil, evalV_var, evalV_lit, q, h0]

theorem sb_ite1_cond {env : Env} {v : Bytes} (h1 : env 1 = bytesV v) :
    evalV G env (.op2 .ne (.len (.var 1)) (.lit 32)) = some (.int (ofBool (decide (v.length ≠ 32)))) := by
  simp only [evalV_op2, evalV_len, evalV_var, evalV_lit, h1, bytesV, evalOp2, Option.map_some, List.length_map]
  congr 3
  by_cases h : v.length = 32
  · simp [h]
  · have : ¬ ((v.length : Int) = 32) := by omega
    simp [h, this]

/-- a wrong length: the first error path -/
theorem sb_len_err (hw : HasWrappers P) (old : List Nat) (v : Bytes) (hlen : v.length ≠ 32) :
    Computes P G X f_fiat_SM2Element_SetBytes 4 [elemV old, bytesV v] [elemV old, elemV [0, 0, 0, 0], .int 1] := by
  refine Computes.of_body hw.h33 rfl rfl (env' := Env.ofList [elemV old, bytesV v]) ?_
  rw [fn_33_body1]
  have hc := sb_ite1_cond (G := G) (env := Env.ofList [elemV old, bytesV v]) (v := v) rfl
  rw [show decide (v.length ≠ 32) = true from by simp [hlen]] at hc
  exact (EvIn.seq_stop (EvIn.ite hc rfl (sb_err_ret rfl)) (by simp)).mono (by decide)

/-- the state after the comparison and its declassified verdict -/
def sbEnvD (old : List Nat) (v : Bytes) (c : Int) : Env :=
  ((Env.ofList [elemV old, bytesV v]).set 3 (.int c)).set 4 (.int (ofBool (decide (0 < c))))

/-- right length, the comparison returns `c`: the prefix up to the verdict -/
theorem sb_prefix (hw : HasWrappers P) (old : List Nat) (v m1 : Bytes) (hlen : v.length = 32) (hG : G 1 = bytesV m1) (c : Int)
    (hc : Model.Utils.constantTimeCmp (some v) (some m1) 32 = .ok c) :
    Pre P G X 400 (Env.ofList [elemV old, bytesV v]) [sbIte1, sbCall, sbDecl] (sbEnvD old v c) := by
  let e0 : Env := Env.ofList [elemV old, bytesV v]
  let e1 := e0.set 3 (.int c)
  have c0 : EvIn P G X 2 e0 sbIte1 e0 .norm := by
    have hcond := sb_ite1_cond (G := G) (env := e0) (v := v) rfl
    rw [show decide (v.length ≠ 32) = false from by simp [hlen]] at hcond
    exact EvIn.ite hcond rfl (EvIn.skip _)
  obtain ⟨envc, hb⟩ := cmp_body_ok (P := P) (G := G) (X := X) v m1 32 (by decide) (by decide) c hc
  have c1 : EvIn P G X (fuelCmp 32 - 1 + 1) e0 sbCall e1 .norm := by
    refine EvIn.call (vs := [bytesV v, bytesV m1, .int 32]) ?_ hw.h0 rfl rfl hb rfl
    simp only [evalVs_cons, evalVs_nil, evalV_var, evalV_glob, evalV_lit, hG]
    rfl
  have c2 : EvIn P G X 1 e1 sbDecl (sbEnvD old v c) .norm := by
    refine EvIn.declass ?_
    have g3 : e1 3 = .int c := by simp [e1, Env.set]
    simp only [evalV_op2, evalV_var, evalV_lit, g3, evalOp2, Option.map_some]
  exact (Pre.cons c0 (Pre.cons c1 (Pre.cons c2 (Pre.nil _)))).mono (by simp only [fuelCmp]; decide)

/-- the value is above `m - 1`: the second error path -/
theorem sb_cmp_err (hw : HasWrappers P) (old : List Nat) (v m1 : Bytes) (hlen : v.length = 32) (hG : G 1 = bytesV m1) (c : Int)
    (hc : Model.Utils.constantTimeCmp (some v) (some m1) 32 = .ok c) (hpos : 0 < c) :
    Computes P G X f_fiat_SM2Element_SetBytes 404 [elemV old, bytesV v] [elemV old, elemV [0, 0, 0, 0], .int 1] := by
  have hp := sb_prefix (P := P) (G := G) (X := X) hw old v m1 hlen hG c hc
  refine Computes.of_body hw.h33 rfl rfl (env' := sbEnvD old v c) ?_
  rw [fn_33_body2]
  have g4 : evalV G (sbEnvD old v c) (.var 4) = some (.int 1) := by simp [sbEnvD, Env.set, hpos, ofBool]
  have g0 : (sbEnvD old v c) 0 = elemV old := by simp [sbEnvD, Env.set, Env.ofList]
  exact ((hp _).1 _ _ _ (EvIn.seq_stop (EvIn.ite g4 rfl (sb_err_ret g0)) (by simp))).mono (by decide)

/-- the comparison runs out of its arguments (cannot happen when the encoding of `m - 1` has 32 bytes): stuck -/
theorem sb_cmp_stuck (hw : HasWrappers P) (old : List Nat) (v m1 : Bytes) (hlen : v.length = 32) (hG : G 1 = bytesV m1)
    (hc : Model.Utils.constantTimeCmp (some v) (some m1) 32 = .panic) :
    ∀ f, runV P G X f f_fiat_SM2Element_SetBytes [elemV old, bytesV v] = .stuck := by
  refine runV_of_Stuck hw.h33 ?_
  rw [fn_33_body1]
  let e0 : Env := Env.ofList [elemV old, bytesV v]
  have c0 : EvIn P G X 2 e0 sbIte1 e0 .norm := by
    have hcond := sb_ite1_cond (G := G) (env := e0) (v := v) rfl
    rw [show decide (v.length ≠ 32) = false from by simp [hlen]] at hcond
    exact EvIn.ite hcond rfl (EvIn.skip _)
  refine Stuck.seq_right c0 (Stuck.seq_left ?_)
  refine Stuck.call (vs := [bytesV v, bytesV m1, .int 32]) ?_ hw.h0
    (cmp_body_stuck (P := P) (G := G) (X := X) v m1 32 (by decide) (by decide) hc)
  simp only [evalVs_cons, evalVs_nil, evalV_var, evalV_glob, evalV_lit, hG]
  rfl

theorem evalV_mk32 (env : Env) : evalV G env (.mk (.lit 32) (.lit 0)) = some (bytesV (List.replicate 32 0)) := by
  rw [evalV_mk]
  simp only [evalV_lit]
  exact congrArg some zeros32

/-- the success path: copy, reverse, sm2FromBytes, sm2ToMontgomery, store.  `fbl`, `tml` are the limbs computed by
    the two primitives -/
theorem sb_cmp_ok (hw : HasWrappers P) (old : List Nat) (v m1 : Bytes) (hlen : v.length = 32) (hG : G 1 = bytesV m1) (c : Int)
    (hc : Model.Utils.constantTimeCmp (some v) (some m1) 32 = .ok c) (hle : ¬ 0 < c) {Fb Fo : Nat} (fbl tml : List Nat)
    (hFB : Computes P G X f_fiat_sm2FromBytes Fb [limbsV [0, 0, 0, 0], bytesV v.reverse] [limbsV fbl])
    (hTM : Computes P G X f_fiat_sm2ToMontgomery Fo [limbsV old, limbsV fbl] [limbsV tml]) :
    Computes P G X f_fiat_SM2Element_SetBytes (Fb + Fo + 600) [elemV old, bytesV v] [elemV tml, elemV tml, .int 0] := by
  have hp := sb_prefix (P := P) (G := G) (X := X) hw old v m1 hlen hG c hc
  let d := sbEnvD old v c
  have d0 : d 0 = elemV old := by simp [d, sbEnvD, Env.set, Env.ofList]
  have d1 : d 1 = bytesV v := by simp [d, sbEnvD, Env.set, Env.ofList]
  have g4 : evalV G d (.var 4) = some (.int 0) := by simp [d, sbEnvD, Env.set, hle, ofBool]
  have c0 : EvIn P G X 2 d sbIte2 d .norm := EvIn.ite g4 rfl (EvIn.skip _)
  let e1 := d.set 5 (bytesV (List.replicate 32 0))
  let e2 := e1.set 6 (.int 32)
  let e3 := e2.set 5 (bytesV v)
  let e4 := e3.set 5 (bytesV v.reverse)
  let e5 := e4.set 7 (limbsV [0, 0, 0, 0])
  let e6 := e5.set 7 (limbsV fbl)
  let e7 := e6.set 8 (limbsV tml)
  let e8 := e7.set 0 (elemV tml)
  have c1 : EvIn P G X 1 d (.assign 5 [] (.mk (.lit 32) (.lit 0))) e1 .norm := EvIn.assign (evalV_mk32 _)
  have c2 : EvIn P G X 1 e1 (.assign 6 [] (.op2 .min (.op2 (.sub .i64) (.len (.var 5)) (.lit 0)) (.len (.var 1)))) e2 .norm := by
    refine EvIn.assign ?_
    have g5 : e1 5 = bytesV (List.replicate 32 0) := by simp [e1, Env.set]
    have g1 : e1 1 = bytesV v := by simp [e1, Env.set, d1]
    simp only [evalV_op2, evalV_len, evalV_var, evalV_lit, g5, g1, bytesV, List.length_map, List.length_replicate, hlen,
      evalOp2, Option.map_some]
    rfl
  have c3 : EvIn P G X 1 e2 (.assign 5 [] sbCopy) e3 .norm := by
    refine EvIn.assign ?_
    have g5 : e2 5 = bytesV (List.replicate 32 0) := by simp [e2, e1, Env.set]
    have g1 : e2 1 = bytesV v := by simp [e2, e1, Env.set, d1]
    have g6 : e2 6 = .int 32 := by simp [e2, Env.set]
    have l5 : ((List.replicate 32 (0 : UInt8)).map (fun x => Val.int (Int.ofNat x.toNat))).length = 32 := by simp
    have lv : (v.map (fun x => Val.int (Int.ofNat x.toNat))).length = 32 := by simp [hlen]
    have s1 := sliceList_front ((List.replicate 32 (0 : UInt8)).map (fun x => Val.int (Int.ofNat x.toNat)))
    have s2 := sliceList_full (v.map (fun x => Val.int (Int.ofNat x.toNat)))
    have s3 := sliceList_back ((List.replicate 32 (0 : UInt8)).map (fun x => Val.int (Int.ofNat x.toNat)))
    rw [lv] at s2
    rw [l5] at s3
    have s2' : sliceList (v.map (fun x => Val.int (Int.ofNat x.toNat))) 0 32 = some (v.map (fun x => Val.int (Int.ofNat x.toNat))) := s2
    have s3' : sliceList ((List.replicate 32 (0 : UInt8)).map (fun x => Val.int (Int.ofNat x.toNat))) 32 32 = some [] := s3
    have s3'' : sliceList ((List.replicate 32 (0 : UInt8)).map (fun x => Val.int (Int.ofNat x.toNat))) 32 ((32 : Nat) : Int) = some [] := s3
    have e32 : norm .i64 (0 + 32) = 32 := by decide
    simp only [sbCopy, evalV_cat, evalV_slice, evalV_op2, evalV_len, evalV_var, evalV_lit, g5, g1, g6, bytesV, evalOp2,
      Option.map_some, e32, l5]
    simp only [s1, s2', s3', s3'', Option.map_some, List.nil_append, List.append_nil]
  have c4 : EvIn P G X (fuelIE 32 - 1 + 1) e3 (.call [5] 32 [(.var 5)]) e4 .norm := by
    have hcomp := ie_computes (P := P) (G := G) (X := X) hw.h32 (v.map (fun x => Val.int (Int.ofNat x.toNat)))
      (by rw [List.length_map, hlen]; decide)
    rw [List.length_map, hlen] at hcomp
    refine hcomp.call (env := e3) (lhs := [5]) (env1 := e4) ?_ ?_
    · simp only [evalVs_cons, evalVs_nil, evalV_var]
      simp [e3, Env.set, bytesV]
    · simp only [e4, bytesV_reverse]; rfl
  have c5 : EvIn P G X 1 e4 (.assign 7 [] (.mk (.lit 4) (.lit 0))) e5 .norm := EvIn.assign (evalV_mk4 _)
  have c6 : EvIn P G X (Fb + 1) e5 (.call [7] 35 [(.var 7), (.var 5)]) e6 .norm := by
    refine hFB.call ?_ rfl
    simp only [evalVs_cons, evalVs_nil, evalV_var]
    simp [e5, e4, Env.set]
  have c7 : EvIn P G X (Fo + 1) e6 (.call [8] 36 [(.idxc (.var 0) 0), (.var 7)]) e7 .norm := by
    refine hTM.call ?_ rfl
    have q : evalV G e6 (.idxc (.var 0) 0) = some (limbsV old) :=
      evalV_field0 (by simp [e6, e5, e4, e3, e2, e1, Env.set, d0])
    simp only [evalVs_cons, evalVs_nil, evalV_var, q]
    simp [e6, Env.set]
  have c8 : EvIn P G X 1 e7 (.assign 0 [.c 0] (.var 8)) e8 .norm := by
    have s : evalV G e7 (.var 8) = some (limbsV tml) := by simp [e7, Env.set]
    have g0 : e7 0 = .arr [limbsV old] := by simp [e7, e6, e5, e4, e3, e2, e1, Env.set, d0, elemV]
    exact EvIn.assignPath s (ks := [0]) (by simp [pathV_c]) (by rw [g0, updPath_c1 _ _ _ (by simp)]; rfl)
  have sr : evalVs G e8 [(.var 0), (.var 0), (.lit 0)] = some [elemV tml, elemV tml, .int 0] := by
    simp [evalVs_cons, e8, Env.set]
  refine Computes.of_body hw.h33 rfl rfl (env' := e8) ?_
  rw [fn_33_body3]
  have htail := Pre.cons c0 (Pre.cons c1 (Pre.cons c2 (Pre.cons c3 (Pre.cons c4 (Pre.cons c5 (Pre.cons c6
    (Pre.cons c7 (Pre.cons c8 (Pre.nil _)))))))))
  exact (((Pre.append hp htail) _).1 _ _ _ (EvIn.seq_stop (EvIn.ret sr) (by simp))).mono (by simp only [fuelIE]; omega)


/-- HYPOTHESES on the two Fiat primitives used by `SetBytes`, at the input `v` and the old limbs `old` of the
    receiver: sm2FromBytes (function 35, called with a zeroed `tmp` and the reversed input) and sm2ToMontgomery
    (function 36, called with `&e.x` as destination) compute the model's primitives -/
structure SetBytesPrims (P : Prog) (G : Nat → Val) (X : Oracle) (F : Model.Field.FieldOps α) (enc : α → List Nat)
    (Fb Fo : Nat) (old : List Nat) (v : Bytes) : Prop where
  fb : Computes P G X f_fiat_sm2FromBytes Fb [limbsV [0, 0, 0, 0], bytesV v.reverse] [limbsV (enc (F.fromBytesLE v.reverse))]
  tm : Computes P G X f_fiat_sm2ToMontgomery Fo [limbsV old, limbsV (enc (F.fromBytesLE v.reverse))]
        [limbsV (enc (F.toMontgomery (F.fromBytesLE v.reverse)))]

/-- fuel for SetBytes: `Fb + Fo + 600` -/
def fuelSetBytes (Fb Fo : Nat) : Nat := Fb + Fo + 600

/-- **SetBytes**, the model returns an element: the IR stores it in the receiver and returns (receiver, receiver, nil) -/
theorem SetBytes_ok (hw : HasWrappers P) {F : Model.Field.FieldOps α} {enc : α → List Nat} {Fb Fo : Nat}
    (hG : G 1 = bytesV (Model.Field.minusOneEncoding F)) (old : List Nat) (v : Bytes) (e' : α)
    (h : Model.Field.setBytes F v = .ok e') (hp : SetBytesPrims P G X F enc Fb Fo old v) :
    Computes P G X f_fiat_SM2Element_SetBytes (fuelSetBytes Fb Fo) [elemV old, bytesV v]
      [elemV (enc e'), elemV (enc e'), .int 0] := by
  by_cases hlen : v.length = 32
  · cases hc : Model.Utils.constantTimeCmp (some v) (some (Model.Field.minusOneEncoding F)) 32 with
    | err => simp [Model.Field.setBytes, hlen, hc] at h
    | panic => simp [Model.Field.setBytes, hlen, hc] at h
    | ok c =>
      by_cases hpos : 0 < c
      · simp [Model.Field.setBytes, hlen, hc, hpos] at h
      · simp only [Model.Field.setBytes, hlen, hc, gt_iff_lt, hpos, if_false, ne_eq, not_true_eq_false,
          Outcome.ok.injEq] at h
        subst h
        exact sb_cmp_ok hw old v _ hlen hG c hc hpos _ _ hp.fb hp.tm
  · simp [Model.Field.setBytes, hlen] at h

/-- **SetBytes**, the model returns an error (wrong length, or a value above `m - 1`): the receiver is unchanged,
    the results are a zero element (the IR's `nil`) and the error flag 1; no primitive is called -/
theorem SetBytes_err (hw : HasWrappers P) {F : Model.Field.FieldOps α}
    (hG : G 1 = bytesV (Model.Field.minusOneEncoding F)) (old : List Nat) (v : Bytes)
    (h : Model.Field.setBytes F v = .err) :
    Computes P G X f_fiat_SM2Element_SetBytes 404 [elemV old, bytesV v] [elemV old, elemV [0, 0, 0, 0], .int 1] := by
  by_cases hlen : v.length = 32
  · cases hc : Model.Utils.constantTimeCmp (some v) (some (Model.Field.minusOneEncoding F)) 32 with
    | err => simp [Model.Field.setBytes, hlen, hc] at h
    | panic => simp [Model.Field.setBytes, hlen, hc] at h
    | ok c =>
      by_cases hpos : 0 < c
      · exact sb_cmp_err hw old v _ hlen hG c hc hpos
      · simp [Model.Field.setBytes, hlen, hc, hpos] at h
  · exact (sb_len_err hw old v hlen).mono (by decide)

/-- ConstantTimeCmp never returns an error -/
theorem cmp_ne_err (a b : Bytes) (l : Int) : Model.Utils.constantTimeCmp (some a) (some b) l ≠ .err := by
  rw [cmp_unfold]
  cases hm : Model.Utils.cmpLoop a b l.toNat 0 0 with
  | err => exact absurd hm (cmpLoop_ne_err a b _ _ _)
  | panic => simp
  | ok p => simp

/-- **SetBytes**, the model panics (the comparison reads beyond the encoding of `m - 1`): the IR run is stuck -/
theorem SetBytes_panic (hw : HasWrappers P) {F : Model.Field.FieldOps α}
    (hG : G 1 = bytesV (Model.Field.minusOneEncoding F)) (old : List Nat) (v : Bytes)
    (h : Model.Field.setBytes F v = .panic) :
    ∀ f, runV P G X f f_fiat_SM2Element_SetBytes [elemV old, bytesV v] = .stuck := by
  by_cases hlen : v.length = 32
  · cases hc : Model.Utils.constantTimeCmp (some v) (some (Model.Field.minusOneEncoding F)) 32 with
    | err => exact absurd hc (cmp_ne_err _ _ _)
    | panic => exact sb_cmp_stuck hw old v _ hlen hG hc
    | ok c =>
      by_cases hpos : 0 < c
      · simp [Model.Field.setBytes, hlen, hc, hpos] at h
      · simp [Model.Field.setBytes, hlen, hc, hpos] at h
  · simp [Model.Field.setBytes, hlen] at h

theorem cmpLoop_ne_panic (a b : Bytes) : ∀ (k : Nat) (bo di : W32), k ≤ a.length → k ≤ b.length →
    Model.Utils.cmpLoop a b k bo di ≠ .panic := by
  intro k
  induction k with
  | zero => intro bo di _ _; simp [Model.Utils.cmpLoop]
  | succ j ih =>
    intro bo di ha hb
    simp only [Model.Utils.cmpLoop, Outcome.idx, List.getElem?_eq_getElem (show j < a.length by omega),
      List.getElem?_eq_getElem (show j < b.length by omega), Outcome.bind_ok]
    exact ih _ _ (by omega) (by omega)

/-- the model of SetBytes cannot panic when the encoding of `m - 1` has (at least) 32 bytes -/
theorem setBytes_ne_panic (F : Model.Field.FieldOps α) (v : Bytes) (hm : 32 ≤ (Model.Field.minusOneEncoding F).length) :
    Model.Field.setBytes F v ≠ .panic := by
  by_cases hlen : v.length = 32
  · have hne : Model.Utils.cmpLoop v (Model.Field.minusOneEncoding F) (32 : Int).toNat 0 0 ≠ .panic :=
      cmpLoop_ne_panic _ _ _ _ _ (by rw [hlen]; decide) (by exact hm)
    cases hc : Model.Utils.constantTimeCmp (some v) (some (Model.Field.minusOneEncoding F)) 32 with
    | err => exact absurd hc (cmp_ne_err _ _ _)
    | panic =>
      rw [cmp_unfold] at hc
      cases hl : Model.Utils.cmpLoop v (Model.Field.minusOneEncoding F) (32 : Int).toNat 0 0 with
      | err => rw [hl] at hc; cases hc
      | panic => exact absurd hl hne
      | ok p => rw [hl] at hc; cases hc
    | ok c =>
      by_cases hpos : 0 < c
      · simp [Model.Field.setBytes, hlen, hc, hpos]
      · simp [Model.Field.setBytes, hlen, hc, hpos]
  · simp [Model.Field.setBytes, hlen]

end SetBytes


/-! ### The statements for the generated program `prog`, as runs -/

section Runs
variable {α : Type} {G : Nat → Val} {X : Oracle}

/-- the hypotheses in their uniform ("for all destinations, all elements") form imply the pointwise ones -/
theorem BytesPrims.of_forall {P : Prog} {F : Model.Field.FieldOps α} {enc : α → List Nat} {Fm Ft : Nat}
    (hFM : ∀ tmp e, Computes P G X f_fiat_sm2FromMontgomery Fm [limbsV tmp, limbsV (enc e)] [limbsV (enc (F.fromMontgomery e))])
    (hTB : ∀ out e, Computes P G X f_fiat_sm2ToBytes Ft [bytesV out, limbsV (enc e)] [bytesV (F.toBytesLE e)])
    (hlen : ∀ e, (F.toBytesLE e).length = 32) (x : α) : BytesPrims P G X F enc Fm Ft x :=
  ⟨hFM _ x, hTB _ _, hlen _⟩

theorem SetBytesPrims.of_forall {P : Prog} {F : Model.Field.FieldOps α} {enc : α → List Nat} {Fb Fo : Nat}
    (hFB : ∀ tmp b, Computes P G X f_fiat_sm2FromBytes Fb [limbsV tmp, bytesV b] [limbsV (enc (F.fromBytesLE b))])
    (hTM : ∀ out e, Computes P G X f_fiat_sm2ToMontgomery Fo [limbsV out, limbsV (enc e)] [limbsV (enc (F.toMontgomery e))])
    (old : List Nat) (v : Bytes) : SetBytesPrims P G X F enc Fb Fo old v :=
  ⟨hFB _ _, hTM _ _⟩

/-- **Bytes** = `Model.Field.bytes` -/
theorem ir_Bytes {F : Model.Field.FieldOps α} {enc : α → List Nat} {Fm Ft : Nat} {x : α}
    (h : BytesPrims prog G X F enc Fm Ft x) :
    ∀ f, fuelBytes32 Fm Ft ≤ f →
      runV prog G X f f_fiat_SM2Element_Bytes [elemV (enc x)] = .ret [bytesV (Model.Field.bytes F x)] := by
  intro f hf
  exact (Bytes_field prog_hasWrappers h).runV f (by omega)

/-- **bytes** (the outlined worker, any destination `out`, any length of the encoding below 2^63): both results
    are `Model.Field.bytes` -/
theorem ir_bytes {F : Model.Field.FieldOps α} {enc : α → List Nat} {Fm Ft : Nat} {x : α} (out : Bytes)
    (hFM : Computes prog G X f_fiat_sm2FromMontgomery Fm [limbsV [0, 0, 0, 0], limbsV (enc x)] [limbsV (enc (F.fromMontgomery x))])
    (hTB : Computes prog G X f_fiat_sm2ToBytes Ft [bytesV out, limbsV (enc (F.fromMontgomery x))]
      [bytesV (F.toBytesLE (F.fromMontgomery x))])
    (hlen : (F.toBytesLE (F.fromMontgomery x)).length < 9223372036854775808) :
    ∀ f, fuelbytes Fm Ft (F.toBytesLE (F.fromMontgomery x)).length ≤ f →
      runV prog G X f f_fiat_SM2Element_bytes [elemV (enc x), bytesV out]
        = .ret [bytesV (Model.Field.bytes F x), bytesV (Model.Field.bytes F x)] :=
  (bytes_computes prog_hasWrappers.h29 prog_hasWrappers.h32 _ _ out _ hFM hTB hlen).runV

/-- **IsZero** = `Model.Field.isZero` -/
theorem ir_IsZero {F : Model.Field.FieldOps α} {enc : α → List Nat} {Fm Ft : Nat} {x : α}
    (h : BytesPrims prog G X F enc Fm Ft x) (hG : G 2 = bytesV (Model.Field.bytes F F.zero)) :
    ∀ f, fuelIsZero Fm Ft ≤ f →
      runV prog G X f f_fiat_SM2Element_IsZero [elemV (enc x)] = .ret [.int ((Model.Field.isZero F x : Nat) : Int)] := by
  intro f hf
  exact (IsZero_field prog_hasWrappers h hG).runV f (by omega)

/-- **Equal** = `Model.Field.equal` -/
theorem ir_Equal {F : Model.Field.FieldOps α} {enc : α → List Nat} {Fm Ft : Nat} {x t : α}
    (hx : BytesPrims prog G X F enc Fm Ft x) (ht : BytesPrims prog G X F enc Fm Ft t) :
    ∀ f, fuelEqual Fm Ft ≤ f →
      runV prog G X f f_fiat_SM2Element_Equal [elemV (enc x), elemV (enc t)]
        = .ret [.int ((Model.Field.equal F x t : Nat) : Int)] := by
  intro f hf
  exact (Equal_field prog_hasWrappers hx ht).runV f (by omega)

/-- **SetBytes**, success -/
theorem ir_SetBytes_ok {F : Model.Field.FieldOps α} {enc : α → List Nat} {Fb Fo : Nat}
    (hG : G 1 = bytesV (Model.Field.minusOneEncoding F)) (old : List Nat) (v : Bytes) (e' : α)
    (h : Model.Field.setBytes F v = .ok e') (hp : SetBytesPrims prog G X F enc Fb Fo old v) :
    ∀ f, fuelSetBytes Fb Fo ≤ f →
      runV prog G X f f_fiat_SM2Element_SetBytes [elemV old, bytesV v] = .ret [elemV (enc e'), elemV (enc e'), .int 0] :=
  (SetBytes_ok prog_hasWrappers hG old v e' h hp).runV

/-- **SetBytes**, error -/
theorem ir_SetBytes_err {F : Model.Field.FieldOps α}
    (hG : G 1 = bytesV (Model.Field.minusOneEncoding F)) (old : List Nat) (v : Bytes)
    (h : Model.Field.setBytes F v = .err) :
    ∀ f, 404 ≤ f →
      runV prog G X f f_fiat_SM2Element_SetBytes [elemV old, bytesV v] = .ret [elemV old, elemV [0, 0, 0, 0], .int 1] :=
  (SetBytes_err prog_hasWrappers hG old v h).runV

/-- **SetBytes**, panic of the model (excluded by `setBytes_ne_panic` when the encoding of `m - 1` has 32 bytes) -/
theorem ir_SetBytes_panic {F : Model.Field.FieldOps α}
    (hG : G 1 = bytesV (Model.Field.minusOneEncoding F)) (old : List Nat) (v : Bytes)
    (h : Model.Field.setBytes F v = .panic) :
    ∀ f, runV prog G X f f_fiat_SM2Element_SetBytes [elemV old, bytesV v] = .stuck :=
  SetBytes_panic prog_hasWrappers hG old v h

end Runs

#print axioms ir_multiSelect_ok
#print axioms ir_multiSelect_stuck
#print axioms ir_select_general
#print axioms ir_select_ok
#print axioms select_cond2_disagrees
#print axioms ir_invertEndianness
#print axioms ir_bytes
#print axioms ir_Bytes
#print axioms ir_IsZero
#print axioms ir_Equal
#print axioms ir_SetBytes_ok
#print axioms ir_SetBytes_err
#print axioms ir_SetBytes_panic
#print axioms setBytes_ne_panic

end SMGo.Proofs.CTIRRefineField
