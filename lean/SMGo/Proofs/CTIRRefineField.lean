/-
  Refinement: the generated IR of the element wrappers of /repo/sm2/internal/fiat (SMGo/Gen/CTIRProg.lean:
  `fn_8` MultiSelect, `fn_9`–`fn_11` Select / sm2Selectznz / sm2CmovznzU64, `fn_28`/`fn_29`/`fn_32`
  Bytes / bytes / sm2InvertEndianness, `fn_37`/`fn_38` Equal / IsZero, `fn_33` SetBytes) computes the
  hand-written models of SMGo/Model/Field.lean.  Style of SMGo/Proofs/CTIRRefineUtils.lean.

  The big straight-line Fiat primitives (sm2FromMontgomery, sm2ToBytes, sm2FromBytes, sm2ToMontgomery) are
  HYPOTHESES of the form `Computes …` (the body of the IR function, started on the encoded arguments,
  returns the encoded result of the corresponding `FieldOps` primitive).
-/
import SMGo.Proofs.CTIRRefineUtils
import SMGo.Gen.CTIRProg
import SMGo.Model.Field
open SMGo SMGo.Model.CTIR SMGo.Gen.CTIRProg SMGo.Proofs.CTIRRefineUtils
set_option linter.unusedSimpArgs false

namespace SMGo.Proofs.CTIRRefineField

/-! ## Encodings -/

/-- a Go `[4]uint64` (any array of unsigned integers) -/
def limbsV (l : List Nat) : Val := .arr (l.map (fun (x : Nat) => Val.int (x : Int)))
/-- an `SM2Element`: a struct with the single field `x [4]uint64` -/
def elemV (l : List Nat) : Val := .arr [limbsV l]
/-- a `[]*[4]uint64` -/
def tableV (rows : List (List Nat)) : Val := .arr (rows.map limbsV)

theorem limbs_getElem? (l : List Nat) (k : Nat) (h : k < l.length) :
    (l.map (fun (x : Nat) => Val.int (x : Int)))[k]? = some (.int ((l.getD k 0 : Nat) : Int)) := by
  rw [List.getElem?_map, List.getD_eq_getElem?_getD, List.getElem?_eq_getElem h]
  rfl

/-! ## Arithmetic: IR integers at `uint64` / `uint8` vs natural numbers -/

theorem pat_u64_nat (n : Nat) : pat .u64 (n : Int) = n % 18446744073709551616 := by
  simp only [pat, Ty.bits]
  omega

theorem norm_u64_small {n : Nat} (h : n < 18446744073709551616) : norm .u64 (n : Int) = (n : Int) := by
  simp only [norm]; omega

theorem and_mask (a m : Nat) (hm : m < 18446744073709551616) :
    a % 18446744073709551616 &&& m % 18446744073709551616 = a &&& m := by
  have h := @Nat.and_mod_two_pow a m 64
  have h2 : a &&& m < 18446744073709551616 := Nat.lt_of_le_of_lt Nat.and_le_right hm
  rw [show (2 : Nat) ^ 64 = 18446744073709551616 from rfl] at h
  rw [← h, Nat.mod_eq_of_lt h2]

/-- `a & m` at `uint64`, `m` a 64-bit mask (no bound on `a` needed) -/
theorem and_u64_eq (a m : Nat) (hm : m < 18446744073709551616) :
    evalOp2 (.and .u64) (a : Int) (m : Int) = some (((a &&& m : Nat) : Nat) : Int) := by
  have h2 : a &&& m < 18446744073709551616 := Nat.lt_of_le_of_lt Nat.and_le_right hm
  simp only [evalOp2, pat_u64_nat, and_mask a m hm]
  rw [norm_u64_small h2]

theorem or_u64_eq (a b : Nat) (ha : a < 18446744073709551616) (hb : b < 18446744073709551616) :
    evalOp2 (.or .u64) (a : Int) (b : Int) = some (((a ||| b : Nat) : Nat) : Int) := by
  have h2 : a ||| b < 2 ^ 64 := Nat.or_lt_two_pow (n := 64) ha hb
  simp only [evalOp2, pat_u64_nat, Nat.mod_eq_of_lt ha, Nat.mod_eq_of_lt hb]
  rw [norm_u64_small h2]

/-- the mask `uint64(c) * 0xffffffffffffffff` -/
def maskOf (c : Nat) : Nat := c * 18446744073709551615 % 18446744073709551616

theorem maskOf_lt (c : Nat) : maskOf c < 18446744073709551616 := Nat.mod_lt _ (by decide)

theorem mask_u64_eq (c : Nat) :
    norm .u64 (norm .u64 (c : Int) * 18446744073709551615) = ((maskOf c : Nat) : Int) := by
  simp only [norm, maskOf]
  have e : ((c : Int) % 18446744073709551616 * 18446744073709551615) % 18446744073709551616
      = ((c : Int) * 18446744073709551615) % 18446744073709551616 := by
    rw [Int.mul_emod, Int.emod_emod_of_dvd _ (Int.dvd_refl _), ← Int.mul_emod]
  rw [e]
  omega

/-- `^x` at `uint64` -/
theorem not_u64_eq {m : Nat} (h : m < 18446744073709551616) :
    norm .u64 (-(m : Int) - 1) = ((18446744073709551615 - m : Nat) : Int) := by
  simp only [norm]; omega

/-- `subtle.ConstantTimeByteEq(byte(i), bits - 1)` -/
theorem byteEq_eq (i bits : Nat) :
    ofBool (norm .u8 (i : Int) == norm .u8 ((bits : Int) - 1)) = ((Model.Field.byteEq i (bits + 255) : Nat) : Int) := by
  simp only [norm, Model.Field.byteEq, ofBool]
  by_cases h : i % 256 = (bits + 255) % 256
  · have h' : (i : Int) % 256 = ((bits : Int) - 1) % 256 := by omega
    simp [h, h']
  · have h' : ¬ ((i : Int) % 256 = ((bits : Int) - 1) % 256) := by omega
    simp [h, h']

theorem byteEq_le (x y : Nat) : Model.Field.byteEq x y ≤ 1 := by
  simp only [Model.Field.byteEq]; split <;> omega


/-! ## Generic helpers of the symbolic execution -/

section Helpers
variable {P : Prog} {G : Nat → Val} {X : Oracle}

/-- a `declass` statement is, functionally, an assignment of an integer -/
theorem _root_.SMGo.Model.CTIR.EvIn.declass {env : Env} {x site : Nat} {e : Expr} {n : Int}
    (he : evalV G env e = some (.int n)) :
    EvIn P G X 1 env (.declass x site e) (env.set x (.int n)) .norm := by
  intro f hf; obtain ⟨f, rfl⟩ := Nat.exists_eq_add_of_le' hf
  rw [execV_declass, he]

theorem updPath_c1 (l : List Val) (k : Nat) (v : Val) (h : k < l.length) :
    updPath (.arr l) [k] v = some (.arr (l.set k v)) := by
  simp [updPath, List.getElem?_eq_getElem h]

theorem updPath_c2 (l m : List Val) (k j : Nat) (v : Val) (hk : l[k]? = some (.arr m)) (hj : j < m.length) :
    updPath (.arr l) [k, j] v = some (.arr (l.set k (.arr (m.set j v)))) := by
  simp [updPath, hk, List.getElem?_eq_getElem hj]

theorem evalV_limb {env : Env} {a : Expr} {l : List Nat} {k : Nat}
    (ha : evalV G env a = some (limbsV l)) (hk : k < l.length) :
    evalV G env (.idxc a k) = some (.int ((l.getD k 0 : Nat) : Int)) := by
  rw [evalV_idxc, ha]
  simp only [limbsV]
  exact limbs_getElem? l k hk

/-- `x[k] = e` on an array of unsigned integers -/
theorem _root_.SMGo.Model.CTIR.EvIn.assignLimb {env : Env} {x k : Nat} {e : Expr} {l : List Nat} {n : Nat}
    (he : evalV G env e = some (.int (n : Int))) (hx : env x = limbsV l) (hk : k < l.length) :
    EvIn P G X 1 env (.assign x [.c k] e) (env.set x (limbsV (l.set k n))) .norm := by
  refine EvIn.assignPath he (ks := [k]) ?_ ?_
  · simp [pathV_c]
  · rw [hx, limbsV, updPath_c1 _ _ _ (by simpa using hk)]
    simp [limbsV, List.map_set]

/-- `x.x[k] = e` on an element -/
theorem _root_.SMGo.Model.CTIR.EvIn.assignElemLimb {env : Env} {x k : Nat} {e : Expr} {l : List Nat} {n : Nat}
    (he : evalV G env e = some (.int (n : Int))) (hx : env x = elemV l) (hk : k < l.length) :
    EvIn P G X 1 env (.assign x [.c 0, .c k] e) (env.set x (elemV (l.set k n))) .norm := by
  refine EvIn.assignPath he (ks := [0, k]) ?_ ?_
  · simp [pathV_c]
  · rw [hx, elemV, limbsV, updPath_c2 _ _ 0 k _ rfl (by simpa using hk)]
    simp [elemV, limbsV, List.map_set]

/-- a prefix of statements that all end normally: it can be put in front of any continuation, for
    completed runs (`K` more fuel) and for stuck runs -/
def Pre (P : Prog) (G : Nat → Val) (X : Oracle) (K : Nat) (env : Env) (ss : List Stmt) (env' : Env) : Prop :=
  ∀ rest : Stmt,
    (∀ F env'' c, EvIn P G X F env' rest env'' c → EvIn P G X (F + K) env (seqs (ss ++ [rest])) env'' c) ∧
    (Stuck P G X env' rest → Stuck P G X env (seqs (ss ++ [rest])))

theorem Pre.nil (env : Env) : Pre P G X 0 env [] env := fun _ => ⟨fun _ _ _ h => h, fun h => h⟩

theorem seqs_cons_append (s : Stmt) (ss : List Stmt) (rest : Stmt) :
    seqs (s :: ss ++ [rest]) = .seq s (seqs (ss ++ [rest])) := by
  cases ss <;> rfl

theorem Pre.cons {K F1 : Nat} {env env1 env' : Env} {s : Stmt} {ss : List Stmt}
    (h : EvIn P G X F1 env s env1 .norm) (hs : Pre P G X K env1 ss env') :
    Pre P G X (K + F1 + 1) env (s :: ss) env' := by
  intro rest
  rw [seqs_cons_append]
  refine ⟨fun F env'' c hr => ?_, fun hr => ?_⟩
  · exact (EvIn.seq h ((hs rest).1 F env'' c hr)).mono (by omega)
  · exact Stuck.seq_right h ((hs rest).2 hr)

theorem seqs_append (ss1 ss2 : List Stmt) (rest : Stmt) :
    seqs ((ss1 ++ ss2) ++ [rest]) = seqs (ss1 ++ [seqs (ss2 ++ [rest])]) := by
  induction ss1 with
  | nil => rfl
  | cons s ss1 ih =>
    have e1 := seqs_cons_append s (ss1 ++ ss2) rest
    have e2 := seqs_cons_append s ss1 (seqs (ss2 ++ [rest]))
    simp only [List.cons_append] at e1 e2 ⊢
    rw [e1, e2, ih]

theorem Pre.append {K1 K2 : Nat} {env env1 env2 : Env} {ss1 ss2 : List Stmt}
    (h1 : Pre P G X K1 env ss1 env1) (h2 : Pre P G X K2 env1 ss2 env2) :
    Pre P G X (K2 + K1) env (ss1 ++ ss2) env2 := by
  intro rest
  rw [seqs_append]
  refine ⟨fun F env'' c hr => ?_, fun hr => ?_⟩
  · exact ((h1 _).1 _ _ _ ((h2 rest).1 F env'' c hr)).mono (by omega)
  · exact (h1 _).2 ((h2 rest).2 hr)

theorem Pre.mono {K K' : Nat} {env env' : Env} {ss : List Stmt} (h : Pre P G X K env ss env') (hK : K ≤ K') :
    Pre P G X K' env ss env' :=
  fun rest => ⟨fun F env'' c hr => ((h rest).1 F env'' c hr).mono (by omega), (h rest).2⟩

end Helpers


/-! ## 1. MultiSelect -/

/-- one round of the loop of the model -/
def msStep (pre : List (List Nat)) (bits : Nat) (out : List Nat) (i : Nat) : List Nat :=
  [out.getD 0 0 ||| ((pre.getD i []).getD 0 0 &&& maskOf (Model.Field.byteEq i (bits + 255))),
   out.getD 1 0 ||| ((pre.getD i []).getD 1 0 &&& maskOf (Model.Field.byteEq i (bits + 255))),
   out.getD 2 0 ||| ((pre.getD i []).getD 2 0 &&& maskOf (Model.Field.byteEq i (bits + 255))),
   out.getD 3 0 ||| ((pre.getD i []).getD 3 0 &&& maskOf (Model.Field.byteEq i (bits + 255)))]

/-- the masked fallback: the value of `out` before the loop -/
def msInit (fb : List Nat) (fc : Nat) : List Nat :=
  [fb.getD 0 0 &&& (18446744073709551615 - maskOf fc), fb.getD 1 0 &&& (18446744073709551615 - maskOf fc),
   fb.getD 2 0 &&& (18446744073709551615 - maskOf fc), fb.getD 3 0 &&& (18446744073709551615 - maskOf fc)]

theorem multiSelect_unfold (pre : List (List Nat)) (width bits : Nat) (fb : List Nat) (fc : Nat) :
    Model.Field.multiSelectLimbs pre width bits fb fc
      = (List.range width).foldl (msStep pre bits) (msInit fb fc) := rfl

/-- four limbs below 2^64 -/
def Out4 (o : List Nat) : Prop :=
  ∃ a b c d, o = [a, b, c, d] ∧ a < 18446744073709551616 ∧ b < 18446744073709551616 ∧
    c < 18446744073709551616 ∧ d < 18446744073709551616

theorem or_and_lt {a e c : Nat} (ha : a < 18446744073709551616) (hc : c < 18446744073709551616) :
    a ||| (e &&& c) < 18446744073709551616 :=
  Nat.or_lt_two_pow (n := 64) ha (Nat.lt_of_le_of_lt Nat.and_le_right hc)

theorem msStep_out4 (pre : List (List Nat)) (bits : Nat) (o : List Nat) (i : Nat) (ho : Out4 o) :
    Out4 (msStep pre bits o i) := by
  obtain ⟨a, b, c, d, rfl, ha, hb, hc, hd⟩ := ho
  exact ⟨_, _, _, _, rfl, or_and_lt ha (maskOf_lt _), or_and_lt hb (maskOf_lt _), or_and_lt hc (maskOf_lt _),
    or_and_lt hd (maskOf_lt _)⟩

theorem msInit_out4 (fb : List Nat) (fc : Nat) : Out4 (msInit fb fc) := by
  have hm : 18446744073709551615 - maskOf fc < 18446744073709551616 := by omega
  exact ⟨_, _, _, _, rfl, Nat.lt_of_le_of_lt Nat.and_le_right hm, Nat.lt_of_le_of_lt Nat.and_le_right hm,
    Nat.lt_of_le_of_lt Nat.and_le_right hm, Nat.lt_of_le_of_lt Nat.and_le_right hm⟩

def msCond : Expr := .op2 .lt (.var 11) (.var 2)
def msBody : Stmt := seqs [.assign 12 [] (.op2 (.mul .u64) (.op1 (.conv .u64) (.op2 .cteq8 (.op1 (.conv .u8) (.var 11)) (.op2 (.sub .u8) (.var 3) (.lit 1)))) (.lit 18446744073709551615)),
    .assign 8 [] (.idx (.var 1) (.var 11)),
    .assign 7 [.c 0] (.op2 (.or .u64) (.idxc (.var 7) 0) (.op2 (.and .u64) (.idxc (.var 8) 0) (.var 12))),
    .assign 7 [.c 1] (.op2 (.or .u64) (.idxc (.var 7) 1) (.op2 (.and .u64) (.idxc (.var 8) 1) (.var 12))),
    .assign 7 [.c 2] (.op2 (.or .u64) (.idxc (.var 7) 2) (.op2 (.and .u64) (.idxc (.var 8) 2) (.var 12))),
    .assign 7 [.c 3] (.op2 (.or .u64) (.idxc (.var 7) 3) (.op2 (.and .u64) (.idxc (.var 8) 3) (.var 12)))]
def msPost : Stmt := .assign 11 [] (.op2 (.add .i64) (.var 11) (.lit 1))
def msLoop : Stmt := .loop msCond msBody msPost
def msPro : List Stmt := [.assign 7 [] (.mk (.lit 4) (.lit 0)),
    .assign 8 [] (.mk (.lit 4) (.lit 0)),
    .assign 9 [] (.idxc (.var 4) 0),
    .assign 10 [] (.op1 (.not .u64) (.op2 (.mul .u64) (.op1 (.conv .u64) (.var 5)) (.lit 18446744073709551615))),
    .assign 7 [.c 0] (.op2 (.and .u64) (.idxc (.var 9) 0) (.var 10)),
    .assign 7 [.c 1] (.op2 (.and .u64) (.idxc (.var 9) 1) (.var 10)),
    .assign 7 [.c 2] (.op2 (.and .u64) (.idxc (.var 9) 2) (.var 10)),
    .assign 7 [.c 3] (.op2 (.and .u64) (.idxc (.var 9) 3) (.var 10)),
    .assign 11 [] (.lit 0)]
def msTail : List Stmt := [.assign 0 [.c 0, .c 0] (.idxc (.var 7) 0),
    .assign 0 [.c 0, .c 1] (.idxc (.var 7) 1),
    .assign 0 [.c 0, .c 2] (.idxc (.var 7) 2),
    .assign 0 [.c 0, .c 3] (.idxc (.var 7) 3)]

theorem fn_8_body : fn_8.body = seqs (msPro ++ [seqs ([msLoop] ++ [seqs (msTail ++ [.ret [(.var 0)]])])]) := rfl

section MultiSelect
variable {P : Prog} {G : Nat → Val} {X : Oracle}

/-- the state of the loop: `i` rounds done, accumulator `o` -/
structure InvMS (env : Env) (v : Val) (pre : List (List Nat)) (width bits i : Nat) (o : List Nat) : Prop where
  h0 : env 0 = v
  h1 : env 1 = tableV pre
  h2 : env 2 = .int (width : Int)
  h3 : env 3 = .int (bits : Int)
  h11 : env 11 = .int (i : Int)
  h7 : env 7 = limbsV o

/-- `out[k] |= pre[k] & cond` -/
theorem evalV_orand {env : Env} {x y z k : Nat} {lo le : List Nat} {c : Nat}
    (hx : env x = limbsV lo) (hy : env y = limbsV le) (hz : env z = .int (c : Int))
    (hk1 : k < lo.length) (hk2 : k < le.length) (hc : c < 18446744073709551616)
    (ho : lo.getD k 0 < 18446744073709551616) :
    evalV G env (.op2 (.or .u64) (.idxc (.var x) k) (.op2 (.and .u64) (.idxc (.var y) k) (.var z)))
      = some (.int ((lo.getD k 0 ||| (le.getD k 0 &&& c) : Nat) : Int)) := by
  have a1 : evalV G env (.idxc (.var x) k) = some (.int ((lo.getD k 0 : Nat) : Int)) :=
    evalV_limb (by rw [evalV_var, hx]) hk1
  have a2 : evalV G env (.idxc (.var y) k) = some (.int ((le.getD k 0 : Nat) : Int)) :=
    evalV_limb (by rw [evalV_var, hy]) hk2
  have hand : le.getD k 0 &&& c < 18446744073709551616 := Nat.lt_of_le_of_lt Nat.and_le_right hc
  rw [evalV_op2, a1, evalV_op2, a2, evalV_var, hz]
  simp only [and_u64_eq _ _ hc, Option.map_some, or_u64_eq _ _ ho hand]

/-- `out[k] = fb[k] & fbCond` -/
theorem evalV_and {env : Env} {y z k : Nat} {le : List Nat} {c : Nat}
    (hy : env y = limbsV le) (hz : env z = .int (c : Int)) (hk2 : k < le.length) (hc : c < 18446744073709551616) :
    evalV G env (.op2 (.and .u64) (.idxc (.var y) k) (.var z)) = some (.int ((le.getD k 0 &&& c : Nat) : Int)) := by
  have a2 : evalV G env (.idxc (.var y) k) = some (.int ((le.getD k 0 : Nat) : Int)) :=
    evalV_limb (by rw [evalV_var, hy]) hk2
  rw [evalV_op2, a2, evalV_var, hz]
  simp only [and_u64_eq _ _ hc, Option.map_some]

theorem ms_cond_true {env : Env} {i w : Nat} (h11 : env 11 = .int (i : Int)) (h2 : env 2 = .int (w : Int)) (h : i < w) :
    evalV G env msCond = some (.int 1) := by
  have : (i : Int) < (w : Int) := by omega
  simp [msCond, evalV_op2, evalV_var, h11, h2, evalOp2, ofBool, this]

theorem ms_cond_false {env : Env} {i w : Nat} (h11 : env 11 = .int (i : Int)) (h2 : env 2 = .int (w : Int)) (h : ¬ i < w) :
    evalV G env msCond = some (.int 0) := by
  have : ¬ (i : Int) < (w : Int) := by omega
  simp [msCond, evalV_op2, evalV_var, h11, h2, evalOp2, ofBool, this]

/-- the mask of round `i` -/
theorem ms_mask {env : Env} {i bits : Nat} (h11 : env 11 = .int (i : Int)) (h3 : env 3 = .int (bits : Int)) :
    evalV G env (.op2 (.mul .u64) (.op1 (.conv .u64) (.op2 .cteq8 (.op1 (.conv .u8) (.var 11)) (.op2 (.sub .u8) (.var 3) (.lit 1)))) (.lit 18446744073709551615))
      = some (.int ((maskOf (Model.Field.byteEq i (bits + 255)) : Nat) : Int)) := by
  simp only [evalV_op2, evalV_op1, evalV_var, evalV_lit, h11, h3, evalOp2, evalOp1, Option.map_some, byteEq_eq,
    mask_u64_eq]

/-- one round of the body at index `i`, row `i` of the table present -/
theorem ms_body_round {env : Env} {v : Val} {pre : List (List Nat)} {width bits i : Nat} {o row : List Nat}
    (h : InvMS env v pre width bits i o) (ho : Out4 o) (hr : pre[i]? = some row) (hrow : 4 ≤ row.length) :
    ∃ env1, EvIn P G X 11 env msBody env1 .norm ∧ InvMS env1 v pre width bits i (msStep pre bits o i) := by
  obtain ⟨o0, o1, o2, o3, rfl, b0, b1, b2, b3⟩ := ho
  obtain ⟨h0, h1, h2, h3, h11, h7⟩ := h
  have hc := maskOf_lt (Model.Field.byteEq i (bits + 255))
  generalize hcdef : maskOf (Model.Field.byteEq i (bits + 255)) = c at hc
  have hrow' : pre.getD i [] = row := by rw [List.getD_eq_getElem?_getD, hr]; rfl
  have hstep : msStep pre bits [o0, o1, o2, o3] i =
      [o0 ||| (row.getD 0 0 &&& c), o1 ||| (row.getD 1 0 &&& c), o2 ||| (row.getD 2 0 &&& c), o3 ||| (row.getD 3 0 &&& c)] := by
    simp only [msStep, hrow', hcdef]; rfl
  rw [hstep]
  let e1 := env.set 12 (.int (c : Int))
  let e2 := e1.set 8 (limbsV row)
  let e3 := e2.set 7 (limbsV [o0 ||| (row.getD 0 0 &&& c), o1, o2, o3])
  let e4 := e3.set 7 (limbsV [o0 ||| (row.getD 0 0 &&& c), o1 ||| (row.getD 1 0 &&& c), o2, o3])
  let e5 := e4.set 7 (limbsV [o0 ||| (row.getD 0 0 &&& c), o1 ||| (row.getD 1 0 &&& c), o2 ||| (row.getD 2 0 &&& c), o3])
  let e6 := e5.set 7 (limbsV [o0 ||| (row.getD 0 0 &&& c), o1 ||| (row.getD 1 0 &&& c), o2 ||| (row.getD 2 0 &&& c), o3 ||| (row.getD 3 0 &&& c)])
  have s1 := ms_mask (G := G) h11 h3
  rw [hcdef] at s1
  have s2 : evalV G e1 (.idx (.var 1) (.var 11)) = some (limbsV row) := by
    have g1 : e1 1 = tableV pre := by simp [e1, Env.set, h1]
    have g11 : e1 11 = .int (i : Int) := by simp [e1, Env.set, h11]
    simp only [evalV_idx, evalV_var, g1, g11, tableV, getIdx_ofNat, List.getElem?_map, hr, Option.map_some]
  have s3 : evalV G e2 (.op2 (.or .u64) (.idxc (.var 7) 0) (.op2 (.and .u64) (.idxc (.var 8) 0) (.var 12)))
      = some (.int ((o0 ||| (row.getD 0 0 &&& c) : Nat) : Int)) :=
    evalV_orand (lo := [o0, o1, o2, o3]) (le := row) (by simp [e2, e1, Env.set, h7]) (by simp [e2, Env.set])
      (by simp [e2, e1, Env.set]) (by simp) (by omega) hc b0
  have a3 : EvIn P G X 1 e2 _ e3 .norm :=
    EvIn.assignLimb (l := [o0, o1, o2, o3]) (k := 0) s3 (by simp [e2, e1, Env.set, h7]) (by simp)
  have s4 : evalV G e3 (.op2 (.or .u64) (.idxc (.var 7) 1) (.op2 (.and .u64) (.idxc (.var 8) 1) (.var 12)))
      = some (.int ((o1 ||| (row.getD 1 0 &&& c) : Nat) : Int)) :=
    evalV_orand (lo := [(o0 ||| (row.getD 0 0 &&& c)), o1, o2, o3]) (le := row) (by simp [e3, Env.set]) (by simp [e3, e2, Env.set])
      (by simp [e3, e2, e1, Env.set]) (by simp) (by omega) hc b1
  have a4 : EvIn P G X 1 e3 _ e4 .norm :=
    EvIn.assignLimb (l := [(o0 ||| (row.getD 0 0 &&& c)), o1, o2, o3]) (k := 1) s4 (by simp [e3, Env.set]) (by simp)
  have s5 : evalV G e4 (.op2 (.or .u64) (.idxc (.var 7) 2) (.op2 (.and .u64) (.idxc (.var 8) 2) (.var 12)))
      = some (.int ((o2 ||| (row.getD 2 0 &&& c) : Nat) : Int)) :=
    evalV_orand (lo := [(o0 ||| (row.getD 0 0 &&& c)), (o1 ||| (row.getD 1 0 &&& c)), o2, o3]) (le := row) (by simp [e4, Env.set]) (by simp [e4, e3, e2, Env.set])
      (by simp [e4, e3, e2, e1, Env.set]) (by simp) (by omega) hc b2
  have a5 : EvIn P G X 1 e4 _ e5 .norm :=
    EvIn.assignLimb (l := [(o0 ||| (row.getD 0 0 &&& c)), (o1 ||| (row.getD 1 0 &&& c)), o2, o3]) (k := 2) s5 (by simp [e4, Env.set]) (by simp)
  have s6 : evalV G e5 (.op2 (.or .u64) (.idxc (.var 7) 3) (.op2 (.and .u64) (.idxc (.var 8) 3) (.var 12)))
      = some (.int ((o3 ||| (row.getD 3 0 &&& c) : Nat) : Int)) :=
    evalV_orand (lo := [(o0 ||| (row.getD 0 0 &&& c)), (o1 ||| (row.getD 1 0 &&& c)), (o2 ||| (row.getD 2 0 &&& c)), o3]) (le := row) (by simp [e5, Env.set]) (by simp [e5, e4, e3, e2, Env.set])
      (by simp [e5, e4, e3, e2, e1, Env.set]) (by simp) (by omega) hc b3
  have a6 : EvIn P G X 1 e5 _ e6 .norm :=
    EvIn.assignLimb (l := [(o0 ||| (row.getD 0 0 &&& c)), (o1 ||| (row.getD 1 0 &&& c)), (o2 ||| (row.getD 2 0 &&& c)), o3]) (k := 3) s6 (by simp [e5, Env.set]) (by simp)
  refine ⟨e6, ?_, ?_⟩
  · exact (EvIn.seq (EvIn.assign s1) (EvIn.seq (EvIn.assign s2) (EvIn.seq a3 (EvIn.seq a4 (EvIn.seq a5 a6))))).mono (by decide)
  · refine ⟨?_, ?_, ?_, ?_, ?_, ?_⟩
    · simp [e6, e5, e4, e3, e2, e1, Env.set, h0]
    · simp [e6, e5, e4, e3, e2, e1, Env.set, h1]
    · simp [e6, e5, e4, e3, e2, e1, Env.set, h2]
    · simp [e6, e5, e4, e3, e2, e1, Env.set, h3]
    · simp [e6, e5, e4, e3, e2, e1, Env.set, h11]
    · simp [e6, Env.set]


theorem ms_post_step {env : Env} {v : Val} {pre : List (List Nat)} {width bits i : Nat} {o : List Nat}
    (h : InvMS env v pre width bits i o) (hi : i + 1 < 9223372036854775808) :
    ∃ env2, EvIn P G X 1 env msPost env2 .norm ∧ InvMS env2 v pre width bits (i + 1) o := by
  obtain ⟨h0, h1, h2, h3, h11, h7⟩ := h
  have s : evalV G env (.op2 (.add .i64) (.var 11) (.lit 1)) = some (.int ((i + 1 : Nat) : Int)) := by
    simp only [evalV_op2, evalV_var, evalV_lit, h11, evalOp2, Option.map_some]
    rw [norm_i64_small (by omega) (by omega)]
    rfl
  refine ⟨env.set 11 (.int ((i + 1 : Nat) : Int)), EvIn.assign s, ?_, ?_, ?_, ?_, ?_, ?_⟩ <;> simp [Env.set, *]

/-- the rows of the table that the loop reads -/
def RowsOk (pre : List (List Nat)) (n : Nat) : Prop := ∀ j, j < n → ∃ row, pre[j]? = some row ∧ 4 ≤ row.length

/-- the loop computes the fold of `msStep` over the remaining indices -/
theorem ms_loop_ok (v : Val) (pre : List (List Nat)) (width bits : Nat) (hw : width < 9223372036854775808)
    (hpre : RowsOk pre width) : ∀ (n i : Nat) (env : Env) (o : List Nat),
    InvMS env v pre width bits i o → Out4 o → i + n = width →
    ∃ env', EvIn P G X (13 * n + 1) env msLoop env' .norm ∧ env' 0 = v ∧
      env' 7 = limbsV ((List.range' i n).foldl (msStep pre bits) o) ∧
      Out4 ((List.range' i n).foldl (msStep pre bits) o) := by
  intro n
  induction n with
  | zero =>
    intro i env o h ho hin
    exact ⟨env, EvIn.loop_exit (ms_cond_false h.h11 h.h2 (by omega)) rfl, h.h0, h.h7, ho⟩
  | succ n ih =>
    intro i env o h ho hin
    obtain ⟨row, hr, hrow⟩ := hpre i (by omega)
    obtain ⟨env1, hbody, hinv1⟩ := ms_body_round (P := P) (G := G) (X := X) h ho hr hrow
    obtain ⟨env2, hpost, hinv2⟩ := ms_post_step (P := P) (G := G) (X := X) hinv1 (by omega)
    obtain ⟨env', hl, r0, r7, ro⟩ := ih (i + 1) env2 _ hinv2 (msStep_out4 pre bits o i ho) (by omega)
    refine ⟨env', ?_, r0, ?_, ?_⟩
    · exact (EvIn.loop_round (ms_cond_true h.h11 h.h2 (by omega)) rfl hbody (Or.inl rfl) hpost hl).mono (by omega)
    · rw [List.range'_succ, List.foldl_cons]; exact r7
    · rw [List.range'_succ, List.foldl_cons]; exact ro

/-- a table with fewer than `width` rows: the run is stuck (index out of range) -/
theorem ms_loop_stuck (v : Val) (pre : List (List Nat)) (width bits : Nat) (hw : width < 9223372036854775808)
    (hlen : pre.length < width) (hpre : RowsOk pre pre.length) : ∀ (n i : Nat) (env : Env) (o : List Nat),
    InvMS env v pre width bits i o → Out4 o → i + n = pre.length → Stuck P G X env msLoop := by
  intro n
  induction n with
  | zero =>
    intro i env o h ho hin
    have hnone : pre[i]? = none := List.getElem?_eq_none (by omega)
    apply Stuck.loop_body (ms_cond_true h.h11 h.h2 (by omega)) rfl
    apply Stuck.seq_right (EvIn.assign (ms_mask (G := G) h.h11 h.h3))
    apply Stuck.seq_left
    apply Stuck.assign
    have g1 : (env.set 12 (.int ((maskOf (Model.Field.byteEq i (bits + 255)) : Nat) : Int))) 1 = tableV pre := by
      simp [Env.set, h.h1]
    have g11 : (env.set 12 (.int ((maskOf (Model.Field.byteEq i (bits + 255)) : Nat) : Int))) 11 = .int (i : Int) := by
      simp [Env.set, h.h11]
    simp only [evalV_idx, evalV_var, g1, g11, tableV, getIdx_ofNat, List.getElem?_map, hnone, Option.map_none]
  | succ n ih =>
    intro i env o h ho hin
    obtain ⟨row, hr, hrow⟩ := hpre i (by omega)
    obtain ⟨env1, hbody, hinv1⟩ := ms_body_round (P := P) (G := G) (X := X) h ho hr hrow
    obtain ⟨env2, hpost, hinv2⟩ := ms_post_step (P := P) (G := G) (X := X) hinv1 (by omega)
    exact Stuck.loop_round (ms_cond_true h.h11 h.h2 (by omega)) rfl hbody (Or.inl rfl) hpost
      (ih (i + 1) env2 _ hinv2 (msStep_out4 pre bits o i ho) (by omega))


theorem len4 {α : Type} (l : List α) (h : l.length = 4) : ∃ a b c d, l = [a, b, c, d] := by
  match l, h with
  | [a, b, c, d], _ => exact ⟨a, b, c, d, rfl⟩

theorem evalV_mk4 (env : Env) : evalV G env (.mk (.lit 4) (.lit 0)) = some (limbsV [0, 0, 0, 0]) := by
  rw [evalV_mk]; rfl

/-- the state before the loop of MultiSelect -/
theorem ms_prologue (v : Val) (pre : List (List Nat)) (width bits : Nat) (fb : List Nat) (fc : Nat) (hfb : 4 ≤ fb.length) :
    ∃ envP, Pre P G X 18 (Env.ofList [v, tableV pre, .int (width : Int), .int (bits : Int), elemV fb, .int (fc : Int)])
      msPro envP ∧ InvMS envP v pre width bits 0 (msInit fb fc) := by
  have hm : 18446744073709551615 - maskOf fc < 18446744073709551616 := by omega
  generalize hmdef : 18446744073709551615 - maskOf fc = m at hm
  have hinit : msInit fb fc = [fb.getD 0 0 &&& m, fb.getD 1 0 &&& m, fb.getD 2 0 &&& m, fb.getD 3 0 &&& m] := by
    simp only [msInit, hmdef]
  rw [hinit]
  let e0 : Env := Env.ofList [v, tableV pre, .int (width : Int), .int (bits : Int), elemV fb, .int (fc : Int)]
  let e1 := e0.set 7 (limbsV [0, 0, 0, 0])
  let e2 := e1.set 8 (limbsV [0, 0, 0, 0])
  let e3 := e2.set 9 (limbsV fb)
  let e4 := e3.set 10 (.int (m : Int))
  let e5 := e4.set 7 (limbsV [fb.getD 0 0 &&& m, 0, 0, 0])
  let e6 := e5.set 7 (limbsV [fb.getD 0 0 &&& m, fb.getD 1 0 &&& m, 0, 0])
  let e7 := e6.set 7 (limbsV [fb.getD 0 0 &&& m, fb.getD 1 0 &&& m, fb.getD 2 0 &&& m, 0])
  let e8 := e7.set 7 (limbsV [fb.getD 0 0 &&& m, fb.getD 1 0 &&& m, fb.getD 2 0 &&& m, fb.getD 3 0 &&& m])
  let e9 := e8.set 11 (.int ((0 : Nat) : Int))
  have s3 : evalV G e2 (.idxc (.var 4) 0) = some (limbsV fb) := by
    have g4 : e2 4 = elemV fb := by simp [e2, e1, e0, Env.set, Env.ofList]
    simp only [evalV_idxc, evalV_var, g4, elemV]
    rfl
  have s4 : evalV G e3 (.op1 (.not .u64) (.op2 (.mul .u64) (.op1 (.conv .u64) (.var 5)) (.lit 18446744073709551615)))
      = some (.int (m : Int)) := by
    have g5 : e3 5 = .int (fc : Int) := by simp [e3, e2, e1, e0, Env.set, Env.ofList]
    simp only [evalV_op1, evalV_op2, evalV_var, evalV_lit, g5, evalOp2, evalOp1, Option.map_some, mask_u64_eq,
      not_u64_eq (maskOf_lt fc), hmdef]
  have s5 : evalV G e4 (.op2 (.and .u64) (.idxc (.var 9) 0) (.var 10)) = some (.int ((fb.getD 0 0 &&& m : Nat) : Int)) :=
    evalV_and (le := fb) (by simp [e4, e3, Env.set]) (by simp [e4, Env.set]) (by omega) hm
  have a5 : EvIn P G X 1 e4 _ e5 .norm :=
    EvIn.assignLimb (l := [0, 0, 0, 0]) (k := 0) s5 (by simp [e4, e3, e2, e1, Env.set]) (by simp)
  have s6 : evalV G e5 (.op2 (.and .u64) (.idxc (.var 9) 1) (.var 10)) = some (.int ((fb.getD 1 0 &&& m : Nat) : Int)) :=
    evalV_and (le := fb) (by simp [e5, e4, e3, Env.set]) (by simp [e5, e4, Env.set]) (by omega) hm
  have a6 : EvIn P G X 1 e5 _ e6 .norm :=
    EvIn.assignLimb (l := [fb.getD 0 0 &&& m, 0, 0, 0]) (k := 1) s6 (by simp [e5, Env.set]) (by simp)
  have s7 : evalV G e6 (.op2 (.and .u64) (.idxc (.var 9) 2) (.var 10)) = some (.int ((fb.getD 2 0 &&& m : Nat) : Int)) :=
    evalV_and (le := fb) (by simp [e6, e5, e4, e3, Env.set]) (by simp [e6, e5, e4, Env.set]) (by omega) hm
  have a7 : EvIn P G X 1 e6 _ e7 .norm :=
    EvIn.assignLimb (l := [fb.getD 0 0 &&& m, fb.getD 1 0 &&& m, 0, 0]) (k := 2) s7 (by simp [e6, Env.set]) (by simp)
  have s8 : evalV G e7 (.op2 (.and .u64) (.idxc (.var 9) 3) (.var 10)) = some (.int ((fb.getD 3 0 &&& m : Nat) : Int)) :=
    evalV_and (le := fb) (by simp [e7, e6, e5, e4, e3, Env.set]) (by simp [e7, e6, e5, e4, Env.set]) (by omega) hm
  have a8 : EvIn P G X 1 e7 _ e8 .norm :=
    EvIn.assignLimb (l := [fb.getD 0 0 &&& m, fb.getD 1 0 &&& m, fb.getD 2 0 &&& m, 0]) (k := 3) s8
      (by simp [e7, Env.set]) (by simp)
  have a9 : EvIn P G X 1 e8 (.assign 11 [] (.lit 0)) e9 .norm := EvIn.assign rfl
  refine ⟨e9, ?_, ?_⟩
  · exact Pre.cons (EvIn.assign (evalV_mk4 _)) (Pre.cons (EvIn.assign (evalV_mk4 _)) (Pre.cons (EvIn.assign s3)
      (Pre.cons (EvIn.assign s4) (Pre.cons a5 (Pre.cons a6 (Pre.cons a7 (Pre.cons a8 (Pre.cons a9 (Pre.nil _)))))))))
  · refine ⟨?_, ?_, ?_, ?_, ?_, ?_⟩
    · simp [e9, e8, e7, e6, e5, e4, e3, e2, e1, e0, Env.set, Env.ofList]
    · simp [e9, e8, e7, e6, e5, e4, e3, e2, e1, e0, Env.set, Env.ofList]
    · simp [e9, e8, e7, e6, e5, e4, e3, e2, e1, e0, Env.set, Env.ofList]
    · simp [e9, e8, e7, e6, e5, e4, e3, e2, e1, e0, Env.set, Env.ofList]
    · simp [e9, Env.set]
    · simp [e9, e8, Env.set]

/-- the copy of the accumulator into `v.x` and the return -/
theorem ms_tail {env : Env} {v0 r : List Nat} (hv : v0.length = 4) (hr : r.length = 4)
    (h0 : env 0 = elemV v0) (h7 : env 7 = limbsV r) :
    ∃ env', EvIn P G X 9 env (seqs (msTail ++ [.ret [(.var 0)]])) env' (.ret [elemV r]) := by
  obtain ⟨a, b, c, d, rfl⟩ := len4 v0 hv
  obtain ⟨r0, r1, r2, r3, rfl⟩ := len4 r hr
  let e1 := env.set 0 (elemV [r0, b, c, d])
  let e2 := e1.set 0 (elemV [r0, r1, c, d])
  let e3 := e2.set 0 (elemV [r0, r1, r2, d])
  let e4 := e3.set 0 (elemV [r0, r1, r2, r3])
  have s1 : evalV G env (.idxc (.var 7) 0) = some (.int (r0 : Int)) :=
    evalV_limb (l := [r0, r1, r2, r3]) (by rw [evalV_var, h7]) (by simp)
  have a1 : EvIn P G X 1 env _ e1 .norm := EvIn.assignElemLimb (l := [a, b, c, d]) (k := 0) s1 h0 (by simp)
  have s2 : evalV G e1 (.idxc (.var 7) 1) = some (.int (r1 : Int)) :=
    evalV_limb (l := [r0, r1, r2, r3]) (by rw [evalV_var]; simp [e1, Env.set, h7]) (by simp)
  have a2 : EvIn P G X 1 e1 _ e2 .norm :=
    EvIn.assignElemLimb (l := [r0, b, c, d]) (k := 1) s2 (by simp [e1, Env.set]) (by simp)
  have s3 : evalV G e2 (.idxc (.var 7) 2) = some (.int (r2 : Int)) :=
    evalV_limb (l := [r0, r1, r2, r3]) (by rw [evalV_var]; simp [e2, e1, Env.set, h7]) (by simp)
  have a3 : EvIn P G X 1 e2 _ e3 .norm :=
    EvIn.assignElemLimb (l := [r0, r1, c, d]) (k := 2) s3 (by simp [e2, Env.set]) (by simp)
  have s4 : evalV G e3 (.idxc (.var 7) 3) = some (.int (r3 : Int)) :=
    evalV_limb (l := [r0, r1, r2, r3]) (by rw [evalV_var]; simp [e3, e2, e1, Env.set, h7]) (by simp)
  have a4 : EvIn P G X 1 e3 _ e4 .norm :=
    EvIn.assignElemLimb (l := [r0, r1, r2, d]) (k := 3) s4 (by simp [e3, Env.set]) (by simp)
  have sr : evalVs G e4 [(.var 0)] = some [elemV [r0, r1, r2, r3]] := by
    simp [evalVs_cons, e4, Env.set]
  exact ⟨e4, (EvIn.seq a1 (EvIn.seq a2 (EvIn.seq a3 (EvIn.seq a4 (EvIn.ret sr))))).mono (by decide)⟩

end MultiSelect

/-! ### The whole function -/

section MultiSelectWhole
variable {G : Nat → Val} {X : Oracle}

/-- fuel that suffices for MultiSelect with `width` rounds -/
def fuelMS (width : Nat) : Nat := 13 * width + 32

theorem fn8_lookup : prog[f_fiat_SM2Element_MultiSelect]? = some fn_8 := rfl

theorem Out4.length {o : List Nat} (h : Out4 o) : o.length = 4 := by
  obtain ⟨a, b, c, d, rfl, _⟩ := h; rfl

/-- body level, for ANY program (the body calls nothing) -/
theorem multiSelect_body_ok {P : Prog} (v0 : List Nat) (pre : List (List Nat)) (width bits : Nat) (fb : List Nat) (fc : Nat)
    (hv : v0.length = 4) (hfb : 4 ≤ fb.length) (hw : width < 9223372036854775808) (hpre : RowsOk pre width) :
    ∃ env', EvIn P G X (fuelMS width - 1)
      (Env.ofList [elemV v0, tableV pre, .int (width : Int), .int (bits : Int), elemV fb, .int (fc : Int)]) fn_8.body env'
      (.ret [elemV (Model.Field.multiSelectLimbs pre width bits fb fc)]) := by
  obtain ⟨envP, hpro, hinv⟩ := ms_prologue (P := P) (G := G) (X := X) (elemV v0) pre width bits fb fc hfb
  obtain ⟨envL, hloop, l0, l7, lo⟩ := ms_loop_ok (P := P) (G := G) (X := X) (elemV v0) pre width bits hw hpre width 0 envP _
    hinv (msInit_out4 fb fc) (by omega)
  rw [← List.range_eq_range', ← multiSelect_unfold] at l7 lo
  obtain ⟨envT, htail⟩ := ms_tail (P := P) (G := G) (X := X) hv lo.length l0 l7
  refine ⟨envT, ?_⟩
  rw [fn_8_body]
  exact ((hpro _).1 _ _ _ (EvIn.seq hloop htail)).mono (by simp only [fuelMS]; omega)

/-- **MultiSelect** = `Model.Field.multiSelectLimbs`, for every `width` of a Go `int`, every `bits`, every
    `fallbackCond ≥ 0`, all limbs (no bound needed: the masks cut them), a table with at least `width`
    rows of (at least) 4 limbs -/
theorem ir_multiSelect_ok (v0 : List Nat) (pre : List (List Nat)) (width bits : Nat) (fb : List Nat) (fc : Nat)
    (hv : v0.length = 4) (hfb : 4 ≤ fb.length) (hw : width < 9223372036854775808) (hpre : RowsOk pre width) :
    ∀ f, fuelMS width ≤ f →
      runV prog G X f f_fiat_SM2Element_MultiSelect
        [elemV v0, tableV pre, .int (width : Int), .int (bits : Int), elemV fb, .int (fc : Int)]
        = .ret [elemV (Model.Field.multiSelectLimbs pre width bits fb fc)] := by
  obtain ⟨env', hb⟩ := multiSelect_body_ok (P := prog) (G := G) (X := X) v0 pre width bits fb fc hv hfb hw hpre
  intro f hf
  exact runV_of_EvIn fn8_lookup rfl rfl hb f (by simp only [fuelMS] at hf ⊢; omega)

/-- a table with fewer than `width` rows: `(*precomputed)[i]` is out of range, the run is stuck with every fuel -/
theorem ir_multiSelect_stuck (v0 : List Nat) (pre : List (List Nat)) (width bits : Nat) (fb : List Nat) (fc : Nat)
    (hfb : 4 ≤ fb.length) (hw : width < 9223372036854775808) (hlen : pre.length < width) (hpre : RowsOk pre pre.length) :
    ∀ f, runV prog G X f f_fiat_SM2Element_MultiSelect
        [elemV v0, tableV pre, .int (width : Int), .int (bits : Int), elemV fb, .int (fc : Int)] = .stuck := by
  obtain ⟨envP, hpro, hinv⟩ := ms_prologue (P := prog) (G := G) (X := X) (elemV v0) pre width bits fb fc hfb
  have hloop := ms_loop_stuck (P := prog) (G := G) (X := X) (elemV v0) pre width bits hw hlen hpre pre.length 0 envP _
    hinv (msInit_out4 fb fc) (by omega)
  refine runV_of_Stuck fn8_lookup ?_
  rw [fn_8_body]
  exact (hpro _).2 (Stuck.seq_left hloop)

end MultiSelectWhole


/-! ## 2. Select (through sm2Selectznz and sm2CmovznzU64) -/

theorem and_u64_eq' (m a : Nat) (hm : m < 18446744073709551616) :
    evalOp2 (.and .u64) (m : Int) (a : Int) = some (((m &&& a : Nat) : Nat) : Int) := by
  rw [Nat.and_comm m a]
  have h2 : a &&& m < 18446744073709551616 := Nat.lt_of_le_of_lt Nat.and_le_right hm
  simp only [evalOp2, pat_u64_nat, Nat.and_comm (m % 18446744073709551616), and_mask a m hm]
  rw [norm_u64_small h2]

theorem not_u64_op {m : Nat} (h : m < 18446744073709551616) :
    evalOp1 (.not .u64) (m : Int) = ((18446744073709551615 - m : Nat) : Int) := by
  simp only [evalOp1]; exact not_u64_eq h

/-- what `sm2CmovznzU64(&out, arg1, arg2, arg3)` stores: `(x1 & arg3) | (^x1 & arg2)`, `x1 = arg1 * 0xff…ff` -/
def cmovN (c a2 a3 : Nat) : Nat :=
  (maskOf c &&& a3) ||| ((18446744073709551615 - maskOf c) &&& a2)

theorem cmovN_zero (a2 a3 : Nat) (h : a2 < 18446744073709551616) : cmovN 0 a2 a3 = a2 := by
  have e : maskOf 0 = 0 := rfl
  have e2 := Nat.and_two_pow_sub_one_eq_mod a2 64
  rw [show (2 : Nat) ^ 64 - 1 = 18446744073709551615 from rfl, show (2 : Nat) ^ 64 = 18446744073709551616 from rfl,
    Nat.mod_eq_of_lt h] at e2
  simp only [cmovN, e, Nat.zero_and, Nat.zero_or, Nat.sub_zero, Nat.and_comm 18446744073709551615 a2, e2]

theorem cmovN_one (a2 a3 : Nat) (h : a3 < 18446744073709551616) : cmovN 1 a2 a3 = a3 := by
  have e : maskOf 1 = 18446744073709551615 := rfl
  have e2 := Nat.and_two_pow_sub_one_eq_mod a3 64
  rw [show (2 : Nat) ^ 64 - 1 = 18446744073709551615 from rfl, show (2 : Nat) ^ 64 = 18446744073709551616 from rfl,
    Nat.mod_eq_of_lt h] at e2
  simp only [cmovN, e, Nat.sub_self, Nat.zero_and, Nat.or_zero, Nat.and_comm 18446744073709551615 a3, e2]

theorem maskOf_mod (c : Nat) : maskOf (c % 18446744073709551616) = maskOf c := by
  simp only [maskOf]; omega

theorem fn_11_body : fn_11.body =
    seqs [.assign 5 [] (.op2 (.mul .u64) (.op1 (.conv .u64) (.var 1)) (.lit 18446744073709551615)),
      .assign 6 [] (.op2 (.or .u64) (.op2 (.and .u64) (.var 5) (.var 3)) (.op2 (.and .u64) (.op1 (.not .u64) (.var 5)) (.var 2))),
      .assign 0 [] (.var 6),
      .ret [(.var 0)]] := rfl

section Select
variable {P : Prog} {G : Nat → Val} {X : Oracle}

/-- sm2CmovznzU64, body level, any program (calls nothing), any `arg1` (not only 0/1), any old `*out1` -/
theorem cmov_body_ok (out1 : Val) (c a2 a3 : Nat) :
    ∃ env', EvIn P G X 7 (Env.ofList [out1, .int (c : Int), .int (a2 : Int), .int (a3 : Int)]) fn_11.body env'
      (.ret [.int ((cmovN c a2 a3 : Nat) : Int)]) := by
  let e0 : Env := Env.ofList [out1, .int (c : Int), .int (a2 : Int), .int (a3 : Int)]
  let e1 := e0.set 5 (.int ((maskOf c : Nat) : Int))
  let e2 := e1.set 6 (.int ((cmovN c a2 a3 : Nat) : Int))
  let e3 := e2.set 0 (.int ((cmovN c a2 a3 : Nat) : Int))
  have hm := maskOf_lt c
  have hm' : 18446744073709551615 - maskOf c < 18446744073709551616 := by omega
  have s1 : evalV G e0 (.op2 (.mul .u64) (.op1 (.conv .u64) (.var 1)) (.lit 18446744073709551615))
      = some (.int ((maskOf c : Nat) : Int)) := by
    have g1 : e0 1 = .int (c : Int) := by simp [e0, Env.ofList]
    simp only [evalV_op2, evalV_op1, evalV_var, evalV_lit, g1, evalOp2, evalOp1, Option.map_some, mask_u64_eq]
  have s2 : evalV G e1 (.op2 (.or .u64) (.op2 (.and .u64) (.var 5) (.var 3)) (.op2 (.and .u64) (.op1 (.not .u64) (.var 5)) (.var 2)))
      = some (.int ((cmovN c a2 a3 : Nat) : Int)) := by
    have g5 : e1 5 = .int ((maskOf c : Nat) : Int) := by simp [e1, Env.set]
    have g3 : e1 3 = .int (a3 : Int) := by simp [e1, e0, Env.set, Env.ofList]
    have g2 : e1 2 = .int (a2 : Int) := by simp [e1, e0, Env.set, Env.ofList]
    have b1 : maskOf c &&& a3 < 18446744073709551616 := Nat.lt_of_le_of_lt Nat.and_le_left hm
    have b2 : (18446744073709551615 - maskOf c) &&& a2 < 18446744073709551616 := Nat.lt_of_le_of_lt Nat.and_le_left hm'
    simp only [evalV_op2, evalV_op1, evalV_var, g5, g3, g2, not_u64_op hm, and_u64_eq' _ _ hm, and_u64_eq' _ _ hm',
      Option.map_some, or_u64_eq _ _ b1 b2, cmovN]
  have s3 : evalV G e2 (.var 6) = some (.int ((cmovN c a2 a3 : Nat) : Int)) := by simp [e2, Env.set]
  have sr : evalVs G e3 [(.var 0)] = some [.int ((cmovN c a2 a3 : Nat) : Int)] := by simp [evalVs_cons, e3, Env.set]
  rw [fn_11_body]
  exact ⟨e3, (EvIn.seq (EvIn.assign s1) (EvIn.seq (EvIn.assign s2) (EvIn.seq (EvIn.assign s3) (EvIn.ret sr)))).mono (by decide)⟩

end Select

end SMGo.Proofs.CTIRRefineField
