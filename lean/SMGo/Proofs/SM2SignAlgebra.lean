/-
  The arithmetic modulo the (prime) group order n behind SM2 signing and verification:
    * the code's `s = ((r + k)·(1+d)⁻¹ − r) mod n` is the standard's `s = (1+d)⁻¹·(k − r·d) mod n`;
    * for a signature (r, s) made with nonce k: `(s + t·d) mod n = k` with `t = (r + s) mod n`, and
      `t ≠ 0` as soon as `r + k ≠ n`.
  Used by C02 (first item) and C01 (second item).
-/
import SMGo.Spec.SM2
import SMGo.Proofs.ModArith
import SMGo.Proofs.Prime
import Mathlib.Tactic.LinearCombination
import Mathlib.Tactic.Ring

namespace SMGo.Proofs.SM2SignAlgebra
open SMGo.Spec.SM2 SMGo.Proofs.ModArith SMGo.Proofs.Prime

theorem two_lt_n : 2 < n := by decide
theorem n_pos : 0 < n := by decide
theorem n_lt_pow : n < 256 ^ 32 := by decide
theorem n_ge_pow : 256 ^ 31 ≤ n - 2 := by decide
theorem p_lt_pow : p < 256 ^ 32 := by decide

theorem validKey_iff (d : Nat) : validKey d = true ↔ 1 ≤ d ∧ d ≤ n - 2 := by
  simp [validKey]

/-- cast of `n - x` for `x ≤ n` -/
theorem cast_n_sub {x : Nat} (h : x ≤ n) : ((n - x : Nat) : ZMod n) = -(x : ZMod n) := by
  rw [Nat.cast_sub h, ZMod.natCast_self, zero_sub]

theorem cast_ne_zero_of_lt {x : Nat} (h0 : 0 < x) (h : x < n) : (x : ZMod n) ≠ 0 := by
  rw [Ne, ZMod.natCast_eq_zero_iff]
  intro hd
  exact absurd (Nat.le_of_dvd h0 hd) (by omega)

/-- `(1+d)⁻¹ · (1+d) = 1` in `ZMod n` for a valid key -/
theorem inv_mul_cancel_key {d : Nat} (hd : d + 1 < n) :
    ((invMod (1 + d) n : Nat) : ZMod n) * ((d : ZMod n) + 1) = 1 := by
  rw [invMod_cast two_lt_n]
  have hne : ((1 + d : Nat) : ZMod n) ≠ 0 := cast_ne_zero_of_lt (by omega) (by omega)
  have : ((d : ZMod n) + 1) = ((1 + d : Nat) : ZMod n) := by push_cast; ring
  rw [this]
  exact inv_mul_cancel₀ hne

/-- the value the code computes for s is the standard's -/
theorem s_code_eq_spec (d r k : Nat) (hd : d + 1 < n) :
    ((r + k) * invMod (d + 1) n + (n - r % n)) % n
      = invMod (1 + d) n * ((k + (n - r * d % n)) % n) % n := by
  rw [← ZMod.natCast_eq_natCast_iff']
  have hi := inv_mul_cancel_key hd
  have h1 : r % n ≤ n := Nat.le_of_lt (Nat.mod_lt _ n_pos)
  have h2 : r * d % n ≤ n := Nat.le_of_lt (Nat.mod_lt _ n_pos)
  rw [Nat.add_comm d 1]
  simp only [Nat.cast_add, Nat.cast_mul, ZMod.natCast_mod, cast_n_sub h1, cast_n_sub h2]
  linear_combination (r : ZMod n) * hi

/-- the relation between a signature and its nonce, in `ZMod n` -/
theorem s_mul_key (d r k : Nat) (hd : d + 1 < n) :
    ((invMod (1 + d) n * ((k + (n - r * d % n)) % n) % n : Nat) : ZMod n) * ((d : ZMod n) + 1)
      = (k : ZMod n) - (r : ZMod n) * (d : ZMod n) := by
  have hi := inv_mul_cancel_key hd
  have h2 : r * d % n ≤ n := Nat.le_of_lt (Nat.mod_lt _ n_pos)
  simp only [Nat.cast_add, Nat.cast_mul, ZMod.natCast_mod, cast_n_sub h2]
  linear_combination ((k : ZMod n) - (r : ZMod n) * (d : ZMod n)) * hi

/-- verification recomputes the nonce: `(s + t·d) mod n = k` -/
theorem recover_k (d r k s : Nat) (hd : d + 1 < n) (hk : k < n)
    (hs : s = invMod (1 + d) n * ((k + (n - r * d % n)) % n) % n) :
    (s + (r + s) % n * d) % n = k := by
  have hsk := s_mul_key d r k hd
  rw [← hs] at hsk
  have : ((s + (r + s) % n * d : Nat) : ZMod n) = ((k : Nat) : ZMod n) := by
    simp only [Nat.cast_add, Nat.cast_mul, ZMod.natCast_mod]
    linear_combination hsk
  rw [ZMod.natCast_eq_natCast_iff'] at this
  rw [this, Nat.mod_eq_of_lt hk]

/-- `t = (r + s) mod n` is non-zero because `r + k = n` has been excluded -/
theorem t_ne_zero (d r k s : Nat) (hd : d + 1 < n) (hk : k < n) (hr0 : r ≠ 0) (hr : r < n)
    (hrk : r + k ≠ n)
    (hs : s = invMod (1 + d) n * ((k + (n - r * d % n)) % n) % n) :
    (r + s) % n ≠ 0 := by
  intro ht
  have hsk := s_mul_key d r k hd
  rw [← hs] at hsk
  have h0 : ((r + s : Nat) : ZMod n) = 0 := by
    rw [ZMod.natCast_eq_zero_iff]; exact Nat.dvd_of_mod_eq_zero ht
  push_cast at h0
  have h1 : ((r + k : Nat) : ZMod n) = 0 := by
    push_cast
    linear_combination ((d : ZMod n) + 1) * h0 - hsk
  rw [ZMod.natCast_eq_zero_iff] at h1
  obtain ⟨c, hc⟩ := h1
  have hc1 : c = 1 := by
    rcases c with _ | _ | c
    · omega
    · rfl
    · have : n * (c + 1 + 1) = n * c + n + n := by ring
      omega
  rw [hc1, Nat.mul_one] at hc
  exact hrk hc

end SMGo.Proofs.SM2SignAlgebra
