/-
  RENAMING / TRANSFER for the CT-IR interpreter, and its first application.

  Two generated programs contain the same Go functions under different function numbers and global numbers
  (`SMGo.Gen.CTIRProg.prog`, 100 functions, and `SMGo.Gen.CTIRProgFn.prog`, 38 functions).

  PART 1 (general).  `renE γ`, `renP γ`, `renS σ γ`, `renF σ γ`: syntactic renaming of global numbers (`γ`) and
  function numbers (`σ`) in expressions, paths, statements, functions (externals keep their numbers);
  `closedS D s`: every call inside `s` goes to a function of the list `D`;
  `Renames P P' σ γ D`: every `g ∈ D` is a function `fn` of `P`, `P'[σ g]? = some (renF σ γ fn)`, and `fn.body` is
  closed in `D`.  Then (`execV_ren`) for every fuel, environment and `D`-closed statement `s`
      execV P' G' X f env (renS σ γ s) = execV P (fun i => G' (γ i)) X f env s
  (final environment and control signal; the traces differ exactly by the numbers in the `call` events and are not
  compared; expressions have literally the same value AND trace: `evalE_ren`).  No injectivity of `σ`, `γ` is needed.
  Corollaries: `EvIn.ren`, `Stuck.ren`, `Computes.ren`, `runV_ren`.

  PART 2 (application).  `σpt`, `γpt`, `Dpt`: the six point functions NewSM2Point, NewFromXY, Set, Negate, Add,
  Double of `CTIRProg.prog` and everything they call (21 functions, `Dpt_closure`), matched by Go name with
  `CTIRProgFn.prog`.  `renames_pt : Renames CTIRProg.prog CTIRProgFn.prog σpt γpt Dpt`: for every one of the 21
  functions the two translations agree up to the renaming (`ren_k`, by `rfl`): NO function of the closure differs.
  `mixed_callees_of_prog`: the callee hypotheses of `CTIRRefineMixed.ir_scalarMixedMult_eq_model` follow from
  `Computes` facts about `CTIRProg.prog`; `ir_scalarMixedMult_eq_model_closed`: that theorem for
  `Ops = Model.Curve.pointOps C`, `encP = ptV enc` with the point functions discharged by CTIRRefinePointA
  (remaining: `FiatPrims`, the global `sm2B`, the tables, the side conditions on the table entries);
  `…_closed_encOk`, `…_closed_globals`: variants.
-/
import SMGo.Proofs.CTIRRefineField
import SMGo.Proofs.CTIRRefineComb
import SMGo.Proofs.CTIRRefineMixed
import SMGo.Proofs.CTIRRefinePointA
import SMGo.Proofs.CTIRRefinePointB
import SMGo.Gen.CTIRProg
import SMGo.Gen.CTIRProgFn
open SMGo SMGo.Model.CTIR
open SMGo.Proofs.CTIRRefineField (Computes)

namespace SMGo.Proofs.CTIRRefineRename

/-! ## Part 1: syntactic renaming and the transfer theorem -/

/-- rename the global numbers of an expression -/
def renE (γ : Nat → Nat) : Expr → Expr
  | .lit n => .lit n
  | .glob g => .glob (γ g)
  | .var x => .var x
  | .idx a i => .idx (renE γ a) (renE γ i)
  | .idxc a k => .idxc (renE γ a) k
  | .len a => .len (renE γ a)
  | .slice a lo hi => .slice (renE γ a) (renE γ lo) (renE γ hi)
  | .mk n i => .mk (renE γ n) (renE γ i)
  | .cat a b => .cat (renE γ a) (renE γ b)
  | .cteq a b => .cteq (renE γ a) (renE γ b)
  | .op1 o a => .op1 o (renE γ a)
  | .op2 o a b => .op2 o (renE γ a) (renE γ b)
  | .op3 o a b c => .op3 o (renE γ a) (renE γ b) (renE γ c)

def renP (γ : Nat → Nat) : PathE → PathE
  | .c k => .c k
  | .e i => .e (renE γ i)

/-- rename the function numbers (`σ`) and the global numbers (`γ`) of a statement; externals keep their numbers -/
def renS (σ γ : Nat → Nat) : Stmt → Stmt
  | .skip => .skip
  | .assign x p e => .assign x (p.map (renP γ)) (renE γ e)
  | .seq s t => .seq (renS σ γ s) (renS σ γ t)
  | .ite c s t => .ite (renE γ c) (renS σ γ s) (renS σ γ t)
  | .loop c b p => .loop (renE γ c) (renS σ γ b) (renS σ γ p)
  | .brk => .brk
  | .cont => .cont
  | .ret es => .ret (es.map (renE γ))
  | .call lhs g args => .call lhs (σ g) (args.map (renE γ))
  | .ext lhs n l args => .ext lhs n l (args.map (renE γ))
  | .declass x site e => .declass x site (renE γ e)
  | .panic => .panic

def renF (σ γ : Nat → Nat) (fn : Fn) : Fn :=
  { nparams := fn.nparams, nvars := fn.nvars, body := renS σ γ fn.body, stub := fn.stub }

/-- every call inside the statement goes to a function of `D` -/
def closedS (D : List Nat) : Stmt → Bool
  | .seq a b => closedS D a && closedS D b
  | .ite _ a b => closedS D a && closedS D b
  | .loop _ a b => closedS D a && closedS D b
  | .call _ g _ => D.contains g
  | _ => true

section Expressions
variable (G' : Nat → Val) (γ : Nat → Nat) (env : Env)

/-- expressions: value AND trace (no event of an expression mentions a global number) -/
theorem evalE_ren (e : Expr) : evalE G' env (renE γ e) = evalE (fun i => G' (γ i)) env e := by
  induction e with
  | lit n => rfl
  | glob g => rfl
  | var x => rfl
  | idx a i iha ihi => simp only [renE, evalE, iha, ihi]
  | idxc a k iha => simp only [renE, evalE, iha]
  | len a iha => simp only [renE, evalE, iha]
  | slice a lo hi iha ihl ihh => simp only [renE, evalE, iha, ihl, ihh]
  | mk n i ihn ihi => simp only [renE, evalE, ihn, ihi]
  | cat a b iha ihb => simp only [renE, evalE, iha, ihb]
  | cteq a b iha ihb => simp only [renE, evalE, iha, ihb]
  | op1 o a iha => simp only [renE, evalE, iha]
  | op2 o a b iha ihb => simp only [renE, evalE, iha, ihb]
  | op3 o a b c iha ihb ihc => simp only [renE, evalE, iha, ihb, ihc]

theorem evalEs_ren (es : List Expr) :
    evalEs G' env (es.map (renE γ)) = evalEs (fun i => G' (γ i)) env es := by
  induction es with
  | nil => rfl
  | cons e es ih => simp only [List.map_cons, evalEs, evalE_ren, ih]

theorem evalPath_ren (p : List PathE) :
    evalPath G' env (p.map (renP γ)) = evalPath (fun i => G' (γ i)) env p := by
  induction p with
  | nil => rfl
  | cons a p ih =>
    cases a with
    | c k => simp only [List.map_cons, renP, evalPath, ih]
    | e i => simp only [List.map_cons, renP, evalPath, evalE_ren, ih]

theorem evalV_ren (e : Expr) : evalV G' env (renE γ e) = evalV (fun i => G' (γ i)) env e := by
  simp only [evalV, evalE_ren]

theorem evalVs_ren (es : List Expr) :
    evalVs G' env (es.map (renE γ)) = evalVs (fun i => G' (γ i)) env es := by
  simp only [evalVs, evalEs_ren]

theorem pathV_ren (p : List PathE) :
    pathV G' env (p.map (renP γ)) = pathV (fun i => G' (γ i)) env p := by
  simp only [pathV, evalPath_ren]

end Expressions

section Transfer
variable {P P' : Prog} {G' : Nat → Val} {X : Oracle} {σ γ : Nat → Nat} {D : List Nat}

/-- the hypothesis of the transfer theorem: every function of `D` is present in `P`, its renaming is function
    `σ g` of `P'`, and it only calls functions of `D` -/
def Renames (P P' : Prog) (σ γ : Nat → Nat) (D : List Nat) : Prop :=
  ∀ g ∈ D, ∃ fn, P[g]? = some fn ∧ P'[σ g]? = some (renF σ γ fn) ∧ closedS D fn.body = true

theorem closedS_seq {a b : Stmt} (h : closedS D (.seq a b) = true) : closedS D a = true ∧ closedS D b = true := by
  simpa only [closedS, Bool.and_eq_true] using h
theorem closedS_ite {c : Expr} {a b : Stmt} (h : closedS D (.ite c a b) = true) :
    closedS D a = true ∧ closedS D b = true := by
  simpa only [closedS, Bool.and_eq_true] using h
theorem closedS_loop {c : Expr} {a b : Stmt} (h : closedS D (.loop c a b) = true) :
    closedS D a = true ∧ closedS D b = true := by
  simpa only [closedS, Bool.and_eq_true] using h
theorem closedS_call {lhs : List Nat} {g : Nat} {args : List Expr} (h : closedS D (.call lhs g args) = true) :
    g ∈ D := by
  simpa only [closedS, List.contains_iff_mem] using h

/-- **Transfer.**  The renamed statement in `P'` with globals `G'` runs exactly (same fuel, same final environment,
    same control signal) like the statement in `P` with globals `G' ∘ γ`. -/
theorem execV_ren (H : Renames P P' σ γ D) :
    ∀ (f : Nat) (env : Env) (s : Stmt), closedS D s = true →
      execV P' G' X f env (renS σ γ s) = execV P (fun i => G' (γ i)) X f env s := by
  intro f
  induction f with
  | zero => intro env s _; rfl
  | succ f ih =>
    intro env s hs
    cases s with
    | skip => rfl
    | brk => rfl
    | cont => rfl
    | panic => rfl
    | assign x p e =>
      simp only [renS]
      rw [execV_assign, execV_assign, evalV_ren, pathV_ren]
    | declass x site e =>
      simp only [renS]
      rw [execV_declass, execV_declass, evalV_ren]
    | ret es =>
      simp only [renS]
      rw [execV_ret, execV_ret, evalVs_ren]
    | ext lhs n l args =>
      simp only [renS]
      rw [execV_ext, execV_ext, evalVs_ren]
    | seq a b =>
      obtain ⟨ha, hb⟩ := closedS_seq hs
      simp only [renS]
      rw [execV_seq, execV_seq, ih env a ha]
      generalize execV P (fun i => G' (γ i)) X f env a = r
      obtain ⟨env1, c1⟩ := r
      cases c1 <;> first | rfl | exact ih env1 b hb
    | ite c a b =>
      obtain ⟨ha, hb⟩ := closedS_ite hs
      simp only [renS]
      rw [execV_ite, execV_ite, evalV_ren]
      cases evalV (fun i => G' (γ i)) env c with
      | none => rfl
      | some v =>
        simp only
        cases asBool v with
        | none => rfl
        | some d =>
          cases d with
          | false => exact ih env b hb
          | true => exact ih env a ha
    | loop c a b =>
      obtain ⟨ha, hb⟩ := closedS_loop hs
      simp only [renS]
      rw [execV_loop, execV_loop, evalV_ren]
      cases evalV (fun i => G' (γ i)) env c with
      | none => rfl
      | some v =>
        simp only
        cases asBool v with
        | none => rfl
        | some d =>
          cases d with
          | false => rfl
          | true =>
            simp only
            rw [ih env a ha]
            generalize execV P (fun i => G' (γ i)) X f env a = r
            obtain ⟨env1, c1⟩ := r
            cases c1 <;> simp only <;>
              (rw [ih env1 b hb]
               generalize execV P (fun i => G' (γ i)) X f env1 b = r2
               obtain ⟨env2, c2⟩ := r2
               cases c2 <;> first | rfl | exact ih env2 (.loop c a b) hs)
    | call lhs g args =>
      obtain ⟨fn, h1, h2, h3⟩ := H g (closedS_call hs)
      simp only [renS]
      rw [execV_call, execV_call, evalVs_ren, h1, h2]
      cases evalVs (fun i => G' (γ i)) env args with
      | none => rfl
      | some vs =>
        simp only [renF]
        rw [ih (Env.ofList vs) fn.body h3]
        rfl


/-- `EvIn` transfers -/
theorem EvIn.ren (H : Renames P P' σ γ D) {F : Nat} {env env' : Env} {s : Stmt} {c : Ctl}
    (h : EvIn P (fun i => G' (γ i)) X F env s env' c) (hs : closedS D s = true) :
    EvIn P' G' X F env (renS σ γ s) env' c := by
  intro f hf
  rw [execV_ren H f env s hs]
  exact h f hf

/-- `Stuck` transfers -/
theorem Stuck.ren (H : Renames P P' σ γ D) {env : Env} {s : Stmt}
    (h : Stuck P (fun i => G' (γ i)) X env s) (hs : closedS D s = true) :
    Stuck P' G' X env (renS σ γ s) := by
  intro f
  rw [execV_ren H f env s hs]
  exact h f

/-- **`Computes` transfers**: a function of `D` that computes `res` from `args` in `P` (globals `G' ∘ γ`) does so
    under its new number in `P'` (globals `G'`), with the same fuel bound -/
theorem Computes.ren (H : Renames P P' σ γ D) {g F : Nat} {args res : List Val}
    (h : Computes P (fun i => G' (γ i)) X g F args res) (hg : g ∈ D) :
    Computes P' G' X (σ g) F args res := by
  obtain ⟨fn, env', h0, hstub, hn, hb⟩ := h
  obtain ⟨fn', h1, h2, h3⟩ := H g hg
  rw [h0] at h1
  cases h1
  exact ⟨renF σ γ fn, env', h2, hstub, hn, EvIn.ren H hb h3⟩

/-- the run of a function of `D`, at every fuel (no hypothesis on the outcome) -/
theorem runV_ren (H : Renames P P' σ γ D) {g : Nat} (hg : g ∈ D) (f : Nat) (args : List Val) :
    runV P' G' X f (σ g) args = runV P (fun i => G' (γ i)) X f g args := by
  obtain ⟨fn, h1, h2, h3⟩ := H g hg
  rw [runV_eq, runV_eq, h1, h2]
  simp only [renF]
  rw [execV_ren H f _ fn.body h3]
  rfl

end Transfer

/-! ## Part 2: the point layer of `CTIRProg.prog` inside `CTIRProgFn.prog`

  The six point functions used by `internal.ScalarMixedMult_Unsafe` and everything they call (closure computed with
  `reach`): 21 functions.  Numbers `CTIRProg ↦ CTIRProgFn`, matched by Go name (`fnNames` of the two files):
    11 ↦ 7  fiat.sm2CmovznzU64
    13 ↦ 16  fiat.SM2Element.One
    14 ↦ 17  fiat.sm2SetOne
    15 ↦ 14  fiat.SM2Element.Set
    16 ↦ 10  fiat.SM2Element.Add
    17 ↦ 11  fiat.sm2Add
    18 ↦ 12  fiat.SM2Element.Sub
    19 ↦ 13  fiat.sm2Sub
    20 ↦ 25  fiat.SM2Element.Opp
    21 ↦ 26  fiat.sm2Opp
    22 ↦ 8  fiat.SM2Element.Mul
    23 ↦ 9  fiat.sm2Mul
    24 ↦ 5  fiat.SM2Element.Square
    25 ↦ 6  fiat.sm2Square
    40 ↦ 22  fiat.SM2Element.SetRaw
    73 ↦ 15  internal.NewSM2Point
    74 ↦ 21  internal.NewFromXY
    75 ↦ 23  internal.SM2Point.Set
    76 ↦ 24  internal.SM2Point.Negate
    78 ↦ 18  internal.SM2Point.Add
    79 ↦ 4  internal.SM2Point.Double
  The only global read by these functions is `internal.sm2B` (6 ↦ 1); `γpt` also matches the other three globals of
  `CTIRProgFn` by name (fiat.sm2MinusOneEncoding 1 ↦ 0, sm2Precomputed_6_3_14 7 ↦ 2, …_Remainder 8 ↦ 3).
  `internal.sm2ElementOne` (global 0 of `CTIRProg`) has NO counterpart in `CTIRProgFn` (no function of the closure
  reads it).  Numbers outside the tables go to numbers outside the target program (function 38, global 4). -/

def σpt : Nat → Nat
  | 11 => 7 | 13 => 16 | 14 => 17 | 15 => 14 | 16 => 10 | 17 => 11 | 18 => 12 | 19 => 13 | 20 => 25 | 21 => 26
  | 22 => 8 | 23 => 9 | 24 => 5 | 25 => 6 | 40 => 22 | 73 => 15 | 74 => 21 | 75 => 23 | 76 => 24 | 78 => 18
  | 79 => 4 | _ => 38

def γpt : Nat → Nat
  | 1 => 0 | 6 => 1 | 7 => 2 | 8 => 3 | _ => 4

/-- NewSM2Point, NewFromXY, Set, Negate, Add, Double of `CTIRProg.prog` and their callees -/
def Dpt : List Nat := [11, 13, 14, 15, 16, 17, 18, 19, 20, 21, 22, 23, 24, 25, 40, 73, 74, 75, 76, 78, 79]

set_option maxRecDepth 100000 in
/-- `Dpt` is the call closure of the six functions (evaluated) -/
theorem Dpt_closure : ∀ g ∈ [73, 74, 75, 76, 78, 79], ∀ h ∈ reach Gen.CTIRProg.prog g, h ∈ Dpt := by decide

/-! ### The two translations agree up to renaming: one `rfl` per function -/

set_option maxRecDepth 100000 in
/-- fiat.sm2CmovznzU64: function 7 of `CTIRProgFn.prog` is the renaming of function 11 of `CTIRProg.prog` -/
theorem ren_11 : Gen.CTIRProgFn.prog[σpt 11]? = some (renF σpt γpt Gen.CTIRProg.fn_11) := rfl
set_option maxRecDepth 100000 in
theorem closed_11 : closedS Dpt Gen.CTIRProg.fn_11.body = true := rfl
set_option maxRecDepth 100000 in
/-- fiat.SM2Element.One: function 16 of `CTIRProgFn.prog` is the renaming of function 13 of `CTIRProg.prog` -/
theorem ren_13 : Gen.CTIRProgFn.prog[σpt 13]? = some (renF σpt γpt Gen.CTIRProg.fn_13) := rfl
set_option maxRecDepth 100000 in
theorem closed_13 : closedS Dpt Gen.CTIRProg.fn_13.body = true := rfl
set_option maxRecDepth 100000 in
/-- fiat.sm2SetOne: function 17 of `CTIRProgFn.prog` is the renaming of function 14 of `CTIRProg.prog` -/
theorem ren_14 : Gen.CTIRProgFn.prog[σpt 14]? = some (renF σpt γpt Gen.CTIRProg.fn_14) := rfl
set_option maxRecDepth 100000 in
theorem closed_14 : closedS Dpt Gen.CTIRProg.fn_14.body = true := rfl
set_option maxRecDepth 100000 in
/-- fiat.SM2Element.Set: function 14 of `CTIRProgFn.prog` is the renaming of function 15 of `CTIRProg.prog` -/
theorem ren_15 : Gen.CTIRProgFn.prog[σpt 15]? = some (renF σpt γpt Gen.CTIRProg.fn_15) := rfl
set_option maxRecDepth 100000 in
theorem closed_15 : closedS Dpt Gen.CTIRProg.fn_15.body = true := rfl
set_option maxRecDepth 100000 in
/-- fiat.SM2Element.Add: function 10 of `CTIRProgFn.prog` is the renaming of function 16 of `CTIRProg.prog` -/
theorem ren_16 : Gen.CTIRProgFn.prog[σpt 16]? = some (renF σpt γpt Gen.CTIRProg.fn_16) := rfl
set_option maxRecDepth 100000 in
theorem closed_16 : closedS Dpt Gen.CTIRProg.fn_16.body = true := rfl
set_option maxRecDepth 100000 in
/-- fiat.sm2Add: function 11 of `CTIRProgFn.prog` is the renaming of function 17 of `CTIRProg.prog` -/
theorem ren_17 : Gen.CTIRProgFn.prog[σpt 17]? = some (renF σpt γpt Gen.CTIRProg.fn_17) := rfl
set_option maxRecDepth 100000 in
theorem closed_17 : closedS Dpt Gen.CTIRProg.fn_17.body = true := rfl
set_option maxRecDepth 100000 in
/-- fiat.SM2Element.Sub: function 12 of `CTIRProgFn.prog` is the renaming of function 18 of `CTIRProg.prog` -/
theorem ren_18 : Gen.CTIRProgFn.prog[σpt 18]? = some (renF σpt γpt Gen.CTIRProg.fn_18) := rfl
set_option maxRecDepth 100000 in
theorem closed_18 : closedS Dpt Gen.CTIRProg.fn_18.body = true := rfl
set_option maxRecDepth 100000 in
/-- fiat.sm2Sub: function 13 of `CTIRProgFn.prog` is the renaming of function 19 of `CTIRProg.prog` -/
theorem ren_19 : Gen.CTIRProgFn.prog[σpt 19]? = some (renF σpt γpt Gen.CTIRProg.fn_19) := rfl
set_option maxRecDepth 100000 in
theorem closed_19 : closedS Dpt Gen.CTIRProg.fn_19.body = true := rfl
set_option maxRecDepth 100000 in
/-- fiat.SM2Element.Opp: function 25 of `CTIRProgFn.prog` is the renaming of function 20 of `CTIRProg.prog` -/
theorem ren_20 : Gen.CTIRProgFn.prog[σpt 20]? = some (renF σpt γpt Gen.CTIRProg.fn_20) := rfl
set_option maxRecDepth 100000 in
theorem closed_20 : closedS Dpt Gen.CTIRProg.fn_20.body = true := rfl
set_option maxRecDepth 100000 in
/-- fiat.sm2Opp: function 26 of `CTIRProgFn.prog` is the renaming of function 21 of `CTIRProg.prog` -/
theorem ren_21 : Gen.CTIRProgFn.prog[σpt 21]? = some (renF σpt γpt Gen.CTIRProg.fn_21) := rfl
set_option maxRecDepth 100000 in
theorem closed_21 : closedS Dpt Gen.CTIRProg.fn_21.body = true := rfl
set_option maxRecDepth 100000 in
/-- fiat.SM2Element.Mul: function 8 of `CTIRProgFn.prog` is the renaming of function 22 of `CTIRProg.prog` -/
theorem ren_22 : Gen.CTIRProgFn.prog[σpt 22]? = some (renF σpt γpt Gen.CTIRProg.fn_22) := rfl
set_option maxRecDepth 100000 in
theorem closed_22 : closedS Dpt Gen.CTIRProg.fn_22.body = true := rfl
set_option maxRecDepth 100000 in
/-- fiat.sm2Mul: function 9 of `CTIRProgFn.prog` is the renaming of function 23 of `CTIRProg.prog` -/
theorem ren_23 : Gen.CTIRProgFn.prog[σpt 23]? = some (renF σpt γpt Gen.CTIRProg.fn_23) := rfl
set_option maxRecDepth 100000 in
theorem closed_23 : closedS Dpt Gen.CTIRProg.fn_23.body = true := rfl
set_option maxRecDepth 100000 in
/-- fiat.SM2Element.Square: function 5 of `CTIRProgFn.prog` is the renaming of function 24 of `CTIRProg.prog` -/
theorem ren_24 : Gen.CTIRProgFn.prog[σpt 24]? = some (renF σpt γpt Gen.CTIRProg.fn_24) := rfl
set_option maxRecDepth 100000 in
theorem closed_24 : closedS Dpt Gen.CTIRProg.fn_24.body = true := rfl
set_option maxRecDepth 100000 in
/-- fiat.sm2Square: function 6 of `CTIRProgFn.prog` is the renaming of function 25 of `CTIRProg.prog` -/
theorem ren_25 : Gen.CTIRProgFn.prog[σpt 25]? = some (renF σpt γpt Gen.CTIRProg.fn_25) := rfl
set_option maxRecDepth 100000 in
theorem closed_25 : closedS Dpt Gen.CTIRProg.fn_25.body = true := rfl
set_option maxRecDepth 100000 in
/-- fiat.SM2Element.SetRaw: function 22 of `CTIRProgFn.prog` is the renaming of function 40 of `CTIRProg.prog` -/
theorem ren_40 : Gen.CTIRProgFn.prog[σpt 40]? = some (renF σpt γpt Gen.CTIRProg.fn_40) := rfl
set_option maxRecDepth 100000 in
theorem closed_40 : closedS Dpt Gen.CTIRProg.fn_40.body = true := rfl
set_option maxRecDepth 100000 in
/-- internal.NewSM2Point: function 15 of `CTIRProgFn.prog` is the renaming of function 73 of `CTIRProg.prog` -/
theorem ren_73 : Gen.CTIRProgFn.prog[σpt 73]? = some (renF σpt γpt Gen.CTIRProg.fn_73) := rfl
set_option maxRecDepth 100000 in
theorem closed_73 : closedS Dpt Gen.CTIRProg.fn_73.body = true := rfl
set_option maxRecDepth 100000 in
/-- internal.NewFromXY: function 21 of `CTIRProgFn.prog` is the renaming of function 74 of `CTIRProg.prog` -/
theorem ren_74 : Gen.CTIRProgFn.prog[σpt 74]? = some (renF σpt γpt Gen.CTIRProg.fn_74) := rfl
set_option maxRecDepth 100000 in
theorem closed_74 : closedS Dpt Gen.CTIRProg.fn_74.body = true := rfl
set_option maxRecDepth 100000 in
/-- internal.SM2Point.Set: function 23 of `CTIRProgFn.prog` is the renaming of function 75 of `CTIRProg.prog` -/
theorem ren_75 : Gen.CTIRProgFn.prog[σpt 75]? = some (renF σpt γpt Gen.CTIRProg.fn_75) := rfl
set_option maxRecDepth 100000 in
theorem closed_75 : closedS Dpt Gen.CTIRProg.fn_75.body = true := rfl
set_option maxRecDepth 100000 in
/-- internal.SM2Point.Negate: function 24 of `CTIRProgFn.prog` is the renaming of function 76 of `CTIRProg.prog` -/
theorem ren_76 : Gen.CTIRProgFn.prog[σpt 76]? = some (renF σpt γpt Gen.CTIRProg.fn_76) := rfl
set_option maxRecDepth 100000 in
theorem closed_76 : closedS Dpt Gen.CTIRProg.fn_76.body = true := rfl
set_option maxRecDepth 100000 in
/-- internal.SM2Point.Add: function 18 of `CTIRProgFn.prog` is the renaming of function 78 of `CTIRProg.prog` -/
theorem ren_78 : Gen.CTIRProgFn.prog[σpt 78]? = some (renF σpt γpt Gen.CTIRProg.fn_78) := rfl
set_option maxRecDepth 100000 in
theorem closed_78 : closedS Dpt Gen.CTIRProg.fn_78.body = true := rfl
set_option maxRecDepth 100000 in
/-- internal.SM2Point.Double: function 4 of `CTIRProgFn.prog` is the renaming of function 79 of `CTIRProg.prog` -/
theorem ren_79 : Gen.CTIRProgFn.prog[σpt 79]? = some (renF σpt γpt Gen.CTIRProg.fn_79) := rfl
set_option maxRecDepth 100000 in
theorem closed_79 : closedS Dpt Gen.CTIRProg.fn_79.body = true := rfl

/-- **The renaming hypothesis holds for the point layer.** -/
theorem renames_pt : Renames Gen.CTIRProg.prog Gen.CTIRProgFn.prog σpt γpt Dpt := by
  intro g hg
  simp only [Dpt, List.mem_cons, List.not_mem_nil, or_false] at hg
  rcases hg with rfl | rfl | rfl | rfl | rfl | rfl | rfl | rfl | rfl | rfl | rfl | rfl | rfl | rfl | rfl | rfl | rfl | rfl | rfl | rfl | rfl
  · exact ⟨Gen.CTIRProg.fn_11, rfl, ren_11, closed_11⟩
  · exact ⟨Gen.CTIRProg.fn_13, rfl, ren_13, closed_13⟩
  · exact ⟨Gen.CTIRProg.fn_14, rfl, ren_14, closed_14⟩
  · exact ⟨Gen.CTIRProg.fn_15, rfl, ren_15, closed_15⟩
  · exact ⟨Gen.CTIRProg.fn_16, rfl, ren_16, closed_16⟩
  · exact ⟨Gen.CTIRProg.fn_17, rfl, ren_17, closed_17⟩
  · exact ⟨Gen.CTIRProg.fn_18, rfl, ren_18, closed_18⟩
  · exact ⟨Gen.CTIRProg.fn_19, rfl, ren_19, closed_19⟩
  · exact ⟨Gen.CTIRProg.fn_20, rfl, ren_20, closed_20⟩
  · exact ⟨Gen.CTIRProg.fn_21, rfl, ren_21, closed_21⟩
  · exact ⟨Gen.CTIRProg.fn_22, rfl, ren_22, closed_22⟩
  · exact ⟨Gen.CTIRProg.fn_23, rfl, ren_23, closed_23⟩
  · exact ⟨Gen.CTIRProg.fn_24, rfl, ren_24, closed_24⟩
  · exact ⟨Gen.CTIRProg.fn_25, rfl, ren_25, closed_25⟩
  · exact ⟨Gen.CTIRProg.fn_40, rfl, ren_40, closed_40⟩
  · exact ⟨Gen.CTIRProg.fn_73, rfl, ren_73, closed_73⟩
  · exact ⟨Gen.CTIRProg.fn_74, rfl, ren_74, closed_74⟩
  · exact ⟨Gen.CTIRProg.fn_75, rfl, ren_75, closed_75⟩
  · exact ⟨Gen.CTIRProg.fn_76, rfl, ren_76, closed_76⟩
  · exact ⟨Gen.CTIRProg.fn_78, rfl, ren_78, closed_78⟩
  · exact ⟨Gen.CTIRProg.fn_79, rfl, ren_79, closed_79⟩

/-! ### Transfer of the callee contracts of `internal.ScalarMixedMult_Unsafe` -/

section Mixed
open SMGo.Proofs.CTIRRefineUtils (bytesV)
open SMGo.Proofs.CTIRRefineField (limbsV elemV)
open SMGo.Proofs.CTIRRefinePointA (ptV ptRawV FiatPrims prog_hasPointFns fuelW fuelPtAdd fuelPtDouble)
open SMGo.Proofs.CTIRRefineMixed (XYUsed Callees fuelMixed)
open SMGo.Proofs.CTIRRefineComb (Table encT)

variable {G' : Nat → Val} {X : Oracle}

/-- a `Computes` fact about a function of the point layer of `CTIRProg.prog` (globals `G' ∘ γpt`: global 6 of
    `CTIRProg` is global 1 of `CTIRProgFn`), read in `CTIRProgFn.prog` under its number there; in the form of
    `CTIRRefineComb.Computes` (the same predicate), which `CTIRRefineMixed` uses -/
theorem computes_of_prog {g F : Nat} {args res : List Val}
    (h : Computes Gen.CTIRProg.prog (fun i => G' (γpt i)) X g F args res) (hg : g ∈ Dpt) :
    CTIRRefineComb.Computes Gen.CTIRProgFn.prog G' X (σpt g) F args res :=
  Computes.ren renames_pt h hg

/-- internal.NewSM2Point: 73 ↦ 15 -/
theorem newSM2Point_of_prog {F : Nat} {args res : List Val}
    (h : Computes Gen.CTIRProg.prog (fun i => G' (γpt i)) X 73 F args res) :
    CTIRRefineComb.Computes Gen.CTIRProgFn.prog G' X 15 F args res := computes_of_prog h (by decide)
/-- internal.NewFromXY: 74 ↦ 21 -/
theorem newFromXY_of_prog {F : Nat} {args res : List Val}
    (h : Computes Gen.CTIRProg.prog (fun i => G' (γpt i)) X 74 F args res) :
    CTIRRefineComb.Computes Gen.CTIRProgFn.prog G' X 21 F args res := computes_of_prog h (by decide)
/-- internal.SM2Point.Set: 75 ↦ 23 -/
theorem pointSet_of_prog {F : Nat} {args res : List Val}
    (h : Computes Gen.CTIRProg.prog (fun i => G' (γpt i)) X 75 F args res) :
    CTIRRefineComb.Computes Gen.CTIRProgFn.prog G' X 23 F args res := computes_of_prog h (by decide)
/-- internal.SM2Point.Negate: 76 ↦ 24 -/
theorem negate_of_prog {F : Nat} {args res : List Val}
    (h : Computes Gen.CTIRProg.prog (fun i => G' (γpt i)) X 76 F args res) :
    CTIRRefineComb.Computes Gen.CTIRProgFn.prog G' X 24 F args res := computes_of_prog h (by decide)
/-- internal.SM2Point.Add: 78 ↦ 18 -/
theorem pointAdd_of_prog {F : Nat} {args res : List Val}
    (h : Computes Gen.CTIRProg.prog (fun i => G' (γpt i)) X 78 F args res) :
    CTIRRefineComb.Computes Gen.CTIRProgFn.prog G' X 18 F args res := computes_of_prog h (by decide)
/-- internal.SM2Point.Double: 79 ↦ 4 -/
theorem pointDouble_of_prog {F : Nat} {args res : List Val}
    (h : Computes Gen.CTIRProg.prog (fun i => G' (γpt i)) X 79 F args res) :
    CTIRRefineComb.Computes Gen.CTIRProgFn.prog G' X 4 F args res := computes_of_prog h (by decide)

/-- **The callee hypotheses of `ir_scalarMixedMult_eq_model` from the theorems about `CTIRProg.prog`.**
    The six point operations are given in the numbering of `CTIRProg.prog` (73, 79, 78, 75, 76, 74) with globals
    `G' ∘ γpt`; the result is the bundle `Callees` of CTIRRefineMixed for `CTIRProgFn.prog` with globals `G'`
    (numbers 15, 4, 18, 23, 24, 21), i.e. exactly `hnew hdbl hadd hset hneg hxy`. -/
theorem mixed_callees_of_prog {Γ : Type} {Ops : Model.Curve.GOps Γ} {encP : Γ → Val}
    {first : List Table} {second : Table} {Fnew Fdbl Fadd Fset Fneg Fxy : Nat}
    (hnew : Computes Gen.CTIRProg.prog (fun i => G' (γpt i)) X 73 Fnew [] [encP Ops.infinity])
    (hdbl : ∀ q a, Computes Gen.CTIRProg.prog (fun i => G' (γpt i)) X 79 Fdbl [encP q, encP a]
      [encP (Ops.double a), encP (Ops.double a)])
    (hadd : ∀ q a b, Computes Gen.CTIRProg.prog (fun i => G' (γpt i)) X 78 Fadd [encP q, encP a, encP b]
      [encP (Ops.add a b), encP (Ops.add a b)])
    (hset : ∀ q a, Computes Gen.CTIRProg.prog (fun i => G' (γpt i)) X 75 Fset [encP q, encP a] [encP a, encP a])
    (hneg : ∀ q a, Computes Gen.CTIRProg.prog (fun i => G' (γpt i)) X 76 Fneg [encP q, encP a]
      [encP (Ops.negate a), encP (Ops.negate a)])
    (hxy : ∀ x y, XYUsed first second x y →
      Computes Gen.CTIRProg.prog (fun i => G' (γpt i)) X 74 Fxy [limbsV x, limbsV y] [encP (Ops.fromXY x y)]) :
    Callees Gen.CTIRProgFn.prog G' X Ops encP first second Fnew Fdbl Fadd Fset Fneg Fxy :=
  ⟨rfl, rfl, rfl, rfl, rfl, rfl, newSM2Point_of_prog hnew, fun q a => pointDouble_of_prog (hdbl q a),
    fun q a b => pointAdd_of_prog (hadd q a b), fun q a => pointSet_of_prog (hset q a),
    fun q a => negate_of_prog (hneg q a), fun x y h => newFromXY_of_prog (hxy x y h)⟩

/-- `ir_scalarMixedMult_eq_model` with its callee hypotheses stated about `CTIRProg.prog` -/
theorem ir_scalarMixedMult_of_prog {Γ : Type} {Ops : Model.Curve.GOps Γ} {encP : Γ → Val}
    {Fnew Fdbl Fadd Fset Fneg Fxy : Nat}
    (gScalar : Bytes) (Pt : Γ) (scalar : Bytes) (first : List Table) (second : Table)
    (hG2 : G' 2 = .arr (first.map encT)) (hG3 : G' 3 = encT second)
    (hnew : Computes Gen.CTIRProg.prog (fun i => G' (γpt i)) X 73 Fnew [] [encP Ops.infinity])
    (hdbl : ∀ q a, Computes Gen.CTIRProg.prog (fun i => G' (γpt i)) X 79 Fdbl [encP q, encP a]
      [encP (Ops.double a), encP (Ops.double a)])
    (hadd : ∀ q a b, Computes Gen.CTIRProg.prog (fun i => G' (γpt i)) X 78 Fadd [encP q, encP a, encP b]
      [encP (Ops.add a b), encP (Ops.add a b)])
    (hset : ∀ q a, Computes Gen.CTIRProg.prog (fun i => G' (γpt i)) X 75 Fset [encP q, encP a] [encP a, encP a])
    (hneg : ∀ q a, Computes Gen.CTIRProg.prog (fun i => G' (γpt i)) X 76 Fneg [encP q, encP a]
      [encP (Ops.negate a), encP (Ops.negate a)])
    (hxy : ∀ x y, XYUsed first second x y →
      Computes Gen.CTIRProg.prog (fun i => G' (γpt i)) X 74 Fxy [limbsV x, limbsV y] [encP (Ops.fromXY x y)]) :
    match Model.Curve.scalarMixedMult Ops gScalar Pt scalar first second with
    | .ok r => ∀ f, fuelMixed Fnew Fdbl Fadd Fset Fneg Fxy ≤ f →
        runV Gen.CTIRProgFn.prog G' X f Gen.CTIRProgFn.f_internal_ScalarMixedMult_Unsafe
          [bytesV gScalar, encP Pt, bytesV scalar] = .ret [encP r, .int 0]
    | .panic =>
        (∃ F, ∀ f, F ≤ f →
          runV Gen.CTIRProgFn.prog G' X f Gen.CTIRProgFn.f_internal_ScalarMixedMult_Unsafe
            [bytesV gScalar, encP Pt, bytesV scalar] = .panic) ∨
        (∀ f, runV Gen.CTIRProgFn.prog G' X f Gen.CTIRProgFn.f_internal_ScalarMixedMult_Unsafe
          [bytesV gScalar, encP Pt, bytesV scalar] = .stuck)
    | .err => False := by
  have C := mixed_callees_of_prog (G' := G') (X := X) (Ops := Ops) (encP := encP) (first := first) (second := second)
    hnew hdbl hadd hset hneg hxy
  have key := CTIRRefineMixed.ir_scalarMixedMult_eq_model (G := G') (X := X) (Ops := Ops) (encP := encP)
    gScalar Pt scalar first second hG2 hG3 C.new C.dbl C.add C.set C.neg C.xy
  cases h : Model.Curve.scalarMixedMult Ops gScalar Pt scalar first second with
  | ok r => rw [h] at key; exact key
  | err => rw [h] at key; exact key
  | panic => rw [h] at key; exact key

/-- **internal.ScalarMixedMult_Unsafe, point operations discharged.**  The run of the generated IR (second program
    `CTIRProgFn.prog`, function 3, any globals `G'`) is `Model.Curve.scalarMixedMult (pointOps C)` on the encodings
    `ptV enc`, for an arbitrary `Model.Point.Ctx α` with limb encoding `enc`.  The six point functions are no longer
    hypotheses: they are the theorems of CTIRRefinePointA about `CTIRProg.prog`, transferred by `renames_pt`.

    Remaining hypotheses:
    * `hp`: the six straight-line Fiat primitives of `CTIRProg.prog` (globals `G' ∘ γpt`; they read no global)
      compute the `FieldOps` operations on the encodings (`FiatPrims`);
    * `hz`: the Go zero value encodes `F.zero`;
    * `hB`: global 1 of `CTIRProgFn` (`internal.sm2B`) is the encoding of the curve coefficient;
    * `hap hao hdp hdo`: the model's straight-line programs are the regenerated ones;
    * `hG2 hG3`: globals 2 / 3 are the encoded tables;
    * `hT`: the coordinates passed to NewFromXY (entries of rows 0 / 1 of the tables) have four limbs and the
      encoding reproduces them (`enc (F.ofRaw x) = x`).
    Fuel: `fuelMixed (fuelW Fone + 4) (fuelPtDouble …) (fuelPtAdd …) 26 (fuelW Fopp + 22) (fuelW Fone + 20)`. -/
theorem ir_scalarMixedMult_eq_model_closed {α : Type} {C : Model.Point.Ctx α} {enc : α → List Nat}
    {Fmul Fsq Fadd Fsub Fopp Fone : Nat}
    (hp : FiatPrims Gen.CTIRProg.prog (fun i => G' (γpt i)) X C.F enc Fmul Fsq Fadd Fsub Fopp Fone)
    (hz : enc C.F.zero = [0, 0, 0, 0])
    (hB : G' 1 = elemV (enc C.b))
    (hap : C.addProg = Gen.PointSLP.add) (hao : C.addOut = Gen.PointSLP.add_out)
    (hdp : C.dblProg = Gen.PointSLP.double) (hdo : C.dblOut = Gen.PointSLP.double_out)
    (gScalar : Bytes) (Pt : Model.Point.Pt α) (scalar : Bytes) (first : List Table) (second : Table)
    (hG2 : G' 2 = .arr (first.map encT)) (hG3 : G' 3 = encT second)
    (hT : ∀ x y, XYUsed first second x y →
      x.length = 4 ∧ y.length = 4 ∧ enc (C.F.ofRaw x) = x ∧ enc (C.F.ofRaw y) = y) :
    match Model.Curve.scalarMixedMult (Model.Curve.pointOps C) gScalar Pt scalar first second with
    | .ok r => ∀ f, fuelMixed (fuelW Fone + 4) (fuelPtDouble Fmul Fadd Fsub Fsq) (fuelPtAdd Fmul Fadd Fsub Fsq) 26
          (fuelW Fopp + 22) (fuelW Fone + 20) ≤ f →
        runV Gen.CTIRProgFn.prog G' X f Gen.CTIRProgFn.f_internal_ScalarMixedMult_Unsafe
          [bytesV gScalar, ptV enc Pt, bytesV scalar] = .ret [ptV enc r, .int 0]
    | .panic =>
        (∃ F, ∀ f, F ≤ f →
          runV Gen.CTIRProgFn.prog G' X f Gen.CTIRProgFn.f_internal_ScalarMixedMult_Unsafe
            [bytesV gScalar, ptV enc Pt, bytesV scalar] = .panic) ∨
        (∀ f, runV Gen.CTIRProgFn.prog G' X f Gen.CTIRProgFn.f_internal_ScalarMixedMult_Unsafe
          [bytesV gScalar, ptV enc Pt, bytesV scalar] = .stuck)
    | .err => False := by
  have hw := prog_hasPointFns
  have key := ir_scalarMixedMult_of_prog (G' := G') (X := X) (Ops := Model.Curve.pointOps C) (encP := ptV enc)
    gScalar Pt scalar first second hG2 hG3
    (CTIRRefinePointA.NewSM2Point_computes hw hp hz)
    (fun q a => CTIRRefinePointA.PointDouble_computes hw hp hB hdp hdo (enc q.x) (enc q.y) (enc q.z) a)
    (fun q a b => CTIRRefinePointA.PointAdd_computes hw hp hB hap hao (enc q.x) (enc q.y) (enc q.z) a b)
    (fun q a => CTIRRefinePointA.PointSet_computes hw (enc q.x) (enc q.y) (enc q.z) (enc a.x) (enc a.y) (enc a.z))
    (fun q a => CTIRRefinePointA.Negate_computes hw hp (enc q.x) (enc q.y) (enc q.z) (hp.enc_out4 q.y) a)
    (fun x y h => CTIRRefinePointA.NewFromXY_computes hw hp x y (hT x y h).1 (hT x y h).2.1 (hT x y h).2.2.1
      (hT x y h).2.2.2)
  cases h : Model.Curve.scalarMixedMult (Model.Curve.pointOps C) gScalar Pt scalar first second with
  | ok r => rw [h] at key; exact key
  | err => rw [h] at key; exact key
  | panic => rw [h] at key; exact key

/-- the same with the side condition on the table entries in the `EncOk` form of CTIRRefinePointB: the entries
    of rows 0 / 1 of the tables are four limbs below 2^64 -/
theorem ir_scalarMixedMult_eq_model_closed_encOk {α : Type} {C : Model.Point.Ctx α} {enc : α → List Nat}
    {Fmul Fsq Fadd Fsub Fopp Fone : Nat}
    (hp : FiatPrims Gen.CTIRProg.prog (fun i => G' (γpt i)) X C.F enc Fmul Fsq Fadd Fsub Fopp Fone)
    (he : CTIRRefinePointB.EncOk C.F enc)
    (hz : enc C.F.zero = [0, 0, 0, 0])
    (hB : G' 1 = elemV (enc C.b))
    (hap : C.addProg = Gen.PointSLP.add) (hao : C.addOut = Gen.PointSLP.add_out)
    (hdp : C.dblProg = Gen.PointSLP.double) (hdo : C.dblOut = Gen.PointSLP.double_out)
    (gScalar : Bytes) (Pt : Model.Point.Pt α) (scalar : Bytes) (first : List Table) (second : Table)
    (hG2 : G' 2 = .arr (first.map encT)) (hG3 : G' 3 = encT second)
    (hT : ∀ x y, XYUsed first second x y → CTIRRefineField.Out4 x ∧ CTIRRefineField.Out4 y) :
    match Model.Curve.scalarMixedMult (Model.Curve.pointOps C) gScalar Pt scalar first second with
    | .ok r => ∀ f, fuelMixed (fuelW Fone + 4) (fuelPtDouble Fmul Fadd Fsub Fsq) (fuelPtAdd Fmul Fadd Fsub Fsq) 26
          (fuelW Fopp + 22) (fuelW Fone + 20) ≤ f →
        runV Gen.CTIRProgFn.prog G' X f Gen.CTIRProgFn.f_internal_ScalarMixedMult_Unsafe
          [bytesV gScalar, ptV enc Pt, bytesV scalar] = .ret [ptV enc r, .int 0]
    | .panic =>
        (∃ F, ∀ f, F ≤ f →
          runV Gen.CTIRProgFn.prog G' X f Gen.CTIRProgFn.f_internal_ScalarMixedMult_Unsafe
            [bytesV gScalar, ptV enc Pt, bytesV scalar] = .panic) ∨
        (∀ f, runV Gen.CTIRProgFn.prog G' X f Gen.CTIRProgFn.f_internal_ScalarMixedMult_Unsafe
          [bytesV gScalar, ptV enc Pt, bytesV scalar] = .stuck)
    | .err => False :=
  ir_scalarMixedMult_eq_model_closed hp hz hB hap hao hdp hdo gScalar Pt scalar first second hG2 hG3
    (fun x y h => ⟨(hT x y h).1.length, (hT x y h).2.length, he.ofRaw x (hT x y h).1, he.ofRaw y (hT x y h).2⟩)

/-- the same at the generated globals of `CTIRProgFn` (the tables are the generated constants; no hypothesis on
    globals 2 / 3 is left; `hB` is a statement about the generated constant `globals 1`) -/
theorem ir_scalarMixedMult_eq_model_closed_globals {α : Type} {C : Model.Point.Ctx α} {enc : α → List Nat}
    {Fmul Fsq Fadd Fsub Fopp Fone : Nat}
    (hp : FiatPrims Gen.CTIRProg.prog (fun i => Gen.CTIRProgFn.globals (γpt i)) X C.F enc Fmul Fsq Fadd Fsub Fopp Fone)
    (hz : enc C.F.zero = [0, 0, 0, 0])
    (hB : Gen.CTIRProgFn.globals 1 = elemV (enc C.b))
    (hap : C.addProg = Gen.PointSLP.add) (hao : C.addOut = Gen.PointSLP.add_out)
    (hdp : C.dblProg = Gen.PointSLP.double) (hdo : C.dblOut = Gen.PointSLP.double_out)
    (gScalar : Bytes) (Pt : Model.Point.Pt α) (scalar : Bytes)
    (hT : ∀ x y, XYUsed Gen.SM2Tables.sm2Precomputed_6_3_14 Gen.SM2Tables.sm2Precomputed_6_3_14_Remainder x y →
      x.length = 4 ∧ y.length = 4 ∧ enc (C.F.ofRaw x) = x ∧ enc (C.F.ofRaw y) = y) :
    match Model.Curve.scalarMixedMult (Model.Curve.pointOps C) gScalar Pt scalar
        Gen.SM2Tables.sm2Precomputed_6_3_14 Gen.SM2Tables.sm2Precomputed_6_3_14_Remainder with
    | .ok r => ∀ f, fuelMixed (fuelW Fone + 4) (fuelPtDouble Fmul Fadd Fsub Fsq) (fuelPtAdd Fmul Fadd Fsub Fsq) 26
          (fuelW Fopp + 22) (fuelW Fone + 20) ≤ f →
        runV Gen.CTIRProgFn.prog Gen.CTIRProgFn.globals X f Gen.CTIRProgFn.f_internal_ScalarMixedMult_Unsafe
          [bytesV gScalar, ptV enc Pt, bytesV scalar] = .ret [ptV enc r, .int 0]
    | .panic =>
        (∃ F, ∀ f, F ≤ f →
          runV Gen.CTIRProgFn.prog Gen.CTIRProgFn.globals X f Gen.CTIRProgFn.f_internal_ScalarMixedMult_Unsafe
            [bytesV gScalar, ptV enc Pt, bytesV scalar] = .panic) ∨
        (∀ f, runV Gen.CTIRProgFn.prog Gen.CTIRProgFn.globals X f Gen.CTIRProgFn.f_internal_ScalarMixedMult_Unsafe
          [bytesV gScalar, ptV enc Pt, bytesV scalar] = .stuck)
    | .err => False :=
  ir_scalarMixedMult_eq_model_closed hp hz hB hap hao hdp hdo gScalar Pt scalar _ _
    CTIRRefineMixed.globals_first CTIRRefineMixed.globals_second hT

end Mixed

end SMGo.Proofs.CTIRRefineRename

#print axioms SMGo.Proofs.CTIRRefineRename.execV_ren
#print axioms SMGo.Proofs.CTIRRefineRename.EvIn.ren
#print axioms SMGo.Proofs.CTIRRefineRename.Computes.ren
#print axioms SMGo.Proofs.CTIRRefineRename.runV_ren
#print axioms SMGo.Proofs.CTIRRefineRename.renames_pt
#print axioms SMGo.Proofs.CTIRRefineRename.mixed_callees_of_prog
#print axioms SMGo.Proofs.CTIRRefineRename.ir_scalarMixedMult_of_prog
#print axioms SMGo.Proofs.CTIRRefineRename.ir_scalarMixedMult_eq_model_closed
#print axioms SMGo.Proofs.CTIRRefineRename.ir_scalarMixedMult_eq_model_closed_encOk
#print axioms SMGo.Proofs.CTIRRefineRename.ir_scalarMixedMult_eq_model_closed_globals
