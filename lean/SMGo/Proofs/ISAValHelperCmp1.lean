import SMGo.Proofs.ISAValHelperCopy
set_option linter.unusedSimpArgs false
namespace SMGo.Proofs.ISAVal
open SMGo.Model.ISAVal SMGo.Model.GCM SMGo.Proofs.GCM SMGo.Proofs.ISATouch
open SMGo.Model.ISA (Reg Opd Instr)

/-- one iteration of a loop of `constantTimeCompareAsm` (helper_amd64.s): `w` bytes of `x` are xored into `y` (in place), the result is
    ORed into the accumulator `A`; registers: x G7, y G6, l G0, temporary G2, accumulators G3 (by 8) and G1 (by 1) -/
def hcIterCode (w A : Nat) (ci : Int) : List DInstr :=
  [ins (movOf w) [M 7 0, G 2] 0, ins (xorOf w) [G 2, M 6 0] 0, ins (orOf w) [M 6 0, G A] 0,
   ins .ADDQ [.imm ci, G 7] 0, ins .ADDQ [.imm ci, G 6] 0, ins .SUBQ [.imm ci, G 0] 0]

def HcInst (w A : Nat) (ci : Int) : Prop := (w = 8 ∧ A = 3 ∧ ci = 8) ∨ (w = 1 ∧ A = 1 ∧ ci = 1)

def hcKeepG : List Nat := [4, 5, 8, 9, 10, 11, 12, 13, 14, 15]

set_option maxHeartbeats 1000000 in
theorem hc_iter (w A : Nat) (ci : Int) (hi : HcInst w A ci) (s : State) (hG : s.gpr.length = 16)
    (Mf : List Nat → List Region) (ebase bl : Nat) (bf : Buf Mf ebase bl) (x : List Nat) (xp : Nat)
    (hx : ∀ e, e.length = bl → DataAt (Mf e) xp x) (hxb : ∀ b ∈ x, b < 2 ^ 8) (hxp : xp + x.length < 2 ^ 63) (heb : ebase + bl < 2 ^ 63)
    (e : List Nat) (he : e.length = bl) (hm : s.mem = Mf e) (so n a : Nat) (h10 : greg s 7 = xp + so) (h0 : greg s 6 = ebase + so)
    (h14 : greg s 0 = n) (hn : w ≤ n) (hn63 : n < 2 ^ 63) (hA : greg s A = a) (ha : a < 2 ^ (8 * w)) (hso : so + w ≤ x.length)
    (hso16 : so + w ≤ bl) (hEb : ∀ b ∈ (e.drop so).take w, b < 2 ^ 8) :
    ∃ s', execList (hcIterCode w A ci) s = .ok s' ∧ s'.mem = Mf (spliceAt e so (xorN ((e.drop so).take w) ((x.drop so).take w))) ∧
      greg s' 7 = xp + (so + w) ∧ greg s' 6 = ebase + (so + w) ∧ greg s' 0 = n - w ∧
      greg s' A = a ||| unlanes 8 (xorN ((e.drop so).take w) ((x.drop so).take w)) ∧ RegsKeep hcKeepG s s' ∧
      (∀ m, m ∈ [3, 1] → m ≠ A → greg s' m = greg s m) := by
  have hw : w = 8 ∨ w = 1 := by rcases hi with ⟨rfl, _, _⟩ | ⟨rfl, _, _⟩ <;> simp
  have hAr : A = 3 ∨ A = 1 := by rcases hi with ⟨_, rfl, _⟩ | ⟨_, rfl, _⟩ <;> simp
  have hci : imm64 ci = w := by rcases hi with ⟨rfl, _, rfl⟩ | ⟨rfl, _, rfl⟩ <;> decide +kernel
  have hisW : isW w := by rcases hw with rfl | rfl <;> simp [isW]
  have hw8 : w ≤ 8 := by rcases hw with rfl | rfl <;> omega
  have hw0 : 0 < w := by rcases hw with rfl | rfl <;> omega
  let X := (x.drop so).take w
  let E := (e.drop so).take w
  have hXl : X.length = w := by show ((x.drop so).take w).length = w; rw [List.length_take, List.length_drop]; omega
  have hEl : E.length = w := by show ((e.drop so).take w).length = w; rw [List.length_take, List.length_drop]; omega
  have hXb : ∀ b ∈ X, b < 2 ^ 8 := fun b hb => hxb b (List.mem_of_mem_drop (List.mem_of_mem_take hb))
  have hUX : unlanes 8 X < 2 ^ (8 * w) := by have := unlanes_lt 8 X hXb; rw [hXl] at this; exact this
  have hUE : unlanes 8 E < 2 ^ (8 * w) := by have := unlanes_lt 8 E hEb; rw [hEl] at this; exact this
  -- MOV (x), G13
  have x1 := a_mov_load_gpr s w 7 2 hisW X (by omega) (by omega)
    (by rw [h10, ea00 _ (by omega), hm]; exact hx e he so w hso)
  let s1 := setGreg s 2 (mergeG w (greg s 2) (unlanes 8 X))
  have hG1 : s1.gpr.length = 16 := by simp [s1]; exact hG
  have g113 : greg s1 2 % 2 ^ (8 * w) = unlanes 8 X := by
    rw [show greg s1 2 = mergeG w (greg s 2) (unlanes 8 X) from greg_setGreg_eq s 2 _ (by omega)]
    unfold mergeG
    rcases hw with rfl | rfl
    · simp only [if_true, Nat.mod_mod]; exact Nat.mod_eq_of_lt hUX
    · simp only [show (1 : Nat) ≠ 8 from by decide, show (1 : Nat) ≠ 4 from by decide, if_false]
      rw [Nat.mod_eq_of_lt hUX]
      have : (greg s 2 - greg s 2 % 2 ^ (8 * 1)) % 2 ^ (8 * 1) = 0 := by omega
      omega
  have g10' : greg s1 6 = ebase + so := by rw [greg_setGreg_ne s 2 _ 6 (by decide)]; exact h0
  -- XOR G13, (e)
  have hO : lanes 8 w (unlanes 8 E ^^^ unlanes 8 X) = xorN E X := by
    rw [lanes8_xor, lanes_unlanes 8 w E hEb hEl, lanes_unlanes 8 w X hXb hXl]
  let e1 := spliceAt e so (xorN E X)
  have x2 := a_xor_store s1 w 2 6 hw E (Mf e1) (by omega) (by omega)
    (by rw [g10', ea00 _ (by omega)]; show readMem s.mem _ _ = _; rw [hm]; exact bf.rd e so w he hso16)
    (by rw [g10', ea00 _ (by omega), g113, hO]; show writeMem s.mem _ _ = _; rw [hm]
        exact bf.wr e so (xorN E X) he (by rw [xorN_length, hEl, hXl, Nat.min_self]; exact hso16))
  rw [g113] at x2
  let s2 := setFlags (setMem s1 (Mf e1)) (logicFlags w (unlanes 8 E ^^^ unlanes 8 X))
  have hG2 : s2.gpr.length = 16 := hG1
  have he1 : e1.length = bl := by
    show (spliceAt e so _).length = bl
    rw [spliceAt_length _ _ _ (by rw [xorN_length, hEl, hXl, Nat.min_self, he]; exact hso16)]; exact he
  have hrd1 : (e1.drop so).take w = xorN E X := by
    have := spliceAt_read e so (xorN E X) (by rw [xorN_length, hEl, hXl, Nat.min_self, he]; exact hso16)
    rw [xorN_length, hEl, hXl, Nat.min_self] at this; exact this
  -- OR (e), A
  have g2A : greg s2 A = a := by
    show greg s1 A = a
    rw [greg_setGreg_ne s 2 _ A (by rcases hAr with rfl | rfl <;> decide)]; exact hA
  have x3 := a_or_load s2 w 6 A hw (xorN E X) (by omega) (by rcases hAr with rfl | rfl <;> omega)
    (by rw [show greg s2 6 = ebase + so from g10', ea00 _ (by omega)]; show readMem (Mf e1) _ _ = _
        rw [bf.rd e1 so w he1 hso16, hrd1])
  have hOl : unlanes 8 (xorN E X) < 2 ^ (8 * w) := by
    have := unlanes_lt 8 (xorN E X) (xorN_bytes _ _ hEb hXb)
    rw [xorN_length, hEl, hXl, Nat.min_self] at this; exact this
  rw [g2A, Nat.mod_eq_of_lt ha, mergeG_small w a _ hw ha (Nat.or_lt_two_pow ha hOl)] at x3
  let s3 := setFlags (setGreg s2 A (a ||| unlanes 8 (xorN E X))) (logicFlags w (a ||| unlanes 8 (xorN E X)))
  have hG3 : s3.gpr.length = 16 := (lenG_sf s2 A _ _).trans hG2
  have x4 := a_addq_imm s3 ci 7 (by omega)
  let s4 := setFlags (setGreg s3 7 (addF 8 (greg s3 7) (imm64 ci)).1) (addF 8 (greg s3 7) (imm64 ci)).2
  have hG4 : s4.gpr.length = 16 := (lenG_sf s3 7 _ _).trans hG3
  have x5 := a_addq_imm s4 ci 6 (by omega)
  let s5 := setFlags (setGreg s4 6 (addF 8 (greg s4 6) (imm64 ci)).1) (addF 8 (greg s4 6) (imm64 ci)).2
  have hG5 : s5.gpr.length = 16 := (lenG_sf s4 6 _ _).trans hG4
  have x6 := a_subq_imm s5 ci 0 (by omega)
  let s6 := setFlags (setGreg s5 0 (subF 8 (greg s5 0) (imm64 ci)).1) (subF 8 (greg s5 0) (imm64 ci)).2
  have hex : execList (hcIterCode w A ci) s = .ok s6 := by
    unfold hcIterCode
    apply exec_step x1
    apply exec_step x2
    apply exec_step x3
    apply exec_step x4
    apply exec_step x5
    apply exec_step x6
    exact execList_nil _
  have hA10 : A ≠ 7 ∧ A ≠ 6 ∧ A ≠ 0 ∧ A ≠ 2 := by rcases hAr with rfl | rfl <;> decide
  -- register values
  have r3 : ∀ m, m ≠ A → m ≠ 2 → greg s3 m = greg s m := by
    intro m hmA hm13
    show greg (setFlags (setGreg s2 A _) _) m = _
    rw [greg_setFlags, greg_setGreg_ne s2 A _ m hmA]
    show greg s1 m = _
    exact greg_setGreg_ne s 2 _ m hm13
  have e310 : greg s3 7 = xp + so := (r3 7 (Ne.symm hA10.1) (by decide)).trans h10
  have e40 : greg s4 6 = ebase + so := by
    show greg (setFlags (setGreg s3 7 _) _) 6 = _
    rw [greg_setFlags, greg_setGreg_ne s3 7 _ 6 (by decide)]; exact (r3 6 (Ne.symm hA10.2.1) (by decide)).trans h0
  have e514 : greg s5 0 = n := by
    show greg (setFlags (setGreg s4 6 _) _) 0 = _
    rw [greg_setFlags, greg_setGreg_ne s4 6 _ 0 (by decide)]
    show greg (setFlags (setGreg s3 7 _) _) 0 = _
    rw [greg_setFlags, greg_setGreg_ne s3 7 _ 0 (by decide)]; exact (r3 0 (Ne.symm hA10.2.2.1) (by decide)).trans h14
  have rest : ∀ m, m ≠ 7 → m ≠ 6 → m ≠ 0 → greg s6 m = greg s3 m := by
    intro m h1 h2 h3
    show greg (setFlags (setGreg s5 0 _) _) m = _
    rw [greg_setFlags, greg_setGreg_ne s5 0 _ m h3]
    show greg (setFlags (setGreg s4 6 _) _) m = _
    rw [greg_setFlags, greg_setGreg_ne s4 6 _ m h2]
    show greg (setFlags (setGreg s3 7 _) _) m = _
    rw [greg_setFlags, greg_setGreg_ne s3 7 _ m h1]
  refine ⟨s6, hex, rfl, ?_, ?_, ?_, ?_, ?_, ?_⟩
  · show greg (setFlags (setGreg s5 0 _) _) 7 = _
    rw [greg_setFlags, greg_setGreg_ne s5 0 _ 7 (by decide)]
    show greg (setFlags (setGreg s4 6 _) _) 7 = _
    rw [greg_setFlags, greg_setGreg_ne s4 6 _ 7 (by decide)]
    show greg (setFlags (setGreg s3 7 _) _) 7 = _
    rw [greg_setFlags, greg_setGreg_eq s3 7 _ (by omega), addF_fst, e310, hci]; omega
  · show greg (setFlags (setGreg s5 0 _) _) 6 = _
    rw [greg_setFlags, greg_setGreg_ne s5 0 _ 6 (by decide)]
    show greg (setFlags (setGreg s4 6 _) _) 6 = _
    rw [greg_setFlags, greg_setGreg_eq s4 6 _ (by omega), addF_fst, e40, hci]; omega
  · show greg (setFlags (setGreg s5 0 _) _) 0 = _
    rw [greg_setFlags, greg_setGreg_eq s5 0 _ (by omega), subF_fst, e514, hci]; omega
  · rw [rest A hA10.1 hA10.2.1 hA10.2.2.1]
    show greg (setFlags (setGreg s2 A _) _) A = _
    rw [greg_setFlags, greg_setGreg_eq s2 A _ (by rcases hAr with rfl | rfl <;> omega)]
  · refine ⟨(lenG_sf s5 0 _ _).trans (hG5.trans hG.symm), ?_, rfl, rfl, rfl, rfl⟩
    intro m hm'
    have hm2 : m ≠ 7 ∧ m ≠ 6 ∧ m ≠ 0 ∧ m ≠ 2 ∧ m ≠ 3 ∧ m ≠ 1 := by
      simp only [hcKeepG, List.mem_cons, List.not_mem_nil, or_false] at hm'
      omega
    rw [rest m hm2.1 hm2.2.1 hm2.2.2.1]
    exact r3 m (by rcases hAr with rfl | rfl <;> omega) hm2.2.2.2.1
  · intro m hm' hmA
    simp only [List.mem_cons, List.not_mem_nil, or_false] at hm'
    rw [rest m (by rcases hm' with rfl | rfl <;> decide) (by rcases hm' with rfl | rfl <;> decide) (by rcases hm' with rfl | rfl <;> decide)]
    exact r3 m hmA (by rcases hm' with rfl | rfl <;> decide)

end SMGo.Proofs.ISAVal
