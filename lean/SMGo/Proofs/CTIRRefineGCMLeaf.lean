/-
  Refinement of the regenerated IR of the arm64 GCM Go glue (SMGo/Gen/CTIRProgSM4.lean, namespace Arm64: /repo/sm4/sm4_gcm_arm64.go)
  — the INTERFACE shared by the proof modules CTIRRefineGCMSmall / CTIRRefineGCMCrypt / CTIRRefineGCMSeal:

  * `LeafOk O E rk`: what the assembly leaf routines (external calls of the IR, answered by the oracle `O`) compute, as
    functions of the VALUES of their arguments: `cryptoBlockAsm/X2/X4/X8/X16` = n consecutive blocks through `E` (SM4 with
    the receiver's round keys `rk`), `xor16/…/256` = bytewise XOR of the first N bytes of the two sources stored over the
    first N bytes of the destination, `gHashBlocks(H, tag, data, count)` = `count` steps `(tag ⊕ block) • H` of the
    specification's GHASH.  This is what Props/C05Arm64 and Props/C06Arm64 prove about the arm64 LISTINGS (there on
    the heap; here on values: a routine returns the new contents of its destination argument, elements it does not write
    keep their value — `asmOracle`, SMGo/Model/CTIR.lean).  `LeafSpec sem E rk` is `LeafOk` of `asmOracle asmSpecs sem`.
  * the statements of the Go functions of the glue, as `Computes` facts (`FillOk`, `GlueCallees`): the callee hypotheses
    of `cryptoBlocks` and of `Seal` / `Open`, each proved in CTIRRefineGCMSmall / CTIRRefineGCMCrypt.

  Value-level vocabulary (existing): `Model.GCMGlueA64.blocksE`, `ghBlocks`, `specGh`; `Proofs.GCMGlueA64.ctrBlocks`;
  `Proofs.GCM.ctrAdd`, `stream`, `ghFold`; `Spec.GCM.gctr`, `j0`, `sealGCM`, `openGCM`.  Core Lean only.
-/
import SMGo.Proofs.CTIRRefineField
import SMGo.Gen.CTIRProgSM4
import SMGo.Proofs.GCMGlueArm64Val
open SMGo SMGo.Model.CTIR SMGo.Proofs.CTIRRefineUtils
open SMGo.Proofs.CTIRRefineField (Computes)
open SMGo.Spec.GCM
open SMGo.Model.GCMGlueA64 (blocksE ghBlocks specGh)
open SMGo.Proofs.GCMGlueA64 (ctrBlocks)
open SMGo.Proofs.GCM (ghFold)

namespace SMGo.Proofs.CTIRRefineGCM

/-- the arm64 glue program and its externals -/
abbrev PA : Prog := SMGo.Gen.CTIRProgSM4.Arm64.prog
abbrev GA : Nat → Val := SMGo.Gen.CTIRProgSM4.Arm64.globals
abbrev specsA : List AsmSpec := SMGo.Gen.CTIRProgSM4.Arm64.asmSpecs

/-- the plaintext bound of Seal / Open: ((1<<32)-2)·16 bytes -/
def maxPlain : Nat := 68719476704

/-- (external number, number of blocks) of the SM4 leaf routines -/
def encLeaves : List (Nat × Nat) := [(1, 1), (3, 2), (4, 4), (5, 8), (2, 16)]
/-- (external number, number of bytes) of the XOR leaf routines -/
def xorLeaves : List (Nat × Nat) := [(9, 16), (11, 32), (12, 64), (8, 128), (10, 256)]

/-- **the leaf specifications**, on the answers of the oracle.  `rk` is the value of the round-key slice the glue
    passes (`&roundKeys[0]`), `E` the block function it determines. -/
structure LeafOk (O : Oracle) (E : Bytes → Bytes) (rk : Val) : Prop where
  /-- a block is 16 bytes -/
  E_len : ∀ b, (E b).length = 16
  /-- the round-key slice is not empty (`&roundKeys[0]` is an index expression: Go panics on an empty slice, the IR is stuck) -/
  rk_ne : ∃ w ws, rk = .arr (w :: ws)
  /-- the frame record that precedes every routine call returns nothing -/
  frame : ∀ args, O 0 args = []
  /-- `cryptoBlockAsmXn(&rk[0], &dst[0], &src[0])`: n blocks of `src` through `E`, stored over the first 16n bytes of `dst` -/
  enc : ∀ name n, (name, n) ∈ encLeaves → ∀ dst src : Bytes, 16 * n ≤ dst.length → 16 * n ≤ src.length →
    O name [rk, bytesV dst, bytesV src] = [bytesV (blocksE E n src ++ dst.drop (16 * n))]
  /-- `xorN(&dst[0], &a[0], &b[0])`: the XOR of the first N bytes of `a` and `b`, stored over the first N bytes of `dst` -/
  xor : ∀ name N, (name, N) ∈ xorLeaves → ∀ dst a b : Bytes, N ≤ dst.length → N ≤ a.length → N ≤ b.length →
    O name [bytesV dst, bytesV a, bytesV b] = [bytesV (xorBytes (a.take N) (b.take N) ++ dst.drop N)]
  /-- `gHashBlocks(&H[0], &tag[0], &data[0], count)` for `count ≥ 1`: `count` GHASH steps, the new tag.  (The routine is a
      do-while: with count = 0 it still hashes one block — Props/C11 proves the 16-byte read, the listing theorem of
      Props/C06Arm64 requires `count ≥ 1` — so nothing is specified for count = 0; the glue never passes it.) -/
  gh : ∀ (H tag data : Bytes) (count : Nat), 1 ≤ count → H.length = 16 → tag.length = 16 → 16 * count ≤ data.length →
    O 7 [bytesV H, bytesV tag, bytesV data, .int (count : Int)] = [bytesV (ghBlocks specGh H count tag data)]

/-- the leaf specifications as a property of an assembly semantics `sem` (SMGo/Model/CTIR.lean: `sem name args j` = the
    new elements of the j-th destination) -/
def LeafSpec (sem : Nat → List Val → Nat → List Int) (E : Bytes → Bytes) (rk : Val) : Prop :=
  LeafOk (asmOracle specsA sem) E rk

/-- the receiver's `cipher` field as the glue reads it: `cipher.(*sm4CipherAsm).enc` is `rk` -/
def CipherOk (c rk : Val) : Prop := ∃ r1 r2, c = .arr (.arr (rk :: r1) :: r2)

/-- the leading (receiver) arguments of the methods of `sm4GcmAsm`: cipher, roundKeys, nonceSize, tagSize -/
def recv (c rk : Val) (ns ts : Nat) : List Val := [c, rk, .int (ns : Int), .int (ts : Int)]

/-! ## Statements of the Go functions (callee hypotheses; proved in CTIRRefineGCMSmall / CTIRRefineGCMCrypt) -/

/-- (function number, number of blocks) of fillCounter16/32/64/128/256 -/
def fillFns : List (Nat × Nat) := [(12, 1), (11, 2), (10, 4), (9, 8), (7, 16)]

/-- `fillCounterN(dst, J, count)`: the n counter blocks J+count+1, …, J+count+n (32-bit wrap of the low word) -/
def FillOk (P : Prog) (G : Nat → Val) (O : Oracle) (F : Nat) : Prop :=
  ∀ g n, (g, n) ∈ fillFns → ∀ (dst J : Bytes) (count : Nat), dst.length = 16 * n → J.length = 16 → count < 2 ^ 32 →
    Computes P G O g F [bytesV dst, bytesV J, .int (count : Int)] [bytesV (ctrBlocks (blockToNat J) (count + 1) n)]

/-- the functions Seal and Open call -/
structure GlueCallees (P : Prog) (G : Nat → Val) (O : Oracle) (E : Bytes → Bytes) (c rk : Val) (ns ts : Nat)
    (Fenc Fcfc Fghu Fghf Fens : Nat) (Fcb : Nat → Nat) : Prop where
  /-- `(*sm4CipherAsm).Encrypt(dst, src)` (function 1) -/
  encrypt : ∀ dst src : Bytes, 16 ≤ dst.length → 16 ≤ src.length →
    Computes P G O 1 Fenc [c, bytesV dst, bytesV src] [bytesV (E (src.take 16) ++ dst.drop 16)]
  /-- `calculateFirstCounter(nonce, counter, H)` (function 2) on a zeroed counter: the pre-counter block J0
      (`len(nonce) << 3` on uint64: nonce shorter than 2^61 bytes) -/
  firstCounter : ∀ nonce H : Bytes, H.length = 16 → nonce.length < 2 ^ 61 →
    Computes P G O 2 Fcfc (recv c rk ns ts ++ [bytesV nonce, bytesV (List.replicate 16 0), bytesV H])
      [bytesV (natToBlock (j0 (blockToNat H) nonce))]
  /-- `gHashUpdate(H, tag, in)` (function 3): GHASH resumed from the tag over the zero-padded input (`len(in)` a Go int) -/
  ghUpdate : ∀ H tag inp : Bytes, H.length = 16 → tag.length = 16 → inp.length < 2 ^ 63 →
    Computes P G O 3 Fghu (recv c rk ns ts ++ [bytesV H, bytesV tag, bytesV inp])
      [bytesV (natToBlock (ghFold (blockToNat H) (blockToNat tag) (pad16 inp)))]
  /-- `gHashFinish(H, tag, aadLen, plainLen)` (function 4): the length block -/
  ghFinish : ∀ (H tag : Bytes) (a p : Nat), H.length = 16 → tag.length = 16 → a < 2 ^ 61 → p < 2 ^ 61 →
    Computes P G O 4 Fghf (recv c rk ns ts ++ [bytesV H, bytesV tag, .int (a : Int), .int (p : Int)])
      [bytesV (natToBlock (ghFold (blockToNat H) (blockToNat tag) (be64 (8 * a) ++ be64 (8 * p))))]
  /-- `ensureCapacity(array, asked)` (function 5; hidden argument: cap(array)): head = array extended by `asked` bytes
      (zero in the IR; in Go, inside the capacity, the old bytes of the backing array: Seal / Open overwrite all of them),
      and the offset of the tail -/
  ensure : ∀ (arr : Bytes) (asked cap : Nat), arr.length ≤ cap → cap < 2 ^ 62 → asked < 2 ^ 62 →
    Computes P G O 5 Fens [bytesV arr, .int (asked : Int), .int (cap : Int)]
      [bytesV arr, bytesV (arr ++ List.replicate asked 0), .int (arr.length : Int)]
  /-- `cryptoBlocks(roundKeys, out, in, preCounter)` (function 6): GCTR from inc32(J) over `in`, stored over the first
      len(in) bytes of `out` -/
  crypto : ∀ out inp J : Bytes, J.length = 16 → inp.length ≤ out.length → inp.length ≤ maxPlain →
    Computes P G O 6 (Fcb inp.length) (recv c rk ns ts ++ [rk, bytesV out, bytesV inp, bytesV J])
      [bytesV (gctr E (inc32 (blockToNat J)) inp ++ out.drop inp.length)]

end SMGo.Proofs.CTIRRefineGCM
