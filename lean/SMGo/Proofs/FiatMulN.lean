/-
  Property C16, Montgomery multiplication and squaring modulo the group order n (generated
  `sm2ScalarMul`, `sm2ScalarSquare`).  Same proof as for p (`FiatMulP`); here the quotient digit is
  q = T[0] · m' mod 2^64 with m' = 0x327f9e8872350975 = −n⁻¹ mod 2^64.
  (The round scripts are the p scripts with the variable numbering of the n functions.)
-/
import SMGo.Proofs.FiatMulP
import SMGo.Proofs.FiatSmallN
import SMGo.Gen.FiatN
set_option linter.unusedVariables false
namespace SMGo.Proofs.FiatMulN
open SMGo SMGo.Proofs.Fiat SMGo.Model.FiatPrim
open SMGo.Proofs.FiatSmallP (v4 v4_lt)
open SMGo.Proofs.FiatSmallN (n_eq)
open SMGo.Proofs.FiatMulP (pow256 sqRow1_spec sqRow2_spec sqRow3_spec)

theorem mul64lo_lt (a b : Nat) : mul64lo a b < 18446744073709551616 := (mul64_spec a b).2

/-- the reduction row q·n -/
def nRow (q : Nat) : List Nat := mulRow q 0x53bbf40939d54123 0x7203df6b21c6052b 0xffffffffffffffff 0xfffffffeffffffff

theorem nRow_spec {q : Nat} (hq : q < 18446744073709551616) : L5 (nRow q) (q * 115792089210356248756420345214020892766061623724957744567843809356293439045923) :=
  mulRow_spec hq (by decide) (by decide) (by decide) (by decide)

/-- first round: T := (row + q·n) / 2^64 with q = row[0]·m' mod 2^64 -/
theorem step0_abs {r0 r1 r2 r3 r4 q0 q1 q2 q3 q4 q a B : Nat}
    (R : L5 [r0, r1, r2, r3, r4] (a * B)) (Q : L5 [q0, q1, q2, q3, q4] (q * 115792089210356248756420345214020892766061623724957744567843809356293439045923))
    (hq : q = mul64lo r0 0x327f9e8872350975) (ha : a < 18446744073709551616) (hB : B < 115792089210356248756420345214020892766061623724957744567843809356293439045923) :
    ∃ v, L5 (redAdd5 r0 r1 r2 r3 r4 q0 q1 q2 q3 q4) v ∧ v < 2 * 115792089210356248756420345214020892766061623724957744567843809356293439045923 ∧
      v * 18446744073709551616 = a * B + q * 115792089210356248756420345214020892766061623724957744567843809356293439045923 := by
  have hr := R.head_eq
  have hab : a * B ≤ 18446744073709551615 * B := Nat.mul_le_mul_right B (by omega)
  unfold mul64lo at hq
  generalize a * B = S at *
  have hz : (S + q * 115792089210356248756420345214020892766061623724957744567843809356293439045923) % 18446744073709551616 = 0 := by omega
  have h := redAdd5_spec R Q hz
  refine ⟨_, h, ?_, ?_⟩ <;> omega

/-- later rounds: T := (T + row + q·n) / 2^64 with q = (T + row)[0]·m' mod 2^64 -/
theorem step_abs {s0 s1 s2 s3 s4 s5 q0 q1 q2 q3 q4 q vt a B : Nat}
    (A : L6 [s0, s1, s2, s3, s4, s5] (vt + a * B)) (Q : L5 [q0, q1, q2, q3, q4] (q * 115792089210356248756420345214020892766061623724957744567843809356293439045923))
    (hq : q = mul64lo s0 0x327f9e8872350975) (hvt : vt < 2 * 115792089210356248756420345214020892766061623724957744567843809356293439045923) (ha : a < 18446744073709551616) (hB : B < 115792089210356248756420345214020892766061623724957744567843809356293439045923) :
    ∃ v, L5 (redAdd6 s0 s1 s2 s3 s4 s5 q0 q1 q2 q3 q4) v ∧ v < 2 * 115792089210356248756420345214020892766061623724957744567843809356293439045923 ∧
      v * 18446744073709551616 = vt + a * B + q * 115792089210356248756420345214020892766061623724957744567843809356293439045923 := by
  have hs := A.head_eq
  have hab : a * B ≤ 18446744073709551615 * B := Nat.mul_le_mul_right B (by omega)
  unfold mul64lo at hq
  generalize a * B = S at *
  have hz : (vt + S + q * 115792089210356248756420345214020892766061623724957744567843809356293439045923) % 18446744073709551616 = 0 := by omega
  have hlt : vt + S + q * 115792089210356248756420345214020892766061623724957744567843809356293439045923 < 39402006196394479212279040100143613805079739270465446667948293404245721771497210611414266254884915640806627990306816 := by omega
  have h := redAdd6_spec A Q hz hlt
  refine ⟨_, h, ?_, ?_⟩ <;> omega

set_option maxRecDepth 100000 in
theorem mul_core {a0 a1 a2 a3 b0 b1 b2 b3 : Nat}
    (ha0 : a0 < 18446744073709551616) (ha1 : a1 < 18446744073709551616) (ha2 : a2 < 18446744073709551616) (ha3 : a3 < 18446744073709551616)
    (hb0 : b0 < 18446744073709551616) (hb1 : b1 < 18446744073709551616) (hb2 : b2 < 18446744073709551616) (hb3 : b3 < 18446744073709551616)
    (hB : v4 b0 b1 b2 b3 < 115792089210356248756420345214020892766061623724957744567843809356293439045923) :
    ∃ t0 t1 t2 t3 t4 v k, Gen.FiatN.sm2ScalarMul [a0, a1, a2, a3] [b0, b1, b2, b3]
        = condSub 0x53bbf40939d54123 0x7203df6b21c6052b 0xffffffffffffffff 0xfffffffeffffffff t0 t1 t2 t3 t4 ∧
      L5 [t0, t1, t2, t3, t4] v ∧ v < 2 * 115792089210356248756420345214020892766061623724957744567843809356293439045923 ∧
      v * 115792089237316195423570985008687907853269984665640564039457584007913129639936 = v4 a0 a1 a2 a3 * v4 b0 b1 b2 b3 + k * 115792089210356248756420345214020892766061623724957744567843809356293439045923 := by
  unfold Gen.FiatN.sm2ScalarMul
  extract_lets -merge x1 x2 x3 x4 x6 x5 x8 x7 x10 x9 x12 x11 x13 x14 x15 x16 x17 x18 x19 x20 x23 x22 x25 x24 x27 x26 x29 x28 x30 x31 x32 x33 x34 x35 x36 x38 x39 x40 x41 x42 x43 x44 x45 x46 x48 x47 x50 x49 x52 x51 x54 x53 x55 x56 x57 x58 x59 x60 x61 x62 x63 x64 x65 x66 x67 x68 x69 x70 x71 x72 x75 x74 x77 x76 x79 x78 x81 x80 x82 x83 x84 x85 x86 x87 x88 x90 x91 x92 x93 x94 x95 x96 x97 x98 x99 x101 x100 x103 x102 x105 x104 x107 x106 x108 x109 x110 x111 x112 x113 x114 x115 x116 x117 x118 x119 x120 x121 x122 x123 x124 x125 x128 x127 x130 x129 x132 x131 x134 x133 x135 x136 x137 x138 x139 x140 x141 x143 x144 x145 x146 x147 x148 x149 x150 x151 x152 x154 x153 x156 x155 x158 x157 x160 x159 x161 x162 x163 x164 x165 x166 x167 x168 x169 x170 x171 x172 x173 x174 x175 x176 x177 x178 x181 x180 x183 x182 x185 x184 x187 x186 x188 x189 x190 x191 x192 x193 x194 x196 x197 x198 x199 x200 x201 x202 x203 x204 x205 x206 x207 x208 x209 x210 x211 x212 x213 x215 x216 x217 x218 x219
  have R0 : L5 [x11, x13, x15, x17, x19] (a0 * v4 b0 b1 b2 b3) := mulRow_spec ha0 hb0 hb1 hb2 hb3
  have Q0 : L5 [x28, x30, x32, x34, x36] (x20 * 115792089210356248756420345214020892766061623724957744567843809356293439045923) := nRow_spec (mul64lo_lt _ _)
  obtain ⟨v1, T1, hv1, e1⟩ := step0_abs R0 Q0 rfl ha0 hB
  have T1' : L5 [x39, x41, x43, x45, x46] v1 := T1
  have R1 : L5 [x53, x55, x57, x59, x61] (a1 * v4 b0 b1 b2 b3) := mulRow_spec ha1 hb0 hb1 hb2 hb3
  have A1 : L6 [x62, x64, x66, x68, x70, x71] (v1 + a1 * v4 b0 b1 b2 b3) := addRow_spec T1' R1
  have Q1 : L5 [x80, x82, x84, x86, x88] (x72 * 115792089210356248756420345214020892766061623724957744567843809356293439045923) := nRow_spec (mul64lo_lt _ _)
  obtain ⟨v2, T2, hv2, e2⟩ := step_abs A1 Q1 rfl hv1 ha1 hB
  have T2' : L5 [x91, x93, x95, x97, x99] v2 := T2
  have R2 : L5 [x106, x108, x110, x112, x114] (a2 * v4 b0 b1 b2 b3) := mulRow_spec ha2 hb0 hb1 hb2 hb3
  have A2 : L6 [x115, x117, x119, x121, x123, x124] (v2 + a2 * v4 b0 b1 b2 b3) := addRow_spec T2' R2
  have Q2 : L5 [x133, x135, x137, x139, x141] (x125 * 115792089210356248756420345214020892766061623724957744567843809356293439045923) := nRow_spec (mul64lo_lt _ _)
  obtain ⟨v3, T3, hv3, e3⟩ := step_abs A2 Q2 rfl hv2 ha2 hB
  have T3' : L5 [x144, x146, x148, x150, x152] v3 := T3
  have R3 : L5 [x159, x161, x163, x165, x167] (a3 * v4 b0 b1 b2 b3) := mulRow_spec ha3 hb0 hb1 hb2 hb3
  have A3 : L6 [x168, x170, x172, x174, x176, x177] (v3 + a3 * v4 b0 b1 b2 b3) := addRow_spec T3' R3
  have Q3 : L5 [x186, x188, x190, x192, x194] (x178 * 115792089210356248756420345214020892766061623724957744567843809356293439045923) := nRow_spec (mul64lo_lt _ _)
  obtain ⟨v4', T4, hv4, e4⟩ := step_abs A3 Q3 rfl hv3 ha3 hB
  have T4' : L5 [x197, x199, x201, x203, x205] v4' := T4
  exact ⟨x197, x199, x201, x203, x205, v4', _, rfl, T4', hv4, mont_compose e1 e2 e3 e4⟩

/-- **Montgomery multiplication mod n** -/
theorem mul_spec (a b : List Nat) (ha : Canon Spec.SM2.n a) (hb : Canon Spec.SM2.n b) :
    Canon Spec.SM2.n (Gen.FiatN.sm2ScalarMul a b) ∧
      (eval (Gen.FiatN.sm2ScalarMul a b) * 2 ^ 256) % Spec.SM2.n = (eval a * eval b) % Spec.SM2.n := by
  obtain ⟨a0, a1, a2, a3, rfl, ha0, ha1, ha2, ha3, hA⟩ := canon_cases ha
  obtain ⟨b0, b1, b2, b3, rfl, hb0, hb1, hb2, hb3, hB⟩ := canon_cases hb
  obtain ⟨t0, t1, t2, t3, t4, v, k, hmul, hT, hv, hk⟩ :=
    mul_core ha0 ha1 ha2 ha3 hb0 hb1 hb2 hb3 (a0 := a0) (a1 := a1) (a2 := a2) (a3 := a3) hB
  have hc := condSub_spec (m0 := 0x53bbf40939d54123) (m1 := 0x7203df6b21c6052b) (m2 := 0xffffffffffffffff)
    (m3 := 0xfffffffeffffffff) (by decide) (by decide) (by decide) (by decide) hT hv
  rw [← hmul, ← n_eq] at hc
  refine ⟨hc.1, ?_⟩
  rw [pow256, eval_four, eval_four]
  exact mont_residue hk hc.2

set_option maxRecDepth 100000 in
theorem square_core {a0 a1 a2 a3 : Nat}
    (ha0 : a0 < 18446744073709551616) (ha1 : a1 < 18446744073709551616) (ha2 : a2 < 18446744073709551616) (ha3 : a3 < 18446744073709551616)
    (hB : v4 a0 a1 a2 a3 < 115792089210356248756420345214020892766061623724957744567843809356293439045923) :
    ∃ t0 t1 t2 t3 t4 v k, Gen.FiatN.sm2ScalarSquare [a0, a1, a2, a3]
        = condSub 0x53bbf40939d54123 0x7203df6b21c6052b 0xffffffffffffffff 0xfffffffeffffffff t0 t1 t2 t3 t4 ∧
      L5 [t0, t1, t2, t3, t4] v ∧ v < 2 * 115792089210356248756420345214020892766061623724957744567843809356293439045923 ∧
      v * 115792089237316195423570985008687907853269984665640564039457584007913129639936 = v4 a0 a1 a2 a3 * v4 a0 a1 a2 a3 + k * 115792089210356248756420345214020892766061623724957744567843809356293439045923 := by
  unfold Gen.FiatN.sm2ScalarSquare
  extract_lets -merge x1 x2 x3 x4 x6 x5 x8 x7 x10 x9 x12 x11 x13 x14 x15 x16 x17 x18 x19 x20 x23 x22 x25 x24 x27 x26 x29 x28 x30 x31 x32 x33 x34 x35 x36 x38 x39 x40 x41 x42 x43 x44 x45 x46 x48 x47 x50 x49 x52 x51 x54 x53 x55 x56 x57 x58 x59 x60 x61 x62 x63 x64 x65 x66 x67 x68 x69 x70 x71 x72 x75 x74 x77 x76 x79 x78 x81 x80 x82 x83 x84 x85 x86 x87 x88 x90 x91 x92 x93 x94 x95 x96 x97 x98 x99 x101 x100 x103 x102 x105 x104 x107 x106 x108 x109 x110 x111 x112 x113 x114 x115 x116 x117 x118 x119 x120 x121 x122 x123 x124 x125 x128 x127 x130 x129 x132 x131 x134 x133 x135 x136 x137 x138 x139 x140 x141 x143 x144 x145 x146 x147 x148 x149 x150 x151 x152 x154 x153 x156 x155 x158 x157 x160 x159 x161 x162 x163 x164 x165 x166 x167 x168 x169 x170 x171 x172 x173 x174 x175 x176 x177 x178 x181 x180 x183 x182 x185 x184 x187 x186 x188 x189 x190 x191 x192 x193 x194 x196 x197 x198 x199 x200 x201 x202 x203 x204 x205 x206 x207 x208 x209 x210 x211 x212 x213 x215 x216 x217 x218 x219
  have R0 : L5 [x11, x13, x15, x17, x19] (a0 * v4 a0 a1 a2 a3) := mulRow_spec ha0 ha0 ha1 ha2 ha3
  have Q0 : L5 [x28, x30, x32, x34, x36] (x20 * 115792089210356248756420345214020892766061623724957744567843809356293439045923) := nRow_spec (mul64lo_lt _ _)
  obtain ⟨v1, T1, hv1, e1⟩ := step0_abs R0 Q0 rfl ha0 hB
  have T1' : L5 [x39, x41, x43, x45, x46] v1 := T1
  have R1 : L5 [x53, x55, x57, x59, x61] (a1 * v4 a0 a1 a2 a3) := sqRow1_spec ha0 ha1 ha2 ha3
  have A1 : L6 [x62, x64, x66, x68, x70, x71] (v1 + a1 * v4 a0 a1 a2 a3) := addRow_spec T1' R1
  have Q1 : L5 [x80, x82, x84, x86, x88] (x72 * 115792089210356248756420345214020892766061623724957744567843809356293439045923) := nRow_spec (mul64lo_lt _ _)
  obtain ⟨v2, T2, hv2, e2⟩ := step_abs A1 Q1 rfl hv1 ha1 hB
  have T2' : L5 [x91, x93, x95, x97, x99] v2 := T2
  have R2 : L5 [x106, x108, x110, x112, x114] (a2 * v4 a0 a1 a2 a3) := sqRow2_spec ha0 ha1 ha2 ha3
  have A2 : L6 [x115, x117, x119, x121, x123, x124] (v2 + a2 * v4 a0 a1 a2 a3) := addRow_spec T2' R2
  have Q2 : L5 [x133, x135, x137, x139, x141] (x125 * 115792089210356248756420345214020892766061623724957744567843809356293439045923) := nRow_spec (mul64lo_lt _ _)
  obtain ⟨v3, T3, hv3, e3⟩ := step_abs A2 Q2 rfl hv2 ha2 hB
  have T3' : L5 [x144, x146, x148, x150, x152] v3 := T3
  have R3 : L5 [x159, x161, x163, x165, x167] (a3 * v4 a0 a1 a2 a3) := sqRow3_spec ha0 ha1 ha2 ha3
  have A3 : L6 [x168, x170, x172, x174, x176, x177] (v3 + a3 * v4 a0 a1 a2 a3) := addRow_spec T3' R3
  have Q3 : L5 [x186, x188, x190, x192, x194] (x178 * 115792089210356248756420345214020892766061623724957744567843809356293439045923) := nRow_spec (mul64lo_lt _ _)
  obtain ⟨v4', T4, hv4, e4⟩ := step_abs A3 Q3 rfl hv3 ha3 hB
  have T4' : L5 [x197, x199, x201, x203, x205] v4' := T4
  exact ⟨x197, x199, x201, x203, x205, v4', _, rfl, T4', hv4, mont_compose e1 e2 e3 e4⟩

/-- **Montgomery squaring mod n** (hand-edited like the p version) -/
theorem square_spec (a : List Nat) (ha : Canon Spec.SM2.n a) :
    Canon Spec.SM2.n (Gen.FiatN.sm2ScalarSquare a) ∧
      (eval (Gen.FiatN.sm2ScalarSquare a) * 2 ^ 256) % Spec.SM2.n = (eval a * eval a) % Spec.SM2.n := by
  obtain ⟨a0, a1, a2, a3, rfl, ha0, ha1, ha2, ha3, hA⟩ := canon_cases ha
  obtain ⟨t0, t1, t2, t3, t4, v, k, hmul, hT, hv, hk⟩ := square_core ha0 ha1 ha2 ha3 hA
  have hc := condSub_spec (m0 := 0x53bbf40939d54123) (m1 := 0x7203df6b21c6052b) (m2 := 0xffffffffffffffff)
    (m3 := 0xfffffffeffffffff) (by decide) (by decide) (by decide) (by decide) hT hv
  rw [← hmul, ← n_eq] at hc
  refine ⟨hc.1, ?_⟩
  rw [pow256, eval_four]
  exact mont_residue hk hc.2

end SMGo.Proofs.FiatMulN
