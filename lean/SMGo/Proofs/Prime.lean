/-
  Primality of the SM2 field characteristic p and group order n by a reflective Pratt-certificate
  checker: `checkAll` re-evaluates, for every entry (q, a, fs) of `PrattData.cert`, that
  fs are known primes with product q - 1, a^(q-1) = 1 and a^((q-1)/f) ≠ 1 (mod q) for f ∈ fs;
  soundness is Mathlib's `lucas_primality`.  The evaluation runs in the kernel (`decide +kernel`).
-/
import SMGo.Proofs.ModArith
import SMGo.Proofs.PrattData
import Mathlib.NumberTheory.LucasPrimality
import Mathlib.Algebra.BigOperators.Group.List.Basic

namespace SMGo.Proofs.Prime
open SMGo.Spec.SM2 SMGo.Proofs.ModArith

/-- one Lucas test: q > 1, `fs` known primes with product q - 1, `a` of exact order q - 1 -/
def checkEntry (known : List Nat) (q a : Nat) (fs : List Nat) : Bool :=
  decide (1 < q) && fs.all (fun f => known.contains f) && (fs.prod == q - 1) &&
    (powMod a (q - 1) q == 1) && fs.all (fun f => powMod a ((q - 1) / f) q != 1)

/-- check a certificate list front to back, every verified prime becoming known -/
def checkAll : List (Nat × Nat × List Nat) → List Nat → Bool
  | [], _ => true
  | (q, a, fs) :: rest, known => checkEntry known q a fs && checkAll rest (q :: known)

theorem checkEntry_sound {known : List Nat} (hk : ∀ k ∈ known, k.Prime) {q a : Nat} {fs : List Nat}
    (h : checkEntry known q a fs = true) : q.Prime := by
  simp only [checkEntry, Bool.and_eq_true, decide_eq_true_eq, List.all_eq_true, beq_iff_eq,
    bne_iff_ne, ne_eq, List.contains_iff_mem] at h
  obtain ⟨⟨⟨⟨hq, hmem⟩, hprod⟩, h1⟩, h2⟩ := h
  have hq0 : 0 < q := by omega
  apply lucas_primality q (a : ZMod q)
  · have := powMod_cast a (q - 1) q hq0
    rw [h1] at this
    rw [← this, Nat.cast_one]
  · intro r hr hdvd heq
    rw [← hprod] at hdvd
    obtain ⟨f, hf, hrf⟩ := (Prime.dvd_prod_iff hr.prime).mp hdvd
    have hfp : f.Prime := hk f (hmem f hf)
    have hrf' : r = f := (Nat.prime_dvd_prime_iff_eq hr hfp).mp hrf
    subst hrf'
    apply h2 r hf
    have hc := powMod_cast a ((q - 1) / r) q hq0
    rw [heq] at hc
    have : ((powMod a ((q - 1) / r) q : Nat) : ZMod q) = ((1 : Nat) : ZMod q) := by
      rw [hc, Nat.cast_one]
    rw [ZMod.natCast_eq_natCast_iff'] at this
    rw [Nat.mod_eq_of_lt (powMod_lt _ _ _ hq0), Nat.mod_eq_of_lt hq] at this
    exact this

theorem checkAll_sound : ∀ (l : List (Nat × Nat × List Nat)) (known : List Nat),
    (∀ k ∈ known, k.Prime) → checkAll l known = true → ∀ e ∈ l, e.1.Prime := by
  intro l
  induction l with
  | nil => intro _ _ _ e he; simp at he
  | cons hd tl ih =>
    intro known hk h e he
    obtain ⟨q, a, fs⟩ := hd
    simp only [checkAll, Bool.and_eq_true] at h
    have hq : q.Prime := checkEntry_sound hk h.1
    rcases List.mem_cons.mp he with rfl | he'
    · exact hq
    · refine ih (q :: known) ?_ h.2 e he'
      intro k hkm
      rcases List.mem_cons.mp hkm with rfl | hkm'
      · exact hq
      · exact hk k hkm'

theorem cert_ok : checkAll PrattData.cert [2] = true := by decide +kernel

theorem cert_primes : ∀ e ∈ PrattData.cert, e.1.Prime :=
  checkAll_sound _ [2] (by intro k hk; rw [List.mem_singleton.mp hk]; exact Nat.prime_two) cert_ok

theorem p_mem : PrattData.cert.any (fun e => e.1 == p) = true := by decide +kernel
theorem n_mem : PrattData.cert.any (fun e => e.1 == n) = true := by decide +kernel

/-- the SM2 field characteristic is prime -/
theorem p_prime : Nat.Prime p := by
  obtain ⟨e, he, hp⟩ := List.any_eq_true.mp p_mem
  rw [← beq_iff_eq.mp hp]
  exact cert_primes e he

/-- the order of the SM2 base point is prime -/
theorem n_prime : Nat.Prime n := by
  obtain ⟨e, he, hn⟩ := List.any_eq_true.mp n_mem
  rw [← beq_iff_eq.mp hn]
  exact cert_primes e he

instance fact_p_prime : Fact (Nat.Prime p) := ⟨p_prime⟩
instance fact_n_prime : Fact (Nat.Prime n) := ⟨n_prime⟩

end SMGo.Proofs.Prime
