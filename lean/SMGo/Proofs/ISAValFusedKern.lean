import SMGo.Proofs.ISAValFusedSPost
set_option linter.unusedSimpArgs false
namespace SMGo.Proofs.ISAVal
open SMGo.Model.ISAVal SMGo.Model.GCM SMGo.Proofs.GCM SMGo.Proofs.ISATouch
open SMGo.Model.ISA (Reg Opd Instr)

theorem vpshufb64_lt (vl x : Nat) (hvl : validVl vl = true) : vpshufb vl (SHUFvl 64) x < 2 ^ (8 * vl) := by
  have hvl16 : vl % 16 = 0 := by simp only [validVl, Bool.or_eq_true, beq_iff_eq] at hvl; omega
  rw [vpshufb_shuf64 vl x hvl]; exact vpshufb_lt vl _ _ hvl16

set_option maxRecDepth 100000 in
/-- `revStates` with `Shuffle<>` broadcast to the whole Z register -/
theorem rev4_spec64 (vl : Nat) (hvl : validVl vl = true) (s : State) (hV : s.vec.length = 32) (h12 : vreg s 12 = SHUFvl 64) :
    ∃ s', execList (rev4Code vl) s = .ok s' ∧
      ∀ X, X ∈ [6, 7, 8, 9] → vreg s' X < 2 ^ (8 * vl) ∧ ∀ j, j < vl / 4 → lane 32 j (vreg s' X) = bswap32 (lane 32 j (vreg s X)) := by
  obtain ⟨gpr, vec, k, fl, mem, syms, frame⟩ := s
  simp only at hV
  obtain ⟨b0, b1, b2, b3, b4, b5, b6, b7, b8, b9, b10, b11, b12, b13, b14, b15, b16, b17, b18, b19, b20, b21, b22, b23, b24, b25, b26, b27, b28, b29, b30, b31, rfl⟩ := list32 vec hV
  simp only [vreg, List.getD_cons_succ, List.getD_cons_zero] at h12
  subst h12
  apply Exists.intro
  apply And.intro
  · unfold rev4Code
    gstep; gstep; gstep; gstep
    exact execList_nil _
  · simp only [List.set_cons_succ, List.set_cons_zero]
    intro X hX
    simp only [List.mem_cons, List.not_mem_nil, or_false] at hX
    rcases hX with rfl | rfl | rfl | rfl <;>
      (simp only [vreg, List.getD_cons_succ, List.getD_cons_zero]
       exact ⟨vpshufb64_lt vl _ hvl, fun j hj => lane32_rev32_64 vl _ j hvl hj⟩)

/-- the kernel of the wide length classes of `cryptoBlocksAsm` between `fillCounter` and the xor with the input:
    4×4 transposition, 32 rounds, transposition back, `rev32` -/
def kernCode (vl : Nat) : List DInstr :=
  transposeCode vl 6 7 8 9 ++ (rounds32Code vl 15 1 2 11 12 6 7 8 9 ++ (transposeCode vl 9 8 7 6 ++ rev4Code vl))

/-- the four dwords of 128-bit lane `l` of a register -/
def quadAt (v l : Nat) : Nat × Nat × Nat × Nat := (lane 32 (4 * l) v, lane 32 (4 * l + 1) v, lane 32 (4 * l + 2) v, lane 32 (4 * l + 3) v)

def kernKeepG : List Nat := rnKeepG 15 1 2 11 12
def kernKeepV : List Nat := rnKeepV 6 7 8 9

theorem kTr1 (vl : Nat) : writesNone (transposeCode vl 6 7 8 9) (List.range 16) kernKeepV (List.range 8) = true := by
  simp [writesNone, transposeCode, leaves, touchesOf, tVec3, ins, R, kernKeepV, rnKeepV]
theorem kTr2 (vl : Nat) : writesNone (transposeCode vl 9 8 7 6) (List.range 16) kernKeepV (List.range 8) = true := by
  simp [writesNone, transposeCode, leaves, touchesOf, tVec3, ins, R, kernKeepV, rnKeepV]
theorem kRev4 (vl : Nat) : writesNone (rev4Code vl) (List.range 16) kernKeepV (List.range 8) = true := by
  simp [writesNone, rev4Code, leaves, touchesOf, tVec3, ins, R, kernKeepV, rnKeepV]


set_option maxRecDepth 100000 in
set_option maxHeartbeats 2000000 in
/-- **the kernel of a wide length class**: if 128-bit lane `l` of state register `6 + r` holds the four big-endian words
    `W r l` of a block, then afterwards lane `l` of register `9 − r` holds the 16 bytes of its encryption (in memory order) -/
theorem kern_spec (vl : Nat) (hvl : validVl vl = true) (s : State) (hG : s.gpr.length = 16) (hV : s.vec.length = 32)
    (h10 : vreg s 10 = PREvl 64) (h11 : vreg s 11 = POSTvl 64) (h12 : vreg s 12 = SHUFvl 64)
    (W : Nat → Nat → Nat × Nat × Nat × Nat) (hpre : ∀ r l, r < 4 → l < vl / 16 → quadAt (vreg s (6 + r)) l = W r l)
    (rk : List Nat) (hrk : rk.length = 32) (hrkb : ∀ x ∈ rk, x < 2 ^ 32)
    (base : Nat) (hbase : greg s 15 = base) (hb : base + 144 < 2 ^ 64)
    (hread : ∀ i, i < 32 → readMem s.mem (base + 4 * i) 4 = .ok (lanes 8 4 (rk.getD i 0))) :
    ∃ s', execList (kernCode vl) s = .ok s' ∧
      (∀ r, r < 4 → vreg s' (9 - r) < 2 ^ (8 * vl) ∧
        lanes 8 vl (vreg s' (9 - r)) = (List.range (vl / 16)).flatMap (fun l => encQ (rk.foldl stepN (W r l)))) ∧
      greg s' 15 = base ∧ Keeps kernKeepG kernKeepV (List.range 8) s s' := by
  have hvl' : vl = 16 ∨ vl = 32 ∨ vl = 64 := by
    simpa only [validVl, Bool.or_eq_true, beq_iff_eq, or_assoc] using hvl
  obtain ⟨n, hn⟩ : ∃ n, vl = 16 * n := ⟨vl / 16, by omega⟩
  have hn16 : vl / 16 = n := by omega
  -- transposition
  obtain ⟨s1, hr1, _, t1⟩ := transpose_spec vl 6 7 8 9 hvl (Or.inl ⟨rfl, rfl, rfl, rfl⟩) s hV
  have k1 := keeps_of_exec _ (kTr1 vl) hr1
  -- the window of dword lane j
  let X : Nat → Nat × Nat × Nat × Nat := fun j => W (j % 4) (j / 4)
  have hq : ∀ r l, r < 4 → l < n → lane 32 (4 * l) (vreg s (6 + r)) = (W r l).1 ∧ lane 32 (4 * l + 1) (vreg s (6 + r)) = (W r l).2.1 ∧
      lane 32 (4 * l + 2) (vreg s (6 + r)) = (W r l).2.2.1 ∧ lane 32 (4 * l + 3) (vreg s (6 + r)) = (W r l).2.2.2 := by
    intro r l hr hl
    have := hpre r l hr (by omega)
    unfold quadAt at this
    rw [← this]
    exact ⟨rfl, rfl, rfl, rfl⟩
  have hjd : ∀ j, j < vl / 4 → ∃ l m, j = 4 * l + m ∧ m < 4 ∧ l < n := fun j hj => ⟨j / 4, j % 4, by omega, by omega, by omega⟩
  have rd1 : ReadyF vl 6 7 8 9 X s1 := by
    refine ⟨k1.lenG.trans hG, k1.lenV.trans hV, (k1.v 10 (by decide)).trans h10, (k1.v 11 (by decide)).trans h11, ?_, ?_, ?_, ?_⟩
    all_goals
      intro j hj
      obtain ⟨l, m, rfl, hm, hl⟩ := hjd j hj
      have e1 : (4 * l + m) % 4 = m := by omega
      have e2 : (4 * l + m) / 4 = l := by omega
      show _ = _
      simp only [X, e1, e2]
      have hm' : m = 0 ∨ m = 1 ∨ m = 2 ∨ m = 3 := by omega
      first
        | (have T := t1.tA l (by omega)
           rcases hm' with rfl | rfl | rfl | rfl
           · rw [T.1]; exact (hq 0 l (by decide) hl).1
           · rw [T.2.1]; exact (hq 1 l (by decide) hl).1
           · rw [T.2.2.1]; exact (hq 2 l (by decide) hl).1
           · rw [T.2.2.2]; exact (hq 3 l (by decide) hl).1)
        | (have T := t1.tB l (by omega)
           rcases hm' with rfl | rfl | rfl | rfl
           · rw [T.1]; exact (hq 0 l (by decide) hl).2.1
           · rw [T.2.1]; exact (hq 1 l (by decide) hl).2.1
           · rw [T.2.2.1]; exact (hq 2 l (by decide) hl).2.1
           · rw [T.2.2.2]; exact (hq 3 l (by decide) hl).2.1)
        | (have T := t1.tC l (by omega)
           rcases hm' with rfl | rfl | rfl | rfl
           · rw [T.1]; exact (hq 0 l (by decide) hl).2.2.1
           · rw [T.2.1]; exact (hq 1 l (by decide) hl).2.2.1
           · rw [T.2.2.1]; exact (hq 2 l (by decide) hl).2.2.1
           · rw [T.2.2.2]; exact (hq 3 l (by decide) hl).2.2.1)
        | (have T := t1.tD l (by omega)
           rcases hm' with rfl | rfl | rfl | rfl
           · rw [T.1]; exact (hq 0 l (by decide) hl).2.2.2
           · rw [T.2.1]; exact (hq 1 l (by decide) hl).2.2.2
           · rw [T.2.2.1]; exact (hq 2 l (by decide) hl).2.2.2
           · rw [T.2.2.2]; exact (hq 3 l (by decide) hl).2.2.2)
  -- 32 rounds
  obtain ⟨s2, hr2, rd2, g2, k2⟩ := rounds32_step vl 15 1 2 11 12 6 7 8 9 hvl (Or.inl ⟨rfl, rfl, rfl, rfl⟩) (Or.inr ⟨rfl, rfl, rfl, rfl, rfl⟩)
    s1 X rd1 base (by rw [k1.g 15 (by decide)]; exact hbase) hb (fun i => lanes 8 4 (rk.getD i 0))
    (fun i hi => by rw [k1.mem]; exact hread i hi)
  have hkw : (fun i => unlanes 8 (lanes 8 4 (rk.getD i 0)) % 2 ^ 32) = (fun i => rk.getD i 0) := by
    funext i
    rw [unlanes_lanes, Nat.mod_mod]; exact Nat.mod_eq_of_lt (getD_lt rk hrkb i)
  let Y : Nat → Nat → Nat × Nat × Nat × Nat := fun r l => rk.foldl stepN (W r l)
  have hY : ∀ j, iterN (fun i => unlanes 8 (lanes 8 4 (rk.getD i 0)) % 2 ^ 32) (X j) 32 = Y (j % 4) (j / 4) := by
    intro j
    rw [hkw, iterN_take rk _ 32 (by omega), List.take_of_length_le (by omega)]
  -- transposition back, rev32
  obtain ⟨s3, hr3, _, t3⟩ := transpose_spec vl 9 8 7 6 hvl (Or.inr ⟨rfl, rfl, rfl, rfl⟩) s2 rd2.lenV
  have k3 := keeps_of_exec _ (kTr2 vl) hr3
  obtain ⟨s4, hr4, r4⟩ := rev4_spec64 vl hvl s3 (k3.lenV.trans rd2.lenV)
    (by rw [k3.v 12 (by decide), k2.v 12 (by decide), k1.v 12 (by decide)]; exact h12)
  have k4 := keeps_of_exec _ (kRev4 vl) hr4
  have x0 := rd2.xA; have x1 := rd2.xB; have x2 := rd2.xC; have x3 := rd2.xD
  have hjl : ∀ l r, l < n → r < 4 → 4 * l + r < vl / 4 := by intro l r hl hr; omega
  have val : ∀ (l r : Nat), l < n → r < 4 → (lane 32 (4 * l + r) (vreg s2 6), lane 32 (4 * l + r) (vreg s2 7),
      lane 32 (4 * l + r) (vreg s2 8), lane 32 (4 * l + r) (vreg s2 9)) = rk.foldl stepN (W r l) := by
    intro l r hl hr
    have hj := hjl l r hl hr
    rw [x0 _ hj, x1 _ hj, x2 _ hj, x3 _ hj, hY]
    have e1 : (4 * l + r) % 4 = r := by omega
    have e2 : (4 * l + r) / 4 = l := by omega
    rw [e1, e2]
  have hrun : execList (kernCode vl) s = .ok s4 := by
    unfold kernCode
    exact execList_append_ok hr1 (execList_append_ok hr2 (execList_append_ok hr3 hr4))
  refine ⟨s4, hrun, ?_, ?_, ((k1.mono (fun n hn => List.mem_range.mpr (by simp [kernKeepG, rnKeepG] at hn; exact hn.1)) (fun _ h => h) (fun _ h => h)).trans k2).trans
    ((k3.trans k4).mono (fun n hn => List.mem_range.mpr (by simp [kernKeepG, rnKeepG] at hn; exact hn.1)) (fun _ h => h) (fun _ h => h))⟩
  · intro r hr
    have hr' : r = 0 ∨ r = 1 ∨ r = 2 ∨ r = 3 := by omega
    rcases hr' with rfl | rfl | rfl | rfl
    · refine ⟨(r4 9 (by simp)).1, ?_⟩
      rw [hn16]
      apply reg_out vl n hn _ (vreg s3 9) _ (r4 9 (by simp)).2
      intro l hl
      have T := t3.tA l (by omega)
      simp only [Nat.add_zero] at T
      have v := val l 0 hl (by decide)
      simp only [Nat.add_zero] at v
      rw [T.1, T.2.1, T.2.2.1, T.2.2.2, ← v]
      exact ⟨rfl, rfl, rfl, rfl⟩
    · refine ⟨(r4 8 (by simp)).1, ?_⟩
      rw [hn16]
      apply reg_out vl n hn _ (vreg s3 8) _ (r4 8 (by simp)).2
      intro l hl
      have T := t3.tB l (by omega)
      simp only [Nat.add_zero] at T
      have v := val l 1 hl (by decide)
      rw [T.1, T.2.1, T.2.2.1, T.2.2.2, ← v]
      exact ⟨rfl, rfl, rfl, rfl⟩
    · refine ⟨(r4 7 (by simp)).1, ?_⟩
      rw [hn16]
      apply reg_out vl n hn _ (vreg s3 7) _ (r4 7 (by simp)).2
      intro l hl
      have T := t3.tC l (by omega)
      simp only [Nat.add_zero] at T
      have v := val l 2 hl (by decide)
      rw [T.1, T.2.1, T.2.2.1, T.2.2.2, ← v]
      exact ⟨rfl, rfl, rfl, rfl⟩
    · refine ⟨(r4 6 (by simp)).1, ?_⟩
      rw [hn16]
      apply reg_out vl n hn _ (vreg s3 6) _ (r4 6 (by simp)).2
      intro l hl
      have T := t3.tD l (by omega)
      simp only [Nat.add_zero] at T
      have v := val l 3 hl (by decide)
      rw [T.1, T.2.1, T.2.2.1, T.2.2.2, ← v]
      exact ⟨rfl, rfl, rfl, rfl⟩
  · rw [k4.g 15 (by decide), k3.g 15 (by decide)]; exact g2

end SMGo.Proofs.ISAVal
