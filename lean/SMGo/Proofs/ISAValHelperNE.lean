import SMGo.Proofs.ISAValOpenCmp5
import SMGo.Model.ISAValHelper
set_option linter.unusedSimpArgs false
namespace SMGo.Proofs.ISAVal
open SMGo SMGo.Model.ISAVal SMGo.Proofs.ISATouch
open SMGo.Model.ISA (Reg Opd Instr)

/-! ### `needExpand` of helper_amd64.s -/

def neR : Routine := Gen.ListAmd64Helper.needExpand.map decodeD

theorem known_ne : Gen.ListAmd64Helper.needExpand_chunks.all (fun c => c.all known) = true := by decide +kernel
theorem neR_ok : Routine.ofListing Gen.ListAmd64Helper.needExpand = .ok neR := ofListing_chunks _ known_ne

def neCode : List DInstr :=
  [ins .MOVQ [.frame "array" 8, G 7] 0, ins .MOVQ [.frame "arrayLen" 16, G 6] 0, ins .MOVQ [.frame "arrayCap" 24, G 0] 0,
   ins .MOVQ [.frame "asked" 32, G 3] 0, ins .MOVQ [G 0, G 8] 0, ins .SUBQ [G 6, G 8] 0, ins .MOVQ [.imm 0, G 9] 0,
   ins .CMPQ [G 8, G 3] 0, ins .JGE [.target 45] 0, ins .MOVQ [.imm 1, G 9] 0, ins .MOVQ [G 9, G 1] 0,
   ins .MOVQ [G 1, .frame "ret1" 40] 0, ins .RET [] 0]

theorem ne_scheme : neR.map erasePc = neCode :=
  eqChunks_sound _ _ (by decide +kernel : eqChunks Gen.ListAmd64Helper.needExpand_chunks neCode = true)

theorem ne_labels : labelsOk neR [("done", 10, 45)] = true := by decide +kernel

theorem a_cmpq_rr (s : State) (a b : Nat) (ha : a < s.gpr.length) (hb : b < s.gpr.length) :
    execD s (ins .CMPQ [G a, G b] 0) = .ok (setFlags s (subF 8 (greg s a) (greg s b)).2) := by
  obtain ⟨g, v, k, fl, mem, syms, frame⟩ := s
  simp only [execD, ins, G, exCmpq, getG, getElem?_getD g a ha, getElem?_getD g b hb, setFlags, greg, ok_bind, pure_eq_ok]

theorem a_movq_reg_frame (s : State) (a : Nat) (name : String) (off : Nat) (fr' : List (String × Nat)) (ha : a < s.gpr.length)
    (h : setSlot s.frame name (fun _ => greg s a) = some fr') :
    execD s (ins .MOVQ [G a, .frame name off] 0) = .ok { s with frame := fr' } := by
  obtain ⟨g, v, k, fl, mem, syms, frame⟩ := s
  have hga := getElem?_getD g a ha
  simp only [greg] at h
  simp only [execD, ins, G, exMov, getG, hga, ok_bind, writeSlot, h]
  rfl

theorem lenG_setFlags (s : State) (f : Flags) : (setFlags s f).gpr.length = s.gpr.length := rfl
theorem imm64_one : imm64 1 = 1 := by decide +kernel

theorem cond_jge (a b : Nat) (ha : a < 2 ^ 63) (hb : b < 2 ^ 63) : Model.ISAVal.cond .JGE (subF 8 a b).2 = .ok (decide (b ≤ a)) := by
  rw [subF_flags a b ha hb]
  by_cases h : a < b
  · have : ¬ b ≤ a := by omega
    simp [Model.ISAVal.cond, h, this]
  · have : b ≤ a := by omega
    simp [Model.ISAVal.cond, h, this]

/-- the frame of `needExpandState` with the result slot set -/
def neFrame (ptr len cap asked r : Nat) : List (String × Nat) :=
  [("array", ptr), ("arrayLen", len), ("arrayCap", cap), ("asked", asked), ("ret1", r)]

set_option maxRecDepth 100000 in
/-- **`needExpand`: 1 if the spare capacity `cap − len` is smaller than `asked`, else 0** -/
theorem needExpand_run (g v k : List Nat) (ptr len cap asked r0 : Nat) (hG : g.length = 16)
    (hlc : len ≤ cap) (hcap : cap < 2 ^ 63) (hask : asked < 2 ^ 63) (fuel : Nat) (hfuel : 20 < fuel) :
    runRet Gen.ListAmd64Helper.needExpand fuel (needExpandState g v k ptr len cap asked r0)
      = .ok (if cap - len < asked then 1 else 0) := by
  have hw := Slice.whole ne_scheme
  obtain ⟨s0, hs0⟩ : ∃ s0, s0 = needExpandState g v k ptr len cap asked r0 := ⟨_, rfl⟩
  have hG0 : s0.gpr.length = 16 := by rw [hs0]; exact hG
  have hfr : s0.frame = neFrame ptr len cap asked r0 := by rw [hs0]; rfl
  have sA : Slice neR 0 (neCode.take 7) := Slice.left (a := neCode.take 7) (b := neCode.drop 7) hw
  have sB : Slice neR 7 [ins .CMPQ [G 8, G 3] 0] := Slice.left (a := [_]) (b := neCode.drop 8) (Slice.right (a := neCode.take 7) (b := neCode.drop 7) hw)
  have sJ : Slice neR 8 (ins .JGE [.target 45] 0 :: neCode.drop 9) := Slice.right (a := neCode.take 8) (b := neCode.drop 8) hw
  have sC : Slice neR 9 [ins .MOVQ [.imm 1, G 9] 0] := Slice.left (a := [_]) (b := neCode.drop 10) (Slice.right (a := neCode.take 9) (b := neCode.drop 9) hw)
  have sD : Slice neR 10 [ins .MOVQ [G 9, G 1] 0, ins .MOVQ [G 1, .frame "ret1" 40] 0] :=
    Slice.left (a := [_, _]) (b := [_]) (Slice.right (a := neCode.take 10) (b := neCode.drop 10) hw)
  have sR : Slice neR 12 (ins .RET [] 0 :: []) := Slice.right (a := neCode.take 12) (b := neCode.drop 12) hw
  -- the straight part
  let a1 := setGreg s0 7 ptr
  let a2 := setGreg a1 6 len
  let a3 := setGreg a2 0 cap
  let a4 := setGreg a3 3 asked
  let a5 := setGreg a4 8 cap
  have hG4 : a4.gpr.length = 16 := by simp [a4, a3, a2, a1, hG0]
  have hG5 : a5.gpr.length = 16 := by simp [a5, hG4]
  have e40 : greg a4 0 = cap := by
    show greg (setGreg a3 3 _) 0 = _
    rw [greg_setGreg_ne a3 3 _ 0 (by decide)]; exact greg_setGreg_eq a2 0 _ (by simp [a2, a1, hG0])
  have e58 : greg a5 8 = cap := greg_setGreg_eq a4 8 _ (by omega)
  have e56 : greg a5 6 = len := by
    show greg (setGreg a4 8 _) 6 = _
    rw [greg_setGreg_ne a4 8 _ 6 (by decide)]; show greg (setGreg a3 3 _) 6 = _
    rw [greg_setGreg_ne a3 3 _ 6 (by decide)]; show greg (setGreg a2 0 _) 6 = _
    rw [greg_setGreg_ne a2 0 _ 6 (by decide)]; exact greg_setGreg_eq a1 6 _ (by simp [a1, hG0])
  have x6 := a_subq_rr a5 6 8 (by omega) (by omega) (by rw [e56]; omega) (by rw [e58]; omega)
  rw [e56, e58, show (cap + 2 ^ 64 - len) % 2 ^ 64 = cap - len from by omega] at x6
  let a6 := setFlags (setGreg a5 8 (cap - len)) (subF 8 cap len).2
  have hG6 : a6.gpr.length = 16 := (lenG_sf a5 8 _ _).trans hG5
  let a7 := setGreg a6 9 (imm64 0)
  have hG7 : a7.gpr.length = 16 := (lenG_setGreg a6 9 _).trans hG6
  have hxA : execList (neCode.take 7) s0 = .ok a7 := by
    show execList [_, _, _, _, _, _, _] s0 = _
    apply exec_step (a_movq_frame s0 "array" 8 7 ptr (by rw [hfr]; simp [neFrame, lookup]) (by rw [hG0]; decide))
    apply exec_step (a_movq_frame a1 "arrayLen" 16 6 len (by show lookup s0.frame _ = _; rw [hfr]; simp [neFrame, lookup]) (by simp [a1, hG0]))
    apply exec_step (a_movq_frame a2 "arrayCap" 24 0 cap (by show lookup s0.frame _ = _; rw [hfr]; simp [neFrame, lookup]) (by simp [a2, a1, hG0]))
    apply exec_step (a_movq_frame a3 "asked" 32 3 asked (by show lookup s0.frame _ = _; rw [hfr]; simp [neFrame, lookup]) (by simp [a3, a2, a1, hG0]))
    apply exec_step (s1 := a5) (by have := a_movq_rr a4 0 8 (by omega) (by omega); rw [e40] at this; exact this)
    apply exec_step x6
    apply exec_step (a_movq_imm a6 0 9 (by omega))
    rfl
  have rA : Reach neR 0 s0 7 a7 7 := reach_seg sA (by rfl) hxA
  -- the comparison
  have e78 : greg a7 8 = cap - len := by
    show greg (setGreg a6 9 _) 8 = _
    rw [greg_setGreg_ne a6 9 _ 8 (by decide)]; show greg (setFlags (setGreg a5 8 _) _) 8 = _
    rw [greg_setFlags, greg_setGreg_eq a5 8 _ (by omega)]
  have e73 : greg a7 3 = asked := by
    show greg (setGreg a6 9 _) 3 = _
    rw [greg_setGreg_ne a6 9 _ 3 (by decide)]; show greg (setFlags (setGreg a5 8 _) _) 3 = _
    rw [greg_setFlags, greg_setGreg_ne a5 8 _ 3 (by decide)]; show greg (setGreg a4 8 _) 3 = _
    rw [greg_setGreg_ne a4 8 _ 3 (by decide)]; exact greg_setGreg_eq a3 3 _ (by simp [a3, a2, a1, hG0])
  let a8 := setFlags a7 (subF 8 (cap - len) asked).2
  have hxB : execList [ins .CMPQ [G 8, G 3] 0] a7 = .ok a8 := by
    apply exec_step (s1 := a8) (by have := a_cmpq_rr a7 8 3 (by omega) (by omega); rw [e78, e73] at this; exact this)
    rfl
  have rB : Reach neR 7 a7 8 a8 1 := reach_seg sB (by rfl) hxB
  have hG8 : a8.gpr.length = 16 := (lenG_setFlags a7 _).trans hG7
  have rJ := reach_jcc (r := neR) (k := 8) (idx := 10) sJ rfl (label_findPc ne_labels (name := "done") (by decide)) (s := a8)
    (cond_jge (cap - len) asked (by omega) hask)
  -- both ways arrive at `done` with G9 = the answer
  obtain ⟨res, hres⟩ : ∃ res : Nat, res = if cap - len < asked then 1 else 0 := ⟨_, rfl⟩
  obtain ⟨a9, N9, hN9, r9, e99, hG9, hf9⟩ : ∃ a9 N9, N9 ≤ 2 ∧ Reach neR 8 a8 10 a9 N9 ∧ greg a9 9 = res ∧ a9.gpr.length = 16 ∧
      a9.frame = s0.frame := by
    by_cases hlt : cap - len < asked
    · have hd : decide (asked ≤ cap - len) = false := by simp; omega
      rw [hd] at rJ
      simp only [Bool.false_eq_true, if_false] at rJ
      have hxC : execList [ins .MOVQ [.imm 1, G 9] 0] a8 = .ok (setGreg a8 9 (imm64 1)) := by
        apply exec_step (a_movq_imm a8 1 9 (by omega))
        rfl
      have rC : Reach neR 9 a8 10 _ 1 := reach_seg sC (by rfl) hxC
      refine ⟨_, 2, by omega, rJ.trans rC, ?_, (lenG_setGreg a8 9 _).trans hG8, rfl⟩
      rw [greg_setGreg_eq a8 9 _ (by omega), hres, if_pos hlt]; exact imm64_one
    · have hd : decide (asked ≤ cap - len) = true := by simp; omega
      rw [hd] at rJ
      simp only [if_true] at rJ
      refine ⟨a8, 1, by omega, rJ, ?_, hG8, rfl⟩
      show greg (setFlags a7 _) 9 = _
      rw [greg_setFlags]
      show greg (setGreg a6 9 _) 9 = _
      rw [greg_setGreg_eq a6 9 _ (by omega), hres, if_neg hlt]; exact imm64_0'
  -- the result
  let b1 := setGreg a9 1 res
  have hG1 : b1.gpr.length = 16 := (lenG_setGreg a9 1 _).trans hG9
  let b2 : State := { b1 with frame := neFrame ptr len cap asked res }
  have hxD : execList [ins .MOVQ [G 9, G 1] 0, ins .MOVQ [G 1, .frame "ret1" 40] 0] a9 = .ok b2 := by
    apply exec_step (s1 := b1) (by have := a_movq_rr a9 9 1 (by omega) (by omega); rw [e99] at this; exact this)
    apply exec_step (s1 := b2) (a_movq_reg_frame b1 1 "ret1" 40 _ (by omega) (by
      rw [greg_setGreg_eq a9 1 _ (by omega)]
      show setSlot a9.frame _ _ = _
      rw [hf9, hfr]; simp [neFrame, setSlot]))
    rfl
  have rD : Reach neR 10 a9 12 b2 2 := reach_seg sD (by rfl) hxD
  have hrun := run_of_reach ((((rA.trans rB).trans r9).trans rD)) sR fuel (by omega)
  unfold runRet run
  rw [neR_ok]
  simp only [bind, Except.bind]
  rw [← hs0, hrun]
  simp [b2, neFrame, lookup, hres]

end SMGo.Proofs.ISAVal
#print axioms SMGo.Proofs.ISAVal.needExpand_run
