/-
  Property C18, SM2 part — kernel evaluation of the table checkers of `TablesCheck.lean` on the
  GENERATED tables of the 5-3-17-1 comb (`Gen/SM2Tables.lean`, regenerated from
  sm2/internal/sm2_tables.go on every check run).  Core Lean only.
-/
import SMGo.Proofs.TablesCheck
import SMGo.Gen.SM2Tables
namespace SMGo.Proofs.Tables
open SMGo.Gen.SM2Tables
set_option maxRecDepth 100000

/-- shape of the first table: 3 sub-tables, x and y lists of 2^5 − 1 vectors of four limbs < 2^64,
    values < p -/
theorem shape_5_3_17 : firstOK sm2Precomputed_5_3_17 5 3 = true := by decide +kernel

theorem sub_5_3_17_0 : checkSub sm2Precomputed_5_3_17 5 3 17 1 0 = true := by decide +kernel

theorem sub_5_3_17_1 : checkSub sm2Precomputed_5_3_17 5 3 17 1 1 = true := by decide +kernel

theorem sub_5_3_17_2 : checkSub sm2Precomputed_5_3_17 5 3 17 1 2 = true := by decide +kernel

theorem sub_5_3_17 : ∀ j, j < 3 → checkSub sm2Precomputed_5_3_17 5 3 17 1 j = true
  | 0, _ => sub_5_3_17_0
  | 1, _ => sub_5_3_17_1
  | 2, _ => sub_5_3_17_2
  | j + 3, h => absurd h (by omega)

theorem shapeR_5_3_17 : xyOK sm2Precomputed_5_3_17_Remainder (2 ^ 1 - 1) = true := by decide +kernel

theorem rem_5_3_17 : checkRem sm2Precomputed_5_3_17_Remainder 1 = true := by decide +kernel

end SMGo.Proofs.Tables
