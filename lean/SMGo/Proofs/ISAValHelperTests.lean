import SMGo.Proofs.ISAValHelperCopy
set_option linter.unusedSimpArgs false
namespace SMGo.Proofs.ISAVal
open SMGo SMGo.Model.ISAVal
open SMGo.Gen.ListAmd64Helper
open SMGo.Model.ISA (Instr)

/-- the run succeeded with this value -/
def isOk {α : Type} [DecidableEq α] (r : Except String α) (v : α) : Bool :=
  match r with
  | .ok a => decide (a = v)
  | .error _ => false

/-! ### kernel-evaluated TESTS of the routines of helper_amd64.s no non-test Go code calls -/

/-- the bytes of the dwords number `idx` of a byte string -/
def gatherWords (src : List Nat) (idx : List Nat) : List Nat := idx.flatMap (fun w => (src.drop (4 * w)).take 4)

/-- test data: 64 pairwise distinct bytes / a second pattern -/
def tdA : List Nat := List.range 64
def tdB : List Nat := (List.range 64).map (fun i => (i * 37 + 11) % 256)
def tdC : List Nat := (List.range 64).map (fun i => (i * 101 + 7) % 256)

def transposeTest (l : List Instr) (src : List Nat) (idx : List Nat) : Bool :=
  isOk (runRegion l "dst" 100 (transposeState junkG junkV junkK (List.replicate 64 0xEE) src)) (gatherWords src idx)

/-- TEST: `transpose4x4` writes the 4×4 transposition of the 16 dwords at `src` to `dst` -/
theorem test_transpose4x4 :
    (transposeTest transpose4x4 tdA [0, 4, 8, 12, 1, 5, 9, 13, 2, 6, 10, 14, 3, 7, 11, 15]
      && transposeTest transpose4x4 tdB [0, 4, 8, 12, 1, 5, 9, 13, 2, 6, 10, 14, 3, 7, 11, 15]) = true := by decide +kernel

/-- TEST: `transpose2x4` (no Go declaration) — the dwords it writes, by index into `src` -/
theorem test_transpose2x4 :
    (transposeTest transpose2x4 tdA [0, 4, 1, 5, 1, 5, 1, 5, 2, 6, 3, 7, 3, 7, 1, 5]
      && transposeTest transpose2x4 tdB [0, 4, 1, 5, 1, 5, 1, 5, 2, 6, 3, 7, 3, 7, 1, 5]) = true := by decide +kernel

/-- TEST: `transpose1x4` — the dwords it writes, by index into `src` -/
theorem test_transpose1x4 :
    (transposeTest transpose1x4 tdA [0, 1, 2, 3, 1, 1, 1, 1, 2, 2, 3, 3, 3, 3, 3, 3]
      && transposeTest transpose1x4 tdB [0, 1, 2, 3, 1, 1, 1, 1, 2, 2, 3, 3, 3, 3, 3, 3]) = true := by decide +kernel

/-- TEST: `concatenateX(X1, X2, X3, X4)` writes X1[0:16] ‖ X2[0:16] ‖ X3[0:16] ‖ X4[0:16] to the 64 bytes at `X1` -/
theorem test_concatenateX :
    (isOk (runRegion concatenateX "x1" 100 (concatXState junkG junkV junkK tdA (tdB.take 16) (tdC.take 16) (tdB.drop 48)))
        (tdA.take 16 ++ tdB.take 16 ++ tdC.take 16 ++ tdB.drop 48)
      && isOk (runRegion concatenateX "x1" 100 (concatXState junkG junkV junkK tdC (tdA.drop 20) tdB tdA))
        (tdC.take 16 ++ (tdA.drop 20).take 16 ++ tdB.take 16 ++ tdA.take 16)) = true := by decide +kernel

/-- TEST: `concatenateY(Y1, Y2)` writes Y1[0:32] ‖ Y2[0:32] to the 64 bytes at `Y1` -/
theorem test_concatenateY :
    (isOk (runRegion concatenateY "y1" 100 (concatYState junkG junkV junkK tdA tdB)) (tdA.take 32 ++ tdB.take 32)
      && isOk (runRegion concatenateY "y1" 100 (concatYState junkG junkV junkK tdC tdA)) (tdC.take 32 ++ tdA.take 32)) = true := by
  decide +kernel

/-- what `constantTimeCompareAsm(x, y, l)` is expected to leave: the OR of the byte-wise XORs in the low 32 bits of the result slot
    (0 iff equal), and x XOR y in `y` -/
def cmpExpected (x y : List Nat) (ret0 : Nat) : Nat × List Nat :=
  (ret0 - ret0 % 2 ^ 32 + (List.zipWith (· ^^^ ·) x y).foldl (· ||| ·) 0, List.zipWith (· ^^^ ·) x y)

def cmpTest (x y : List Nat) (ret0 : Nat) : Bool :=
  let s := cmpState junkG junkV junkK x y x.length ret0
  isOk (runRet constantTimeCompareAsm 1000 s) (cmpExpected x y ret0).1
    && isOk (runRegion constantTimeCompareAsm "y" 1000 s) (cmpExpected x y ret0).2

/-- TEST: `constantTimeCompareAsm` (no Go declaration) on equal and unequal inputs of lengths 0, 1, 7, 8, 9, 16, 17, 31, 64 -/
theorem test_constantTimeCompareAsm :
    ([0, 1, 7, 8, 9, 16, 17, 31, 64].all (fun n =>
      cmpTest (tdB.take n) (tdB.take n) 0xEEEE
        && cmpTest (tdB.take n) (tdC.take n) 7
        && (n == 0 || (cmpTest (tdB.take n) ((tdB.take n).set (n - 1) 0) 0 && cmpTest (tdB.take n) ((tdB.take n).set 0 ((tdB.getD 0 0) ^^^ 0x80)) 0
          && cmpTest (tdB.take n) ((tdB.take n).set (n / 2) ((tdB.getD (n / 2) 0) ^^^ 1)) (2 ^ 40 + 5))))) = true := by decide +kernel

end SMGo.Proofs.ISAVal
