/-
  Property C16: the element wrappers of `Model.Field` instantiated with the *generated Fiat functions*
  (limb lists) agree with the same wrappers over the natural-number instance `Fp` / `Fn`:
  `Bytes`, `SetBytes` (verdict and value), `Equal`/`IsZero`, `Invert`.  Together with `FiatWrappers`
  (wrappers over `montOps` are exact) this closes the chain generated code → wrappers → integers.
  Core Lean only.
-/
import SMGo.Proofs.FiatRefine
import SMGo.Model.SM2InstFiat
namespace SMGo.Proofs.FiatInst
open SMGo SMGo.Proofs.Fiat SMGo.Model.Field

/-- the field-operations records built from the generated functions: defined (core Lean, executable)
    in `SMGo/Model/SM2InstFiat.lean`, where the limb-level context `ctxFiat` is built from them -/
abbrev fiatP : FieldOps (List Nat) := Model.SM2.fiatP
abbrev fiatN : FieldOps (List Nat) := Model.SM2.fiatN

/-! ### mod p -/

theorem bytes_fiatP (e : List Nat) (he : Limbs4 e) :
    bytes fiatP e = bytes Model.SM2.Fp (eval e) := by
  show ((Gen.FiatP.sm2ToBytes (Gen.FiatP.sm2FromMontgomery e)).map UInt8.ofNat).reverse
    = (Model.SM2.Fp.toBytesLE (Model.SM2.Fp.fromMontgomery (eval e))).reverse
  rw [FiatRefine.toBytes_refines _ (FiatMontP.fromMontgomery_spec' e he).1.limbs4,
    FiatRefine.fromMontgomery_refines e he]

theorem minusOne_fiatP : minusOneEncoding fiatP = minusOneEncoding Model.SM2.Fp := by
  have hs := FiatSmallP.sub_spec _ _ FiatRefine.canon_zero_p FiatSmallP.setOne_spec.1
  show bytes fiatP (Gen.FiatP.sm2Sub [0, 0, 0, 0] Gen.FiatP.sm2SetOne) = _
  rw [bytes_fiatP _ hs.1.limbs4,
    FiatRefine.sub_refines _ _ FiatRefine.canon_zero_p FiatSmallP.setOne_spec.1,
    FiatRefine.setOne_refines]
  rfl

/-- `SetBytes` on limbs: same verdict; an accepted value is canonical and has the model's value -/
theorem setBytes_fiatP (v : Bytes) :
    (∀ x, setBytes Model.SM2.Fp v = .ok x →
      ∃ l, setBytes fiatP v = .ok l ∧ Canon Spec.SM2.p l ∧ eval l = x) ∧
    (setBytes Model.SM2.Fp v = .err → setBytes fiatP v = .err) ∧
    (setBytes Model.SM2.Fp v = .panic → setBytes fiatP v = .panic) := by
  unfold setBytes
  rw [minusOne_fiatP]
  by_cases hl : v.length ≠ 32
  · simp only [if_pos hl]
    exact ⟨fun x h => (by cases h), fun _ => trivial, fun h => (by cases h)⟩
  · simp only [if_neg hl]
    have hl' : v.reverse.length = 32 := by rw [List.length_reverse]; omega
    obtain ⟨hlimbs, hval⟩ := FiatRefine.fromBytes_refines v.reverse hl'
    have hto := FiatMontP.toMontgomery_spec' _ hlimbs
    have hre := FiatRefine.toMontgomery_refines _ hlimbs
    cases Model.Utils.constantTimeCmp (some v) (some (minusOneEncoding Model.SM2.Fp)) 32 with
    | ok c =>
      by_cases hc : c > 0
      · simp only [if_pos hc]
        exact ⟨fun x h => (by cases h), fun _ => trivial, fun h => (by cases h)⟩
      · simp only [if_neg hc]
        refine ⟨fun x h => ?_, fun h => (by cases h), fun h => (by cases h)⟩
        injection h with h
        refine ⟨_, rfl, hto.1, ?_⟩
        show eval (Gen.FiatP.sm2ToMontgomery (Gen.FiatP.sm2FromBytes (v.reverse.map UInt8.toNat))) = x
        rw [hre, hval]; exact h
    | err => exact ⟨fun x h => (by cases h), fun h => (by cases h), fun _ => rfl⟩
    | panic => exact ⟨fun x h => (by cases h), fun h => (by cases h), fun _ => rfl⟩

theorem equal_fiatP (e t : List Nat) (he : Limbs4 e) (ht : Limbs4 t) :
    equal fiatP e t = equal Model.SM2.Fp (eval e) (eval t) := by
  unfold equal; rw [bytes_fiatP e he, bytes_fiatP t ht]

theorem isZero_fiatP (e : List Nat) (he : Limbs4 e) :
    isZero fiatP e = isZero Model.SM2.Fp (eval e) := by
  unfold isZero
  rw [bytes_fiatP e he, bytes_fiatP fiatP.zero FiatRefine.canon_zero_p.limbs4]
  rfl

theorem invert_fiatP (x : List Nat) (hx : Canon Spec.SM2.p x) :
    Canon Spec.SM2.p (invert fiatP x) ∧ eval (invert fiatP x) = invert Model.SM2.Fp (eval x) :=
  FiatRefine.invert_refines x hx

/-! ### mod n -/

theorem bytes_fiatN (e : List Nat) (he : Limbs4 e) :
    bytes fiatN e = bytes Model.SM2.Fn (eval e) := by
  show ((Gen.FiatN.sm2ScalarToBytes (Gen.FiatN.sm2ScalarFromMontgomery e)).map UInt8.ofNat).reverse
    = (Model.SM2.Fn.toBytesLE (Model.SM2.Fn.fromMontgomery (eval e))).reverse
  rw [FiatRefine.scalarToBytes_refines _ (FiatMontN.fromMontgomery_spec' e he).1.limbs4,
    FiatRefine.scalarFromMontgomery_refines e he]

theorem minusOne_fiatN : minusOneEncoding fiatN = minusOneEncoding Model.SM2.Fn := by
  have hs := FiatSmallN.sub_spec _ _ FiatRefine.canon_zero_n FiatSmallN.setOne_spec.1
  show bytes fiatN (Gen.FiatN.sm2ScalarSub [0, 0, 0, 0] Gen.FiatN.sm2ScalarSetOne) = _
  rw [bytes_fiatN _ hs.1.limbs4,
    FiatRefine.scalarSub_refines _ _ FiatRefine.canon_zero_n FiatSmallN.setOne_spec.1,
    FiatRefine.scalarSetOne_refines]
  rfl

theorem setBytes_fiatN (v : Bytes) :
    (∀ x, setBytes Model.SM2.Fn v = .ok x →
      ∃ l, setBytes fiatN v = .ok l ∧ Canon Spec.SM2.n l ∧ eval l = x) ∧
    (setBytes Model.SM2.Fn v = .err → setBytes fiatN v = .err) ∧
    (setBytes Model.SM2.Fn v = .panic → setBytes fiatN v = .panic) := by
  unfold setBytes
  rw [minusOne_fiatN]
  by_cases hl : v.length ≠ 32
  · simp only [if_pos hl]
    exact ⟨fun x h => (by cases h), fun _ => trivial, fun h => (by cases h)⟩
  · simp only [if_neg hl]
    have hl' : v.reverse.length = 32 := by rw [List.length_reverse]; omega
    obtain ⟨hlimbs, hval⟩ := FiatRefine.scalarFromBytes_refines v.reverse hl'
    have hto := FiatMontN.toMontgomery_spec' _ hlimbs
    have hre := FiatRefine.scalarToMontgomery_refines _ hlimbs
    cases Model.Utils.constantTimeCmp (some v) (some (minusOneEncoding Model.SM2.Fn)) 32 with
    | ok c =>
      by_cases hc : c > 0
      · simp only [if_pos hc]
        exact ⟨fun x h => (by cases h), fun _ => trivial, fun h => (by cases h)⟩
      · simp only [if_neg hc]
        refine ⟨fun x h => ?_, fun h => (by cases h), fun h => (by cases h)⟩
        injection h with h
        refine ⟨_, rfl, hto.1, ?_⟩
        show eval (Gen.FiatN.sm2ScalarToMontgomery (Gen.FiatN.sm2ScalarFromBytes (v.reverse.map UInt8.toNat))) = x
        rw [hre, hval]; exact h
    | err => exact ⟨fun x h => (by cases h), fun h => (by cases h), fun _ => rfl⟩
    | panic => exact ⟨fun x h => (by cases h), fun h => (by cases h), fun _ => rfl⟩

/-- the scalar wrapper (the same code as `setBytes`) on limbs -/
theorem scalarSetBytes_fiatN (v : Bytes) :
    (∀ x, scalarSetBytes Model.SM2.Fn v = .ok x →
      ∃ l, scalarSetBytes fiatN v = .ok l ∧ Canon Spec.SM2.n l ∧ eval l = x) ∧
    (scalarSetBytes Model.SM2.Fn v = .err → scalarSetBytes fiatN v = .err) := by
  rw [FiatWrappers.scalarSetBytes_eq_setBytes, FiatWrappers.scalarSetBytes_eq_setBytes]
  exact ⟨(setBytes_fiatN v).1, (setBytes_fiatN v).2.1⟩

theorem equal_fiatN (e t : List Nat) (he : Limbs4 e) (ht : Limbs4 t) :
    equal fiatN e t = equal Model.SM2.Fn (eval e) (eval t) := by
  unfold equal; rw [bytes_fiatN e he, bytes_fiatN t ht]

theorem isZero_fiatN (e : List Nat) (he : Limbs4 e) :
    isZero fiatN e = isZero Model.SM2.Fn (eval e) := by
  unfold isZero
  rw [bytes_fiatN e he, bytes_fiatN fiatN.zero FiatRefine.canon_zero_n.limbs4]
  rfl

theorem invert_fiatN (x : List Nat) (hx : Canon Spec.SM2.n x) :
    Canon Spec.SM2.n (invert fiatN x) ∧ eval (invert fiatN x) = invert Model.SM2.Fn (eval x) :=
  FiatRefine.scalarInvert_refines x hx

end SMGo.Proofs.FiatInst
