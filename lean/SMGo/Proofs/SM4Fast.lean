/-
  The table-driven SM4 of `Spec/SM4Fast.lean` (what the model driver executes under GCM) is the
  specification `Spec.SM4.crypt`: the tabulated S-box `sboxArray = Array.ofFn (sboxAlg ·)` returns
  `sbox b` at every byte, hence τ, the round function and the whole block function coincide.
-/
import SMGo.Spec.SM4Fast
namespace SMGo.Proofs.SM4Fast
open SMGo SMGo.Spec.SM4

/-- the lookup lemma: entry `b` of the table is the algebraic S-box at `b` -/
theorem sboxF_eq (b : UInt8) : sboxF b = sbox b := by
  have hb : b.toNat < 256 := UInt8.toNat_lt b
  simp [sboxF, sbox, sboxArray, Array.getD, hb]

theorem tauF_eq (a : W32) : tauF a = tau a := by
  simp [tauF, tau, sboxF_eq]

theorem roundStepF_eq (s : W32 × W32 × W32 × W32) (rk : W32) : roundStepF s rk = roundStep s rk := by
  obtain ⟨x0, x1, x2, x3⟩ := s
  simp [roundStepF, roundStep, T, tauF_eq]

theorem roundStepF_fun : roundStepF = roundStep := by
  funext s rk; exact roundStepF_eq s rk

/-- the oracle the driver runs is the specification -/
theorem cryptFast_eq (rk : List W32) (b : Bytes) : cryptFast rk b = crypt rk b := by
  simp [cryptFast, crypt, roundStepF_fun]

theorem cryptFast_fun (rk : List W32) : cryptFast rk = crypt rk := by
  funext b; exact cryptFast_eq rk b

end SMGo.Proofs.SM4Fast

#print axioms SMGo.Proofs.SM4Fast.cryptFast_eq
