import SMGo.Proofs.ISAValFusedPhaseA
set_option linter.unusedSimpArgs false
namespace SMGo.Proofs.ISAVal
open SMGo.Model.ISAVal SMGo.Model.GCM SMGo.Proofs.GCM SMGo.Proofs.ISATouch
open SMGo.Model.ISA (Reg Opd Instr)

/-- the machine state at the end of the common prefix (instruction 1499) for a nonce whose pre-counter block is `jb`:
    what the rest of `sealAsm` / `openAsm` starts from -/
structure AfterPre (Mf : List Nat → List Region) (rk nonce aad jb : List Nat) (np tp ap : Nat) (s : State) : Prop where
  pc : PCtx s
  env : FEnv s rk np tp ap nonce aad
  gh : GhCtx (hKey rk) s
  rkp : greg s 15 = 73014444032
  j0 : vreg s 14 = unlanes 8 jb
  tmask : vreg s 15 = unlanes 8 (encB rk jb)
  tag : vreg s 21 = ghUpdN (hKey rk) 0 aad
  taglt : vreg s 21 < 2 ^ 128
  mem : ∃ b, b.length = 32 ∧ s.mem = Mf b
  scratch : greg s 6 = tp ∨ greg s 6 = tp + 16

/-- all labels of the common prefix that the 12-byte path uses -/
structure PreLabels12 (r : Routine) : Prop where
  lJ : findPc r 4841 = some (r.drop 814)
  lb : SPreLabels r
  lc : SPreCopyLabels r

set_option maxRecDepth 100000 in
/-- **the common prefix of `sealAsm` and `openAsm` (instructions 0 … 1498) for a 12-byte nonce and ANY additional data** -/
theorem prefix_nonce12 (r : Routine) (ps : PrefixSlices r) (pl : PreLabels12 r)
    (s0 : State) (hG : s0.gpr.length = 16) (hV : s0.vec.length = 32) (hK : s0.kreg.length = 8)
    (rk nonce aad : List Nat) (np tp ap : Nat) (e : FEnv s0 rk np tp ap nonce aad)
    (Mf : List Nat → List Region) (mf : MemFam Mf tp rk np ap nonce aad) (b0 : List Nat) (hb0 : b0.length = 32) (hm0 : s0.mem = Mf b0)
    (hrk : rk.length = 32) (hrkb : ∀ x ∈ rk, x < 2 ^ 32) (hn : nonce.length = 12) (hnb : ∀ x ∈ nonce, x < 2 ^ 8) (hnp : np + 16 < 2 ^ 63)
    (hab : ∀ x ∈ aad, x < 2 ^ 8) (hap : ap + aad.length < 2 ^ 63) (htp : tp + 32 < 2 ^ 63) :
    ∃ s5 N, N ≤ 34 * (aad.length / 16) + 1400 ∧ Reach r 0 s0 1499 s5 N ∧ AfterPre Mf rk nonce aad (nonce ++ [0, 0, 0, 1]) np tp ap s5 ∧
      s5.frame = s0.frame := by
  obtain ⟨s1, r1, p1, e1, h19, g1, m1⟩ := phaseH r ps s0 hG hV hK rk np tp ap nonce aad e hrk hrkb
  obtain ⟨s2, r2, p2, e2, gc2, g2, m2⟩ := phaseGh r ps s1 rk np tp ap nonce aad p1 e1 h19 g1
  obtain ⟨s3, r3, p3, e3, gc3, g3, v14, v6, g36, m3⟩ := phaseJ0_12 r ps pl.lJ s2 rk np tp ap nonce aad p2 e2 _ gc2 g2 hn hnb hnp
  have hjb : (nonce ++ [0, 0, 0, 1]).length = 16 := by simp [hn]
  have hjbb : ∀ x ∈ nonce ++ [0, 0, 0, 1], x < 2 ^ 8 := by
    intro x hx
    rw [List.mem_append] at hx
    rcases hx with h1 | h1
    · exact hnb x h1
    · simp only [List.mem_cons, List.not_mem_nil, or_false] at h1
      rcases h1 with rfl | rfl | rfl | rfl <;> decide
  obtain ⟨s4, r4, p4, e4, gc4, g4, v15, k14, k46, m4⟩ := phaseT r ps s3 rk np tp ap nonce aad p3 e3 _ gc3 g3 hrk hrkb _ hjb hjbb v6
  -- memory has not changed so far
  have hm4 : s4.mem = Mf b0 := by rw [m4.1, m3.1, m2.1, m1.1]; exact hm0
  obtain ⟨s5, N, b5, hN, r5, m5, hb5, p5, e5, gc5, v21, lt21, g56, k5⟩ := phaseA r ps pl.lb pl.lc s4 rk np tp ap nonce aad p4 e4 _ gc4 Mf mf
    b0 hb0 hm4 0 (Or.inl rfl) (by rw [k46, g36]; rfl) htp hab hap
  refine ⟨s5, 549 + 79 + 15 + 530 + N, by omega, ((((r1.trans r2).trans r3).trans r4).trans r5).cast rfl rfl,
    ⟨p5, e5, gc5, ?_, ?_, ?_, v21, lt21, ⟨b5, hb5, m5⟩, ?_⟩, by rw [k5.frame, m4.2, m3.2, m2.2, m1.2]⟩
  · rw [k5.g 15 (by decide)]; exact g4
  · rw [k5.v 14 (by decide), k14]; exact v14
  · rw [k5.v 15 (by decide)]; exact v15
  · rw [g56]; by_cases h0 : aad.length % 16 = 0
    · rw [if_pos h0]; exact Or.inl rfl
    · rw [if_neg h0]; exact Or.inr rfl

end SMGo.Proofs.ISAVal
