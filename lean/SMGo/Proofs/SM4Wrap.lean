/-
  Lemmas for Props/C05Wrap.lean: closed forms of the slice-level SM4 wrappers of
  `SMGo.Model.SM4Wrap` (what the heap is after the call) and what a single block store does to the
  heap.  Core Lean only.
-/
import SMGo.Model.SM4Wrap
import SMGo.Proofs.Slice
import SMGo.Proofs.GCMGlueContract
namespace SMGo.Proofs.SM4Wrap
open SMGo SMGo.Model SMGo.Model.Mem SMGo.Model.SM4Wrap SMGo.Proofs.Slice
open SMGo.Proofs.GCMGlue (InRegion UnchangedOutside)

/-! ### lists -/

theorem take_words4 (l : Bytes) :
    l.take 4 ++ (l.drop 4).take 4 ++ (l.drop 8).take 4 ++ (l.drop 12).take 4 = l.take 16 := by
  rw [show (16 : Nat) = 4 + (4 + (4 + 4)) from rfl, List.take_add, List.take_add, List.take_add]
  simp [List.drop_drop, List.append_assoc]

theorem take_words8 (l : Bytes) :
    l.take 4 ++ (l.drop 4).take 4 ++ (l.drop 8).take 4 ++ (l.drop 12).take 4 ++ (l.drop 16).take 4
      ++ (l.drop 20).take 4 ++ (l.drop 24).take 4 ++ (l.drop 28).take 4 = l.take 32 := by
  rw [show (32 : Nat) = 4 + (4 + (4 + (4 + (4 + (4 + (4 + 4)))))) from rfl, List.take_add,
    List.take_add, List.take_add, List.take_add, List.take_add, List.take_add, List.take_add]
  simp [List.drop_drop, List.append_assoc]

theorem splice_splice_adj (l : Bytes) (off : Nat) (bs1 bs2 : Bytes)
    (hfit : off + bs1.length ≤ l.length) :
    splice (splice l off bs1) (off + bs1.length) bs2 = splice l off (bs1 ++ bs2) := by
  apply List.ext_getElem?
  intro i
  have hl : (splice l off bs1).length = l.length := length_splice l off bs1 hfit
  rw [getElem?_splice _ _ _ (by omega), getElem?_splice _ _ _ (by omega),
    getElem?_splice _ _ _ (by omega), List.length_append]
  by_cases h1 : i < off
  · have h2 : i < off + bs1.length := by omega
    simp [h1, h2]
  · by_cases h2 : i < off + bs1.length
    · have h3 : i < off + (bs1.length + bs2.length) := by omega
      have h4 : i - off < bs1.length := by omega
      simp [h1, h2, h3, List.getElem?_append_left h4]
    · by_cases h3 : i < off + bs1.length + bs2.length
      · have h4 : i < off + (bs1.length + bs2.length) := by omega
        have h5 : bs1.length ≤ i - off := by omega
        have h6 : i - (off + bs1.length) = i - off - bs1.length := by omega
        simp [h1, h2, h3, h4, List.getElem?_append_right h5, h6]
      · have h4 : ¬ i < off + (bs1.length + bs2.length) := by omega
        simp [h1, h2, h3, h4]

theorem splice_splice_same (l : Bytes) (off : Nat) (bs1 bs2 : Bytes)
    (hfit : off + bs1.length ≤ l.length) (hlen : bs1.length = bs2.length) :
    splice (splice l off bs1) off bs2 = splice l off bs2 := by
  apply List.ext_getElem?
  intro i
  rw [getElem?_splice _ _ _ (by rw [length_splice l off bs1 hfit]; omega),
    getElem?_splice _ _ _ (by omega), getElem?_splice _ _ _ (by omega)]
  by_cases h1 : i < off
  · simp [h1]
  · by_cases h2 : i < off + bs2.length
    · simp [h1, h2]
    · have h3 : ¬ i < off + bs1.length := by omega
      simp [h1, h2, h3]

theorem splice_self (l : Bytes) (off n : Nat) (hfit : off + n ≤ l.length) :
    splice l off ((l.drop off).take n) = l := by
  apply List.ext_getElem?
  intro i
  have hlen : ((l.drop off).take n).length = n := by simp [List.length_take, List.length_drop]; omega
  rw [getElem?_splice _ _ _ (by omega), hlen]
  by_cases h1 : i < off
  · simp [h1]
  · by_cases h2 : i < off + n
    · have h3 : i - off < n := by omega
      have h4 : off + (i - off) = i := by omega
      simp [h1, h2, h3, List.getElem?_drop, h4]
    · simp [h1, h2]

/-! ### heaps -/

theorem poke_poke_adj (h : Heap) (a off off2 : Nat) (bs1 bs2 : Bytes) (ha : a < h.length)
    (hfit : off + bs1.length ≤ (arrayOf h a).length) (hoff : off2 = off + bs1.length) :
    poke (poke h a off bs1) a off2 bs2 = poke h a off (bs1 ++ bs2) := by
  subst hoff
  have e : arrayOf (poke h a off bs1) a = splice (arrayOf h a) off bs1 := arrayOf_poke_same h a off bs1 ha
  show (poke h a off bs1).set a (splice (arrayOf (poke h a off bs1) a) (off + bs1.length) bs2) = _
  rw [e, splice_splice_adj _ _ _ _ hfit]
  simp [poke, List.set_set]

theorem poke_poke_same (h : Heap) (a off : Nat) (bs1 bs2 : Bytes) (ha : a < h.length)
    (hfit : off + bs1.length ≤ (arrayOf h a).length) (hlen : bs1.length = bs2.length) :
    poke (poke h a off bs1) a off bs2 = poke h a off bs2 := by
  have e : arrayOf (poke h a off bs1) a = splice (arrayOf h a) off bs1 := arrayOf_poke_same h a off bs1 ha
  show (poke h a off bs1).set a (splice (arrayOf (poke h a off bs1) a) off bs2) = _
  rw [e, splice_splice_same _ _ _ _ hfit hlen]
  simp [poke, List.set_set]

theorem poke_self (h : Heap) (a off n : Nat) (ha : a < h.length)
    (hfit : off + n ≤ (arrayOf h a).length) :
    poke h a off (((arrayOf h a).drop off).take n) = h := by
  unfold poke
  rw [splice_self _ _ _ hfit]
  apply List.ext_getElem?
  intro i
  rw [List.getElem?_set]
  by_cases hi : a = i
  · subst hi; simp [ha, arrayOf]
  · simp [hi]

/-- array `a` exists in `h` and has at least `n` bytes -/
def Fits (h : Heap) (a n : Nat) : Prop := a < h.length ∧ n ≤ (arrayOf h a).length

theorem Fits_poke (h : Heap) (a n off : Nat) (bs : Bytes) (hf : Fits h a n)
    (hb : off + bs.length ≤ (arrayOf h a).length) : Fits (poke h a off bs) a n :=
  ⟨by rw [length_poke]; exact hf.1, by rw [length_arrayOf_poke h a a off bs hb]; exact hf.2⟩

/-! ### the accessors -/

theorem loadWord_ok (h : Heap) (x : Slice) (a i : Nat) (hx : x.arr = some a)
    (hf : Fits h a (x.off + x.cap)) (hi : i + 4 ≤ x.cap) :
    loadWord h x i = .ok (((arrayOf h a).drop (x.off + i)).take 4) := by
  have h1 : i + 4 ≤ x.cap := hi
  have h2 : a < h.length ∧ x.off + i + 4 ≤ (arrayOf h a).length := ⟨hf.1, by have := hf.2; omega⟩
  simp [loadWord, reslice, h1, load, ptrOf, hx, readPtr, h2]

theorem storeWord_ok (h : Heap) (y : Slice) (b i : Nat) (w : Bytes) (hy : y.arr = some b)
    (hf : Fits h b (y.off + y.cap)) (hi : i + 4 ≤ y.cap) (hw : w.length = 4) :
    storeWord h y i w = .ok (poke h b (y.off + i) w) := by
  have h1 : i + 4 ≤ y.cap := hi
  have h2 : b < h.length ∧ y.off + i + 4 ≤ (arrayOf h b).length :=
    ⟨hf.1, by have := hf.2; omega⟩
  have h3 : w.isEmpty = false := by
    cases w with
    | nil => simp at hw
    | cons _ _ => rfl
  simp [storeWord, reslice, h1, store, ptrOf, hy, writePtr, writeAt, h2, h3, hw]

theorem length_word (out : Bytes) (i : Nat) (hi : i + 4 ≤ out.length) : (word out i).length = 4 := by
  simp [word, List.length_take, List.length_drop]; omega

/-! ### cryptoBlock, cryptoBlockX2 on slices: closed forms -/

/-- `cryptoBlockK` reads `x[0:16]`, then stores the 16 bytes `k` makes of them at `y[0:16]` -/
theorem cryptoBlockK_ok (k : Bytes → Bytes) (h : Heap) (x y : Slice) (a b : Nat)
    (hx : x.arr = some a) (hfx : Fits h a (x.off + x.cap)) (hxc : 16 ≤ x.cap)
    (hy : y.arr = some b) (hfy : Fits h b (y.off + y.cap)) (hyc : 16 ≤ y.cap)
    (hk : (k (((arrayOf h a).drop x.off).take 16)).length = 16) :
    cryptoBlockK k h x y = .ok (poke h b y.off (k (((arrayOf h a).drop x.off).take 16))) := by
  unfold cryptoBlockK
  rw [loadWord_ok h x a 0 hx hfx (by omega), Outcome.bind_ok,
    loadWord_ok h x a 4 hx hfx (by omega), Outcome.bind_ok,
    loadWord_ok h x a 8 hx hfx (by omega), Outcome.bind_ok,
    loadWord_ok h x a 12 hx hfx (by omega), Outcome.bind_ok]
  have hin : List.take 4 (List.drop (x.off + 0) (arrayOf h a)) ++ List.take 4 (List.drop (x.off + 4) (arrayOf h a))
      ++ List.take 4 (List.drop (x.off + 8) (arrayOf h a)) ++ List.take 4 (List.drop (x.off + 12) (arrayOf h a))
      = ((arrayOf h a).drop x.off).take 16 := by
    rw [← take_words4]; simp [List.drop_drop]
  rw [hin]
  generalize k (((arrayOf h a).drop x.off).take 16) = out at hk ⊢
  have hb := hfy.2
  have w0 := length_word out 0 (by omega)
  have w4 := length_word out 4 (by omega)
  have w8 := length_word out 8 (by omega)
  have w12 := length_word out 12 (by omega)
  have f1 := Fits_poke h b _ (y.off + 0) (word out 0) hfy (by omega)
  have f2 := Fits_poke _ b _ (y.off + 4) (word out 4) f1 (by have := f1.2; omega)
  have f3 := Fits_poke _ b _ (y.off + 8) (word out 8) f2 (by have := f2.2; omega)
  show (storeWord h y 0 (word out 0) >>= fun h1 => storeWord h1 y 4 (word out 4) >>= fun h2 =>
    storeWord h2 y 8 (word out 8) >>= fun h3 => storeWord h3 y 12 (word out 12)) = _
  rw [storeWord_ok h y b 0 _ hy hfy (by omega) w0, Outcome.bind_ok,
    storeWord_ok _ y b 4 _ hy f1 (by omega) w4, Outcome.bind_ok,
    storeWord_ok _ y b 8 _ hy f2 (by omega) w8, Outcome.bind_ok,
    storeWord_ok _ y b 12 _ hy f3 (by omega) w12]
  rw [poke_poke_adj h b (y.off + 0) (y.off + 4) (word out 0) (word out 4) hfy.1 (by omega) (by omega),
    poke_poke_adj h b (y.off + 0) (y.off + 8) (word out 0 ++ word out 4) (word out 8) hfy.1
      (by simp only [List.length_append]; omega) (by simp only [List.length_append]; omega),
    poke_poke_adj h b (y.off + 0) (y.off + 12) (word out 0 ++ word out 4 ++ word out 8) (word out 12) hfy.1
      (by simp only [List.length_append]; omega) (by simp only [List.length_append]; omega)]
  have hout : word out 0 ++ word out 4 ++ word out 8 ++ word out 12 = out := by
    have e : out.take 16 = out := List.take_of_length_le (by omega)
    have := take_words4 out
    rw [e] at this
    simpa [word] using this
  rw [hout]; rfl

/-- `cryptoBlockX2K` reads `x[0:32]`, then stores the 32 bytes `k` makes of them at `y[0:32]` -/
theorem cryptoBlockX2K_ok (k : Bytes → Bytes) (h : Heap) (x y : Slice) (a b : Nat)
    (hx : x.arr = some a) (hfx : Fits h a (x.off + x.cap)) (hxc : 32 ≤ x.cap)
    (hy : y.arr = some b) (hfy : Fits h b (y.off + y.cap)) (hyc : 32 ≤ y.cap)
    (hk : (k (((arrayOf h a).drop x.off).take 32)).length = 32) :
    cryptoBlockX2K k h x y = .ok (poke h b y.off (k (((arrayOf h a).drop x.off).take 32))) := by
  unfold cryptoBlockX2K
  rw [loadWord_ok h x a 0 hx hfx (by omega), Outcome.bind_ok,
    loadWord_ok h x a 4 hx hfx (by omega), Outcome.bind_ok,
    loadWord_ok h x a 8 hx hfx (by omega), Outcome.bind_ok,
    loadWord_ok h x a 12 hx hfx (by omega), Outcome.bind_ok,
    loadWord_ok h x a 16 hx hfx (by omega), Outcome.bind_ok,
    loadWord_ok h x a 20 hx hfx (by omega), Outcome.bind_ok,
    loadWord_ok h x a 24 hx hfx (by omega), Outcome.bind_ok,
    loadWord_ok h x a 28 hx hfx (by omega), Outcome.bind_ok]
  have hin : List.take 4 (List.drop (x.off + 0) (arrayOf h a)) ++ List.take 4 (List.drop (x.off + 4) (arrayOf h a))
      ++ List.take 4 (List.drop (x.off + 8) (arrayOf h a)) ++ List.take 4 (List.drop (x.off + 12) (arrayOf h a))
      ++ List.take 4 (List.drop (x.off + 16) (arrayOf h a)) ++ List.take 4 (List.drop (x.off + 20) (arrayOf h a))
      ++ List.take 4 (List.drop (x.off + 24) (arrayOf h a)) ++ List.take 4 (List.drop (x.off + 28) (arrayOf h a))
      = ((arrayOf h a).drop x.off).take 32 := by
    rw [← take_words8]; simp [List.drop_drop]
  rw [hin]
  generalize k (((arrayOf h a).drop x.off).take 32) = out at hk ⊢
  have hb := hfy.2
  have w0 := length_word out 0 (by omega)
  have w4 := length_word out 4 (by omega)
  have w8 := length_word out 8 (by omega)
  have w12 := length_word out 12 (by omega)
  have w16 := length_word out 16 (by omega)
  have w20 := length_word out 20 (by omega)
  have w24 := length_word out 24 (by omega)
  have w28 := length_word out 28 (by omega)
  have f1 := Fits_poke h b _ (y.off + 0) (word out 0) hfy (by omega)
  have f2 := Fits_poke _ b _ (y.off + 4) (word out 4) f1 (by have := f1.2; omega)
  have f3 := Fits_poke _ b _ (y.off + 8) (word out 8) f2 (by have := f2.2; omega)
  have f4 := Fits_poke _ b _ (y.off + 12) (word out 12) f3 (by have := f3.2; omega)
  have f5 := Fits_poke _ b _ (y.off + 16) (word out 16) f4 (by have := f4.2; omega)
  have f6 := Fits_poke _ b _ (y.off + 20) (word out 20) f5 (by have := f5.2; omega)
  have f7 := Fits_poke _ b _ (y.off + 24) (word out 24) f6 (by have := f6.2; omega)
  show (storeWord h y 0 (word out 0) >>= fun h1 => storeWord h1 y 4 (word out 4) >>= fun h2 =>
    storeWord h2 y 8 (word out 8) >>= fun h3 => storeWord h3 y 12 (word out 12) >>= fun h4 =>
    storeWord h4 y 16 (word out 16) >>= fun h5 => storeWord h5 y 20 (word out 20) >>= fun h6 =>
    storeWord h6 y 24 (word out 24) >>= fun h7 => storeWord h7 y 28 (word out 28)) = _
  rw [storeWord_ok h y b 0 _ hy hfy (by omega) w0, Outcome.bind_ok,
    storeWord_ok _ y b 4 _ hy f1 (by omega) w4, Outcome.bind_ok,
    storeWord_ok _ y b 8 _ hy f2 (by omega) w8, Outcome.bind_ok,
    storeWord_ok _ y b 12 _ hy f3 (by omega) w12, Outcome.bind_ok,
    storeWord_ok _ y b 16 _ hy f4 (by omega) w16, Outcome.bind_ok,
    storeWord_ok _ y b 20 _ hy f5 (by omega) w20, Outcome.bind_ok,
    storeWord_ok _ y b 24 _ hy f6 (by omega) w24, Outcome.bind_ok,
    storeWord_ok _ y b 28 _ hy f7 (by omega) w28]
  rw [poke_poke_adj h b (y.off + 0) (y.off + 4) (word out 0) (word out 4) hfy.1 (by omega) (by omega),
    poke_poke_adj h b (y.off + 0) (y.off + 8) (word out 0 ++ word out 4) (word out 8) hfy.1
      (by simp only [List.length_append]; omega) (by simp only [List.length_append]; omega),
    poke_poke_adj h b (y.off + 0) (y.off + 12) (word out 0 ++ word out 4 ++ word out 8) (word out 12) hfy.1
      (by simp only [List.length_append]; omega) (by simp only [List.length_append]; omega),
    poke_poke_adj h b (y.off + 0) (y.off + 16) (word out 0 ++ word out 4 ++ word out 8 ++ word out 12) (word out 16) hfy.1
      (by simp only [List.length_append]; omega) (by simp only [List.length_append]; omega),
    poke_poke_adj h b (y.off + 0) (y.off + 20) (word out 0 ++ word out 4 ++ word out 8 ++ word out 12 ++ word out 16) (word out 20) hfy.1
      (by simp only [List.length_append]; omega) (by simp only [List.length_append]; omega),
    poke_poke_adj h b (y.off + 0) (y.off + 24) (word out 0 ++ word out 4 ++ word out 8 ++ word out 12 ++ word out 16 ++ word out 20) (word out 24) hfy.1
      (by simp only [List.length_append]; omega) (by simp only [List.length_append]; omega),
    poke_poke_adj h b (y.off + 0) (y.off + 28) (word out 0 ++ word out 4 ++ word out 8 ++ word out 12 ++ word out 16 ++ word out 20 ++ word out 24) (word out 28) hfy.1
      (by simp only [List.length_append]; omega) (by simp only [List.length_append]; omega)]
  have hout : word out 0 ++ word out 4 ++ word out 8 ++ word out 12 ++ word out 16 ++ word out 20
      ++ word out 24 ++ word out 28 = out := by
    have e : out.take 32 = out := List.take_of_length_le (by omega)
    have := take_words8 out
    rw [e] at this
    simpa [word] using this
  rw [hout]; rfl

/-! ### the wrappers: closed forms -/

/-- a well-formed slice that shows at least one byte has an array, and its capacity fits in it -/
theorem arr_of_len_pos (h : Heap) (s : Slice) (hwf : WF h s) (hl : 0 < s.len) :
    ∃ a, s.arr = some a ∧ Fits h a (s.off + s.cap) ∧ s.len ≤ s.cap := by
  have hc : s.len ≤ s.cap := hwf.1
  obtain ⟨a, h1, h2, h3⟩ := arr_of_cap_pos h s hwf (by omega)
  exact ⟨a, h1, ⟨h2, h3⟩, hc⟩

theorem read_prefix (h : Heap) (s : Slice) (a n : Nat) (hs : s.arr = some a) :
    read h { s with len := n } = ((arrayOf h a).drop s.off).take n := by
  simp [Mem.read, hs]

theorem cryptK_panic (k : Bytes → Bytes) (h : Heap) (dst src : Slice)
    (hbad : src.len < 16 ∨ dst.len < 16) : cryptK k h dst src = .panic := by
  unfold cryptK blockSize
  by_cases h1 : src.len < 16
  · simp [h1]
  · rcases hbad with hb | hb
    · exact absurd hb h1
    · simp [h1, hb]

theorem cryptAsmK_panic (k : Bytes → Bytes) (h : Heap) (dst src : Slice)
    (hbad : src.len < 16 ∨ dst.len < 16) : cryptAsmK k h dst src = .panic := by
  unfold cryptAsmK blockSize
  by_cases h1 : src.len < 16
  · simp [h1]
  · rcases hbad with hb | hb
    · exact absurd hb h1
    · simp [h1, hb]

/-- both tests pass: `src[:16]` is read, then `k` of it is stored at `dst[:16]` -/
theorem cryptK_ok (k : Bytes → Bytes) (h : Heap) (dst src : Slice) (a b : Nat)
    (hs : src.arr = some a) (hfs : Fits h a (src.off + src.cap)) (hsl : 16 ≤ src.len)
    (hsc : src.len ≤ src.cap)
    (hd : dst.arr = some b) (hfd : Fits h b (dst.off + dst.cap)) (hdl : 16 ≤ dst.len)
    (hdc : dst.len ≤ dst.cap)
    (hk : (k (read h { src with len := 16 })).length = 16) :
    cryptK k h dst src = .ok (poke h b dst.off (k (read h { src with len := 16 }))) := by
  rw [read_prefix h src a 16 hs] at hk ⊢
  unfold cryptK blockSize
  rw [if_neg (by omega), if_neg (by omega), reslice_prefix src 16 (by omega), Outcome.bind_ok,
    reslice_prefix dst 16 (by omega), Outcome.bind_ok]
  exact cryptoBlockK_ok k h { src with len := 16 } { dst with len := 16 } a b hs hfs (by show 16 ≤ src.cap; omega)
    hd hfd (by show 16 ≤ dst.cap; omega) hk

/-- the assembly wrappers reach the same heap (given the read-then-write kernel) -/
theorem cryptAsmK_ok (k : Bytes → Bytes) (h : Heap) (dst src : Slice) (a b : Nat)
    (hs : src.arr = some a) (hfs : Fits h a (src.off + src.cap)) (hsl : 16 ≤ src.len)
    (hsc : src.len ≤ src.cap)
    (hd : dst.arr = some b) (hfd : Fits h b (dst.off + dst.cap)) (hdl : 16 ≤ dst.len)
    (hdc : dst.len ≤ dst.cap)
    (hk : (k (read h { src with len := 16 })).length = 16) :
    cryptAsmK k h dst src = .ok (poke h b dst.off (k (read h { src with len := 16 }))) := by
  rw [read_prefix h src a 16 hs] at hk ⊢
  unfold cryptAsmK blockSize
  rw [if_neg (by omega), if_neg (by omega), addrOf_ok dst b 0 hd (by omega), Outcome.bind_ok,
    addrOf_ok src a 0 hs (by omega), Outcome.bind_ok]
  have h2 : a < h.length ∧ src.off + 16 ≤ (arrayOf h a).length := ⟨hfs.1, by have := hfs.2; omega⟩
  have hr : readPtr h (some (a, src.off + 0)) 16 = .ok (((arrayOf h a).drop src.off).take 16) := by
    simp [readPtr, h2]
  unfold cryptoBlockAsm blockSize
  rw [hr, Outcome.bind_ok]
  generalize k (((arrayOf h a).drop src.off).take 16) = out at hk ⊢
  have h3 : out.isEmpty = false := by
    cases out with
    | nil => simp at hk
    | cons _ _ => rfl
  have h4 : b < h.length ∧ dst.off + out.length ≤ (arrayOf h b).length :=
    ⟨hfd.1, by have := hfd.2; omega⟩
  simp [writePtr, writeAt, h3, h4]

theorem cryptX2K_panic (k : Bytes → Bytes) (h : Heap) (dst src : Slice)
    (hbad : src.cap < 32 ∨ dst.cap < 32) : cryptX2K k h dst src = .panic := by
  unfold cryptX2K blockSize
  by_cases h1 : src.cap < 32
  · have : ¬ 32 ≤ src.cap := by omega
    simp [reslice, this]
  · rcases hbad with hb | hb
    · exact absurd hb h1
    · have h2 : 32 ≤ src.cap := by omega
      have h3 : ¬ 32 ≤ dst.cap := by omega
      simp [reslice, h2, h3]

/-- `encryptX2`/`decryptX2`: both capacities reach 32: `src[:32]` is read, then `k` of it stored
    at `dst[:32]` -/
theorem cryptX2K_ok (k : Bytes → Bytes) (h : Heap) (dst src : Slice) (a b : Nat)
    (hs : src.arr = some a) (hfs : Fits h a (src.off + src.cap)) (hsc : 32 ≤ src.cap)
    (hd : dst.arr = some b) (hfd : Fits h b (dst.off + dst.cap)) (hdc : 32 ≤ dst.cap)
    (hk : (k (read h { src with len := 32 })).length = 32) :
    cryptX2K k h dst src = .ok (poke h b dst.off (k (read h { src with len := 32 }))) := by
  rw [read_prefix h src a 32 hs] at hk ⊢
  unfold cryptX2K blockSize
  rw [reslice_prefix src (2 * 16) (by omega), Outcome.bind_ok,
    reslice_prefix dst (2 * 16) (by omega), Outcome.bind_ok]
  exact cryptoBlockX2K_ok k h { src with len := 32 } { dst with len := 32 } a b hs hfs hsc hd hfd hdc hk

/-! ### what one block store does to the heap -/

theorem read_poke_self (h : Heap) (s : Slice) (b : Nat) (bs : Bytes) (hs : s.arr = some b)
    (hb : b < h.length) (hfit : s.off + bs.length ≤ (arrayOf h b).length) (hl : s.len = bs.length) :
    read (poke h b s.off bs) s = bs := by
  obtain ⟨arr, o, len, cap⟩ := s
  simp at hs hl hfit; subst hs; subst hl
  simp only [Mem.read]
  rw [arrayOf_poke_same h b o bs hb]
  apply List.ext_getElem?
  intro i
  simp only [List.getElem?_take, List.getElem?_drop]
  by_cases hi : i < bs.length
  · rw [if_pos hi, getElem?_splice _ _ _ (by omega)]
    have h1 : ¬ o + i < o := by omega
    have h2 : o + i < o + bs.length := by omega
    have h3 : o + i - o = i := by omega
    simp [h1, h2, h3]
  · rw [if_neg hi]
    have : bs.length ≤ i := by omega
    simp [this]

/-- the store of `n` bytes at `dst[0:n)`: `dst[:n]` shows them, every other byte of the heap is
    what it was, no array appeared, disappeared or changed its length -/
theorem block_store (h : Heap) (dst : Slice) (b n : Nat) (out : Bytes) (hd : dst.arr = some b)
    (hfd : Fits h b (dst.off + dst.cap)) (hn : n ≤ dst.cap) (ho : out.length = n) :
    read (poke h b dst.off out) { dst with len := n } = out ∧
    UnchangedOutside h (poke h b dst.off out) (InRegion dst 0 n) ∧
    (poke h b dst.off out).length = h.length ∧
    (∀ a, (arrayOf (poke h b dst.off out) a).length = (arrayOf h a).length) ∧
    (∀ s, Apart s b dst.off n → read (poke h b dst.off out) s = read h s) := by
  have hfit : dst.off + out.length ≤ (arrayOf h b).length := by have := hfd.2; omega
  refine ⟨?_, ?_, length_poke h b dst.off out, ?_, ?_⟩
  · exact read_poke_self h { dst with len := n } b out hd hfd.1 hfit ho.symm
  · apply GCMGlue.unchanged_poke h b dst.off out hfd.1 hfit
    intro i h1 h2
    exact ⟨hd, by omega, by omega⟩
  · intro a; exact length_arrayOf_poke h b a dst.off out hfit
  · intro s hs
    exact read_poke_apart h b dst.off out s hfd.1 hfit (by rw [ho]; exact hs)

/-! ### the wrappers, all cases at once -/

theorem length_read_prefix (h : Heap) (s : Slice) (n : Nat) (hwf : WF h s) (hn : n ≤ s.cap) :
    (read h { s with len := n }).length = n := by
  apply length_read h { s with len := n }
  obtain ⟨arr, o, len, cap⟩ := s
  exact ⟨hn, hwf.2⟩

/-- what a wrapper call amounts to: a panic, or one store of `out` at the start of `dst` -/
inductive Effect (h : Heap) (dst : Slice) (n : Nat) (out : Bytes) (r : Outcome Heap) : Prop where
  | stored (b : Nat) (hd : dst.arr = some b) (hf : Fits h b (dst.off + dst.cap)) (hn : n ≤ dst.cap)
      (e : r = .ok (poke h b dst.off out))

theorem cryptK_cases (k : Bytes → Bytes) (hk : ∀ x : Bytes, x.length = 16 → (k x).length = 16)
    (h : Heap) (dst src : Slice) (hwd : WF h dst) (hws : WF h src) :
    ((src.len < 16 ∨ dst.len < 16) ∧ cryptK k h dst src = .panic) ∨
    (16 ≤ src.len ∧ 16 ≤ dst.len ∧
      Effect h dst 16 (k (read h { src with len := 16 })) (cryptK k h dst src)) := by
  by_cases hbad : src.len < 16 ∨ dst.len < 16
  · exact Or.inl ⟨hbad, cryptK_panic k h dst src hbad⟩
  · have hsl : 16 ≤ src.len := by omega
    have hdl : 16 ≤ dst.len := by omega
    obtain ⟨a, hs, hfs, hsc⟩ := arr_of_len_pos h src hws (by omega)
    obtain ⟨b, hd, hfd, hdc⟩ := arr_of_len_pos h dst hwd (by omega)
    have hkl := hk _ (length_read_prefix h src 16 hws (by omega))
    exact Or.inr ⟨hsl, hdl, ⟨b, hd, hfd, by omega,
      cryptK_ok k h dst src a b hs hfs hsl hsc hd hfd hdl hdc hkl⟩⟩

theorem cryptAsmK_cases (k : Bytes → Bytes) (hk : ∀ x : Bytes, x.length = 16 → (k x).length = 16)
    (h : Heap) (dst src : Slice) (hwd : WF h dst) (hws : WF h src) :
    ((src.len < 16 ∨ dst.len < 16) ∧ cryptAsmK k h dst src = .panic) ∨
    (16 ≤ src.len ∧ 16 ≤ dst.len ∧
      Effect h dst 16 (k (read h { src with len := 16 })) (cryptAsmK k h dst src)) := by
  by_cases hbad : src.len < 16 ∨ dst.len < 16
  · exact Or.inl ⟨hbad, cryptAsmK_panic k h dst src hbad⟩
  · have hsl : 16 ≤ src.len := by omega
    have hdl : 16 ≤ dst.len := by omega
    obtain ⟨a, hs, hfs, hsc⟩ := arr_of_len_pos h src hws (by omega)
    obtain ⟨b, hd, hfd, hdc⟩ := arr_of_len_pos h dst hwd (by omega)
    have hkl := hk _ (length_read_prefix h src 16 hws (by omega))
    exact Or.inr ⟨hsl, hdl, ⟨b, hd, hfd, by omega,
      cryptAsmK_ok k h dst src a b hs hfs hsl hsc hd hfd hdl hdc hkl⟩⟩

theorem cryptX2K_cases (k : Bytes → Bytes) (hk : ∀ x : Bytes, x.length = 32 → (k x).length = 32)
    (h : Heap) (dst src : Slice) (hwd : WF h dst) (hws : WF h src) :
    ((src.cap < 32 ∨ dst.cap < 32) ∧ cryptX2K k h dst src = .panic) ∨
    (32 ≤ src.cap ∧ 32 ≤ dst.cap ∧
      Effect h dst 32 (k (read h { src with len := 32 })) (cryptX2K k h dst src)) := by
  by_cases hbad : src.cap < 32 ∨ dst.cap < 32
  · exact Or.inl ⟨hbad, cryptX2K_panic k h dst src hbad⟩
  · have hsc : 32 ≤ src.cap := by omega
    have hdc : 32 ≤ dst.cap := by omega
    obtain ⟨a, hs, hfs1, hfs2⟩ := arr_of_cap_pos h src hws (by omega)
    obtain ⟨b, hd, hfd1, hfd2⟩ := arr_of_cap_pos h dst hwd (by omega)
    have hkl := hk _ (length_read_prefix h src 32 hws hsc)
    exact Or.inr ⟨hsc, hdc, ⟨b, hd, ⟨hfd1, hfd2⟩, hdc,
      cryptX2K_ok k h dst src a b hs ⟨hfs1, hfs2⟩ hsc hd ⟨hfd1, hfd2⟩ hdc hkl⟩⟩

/-! ### lengths of the value-level block functions -/

theorem length_cryptoBlock (tb : SM4.Tables) (rk : List W32) (x : Bytes) :
    (SM4.cryptoBlock tb rk x).length = 16 := by
  unfold SM4.cryptoBlock
  simp only []
  generalize List.foldl _ _ _ = z
  obtain ⟨z0, z1, z2, z3⟩ := z
  simp [w32Bytes]

theorem length_cryptoBlockX2 (tb : SM4.Tables) (rk : List W32) (x : Bytes) :
    (SM4.cryptoBlockX2 tb rk x).length = 32 := by
  unfold SM4.cryptoBlockX2
  simp only []
  generalize List.foldl _ _ _ = z
  obtain ⟨z0, z1, z2, z3⟩ := z
  simp [w32Bytes]

end SMGo.Proofs.SM4Wrap
