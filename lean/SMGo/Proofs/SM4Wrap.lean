/-
  Lemmas for Props/C05Wrap.lean: closed forms of the slice-level SM4 wrappers of
  `SMGo.Model.SM4Wrap` (what the heap is after the call) and what a single block store does to the
  heap.  Core Lean only.
-/
import SMGo.Model.SM4Wrap
import SMGo.Proofs.Slice
import SMGo.Proofs.GCMGlueContract
namespace SMGo.Proofs.SM4Wrap
open SMGo SMGo.Model SMGo.Model.Mem SMGo.Model.SM4Wrap SMGo.Proofs.Slice
open SMGo.Proofs.GCMGlue (InRegion UnchangedOutside)

/-! ### lists -/

theorem take_words4 (l : Bytes) :
    l.take 4 ++ (l.drop 4).take 4 ++ (l.drop 8).take 4 ++ (l.drop 12).take 4 = l.take 16 := by
  rw [show (16 : Nat) = 4 + (4 + (4 + 4)) from rfl, List.take_add, List.take_add, List.take_add]
  simp [List.drop_drop, List.append_assoc]

theorem take_words8 (l : Bytes) :
    l.take 4 ++ (l.drop 4).take 4 ++ (l.drop 8).take 4 ++ (l.drop 12).take 4 ++ (l.drop 16).take 4
      ++ (l.drop 20).take 4 ++ (l.drop 24).take 4 ++ (l.drop 28).take 4 = l.take 32 := by
  rw [show (32 : Nat) = 4 + (4 + (4 + (4 + (4 + (4 + (4 + 4)))))) from rfl, List.take_add,
    List.take_add, List.take_add, List.take_add, List.take_add, List.take_add, List.take_add]
  simp [List.drop_drop, List.append_assoc]

theorem splice_splice_adj (l : Bytes) (off : Nat) (bs1 bs2 : Bytes)
    (hfit : off + bs1.length ≤ l.length) :
    splice (splice l off bs1) (off + bs1.length) bs2 = splice l off (bs1 ++ bs2) := by
  apply List.ext_getElem?
  intro i
  have hl : (splice l off bs1).length = l.length := length_splice l off bs1 hfit
  rw [getElem?_splice _ _ _ (by omega), getElem?_splice _ _ _ (by omega),
    getElem?_splice _ _ _ (by omega), List.length_append]
  by_cases h1 : i < off
  · have h2 : i < off + bs1.length := by omega
    simp [h1, h2]
  · by_cases h2 : i < off + bs1.length
    · have h3 : i < off + (bs1.length + bs2.length) := by omega
      have h4 : i - off < bs1.length := by omega
      simp [h1, h2, h3, List.getElem?_append_left h4]
    · by_cases h3 : i < off + bs1.length + bs2.length
      · have h4 : i < off + (bs1.length + bs2.length) := by omega
        have h5 : bs1.length ≤ i - off := by omega
        have h6 : i - (off + bs1.length) = i - off - bs1.length := by omega
        simp [h1, h2, h3, h4, List.getElem?_append_right h5, h6]
      · have h4 : ¬ i < off + (bs1.length + bs2.length) := by omega
        simp [h1, h2, h3, h4]

theorem splice_splice_same (l : Bytes) (off : Nat) (bs1 bs2 : Bytes)
    (hfit : off + bs1.length ≤ l.length) (hlen : bs1.length = bs2.length) :
    splice (splice l off bs1) off bs2 = splice l off bs2 := by
  apply List.ext_getElem?
  intro i
  rw [getElem?_splice _ _ _ (by rw [length_splice l off bs1 hfit]; omega),
    getElem?_splice _ _ _ (by omega), getElem?_splice _ _ _ (by omega)]
  by_cases h1 : i < off
  · simp [h1]
  · by_cases h2 : i < off + bs2.length
    · simp [h1, h2]
    · have h3 : ¬ i < off + bs1.length := by omega
      simp [h1, h2, h3]

theorem splice_self (l : Bytes) (off n : Nat) (hfit : off + n ≤ l.length) :
    splice l off ((l.drop off).take n) = l := by
  apply List.ext_getElem?
  intro i
  have hlen : ((l.drop off).take n).length = n := by simp [List.length_take, List.length_drop]; omega
  rw [getElem?_splice _ _ _ (by omega), hlen]
  by_cases h1 : i < off
  · simp [h1]
  · by_cases h2 : i < off + n
    · have h3 : i - off < n := by omega
      have h4 : off + (i - off) = i := by omega
      simp [h1, h2, h3, List.getElem?_drop, h4]
    · simp [h1, h2]

/-! ### heaps -/

theorem poke_poke_adj (h : Heap) (a off off2 : Nat) (bs1 bs2 : Bytes) (ha : a < h.length)
    (hfit : off + bs1.length ≤ (arrayOf h a).length) (hoff : off2 = off + bs1.length) :
    poke (poke h a off bs1) a off2 bs2 = poke h a off (bs1 ++ bs2) := by
  subst hoff
  have e : arrayOf (poke h a off bs1) a = splice (arrayOf h a) off bs1 := arrayOf_poke_same h a off bs1 ha
  show (poke h a off bs1).set a (splice (arrayOf (poke h a off bs1) a) (off + bs1.length) bs2) = _
  rw [e, splice_splice_adj _ _ _ _ hfit]
  simp [poke, List.set_set]

theorem poke_poke_same (h : Heap) (a off : Nat) (bs1 bs2 : Bytes) (ha : a < h.length)
    (hfit : off + bs1.length ≤ (arrayOf h a).length) (hlen : bs1.length = bs2.length) :
    poke (poke h a off bs1) a off bs2 = poke h a off bs2 := by
  have e : arrayOf (poke h a off bs1) a = splice (arrayOf h a) off bs1 := arrayOf_poke_same h a off bs1 ha
  show (poke h a off bs1).set a (splice (arrayOf (poke h a off bs1) a) off bs2) = _
  rw [e, splice_splice_same _ _ _ _ hfit hlen]
  simp [poke, List.set_set]

theorem poke_self (h : Heap) (a off n : Nat) (ha : a < h.length)
    (hfit : off + n ≤ (arrayOf h a).length) :
    poke h a off (((arrayOf h a).drop off).take n) = h := by
  unfold poke
  rw [splice_self _ _ _ hfit]
  apply List.ext_getElem?
  intro i
  rw [List.getElem?_set]
  by_cases hi : a = i
  · subst hi; simp [ha, arrayOf]
  · simp [hi]

/-- array `a` exists in `h` and has at least `n` bytes -/
def Fits (h : Heap) (a n : Nat) : Prop := a < h.length ∧ n ≤ (arrayOf h a).length

theorem Fits_poke (h : Heap) (a n off : Nat) (bs : Bytes) (hf : Fits h a n)
    (hb : off + bs.length ≤ (arrayOf h a).length) : Fits (poke h a off bs) a n :=
  ⟨by rw [length_poke]; exact hf.1, by rw [length_arrayOf_poke h a a off bs hb]; exact hf.2⟩

/-! ### the accessors -/

theorem loadWord_ok (h : Heap) (x : Slice) (a i : Nat) (hx : x.arr = some a)
    (hf : Fits h a (x.off + x.cap)) (hi : i + 4 ≤ x.cap) :
    loadWord h x i = .ok (((arrayOf h a).drop (x.off + i)).take 4) := by
  have h1 : i + 4 ≤ x.cap := hi
  have h2 : a < h.length ∧ x.off + i + 4 ≤ (arrayOf h a).length := ⟨hf.1, by have := hf.2; omega⟩
  simp [loadWord, reslice, h1, load, ptrOf, hx, readPtr, h2]

theorem storeWord_ok (h : Heap) (y : Slice) (b i : Nat) (w : Bytes) (hy : y.arr = some b)
    (hf : Fits h b (y.off + y.cap)) (hi : i + 4 ≤ y.cap) (hw : w.length = 4) :
    storeWord h y i w = .ok (poke h b (y.off + i) w) := by
  have h1 : i + 4 ≤ y.cap := hi
  have h2 : b < h.length ∧ y.off + i + 4 ≤ (arrayOf h b).length :=
    ⟨hf.1, by have := hf.2; omega⟩
  have h3 : w.isEmpty = false := by
    cases w with
    | nil => simp at hw
    | cons _ _ => rfl
  simp [storeWord, reslice, h1, store, ptrOf, hy, writePtr, writeAt, h2, h3, hw]

theorem length_word (out : Bytes) (i : Nat) (hi : i + 4 ≤ out.length) : (word out i).length = 4 := by
  simp [word, List.length_take, List.length_drop]; omega

/-! ### cryptoBlock, cryptoBlockX2 on slices: closed forms -/

/-- `cryptoBlockK` reads `x[0:16]`, then stores the 16 bytes `k` makes of them at `y[0:16]` -/
theorem cryptoBlockK_ok (k : Bytes → Bytes) (h : Heap) (x y : Slice) (a b : Nat)
    (hx : x.arr = some a) (hfx : Fits h a (x.off + x.cap)) (hxc : 16 ≤ x.cap)
    (hy : y.arr = some b) (hfy : Fits h b (y.off + y.cap)) (hyc : 16 ≤ y.cap)
    (hk : (k (((arrayOf h a).drop x.off).take 16)).length = 16) :
    cryptoBlockK k h x y = .ok (poke h b y.off (k (((arrayOf h a).drop x.off).take 16))) := by
  unfold cryptoBlockK
  rw [loadWord_ok h x a 0 hx hfx (by omega), Outcome.bind_ok,
    loadWord_ok h x a 4 hx hfx (by omega), Outcome.bind_ok,
    loadWord_ok h x a 8 hx hfx (by omega), Outcome.bind_ok,
    loadWord_ok h x a 12 hx hfx (by omega), Outcome.bind_ok]
  have hin : List.take 4 (List.drop (x.off + 0) (arrayOf h a)) ++ List.take 4 (List.drop (x.off + 4) (arrayOf h a))
      ++ List.take 4 (List.drop (x.off + 8) (arrayOf h a)) ++ List.take 4 (List.drop (x.off + 12) (arrayOf h a))
      = ((arrayOf h a).drop x.off).take 16 := by
    rw [← take_words4]; simp [List.drop_drop]
  rw [hin]
  generalize k (((arrayOf h a).drop x.off).take 16) = out at hk ⊢
  have hb := hfy.2
  have w0 := length_word out 0 (by omega)
  have w4 := length_word out 4 (by omega)
  have w8 := length_word out 8 (by omega)
  have w12 := length_word out 12 (by omega)
  have f1 := Fits_poke h b _ (y.off + 0) (word out 0) hfy (by omega)
  have f2 := Fits_poke _ b _ (y.off + 4) (word out 4) f1 (by have := f1.2; omega)
  have f3 := Fits_poke _ b _ (y.off + 8) (word out 8) f2 (by have := f2.2; omega)
  show (storeWord h y 0 (word out 0) >>= fun h1 => storeWord h1 y 4 (word out 4) >>= fun h2 =>
    storeWord h2 y 8 (word out 8) >>= fun h3 => storeWord h3 y 12 (word out 12)) = _
  rw [storeWord_ok h y b 0 _ hy hfy (by omega) w0, Outcome.bind_ok,
    storeWord_ok _ y b 4 _ hy f1 (by omega) w4, Outcome.bind_ok,
    storeWord_ok _ y b 8 _ hy f2 (by omega) w8, Outcome.bind_ok,
    storeWord_ok _ y b 12 _ hy f3 (by omega) w12]
  rw [poke_poke_adj h b (y.off + 0) (y.off + 4) (word out 0) (word out 4) hfy.1 (by omega) (by omega),
    poke_poke_adj h b (y.off + 0) (y.off + 8) (word out 0 ++ word out 4) (word out 8) hfy.1
      (by simp only [List.length_append]; omega) (by simp only [List.length_append]; omega),
    poke_poke_adj h b (y.off + 0) (y.off + 12) (word out 0 ++ word out 4 ++ word out 8) (word out 12) hfy.1
      (by simp only [List.length_append]; omega) (by simp only [List.length_append]; omega)]
  have hout : word out 0 ++ word out 4 ++ word out 8 ++ word out 12 = out := by
    have e : out.take 16 = out := List.take_of_length_le (by omega)
    have := take_words4 out
    rw [e] at this
    simpa [word] using this
  rw [hout]; rfl

/-- `cryptoBlockX2K` reads `x[0:32]`, then stores the 32 bytes `k` makes of them at `y[0:32]` -/
theorem cryptoBlockX2K_ok (k : Bytes → Bytes) (h : Heap) (x y : Slice) (a b : Nat)
    (hx : x.arr = some a) (hfx : Fits h a (x.off + x.cap)) (hxc : 32 ≤ x.cap)
    (hy : y.arr = some b) (hfy : Fits h b (y.off + y.cap)) (hyc : 32 ≤ y.cap)
    (hk : (k (((arrayOf h a).drop x.off).take 32)).length = 32) :
    cryptoBlockX2K k h x y = .ok (poke h b y.off (k (((arrayOf h a).drop x.off).take 32))) := by
  unfold cryptoBlockX2K
  rw [loadWord_ok h x a 0 hx hfx (by omega), Outcome.bind_ok,
    loadWord_ok h x a 4 hx hfx (by omega), Outcome.bind_ok,
    loadWord_ok h x a 8 hx hfx (by omega), Outcome.bind_ok,
    loadWord_ok h x a 12 hx hfx (by omega), Outcome.bind_ok,
    loadWord_ok h x a 16 hx hfx (by omega), Outcome.bind_ok,
    loadWord_ok h x a 20 hx hfx (by omega), Outcome.bind_ok,
    loadWord_ok h x a 24 hx hfx (by omega), Outcome.bind_ok,
    loadWord_ok h x a 28 hx hfx (by omega), Outcome.bind_ok]
  have hin : List.take 4 (List.drop (x.off + 0) (arrayOf h a)) ++ List.take 4 (List.drop (x.off + 4) (arrayOf h a))
      ++ List.take 4 (List.drop (x.off + 8) (arrayOf h a)) ++ List.take 4 (List.drop (x.off + 12) (arrayOf h a))
      ++ List.take 4 (List.drop (x.off + 16) (arrayOf h a)) ++ List.take 4 (List.drop (x.off + 20) (arrayOf h a))
      ++ List.take 4 (List.drop (x.off + 24) (arrayOf h a)) ++ List.take 4 (List.drop (x.off + 28) (arrayOf h a))
      = ((arrayOf h a).drop x.off).take 32 := by
    rw [← take_words8]; simp [List.drop_drop]
  rw [hin]
  generalize k (((arrayOf h a).drop x.off).take 32) = out at hk ⊢
  have hb := hfy.2
  have w0 := length_word out 0 (by omega)
  have w4 := length_word out 4 (by omega)
  have w8 := length_word out 8 (by omega)
  have w12 := length_word out 12 (by omega)
  have w16 := length_word out 16 (by omega)
  have w20 := length_word out 20 (by omega)
  have w24 := length_word out 24 (by omega)
  have w28 := length_word out 28 (by omega)
  have f1 := Fits_poke h b _ (y.off + 0) (word out 0) hfy (by omega)
  have f2 := Fits_poke _ b _ (y.off + 4) (word out 4) f1 (by have := f1.2; omega)
  have f3 := Fits_poke _ b _ (y.off + 8) (word out 8) f2 (by have := f2.2; omega)
  have f4 := Fits_poke _ b _ (y.off + 12) (word out 12) f3 (by have := f3.2; omega)
  have f5 := Fits_poke _ b _ (y.off + 16) (word out 16) f4 (by have := f4.2; omega)
  have f6 := Fits_poke _ b _ (y.off + 20) (word out 20) f5 (by have := f5.2; omega)
  have f7 := Fits_poke _ b _ (y.off + 24) (word out 24) f6 (by have := f6.2; omega)
  show (storeWord h y 0 (word out 0) >>= fun h1 => storeWord h1 y 4 (word out 4) >>= fun h2 =>
    storeWord h2 y 8 (word out 8) >>= fun h3 => storeWord h3 y 12 (word out 12) >>= fun h4 =>
    storeWord h4 y 16 (word out 16) >>= fun h5 => storeWord h5 y 20 (word out 20) >>= fun h6 =>
    storeWord h6 y 24 (word out 24) >>= fun h7 => storeWord h7 y 28 (word out 28)) = _
  rw [storeWord_ok h y b 0 _ hy hfy (by omega) w0, Outcome.bind_ok,
    storeWord_ok _ y b 4 _ hy f1 (by omega) w4, Outcome.bind_ok,
    storeWord_ok _ y b 8 _ hy f2 (by omega) w8, Outcome.bind_ok,
    storeWord_ok _ y b 12 _ hy f3 (by omega) w12, Outcome.bind_ok,
    storeWord_ok _ y b 16 _ hy f4 (by omega) w16, Outcome.bind_ok,
    storeWord_ok _ y b 20 _ hy f5 (by omega) w20, Outcome.bind_ok,
    storeWord_ok _ y b 24 _ hy f6 (by omega) w24, Outcome.bind_ok,
    storeWord_ok _ y b 28 _ hy f7 (by omega) w28]
  rw [poke_poke_adj h b (y.off + 0) (y.off + 4) (word out 0) (word out 4) hfy.1 (by omega) (by omega),
    poke_poke_adj h b (y.off + 0) (y.off + 8) (word out 0 ++ word out 4) (word out 8) hfy.1
      (by simp only [List.length_append]; omega) (by simp only [List.length_append]; omega),
    poke_poke_adj h b (y.off + 0) (y.off + 12) (word out 0 ++ word out 4 ++ word out 8) (word out 12) hfy.1
      (by simp only [List.length_append]; omega) (by simp only [List.length_append]; omega),
    poke_poke_adj h b (y.off + 0) (y.off + 16) (word out 0 ++ word out 4 ++ word out 8 ++ word out 12) (word out 16) hfy.1
      (by simp only [List.length_append]; omega) (by simp only [List.length_append]; omega),
    poke_poke_adj h b (y.off + 0) (y.off + 20) (word out 0 ++ word out 4 ++ word out 8 ++ word out 12 ++ word out 16) (word out 20) hfy.1
      (by simp only [List.length_append]; omega) (by simp only [List.length_append]; omega),
    poke_poke_adj h b (y.off + 0) (y.off + 24) (word out 0 ++ word out 4 ++ word out 8 ++ word out 12 ++ word out 16 ++ word out 20) (word out 24) hfy.1
      (by simp only [List.length_append]; omega) (by simp only [List.length_append]; omega),
    poke_poke_adj h b (y.off + 0) (y.off + 28) (word out 0 ++ word out 4 ++ word out 8 ++ word out 12 ++ word out 16 ++ word out 20 ++ word out 24) (word out 28) hfy.1
      (by simp only [List.length_append]; omega) (by simp only [List.length_append]; omega)]
  have hout : word out 0 ++ word out 4 ++ word out 8 ++ word out 12 ++ word out 16 ++ word out 20
      ++ word out 24 ++ word out 28 = out := by
    have e : out.take 32 = out := List.take_of_length_le (by omega)
    have := take_words8 out
    rw [e] at this
    simpa [word] using this
  rw [hout]; rfl

end SMGo.Proofs.SM4Wrap
