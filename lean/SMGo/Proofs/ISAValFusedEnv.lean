import SMGo.Proofs.ISAValFusedRem
set_option linter.unusedSimpArgs false
namespace SMGo.Proofs.ISAVal
open SMGo.Model.ISAVal SMGo.Model.GCM SMGo.Proofs.GCM SMGo.Proofs.ISATouch
open SMGo.Model.ISA (Reg Opd Instr)

/-- the part of `FEnv` that is about memory -/
structure MemEnv (mem : List Region) (rk : List Nat) (np ap : Nat) (nonce aad : List Nat) : Prop where
  rAnd : readMem mem 25769803776 8 = .ok (Gen.AsmData.amd64_AND_MASK.take 8)
  rLower : readMem mem 47244640256 16 = .ok Gen.AsmData.amd64_LOWER_MASK
  rShuffle : readMem mem 4294967296 16 = .ok Gen.AsmData.amd64_Shuffle
  rPre : readMem mem 8589934592 8 = .ok Gen.AsmData.amd64_PreAffineMatrix
  rPost : readMem mem 12884901888 8 = .ok Gen.AsmData.amd64_PostAffineMatrix
  rAdd1 : readMem mem 30064771072 64 = .ok Gen.AsmData.amd64_Counter_Add1
  rAdd2 : readMem mem 34359738368 64 = .ok Gen.AsmData.amd64_Counter_Add2
  rAdd3 : readMem mem 38654705664 64 = .ok Gen.AsmData.amd64_Counter_Add3
  rPoly : readMem mem 42949672960 8 = .ok (Gen.AsmData.amd64_GCM_POLY.take 8)
  rIdx : readMem mem 60129542144 64 = .ok Gen.AsmData.amd64_SHUFFLE_X_LANES
  rH01 : readMem mem 51539607552 32 = .ok Gen.AsmData.amd64_MERGE_H01
  rH23 : readMem mem 55834574848 64 = .ok Gen.AsmData.amd64_MERGE_H23
  rSh1 : readMem mem 64424509440 16 = .ok Gen.AsmData.amd64_Shuffle1
  rSh2 : readMem mem 68719476736 16 = .ok Gen.AsmData.amd64_Shuffle2
  rkR : ∀ i, i < 32 → readMem mem (73014444032 + 4 * i) 4 = .ok (lanes 8 4 (rk.getD i 0))
  dNonce : DataAt mem np nonce
  dAad : DataAt mem ap aad

theorem FEnv.memEnv {s : State} {rk : List Nat} {np tp ap : Nat} {nonce aad : List Nat} (e : FEnv s rk np tp ap nonce aad) :
    MemEnv s.mem rk np ap nonce aad :=
  ⟨e.rAnd, e.rLower, e.rShuffle, e.rPre, e.rPost, e.rAdd1, e.rAdd2, e.rAdd3, e.rPoly, e.rIdx, e.rH01, e.rH23, e.rSh1, e.rSh2, e.rkR,
    e.dNonce, e.dAad⟩

/-- the environment after memory has changed into another member of the family -/
theorem FEnv.remem {s s' : State} {rk : List Nat} {np tp ap : Nat} {nonce aad : List Nat} (e : FEnv s rk np tp ap nonce aad)
    (m : MemEnv s'.mem rk np ap nonce aad) (hs : s'.syms = s.syms) (hf : s'.frame = s.frame) : FEnv s' rk np tp ap nonce aad :=
  ⟨hs.trans e.syms, m.rAnd, m.rLower, m.rShuffle, m.rPre, m.rPost, m.rAdd1, m.rAdd2, m.rAdd3, m.rPoly, m.rIdx, m.rH01, m.rH23,
    m.rSh1, m.rSh2, m.rkR, hf ▸ e.fRk, hf ▸ e.fNonce, hf ▸ e.fNonceLen, hf ▸ e.fTmp, hf ▸ e.fAData, hf ▸ e.fALen, m.dNonce, m.dAad⟩

/-- a family of memories that differ in the 32-byte scratch buffer only -/
structure MemFam (Mf : List Nat → List Region) (tp : Nat) (rk : List Nat) (np ap : Nat) (nonce aad : List Nat) : Prop where
  buf : Buf Mf tp 32
  env : ∀ t, t.length = 32 → MemEnv (Mf t) rk np ap nonce aad

/-- GHASH update over a byte string on numbers: whole blocks (`ghAllN`), then the zero-padded remainder -/
def ghUpdN (h y : Nat) (d : List Nat) : Nat :=
  let y1 := if d.length < 16 then y else ghAllN h (d.length / 16) y d
  if d.length % 16 = 0 then y1 else gmulR h (y1 ^^^ rb128 (unlanes 8 (padTo16 (d.drop (16 * (d.length / 16))))))

end SMGo.Proofs.ISAVal
