import SMGo.Proofs.ISAValLadBase
set_option linter.unusedSimpArgs false
namespace SMGo.Proofs.ISAVal
open SMGo.Model.ISAVal SMGo.Model.GCM SMGo.Proofs.GCM SMGo.Proofs.ISATouch
open SMGo.Model.ISA (Reg Opd Instr)

def rbKeepV (D : Nat) : List Nat := (List.range 32).filter (fun n => !([0, 1, D].contains n))

theorem rbz_writes (vl D : Nat) : writesNone (rbCode vl D 0 1) (List.range 16) (rbKeepV D) (List.range 8) = true := by
  simp [writesNone, rbCode, leaves, touchesOf, tVec3, tVecImm, tVecImm2, ins, R, rbKeepV]

/-- bit reflection of the data register of a class: lane `l` becomes the reflected block `l` -/
theorem rbReg_spec (vl D : Nat) (hvl : vl = 64 ∨ vl = 16) (hD : D ∈ [6, 7, 8, 9]) (s : State) (h : Nat) (gc : GhCtx h s)
    (blk : List Nat) (hblk : blk.length = vl) (hbb : ∀ x ∈ blk, x < 2 ^ 8) (hreg : vreg s D = unlanes 8 blk) :
    ∃ s', execList (rbCode vl D 0 1) s = .ok s' ∧ (∀ l, l < vl / 16 → lane 128 l (vreg s' D) = blkR blk l) ∧
      Keeps (List.range 16) (rbKeepV D) (List.range 8) s s' := by
  have hvalid : validVl vl = true := by rcases hvl with rfl | rfl <;> rfl
  obtain ⟨s', hr, _, _, val⟩ := rb_spec vl D 0 1 hvalid (Or.inr ⟨by
    simp only [List.mem_cons, List.not_mem_nil, or_false] at hD ⊢; omega, rfl, rfl⟩) s gc.lenV gc.v22 gc.v23 gc.v24
  refine ⟨s', hr, ?_, keeps_of_exec _ (rbz_writes vl D) hr⟩
  intro l hl
  rw [val l hl, hreg, laneJ_unlanes 128 8 16 l (by decide) blk hbb (by rcases hvl with rfl | rfl <;> omega)]
  rfl

def ghRegKeepG : List Nat := (List.range 16).filter (fun n => !([1].contains n))

theorem sub1_writes (c : Int) (g : Nat) : writesNone [ins .SUBQ [.imm c, G g] 0] ((List.range 16).filter (fun n => !([g].contains n)))
    (List.range 32) (List.range 8) = true := by
  simp [writesNone, leaves, touchesOf, tAlu, ins, G]

theorem ghRegs_keep (D : Nat) (hD : D ∈ [6, 7, 8, 9]) : ∀ n, n ∈ ghRegs → n ∈ ghKeepV D 21 := by
  simp only [List.mem_cons, List.not_mem_nil, or_false] at hD
  rcases hD with rfl | rfl | rfl | rfl <;> decide

/-- one aggregated GHASH step of a class over the 64 bytes held (reflected) in `D`, and the `SUBQ $4` that follows -/
theorem ghReg_spec (D cnt : Nat) (hD : D ∈ [6, 7, 8, 9]) (hcnt : cnt = 1) (s : State) (h : Nat) (gc : GhCtx h s) (y : Nat) (hy : vreg s 21 = y)
    (hylt : y < 2 ^ 128) (blk : List Nat) (hreg : ∀ l, l < 4 → lane 128 l (vreg s D) = blkR blk l) :
    ∃ s', execList (gh4Code D 21 ++ [ins .SUBQ [.imm 4, G cnt] 0]) s = .ok s' ∧ vreg s' 21 = ghStep4N h y blk ∧ vreg s' 21 < 2 ^ 128 ∧
      GhCtx h s' ∧ Keeps ghRegKeepG (ghKeepV D 21) (List.range 8) s s' := by
  subst hcnt
  have gi : ghInst D 21 := ⟨by simp only [List.mem_cons, List.not_mem_nil, or_false] at hD ⊢; omega, Or.inr rfl⟩
  obtain ⟨s1, hr1, lt1, v1⟩ := gh4_spec D 21 gi s gc.lenV h gc.hc y hy hylt (blkR blk) hreg
  have k1 := keeps_of_exec _ (gh4_writes D 21) hr1
  have hG1 : s1.gpr.length = 16 := k1.lenG.trans gc.lenG
  obtain ⟨s2, hr2⟩ : ∃ s2, execList [ins .SUBQ [.imm 4, G 1] 0] s1 = .ok s2 :=
    ⟨_, exec_step (a_subq_imm s1 4 1 (by omega)) rfl⟩
  have k2 := keeps_of_exec _ (sub1_writes 4 1) hr2
  have kA : Keeps ghRegKeepG (ghKeepV D 21) (List.range 8) s s2 :=
    (k1.mono (by decide) (fun _ h => h) (fun _ h => h)).trans
      (k2.mono (fun _ h => h) (fun n hn => List.mem_range.mpr (by simp [ghKeepV] at hn; omega)) (fun _ h => h))
  refine ⟨s2, execList_append_ok hr1 hr2, ?_, ?_, gc.of_keeps kA (ghRegs_keep D hD), kA⟩
  · rw [k2.v 21 (by decide), v1]; rfl
  · rw [k2.v 21 (by decide)]; exact lt1

theorem ghN4_one (h y : Nat) (d : List Nat) : ghN4 h 1 y d = ghStep4N h y (d.take 64) := rfl

theorem ghN4_succ' (h : Nat) (m y : Nat) (a b : List Nat) (ha : a.length = 64) :
    ghN4 h (m + 1) y (a ++ b) = ghN4 h m (ghStep4N h y a) b := by
  rw [ghN4, List.take_left' ha, List.drop_left' ha]


def ghStepCode (D : Nat) : List DInstr := gh4Code D 21 ++ [ins .SUBQ [.imm 4, G 1] 0]

/-- the hashing part of `loopX16` -/
def hash16Code : List DInstr :=
  [ins .MOVQ [.imm 16, G 1] 0] ++ (rbCode 64 9 0 1 ++ (rbCode 64 8 0 1 ++ (rbCode 64 7 0 1 ++ (rbCode 64 6 0 1 ++
    (ghStepCode 9 ++ (ghStepCode 8 ++ (ghStepCode 7 ++ ghStepCode 6)))))))
def hash8Code : List DInstr :=
  [ins .MOVQ [.imm 8, G 1] 0] ++ (rbCode 64 9 0 1 ++ (rbCode 64 7 0 1 ++ (ghStepCode 9 ++ ghStepCode 7)))
def hash4Code : List DInstr :=
  [ins .MOVQ [.imm 4, G 1] 0] ++ (rbCode 64 9 0 1 ++ ghStepCode 9)

def hashKeepV : List Nat := (List.range 32).filter (fun n => !([0, 1, 2, 3, 13, 27, 28, 6, 7, 8, 9, 21].contains n))

theorem movq1_writes (c : Int) : writesNone [ins .MOVQ [.imm c, G 1] 0] ghRegKeepG (List.range 32) (List.range 8) = true := by
  simp [writesNone, leaves, touchesOf, tMov, ins, G, ghRegKeepG]

theorem ghRegs_rb (D : Nat) (hD : D ∈ [6, 7, 8, 9]) : ∀ n, n ∈ ghRegs → n ∈ rbKeepV D := by
  simp only [List.mem_cons, List.not_mem_nil, or_false] at hD
  rcases hD with rfl | rfl | rfl | rfl <;> decide

set_option maxHeartbeats 1000000 in
theorem hash16_spec (s : State) (h : Nat) (gc : GhCtx h s) (y : Nat) (hy : vreg s 21 = y) (hylt : y < 2 ^ 128)
    (o : Nat → List Nat) (ho : ∀ r, r < 4 → (o r).length = 64 ∧ ∀ x ∈ o r, x < 2 ^ 8) (hreg : ∀ r, r < 4 → vreg s (9 - r) = unlanes 8 (o r)) :
    ∃ s', execList hash16Code s = .ok s' ∧ vreg s' 21 = ghN4 h 4 y (o 0 ++ (o 1 ++ (o 2 ++ o 3))) ∧ vreg s' 21 < 2 ^ 128 ∧ GhCtx h s' ∧
      Keeps ghRegKeepG hashKeepV (List.range 8) s s' := by
  obtain ⟨s0, hr0⟩ : ∃ s0, execList [ins .MOVQ [.imm 16, G 1] 0] s = .ok s0 :=
    ⟨_, exec_step (a_movq_imm s 16 1 (by rw [gc.lenG]; omega)) rfl⟩
  have k0 := keeps_of_exec _ (movq1_writes 16) hr0
  have c0 := gc.of_keeps k0 (by decide)
  obtain ⟨s1, hr1, l1, k1⟩ := rbReg_spec 64 9 (Or.inl rfl) (by decide) s0 h c0 (o 0) (ho 0 (by decide)).1 (ho 0 (by decide)).2
    (by rw [k0.v 9 (by decide)]; exact hreg 0 (by decide))
  have c1 := c0.of_keeps k1 (ghRegs_rb 9 (by decide))
  obtain ⟨s2, hr2, l2, k2⟩ := rbReg_spec 64 8 (Or.inl rfl) (by decide) s1 h c1 (o 1) (ho 1 (by decide)).1 (ho 1 (by decide)).2
    (by rw [k1.v 8 (by decide), k0.v 8 (by decide)]; exact hreg 1 (by decide))
  have c2 := c1.of_keeps k2 (ghRegs_rb 8 (by decide))
  obtain ⟨s3, hr3, l3, k3⟩ := rbReg_spec 64 7 (Or.inl rfl) (by decide) s2 h c2 (o 2) (ho 2 (by decide)).1 (ho 2 (by decide)).2
    (by rw [k2.v 7 (by decide), k1.v 7 (by decide), k0.v 7 (by decide)]; exact hreg 2 (by decide))
  have c3 := c2.of_keeps k3 (ghRegs_rb 7 (by decide))
  obtain ⟨s4, hr4, l4, k4⟩ := rbReg_spec 64 6 (Or.inl rfl) (by decide) s3 h c3 (o 3) (ho 3 (by decide)).1 (ho 3 (by decide)).2
    (by rw [k3.v 6 (by decide), k2.v 6 (by decide), k1.v 6 (by decide), k0.v 6 (by decide)]; exact hreg 3 (by decide))
  have c4 := c3.of_keeps k4 (ghRegs_rb 6 (by decide))
  have y4 : vreg s4 21 = y := by
    rw [k4.v 21 (by decide), k3.v 21 (by decide), k2.v 21 (by decide), k1.v 21 (by decide), k0.v 21 (by decide)]; exact hy
  obtain ⟨s5, hr5, v5, lt5, c5, k5⟩ := ghReg_spec 9 1 (by decide) rfl s4 h c4 y y4 hylt (o 0)
    (fun l hl => by rw [k4.v 9 (by decide), k3.v 9 (by decide), k2.v 9 (by decide)]; exact l1 l hl)
  obtain ⟨s6, hr6, v6, lt6, c6, k6⟩ := ghReg_spec 8 1 (by decide) rfl s5 h c5 _ v5 (v5 ▸ lt5) (o 1)
    (fun l hl => by rw [k5.v 8 (by decide), k4.v 8 (by decide), k3.v 8 (by decide)]; exact l2 l hl)
  obtain ⟨s7, hr7, v7, lt7, c7, k7⟩ := ghReg_spec 7 1 (by decide) rfl s6 h c6 _ v6 (v6 ▸ lt6) (o 2)
    (fun l hl => by rw [k6.v 7 (by decide), k5.v 7 (by decide), k4.v 7 (by decide)]; exact l3 l hl)
  obtain ⟨s8, hr8, v8, lt8, c8, k8⟩ := ghReg_spec 6 1 (by decide) rfl s7 h c7 _ v7 (v7 ▸ lt7) (o 3)
    (fun l hl => by rw [k7.v 6 (by decide), k6.v 6 (by decide), k5.v 6 (by decide)]; exact l4 l hl)
  have hrun : execList hash16Code s = .ok s8 :=
    execList_append_ok hr0 (execList_append_ok hr1 (execList_append_ok hr2 (execList_append_ok hr3 (execList_append_ok hr4
      (execList_append_ok hr5 (execList_append_ok hr6 (execList_append_ok hr7 hr8)))))))
  have mk : ∀ {a b : State} {G V : List Nat}, Keeps G V (List.range 8) a b → (∀ n, n ∈ ghRegKeepG → n ∈ G) → (∀ n, n ∈ hashKeepV → n ∈ V) →
      Keeps ghRegKeepG hashKeepV (List.range 8) a b := fun k hG hV => k.mono hG hV (fun _ h => h)
  refine ⟨s8, hrun, ?_, lt8, c8, ?_⟩
  · rw [v8, ghN4_succ' h 3 y _ _ (ho 0 (by decide)).1, ghN4_succ' h 2 _ _ _ (ho 1 (by decide)).1, ghN4_succ' h 1 _ _ _ (ho 2 (by decide)).1,
      ghN4_one, List.take_of_length_le (by rw [(ho 3 (by decide)).1]; omega)]
  · exact (mk k0 (fun _ h => h) (by decide)).trans ((mk k1 (by decide) (by decide)).trans ((mk k2 (by decide) (by decide)).trans
      ((mk k3 (by decide) (by decide)).trans ((mk k4 (by decide) (by decide)).trans ((mk k5 (fun _ h => h) (by decide)).trans
      ((mk k6 (fun _ h => h) (by decide)).trans ((mk k7 (fun _ h => h) (by decide)).trans (mk k8 (fun _ h => h) (by decide)))))))))

set_option maxHeartbeats 1000000 in
theorem hash8_spec (s : State) (h : Nat) (gc : GhCtx h s) (y : Nat) (hy : vreg s 21 = y) (hylt : y < 2 ^ 128)
    (o0 o1 : List Nat) (ho0 : o0.length = 64 ∧ ∀ x ∈ o0, x < 2 ^ 8) (ho1 : o1.length = 64 ∧ ∀ x ∈ o1, x < 2 ^ 8)
    (hreg0 : vreg s 9 = unlanes 8 o0) (hreg1 : vreg s 7 = unlanes 8 o1) :
    ∃ s', execList hash8Code s = .ok s' ∧ vreg s' 21 = ghN4 h 2 y (o0 ++ o1) ∧ vreg s' 21 < 2 ^ 128 ∧ GhCtx h s' ∧
      Keeps ghRegKeepG hashKeepV (List.range 8) s s' := by
  obtain ⟨s0, hr0⟩ : ∃ s0, execList [ins .MOVQ [.imm 8, G 1] 0] s = .ok s0 :=
    ⟨_, exec_step (a_movq_imm s 8 1 (by rw [gc.lenG]; omega)) rfl⟩
  have k0 := keeps_of_exec _ (movq1_writes 8) hr0
  have c0 := gc.of_keeps k0 (by decide)
  obtain ⟨s1, hr1, l1, k1⟩ := rbReg_spec 64 9 (Or.inl rfl) (by decide) s0 h c0 o0 ho0.1 ho0.2
    (by rw [k0.v 9 (by decide)]; exact hreg0)
  have c1 := c0.of_keeps k1 (ghRegs_rb 9 (by decide))
  obtain ⟨s3, hr3, l3, k3⟩ := rbReg_spec 64 7 (Or.inl rfl) (by decide) s1 h c1 o1 ho1.1 ho1.2
    (by rw [k1.v 7 (by decide), k0.v 7 (by decide)]; exact hreg1)
  have c3 := c1.of_keeps k3 (ghRegs_rb 7 (by decide))
  have y4 : vreg s3 21 = y := by
    rw [k3.v 21 (by decide), k1.v 21 (by decide), k0.v 21 (by decide)]; exact hy
  obtain ⟨s5, hr5, v5, lt5, c5, k5⟩ := ghReg_spec 9 1 (by decide) rfl s3 h c3 y y4 hylt o0
    (fun l hl => by rw [k3.v 9 (by decide)]; exact l1 l hl)
  obtain ⟨s7, hr7, v7, lt7, c7, k7⟩ := ghReg_spec 7 1 (by decide) rfl s5 h c5 _ v5 (v5 ▸ lt5) o1
    (fun l hl => by rw [k5.v 7 (by decide)]; exact l3 l hl)
  have hrun : execList hash8Code s = .ok s7 :=
    execList_append_ok hr0 (execList_append_ok hr1 (execList_append_ok hr3 (execList_append_ok hr5 hr7)))
  have mk : ∀ {a b : State} {G V : List Nat}, Keeps G V (List.range 8) a b → (∀ n, n ∈ ghRegKeepG → n ∈ G) → (∀ n, n ∈ hashKeepV → n ∈ V) →
      Keeps ghRegKeepG hashKeepV (List.range 8) a b := fun k hG hV => k.mono hG hV (fun _ h => h)
  refine ⟨s7, hrun, ?_, lt7, c7, ?_⟩
  · rw [v7, ghN4_succ' h 1 y _ _ ho0.1, ghN4_one, List.take_of_length_le (by rw [ho1.1]; omega)]
  · exact (mk k0 (fun _ h => h) (by decide)).trans ((mk k1 (by decide) (by decide)).trans ((mk k3 (by decide) (by decide)).trans
      ((mk k5 (fun _ h => h) (by decide)).trans (mk k7 (fun _ h => h) (by decide)))))

theorem hash4_spec (s : State) (h : Nat) (gc : GhCtx h s) (y : Nat) (hy : vreg s 21 = y) (hylt : y < 2 ^ 128)
    (o0 : List Nat) (ho0 : o0.length = 64 ∧ ∀ x ∈ o0, x < 2 ^ 8) (hreg0 : vreg s 9 = unlanes 8 o0) :
    ∃ s', execList hash4Code s = .ok s' ∧ vreg s' 21 = ghN4 h 1 y o0 ∧ vreg s' 21 < 2 ^ 128 ∧ GhCtx h s' ∧
      Keeps ghRegKeepG hashKeepV (List.range 8) s s' := by
  obtain ⟨s0, hr0⟩ : ∃ s0, execList [ins .MOVQ [.imm 4, G 1] 0] s = .ok s0 :=
    ⟨_, exec_step (a_movq_imm s 4 1 (by rw [gc.lenG]; omega)) rfl⟩
  have k0 := keeps_of_exec _ (movq1_writes 4) hr0
  have c0 := gc.of_keeps k0 (by decide)
  obtain ⟨s1, hr1, l1, k1⟩ := rbReg_spec 64 9 (Or.inl rfl) (by decide) s0 h c0 o0 ho0.1 ho0.2
    (by rw [k0.v 9 (by decide)]; exact hreg0)
  have c1 := c0.of_keeps k1 (ghRegs_rb 9 (by decide))
  have y4 : vreg s1 21 = y := by
    rw [k1.v 21 (by decide), k0.v 21 (by decide)]; exact hy
  obtain ⟨s5, hr5, v5, lt5, c5, k5⟩ := ghReg_spec 9 1 (by decide) rfl s1 h c1 y y4 hylt o0 l1
  have mk : ∀ {a b : State} {G V : List Nat}, Keeps G V (List.range 8) a b → (∀ n, n ∈ ghRegKeepG → n ∈ G) → (∀ n, n ∈ hashKeepV → n ∈ V) →
      Keeps ghRegKeepG hashKeepV (List.range 8) a b := fun k hG hV => k.mono hG hV (fun _ h => h)
  refine ⟨s5, execList_append_ok hr0 (execList_append_ok hr1 hr5), ?_, lt5, c5, ?_⟩
  · rw [v5, ghN4_one, List.take_of_length_le (by rw [ho0.1]; omega)]
  · exact (mk k0 (fun _ h => h) (by decide)).trans ((mk k1 (by decide) (by decide)).trans (mk k5 (fun _ h => h) (by decide)))

end SMGo.Proofs.ISAVal
