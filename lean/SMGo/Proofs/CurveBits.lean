/-
  Lemmas for property C14, arithmetic half (core Lean only): finite sums over `0..n-1`, the binary
  expansion of a natural number, the "comb" partition of the bits of a scalar
  (every bit position `r + i + it*(j + s*t)` with `i < it`, `j < s`, `t < w` is visited exactly once),
  and the evaluation of the bit-extraction helpers of sm2_curve.go on a 32-byte big-endian string.
-/
import SMGo.Model.Curve
import SMGo.Proofs.UtilsNaf
namespace SMGo.Proofs.CurveBits
open SMGo SMGo.Model.Curve SMGo.Proofs.UtilsCmp SMGo.Proofs.UtilsNaf

instance : LawfulMonad Outcome := LawfulMonad.mk'
  (id_map := fun x => by cases x <;> rfl)
  (pure_bind := fun _ _ => rfl)
  (bind_assoc := fun x _ _ => by cases x <;> rfl)

/-- `Σ_{i<n} f i` -/
def sumN : Nat → (Nat → Nat) → Nat
  | 0, _ => 0
  | n + 1, f => sumN n f + f n

@[simp] theorem sumN_zero (f : Nat → Nat) : sumN 0 f = 0 := rfl
theorem sumN_succ (n : Nat) (f : Nat → Nat) : sumN (n + 1) f = sumN n f + f n := rfl

theorem sumN_congr {n : Nat} {f g : Nat → Nat} (h : ∀ i, i < n → f i = g i) : sumN n f = sumN n g := by
  induction n with
  | zero => rfl
  | succ n ih =>
    rw [sumN_succ, sumN_succ, ih (fun i hi => h i (Nat.lt_succ_of_lt hi)), h n (Nat.lt_succ_self n)]

theorem sumN_const_zero (n : Nat) : sumN n (fun _ => 0) = 0 := by
  induction n with
  | zero => rfl
  | succ n ih => rw [sumN_succ, ih]

theorem sumN_add (n : Nat) (f g : Nat → Nat) : sumN n (fun i => f i + g i) = sumN n f + sumN n g := by
  induction n with
  | zero => rfl
  | succ n ih => simp only [sumN_succ, ih]; omega

theorem mul_sumN (c n : Nat) (f : Nat → Nat) : c * sumN n f = sumN n (fun i => c * f i) := by
  induction n with
  | zero => rfl
  | succ n ih => simp only [sumN_succ, Nat.mul_add, ih]

theorem sumN_mul (c n : Nat) (f : Nat → Nat) : sumN n f * c = sumN n (fun i => f i * c) := by
  induction n with
  | zero => simp
  | succ n ih => simp only [sumN_succ, Nat.add_mul, ih]

/-- exchange of two finite sums -/
theorem sumN_comm (m n : Nat) (f : Nat → Nat → Nat) :
    sumN m (fun a => sumN n (fun b => f a b)) = sumN n (fun b => sumN m (fun a => f a b)) := by
  induction m with
  | zero => simp [sumN_const_zero]
  | succ m ih => simp only [sumN_succ, ih, sumN_add]

theorem sumN_append (m n : Nat) (f : Nat → Nat) :
    sumN (m + n) f = sumN m f + sumN n (fun a => f (m + a)) := by
  induction n with
  | zero => simp
  | succ n ih => rw [← Nat.add_assoc, sumN_succ, sumN_succ, ih, Nat.add_assoc]

/-- a tail of zeros does not contribute -/
theorem sumN_zero_tail {n m : Nat} {f : Nat → Nat} (hnm : n ≤ m) (h : ∀ i, n ≤ i → f i = 0) :
    sumN m f = sumN n f := by
  obtain ⟨d, rfl⟩ := Nat.exists_eq_add_of_le hnm
  rw [sumN_append]
  have : sumN d (fun a => f (n + a)) = sumN d (fun _ => 0) :=
    sumN_congr (fun i _ => h (n + i) (Nat.le_add_right n i))
  rw [this, sumN_const_zero, Nat.add_zero]

/-- rows of length `A`: `Σ_{b<B} Σ_{a<A} f (a + A*b) = Σ_{m<A*B} f m` -/
theorem sumN_rows (A B : Nat) (f : Nat → Nat) :
    sumN B (fun b => sumN A (fun a => f (a + A * b))) = sumN (A * B) f := by
  induction B with
  | zero => simp
  | succ B ih =>
    rw [sumN_succ, ih, Nat.mul_succ, sumN_append]
    congr 1
    exact sumN_congr (fun a _ => by rw [Nat.add_comm])

/-- columns first: `Σ_{a<A} Σ_{b<B} f (a + A*b) = Σ_{m<A*B} f m` -/
theorem sumN_cols (A B : Nat) (f : Nat → Nat) :
    sumN A (fun a => sumN B (fun b => f (a + A * b))) = sumN (A * B) f := by
  rw [sumN_comm]; exact sumN_rows A B f

theorem sumN_lt_two_pow (n : Nat) (b : Nat → Nat) (hb : ∀ t, t < n → b t ≤ 1) :
    sumN n (fun t => b t * 2 ^ t) < 2 ^ n := by
  induction n with
  | zero => simp
  | succ n ih =>
    rw [sumN_succ, Nat.pow_succ]
    have h1 := ih (fun t ht => hb t (Nat.lt_succ_of_lt ht))
    have h2 : b n * 2 ^ n ≤ 1 * 2 ^ n := Nat.mul_le_mul_right _ (hb n (Nat.lt_succ_self n))
    omega

/-- the `t`-th binary digit of `Σ b_t 2^t` (for `b_t ∈ {0,1}`) is `b_t` -/
theorem bit_of_sumN (n : Nat) (b : Nat → Nat) (hb : ∀ t, t < n → b t ≤ 1) (t : Nat) (ht : t < n) :
    sumN n (fun t => b t * 2 ^ t) / 2 ^ t % 2 = b t := by
  induction n with
  | zero => omega
  | succ n ih =>
    have hb' : ∀ t, t < n → b t ≤ 1 := fun t ht => hb t (Nat.lt_succ_of_lt ht)
    have hlt := sumN_lt_two_pow n b hb'
    rw [sumN_succ]
    by_cases htn : t < n
    · obtain ⟨d, hd⟩ := Nat.exists_eq_add_of_lt htn
      have e : b n * 2 ^ n = (b n * 2 ^ d * 2) * 2 ^ t := by
        rw [hd, Nat.add_assoc, Nat.pow_add, Nat.pow_succ]
        simp only [Nat.mul_comm, Nat.mul_left_comm]
      rw [e, Nat.add_mul_div_right _ _ (Nat.pow_pos (by decide)), Nat.add_mul_mod_self_right]
      exact ih hb' htn
    · have : t = n := by omega
      subst this
      rw [Nat.add_mul_div_right _ _ (Nat.pow_pos (by decide)), Nat.div_eq_of_lt hlt, Nat.zero_add]
      exact Nat.mod_eq_of_lt (by have := hb t (Nat.lt_succ_self t); omega)

/-- binary expansion above position `r`:
    `n = n % 2^r + Σ_{m<M} bit_{r+m}(n) 2^(r+m) + 2^(r+M) * (n / 2^(r+M))` -/
theorem binary_expansion (n r M : Nat) :
    n % 2 ^ r + sumN M (fun m => n / 2 ^ (r + m) % 2 * 2 ^ (r + m)) + 2 ^ (r + M) * (n / 2 ^ (r + M)) = n := by
  induction M with
  | zero => simp only [sumN_zero, Nat.add_zero]; rw [Nat.add_comm]; exact Nat.div_add_mod n (2 ^ r)
  | succ M ih =>
    rw [sumN_succ]
    have e2 : 2 ^ (r + (M + 1)) = 2 ^ (r + M) * 2 := by rw [← Nat.add_assoc, Nat.pow_succ]
    have e : n / 2 ^ (r + M) = 2 * (n / 2 ^ (r + (M + 1))) + n / 2 ^ (r + M) % 2 := by
      rw [e2, ← Nat.div_div_eq_div_mul]
      exact (Nat.div_add_mod _ 2).symm
    generalize n / 2 ^ (r + (M + 1)) = q at e ⊢
    generalize n / 2 ^ (r + M) % 2 = bM at e ⊢
    rw [e] at ih
    rw [e2]
    generalize sumN M (fun m => n / 2 ^ (r + m) % 2 * 2 ^ (r + m)) = S at ih ⊢
    generalize 2 ^ (r + M) = P at ih ⊢
    rw [Nat.mul_add, ← Nat.mul_assoc] at ih
    rw [Nat.mul_comm bM]
    omega

theorem binary_expansion_lt (n r M : Nat) (h : n < 2 ^ (r + M)) :
    sumN M (fun m => n / 2 ^ (r + m) % 2 * 2 ^ (r + m)) + n % 2 ^ r = n := by
  have := binary_expansion n r M
  rw [Nat.div_eq_of_lt h] at this
  omega

/-! ### the comb partition -/

/-- the `w`-bit pattern read by `extractHigherBits k pos w step` -/
def combDigit (n w step pos : Nat) : Nat :=
  sumN w (fun t => n / 2 ^ (t * step + pos) % 2 * 2 ^ t)

/-- the multiple of the generator stored at index `idx - 1` of sub-table `j` of a
    `w`-`s`-`it`-`r` comb: `Σ_{t<w, bit t of idx set} 2^(r + j*it + t*s*it)` -/
def combMultiplier (w s it r j idx : Nat) : Nat :=
  sumN w (fun t => idx / 2 ^ t % 2 * 2 ^ (r + j * it + t * s * it))

theorem combDigit_lt (n w step pos : Nat) : combDigit n w step pos < 2 ^ w :=
  sumN_lt_two_pow w _ (fun _ _ => Nat.le_of_lt_succ (Nat.mod_lt _ (by decide)))

theorem combMultiplier_zero (w s it r j : Nat) : combMultiplier w s it r j 0 = 0 := by
  unfold combMultiplier
  refine (sumN_congr (g := fun _ => 0) (fun t _ => ?_)).trans (sumN_const_zero w)
  rw [Nat.zero_div, Nat.zero_mod, Nat.zero_mul]

/-- the table entry selected by the extracted pattern carries exactly the extracted bits -/
theorem combMultiplier_digit (n w s it r i j : Nat) :
    combMultiplier w s it r j (combDigit n w (s * it) (i + j * it + r))
      = sumN w (fun t => n / 2 ^ (t * (s * it) + (i + j * it + r)) % 2 * 2 ^ (r + j * it + t * s * it)) := by
  unfold combMultiplier
  apply sumN_congr
  intro t ht
  unfold combDigit
  rw [bit_of_sumN w (fun t => n / 2 ^ (t * (s * it) + (i + j * it + r)) % 2)
    (fun _ _ => Nat.le_of_lt_succ (Nat.mod_lt _ (by decide))) t ht]

/-- what iteration `i` of the comb adds: `Σ_{j<s}` of the selected multipliers -/
def combRow (n w s it r i : Nat) : Nat :=
  sumN s (fun j => combMultiplier w s it r j (combDigit n w (s * it) (i + j * it + r)))

/-- **bit partition**: with `n < 2^(w*s*it + r)`,
    `n = Σ_{i<it} 2^i · Σ_{j<s} multiplier(j, pattern(i, j)) + n mod 2^r` -/
theorem comb_partition (n w s it r : Nat) (h : n < 2 ^ (w * s * it + r)) :
    sumN it (fun i => 2 ^ i * combRow n w s it r i) + n % 2 ^ r = n := by
  have key : sumN it (fun i => 2 ^ i * combRow n w s it r i)
      = sumN (it * (s * w)) (fun m => n / 2 ^ (r + m) % 2 * 2 ^ (r + m)) := by
    -- rewrite every summand as g (i + it * (j + s * t)) with g m = bit_{r+m}(n) 2^(r+m)
    have e1 : ∀ i, 2 ^ i * combRow n w s it r i
        = sumN s (fun j => sumN w (fun t =>
            (fun m => n / 2 ^ (r + m) % 2 * 2 ^ (r + m)) (i + it * (j + s * t)))) := by
      intro i
      unfold combRow
      rw [mul_sumN]
      apply sumN_congr; intro j _
      rw [combMultiplier_digit, mul_sumN]
      apply sumN_congr; intro t _
      have p1 : t * (s * it) + (i + j * it + r) = r + (i + it * (j + s * t)) := by
        rw [Nat.mul_add, Nat.mul_comm it j, ← Nat.mul_assoc it s t, Nat.mul_comm it s,
          Nat.mul_comm (s * it) t]; omega
      have p2 : 2 ^ i * 2 ^ (r + j * it + t * s * it) = 2 ^ (r + (i + it * (j + s * t))) := by
        rw [← Nat.pow_add]; congr 1
        rw [Nat.mul_add, Nat.mul_comm it j, ← Nat.mul_assoc it s t, Nat.mul_comm it s,
          Nat.mul_comm (s * it) t, Nat.mul_assoc t s it]; omega
      rw [p1, Nat.mul_left_comm, p2]
    rw [sumN_congr (fun i _ => e1 i)]
    -- Σ_i Σ_j Σ_t g (i + it*(j + s*t)) = Σ_i Σ_{x < s*w} g (i + it*x) = Σ_{m < it*(s*w)} g m
    have e2 : ∀ i, sumN s (fun j => sumN w (fun t =>
            (fun m => n / 2 ^ (r + m) % 2 * 2 ^ (r + m)) (i + it * (j + s * t))))
        = sumN (s * w) (fun x => (fun m => n / 2 ^ (r + m) % 2 * 2 ^ (r + m)) (i + it * x)) := by
      intro i
      exact sumN_cols s w (fun x => (fun m => n / 2 ^ (r + m) % 2 * 2 ^ (r + m)) (i + it * x))
    rw [sumN_congr (fun i _ => e2 i)]
    exact sumN_cols it (s * w) (fun m => n / 2 ^ (r + m) % 2 * 2 ^ (r + m))
  rw [key]
  apply binary_expansion_lt
  have : r + it * (s * w) = w * s * it + r := by
    rw [Nat.mul_comm it, Nat.mul_comm s w]; omega
  rw [this]; exact h

/-! ### the bit-extraction helpers on a 32-byte string -/

theorem extractBit_eq (k : Bytes) (hk : k.length = 32) (idx : Nat) (hidx : idx < 256) :
    extractBit k idx = .ok (Bytes.toNatBE k / 2 ^ idx % 2) := by
  obtain ⟨h1, h2⟩ := byte_at k hk (idx / 8) (by omega)
  unfold extractBit
  rw [if_neg (by omega)]
  simp only [h1, Outcome.bind_ok, h2, Nat.shiftRight_eq_div_pow, Outcome.pure_eq]
  rw [bit_core _ _ (Nat.mod_lt _ (by decide)), ← div_two_pow_split]

theorem extractBit_panics (k : Bytes) (idx : Nat) (hidx : 256 ≤ idx) : extractBit k idx = .panic := by
  unfold extractBit
  rw [if_pos (by omega)]

/-- the loop of `extractHigherBits` after `m` rounds -/
theorem extractHigherBits_loop (k : Bytes) (hk : k.length = 32) (idx step : Nat) :
    ∀ m, m ≤ 8 → (∀ t, t < m → t * step + idx < 256) →
      (List.range m).foldlM (fun bits i => do
          let bit ← extractBit k (i * step + idx)
          pure ((bits ||| (bit <<< i)) % 256)) 0
        = Outcome.ok (combDigit (Bytes.toNatBE k) m step idx) := by
  intro m
  induction m with
  | zero => intro _ _; rfl
  | succ m ih =>
    intro hm hpos
    rw [List.range_succ, List.foldlM_append, ih (by omega) (fun t ht => hpos t (by omega))]
    simp only [Outcome.bind_ok, List.foldlM_cons, List.foldlM_nil,
      extractBit_eq k hk _ (hpos m (Nat.lt_succ_self m)), Outcome.pure_eq]
    have hlt := combDigit_lt (Bytes.toNatBE k) m step idx
    rw [or_shift _ _ _ hlt]
    have hlt2 := combDigit_lt (Bytes.toNatBE k) (m + 1) step idx
    have e : combDigit (Bytes.toNatBE k) (m + 1) step idx
        = combDigit (Bytes.toNatBE k) m step idx + Bytes.toNatBE k / 2 ^ (m * step + idx) % 2 * 2 ^ m := rfl
    rw [← e]
    have : 2 ^ (m + 1) ≤ 2 ^ 8 := Nat.pow_le_pow_right (by decide) hm
    rw [Nat.mod_eq_of_lt (by omega)]

theorem extractHigherBits_eq (k : Bytes) (hk : k.length = 32) (idx window step : Nat)
    (hw : window ≤ 8) (hpos : ∀ t, t < window → t * step + idx < 256) :
    extractHigherBits k idx window step = .ok (combDigit (Bytes.toNatBE k) window step idx) :=
  extractHigherBits_loop k hk idx step window hw hpos

theorem extractLowerBits_eq (k : Bytes) (hk : k.length = 32) (count : Nat) (hc : count ≤ 8) :
    extractLowerBits k count = .ok (Bytes.toNatBE k % 2 ^ count) := by
  obtain ⟨h1, h2⟩ := byte_at k hk 0 (by omega)
  unfold extractLowerBits
  simp only [Nat.sub_zero] at h1 h2
  simp only [h1, Outcome.bind_ok, h2, Outcome.pure_eq, and_mask, Nat.pow_zero, Nat.div_one]
  have : (256 : Nat) = 2 ^ 8 := rfl
  rw [this, Nat.mod_mod_of_dvd _ (Nat.pow_dvd_pow 2 hc)]

theorem toNatBE_lt_256 (k : Bytes) (hk : k.length = 32) : Bytes.toNatBE k < 2 ^ 256 := by
  have := toNatBE_lt k
  rw [hk] at this
  exact this

end SMGo.Proofs.CurveBits
