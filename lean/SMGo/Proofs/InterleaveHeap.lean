/-
  Property C17 (concurrent use, PARTIAL) — whole calls on the slice heap, in any order.

  `Contract c h0`: what a heap call promises relative to the heap `h0` the calls start from — run
  in ANY later heap `h1` in which the old arrays still exist with their lengths (`Compat`) and the
  call's input slices still show what they showed in `h0`, the call
    * does not panic and shows the caller the SAME bytes as when run in `h0` (alone, first);
    * changes no byte outside the spare capacity of its window `win` (so every slice that does
      not meet it shows what it showed), keeps all arrays and their lengths;
    * returns a slice that no other call, whose window does not meet `win[:cap]`, can write to
      (it lies inside `win[:cap]` or in an array allocated by this call).
  `Contract` is proved for Seal and Open from the closed forms / contracts behind property C10
  (`seal_contract`, `open_contract_ok`, `open_contract_err`, `seal_expand`, `open_expand_ok` of
  Proofs/GCMGlue*.lean) and for the Block methods directly.

  `runAll_spec` / `calls_any_order`: calls with contracts whose windows pairwise meet neither each
  other (`win[:cap]`) nor each other's inputs (`Apart`): executed one after the other in ANY order,
  every call shows its caller what it shows when run alone from `h0`, and every slice that meets
  no window is unchanged.  Array identities of results are NOT order-independent (a call without
  room allocates, and which id the new array gets depends on who allocated before): results are
  compared by the bytes they show, which is all a Go caller can see of a `[]byte`.
  Core Lean only.
-/
import SMGo.Model.Interleave
import SMGo.Proofs.Slice
import SMGo.Proofs.GCMGlue
import SMGo.Proofs.GCMGlueContract
namespace SMGo.Proofs.InterleaveHeap
open SMGo SMGo.Model SMGo.Model.Mem SMGo.Model.GCMGlue SMGo.Model.Interleave SMGo.Proofs.Slice
open SMGo.Proofs.GCMGlue

/-! ### heaps that kept the old arrays -/

/-- every array of `h0` still exists in `h1`, with its length -/
def Compat (h0 h1 : Heap) : Prop :=
  h0.length ≤ h1.length ∧ ∀ a, a < h0.length → (arrayOf h1 a).length = (arrayOf h0 a).length

theorem Compat.refl (h : Heap) : Compat h h := ⟨Nat.le_refl _, fun _ _ => rfl⟩

theorem Compat.trans {h0 h1 h2 : Heap} (a : Compat h0 h1) (b : Compat h1 h2) : Compat h0 h2 :=
  ⟨Nat.le_trans a.1 b.1, fun x hx => by rw [b.2 x (Nat.lt_of_lt_of_le hx a.1), a.2 x hx]⟩

theorem Compat.wf {h0 h1 : Heap} (c : Compat h0 h1) (s : Slice) (hwf : WF h0 s) : WF h1 s :=
  WF_of_lengths h0 h1 c.1 c.2 s hwf

theorem compat_of_unchanged {h h' : Heap} {R : Nat → Nat → Prop} (hu : UnchangedOutside h h' R) :
    Compat h h' := ⟨hu.1, hu.2.1⟩

/-! ### the contract of a heap call -/

/-- the window of `c` meets neither what `c'` reads nor the whole extent of the window of `c'` -/
def Apart (c c' : HeapCall) : Prop :=
  (∀ s ∈ c'.ins, Disjoint c.win s) ∧ Disjoint c.win (full c'.win)

/-- `Apart` both ways -/
def Apart2 (c c' : HeapCall) : Prop := Apart c c' ∧ Apart c' c

theorem Apart2.symm {c c' : HeapCall} (h : Apart2 c c') : Apart2 c' c := ⟨h.2, h.1⟩

structure Contract (c : HeapCall) (h0 : Heap) : Prop where
  wf_win : WF h0 c.win
  wf_ins : ∀ s ∈ c.ins, WF h0 s
  stable : ∀ h1, Compat h0 h1 → (∀ s ∈ c.ins, Mem.read h1 s = Mem.read h0 s) →
    ∃ h2 r, c.run h1 = .ok (h2, r) ∧ view (c.run h1) = view (c.run h0) ∧ Compat h1 h2 ∧
      (∀ s, WF h1 s → Disjoint c.win s → Mem.read h2 s = Mem.read h1 s) ∧
      (∀ r', r = some r' → WF h2 r' ∧ ∀ d, WF h0 d → Disjoint d (full c.win) → Disjoint d r')

/-- a call with a contract runs (alone, from `h0`) without panic -/
theorem Contract.alone_ok {c : HeapCall} {h0 : Heap} (hc : Contract c h0) :
    ∃ v, view (c.run h0) = .ok v := by
  obtain ⟨h2, r, e, _⟩ := hc.stable h0 (Compat.refl h0) (fun _ _ => rfl)
  exact ⟨r.map (Mem.read h2), by rw [e]; rfl⟩

/-! ### any order -/

/-- the induction: from any heap `h1` that kept `h0`'s arrays and in which the inputs of all the
    calls still show what they showed in `h0` -/
theorem runAll_spec (h0 : Heap) (cs : List HeapCall) (hc : ∀ c ∈ cs, Contract c h0)
    (hp : cs.Pairwise Apart2) :
    ∀ h1, Compat h0 h1 → (∀ c ∈ cs, ∀ s ∈ c.ins, Mem.read h1 s = Mem.read h0 s) →
      ∃ hf rs, runAll h1 cs = .ok (hf, rs) ∧ Compat h1 hf ∧
        rs.map (fun r => Outcome.ok (r.map (Mem.read hf))) = cs.map (fun c => view (c.run h0)) ∧
        (∀ s, WF h1 s → (∀ c ∈ cs, Disjoint c.win s) → Mem.read hf s = Mem.read h1 s) := by
  induction cs with
  | nil =>
    intro h1 _ _
    exact ⟨h1, [], rfl, Compat.refl h1, rfl, fun _ _ _ => rfl⟩
  | cons c rest ih =>
    intro h1 hcomp hreads
    obtain ⟨hhead, hrest⟩ := List.pairwise_cons.mp hp
    have hcc := hc c (List.mem_cons_self)
    obtain ⟨h2, r, e, hview, hc12, hframe1, hprot⟩ :=
      hcc.stable h1 hcomp (hreads c (List.mem_cons_self))
    have hcomp2 : Compat h0 h2 := hcomp.trans hc12
    have hreads2 : ∀ c' ∈ rest, ∀ s ∈ c'.ins, Mem.read h2 s = Mem.read h0 s := by
      intro c' hc' s hs
      have hws : WF h1 s := hcomp.wf s ((hc c' (List.mem_cons_of_mem _ hc')).wf_ins s hs)
      rw [hframe1 s hws ((hhead c' hc').1.1 s hs)]
      exact hreads c' (List.mem_cons_of_mem _ hc') s hs
    obtain ⟨hf, rs, e2, hc2f, hviews, hframe2⟩ :=
      ih (fun c' hc' => hc c' (List.mem_cons_of_mem _ hc')) hrest h2 hcomp2 hreads2
    refine ⟨hf, r :: rs, ?_, hc12.trans hc2f, ?_, ?_⟩
    · simp only [runAll, e, e2]
    · simp only [List.map_cons]
      rw [hviews]
      congr 1
      rw [← hview, e]
      show Outcome.ok (r.map (Mem.read hf)) = Outcome.ok (r.map (Mem.read h2))
      cases r with
      | none => rfl
      | some r' =>
        obtain ⟨hwr, hd⟩ := hprot r' rfl
        have : Mem.read hf r' = Mem.read h2 r' := by
          apply hframe2 r' hwr
          intro c' hc'
          exact hd c'.win (hc c' (List.mem_cons_of_mem _ hc')).wf_win (hhead c' hc').2.2
        simp [this]
    · intro s hws hdis
      rw [hframe2 s (hc12.wf s hws) (fun c' hc' => hdis c' (List.mem_cons_of_mem _ hc'))]
      exact hframe1 s hws (hdis c (List.mem_cons_self))

/-- **Calls in any order.**  Heap calls with contracts relative to `h0`, pairwise apart: executed
    one after the other in any order `cs'` (a permutation of `cs`), no call panics, every call
    shows its caller the bytes it shows when it runs alone from `h0`, and every slice of `h0`
    that meets no window shows what it showed. -/
theorem calls_any_order (h0 : Heap) (cs : List HeapCall) (hc : ∀ c ∈ cs, Contract c h0)
    (hp : cs.Pairwise Apart2) (cs' : List HeapCall) (hperm : cs'.Perm cs) :
    ∃ hf rs, runAll h0 cs' = .ok (hf, rs) ∧
      (∃ vs, viewAll (runAll h0 cs') = .ok vs ∧
        vs.map Outcome.ok = cs'.map (fun c => view (c.run h0))) ∧
      (∀ s, WF h0 s → (∀ c ∈ cs, Disjoint c.win s) → Mem.read hf s = Mem.read h0 s) := by
  have hc' : ∀ c ∈ cs', Contract c h0 := fun c hm => hc c (hperm.mem_iff.mp hm)
  have hp' : cs'.Pairwise Apart2 := (hperm.pairwise_iff (fun h => Apart2.symm h)).mpr hp
  obtain ⟨hf, rs, e, _, hviews, hframe⟩ :=
    runAll_spec h0 cs' hc' hp' h0 (Compat.refl h0) (fun _ _ _ _ => rfl)
  refine ⟨hf, rs, e, ⟨rs.map (fun r => r.map (Mem.read hf)), by rw [e]; rfl, ?_⟩, ?_⟩
  · rw [← hviews, List.map_map]; rfl
  · intro s hws hdis
    exact hframe s hws (fun c hm => hdis c (hperm.mem_iff.mp hm))

/-- two calls: both orders -/
theorem two_calls_commute (h0 : Heap) (a b : HeapCall) (ha : Contract a h0) (hb : Contract b h0)
    (hab : Apart2 a b) :
    ∃ va vb, view (a.run h0) = .ok va ∧ view (b.run h0) = .ok vb ∧
      viewAll (runAll h0 [a, b]) = .ok [va, vb] ∧ viewAll (runAll h0 [b, a]) = .ok [vb, va] := by
  obtain ⟨va, hva⟩ := ha.alone_ok
  obtain ⟨vb, hvb⟩ := hb.alone_ok
  have hc : ∀ c ∈ [a, b], Contract c h0 := by
    intro c hm
    simp only [List.mem_cons, List.mem_nil_iff, or_false] at hm
    rcases hm with rfl | rfl
    · exact ha
    · exact hb
  have hp : [a, b].Pairwise Apart2 := by
    apply List.pairwise_cons.mpr
    refine ⟨?_, List.pairwise_cons.mpr ⟨fun _ h => absurd h (List.not_mem_nil), List.Pairwise.nil⟩⟩
    intro c hm
    simp only [List.mem_cons, List.mem_nil_iff, or_false] at hm
    subst hm; exact hab
  refine ⟨va, vb, hva, hvb, ?_, ?_⟩
  · obtain ⟨_, _, _, ⟨vs, e, hvs⟩, _⟩ := calls_any_order h0 [a, b] hc hp [a, b] (List.Perm.refl _)
    rw [e]
    simp only [List.map_cons, List.map_nil, hva, hvb] at hvs
    match vs, hvs with
    | [x, y], hvs =>
      simp only [List.map_cons, List.map_nil, List.cons.injEq, Outcome.ok.injEq, and_true] at hvs
      rw [hvs.1, hvs.2]
  · obtain ⟨_, _, _, ⟨vs, e, hvs⟩, _⟩ :=
      calls_any_order h0 [a, b] hc hp [b, a] (List.Perm.swap a b [])
    rw [e]
    simp only [List.map_cons, List.map_nil, hva, hvb] at hvs
    match vs, hvs with
    | [x, y], hvs =>
      simp only [List.map_cons, List.map_nil, List.cons.injEq, Outcome.ok.injEq, and_true] at hvs
      rw [hvs.1, hvs.2]

/-! ### Seal -/

/-- a slice of `h0` and the array a later `make` allocates are different arrays -/
theorem fresh_arr_ne (h0 h1 : Heap) (hc : Compat h0 h1) (d : Slice) (hwd : WF h0 d) (n : Nat) :
    (fresh h1 n).arr ≠ d.arr := by
  obtain ⟨arr, o, len, cap⟩ := d
  cases arr with
  | none => simp [fresh]
  | some a =>
    have ha : a < h0.length := hwd.2.1
    have := hc.1
    simp only [fresh, ne_eq, Option.some.injEq]
    omega

/-- a re-slice of `dst` inside its capacity is out of reach of a window apart from `dst[:cap]` -/
theorem disjoint_reslice (d dst : Slice) (n : Nat) (hn : n ≤ dst.cap)
    (hd : Disjoint d (full dst)) : Disjoint d { dst with len := n } := by
  rcases hd with hd | hd | hd
  · exact Or.inl hd
  · right; left
    show dst.off + n ≤ d.off + d.len
    have : dst.off + dst.cap ≤ d.off + d.len := hd
    omega
  · exact Or.inr (Or.inr hd)

theorem sealCall_run (g : GcmAsm) (dst nonce pt aad : Slice) (h h' : Heap) (ret : Slice)
    (e : GCMGlue.seal g h dst nonce pt aad = .ok (h', ret)) :
    (sealCall g dst nonce pt aad).run h = .ok (h', some ret) := by
  simp only [sealCall, e]

/-- the contract of a Seal call (nonce of the right length, plaintext not too long) -/
theorem sealCall_contract (g : GcmAsm) (hl : AsmLens g) (ht : 0 < g.tagSize)
    (h0 : Heap) (dst nonce pt aad : Slice)
    (hwf : WF h0 dst) (hwn : WF h0 nonce) (hwp : WF h0 pt) (hwa : WF h0 aad)
    (hn : nonce.len = g.nonceSize) (hp : pt.len ≤ maxPlain) :
    Contract (sealCall g dst nonce pt aad) h0 where
  wf_win := hwf
  wf_ins := by
    intro s hs
    simp only [sealCall, List.mem_cons, List.mem_nil_iff, or_false] at hs
    rcases hs with rfl | rfl | rfl | rfl <;> assumption
  stable := by
    intro h1 hc hr
    have hrd : Mem.read h1 dst = Mem.read h0 dst := hr dst (by simp [sealCall])
    have hrn : Mem.read h1 nonce = Mem.read h0 nonce := hr nonce (by simp [sealCall])
    have hrp : Mem.read h1 pt = Mem.read h0 pt := hr pt (by simp [sealCall])
    have hra : Mem.read h1 aad = Mem.read h0 aad := hr aad (by simp [sealCall])
    obtain ⟨h2, ret, e, hwr, hread, _, hreq, hun, hdis⟩ :=
      seal_contract g hl ht h1 dst nonce pt aad (hc.wf _ hwf) (hc.wf _ hwn) (hc.wf _ hwp)
        (hc.wf _ hwa) hn hp
    obtain ⟨h2', ret', e', _, hread', _⟩ :=
      seal_contract g hl ht h0 dst nonce pt aad hwf hwn hwp hwa hn hp
    refine ⟨h2, some ret, sealCall_run g dst nonce pt aad h1 h2 ret e, ?_,
      compat_of_unchanged hun, hdis, ?_⟩
    · rw [sealCall_run g dst nonce pt aad h1 h2 ret e, sealCall_run g dst nonce pt aad h0 h2' ret' e']
      show Outcome.ok (some (Mem.read h2 ret)) = Outcome.ok (some (Mem.read h2' ret'))
      rw [hread, hread']
      simp only [sealBytes, hrd, hrn, hrp, hra]
    · intro r' hr'
      injection hr' with hr'
      subst hr'
      refine ⟨hwr, ?_⟩
      intro d hwd hdd
      by_cases hroom : pt.len + g.tagSize ≤ dst.cap - dst.len
      · rw [hreq hroom]
        have := (hc.wf _ hwf).1
        exact disjoint_reslice d dst _ (by omega) hdd
      · have he := seal_expand g h1 dst nonce pt aad hl ht (hc.wf _ hwf) (hc.wf _ hwn)
          (hc.wf _ hwp) (hc.wf _ hwa) hn hp hroom
        rw [he] at e
        injection e with e
        injection e with _ e2
        rw [← e2]
        exact Or.inl (fresh_arr_ne h0 h1 hc d hwd _)

/-- what a Seal call shows its caller, alone: `dst ‖ sealOut(nonce, plaintext, aad)` -/
theorem sealCall_view (g : GcmAsm) (hl : AsmLens g) (ht : 0 < g.tagSize)
    (h0 : Heap) (dst nonce pt aad : Slice)
    (hwf : WF h0 dst) (hwn : WF h0 nonce) (hwp : WF h0 pt) (hwa : WF h0 aad)
    (hn : nonce.len = g.nonceSize) (hp : pt.len ≤ maxPlain) :
    view ((sealCall g dst nonce pt aad).run h0) =
      .ok (some (Mem.read h0 dst ++
        g.asm.sealOut (Mem.read h0 nonce) (Mem.read h0 pt) (Mem.read h0 aad))) := by
  obtain ⟨h2, ret, e, _, hread, _⟩ :=
    seal_contract g hl ht h0 dst nonce pt aad hwf hwn hwp hwa hn hp
  rw [sealCall_run g dst nonce pt aad h0 h2 ret e]
  show Outcome.ok (some (Mem.read h2 ret)) = _
  rw [hread]; rfl

/-! ### Open -/

/-- the contract of an Open call (nonce of the right length, tag size at least 12) -/
theorem openCall_contract (g : GcmAsm) (hl : AsmLens g) (ht : gcmMinimumTagSize ≤ g.tagSize)
    (h0 : Heap) (dst nonce ct aad : Slice)
    (hwf : WF h0 dst) (hwn : WF h0 nonce) (hwc : WF h0 ct) (hwa : WF h0 aad)
    (hn : nonce.len = g.nonceSize) :
    Contract (openCall g dst nonce ct aad) h0 where
  wf_win := hwf
  wf_ins := by
    intro s hs
    simp only [openCall, List.mem_cons, List.mem_nil_iff, or_false] at hs
    rcases hs with rfl | rfl | rfl | rfl <;> assumption
  stable := by
    intro h1 hc hr
    have hrd : Mem.read h1 dst = Mem.read h0 dst := hr dst (by simp [openCall])
    have hrn : Mem.read h1 nonce = Mem.read h0 nonce := hr nonce (by simp [openCall])
    have hrc : Mem.read h1 ct = Mem.read h0 ct := hr ct (by simp [openCall])
    have hra : Mem.read h1 aad = Mem.read h0 aad := hr aad (by simp [openCall])
    have hov : openVal g h1 nonce ct aad = openVal g h0 nonce ct aad := by
      simp only [openVal, hrn, hrc, hra]
    by_cases hok : g.tagSize ≤ ct.len ∧ ct.len ≤ maxPlain + g.tagSize ∧
        (openVal g h0 nonce ct aad).isSome
    · obtain ⟨hc1, hc2, hsome⟩ := hok
      obtain ⟨p, hv⟩ := Option.isSome_iff_exists.mp hsome
      obtain ⟨h2, ret, e, hwr, hread, _, hreq, hun, hdis⟩ :=
        open_contract_ok g hl ht h1 dst nonce ct aad (hc.wf _ hwf) (hc.wf _ hwn) (hc.wf _ hwc)
          (hc.wf _ hwa) hn hc1 hc2 p (hov.trans hv)
      obtain ⟨h2', ret', e', _, hread', _⟩ :=
        open_contract_ok g hl ht h0 dst nonce ct aad hwf hwn hwc hwa hn hc1 hc2 p hv
      refine ⟨h2, some ret, e, ?_, compat_of_unchanged hun, hdis, ?_⟩
      · show view (GCMGlue.open g h1 dst nonce ct aad) = view (GCMGlue.open g h0 dst nonce ct aad)
        rw [e, e']
        show Outcome.ok (some (Mem.read h2 ret)) = Outcome.ok (some (Mem.read h2' ret'))
        rw [hread, hread', hrd]
      · intro r' hr'
        injection hr' with hr'
        subst hr'
        refine ⟨hwr, ?_⟩
        intro d hwd hdd
        by_cases hroom : ct.len - g.tagSize ≤ dst.cap - dst.len
        · rw [hreq hroom]
          have := (hc.wf _ hwf).1
          exact disjoint_reslice d dst _ (by omega) hdd
        · have he := open_expand_ok g h1 dst nonce ct aad hl (hc.wf _ hwf) (hc.wf _ hwn)
            (hc.wf _ hwc) (hc.wf _ hwa) hn ht hc1 hc2 hroom p (hov.trans hv)
          rw [he] at e
          injection e with e
          injection e with _ e2
          injection e2 with e2
          rw [← e2]
          exact Or.inl (fresh_arr_ne h0 h1 hc d hwd _)
    · have hv : ct.len < g.tagSize ∨ ct.len > maxPlain + g.tagSize ∨
          openVal g h0 nonce ct aad = none := by
        by_cases ha : ct.len < g.tagSize
        · exact Or.inl ha
        · by_cases hb : ct.len > maxPlain + g.tagSize
          · exact Or.inr (Or.inl hb)
          · right; right
            cases hov0 : openVal g h0 nonce ct aad with
            | none => rfl
            | some p => exact absurd ⟨by omega, by omega, by simp [hov0]⟩ hok
      have hv1 : ct.len < g.tagSize ∨ ct.len > maxPlain + g.tagSize ∨
          openVal g h1 nonce ct aad = none := by
        rcases hv with hv | hv | hv
        · exact Or.inl hv
        · exact Or.inr (Or.inl hv)
        · exact Or.inr (Or.inr (hov.trans hv))
      obtain ⟨h2, e, _, hun, hrdall⟩ :=
        open_contract_err g ht h1 dst nonce ct aad (hc.wf _ hwf) (hc.wf _ hwn) (hc.wf _ hwc)
          (hc.wf _ hwa) hn hv1
      obtain ⟨h2', e', _⟩ := open_contract_err g ht h0 dst nonce ct aad hwf hwn hwc hwa hn hv
      refine ⟨h2, none, e, ?_, compat_of_unchanged hun, fun s hws _ => hrdall s hws, ?_⟩
      · show view (GCMGlue.open g h1 dst nonce ct aad) = view (GCMGlue.open g h0 dst nonce ct aad)
        rw [e, e']; rfl
      · intro r' hr'; cases hr'

/-- what an Open call shows its caller, alone: `dst ‖ plaintext` or `(nil, errOpen)` -/
theorem openCall_view (g : GcmAsm) (hl : AsmLens g) (ht : gcmMinimumTagSize ≤ g.tagSize)
    (h0 : Heap) (dst nonce ct aad : Slice)
    (hwf : WF h0 dst) (hwn : WF h0 nonce) (hwc : WF h0 ct) (hwa : WF h0 aad)
    (hn : nonce.len = g.nonceSize) :
    view ((openCall g dst nonce ct aad).run h0) =
      .ok (if ct.len < g.tagSize ∨ ct.len > maxPlain + g.tagSize then none else
        (g.asm.openOut (Mem.read h0 nonce) (Mem.read h0 ct) (Mem.read h0 aad)).map
          (fun p => Mem.read h0 dst ++ p)) := by
  show view (GCMGlue.open g h0 dst nonce ct aad) = _
  by_cases hs : ct.len < g.tagSize ∨ ct.len > maxPlain + g.tagSize
  · rw [if_pos hs, open_short g h0 dst nonce ct aad hn ht hs]; rfl
  · rw [if_neg hs]
    cases hv : g.asm.openOut (Mem.read h0 nonce) (Mem.read h0 ct) (Mem.read h0 aad) with
    | none =>
      obtain ⟨h2, e, _⟩ := open_contract_err g ht h0 dst nonce ct aad hwf hwn hwc hwa hn
        (Or.inr (Or.inr hv))
      rw [e]; rfl
    | some p =>
      obtain ⟨h2, ret, e, _, hread, _⟩ :=
        open_contract_ok g hl ht h0 dst nonce ct aad hwf hwn hwc hwa hn (by omega) (by omega) p hv
      rw [e]
      show Outcome.ok (some (Mem.read h2 ret)) = _
      rw [hread]; rfl

/-! ### Block.Encrypt / Block.Decrypt -/

/-- the closed form of a Block method: the 16 bytes `f(src[:16])` stored at `dst[0:16]` -/
theorem blockCrypt_ok (f : Bytes → Bytes) (hf : ∀ bs, bs.length = blockSize → (f bs).length = blockSize)
    (h : Heap) (dst src : Slice) (hwd : WF h dst) (hws : WF h src)
    (hd : blockSize ≤ dst.len) (hs : blockSize ≤ src.len) :
    ∃ a, dst.arr = some a ∧ a < h.length ∧ dst.off + blockSize ≤ (arrayOf h a).length ∧
      blockCrypt f h dst src =
        .ok (poke h a dst.off (f (Mem.read h { src with len := blockSize }))) := by
  have hb : blockSize = 16 := rfl
  obtain ⟨a, hda, ha, hcap⟩ := arr_of_cap_pos h dst hwd (by have := hwd.1; omega)
  obtain ⟨b, hsb, _, _⟩ := arr_of_cap_pos h src hws (by have := hws.1; omega)
  refine ⟨a, hda, ha, by have := hwd.1; omega, ?_⟩
  have hws16 : WF h { src with len := blockSize } := by
    obtain ⟨arr, o, len, cap⟩ := src
    exact ⟨by have := hws.1; simp at this hs ⊢; omega, hws.2⟩
  have hrd := readPtr_slice h { src with len := blockSize } b hsb hws16
  have hl16 : (Mem.read h { src with len := blockSize }).length = blockSize :=
    length_read h _ hws16
  have hne : (f (Mem.read h { src with len := blockSize })).isEmpty = false := by
    cases hr : f (Mem.read h { src with len := blockSize }) with
    | nil => have := hf (Mem.read h { src with len := blockSize }) hl16; rw [hr] at this; simp [hb] at this
    | cons => rfl
  have hin : a < h.length ∧
      dst.off + (f (Mem.read h { src with len := blockSize })).length ≤ (arrayOf h a).length := by
    rw [hf _ hl16]; have := hwd.1; exact ⟨ha, by omega⟩
  have hw : writePtr h (some (a, dst.off)) (f (Mem.read h { src with len := blockSize }))
      = .ok (poke h a dst.off (f (Mem.read h { src with len := blockSize }))) := by
    simp only [writePtr, hne, writeAt, hin, and_self, if_true, Bool.false_eq_true, if_false]
  have h1 : ¬ src.len < blockSize := by omega
  have h2 : ¬ dst.len < blockSize := by omega
  have ad : addrOf dst 0 = .ok (some (a, dst.off)) := by
    have := addrOf_ok dst a 0 hda (by omega); simpa using this
  have as : addrOf src 0 = .ok (some (b, src.off)) := by
    have := addrOf_ok src b 0 hsb (by omega); simpa using this
  unfold blockCrypt
  simp only [h1, h2, if_false]
  show (addrOf dst 0 >>= fun d => addrOf src 0 >>= fun s => readPtr h s blockSize >>= fun bs =>
    writePtr h d (f bs)) = _
  rw [ad, Outcome.bind_ok, as, Outcome.bind_ok]
  have hrd' : readPtr h (some (b, src.off)) blockSize
      = .ok (Mem.read h { src with len := blockSize }) := hrd
  rw [hrd', Outcome.bind_ok, hw]

theorem blockCall_run (f : Bytes → Bytes) (dst src : Slice) (h h' : Heap)
    (e : blockCrypt f h dst src = .ok h') :
    (blockCall f dst src).run h = .ok (h', some { dst with len := blockSize }) := by
  simp only [blockCall, e]

/-- what `dst[:16]` shows after the store -/
theorem read_poke_block (h : Heap) (a : Nat) (dst : Slice) (bs : Bytes) (hda : dst.arr = some a)
    (ha : a < h.length) (hb : dst.off + bs.length ≤ (arrayOf h a).length) :
    Mem.read (poke h a dst.off bs) { dst with len := bs.length } = bs := by
  have := read_poke_extend h a bs { dst with len := 0 } hda ha (by simpa using hb)
  simp only [Nat.add_zero, Nat.zero_add] at this
  rw [this]
  cases hda' : dst.arr <;> simp [Mem.read]

/-- the contract of a Block method call on slices of at least one block -/
theorem blockCall_contract (f : Bytes → Bytes) (hf : ∀ bs, bs.length = blockSize → (f bs).length = blockSize)
    (h0 : Heap) (dst src : Slice) (hwd : WF h0 dst) (hws : WF h0 src)
    (hd : blockSize ≤ dst.len) (hs : blockSize ≤ src.len) :
    Contract (blockCall f dst src) h0 where
  wf_win := by
    have hb : blockSize = 16 := rfl
    obtain ⟨a, hda, ha, hcap⟩ := arr_of_cap_pos h0 dst hwd (by have := hwd.1; omega)
    obtain ⟨arr, o, len, cap⟩ := dst
    simp at hda; subst hda
    have := hwd.1
    show WF h0 (blockWin _)
    exact ⟨Nat.zero_le _, ha, by simp [blockWin] at *; omega⟩
  wf_ins := by
    intro s hs'
    simp only [blockCall, List.mem_cons, List.mem_nil_iff, or_false] at hs'
    subst hs'
    obtain ⟨arr, o, len, cap⟩ := src
    exact ⟨by have := hws.1; simp at this hs ⊢; omega, hws.2⟩
  stable := by
    intro h1 hc hr
    have hrs : Mem.read h1 { src with len := blockSize } = Mem.read h0 { src with len := blockSize } :=
      hr _ (by simp [blockCall])
    obtain ⟨a, hda, ha, hcap, e⟩ := blockCrypt_ok f hf h1 dst src (hc.wf _ hwd) (hc.wf _ hws) hd hs
    obtain ⟨a', hda', ha', hcap', e'⟩ := blockCrypt_ok f hf h0 dst src hwd hws hd hs
    have haa : a' = a := by rw [hda] at hda'; exact (Option.some.inj hda').symm
    subst haa
    have hws16 : WF h0 { src with len := blockSize } := by
      obtain ⟨arr, o, len, cap⟩ := src
      exact ⟨by have := hws.1; simp at this hs ⊢; omega, hws.2⟩
    have hlen1 := hf (Mem.read h1 { src with len := blockSize }) (length_read h1 _ (hc.wf _ hws16))
    have hlen0 := hf (Mem.read h0 { src with len := blockSize }) (length_read h0 _ hws16)
    have hb1 : dst.off + (f (Mem.read h1 { src with len := blockSize })).length
        ≤ (arrayOf h1 a').length := by rw [hlen1]; exact hcap
    have hb0 : dst.off + (f (Mem.read h0 { src with len := blockSize })).length
        ≤ (arrayOf h0 a').length := by rw [hlen0]; exact hcap'
    refine ⟨_, _, blockCall_run f dst src h1 _ e, ?_, ?_, ?_, ?_⟩
    · rw [blockCall_run f dst src h1 _ e, blockCall_run f dst src h0 _ e']
      show Outcome.ok (some (Mem.read _ { dst with len := blockSize })) =
        Outcome.ok (some (Mem.read _ { dst with len := blockSize }))
      have r1 := read_poke_block h1 a' dst _ hda ha hb1
      have r0 := read_poke_block h0 a' dst _ hda ha' hb0
      rw [hlen1] at r1
      rw [hlen0] at r0
      rw [r1, r0, hrs]
    · exact ⟨by rw [length_poke]; exact Nat.le_refl _,
        fun b _ => length_arrayOf_poke h1 a' b _ _ hb1⟩
    · intro s _ hdis
      have hdis : Disjoint (blockWin dst) s := hdis
      apply read_poke_apart h1 a' _ _ s ha hb1
      rw [hlen1]
      rcases hdis with hdis | hdis | hdis
      · left; intro hsa; apply hdis; rw [hsa]; exact hda.symm
      · right; left; simpa [blockWin] using hdis
      · right; right; simpa [blockWin] using hdis
    · intro r' hr'
      injection hr' with hr'
      subst hr'
      refine ⟨?_, ?_⟩
      · apply WF_poke h1 a' _ _ _ hb1
        have hw1 := hc.wf _ hwd
        obtain ⟨arr, o, len, cap⟩ := dst
        exact ⟨by have := hw1.1; simp at this hd ⊢; omega, hw1.2⟩
      · intro d _ hdd
        exact hdd

/-- what a Block method call leaves in `dst[:16]`, alone: `f(src[:16])` -/
theorem blockCall_view (f : Bytes → Bytes) (hf : ∀ bs, bs.length = blockSize → (f bs).length = blockSize)
    (h0 : Heap) (dst src : Slice) (hwd : WF h0 dst) (hws : WF h0 src)
    (hd : blockSize ≤ dst.len) (hs : blockSize ≤ src.len) :
    view ((blockCall f dst src).run h0) =
      .ok (some (f (Mem.read h0 { src with len := blockSize }))) := by
  obtain ⟨a, hda, ha, hcap, e⟩ := blockCrypt_ok f hf h0 dst src hwd hws hd hs
  rw [blockCall_run f dst src h0 _ e]
  show Outcome.ok (some (Mem.read _ { dst with len := blockSize })) = _
  have hws16 : WF h0 { src with len := blockSize } := by
    obtain ⟨arr, o, len, cap⟩ := src
    exact ⟨by have := hws.1; simp at this hs ⊢; omega, hws.2⟩
  have hlen := hf (Mem.read h0 { src with len := blockSize }) (length_read h0 _ hws16)
  have r := read_poke_block h0 a dst _ hda ha (by rw [hlen]; exact hcap)
  rw [hlen] at r
  rw [r]

/-! ### the calls on one cipher object -/

/-- the calls C17 speaks about, on ONE AEAD value `g` and ONE Block value (`enc`/`dec`: what
    cryptoBlockAsm computes with its encryption / decryption round keys), with arguments that are
    well-formed slices of the heap `h0` and pass the methods' own checks (a call that fails them
    panics whatever the other goroutines do).  `Admissible` (C10: a call's own nonce and additional
    data do not meet its output region, its text does not or overlaps it exactly, e.g. the
    in-place idiom) is not needed by the proofs; it is there because outside it the glue model is
    not claimed to be the code's behaviour (Model/GCMGlue.lean, "aliasing") -/
inductive CipherCall (g : GcmAsm) (enc dec : Bytes → Bytes) (h0 : Heap) : HeapCall → Prop
  | ofSeal (dst nonce pt aad : Slice) (hwf : WF h0 dst) (hwn : WF h0 nonce) (hwp : WF h0 pt)
      (hwa : WF h0 aad) (hn : nonce.len = g.nonceSize) (hp : pt.len ≤ maxPlain)
      (hadm : Admissible dst nonce pt aad) :
      CipherCall g enc dec h0 (sealCall g dst nonce pt aad)
  | ofOpen (dst nonce ct aad : Slice) (hwf : WF h0 dst) (hwn : WF h0 nonce) (hwc : WF h0 ct)
      (hwa : WF h0 aad) (hn : nonce.len = g.nonceSize) (hadm : Admissible dst nonce ct aad) :
      CipherCall g enc dec h0 (openCall g dst nonce ct aad)
  | ofEncrypt (dst src : Slice) (hwd : WF h0 dst) (hws : WF h0 src)
      (hd : blockSize ≤ dst.len) (hs : blockSize ≤ src.len) :
      CipherCall g enc dec h0 (blockCall enc dst src)
  | ofDecrypt (dst src : Slice) (hwd : WF h0 dst) (hws : WF h0 src)
      (hd : blockSize ≤ dst.len) (hs : blockSize ≤ src.len) :
      CipherCall g enc dec h0 (blockCall dec dst src)

theorem cipherCall_contract (g : GcmAsm) (hl : AsmLens g) (ht : gcmMinimumTagSize ≤ g.tagSize)
    (enc dec : Bytes → Bytes) (he : ∀ bs, bs.length = blockSize → (enc bs).length = blockSize)
    (hd : ∀ bs, bs.length = blockSize → (dec bs).length = blockSize) (h0 : Heap) (c : HeapCall)
    (hc : CipherCall g enc dec h0 c) : Contract c h0 := by
  have ht0 : 0 < g.tagSize := Nat.lt_of_lt_of_le (by decide) ht
  cases hc with
  | ofSeal dst nonce pt aad hwf hwn hwp hwa hn hp _ =>
    exact sealCall_contract g hl ht0 h0 dst nonce pt aad hwf hwn hwp hwa hn hp
  | ofOpen dst nonce ct aad hwf hwn hwc hwa hn _ =>
    exact openCall_contract g hl ht h0 dst nonce ct aad hwf hwn hwc hwa hn
  | ofEncrypt dst src hwd hws hdl hsl => exact blockCall_contract enc he h0 dst src hwd hws hdl hsl
  | ofDecrypt dst src hwd hws hdl hsl => exact blockCall_contract dec hd h0 dst src hwd hws hdl hsl

end SMGo.Proofs.InterleaveHeap
