/-
  C08: the CT-IR label checker (SMGo/Model/CTIR.lean) evaluated by the kernel on the generated program
  (SMGo/Gen/CTIRProg.lean), part A (comparison, key range test, bit extraction, table selection, field element wrappers).  `check (slice prog f) sigs f = true` says: every function reachable
  from `f` respects its label signature (no secret reaches a branch or loop condition, an index, a slice
  bound, an allocation size, a shift count or a leaking external call; declassification only at the
  sites listed in its signature).  By `check_sound` (SMGo/Proofs/CTIRSound.lean) two runs of `f` on inputs
  that agree on the public parameters then leak the same trace, up to the declassified verdicts.
-/
import SMGo.Gen.CTIRProg
open SMGo.Model.CTIR SMGo.Gen.CTIRProg
set_option maxRecDepth 1000000
namespace SMGo.Proofs.CTIRCheck

theorem ct_ConstantTimeCmp : check (slice prog f_utils_ConstantTimeCmp) sigs f_utils_ConstantTimeCmp = true := by decide +kernel
theorem ct_TestPrivateKey : check (slice prog f_sm2_TestPrivateKey) sigs f_sm2_TestPrivateKey = true := by decide +kernel
theorem ct_extractBit : check (slice prog f_internal_extractBit) sigs f_internal_extractBit = true := by decide +kernel
theorem ct_extractHigherBits : check (slice prog f_internal_extractHigherBits) sigs f_internal_extractHigherBits = true := by decide +kernel
theorem ct_extractLowerBits : check (slice prog f_internal_extractLowerBits) sigs f_internal_extractLowerBits = true := by decide +kernel
theorem ct_selectPoints : check (slice prog f_internal_selectPoints) sigs f_internal_selectPoints = true := by decide +kernel
theorem ct_MultiSelectXY : check (slice prog f_internal_SM2Point_MultiSelectXY) sigs f_internal_SM2Point_MultiSelectXY = true := by decide +kernel
theorem ct_MultiSelectXYZ : check (slice prog f_internal_SM2Point_MultiSelectXYZ) sigs f_internal_SM2Point_MultiSelectXYZ = true := by decide +kernel
theorem ct_multiSelectConditioned : check (slice prog f_internal_SM2Point_multiSelectConditioned) sigs f_internal_SM2Point_multiSelectConditioned = true := by decide +kernel
theorem ct_MultiSelect : check (slice prog f_fiat_SM2Element_MultiSelect) sigs f_fiat_SM2Element_MultiSelect = true := by decide +kernel
theorem ct_Select_p : check (slice prog f_fiat_SM2Element_Select) sigs f_fiat_SM2Element_Select = true := by decide +kernel
theorem ct_Set_p : check (slice prog f_fiat_SM2Element_Set) sigs f_fiat_SM2Element_Set = true := by decide +kernel
theorem ct_One_p : check (slice prog f_fiat_SM2Element_One) sigs f_fiat_SM2Element_One = true := by decide +kernel
theorem ct_Add_p : check (slice prog f_fiat_SM2Element_Add) sigs f_fiat_SM2Element_Add = true := by decide +kernel
theorem ct_Sub_p : check (slice prog f_fiat_SM2Element_Sub) sigs f_fiat_SM2Element_Sub = true := by decide +kernel
theorem ct_Opp_p : check (slice prog f_fiat_SM2Element_Opp) sigs f_fiat_SM2Element_Opp = true := by decide +kernel
theorem ct_Mul_p : check (slice prog f_fiat_SM2Element_Mul) sigs f_fiat_SM2Element_Mul = true := by decide +kernel
theorem ct_Square_p : check (slice prog f_fiat_SM2Element_Square) sigs f_fiat_SM2Element_Square = true := by decide +kernel
theorem ct_SetRaw : check (slice prog f_fiat_SM2Element_SetRaw) sigs f_fiat_SM2Element_SetRaw = true := by decide +kernel
theorem ct_GetRaw : check (slice prog f_fiat_SM2Element_GetRaw) sigs f_fiat_SM2Element_GetRaw = true := by decide +kernel

end SMGo.Proofs.CTIRCheck
