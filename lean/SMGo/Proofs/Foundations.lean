/-
  Number-theoretic and elliptic-curve foundations of the SM2 properties (C01–C03, C12–C16):
  primality of p and n, the modular arithmetic of the oracle, and the correspondence of the
  oracle's group law with Mathlib's `WeierstrassCurve.Affine.Point`.  This file only collects the
  modules and prints the axioms every headline theorem depends on.
-/
import SMGo.Proofs.Prime
import SMGo.Proofs.ModArith
import SMGo.Proofs.CurveGroup
import SMGo.Proofs.CurveGroupTwoTorsion

open SMGo.Proofs

#print axioms Prime.p_prime
#print axioms Prime.n_prime
#print axioms Prime.fact_p_prime
#print axioms Prime.fact_n_prime
#print axioms ModArith.powMod_eq
#print axioms ModArith.invMod_spec
#print axioms ModArith.invMod_zero
#print axioms ModArith.invMod_cast
#print axioms CurveGroup.E
#print axioms CurveGroup.E_Δ_ne_zero
#print axioms CurveGroup.onCurve_iff
#print axioms CurveGroup.toPoint
#print axioms CurveGroup.toPoint_injective
#print axioms CurveGroup.add_valid
#print axioms CurveGroup.toPoint_add
#print axioms CurveGroup.neg_valid
#print axioms CurveGroup.toPoint_neg
#print axioms CurveGroup.smul_valid
#print axioms CurveGroup.toPoint_smul
#print axioms CurveGroup.G_valid
#print axioms CurveGroup.n_smul_G
#print axioms CurveGroup.order_G
#print axioms CurveGroup.add_assoc'
#print axioms CurveGroup.smul_add
#print axioms CurveGroup.smul_smul
#print axioms CurveGroup.smul_G_eq_none_iff
#print axioms CurveGroup.smul_G_mod
#print axioms CurveGroup.no_two_torsion
#print axioms CurveGroup.valid_y_ne_zero
#print axioms CurveGroup.two_nsmul_ne_zero
