/-
  Lemmas for property C01 (sign-then-verify):
    * on the integers of the standard: a signature produced by §6.1 with any acceptable nonce is
      accepted by §7.1 under the public point [d]G (`signWith_verifies`);
    * on byte strings: the same for `Spec.SM2.signBytes` / `Spec.SM2.verify`;
    * `DerivePublic`, `ZA` and the hashing `e = SM3(ZA ‖ M)` of the model against the specification.
-/
import SMGo.Proofs.SM2Facts
import SMGo.Proofs.SM2SignBytes
import SMGo.Proofs.SM2SignAlgebra
import SMGo.Proofs.CurveGroup
import SMGo.Proofs.SM2SignLoop
import SMGo.Proofs.SM2Verify

namespace SMGo.Proofs.SM2Round
open SMGo SMGo.Model SMGo.Model.SM2 SMGo.Proofs.SM2Facts SMGo.Proofs.SM2SignBytes
open SMGo.Proofs.SM2SignAlgebra

/-! ### the standard, on integers -/

/-- what an accepted nonce satisfies -/
theorem signWith_some {d e k r s : Nat} (h : Spec.SM2.signWith d e k = some (r, s)) :
    k ≠ 0 ∧ k < Spec.SM2.n ∧ ∃ x1 y1, Spec.SM2.smul k Spec.SM2.G = some (x1, y1) ∧
      r = (e + x1) % Spec.SM2.n ∧ r ≠ 0 ∧ r + k ≠ Spec.SM2.n ∧
      s = Spec.SM2.invMod (1 + d) Spec.SM2.n * ((k + (Spec.SM2.n - r * d % Spec.SM2.n)) % Spec.SM2.n) % Spec.SM2.n ∧
      s ≠ 0 := by
  unfold Spec.SM2.signWith at h
  by_cases hk : k = 0 ∨ k ≥ Spec.SM2.n
  · rw [if_pos hk] at h; cases h
  · rw [if_neg hk] at h
    cases hG : Spec.SM2.smul k Spec.SM2.G with
    | none => rw [hG] at h; cases h
    | some q =>
      obtain ⟨x1, y1⟩ := q
      rw [hG] at h
      simp only [] at h
      by_cases hr : (e + x1) % Spec.SM2.n = 0 ∨ (e + x1) % Spec.SM2.n + k = Spec.SM2.n
      · rw [if_pos hr] at h; cases h
      · rw [if_neg hr] at h
        by_cases hs : Spec.SM2.invMod (1 + d) Spec.SM2.n *
            ((k + (Spec.SM2.n - (e + x1) % Spec.SM2.n * d % Spec.SM2.n)) % Spec.SM2.n) % Spec.SM2.n = 0
        · rw [if_pos hs] at h; cases h
        · rw [if_neg hs] at h
          injection h with h
          injection h with h1 h2
          subst h1
          refine ⟨fun h0 => hk (Or.inl h0), by omega, x1, y1, rfl, rfl, fun h0 => hr (Or.inl h0),
            fun h0 => hr (Or.inr h0), h2.symm, ?_⟩
          rw [← h2]; exact hs

/-- GM/T 0003.2: a signature made with an acceptable nonce verifies under P = [d]G -/
theorem signWith_verifies {d e k r s : Nat} (hv : Spec.SM2.validKey d = true)
    (h : Spec.SM2.signWith d e k = some (r, s)) :
    Spec.SM2.verifyNat (Spec.SM2.smul d Spec.SM2.G) e r s = true := by
  obtain ⟨hk0, hkn, x1, y1, hG, hr, hr0, hrk, hs, hs0⟩ := signWith_some h
  obtain ⟨hd1, hd2⟩ := (validKey_iff d).mp hv
  have hn2 : 2 ≤ Spec.SM2.n := by decide
  have hd : d + 1 < Spec.SM2.n := by omega
  have hrn : r < Spec.SM2.n := by rw [hr]; exact Nat.mod_lt _ n_pos
  have hsn : s < Spec.SM2.n := by rw [hs]; exact Nat.mod_lt _ n_pos
  have ht := t_ne_zero d r k s hd hkn hr0 hrn hrk hs
  have hrec := recover_k d r k s hd hkn hs
  unfold Spec.SM2.verifyNat
  rw [if_neg (by omega)]
  simp only []
  rw [if_neg ht]
  rw [CurveGroup.smul_smul CurveGroup.G_valid, ← CurveGroup.smul_add CurveGroup.G_valid,
    ← CurveGroup.smul_G_mod, hrec, hG]
  simp only []
  rw [← hr]
  exact beq_self_eq_true r

/-- the first acceptable candidate of a stream is an accepted nonce -/
theorem signStream_some {d e : Nat} : ∀ (ks : List Nat) (j0 j r s : Nat),
    Spec.SM2.signStream d e ks j0 = some (j, r, s) → ∃ k, k ∈ ks ∧ Spec.SM2.signWith d e k = some (r, s) := by
  intro ks
  induction ks with
  | nil => intro j0 j r s h; cases h
  | cons k ks ih =>
    intro j0 j r s h
    unfold Spec.SM2.signStream at h
    cases hw : Spec.SM2.signWith d e k with
    | some q =>
      obtain ⟨r', s'⟩ := q
      rw [hw] at h
      simp only [] at h
      injection h with h
      injection h with _ h
      injection h with h1 h2
      subst h1; subst h2
      exact ⟨k, List.mem_cons_self, hw⟩
    | none =>
      rw [hw] at h
      simp only [] at h
      obtain ⟨k', hm, hk'⟩ := ih _ _ _ _ h
      exact ⟨k', List.mem_cons_of_mem _ hm, hk'⟩

/-! ### the standard, on byte strings -/

theorem signBytes_some {priv e r s : Bytes} {sc : Spec.SM2.Script} {c : Nat}
    (h : Spec.SM2.signBytes priv e sc = some (r, s, c)) :
    priv.length ≤ 32 ∧ Spec.SM2.validKey (Bytes.toNatBE priv) = true ∧
      ∃ k rN sN, Spec.SM2.signWith (Bytes.toNatBE priv) (Bytes.toNatBE e) k = some (rN, sN) ∧
        r = Bytes.ofNatBE 32 rN ∧ s = Bytes.ofNatBE 32 sN := by
  unfold Spec.SM2.signBytes at h
  simp only [] at h
  by_cases hp : priv.length > 32 ∨ (!Spec.SM2.validKey (Bytes.toNatBE priv)) = true
  · rw [if_pos hp] at h; cases h
  · rw [if_neg hp] at h
    have hv : Spec.SM2.validKey (Bytes.toNatBE priv) = true := by
      cases hv : Spec.SM2.validKey (Bytes.toNatBE priv) with
      | true => rfl
      | false => exact absurd (Or.inr (by rw [hv]; rfl)) hp
    refine ⟨by omega, hv, ?_⟩
    cases hss : Spec.SM2.signStream (Bytes.toNatBE priv) (Bytes.toNatBE e)
        ((Spec.SM2.candidates sc []).map Bytes.toNatBE) 0 with
    | none => rw [hss] at h; cases h
    | some t =>
      obtain ⟨j, rN, sN⟩ := t
      rw [hss] at h
      simp only [] at h
      injection h with h
      injection h with h1 h
      injection h with h2 _
      obtain ⟨k, _, hk⟩ := signStream_some _ _ _ _ _ hss
      exact ⟨k, rN, sN, hk, h1.symm, h2.symm⟩

/-- byte level: whatever `signBytes` returns is accepted by `verify` under the encoded point [d]G -/
theorem signBytes_verifies {priv e r s : Bytes} {sc : Spec.SM2.Script} {c x y : Nat}
    (he : e.length = 32)
    (hP : Spec.SM2.smul (Bytes.toNatBE priv) Spec.SM2.G = some (x, y))
    (h : Spec.SM2.signBytes priv e sc = some (r, s, c)) :
    Spec.SM2.verify (Bytes.ofNatBE 32 x) (Bytes.ofNatBE 32 y) e r s = true := by
  obtain ⟨_, hv, k, rN, sN, hk, hr, hs⟩ := signBytes_some h
  have hver := signWith_verifies hv hk
  obtain ⟨_, _, _, _, _, hrv, _, _, hsv, _⟩ := signWith_some hk
  have hrn : rN < 256 ^ 32 := by
    rw [hrv]; exact Nat.lt_trans (Nat.mod_lt _ n_pos) n_lt_pow
  have hsn : sN < 256 ^ 32 := by
    rw [hsv]; exact Nat.lt_trans (Nat.mod_lt _ n_pos) n_lt_pow
  have hvalid := CurveGroup.smul_valid (Bytes.toNatBE priv) CurveGroup.G_valid
  rw [hP] at hvalid hver
  obtain ⟨hx, hy, hc⟩ := hvalid
  have hx' : x < 256 ^ 32 := Nat.lt_trans hx p_lt_pow
  have hy' : y < 256 ^ 32 := Nat.lt_trans hy p_lt_pow
  unfold Spec.SM2.verify
  rw [if_neg (by rw [ofNatBE_length, ofNatBE_length, hr, hs, ofNatBE_length, ofNatBE_length]; omega)]
  simp only []
  rw [toNatBE_ofNatBE _ _ hx', toNatBE_ofNatBE _ _ hy', if_neg (by omega), hc]
  simp only [Bool.not_true, Bool.false_eq_true, if_false]
  rw [hr, hs, toNatBE_ofNatBE _ _ hrn, toNatBE_ofNatBE _ _ hsn]
  exact hver

/-- a valid key has a finite public point -/
theorem public_point_exists {d : Nat} (hv : Spec.SM2.validKey d = true) :
    ∃ x y, Spec.SM2.smul d Spec.SM2.G = some (x, y) := by
  obtain ⟨hd1, hd2⟩ := (validKey_iff d).mp hv
  cases h : Spec.SM2.smul d Spec.SM2.G with
  | none =>
    have hd := (CurveGroup.smul_G_eq_none_iff d).mp h
    have := Nat.le_of_dvd (by omega) hd
    have : 2 ≤ Spec.SM2.n := by decide
    omega
  | some q => exact ⟨q.1, q.2, rfl⟩

/-! ### `DerivePublic` -/

variable {α β : Type} {X : Ctx α β}

theorem pointBytes_some (x y : Nat) :
    (Spec.SM2.pointBytes (some (x, y))).length = 65 ∧
    ((Spec.SM2.pointBytes (some (x, y))).drop 1).take 32 = Bytes.ofNatBE 32 x ∧
    (Spec.SM2.pointBytes (some (x, y))).drop 33 = Bytes.ofNatBE 32 y := by
  unfold Spec.SM2.pointBytes
  refine ⟨by simp [ofNatBE_length], ?_, ?_⟩
  · have : ([4] ++ Bytes.ofNatBE 32 x ++ Bytes.ofNatBE 32 y).drop 1 = Bytes.ofNatBE 32 x ++ Bytes.ofNatBE 32 y := rfl
    rw [this, List.take_append_of_le_length (by rw [ofNatBE_length]),
      List.take_of_length_le (by rw [ofNatBE_length])]
  · rw [List.drop_append]
    simp [ofNatBE_length]

/-- `DerivePublic` returns the encoded coordinates of [d]G, for 32-byte keys; an error for every
    other length and for multiples of n -/
theorem derivePublic_eq (F : CurveFacts X) (priv : Bytes) :
    derivePublic X priv = (match Spec.SM2.derive priv with
      | some (px, py) => .ok (px, py)
      | none => .err) := by
  unfold derivePublic Spec.SM2.derive
  by_cases hl : priv.length ≠ 32
  · rw [F.baseMult_len priv hl, if_pos hl]; rfl
  · rw [if_neg hl]
    obtain ⟨P, hP, hrep⟩ := F.baseMult priv (by omega)
    rw [hP]
    simp only [Outcome.bind_ok]
    rw [F.bytesSafe P _ hrep]
    cases hQ : Spec.SM2.smul (Bytes.toNatBE priv) Spec.SM2.G with
    | none => simp [Spec.SM2.pointBytes]
    | some q =>
      obtain ⟨x, y⟩ := q
      obtain ⟨h1, h2, h3⟩ := pointBytes_some x y
      rw [if_neg (by omega), h2, h3]
      rfl

/-! ### hashing: `ZA` and `e = SM3(ZA ‖ M)` -/

theorem CF_length (v : List W32) (blk : Bytes) (hv : v.length = 8) : (Spec.SM3.CF v blk).length = 8 := by
  unfold Spec.SM3.CF
  simp [Spec.SM3.Regs.toList, hv]

theorem hashWords_length (m : Bytes) : (Spec.SM3.hashWords m).length = 8 := by
  unfold Spec.SM3.hashWords
  have : ∀ (bs : List Bytes) (v : List W32), v.length = 8 → (bs.foldl Spec.SM3.CF v).length = 8 := by
    intro bs
    induction bs with
    | nil => intro v hv; exact hv
    | cons b bs ih => intro v hv; exact ih _ (CF_length v b hv)
  exact this _ _ rfl

/-- an SM3 digest has 32 bytes -/
theorem hash_length (m : Bytes) : (Spec.SM3.hash m).length = 32 := by
  unfold Spec.SM3.hash
  have h8 := hashWords_length m
  generalize Spec.SM3.hashWords m = ws at h8
  match ws, h8 with
  | [a, b, c, d, e, f, g, h], _ => simp [w32Bytes]

/-- `hash.Write(za); hash.Write(msg); hash.Sum(nil)` on a fresh SM3 is the standard's e -/
theorem hashZaMsg_eq (F : CurveFacts X) (za msg : Bytes) :
    hashZaMsg X za msg = Spec.SM2.digest za msg := by
  have h := F.sm3 [.write za, .write msg, .sum []]
  simp [Model.SM3.run, Model.SM3.step, Spec.SM3.runHistory] at h
  unfold hashZaMsg Spec.SM2.digest
  exact h.2.2

/-- `ZA(id, pubx, puby)`: five Writes and a Sum -/
theorem za_eq (F : CurveFacts X) (id px py : Bytes) :
    za X id px py = (match Spec.SM2.za id px py with
      | some z => .ok z
      | none => .err) := by
  unfold za Spec.SM2.za
  by_cases hl : id.length * 8 ≥ 65536
  · simp only []
    rw [if_pos hl, if_pos hl]
  · simp only []
    rw [if_neg hl, if_neg hl]
    have h := F.sm3 [.write (Bytes.ofNatBE 2 (id.length * 8)), .write id, .write X.zBytes, .write px,
      .write py, .sum []]
    simp [Model.SM3.run, Model.SM3.step, Spec.SM3.runHistory] at h
    simp only []
    rw [h.2.2.2.2.2, F.zBytes_eq]
    simp [List.append_assoc]

/-! ### the za-level and id/message-level entry points -/

theorem signZa_eq (F : CurveFacts X) (sc : Script) (priv z msg : Bytes) :
    signZa X sc priv z msg = (match Spec.SM2.signBytes priv (Spec.SM2.digest z msg) sc with
      | some (r, s, c) => .ok ((r, s), c)
      | none => .err) := by
  unfold signZa
  rw [hashZaMsg_eq F]
  exact SM2SignLoop.signHashed_eq F sc priv _

theorem sign_eq (F : CurveFacts X) (id px py : Bytes) (sc : Script) (priv msg : Bytes) :
    sign X id px py sc priv msg = (match Spec.SM2.signIdBytes id px py priv msg sc with
      | some (r, s, c) => .ok ((r, s), c)
      | none => .err) := by
  unfold sign Spec.SM2.signIdBytes
  rw [za_eq F]
  cases Spec.SM2.za id px py with
  | none => rfl
  | some z => simp only [Outcome.bind_ok]; exact signZa_eq F sc priv z msg

theorem verifyZa_eq (F : CurveFacts X) (px py z msg r s : Bytes) :
    verifyZa X px py z msg r s = .ok (Spec.SM2.verify px py (Spec.SM2.digest z msg) r s) := by
  unfold verifyZa
  rw [hashZaMsg_eq F, SM2Verify.verifyHashed_eq F]

theorem verify_eq (F : CurveFacts X) (id px py msg r s : Bytes) :
    verify X id px py msg r s = .ok (Spec.SM2.verifyId id px py msg r s) := by
  unfold verify Spec.SM2.verifyId
  rw [za_eq F]
  cases Spec.SM2.za id px py with
  | none => rfl
  | some z => simp only []; exact verifyZa_eq F px py z msg r s

theorem digest_length (z msg : Bytes) : (Spec.SM2.digest z msg).length = 32 := hash_length _

end SMGo.Proofs.SM2Round
