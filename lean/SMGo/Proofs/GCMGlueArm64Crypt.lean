/-
  `cryptoBlocks` of the arm64 Go glue, the whole routine: the 256-byte loop, the stages for the
  bits 8, 4, 2, 1 of the remaining block count and the 1..15-byte tail, composed
  (`cryptoBlocks_spec`): no panic, only `out[0 : len(in))` changes, and it shows
  GCTR_K(inc32(J0), in) of SP 800-38D — for `in` disjoint from `out` or starting at the same address.
  Core Lean only.
-/
import SMGo.Proofs.GCMGlueArm64Ctr
namespace SMGo.Proofs.GCMGlueA64
open SMGo SMGo.Model SMGo.Model.Mem SMGo.Model.GCMGlueA64 SMGo.Proofs.Slice
open SMGo.Spec.GCM
open SMGo.Proofs.GCMGlue (UnchangedOutside InRegion Nowhere fresh unchanged_refl unchanged_append
  unchanged_poke WF_of_unchanged)
open SMGo.Proofs.GCM (ctrAdd ctrAdd_ctrAdd stream stream_length stream_add blockToNat_lt
  blockToNat_natToBlock natToBlock_blockToNat natToBlock_length ofNatBE_length xorBytes_length
  xorBytes_append_right xorBytes_take gctr_eq_xor inc32_eq_ctrAdd)

section ctx
variable {k : Kernels} (hk : KSpec k) {h0 : Heap} {out0 in0 pre : Slice}
  (cx : CBCtx h0 out0 in0 pre)
include hk cx

/-- the tail of `cryptoBlocks` -/
def cbTail (k : Kernels) (pre : Slice) (rem : Nat) (s : CB) : Outcome Heap :=
  if rem > 0 then
    fillCounter 1 (s.h ++ [List.replicate 16 0] ++ [List.replicate 16 0]) (fresh s.h 16) pre s.blockCount
      >>= fun h =>
    cryptoBlockN k 1 h (fresh (s.h ++ [List.replicate 16 0]) 16) (fresh s.h 16) >>= fun h =>
    byteLoop (fresh (s.h ++ [List.replicate 16 0]) 16) s.out s.inp rem 0 h
  else .ok s.h

omit hk cx in
theorem cryptoBlocks_eq (k : Kernels) (h : Heap) (out inp pre : Slice) :
    cryptoBlocks k h out inp pre =
      (loop256 k pre ((inp.len >>> 4) >>> 4)
        (CB.mk h out inp 0 (inp.len >>> 4)) >>= fun s =>
       stage k 8 pre (CB.mk s.h s.out s.inp s.blockCount (s.blocks - s.blockCount)) >>= fun s =>
       stage k 4 pre s >>= fun s => stage k 2 pre s >>= fun s => stage k 1 pre s >>= fun s =>
       cbTail k pre (inp.len &&& 0x0f) s) := rfl

theorem cryptoBlocks_spec (hmax : in0.len ≤ maxPlain) :
    ∃ h', cryptoBlocks k h0 out0 in0 pre = .ok h' ∧
      UnchangedOutside h0 h' (InRegion out0 0 in0.len) ∧
      read h' (takeS out0 in0.len) = gctr k.E (inc32 (blockToNat (read h0 pre))) (read h0 in0) := by
  have hle := cx.le
  have hoc := cx.wo.1
  have hic := cx.wi.1
  have hXl : (read h0 in0).length = in0.len := length_read h0 in0 cx.wi
  have hJ : (read h0 pre).length = 16 := by rw [length_read h0 pre cx.wp, cx.pl]
  -- start
  have inv0 : Inv k h0 out0 in0 pre 0 h0 := by
    refine ⟨unchanged_refl h0 _, ?_⟩
    have : read h0 (takeS out0 (16 * 0)) = [] :=
      List.eq_nil_of_length_eq_zero (length_read h0 _ (WF_takeS h0 out0 _ cx.wo (by omega)))
    rw [this]; simp [stream]
  have hst0 : CB.mk h0 out0 in0 0 (in0.len / 16) = stAt out0 in0 h0 0 (in0.len / 16) := by
    simp [stAt, dropS_zero]
  rw [cryptoBlocks_eq, shr4, shr4, hst0]
  -- the 256-byte loop
  obtain ⟨h1, e1, inv1⟩ := loop256_inv hk cx hmax (in0.len / 16) (in0.len / 16 / 16) 0 h0 inv0 (by omega)
  rw [e1, Outcome.bind_ok]
  generalize hm1 : 0 + 16 * (in0.len / 16 / 16) = m1 at inv1
  have hst1 : CB.mk (stAt out0 in0 h1 m1 (in0.len / 16)).h (stAt out0 in0 h1 m1 (in0.len / 16)).out
      (stAt out0 in0 h1 m1 (in0.len / 16)).inp (stAt out0 in0 h1 m1 (in0.len / 16)).blockCount
      ((stAt out0 in0 h1 m1 (in0.len / 16)).blocks - (stAt out0 in0 h1 m1 (in0.len / 16)).blockCount)
      = stAt out0 in0 h1 m1 (in0.len / 16 - m1) := rfl
  rw [hst1]
  -- the stages
  obtain ⟨h2, m2, r2, e2, inv2, s2, b2⟩ := stage_inv hk cx hmax 8 (by omega) m1 (in0.len / 16 - m1) h1 inv1
    (by omega) (by omega) (bit8 _ (by omega))
  rw [e2, Outcome.bind_ok]
  obtain ⟨h3, m3, r3, e3, inv3, s3, b3⟩ := stage_inv hk cx hmax 4 (by omega) m2 r2 h2 inv2
    (by omega) (by omega) (bit4 _ b2)
  rw [e3, Outcome.bind_ok]
  obtain ⟨h4, m4, r4, e4, inv4, s4, b4⟩ := stage_inv hk cx hmax 2 (by omega) m3 r3 h3 inv3
    (by omega) (by omega) (bit2 _ b3)
  rw [e4, Outcome.bind_ok]
  obtain ⟨h5, m5, r5, e5, inv5, s5, b5⟩ := stage_inv hk cx hmax 1 (by omega) m4 r4 h4 inv4
    (by omega) (by omega) (bit1 _ b4)
  rw [e5, Outcome.bind_ok]
  have hm5 : m5 = in0.len / 16 := by omega
  subst hm5
  clear e1 e2 e3 e4 e5 inv0 inv1 inv2 inv3 inv4 hst0 hst1
  obtain ⟨hu, hr⟩ := inv5
  -- the tail
  unfold cbTail
  rw [show (0x0f : Nat) = 15 from rfl, and15]
  by_cases hrem : in0.len % 16 > 0
  · rw [if_pos hrem]
    show ∃ h', (fillCounter 1 (h5 ++ [List.replicate 16 0] ++ [List.replicate 16 0]) (fresh h5 16) pre
      (in0.len / 16) >>= fun h =>
        cryptoBlockN k 1 h (fresh (h5 ++ [List.replicate 16 0]) 16) (fresh h5 16) >>= fun h =>
        byteLoop (fresh (h5 ++ [List.replicate 16 0]) 16) (dropS out0 (16 * (in0.len / 16)))
          (dropS in0 (16 * (in0.len / 16))) (in0.len % 16) 0 h) = .ok h' ∧ _
    have wo := WF_of_unchanged h0 h5 _ hu out0 cx.wo
    have wi := WF_of_unchanged h0 h5 _ hu in0 cx.wi
    have wp := WF_of_unchanged h0 h5 _ hu pre cx.wp
    have rp : read h5 pre = read h0 pre := pre_unchanged cx h5 _ hu
    generalize hh6 : h5 ++ [List.replicate 16 (0 : UInt8)] = h6
    have hh6l : h6.length = h5.length + 1 := by rw [← hh6]; simp
    have e56 : UnchangedOutside h5 h6 Nowhere := by rw [← hh6]; exact unchanged_append h5 _ _
    have wc6 : WF h6 (fresh h5 16) := by rw [← hh6]; exact WF_fresh h5 _
    generalize hh7 : h6 ++ [List.replicate 16 (0 : UInt8)] = h7
    have e67 : UnchangedOutside h6 h7 Nowhere := by rw [← hh7]; exact unchanged_append h6 _ _
    have wc7 : WF h7 (fresh h5 16) := WF_of_unchanged h6 h7 _ e67 _ wc6
    have wt7 : WF h7 (fresh h6 16) := by rw [← hh7]; exact WF_fresh h6 _
    have e57 : UnchangedOutside h5 h7 Nowhere := UO_trans e56 e67 (fun _ _ _ f => f)
    have wp7 := WF_of_unchanged h5 h7 _ e57 pre wp
    have rp7 : read h7 pre = read h0 pre := by
      rw [read_of_UO e57 pre wp (fun _ _ _ _ _ f => f), rp]
    have hpc : pre.arr ≠ (fresh h5 16).arr := by
      intro he
      have := arr_lt_of_WF wp (a := h5.length) (by rw [he]; rfl)
      omega
    obtain ⟨h8, ef, u8, r8⟩ := fillCounter_spec 1 h7 (fresh h5 16) pre (in0.len / 16) wc7 rfl wp7 cx.pl hpc
    rw [rp7] at r8
    have e58 : UnchangedOutside h5 h8 Nowhere :=
      UO_trans e57 u8 (Reg_new (s := fresh h5 16) rfl (Nat.le_refl _) Nowhere 0 _)
    have wc8 := WF_of_unchanged h7 h8 _ u8 _ wc7
    have wt8 := WF_of_unchanged h7 h8 _ u8 _ wt7
    obtain ⟨h9, ec, u9, r9⟩ := cryptoBlockN_spec k hk 1 (by omega) h8 (fresh h6 16) (fresh h5 16)
      wt8 wc8 (Nat.le_refl _) (Nat.le_refl _)
    have e59 : UnchangedOutside h5 h9 Nowhere :=
      UO_trans e58 u9 (Reg_new (s := fresh h6 16) rfl (by omega) Nowhere 0 _)
    have wt9 := WF_of_unchanged h8 h9 _ u9 _ wt8
    have r9' : read h9 (fresh h6 16)
        = stream k.E (ctrAdd (blockToNat (read h0 pre)) (in0.len / 16 + 1)) 1 := by
      have : takeS (fresh h6 16) (16 * 1) = fresh h6 16 := rfl
      rw [this] at r9
      rw [r9, r8, List.take_of_length_le (by rw [ctrBlocks_length]; omega), blocksE_ctrBlocks]
    have wo9 := WF_of_unchanged h5 h9 _ e59 out0 wo
    have wi9 := WF_of_unchanged h5 h9 _ e59 in0 wi
    have hto : (fresh h6 16).arr ≠ (dropS out0 (16 * (in0.len / 16))).arr := by
      intro he
      have := arr_lt_of_WF wo (a := h6.length) (by rw [show out0.arr = (dropS out0 _).arr from rfl, ← he]; rfl)
      omega
    have hcompat : (dropS in0 (16 * (in0.len / 16))).arr ≠ (dropS out0 (16 * (in0.len / 16))).arr ∨
        (dropS in0 (16 * (in0.len / 16))).off = (dropS out0 (16 * (in0.len / 16))).off ∨
        (dropS in0 (16 * (in0.len / 16))).off + (dropS in0 (16 * (in0.len / 16))).len
          ≤ (dropS out0 (16 * (in0.len / 16))).off ∨
        (dropS out0 (16 * (in0.len / 16))).off + in0.len % 16 ≤ (dropS in0 (16 * (in0.len / 16))).off := by
      show in0.arr ≠ out0.arr ∨ in0.off + _ = out0.off + _ ∨ in0.off + _ + (in0.len - _) ≤ out0.off + _ ∨
        out0.off + _ + _ ≤ in0.off + _
      rcases cx.compat with hc | hc | hc | hc
      · exact Or.inl hc
      · right; left; omega
      · right; right; left; omega
      · right; right; right; omega
    obtain ⟨h10, eb, u10, r10⟩ := byteLoop_spec h9 (fresh h6 16) (dropS out0 (16 * (in0.len / 16)))
      (dropS in0 (16 * (in0.len / 16))) (in0.len % 16) wt9
      (WF_dropS h9 out0 _ wo9 (by omega)) (WF_dropS h9 in0 _ wi9 (by omega))
      (by show in0.len % 16 ≤ 16; omega) (by show _ ≤ out0.len - _; omega)
      (by show _ ≤ in0.len - _; omega) hto hcompat (in0.len % 16) 0 h9 (by omega)
      (unchanged_refl h9 _)
      (by
        have : read h9 (takeS (dropS out0 (16 * (in0.len / 16))) 0) = [] :=
          List.eq_nil_of_length_eq_zero (length_read h9 _
            (WF_takeS h9 _ 0 (WF_dropS h9 out0 _ wo9 (by omega)) (by omega)))
        rw [this]; simp)
    refine ⟨h10, ?_, ?_, ?_⟩
    · rw [ef, Outcome.bind_ok, ec, Outcome.bind_ok, eb]
    · have huA : UnchangedOutside h0 h9 (InRegion out0 0 in0.len) :=
        UO_trans (UO_mono hu (fun a i _ ⟨x, y, z⟩ => ⟨x, y, by omega⟩)) e59 (fun _ _ _ f => f.elim)
      refine UO_trans huA u10 ?_
      intro a i _ ⟨x, y, z⟩
      have y' : out0.off + 16 * (in0.len / 16) + 0 ≤ i := y
      have z' : i < out0.off + 16 * (in0.len / 16) + 0 + in0.len % 16 := z
      exact ⟨x, by omega, by omega⟩
    · have hsplit := read_split h10 (takeS out0 in0.len) (16 * (in0.len / 16))
        (by show 16 * (in0.len / 16) ≤ in0.len; omega)
      have hil : in0.len = 16 * (in0.len / 16) + in0.len % 16 := by omega
      rw [takeS_takeS] at hsplit
      have hds : dropS (takeS out0 in0.len) (16 * (in0.len / 16))
          = takeS (dropS out0 (16 * (in0.len / 16))) (in0.len % 16) := by
        have := dropS_takeS out0 (16 * (in0.len / 16)) (in0.len % 16)
        rw [← hil] at this
        exact this
      rw [hds] at hsplit
      rw [hsplit, r10, r9']
      have rA : read h10 (takeS out0 (16 * (in0.len / 16))) = read h5 (takeS out0 (16 * (in0.len / 16))) := by
        have wA := WF_takeS h5 out0 (16 * (in0.len / 16)) wo (by omega)
        rw [read_of_UO u10 _ (WF_of_unchanged h5 h9 _ e59 _ wA), read_of_UO e59 _ wA (fun _ _ _ _ _ f => f)]
        intro a i _ h1 h2 ⟨_, y, _⟩
        have h2' : i < out0.off + 16 * (in0.len / 16) := h2
        have y' : out0.off + 16 * (in0.len / 16) + 0 ≤ i := y
        omega
      have rI : read h9 (dropS in0 (16 * (in0.len / 16))) = (read h0 in0).drop (16 * (in0.len / 16)) := by
        rw [read_of_UO e59 _ (WF_dropS h5 in0 _ wi (by omega)) (fun _ _ _ _ _ f => f)]
        exact rest_unchanged cx (in0.len / 16) (by omega) h5 _ hu (Nat.le_refl _)
      rw [rA, hr, rI, inc32_eq_ctrAdd,
        gctr_eq_xor hk.E_len _ (read h0 in0) (in0.len / 16 + 1) (by rw [hXl]; omega),
        stream_add, ctrAdd_ctrAdd, Nat.add_comm 1 (in0.len / 16), xorBytes_append_right,
        stream_length hk.E_len]
      congr 1
      have hdl : ((read h0 in0).drop (16 * (in0.len / 16))).length = in0.len % 16 := by
        rw [List.length_drop, hXl]; omega
      rw [← xorBytes_take, xorBytes_comm, List.take_of_length_le]
      rw [xorBytes_length, hdl]
      omega
  · rw [if_neg hrem]
    have hil : in0.len = 16 * (in0.len / 16) := by omega
    refine ⟨h5, rfl, ?_, ?_⟩
    · rw [hil]; exact hu
    · conv => lhs; rw [hil]
      rw [hr, inc32_eq_ctrAdd, gctr_eq_xor hk.E_len _ (read h0 in0) (in0.len / 16) (by rw [hXl]; omega),
        List.take_of_length_le (by rw [hXl]; omega)]

end ctx
end SMGo.Proofs.GCMGlueA64
