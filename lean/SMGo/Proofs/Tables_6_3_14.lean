/-
  Property C18, SM2 part — kernel evaluation of the table checkers of `TablesCheck.lean` on the
  GENERATED tables of the 6-3-14-4 comb (`Gen/SM2Tables.lean`, regenerated from
  sm2/internal/sm2_tables.go on every check run).  Core Lean only.
-/
import SMGo.Proofs.TablesCheck
import SMGo.Gen.SM2Tables
namespace SMGo.Proofs.Tables
open SMGo.Gen.SM2Tables
set_option maxRecDepth 100000

/-- shape of the first table: 3 sub-tables, x and y lists of 2^6 − 1 vectors of four limbs < 2^64,
    values < p -/
theorem shape_6_3_14 : firstOK sm2Precomputed_6_3_14 6 3 = true := by decide +kernel

theorem sub_6_3_14_0 : checkSub sm2Precomputed_6_3_14 6 3 14 4 0 = true := by decide +kernel

theorem sub_6_3_14_1 : checkSub sm2Precomputed_6_3_14 6 3 14 4 1 = true := by decide +kernel

theorem sub_6_3_14_2 : checkSub sm2Precomputed_6_3_14 6 3 14 4 2 = true := by decide +kernel

theorem sub_6_3_14 : ∀ j, j < 3 → checkSub sm2Precomputed_6_3_14 6 3 14 4 j = true
  | 0, _ => sub_6_3_14_0
  | 1, _ => sub_6_3_14_1
  | 2, _ => sub_6_3_14_2
  | j + 3, h => absurd h (by omega)

theorem shapeR_6_3_14 : xyOK sm2Precomputed_6_3_14_Remainder (2 ^ 4 - 1) = true := by decide +kernel

theorem rem_6_3_14 : checkRem sm2Precomputed_6_3_14_Remainder 4 = true := by decide +kernel

end SMGo.Proofs.Tables
