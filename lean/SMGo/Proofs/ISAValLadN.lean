import SMGo.Proofs.ISAValLadX0
import SMGo.Proofs.GCMCtr
set_option linter.unusedSimpArgs false
namespace SMGo.Proofs.ISAVal
open SMGo.Model.ISAVal SMGo.Model.GCM SMGo.Proofs.GCM SMGo.Proofs.ISATouch
open SMGo.Model.ISA (Reg Opd Instr)

/-- hashing of the `n` output blocks of a class, as the listing does it -/
def hashClassN (h n y : Nat) (out : List Nat) : Nat := if n % 4 = 0 then ghN4 h (n / 4) y out else ghN h n y out

/-- **`cryptoBlocksAsm` on numbers**: output bytes and GHASH value, from counter `c` on; mirrors `Model.GCM.cryptoBlocksAux` -/
def ladN (rk jb : List Nat) (h hf : Nat) : Nat → Nat → Nat → List Nat → List Nat × Nat
  | 0, _, y, _ => ([], y)
  | fuel + 1, c, y, src =>
    if classOf src.length ≠ 0 then
      ((xorN (src.take (16 * classOf src.length)) (ksN rk jb c (classOf src.length))) ++
        (ladN rk jb h hf fuel (c + classOf src.length)
          (if hf = 0 then y else hashClassN h (classOf src.length) y (xorN (src.take (16 * classOf src.length)) (ksN rk jb c (classOf src.length))))
          (src.drop (16 * classOf src.length))).1,
       (ladN rk jb h hf fuel (c + classOf src.length)
          (if hf = 0 then y else hashClassN h (classOf src.length) y (xorN (src.take (16 * classOf src.length)) (ksN rk jb c (classOf src.length))))
          (src.drop (16 * classOf src.length))).2)
    else if src.length = 0 then ([], y)
    else
      ((xorN (padTo16 src) (encB rk (ctrBlk jb (c + 1)))).take src.length,
       if hf = 0 then y else gmulR h (y ^^^ rb128 (unlanes 8 (padTo16 ((xorN (padTo16 src) (encB rk (ctrBlk jb (c + 1)))).take src.length)))))

theorem classOf_lt16 (n : Nat) (h : n < 16) : classOf n = 0 := by unfold classOf; (repeat' split) <;> omega
theorem classOf_1 (n : Nat) (h1 : 16 ≤ n) (h2 : n < 32) : classOf n = 1 := by unfold classOf; (repeat' split) <;> omega
theorem classOf_2 (n : Nat) (h1 : 32 ≤ n) (h2 : n < 64) : classOf n = 2 := by unfold classOf; (repeat' split) <;> omega
theorem classOf_4 (n : Nat) (h1 : 64 ≤ n) (h2 : n < 128) : classOf n = 4 := by unfold classOf; (repeat' split) <;> omega
theorem classOf_8 (n : Nat) (h1 : 128 ≤ n) (h2 : n < 256) : classOf n = 8 := by unfold classOf; (repeat' split) <;> omega
theorem classOf_16 (n : Nat) (h1 : 256 ≤ n) : classOf n = 16 := by unfold classOf; (repeat' split) <;> omega

/-- the last step: fewer than 16 bytes -/
theorem ladN_small (rk jb : List Nat) (h hf fuel c y : Nat) (src : List Nat) (hs : src.length < 16) :
    ladN rk jb h hf (fuel + 1) c y src =
      ((xorN (padTo16 src) (encB rk (ctrBlk jb (c + 1)))).take src.length,
       if src.length = 0 ∨ hf = 0 then y
       else gmulR h (y ^^^ rb128 (unlanes 8 (padTo16 ((xorN (padTo16 src) (encB rk (ctrBlk jb (c + 1)))).take src.length))))) := by
  rw [ladN, classOf_lt16 _ hs]
  simp only [ne_eq, not_true_eq_false, if_false]
  by_cases h0 : src.length = 0
  · simp [h0]
  · simp [h0]

/-- a class step -/
theorem ladN_class (rk jb : List Nat) (h hf fuel c y : Nat) (src : List Nat) (n : Nat) (hn : classOf src.length = n) (hn0 : n ≠ 0) :
    ladN rk jb h hf (fuel + 1) c y src =
      ((xorN (src.take (16 * n)) (ksN rk jb c n)) ++
        (ladN rk jb h hf fuel (c + n) (if hf = 0 then y else hashClassN h n y (xorN (src.take (16 * n)) (ksN rk jb c n))) (src.drop (16 * n))).1,
       (ladN rk jb h hf fuel (c + n) (if hf = 0 then y else hashClassN h n y (xorN (src.take (16 * n)) (ksN rk jb c n))) (src.drop (16 * n))).2) := by
  rw [ladN, hn]
  simp only [ne_eq, hn0, not_false_eq_true, if_true]

end SMGo.Proofs.ISAVal
namespace SMGo.Proofs.ISAVal
open SMGo.Model.ISAVal SMGo.Model.GCM SMGo.Proofs.GCM SMGo.Proofs.ISATouch
open SMGo.Model.ISA (Reg Opd Instr)

theorem spliceAt_spliceAt' (b : List Nat) (off : Nat) (x y : List Nat) (h : off + x.length ≤ b.length) :
    spliceAt (spliceAt b off x) (off + x.length) y = spliceAt b off (x ++ y) := by
  unfold spliceAt
  have h1 : (b.take off ++ x ++ b.drop (off + x.length)).take (off + x.length) = b.take off ++ x := by
    rw [List.take_left' (by simp; omega)]
  have h2 : (b.take off ++ x ++ b.drop (off + x.length)).drop (off + x.length + y.length) = b.drop (off + (x ++ y).length) := by
    rw [List.drop_append, List.drop_eq_nil_of_le (by simp; omega), List.nil_append, List.drop_drop, List.length_append]
    congr 1
    simp
    omega
  rw [h1, h2]
  simp only [List.append_assoc]

/-- the labels of the length classes -/
structure LadLabels (r : Routine) (kL b : Nat) : Prop where
  lX16 : findPc r (b + 99) = some (r.drop (kL + 17))
  d16 : findPc r (b + 4361) = some (r.drop (kL + 17 + 685))
  lX8 : findPc r (b + 4387) = some (r.drop (kL + 707))
  d8 : findPc r (b + 8208) = some (r.drop (kL + 707 + 631))
  lX4 : findPc r (b + 8234) = some (r.drop (kL + 1343))
  d4 : findPc r (b + 11855) = some (r.drop (kL + 1343 + 600))
  lX2 : findPc r (b + 11872) = some (r.drop (kL + 1948))
  d2 : findPc r (b + 15484) = some (r.drop (kL + 1948 + 597))
  lX1 : findPc r (b + 15501) = some (r.drop (kL + 2550))
  d1 : findPc r (b + 18920) = some (r.drop (kL + 2550 + 565))
  lX0 : findPc r (b + 18937) = some (r.drop (kL + 3120))
  x0 : X0Labels r (kL + 3120) b

structure LadSlices (r : Routine) (kL b : Nat) : Prop where
  head : Slice r kL (ladHeadCode b)
  x16 : Slice r (kL + 17) (ladX16Code b)
  x8 : Slice r (kL + 707) (ladX8Code b)
  x4 : Slice r (kL + 1343) (ladX4Code b)
  x2 : Slice r (kL + 1948) (ladX2Code b)
  x1 : Slice r (kL + 2550) (ladX1Code b)
  x0 : Slice r (kL + 3120) (ladX0Code b)

theorem x16_len (b : Nat) : (ladX16Code b).length = 690 := by
  rw [x16_eq']; simp only [List.length_append, x16A_len, hash16_len, ladTailCode, List.length_cons, List.length_nil]
theorem x8_len (b : Nat) : (ladX8Code b).length = 636 := by
  rw [x8_eq]; simp only [List.length_append, x8A_len, hash8_len, ladTailCode, List.length_cons, List.length_nil]
theorem x4_len (b : Nat) : (ladX4Code b).length = 605 := by
  rw [x4_eq]; simp only [List.length_append, x4A_len, hash4_len, ladTailCode, List.length_cons, List.length_nil]
theorem x2_len (b : Nat) : (ladX2Code b).length = 602 := by
  rw [x2_eq]; simp only [List.length_append, x2A_len, hash2_len, ladTailCode, List.length_cons, List.length_nil]
theorem x1_len (b : Nat) : (ladX1Code b).length = 570 := by
  rw [x1_eq]; simp only [List.length_append, x1A_len, hash1_len, ladTailCode, List.length_cons, List.length_nil]

theorem ladSlices_of (r : Routine) (kL b : Nat) (hs : Slice r kL (ladderCode b)) : LadSlices r kL b := by
  unfold ladderCode at hs
  have h1 := hs.left.left.left.left.left.left
  have h2 := hs.left.left.left.left.left.right
  have h3 := hs.left.left.left.left.right
  have h4 := hs.left.left.left.right
  have h5 := hs.left.left.right
  have h6 := hs.left.right
  have h7 := hs.right
  simp only [List.length_append, x16_len, x8_len, x4_len, x2_len, x1_len, show (ladHeadCode b).length = 17 from rfl] at h2 h3 h4 h5 h6 h7
  exact ⟨h1, h2, h3.cast (by omega) rfl, h4.cast (by omega) rfl, h5.cast (by omega) rfl, h6.cast (by omega) rfl, h7.cast (by omega) rfl⟩

theorem LadEnd.of_keeps {M2 : List Nat → List Nat → List Region} {dlen h y' : Nat} {dc' : List Nat} {s s1 s' : State}
    (k : KeepsM ladKeepG ladKeepV (List.range 8) s s1) (e : LadEnd M2 dlen h y' dc' s1 s') : LadEnd M2 dlen h y' dc' s s' :=
  ⟨e.pc, e.gh, e.acc, e.acclt, e.mem, e.hdc, (k.mono (by decide) (fun _ h => h) (fun _ h => h)).trans e.keep⟩

end SMGo.Proofs.ISAVal
