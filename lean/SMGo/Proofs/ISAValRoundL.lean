import SMGo.Proofs.ISAValRound
import SMGo.Proofs.ISAValRounds
namespace SMGo.Proofs.ISAVal
open SMGo.Model.ISAVal SMGo.Model.ISA

theorem lane_shift (w i s v : Nat) : lane w i (v >>> s) = (v >>> (s + w * i)) % 2 ^ w := by
  simp [lane, Nat.shiftRight_add]

/-- lane `i` of width `w` inside lane `j` of width `w·k` -/
theorem lane_lane (w k i j v : Nat) (hi : i < k) : lane w i (lane (w * k) j v) = lane w (k * j + i) v := by
  have h1 : lane (w * k) j v = (v >>> (w * k * j)) % 2 ^ (w * k) := rfl
  rw [h1, lane_mod w i (w * k) _ (Nat.mul_le_mul_left _ hi), lane_shift]
  unfold lane
  congr 2
  rw [Nat.mul_add, Nat.mul_assoc]

theorem lane_lane' (W w k i j v : Nat) (hW : W = w * k) (hi : i < k) : lane w i (lane W j v) = lane w (k * j + i) v := by
  subst hW; exact lane_lane w k i j v hi

/-- dword `j` of (V)GF2P8AFFINE(INV)QB at any vector length: the four bytes of dword `j`, each through the affine
    map given by qword `j/2` of the matrix operand -/
theorem laneJ_gfAffine (inv : Bool) (vl imm m x j : Nat) (hvl : vl % 8 = 0) (hj : j < vl / 4) :
    lane 32 j (gfAffine inv vl imm m x)
      = unlanes 8 ((lanes 8 4 (lane 32 j x)).map
          (fun xb => affineByte (lanes 8 8 (lane 64 (j / 2) m)) imm (if inv then aesInv xb else xb))) := by
  have hq : j / 2 < vl / 8 := by omega
  have hjj : 2 * (j / 2) + j % 2 = j := by omega
  have hg : ∀ xb, xb < 2 ^ 8 → affineByte (lanes 8 8 (lane 64 (j / 2) m)) imm (if inv then aesInv xb else xb) < 2 ^ 8 :=
    fun xb _ => affineByte_lt _ _ _
  have h64 : lane 32 j (gfAffine inv vl imm m x) = lane 32 (j % 2) (lane 64 (j / 2) (gfAffine inv vl imm m x)) := by
    rw [lane_lane' 64 32 2 (j % 2) (j / 2) _ (by decide) (by omega), hjj]
  rw [h64]
  unfold gfAffine
  rw [lane_map2 64 (vl / 8) (j / 2) m x _ hq]
  · dsimp only
    unfold map1
    have key := laneJ_unlanes 32 8 4 (j % 2) (by decide)
      ((lanes 8 8 (lane 64 (j / 2) x)).map (fun xb => affineByte (lanes 8 8 (lane 64 (j / 2) m)) imm (if inv then aesInv xb else xb)))
      (by
        intro y hy
        simp only [List.mem_map] at hy
        obtain ⟨p, hp, rfl⟩ := hy
        exact hg p (mem_lanes_lt _ _ _ _ hp))
      (by simp [lanes_length]; omega)
    rw [key, ← List.map_drop, ← List.map_take]
    have e : ((lanes 8 8 (lane 64 (j / 2) x)).drop (4 * (j % 2))).take 4 = lanes 8 4 (lane 32 j x) := by
      apply List.ext_getElem
      · simp [lanes_length]; omega
      · intro i h1 h2
        have hi : i < 4 := by simpa [lanes_length] using h2
        simp only [List.getElem_take, List.getElem_drop, getElem_lanes]
        rw [lane_lane' 64 8 8 (4 * (j % 2) + i) (j / 2) x (by decide) (by omega),
          lane_lane' 32 8 4 i j x (by decide) hi]
        congr 1
        omega
    rw [e]
  · intro a b _ _
    exact map1_lt 8 8 b _ (fun xb hxb => affineByte_lt _ _ _)


/-- the affine matrices broadcast to every qword of a register of `vl` bytes -/
def PREvl (vl : Nat) : Nat := unlanes 64 (List.replicate (vl / 8) (unlanes 8 Gen.AsmData.amd64_PreAffineMatrix))
def POSTvl (vl : Nat) : Nat := unlanes 64 (List.replicate (vl / 8) (unlanes 8 Gen.AsmData.amd64_PostAffineMatrix))

theorem pre_q_bytes : lanes 8 8 (unlanes 8 Gen.AsmData.amd64_PreAffineMatrix) = Gen.AsmData.amd64_PreAffineMatrix := by
  decide +kernel
theorem post_q_bytes : lanes 8 8 (unlanes 8 Gen.AsmData.amd64_PostAffineMatrix) = Gen.AsmData.amd64_PostAffineMatrix := by
  decide +kernel
theorem pre_q_lt : unlanes 8 Gen.AsmData.amd64_PreAffineMatrix < 2 ^ 64 := by decide +kernel
theorem post_q_lt : unlanes 8 Gen.AsmData.amd64_PostAffineMatrix < 2 ^ 64 := by decide +kernel

/-- the `affine` macro on dword `j` of a register of `vl` bytes: τ -/
theorem laneJ_sbox (vl j x : Nat) (hvl : vl % 8 = 0) (hj : j < vl / 4) :
    lane 32 j (gfAffine true vl 211 (POSTvl vl) (gfAffine false vl 62 (PREvl vl) x)) = tauN (lane 32 j x) := by
  have hq : j / 2 < vl / 8 := by omega
  rw [laneJ_gfAffine true vl 211 _ _ j hvl hj, laneJ_gfAffine false vl 62 _ _ j hvl hj]
  unfold POSTvl PREvl
  rw [lane_bcast 64 (vl / 8) (j / 2) _ hq post_q_lt, lane_bcast 64 (vl / 8) (j / 2) _ hq pre_q_lt, post_q_bytes, pre_q_bytes,
    lanes_unlanes 8 4]
  · simp [tauN, List.map_map, Function.comp_def]
    rfl
  · intro y hy
    simp only [List.mem_map] at hy
    obtain ⟨p, _, rfl⟩ := hy
    exact affineByte_lt _ _ _
  · simp [lanes_length]

/-- one instruction of a straight-line block, vector length `vl` given by a hypothesis `hvl` -/
macro "vstep" : tactic => `(tactic|
  (apply exec_step
   · first
     | exact execD_vec3 (hmn := by rfl) (hvl := by assumption) (ha := by rfl) (hb := by rfl) (hd := by simp) (hr := by rfl) ..
     | exact execD_vecImm (hmn := by rfl) (hvl := by assumption) (ha := by rfl) (hd := by simp) (hr := by rfl) ..
     | exact execD_vecImm2 (hmn := by rfl) (hvl := by assumption) (ha := by rfl) (hb := by rfl) (hd := by simp) (hr := by rfl) ..
     | exact execD_broadcastd (hvl := by assumption) (ha := by rfl) (hd := by simp) ..
     | exact execD_addq_imm (hold := by rfl) (hd := by simp) ..))

/-- what one `subRound` block guarantees at vector length `vl`: the round function on EVERY dword lane -/
structure RoundPostL (vl A B C D : Nat) (s s' : State) (k : Nat) : Prop where
  lenG : s'.gpr.length = 16
  lenV : s'.vec.length = 32
  mem : s'.mem = s.mem
  syms : s'.syms = s.syms
  frame : s'.frame = s.frame
  g0 : greg s' 0 = (greg s 0 + 4) % 2 ^ 64
  g3 : greg s' 3 = greg s 3
  vB : vreg s' B = vreg s B
  vC : vreg s' C = vreg s C
  vD : vreg s' D = vreg s D
  v10 : vreg s' 10 = vreg s 10
  v11 : vreg s' 11 = vreg s 11
  v12 : vreg s' 12 = vreg s 12
  vA : ∀ j, j < vl / 4 → lane 32 j (vreg s' A)
        = roundF (lane 32 j (vreg s A)) (lane 32 j (vreg s B)) (lane 32 j (vreg s C)) (lane 32 j (vreg s D)) k

set_option maxRecDepth 100000 in
set_option maxHeartbeats 1000000 in
theorem round_specL (vl A B C D : Nat) (hvl : validVl vl = true)
    (hperm : (A = 6 ∧ B = 7 ∧ C = 8 ∧ D = 9) ∨ (A = 7 ∧ B = 8 ∧ C = 9 ∧ D = 6) ∨
             (A = 8 ∧ B = 9 ∧ C = 6 ∧ D = 7) ∨ (A = 9 ∧ B = 6 ∧ C = 7 ∧ D = 8))
    (s : State) (hG : s.gpr.length = 16) (hV : s.vec.length = 32) (bs : List Nat)
    (hg0 : greg s 0 < 2 ^ 64) (hw : readMem s.mem (greg s 0) 4 = .ok bs) (hbs : unlanes 8 bs < 2 ^ 32)
    (h10 : vreg s 10 = PREvl vl) (h11 : vreg s 11 = POSTvl vl) :
    ∃ s', execList (roundCode vl A B C D) s = .ok s' ∧ RoundPostL vl A B C D s s' (unlanes 8 bs) := by
  have hvl8 : vl % 8 = 0 := by
    simp only [validVl, Bool.or_eq_true, beq_iff_eq] at hvl
    omega
  obtain ⟨gpr, vec, k, fl, mem, syms, frame⟩ := s
  simp only at hG hV
  obtain ⟨a0, a1, a2, a3, a4, a5, a6, a7, a8, a9, a10, a11, a12, a13, a14, a15, rfl⟩ := list16 gpr hG
  obtain ⟨b0, b1, b2, b3, b4, b5, b6, b7, b8, b9, b10, b11, b12, b13, b14, b15, b16, b17, b18, b19, b20, b21, b22, b23, b24, b25, b26, b27, b28, b29, b30, b31, rfl⟩ := list32 vec hV
  simp only [greg, vreg, List.getD_cons_succ, List.getD_cons_zero] at hg0 hw h10 h11
  subst h10 h11
  have e0 : (a0 + 0 + imm64 0) % 2 ^ 64 = a0 := by simp [imm64, Nat.mod_eq_of_lt hg0]
  rw [← e0] at hw
  rcases hperm with ⟨rfl, rfl, rfl, rfl⟩ | ⟨rfl, rfl, rfl, rfl⟩ | ⟨rfl, rfl, rfl, rfl⟩ | ⟨rfl, rfl, rfl, rfl⟩
  all_goals
    apply Exists.intro
    apply And.intro
    · unfold roundCode
      apply exec_step
      · exact execD_movl_load (bs := bs) (hb := by rfl) (hold := by rfl) (hd := by simp) (hload := hw) ..
      vstep; vstep; vstep; vstep; vstep; vstep; vstep; vstep; vstep; vstep; vstep; vstep; vstep; vstep; vstep; vstep
      exact execList_nil _
    · simp only [List.set_cons_succ, List.set_cons_zero]
      refine ⟨rfl, rfl, rfl, rfl, rfl, ?_, ?_, ?_, ?_, ?_, ?_, ?_, ?_, ?_⟩
      · simp only [greg, List.getD_cons_succ, List.getD_cons_zero, addF_fst_4]
      · simp only [greg, List.getD_cons_succ, List.getD_cons_zero]
      · simp only [vreg, List.getD_cons_succ, List.getD_cons_zero]
      · simp only [vreg, List.getD_cons_succ, List.getD_cons_zero]
      · simp only [vreg, List.getD_cons_succ, List.getD_cons_zero]
      · simp only [vreg, List.getD_cons_succ, List.getD_cons_zero]
      · simp only [vreg, List.getD_cons_succ, List.getD_cons_zero]
      · simp only [vreg, List.getD_cons_succ, List.getD_cons_zero]
      · intro j hj
        simp only [vreg, List.getD_cons_succ, List.getD_cons_zero]
        simp only [imm_2, imm_10, imm_18, imm_24, imm_62, imm_211, lane_vpxord _ j _ _ hj,
          lane_vprold _ j _ _ hj, laneJ_sbox vl j _ hvl8 hj, lane_bcast 32 (vl / 4) j _ hj hbs, movl_low _ _ hbs]
        rfl


/-- the state between two rounds of a kernel at vector length `vl`: dword lane `j` carries the window `X j` -/
structure ReadyL (vl : Nat) (mem : List Region) (syms frame : List (String × Nat)) (rkBase dstp shuf : Nat)
    (i : Nat) (X : Nat → Nat × Nat × Nat × Nat) (s : State) : Prop where
  lenG : s.gpr.length = 16
  lenV : s.vec.length = 32
  hmem : s.mem = mem
  hsyms : s.syms = syms
  hframe : s.frame = frame
  g0 : greg s 0 = rkBase + 4 * i
  g3 : greg s 3 = dstp
  v10 : vreg s 10 = PREvl vl
  v11 : vreg s 11 = POSTvl vl
  v12 : vreg s 12 = shuf
  x0 : ∀ j, j < vl / 4 → lane 32 j (vreg s (sreg i 0)) = (X j).1
  x1 : ∀ j, j < vl / 4 → lane 32 j (vreg s (sreg i 1)) = (X j).2.1
  x2 : ∀ j, j < vl / 4 → lane 32 j (vreg s (sreg i 2)) = (X j).2.2.1
  x3 : ∀ j, j < vl / 4 → lane 32 j (vreg s (sreg i 3)) = (X j).2.2.2

def roundIL (vl i : Nat) : List DInstr := roundCode vl (sreg i 0) (sreg i 1) (sreg i 2) (sreg i 3)

theorem readyL_step (vl : Nat) (hvl : validVl vl = true) (mem : List Region) (syms frame : List (String × Nat))
    (rkBase dstp shuf i : Nat) (X : Nat → Nat × Nat × Nat × Nat) (s : State) (bs : List Nat)
    (hb : rkBase + 4 * i + 4 < 2 ^ 64) (hrk : readMem mem (rkBase + 4 * i) 4 = .ok bs) (hbs : unlanes 8 bs < 2 ^ 32)
    (h : ReadyL vl mem syms frame rkBase dstp shuf i X s) :
    ∃ s', execList (roundIL vl i) s = .ok s' ∧
      ReadyL vl mem syms frame rkBase dstp shuf (i + 1) (fun j => stepN (X j) (unlanes 8 bs)) s' := by
  obtain ⟨s', hrun, hp⟩ := round_specL vl (sreg i 0) (sreg i 1) (sreg i 2) (sreg i 3) hvl (sreg_perm i) s h.lenG h.lenV bs
    (by rw [h.g0]; omega) (by rw [h.hmem, h.g0]; exact hrk) hbs h.v10 h.v11
  refine ⟨s', hrun, ?_⟩
  constructor
  · exact hp.lenG
  · exact hp.lenV
  · rw [hp.mem, h.hmem]
  · rw [hp.syms, h.hsyms]
  · rw [hp.frame, h.hframe]
  · rw [hp.g0, h.g0, Nat.mod_eq_of_lt (by omega)]; omega
  · rw [hp.g3, h.g3]
  · rw [hp.v10, h.v10]
  · rw [hp.v11, h.v11]
  · rw [hp.v12, h.v12]
  · intro j hj; rw [sreg_succ, hp.vB]; exact h.x1 j hj
  · intro j hj; rw [sreg_succ, hp.vC]; exact h.x2 j hj
  · intro j hj; rw [sreg_succ, hp.vD]; exact h.x3 j hj
  · intro j hj; rw [sreg_succ3, hp.vA j hj, h.x0 j hj, h.x1 j hj, h.x2 j hj, h.x3 j hj]; rfl

/-- rounds 0 .. n-1 at vector length `vl` -/
def roundsCodeL (vl : Nat) : Nat → List DInstr
  | 0 => []
  | n + 1 => roundsCodeL vl n ++ roundIL vl n

/-- **the 32 `subRound` blocks of a kernel at any vector length compute 32 rounds of SM4 on every dword lane** -/
theorem readyL_rounds (vl : Nat) (hvl : validVl vl = true) (mem : List Region) (syms frame : List (String × Nat))
    (rkBase dstp shuf : Nat) (kb : Nat → List Nat) (hbase : rkBase + 4 * 32 < 2 ^ 64)
    (hrk : ∀ i, i < 32 → readMem mem (rkBase + 4 * i) 4 = .ok (kb i))
    (hkb : ∀ i, i < 32 → unlanes 8 (kb i) < 2 ^ 32)
    (X : Nat → Nat × Nat × Nat × Nat) (s : State) (h : ReadyL vl mem syms frame rkBase dstp shuf 0 X s)
    (n : Nat) (hn : n ≤ 32) :
    ∃ s', execList (roundsCodeL vl n) s = .ok s' ∧
      ReadyL vl mem syms frame rkBase dstp shuf n (fun j => iterN (fun i => unlanes 8 (kb i)) (X j) n) s' := by
  induction n with
  | zero => exact ⟨s, rfl, h⟩
  | succ n ih =>
    obtain ⟨s1, hrun1, hr1⟩ := ih (by omega)
    obtain ⟨s2, hrun2, hr2⟩ := readyL_step vl hvl mem syms frame rkBase dstp shuf n _ s1 (kb n) (by omega) (hrk n (by omega))
      (hkb n (by omega)) hr1
    exact ⟨s2, execList_append_ok hrun1 hrun2, hr2⟩

/-- instructions `a .. a+n-1` of a listing, decoded, byte offsets erased -/
def decodedSlice (l : List Instr) (a n : Nat) : Option (List DInstr) :=
  (Routine.ofListing l).toOption.map (fun r => ((r.drop a).take n).map erasePc)

/-- the 544 instructions after the prologue of each wide kernel are exactly the 32 `subRound` blocks to which
    `readyL_rounds` applies (X2: 17 prologue instructions, vector length 16; X4/X8/X16: 25, vector length 16/32/64) -/
theorem wide_kernels_rounds :
    decodedSlice Gen.ListAmd64Asm.cryptoBlockAsmX2 17 544 = some (roundsCodeL 16 32)
    ∧ decodedSlice Gen.ListAmd64Asm.cryptoBlockAsmX4 25 544 = some (roundsCodeL 16 32)
    ∧ decodedSlice Gen.ListAmd64Asm.cryptoBlockAsmX8 25 544 = some (roundsCodeL 32 32)
    ∧ decodedSlice Gen.ListAmd64Asm.cryptoBlockAsmX16 25 544 = some (roundsCodeL 64 32) := by
  decide +kernel

end SMGo.Proofs.ISAVal
