/-
  The SCALAR-field element methods of `SMGo.Gen.CTIRProg.prog`, by TRANSFER from the coordinate-field methods.

  In `prog` the methods of `fiat.SM2ScalarElement` are separate Go functions with the same code as those of
  `fiat.SM2Element` up to the numbers of the functions they call and of the globals they read:
      0 ↦ 0   utils.ConstantTimeCmp
     28 ↦ 59  Bytes            29 ↦ 60  bytes           32 ↦ 63  sm2(Scalar)InvertEndianness
     33 ↦ 64  SetBytes         37 ↦ 68  Equal           38 ↦ 69  IsZero          42 ↦ 71  ToBigInt
  globals: 1 ↦ 3 (fiat.sm2MinusOneEncoding ↦ fiat.sm2ScalarMinusOneEncoding), 2 ↦ 4 (…ZeroEncoding).
  The Fiat primitives they call are DIFFERENT code (30/61 FromMontgomery, 31/62 ToBytes, 35/66 FromBytes,
  36/67 ToMontgomery; 61 and 67 call the scalar conditional move 48, where 30 and 36 call 11).

  The theorems of CTIRRefineField (`Bytes_field`, `IsZero_field`, `Equal_field`, `SetBytes_ok/err/panic`) and of
  CTIRRefinePointB (`toBigInt_computes`) hold for ANY program `P` that contains the coordinate-field wrappers
  (`HasWrappers P`, `HasAffine P`), with the primitives 30/31/35/36 as `Computes` hypotheses.  So:

  * `Psyn` (the SYNTHETIC program, 100 functions): the coordinate-field wrappers `fn_0, fn_28, fn_29, fn_32, fn_33,
    fn_37, fn_38, fn_42` at their own numbers, the SCALAR primitives `fn_61, fn_62, fn_66, fn_67` at the numbers
    30, 31, 35, 36 of the coordinate primitives, the scalar conditional move `fn_48` at 48 (and `fn_22, fn_89, fn_91,
    fn_93` for `HasAffine`; `fn_0` as a filler elsewhere).
  * `renames_syn : Renames Psyn prog σ γ D` (general renaming theorem of CTIRRefineRename; one `rfl` per function):
    `D = [0, 28, 29, 30, 31, 32, 35, 36, 37, 38, 42, 48]`.
  * `renames_prim : Renames prog Psyn τ γ [48, 61, 62, 66, 67]` (the way back for the primitives; `γ` is an
    involution, so globals `G` of `prog` ↦ globals `G ∘ γ` of `Psyn` ↦ `G` again).
  * The generic theorems, instantiated at `Psyn`, are transferred to `prog` by `Computes.ren`.

  ONE FUNCTION IS NOT A RENAMING in the sense of `renS`: `(*SM2ScalarElement).SetBytes` (64) versus
  `(*SM2Element).SetBytes` (33).  The two bodies agree up to σ, γ EXCEPT for the declassification SITE number of
  the statement `declass 4 _ (t3 > 0)` (site 2 in `fn_33`, site 3 in `fn_64`; `renS` keeps site numbers).  A site
  number only labels the `declass` event of the TRACE; it has no influence on the final environment or the control
  signal: `execV_erase` (Part 0).  `erase_33_64 : eraseS (renS σ γ fn_33.body) = eraseS fn_64.body` by `rfl`, and
  `computes_33_to_64` / `runV_64_eq_33` do the transfer for this function.  Nothing is left `_partial`.

  Model: `Model.Field.scalarSetBytes S v = Model.Field.setBytes S v` by `rfl` (`scalarSetBytes_eq_setBytes`): since
  the repair of the Go code the two functions are the same computation.

  Part 3 is the closed instance: `fiatN4` (= `Model.SM2.fiatN`, the regenerated `Gen.FiatN.*`, on the carrier of
  four limbs below 2^64), its `ScalarBytesPrims` / `ScalarSetBytesPrims` from CTIRRefineFiat, globals 3 and 4 of the
  generated `globals` computed by the kernel, and the run statements `ir_Scalar*_fiat`.
  (The scalar inversion 57 / 58 is not in this file.)
-/
import SMGo.Proofs.CTIRRefineRename
import SMGo.Proofs.CTIRRefineFiat
import SMGo.Model.SM2InstFiat
open SMGo SMGo.Model.CTIR SMGo.Gen.CTIRProg SMGo.Proofs.CTIRRefineUtils SMGo.Proofs.CTIRRefineField
open SMGo.Proofs.CTIRRefineRename (renE renS renF closedS Renames execV_ren EvIn.ren Computes.ren runV_ren)
open SMGo.Proofs.CTIRRefinePointB (HasAffine toBigInt_computes fuelToBigInt)
open SMGo.Proofs.CTIRRefineFiat (fuelFiat)

namespace SMGo.Proofs.CTIRRefineScalar

/-! ## Part 0: declassification site numbers do not influence a run -/

/-- set every declassification site number to 0 -/
def eraseS : Stmt → Stmt
  | .skip => .skip
  | .assign x p e => .assign x p e
  | .seq s t => .seq (eraseS s) (eraseS t)
  | .ite c s t => .ite c (eraseS s) (eraseS t)
  | .loop c b p => .loop c (eraseS b) (eraseS p)
  | .brk => .brk
  | .cont => .cont
  | .ret es => .ret es
  | .call lhs g args => .call lhs g args
  | .ext lhs n l args => .ext lhs n l args
  | .declass x _ e => .declass x 0 e
  | .panic => .panic

/-- the final environment and the control signal of a statement do not depend on its declassification site numbers
    (same program, so the callees are literally the same) -/
theorem execV_erase (P : Prog) (G : Nat → Val) (X : Oracle) :
    ∀ (f : Nat) (env : Env) (s : Stmt), execV P G X f env (eraseS s) = execV P G X f env s := by
  intro f
  induction f with
  | zero => intro env s; rfl
  | succ f ih =>
    intro env s
    cases s with
    | skip => rfl
    | brk => rfl
    | cont => rfl
    | panic => rfl
    | assign x p e => rfl
    | ret es => rfl
    | ext lhs n l args => rfl
    | call lhs g args => rfl
    | declass x site e =>
      simp only [eraseS]
      rw [execV_declass, execV_declass]
    | seq a b =>
      simp only [eraseS]
      rw [execV_seq, execV_seq, ih env a]
      generalize execV P G X f env a = r
      obtain ⟨env1, c1⟩ := r
      cases c1 <;> first | rfl | exact ih env1 b
    | ite c a b =>
      simp only [eraseS]
      rw [execV_ite, execV_ite]
      cases evalV G env c with
      | none => rfl
      | some v =>
        simp only
        cases asBool v with
        | none => rfl
        | some d =>
          cases d with
          | false => exact ih env b
          | true => exact ih env a
    | loop c a b =>
      simp only [eraseS]
      rw [execV_loop, execV_loop]
      cases evalV G env c with
      | none => rfl
      | some v =>
        simp only
        cases asBool v with
        | none => rfl
        | some d =>
          cases d with
          | false => rfl
          | true =>
            simp only
            rw [ih env a]
            generalize execV P G X f env a = r
            obtain ⟨env1, c1⟩ := r
            cases c1 <;> simp only <;>
              (rw [ih env1 b]
               generalize execV P G X f env1 b = r2
               obtain ⟨env2, c2⟩ := r2
               cases c2 <;> first | rfl | exact ih env2 (.loop c a b))

/-- two statements that agree up to declassification site numbers run alike -/
theorem execV_of_erase_eq {P : Prog} {G : Nat → Val} {X : Oracle} {s t : Stmt} (h : eraseS s = eraseS t)
    (f : Nat) (env : Env) : execV P G X f env s = execV P G X f env t := by
  rw [← execV_erase P G X f env s, h, execV_erase]

/-! ## Part 1: the renaming and the synthetic program -/

/-- function numbers: coordinate field ↦ scalar field (numbers outside the table go outside `prog`) -/
def σ : Nat → Nat
  | 0 => 0 | 28 => 59 | 29 => 60 | 30 => 61 | 31 => 62 | 32 => 63 | 33 => 64 | 35 => 66 | 36 => 67
  | 37 => 68 | 38 => 69 | 42 => 71 | 48 => 48 | _ => 100

/-- the way back for the primitives: numbers of `prog` ↦ numbers of `Psyn` -/
def τ : Nat → Nat
  | 48 => 48 | 61 => 30 | 62 => 31 | 66 => 35 | 67 => 36 | _ => 100

/-- global numbers: 1 ↔ 3 (the encodings of -1), 2 ↔ 4 (the encodings of 0), identity elsewhere; an involution -/
def γ : Nat → Nat
  | 1 => 3 | 2 => 4 | 3 => 1 | 4 => 2 | i => i

theorem γγ (i : Nat) : γ (γ i) = i := by
  rcases i with _|_|_|_|_|n <;> rfl

/-- the wrappers (without SetBytes, see the header), ConstantTimeCmp, and the four primitive slots with the
    conditional move of the scalar primitives -/
def D : List Nat := [0, 28, 29, 30, 31, 32, 35, 36, 37, 38, 42, 48]

/-- the scalar primitives and their conditional move, in `prog` -/
def Dprim : List Nat := [48, 61, 62, 66, 67]

/-- **the synthetic program**: coordinate-field wrappers over scalar-field primitives -/
def Psyn : Prog :=
  [fn_0, fn_0, fn_0, fn_0, fn_0, fn_0, fn_0, fn_0, fn_0, fn_0,
   fn_0, fn_0, fn_0, fn_0, fn_0, fn_0, fn_0, fn_0, fn_0, fn_0,
   fn_0, fn_0, fn_22, fn_0, fn_0, fn_0, fn_0, fn_0, fn_28, fn_29,
   fn_61, fn_62, fn_32, fn_33, fn_0, fn_66, fn_67, fn_37, fn_38, fn_0,
   fn_0, fn_0, fn_42, fn_0, fn_0, fn_0, fn_0, fn_0, fn_48, fn_0,
   fn_0, fn_0, fn_0, fn_0, fn_0, fn_0, fn_0, fn_0, fn_0, fn_0,
   fn_0, fn_0, fn_0, fn_0, fn_0, fn_0, fn_0, fn_0, fn_0, fn_0,
   fn_0, fn_0, fn_0, fn_0, fn_0, fn_0, fn_0, fn_0, fn_0, fn_0,
   fn_0, fn_0, fn_0, fn_0, fn_0, fn_0, fn_0, fn_0, fn_0, fn_89,
   fn_0, fn_91, fn_0, fn_93, fn_0, fn_0, fn_0, fn_0, fn_0, fn_0]

theorem Psyn_length : Psyn.length = 100 := rfl

theorem syn_hasWrappers : HasWrappers Psyn := ⟨rfl, rfl, rfl, rfl, rfl, rfl, rfl⟩
theorem syn_hasAffine : HasAffine Psyn := ⟨rfl, rfl, rfl, rfl, rfl⟩

/-! ### The scalar methods are the renamed coordinate methods: one `rfl` per function -/

set_option maxRecDepth 100000 in
/-- utils.ConstantTimeCmp (shared) -/
theorem ren_0 : prog[σ 0]? = some (renF σ γ fn_0) := rfl
set_option maxRecDepth 100000 in
theorem closed_0 : closedS D fn_0.body = true := rfl
set_option maxRecDepth 100000 in
/-- (*SM2ScalarElement).Bytes (59) is the renaming of (*SM2Element).Bytes (28) -/
theorem ren_28 : prog[σ 28]? = some (renF σ γ fn_28) := rfl
set_option maxRecDepth 100000 in
theorem closed_28 : closedS D fn_28.body = true := rfl
set_option maxRecDepth 100000 in
/-- (*SM2ScalarElement).bytes (60) is the renaming of (*SM2Element).bytes (29) -/
theorem ren_29 : prog[σ 29]? = some (renF σ γ fn_29) := rfl
set_option maxRecDepth 100000 in
theorem closed_29 : closedS D fn_29.body = true := rfl
set_option maxRecDepth 100000 in
/-- slot 30 of `Psyn` holds sm2ScalarFromMontgomery (61 of `prog`); it calls 48 ↦ 48 -/
theorem ren_30 : prog[σ 30]? = some (renF σ γ fn_61) := rfl
set_option maxRecDepth 100000 in
theorem closed_30 : closedS D fn_61.body = true := rfl
set_option maxRecDepth 100000 in
/-- slot 31 of `Psyn` holds sm2ScalarToBytes (62 of `prog`) -/
theorem ren_31 : prog[σ 31]? = some (renF σ γ fn_62) := rfl
set_option maxRecDepth 100000 in
theorem closed_31 : closedS D fn_62.body = true := rfl
set_option maxRecDepth 100000 in
/-- sm2ScalarInvertEndianness (63) is the renaming of sm2InvertEndianness (32) -/
theorem ren_32 : prog[σ 32]? = some (renF σ γ fn_32) := rfl
set_option maxRecDepth 100000 in
theorem closed_32 : closedS D fn_32.body = true := rfl
set_option maxRecDepth 100000 in
/-- slot 35 of `Psyn` holds sm2ScalarFromBytes (66 of `prog`) -/
theorem ren_35 : prog[σ 35]? = some (renF σ γ fn_66) := rfl
set_option maxRecDepth 100000 in
theorem closed_35 : closedS D fn_66.body = true := rfl
set_option maxRecDepth 100000 in
/-- slot 36 of `Psyn` holds sm2ScalarToMontgomery (67 of `prog`); it calls 48 ↦ 48 -/
theorem ren_36 : prog[σ 36]? = some (renF σ γ fn_67) := rfl
set_option maxRecDepth 100000 in
theorem closed_36 : closedS D fn_67.body = true := rfl
set_option maxRecDepth 100000 in
/-- (*SM2ScalarElement).Equal (68) is the renaming of (*SM2Element).Equal (37) -/
theorem ren_37 : prog[σ 37]? = some (renF σ γ fn_37) := rfl
set_option maxRecDepth 100000 in
theorem closed_37 : closedS D fn_37.body = true := rfl
set_option maxRecDepth 100000 in
/-- (*SM2ScalarElement).IsZero (69) is the renaming of (*SM2Element).IsZero (38); global 2 ↦ 4 -/
theorem ren_38 : prog[σ 38]? = some (renF σ γ fn_38) := rfl
set_option maxRecDepth 100000 in
theorem closed_38 : closedS D fn_38.body = true := rfl
set_option maxRecDepth 100000 in
/-- (*SM2ScalarElement).ToBigInt (71) is the renaming of (*SM2Element).ToBigInt (42) -/
theorem ren_42 : prog[σ 42]? = some (renF σ γ fn_42) := rfl
set_option maxRecDepth 100000 in
theorem closed_42 : closedS D fn_42.body = true := rfl
set_option maxRecDepth 100000 in
/-- sm2ScalarCmovznzU64 (48), kept under its number -/
theorem ren_48 : prog[σ 48]? = some (renF σ γ fn_48) := rfl
set_option maxRecDepth 100000 in
theorem closed_48 : closedS D fn_48.body = true := rfl

/-- **`Psyn` is `prog` up to the renaming, on `D`** -/
theorem renames_syn : Renames Psyn prog σ γ D := by
  intro g hg
  simp only [D, List.mem_cons, List.not_mem_nil, or_false] at hg
  rcases hg with rfl | rfl | rfl | rfl | rfl | rfl | rfl | rfl | rfl | rfl | rfl | rfl
  · exact ⟨fn_0, rfl, ren_0, closed_0⟩
  · exact ⟨fn_28, rfl, ren_28, closed_28⟩
  · exact ⟨fn_29, rfl, ren_29, closed_29⟩
  · exact ⟨fn_61, rfl, ren_30, closed_30⟩
  · exact ⟨fn_62, rfl, ren_31, closed_31⟩
  · exact ⟨fn_32, rfl, ren_32, closed_32⟩
  · exact ⟨fn_66, rfl, ren_35, closed_35⟩
  · exact ⟨fn_67, rfl, ren_36, closed_36⟩
  · exact ⟨fn_37, rfl, ren_37, closed_37⟩
  · exact ⟨fn_38, rfl, ren_38, closed_38⟩
  · exact ⟨fn_42, rfl, ren_42, closed_42⟩
  · exact ⟨fn_48, rfl, ren_48, closed_48⟩

/-! ### SetBytes: a renaming up to the declassification site (2 in `fn_33`, 3 in `fn_64`) -/

set_option maxRecDepth 100000 in
/-- the body of (*SM2Element).SetBytes only calls functions of `D` (0, 32, 35, 36) -/
theorem closed_33 : closedS D fn_33.body = true := rfl

set_option maxRecDepth 100000 in
/-- (*SM2ScalarElement).SetBytes (64) is the renaming of (*SM2Element).SetBytes (33) up to the site number of its
    `declass` statement -/
theorem erase_33_64 : eraseS (renS σ γ fn_33.body) = eraseS fn_64.body := rfl

/-- the declassification site numbers of a statement, in order -/
def sitesS : Stmt → List Nat
  | .seq s t => sitesS s ++ sitesS t
  | .ite _ s t => sitesS s ++ sitesS t
  | .loop _ b p => sitesS b ++ sitesS p
  | .declass _ site _ => [site]
  | _ => []

set_option maxRecDepth 100000 in
/-- the difference is real: with the site numbers kept the two bodies are different terms (sites `[2]` / `[3]`) -/
theorem ren_33_ne_64 : renS σ γ fn_33.body ≠ fn_64.body := by
  intro h
  have hs : sitesS (renS σ γ fn_33.body) = sitesS fn_64.body := congrArg sitesS h
  exact absurd hs (by decide)

section Transfer
variable {G : Nat → Val} {X : Oracle}

/-- a function of `D`: `Psyn` with globals `G ∘ γ` ↦ `prog` with globals `G` -/
theorem computes_of_syn {g F : Nat} {args res : List Val}
    (h : Computes Psyn (fun i => G (γ i)) X g F args res) (hg : g ∈ D) :
    Computes prog G X (σ g) F args res :=
  Computes.ren renames_syn h hg

/-- SetBytes: `Psyn` 33 with globals `G ∘ γ` ↦ `prog` 64 with globals `G` -/
theorem computes_33_to_64 {F : Nat} {args res : List Val}
    (h : Computes Psyn (fun i => G (γ i)) X 33 F args res) :
    Computes prog G X f_fiat_SM2ScalarElement_SetBytes F args res := by
  obtain ⟨fn, env', h0, _, hn, hb⟩ := h
  have e33 : Psyn[33]? = some fn_33 := rfl
  rw [e33] at h0
  cases h0
  have h1 : EvIn prog G X F (Env.ofList args) (renS σ γ fn_33.body) env' (.ret res) :=
    EvIn.ren renames_syn hb closed_33
  refine ⟨fn_64, env', rfl, rfl, hn, ?_⟩
  intro f hf
  rw [← execV_of_erase_eq erase_33_64]
  exact h1 f hf

/-- SetBytes, the run at every fuel (no hypothesis on the outcome) -/
theorem runV_64_eq_33 (f : Nat) (args : List Val) :
    runV prog G X f f_fiat_SM2ScalarElement_SetBytes args = runV Psyn (fun i => G (γ i)) X f 33 args := by
  have e64 : prog[f_fiat_SM2ScalarElement_SetBytes]? = some fn_64 := rfl
  have e33 : Psyn[33]? = some fn_33 := rfl
  rw [runV_eq, runV_eq, e64, e33]
  simp only
  rw [← execV_ren renames_syn f (Env.ofList args) fn_33.body closed_33, execV_of_erase_eq erase_33_64]
  rfl

set_option maxRecDepth 100000 in
theorem ren_p48 : Psyn[τ 48]? = some (renF τ γ fn_48) := rfl
set_option maxRecDepth 100000 in
theorem closed_p48 : closedS Dprim fn_48.body = true := rfl
set_option maxRecDepth 100000 in
theorem ren_p61 : Psyn[τ 61]? = some (renF τ γ fn_61) := rfl
set_option maxRecDepth 100000 in
theorem closed_p61 : closedS Dprim fn_61.body = true := rfl
set_option maxRecDepth 100000 in
theorem ren_p62 : Psyn[τ 62]? = some (renF τ γ fn_62) := rfl
set_option maxRecDepth 100000 in
theorem closed_p62 : closedS Dprim fn_62.body = true := rfl
set_option maxRecDepth 100000 in
theorem ren_p66 : Psyn[τ 66]? = some (renF τ γ fn_66) := rfl
set_option maxRecDepth 100000 in
theorem closed_p66 : closedS Dprim fn_66.body = true := rfl
set_option maxRecDepth 100000 in
theorem ren_p67 : Psyn[τ 67]? = some (renF τ γ fn_67) := rfl
set_option maxRecDepth 100000 in
theorem closed_p67 : closedS Dprim fn_67.body = true := rfl

/-- the scalar primitives of `prog` sit in `Psyn` under the numbers of the coordinate primitives -/
theorem renames_prim : Renames prog Psyn τ γ Dprim := by
  intro g hg
  simp only [Dprim, List.mem_cons, List.not_mem_nil, or_false] at hg
  rcases hg with rfl | rfl | rfl | rfl | rfl
  · exact ⟨fn_48, rfl, ren_p48, closed_p48⟩
  · exact ⟨fn_61, rfl, ren_p61, closed_p61⟩
  · exact ⟨fn_62, rfl, ren_p62, closed_p62⟩
  · exact ⟨fn_66, rfl, ren_p66, closed_p66⟩
  · exact ⟨fn_67, rfl, ren_p67, closed_p67⟩

/-- a scalar primitive: `prog` with globals `G` ↦ `Psyn` with globals `G ∘ γ` (`γ` is an involution) -/
theorem syn_of_prim {g F : Nat} {args res : List Val} (h : Computes prog G X g F args res) (hg : g ∈ Dprim) :
    Computes Psyn (fun i => G (γ i)) X (τ g) F args res := by
  have e : (fun i => G (γ (γ i))) = G := funext fun i => by rw [γγ]
  have h' : Computes prog (fun i => G (γ (γ i))) X g F args res := by rw [e]; exact h
  exact Computes.ren (G' := fun i => G (γ i)) renames_prim h' hg

end Transfer

/-! ## Part 2: the scalar-field methods of `prog` over an abstract `FieldOps` -/

section ScalarLevel
variable {β : Type} {G : Nat → Val} {X : Oracle}

/-- HYPOTHESES on the two Fiat primitives used by `(*SM2ScalarElement).Bytes`, at the element `x`:
    sm2ScalarFromMontgomery (61, called with a zeroed `tmp`) and sm2ScalarToBytes (62, called with the zeroed 32-byte
    `out`) compute the model's primitives, and the byte string has 32 bytes (`BytesPrims` with the scalar numbers) -/
structure ScalarBytesPrims (P : Prog) (G : Nat → Val) (X : Oracle) (S : Model.Field.FieldOps β) (encS : β → List Nat)
    (Fm Ft : Nat) (x : β) : Prop where
  fm : Computes P G X f_fiat_sm2ScalarFromMontgomery Fm [limbsV [0, 0, 0, 0], limbsV (encS x)]
        [limbsV (encS (S.fromMontgomery x))]
  tb : Computes P G X f_fiat_sm2ScalarToBytes Ft [bytesV (List.replicate 32 0), limbsV (encS (S.fromMontgomery x))]
        [bytesV (S.toBytesLE (S.fromMontgomery x))]
  len : (S.toBytesLE (S.fromMontgomery x)).length = 32

/-- HYPOTHESES on the two Fiat primitives used by `(*SM2ScalarElement).SetBytes`, at the input `v` and the old limbs
    `old` of the receiver: sm2ScalarFromBytes (66) and sm2ScalarToMontgomery (67) (`SetBytesPrims` with the scalar
    numbers) -/
structure ScalarSetBytesPrims (P : Prog) (G : Nat → Val) (X : Oracle) (S : Model.Field.FieldOps β)
    (encS : β → List Nat) (Fb Fo : Nat) (old : List Nat) (v : Bytes) : Prop where
  fb : Computes P G X f_fiat_sm2ScalarFromBytes Fb [limbsV [0, 0, 0, 0], bytesV v.reverse]
        [limbsV (encS (S.fromBytesLE v.reverse))]
  tm : Computes P G X f_fiat_sm2ScalarToMontgomery Fo [limbsV old, limbsV (encS (S.fromBytesLE v.reverse))]
        [limbsV (encS (S.toMontgomery (S.fromBytesLE v.reverse)))]

variable {S : Model.Field.FieldOps β} {encS : β → List Nat}

/-- the hypotheses about `prog` give the hypotheses of CTIRRefineField about `Psyn` -/
theorem synBytesPrims {Fm Ft : Nat} {x : β} (h : ScalarBytesPrims prog G X S encS Fm Ft x) :
    BytesPrims Psyn (fun i => G (γ i)) X S encS Fm Ft x :=
  ⟨syn_of_prim h.fm (by decide), syn_of_prim h.tb (by decide), h.len⟩

theorem synSetBytesPrims {Fb Fo : Nat} {old : List Nat} {v : Bytes}
    (h : ScalarSetBytesPrims prog G X S encS Fb Fo old v) :
    SetBytesPrims Psyn (fun i => G (γ i)) X S encS Fb Fo old v :=
  ⟨syn_of_prim h.fb (by decide), syn_of_prim h.tm (by decide)⟩

/-- since the repair of the Go code the model of the scalar SetBytes is the model of SetBytes -/
theorem scalarSetBytes_eq_setBytes (S : Model.Field.FieldOps β) (v : Bytes) :
    Model.Field.scalarSetBytes S v = Model.Field.setBytes S v := rfl

/-- **(*SM2ScalarElement).Bytes** (59) computes `Model.Field.bytes` -/
theorem scalarBytes_computes {Fm Ft : Nat} {x : β} (h : ScalarBytesPrims prog G X S encS Fm Ft x) :
    Computes prog G X f_fiat_SM2ScalarElement_Bytes (fuelBytes32 Fm Ft - 1) [elemV (encS x)]
      [bytesV (Model.Field.bytes S x)] :=
  computes_of_syn (g := 28) (Bytes_field syn_hasWrappers (synBytesPrims h)) (by decide)

/-- **(*SM2ScalarElement).bytes** (60, the outlined worker, any destination `out`) -/
theorem scalarbytes_computes {Fm Ft : Nat} {x : β} (out : Bytes)
    (hFM : Computes prog G X f_fiat_sm2ScalarFromMontgomery Fm [limbsV [0, 0, 0, 0], limbsV (encS x)]
      [limbsV (encS (S.fromMontgomery x))])
    (hTB : Computes prog G X f_fiat_sm2ScalarToBytes Ft [bytesV out, limbsV (encS (S.fromMontgomery x))]
      [bytesV (S.toBytesLE (S.fromMontgomery x))])
    (hlen : (S.toBytesLE (S.fromMontgomery x)).length < 9223372036854775808) :
    Computes prog G X f_fiat_SM2ScalarElement_bytes (fuelbytes Fm Ft (S.toBytesLE (S.fromMontgomery x)).length)
      [elemV (encS x), bytesV out] [bytesV (Model.Field.bytes S x), bytesV (Model.Field.bytes S x)] :=
  computes_of_syn (g := 29)
    (bytes_computes syn_hasWrappers.h29 syn_hasWrappers.h32 _ _ out _ (syn_of_prim hFM (by decide))
      (syn_of_prim hTB (by decide)) hlen) (by decide)

/-- **sm2ScalarInvertEndianness** (63) reverses its argument -/
theorem scalarInvertEndianness_computes (l : List Val) (hn : l.length < 9223372036854775808) :
    Computes prog G X f_fiat_sm2ScalarInvertEndianness (fuelIE l.length - 1) [.arr l] [.arr l.reverse] :=
  computes_of_syn (g := 32) (ie_computes syn_hasWrappers.h32 l hn) (by decide)

/-- **(*SM2ScalarElement).IsZero** (69) computes `Model.Field.isZero`, given that the global
    fiat.sm2ScalarZeroEncoding (global 4) holds the encoding of the zero element -/
theorem scalarIsZero_computes {Fm Ft : Nat} {x : β} (h : ScalarBytesPrims prog G X S encS Fm Ft x)
    (hG : G 4 = bytesV (Model.Field.bytes S S.zero)) :
    Computes prog G X f_fiat_SM2ScalarElement_IsZero (fuelIsZero Fm Ft - 1) [elemV (encS x)]
      [.int ((Model.Field.isZero S x : Nat) : Int)] :=
  computes_of_syn (g := 38) (IsZero_field (G := fun i => G (γ i)) syn_hasWrappers (synBytesPrims h) hG) (by decide)

/-- **(*SM2ScalarElement).Equal** (68) computes `Model.Field.equal` -/
theorem scalarEqual_computes {Fm Ft : Nat} {x t : β} (hx : ScalarBytesPrims prog G X S encS Fm Ft x)
    (ht : ScalarBytesPrims prog G X S encS Fm Ft t) :
    Computes prog G X f_fiat_SM2ScalarElement_Equal (fuelEqual Fm Ft - 1) [elemV (encS x), elemV (encS t)]
      [.int ((Model.Field.equal S x t : Nat) : Int)] :=
  computes_of_syn (g := 37) (Equal_field syn_hasWrappers (synBytesPrims hx) (synBytesPrims ht)) (by decide)

/-- **(*SM2ScalarElement).ToBigInt** (71) computes `Model.Field.toNat`; `hX`: the external `big.Int.SetBytes`
    (external 7) returns the value of the big-endian byte string (true of `stdOracle extKinds tape`) -/
theorem scalarToBigInt_computes {Fm Ft : Nat} {x : β} (h : ScalarBytesPrims prog G X S encS Fm Ft x)
    (hX : ∀ b : Bytes, X 7 [bytesV b] = [.int ((Bytes.toNatBE b : Nat) : Int)]) :
    Computes prog G X f_fiat_SM2ScalarElement_ToBigInt (fuelToBigInt Fm Ft) [elemV (encS x)]
      [.int ((Model.Field.toNat S x : Nat) : Int)] :=
  computes_of_syn (g := 42) (toBigInt_computes syn_hasWrappers syn_hasAffine (synBytesPrims h) hX) (by decide)

/-- **(*SM2ScalarElement).SetBytes** (64), the model returns an element: the IR stores it in the receiver and returns
    (receiver, receiver, nil); global 3 is fiat.sm2ScalarMinusOneEncoding -/
theorem scalarSetBytes_ok {Fb Fo : Nat} (hG : G 3 = bytesV (Model.Field.minusOneEncoding S)) (old : List Nat)
    (v : Bytes) (e' : β) (h : Model.Field.scalarSetBytes S v = .ok e')
    (hp : ScalarSetBytesPrims prog G X S encS Fb Fo old v) :
    Computes prog G X f_fiat_SM2ScalarElement_SetBytes (fuelSetBytes Fb Fo) [elemV old, bytesV v]
      [elemV (encS e'), elemV (encS e'), .int 0] :=
  computes_33_to_64
    (SetBytes_ok (G := fun i => G (γ i)) syn_hasWrappers hG old v e' h (synSetBytesPrims hp))

/-- **(*SM2ScalarElement).SetBytes**, the model returns an error (wrong length, or a value above `n - 1`): the
    receiver is unchanged, the results are a zero element (the IR's `nil`) and the error flag 1 -/
theorem scalarSetBytes_err (hG : G 3 = bytesV (Model.Field.minusOneEncoding S)) (old : List Nat) (v : Bytes)
    (h : Model.Field.scalarSetBytes S v = .err) :
    Computes prog G X f_fiat_SM2ScalarElement_SetBytes 404 [elemV old, bytesV v]
      [elemV old, elemV [0, 0, 0, 0], .int 1] :=
  computes_33_to_64 (SetBytes_err (G := fun i => G (γ i)) syn_hasWrappers hG old v h)

/-- **(*SM2ScalarElement).SetBytes**, the model panics (the comparison reads beyond the encoding of `n - 1`;
    excluded by `scalarSetBytes_ne_panic` when that encoding has 32 bytes): the IR run is stuck -/
theorem scalarSetBytes_panic (hG : G 3 = bytesV (Model.Field.minusOneEncoding S)) (old : List Nat) (v : Bytes)
    (h : Model.Field.scalarSetBytes S v = .panic) :
    ∀ f, runV prog G X f f_fiat_SM2ScalarElement_SetBytes [elemV old, bytesV v] = .stuck := by
  intro f
  rw [runV_64_eq_33]
  exact SetBytes_panic (G := fun i => G (γ i)) syn_hasWrappers hG old v h f

/-- the model of the scalar SetBytes cannot panic when the encoding of `n - 1` has (at least) 32 bytes -/
theorem scalarSetBytes_ne_panic (S : Model.Field.FieldOps β) (v : Bytes)
    (hm : 32 ≤ (Model.Field.minusOneEncoding S).length) : Model.Field.scalarSetBytes S v ≠ .panic :=
  setBytes_ne_panic S v hm

/-! ### The same as runs -/

/-- **(*SM2ScalarElement).Bytes = `Model.Field.bytes`** -/
theorem ir_ScalarBytes {Fm Ft : Nat} {x : β} (h : ScalarBytesPrims prog G X S encS Fm Ft x) :
    ∀ f, fuelBytes32 Fm Ft ≤ f →
      runV prog G X f f_fiat_SM2ScalarElement_Bytes [elemV (encS x)] = .ret [bytesV (Model.Field.bytes S x)] := by
  intro f hf
  exact (scalarBytes_computes h).runV f (by omega)

/-- **(*SM2ScalarElement).IsZero = `Model.Field.isZero`** -/
theorem ir_ScalarIsZero {Fm Ft : Nat} {x : β} (h : ScalarBytesPrims prog G X S encS Fm Ft x)
    (hG : G 4 = bytesV (Model.Field.bytes S S.zero)) :
    ∀ f, fuelIsZero Fm Ft ≤ f →
      runV prog G X f f_fiat_SM2ScalarElement_IsZero [elemV (encS x)]
        = .ret [.int ((Model.Field.isZero S x : Nat) : Int)] := by
  intro f hf
  exact (scalarIsZero_computes h hG).runV f (by omega)

/-- **(*SM2ScalarElement).Equal = `Model.Field.equal`** -/
theorem ir_ScalarEqual {Fm Ft : Nat} {x t : β} (hx : ScalarBytesPrims prog G X S encS Fm Ft x)
    (ht : ScalarBytesPrims prog G X S encS Fm Ft t) :
    ∀ f, fuelEqual Fm Ft ≤ f →
      runV prog G X f f_fiat_SM2ScalarElement_Equal [elemV (encS x), elemV (encS t)]
        = .ret [.int ((Model.Field.equal S x t : Nat) : Int)] := by
  intro f hf
  exact (scalarEqual_computes hx ht).runV f (by omega)

/-- **(*SM2ScalarElement).ToBigInt = `Model.Field.toNat`** -/
theorem ir_ScalarToBigInt {Fm Ft : Nat} {x : β} (h : ScalarBytesPrims prog G X S encS Fm Ft x)
    (hX : ∀ b : Bytes, X 7 [bytesV b] = [.int ((Bytes.toNatBE b : Nat) : Int)]) :
    ∀ f, fuelToBigInt Fm Ft ≤ f →
      runV prog G X f f_fiat_SM2ScalarElement_ToBigInt [elemV (encS x)]
        = .ret [.int ((Model.Field.toNat S x : Nat) : Int)] :=
  (scalarToBigInt_computes h hX).runV

/-- **(*SM2ScalarElement).SetBytes = `Model.Field.scalarSetBytes`**, the three outcomes in one statement -/
theorem ir_ScalarSetBytes_eq_model {Fb Fo : Nat} (hG : G 3 = bytesV (Model.Field.minusOneEncoding S))
    (old : List Nat) (v : Bytes) (hp : ScalarSetBytesPrims prog G X S encS Fb Fo old v) :
    match Model.Field.scalarSetBytes S v with
    | .ok e' => ∀ f, fuelSetBytes Fb Fo ≤ f →
        runV prog G X f f_fiat_SM2ScalarElement_SetBytes [elemV old, bytesV v]
          = .ret [elemV (encS e'), elemV (encS e'), .int 0]
    | .err => ∀ f, 404 ≤ f →
        runV prog G X f f_fiat_SM2ScalarElement_SetBytes [elemV old, bytesV v]
          = .ret [elemV old, elemV [0, 0, 0, 0], .int 1]
    | .panic => ∀ f, runV prog G X f f_fiat_SM2ScalarElement_SetBytes [elemV old, bytesV v] = .stuck := by
  cases h : Model.Field.scalarSetBytes S v with
  | ok e' => exact (scalarSetBytes_ok hG old v e' h hp).runV
  | err => exact (scalarSetBytes_err hG old v h).runV
  | panic => exact scalarSetBytes_panic hG old v h

end ScalarLevel

/-! ## Part 3: the closed instance — the regenerated Fiat code of the scalar field

  The carrier is `{l : List Nat // Out4 l}` (four limbs below 2^64, the Go type `[4]uint64`): the theorems of
  CTIRRefineFiat need their arguments in this set, and the generated functions stay inside it (their `Out4`
  conjuncts, true for any `G`, `X`).  As for the coordinate field (CTIRRefineClosed, not imported here), two
  operations of `FieldOps` take an argument outside the carrier and get a default: `fromBytesLE b` is
  `Gen.FiatN.sm2ScalarFromBytes` on 32 bytes and the zero element for another length (never used: `scalarSetBytes`
  checks the length first); `ofRaw l` is `l` if `Out4 l` and the zero element otherwise. -/

/-- four limbs below 2^64 -/
abbrev Limbs : Type := {l : List Nat // Out4 l}

/-- the limb encoding of the carrier `Limbs`: the limbs themselves -/
def encL : Limbs → List Nat := Subtype.val

/-- `Out4`, decided -/
def isOut4 : List Nat → Bool
  | [a, b, c, d] => decide (a < 18446744073709551616) && decide (b < 18446744073709551616) &&
      decide (c < 18446744073709551616) && decide (d < 18446744073709551616)
  | _ => false

theorem out4_of_isOut4 {l : List Nat} (h : isOut4 l = true) : Out4 l := by
  unfold isOut4 at h
  split at h
  · simp only [Bool.and_eq_true, decide_eq_true_eq] at h
    exact ⟨_, _, _, _, rfl, h.1.1.1, h.1.1.2, h.1.2, h.2⟩
  · exact absurd h (by simp)

theorem isOut4_of_out4 {l : List Nat} (h : Out4 l) : isOut4 l = true := by
  obtain ⟨a, b, c, d, rfl, ha, hb, hc, hd⟩ := h
  simp [isOut4, ha, hb, hc, hd]

theorem out4_zero : Out4 [0, 0, 0, 0] := ⟨0, 0, 0, 0, rfl, by decide, by decide, by decide, by decide⟩

/-! ### Closure of the generated scalar functions (the `Out4` conjuncts of CTIRRefineFiat, at a dummy `G`, `X`) -/

theorem out4N_setOne : Out4 Gen.FiatN.sm2ScalarSetOne :=
  (CTIRRefineFiat.ir_sm2ScalarSetOne_eq_gen (G := fun _ => .int 0) (X := fun _ _ => []) [0, 0, 0, 0] out4_zero).2
theorem out4N_add {a b : List Nat} (ha : Out4 a) (hb : Out4 b) : Out4 (Gen.FiatN.sm2ScalarAdd a b) :=
  (CTIRRefineFiat.ir_sm2ScalarAdd_eq_gen (G := fun _ => .int 0) (X := fun _ _ => []) [0, 0, 0, 0] a b out4_zero ha hb).2
theorem out4N_sub {a b : List Nat} (ha : Out4 a) (hb : Out4 b) : Out4 (Gen.FiatN.sm2ScalarSub a b) :=
  (CTIRRefineFiat.ir_sm2ScalarSub_eq_gen (G := fun _ => .int 0) (X := fun _ _ => []) [0, 0, 0, 0] a b out4_zero ha hb).2
theorem out4N_opp {a : List Nat} (ha : Out4 a) : Out4 (Gen.FiatN.sm2ScalarOpp a) :=
  (CTIRRefineFiat.ir_sm2ScalarOpp_eq_gen (G := fun _ => .int 0) (X := fun _ _ => []) [0, 0, 0, 0] a out4_zero ha).2
theorem out4N_mul {a b : List Nat} (ha : Out4 a) (hb : Out4 b) : Out4 (Gen.FiatN.sm2ScalarMul a b) :=
  (CTIRRefineFiat.ir_sm2ScalarMul_eq_gen (G := fun _ => .int 0) (X := fun _ _ => []) [0, 0, 0, 0] a b out4_zero ha hb).2
theorem out4N_square {a : List Nat} (ha : Out4 a) : Out4 (Gen.FiatN.sm2ScalarSquare a) :=
  (CTIRRefineFiat.ir_sm2ScalarSquare_eq_gen (G := fun _ => .int 0) (X := fun _ _ => []) [0, 0, 0, 0] a out4_zero ha).2
theorem out4N_fromMontgomery {a : List Nat} (ha : Out4 a) : Out4 (Gen.FiatN.sm2ScalarFromMontgomery a) :=
  (CTIRRefineFiat.ir_sm2ScalarFromMontgomery_eq_gen (G := fun _ => .int 0) (X := fun _ _ => []) [0, 0, 0, 0] a
    out4_zero ha).2
theorem out4N_toMontgomery {a : List Nat} (ha : Out4 a) : Out4 (Gen.FiatN.sm2ScalarToMontgomery a) :=
  (CTIRRefineFiat.ir_sm2ScalarToMontgomery_eq_gen (G := fun _ => .int 0) (X := fun _ _ => []) [0, 0, 0, 0] a
    out4_zero ha).2
theorem out4N_fromBytes {b : Bytes} (hb : b.length = 32) : Out4 (Gen.FiatN.sm2ScalarFromBytes (b.map UInt8.toNat)) :=
  (CTIRRefineFiat.ir_sm2ScalarFromBytes_eq_gen (G := fun _ => .int 0) (X := fun _ _ => []) [0, 0, 0, 0] b
    out4_zero hb).2
theorem lengthN_toBytes {a : List Nat} (ha : Out4 a) : ((Gen.FiatN.sm2ScalarToBytes a).map UInt8.ofNat).length = 32 :=
  (CTIRRefineFiat.ir_sm2ScalarToBytes_eq_gen (G := fun _ => .int 0) (X := fun _ _ => []) (List.replicate 32 0) a
    (by simp) ha).2

/-- the zero value of the Go struct -/
def zeroL : Limbs := ⟨[0, 0, 0, 0], out4_zero⟩

/-- **the scalar field of the Go code**: `Model.SM2.fiatN` (the generated functions `Gen.FiatN.*`, the generated
    inversion chain) on the carrier of well-formed limb vectors -/
def fiatN4 : Model.Field.FieldOps Limbs :=
  { modulus := Gen.SM2Params.param_N
    zero := zeroL
    setOne := ⟨Gen.FiatN.sm2ScalarSetOne, out4N_setOne⟩
    add := fun a b => ⟨Gen.FiatN.sm2ScalarAdd a.val b.val, out4N_add a.2 b.2⟩
    sub := fun a b => ⟨Gen.FiatN.sm2ScalarSub a.val b.val, out4N_sub a.2 b.2⟩
    opp := fun a => ⟨Gen.FiatN.sm2ScalarOpp a.val, out4N_opp a.2⟩
    mul := fun a b => ⟨Gen.FiatN.sm2ScalarMul a.val b.val, out4N_mul a.2 b.2⟩
    square := fun a => ⟨Gen.FiatN.sm2ScalarSquare a.val, out4N_square a.2⟩
    fromMontgomery := fun a => ⟨Gen.FiatN.sm2ScalarFromMontgomery a.val, out4N_fromMontgomery a.2⟩
    toMontgomery := fun a => ⟨Gen.FiatN.sm2ScalarToMontgomery a.val, out4N_toMontgomery a.2⟩
    toBytesLE := fun a => (Gen.FiatN.sm2ScalarToBytes a.val).map UInt8.ofNat
    fromBytesLE := fun b =>
      if h : b.length = 32 then ⟨Gen.FiatN.sm2ScalarFromBytes (b.map UInt8.toNat), out4N_fromBytes h⟩ else zeroL
    raw := Subtype.val
    ofRaw := fun l => if h : isOut4 l = true then ⟨l, out4_of_isOut4 h⟩ else zeroL
    chain := Gen.AddChain.scalarInverse
    chainRegs := Gen.AddChain.scalarInverse_regs }

/-! ### `fiatN4` is `Model.SM2.fiatN` on the underlying limbs -/

theorem fiatN4_modulus : fiatN4.modulus = Model.SM2.fiatN.modulus := rfl
theorem fiatN4_zero_val : fiatN4.zero.val = Model.SM2.fiatN.zero := rfl
theorem fiatN4_setOne_val : fiatN4.setOne.val = Model.SM2.fiatN.setOne := rfl
theorem fiatN4_add_val (a b : Limbs) : (fiatN4.add a b).val = Model.SM2.fiatN.add a.val b.val := rfl
theorem fiatN4_sub_val (a b : Limbs) : (fiatN4.sub a b).val = Model.SM2.fiatN.sub a.val b.val := rfl
theorem fiatN4_opp_val (a : Limbs) : (fiatN4.opp a).val = Model.SM2.fiatN.opp a.val := rfl
theorem fiatN4_mul_val (a b : Limbs) : (fiatN4.mul a b).val = Model.SM2.fiatN.mul a.val b.val := rfl
theorem fiatN4_square_val (a : Limbs) : (fiatN4.square a).val = Model.SM2.fiatN.square a.val := rfl
theorem fiatN4_fromMontgomery_val (a : Limbs) :
    (fiatN4.fromMontgomery a).val = Model.SM2.fiatN.fromMontgomery a.val := rfl
theorem fiatN4_toMontgomery_val (a : Limbs) : (fiatN4.toMontgomery a).val = Model.SM2.fiatN.toMontgomery a.val := rfl
theorem fiatN4_toBytesLE (a : Limbs) : fiatN4.toBytesLE a = Model.SM2.fiatN.toBytesLE a.val := rfl
theorem fiatN4_fromBytesLE_val (b : Bytes) (h : b.length = 32) :
    (fiatN4.fromBytesLE b).val = Model.SM2.fiatN.fromBytesLE b := by
  show (if h : b.length = 32 then (⟨Gen.FiatN.sm2ScalarFromBytes (b.map UInt8.toNat), out4N_fromBytes h⟩ : Limbs)
    else zeroL).val = _
  rw [dif_pos h]
  rfl
theorem fiatN4_raw (a : Limbs) : fiatN4.raw a = Model.SM2.fiatN.raw a.val := rfl
theorem fiatN4_ofRaw_val (l : List Nat) (h : Out4 l) : (fiatN4.ofRaw l).val = Model.SM2.fiatN.ofRaw l := by
  show (if h : isOut4 l = true then (⟨l, out4_of_isOut4 h⟩ : Limbs) else zeroL).val = _
  rw [dif_pos (isOut4_of_out4 h)]
  rfl
theorem fiatN4_chain : fiatN4.chain = Model.SM2.fiatN.chain := rfl
theorem fiatN4_chainRegs : fiatN4.chainRegs = Model.SM2.fiatN.chainRegs := rfl

/-- `Model.Field.bytes` of `fiatN4` is that of `fiatN` -/
theorem fiatN4_bytes (a : Limbs) : Model.Field.bytes fiatN4 a = Model.Field.bytes Model.SM2.fiatN a.val := rfl

/-- map the value of an outcome -/
def mapO {β β' : Type} (φ : β → β') : Outcome β → Outcome β'
  | .ok e => .ok (φ e)
  | .err => .err
  | .panic => .panic

/-- `scalarSetBytes` commutes with a map of carriers that preserves the encoding of -1 and the two primitives on
    32-byte inputs (abstract fields: nothing is unfolded) -/
theorem scalarSetBytes_map {β β' : Type} (S : Model.Field.FieldOps β) (S' : Model.Field.FieldOps β') (φ : β → β')
    (hm : Model.Field.minusOneEncoding S = Model.Field.minusOneEncoding S')
    (hv : ∀ b : Bytes, b.length = 32 → φ (S.toMontgomery (S.fromBytesLE b)) = S'.toMontgomery (S'.fromBytesLE b))
    (v : Bytes) : mapO φ (Model.Field.scalarSetBytes S v) = Model.Field.scalarSetBytes S' v := by
  unfold Model.Field.scalarSetBytes
  rw [hm]
  by_cases hlen : v.length = 32
  · have hne : ¬ v.length ≠ 32 := fun h => h hlen
    rw [if_neg hne, if_neg hne]
    cases Model.Utils.constantTimeCmp (some v) (some (Model.Field.minusOneEncoding S')) 32 with
    | err => rfl
    | panic => rfl
    | ok c =>
      by_cases hc : c > 0
      · simp only [if_pos hc]; rfl
      · simp only [if_neg hc, mapO]
        rw [hv _ (by rw [List.length_reverse, hlen])]
  · rw [if_pos hlen, if_pos hlen]; rfl

/-- `Model.Field.scalarSetBytes` of `fiatN4` is that of `fiatN` on the underlying limbs -/
theorem fiatN4_scalarSetBytes (v : Bytes) :
    mapO Subtype.val (Model.Field.scalarSetBytes fiatN4 v) = Model.Field.scalarSetBytes Model.SM2.fiatN v :=
  scalarSetBytes_map fiatN4 Model.SM2.fiatN Subtype.val rfl
    (fun b hb => by rw [fiatN4_toMontgomery_val, fiatN4_fromBytesLE_val b hb]) v

section Bundles4
variable {G : Nat → Val} {X : Oracle}

/-- sm2ScalarFromMontgomery and sm2ScalarToBytes of `prog` at every element, any globals, any oracle -/
theorem scalarBytesPrims4 (e : Limbs) : ScalarBytesPrims prog G X fiatN4 encL fuelFiat fuelFiat e where
  fm := (CTIRRefineFiat.ir_sm2ScalarFromMontgomery_eq_gen [0, 0, 0, 0] e.val out4_zero e.2).1
  tb := (CTIRRefineFiat.ir_sm2ScalarToBytes_eq_gen (List.replicate 32 0) (fiatN4.fromMontgomery e).val (by simp)
    (fiatN4.fromMontgomery e).2).1
  len := lengthN_toBytes (fiatN4.fromMontgomery e).2

/-- sm2ScalarFromBytes and sm2ScalarToMontgomery of `prog`, for a receiver holding `Out4` limbs and an input of
    32 bytes (for another length `SetBytes` does not reach the primitives) -/
theorem scalarSetBytesPrims4 (old : List Nat) (hold : Out4 old) (v : Bytes) (hv : v.length = 32) :
    ScalarSetBytesPrims prog G X fiatN4 encL fuelFiat fuelFiat old v := by
  have hr : v.reverse.length = 32 := by rw [List.length_reverse, hv]
  have e : encL (fiatN4.fromBytesLE v.reverse) = Gen.FiatN.sm2ScalarFromBytes (v.reverse.map UInt8.toNat) :=
    fiatN4_fromBytesLE_val v.reverse hr
  refine ⟨?_, ?_⟩
  · rw [e]
    exact (CTIRRefineFiat.ir_sm2ScalarFromBytes_eq_gen [0, 0, 0, 0] v.reverse out4_zero hr).1
  · exact (CTIRRefineFiat.ir_sm2ScalarToMontgomery_eq_gen old (fiatN4.fromBytesLE v.reverse).val hold
      (fiatN4.fromBytesLE v.reverse).2).1

end Bundles4

/-! ### The globals of the generated program (computed by running the init functions; checked by the kernel) -/

set_option maxRecDepth 100000 in
/-- global 3 = `fiat.sm2ScalarMinusOneEncoding` holds the encoding of -1 = n - 1 -/
theorem globals_3 : globals 3 = bytesV (Model.Field.minusOneEncoding fiatN4) := by kernel_rfl

set_option maxRecDepth 100000 in
/-- global 4 = `fiat.sm2ScalarZeroEncoding` holds the encoding of zero -/
theorem globals_4 : globals 4 = bytesV (Model.Field.bytes fiatN4 fiatN4.zero) := by kernel_rfl

theorem scalarMinusOne_length : (Model.Field.minusOneEncoding fiatN4).length = 32 := by
  show (fiatN4.toBytesLE (fiatN4.fromMontgomery (fiatN4.sub fiatN4.zero fiatN4.setOne))).reverse.length = 32
  rw [List.length_reverse]
  exact lengthN_toBytes (fiatN4.fromMontgomery (fiatN4.sub fiatN4.zero fiatN4.setOne)).2

/-! ### The scalar methods of `prog` at the generated globals, no hypothesis left -/

section Fiat
variable {X : Oracle}

/-- **(*SM2ScalarElement).Bytes of `prog` = `Model.Field.bytes fiatN4`** -/
theorem ir_ScalarBytes_fiat (x : Limbs) :
    ∀ f, fuelBytes32 fuelFiat fuelFiat ≤ f →
      runV prog globals X f f_fiat_SM2ScalarElement_Bytes [elemV (encL x)]
        = .ret [bytesV (Model.Field.bytes fiatN4 x)] :=
  ir_ScalarBytes (scalarBytesPrims4 x)

/-- **(*SM2ScalarElement).IsZero of `prog` = `Model.Field.isZero fiatN4`** -/
theorem ir_ScalarIsZero_fiat (x : Limbs) :
    ∀ f, fuelIsZero fuelFiat fuelFiat ≤ f →
      runV prog globals X f f_fiat_SM2ScalarElement_IsZero [elemV (encL x)]
        = .ret [.int ((Model.Field.isZero fiatN4 x : Nat) : Int)] :=
  ir_ScalarIsZero (scalarBytesPrims4 x) globals_4

/-- **(*SM2ScalarElement).Equal of `prog` = `Model.Field.equal fiatN4`** -/
theorem ir_ScalarEqual_fiat (x t : Limbs) :
    ∀ f, fuelEqual fuelFiat fuelFiat ≤ f →
      runV prog globals X f f_fiat_SM2ScalarElement_Equal [elemV (encL x), elemV (encL t)]
        = .ret [.int ((Model.Field.equal fiatN4 x t : Nat) : Int)] :=
  ir_ScalarEqual (scalarBytesPrims4 x) (scalarBytesPrims4 t)

/-- **(*SM2ScalarElement).ToBigInt of `prog` = `Model.Field.toNat fiatN4`**, for an oracle whose external 7
    (`big.Int.SetBytes`) is `Bytes.toNatBE` -/
theorem ir_ScalarToBigInt_fiat (hX : ∀ b : Bytes, X 7 [bytesV b] = [.int ((Bytes.toNatBE b : Nat) : Int)]) (x : Limbs) :
    ∀ f, fuelToBigInt fuelFiat fuelFiat ≤ f →
      runV prog globals X f f_fiat_SM2ScalarElement_ToBigInt [elemV (encL x)]
        = .ret [.int ((Model.Field.toNat fiatN4 x : Nat) : Int)] :=
  ir_ScalarToBigInt (scalarBytesPrims4 x) hX

/-- the same for the standard oracle of the harness -/
theorem ir_ScalarToBigInt_fiat_std (tape : Nat → Nat → Nat) (x : Limbs) :
    ∀ f, fuelToBigInt fuelFiat fuelFiat ≤ f →
      runV prog globals (stdOracle extKinds tape) f f_fiat_SM2ScalarElement_ToBigInt [elemV (encL x)]
        = .ret [.int ((Model.Field.toNat fiatN4 x : Nat) : Int)] :=
  ir_ScalarToBigInt_fiat (CTIRRefinePointB.stdOracle_setBytes tape) x

/-- **(*SM2ScalarElement).SetBytes of `prog` = `Model.Field.scalarSetBytes fiatN4`**, receiver with any `Out4` limbs,
    any input: success stores the element, failure (length ≠ 32 or value above n - 1) leaves the receiver; the model
    never panics -/
theorem ir_ScalarSetBytes_fiat (old : List Nat) (hold : Out4 old) (v : Bytes) :
    (∀ e', Model.Field.scalarSetBytes fiatN4 v = .ok e' → ∀ f, fuelSetBytes fuelFiat fuelFiat ≤ f →
      runV prog globals X f f_fiat_SM2ScalarElement_SetBytes [elemV old, bytesV v]
        = .ret [elemV (encL e'), elemV (encL e'), .int 0]) ∧
    (Model.Field.scalarSetBytes fiatN4 v = .err → ∀ f, 404 ≤ f →
      runV prog globals X f f_fiat_SM2ScalarElement_SetBytes [elemV old, bytesV v]
        = .ret [elemV old, elemV [0, 0, 0, 0], .int 1]) ∧
    Model.Field.scalarSetBytes fiatN4 v ≠ .panic := by
  refine ⟨fun e' h => ?_, fun h => (scalarSetBytes_err globals_3 old v h).runV,
    scalarSetBytes_ne_panic fiatN4 v (by rw [scalarMinusOne_length]; exact Nat.le_refl _)⟩
  have hv : v.length = 32 := by
    apply Classical.byContradiction
    intro hne
    simp [Model.Field.scalarSetBytes, hne] at h
  exact (scalarSetBytes_ok globals_3 old v e' h (scalarSetBytesPrims4 old hold v hv)).runV

end Fiat

end SMGo.Proofs.CTIRRefineScalar

#print axioms SMGo.Proofs.CTIRRefineScalar.execV_erase
#print axioms SMGo.Proofs.CTIRRefineScalar.renames_syn
#print axioms SMGo.Proofs.CTIRRefineScalar.renames_prim
#print axioms SMGo.Proofs.CTIRRefineScalar.scalarBytes_computes
#print axioms SMGo.Proofs.CTIRRefineScalar.scalarIsZero_computes
#print axioms SMGo.Proofs.CTIRRefineScalar.scalarEqual_computes
#print axioms SMGo.Proofs.CTIRRefineScalar.scalarToBigInt_computes
#print axioms SMGo.Proofs.CTIRRefineScalar.scalarSetBytes_ok
#print axioms SMGo.Proofs.CTIRRefineScalar.scalarSetBytes_err
#print axioms SMGo.Proofs.CTIRRefineScalar.scalarSetBytes_panic
#print axioms SMGo.Proofs.CTIRRefineScalar.ir_ScalarSetBytes_eq_model
#print axioms SMGo.Proofs.CTIRRefineScalar.ir_ScalarBytes
#print axioms SMGo.Proofs.CTIRRefineScalar.ir_ScalarIsZero
#print axioms SMGo.Proofs.CTIRRefineScalar.ir_ScalarEqual
#print axioms SMGo.Proofs.CTIRRefineScalar.ir_ScalarToBigInt
#print axioms SMGo.Proofs.CTIRRefineScalar.fiatN4_scalarSetBytes
#print axioms SMGo.Proofs.CTIRRefineScalar.scalarBytesPrims4
#print axioms SMGo.Proofs.CTIRRefineScalar.scalarSetBytesPrims4
#print axioms SMGo.Proofs.CTIRRefineScalar.globals_3
#print axioms SMGo.Proofs.CTIRRefineScalar.globals_4
#print axioms SMGo.Proofs.CTIRRefineScalar.ir_ScalarBytes_fiat
#print axioms SMGo.Proofs.CTIRRefineScalar.ir_ScalarIsZero_fiat
#print axioms SMGo.Proofs.CTIRRefineScalar.ir_ScalarEqual_fiat
#print axioms SMGo.Proofs.CTIRRefineScalar.ir_ScalarToBigInt_fiat_std
#print axioms SMGo.Proofs.CTIRRefineScalar.ir_ScalarSetBytes_fiat
