/-
  Lemmas for property C13: the user hash `ZA`, the message digest e = SM3(ZA ‖ M), and the reduction of
  the id- and message-level entry points of sm2.go to the digest-level ones.
  The only facts used about the layers below are "the SM3 value answers every Write/Sum history like
  the standard" (C04, `hsm3`) and the contents of `zBytes` (`hz`).  Core Lean only.
-/
import SMGo.Model.SM2Proto
import SMGo.Spec.SM2Proto
namespace SMGo.Proofs.SM2ZA
open SMGo SMGo.Model SMGo.Model.SM2

variable {α β : Type}

/-! ### Write, …, Write, Sum on a fresh hash -/

theorem sum_two (tt : List W32) (hsm3 : ∀ ops, Model.SM3.run tt ops = Spec.SM3.runHistory ops) (d1 d2 : Bytes) :
    SM3.sum tt (SM3.write tt (SM3.write tt (SM3.reset SM3.zero) d1).1 d2).1 [] = Spec.SM3.hash (d1 ++ d2) := by
  have := hsm3 [.write d1, .write d2, .sum []]
  simp [Model.SM3.run, Model.SM3.step, Spec.SM3.runHistory] at this
  exact this.2.2

theorem sum_five (tt : List W32) (hsm3 : ∀ ops, Model.SM3.run tt ops = Spec.SM3.runHistory ops)
    (d1 d2 d3 d4 d5 : Bytes) :
    SM3.sum tt (SM3.write tt (SM3.write tt (SM3.write tt (SM3.write tt (SM3.write tt
        (SM3.reset SM3.zero) d1).1 d2).1 d3).1 d4).1 d5).1 []
      = Spec.SM3.hash (d1 ++ d2 ++ d3 ++ d4 ++ d5) := by
  have := hsm3 [.write d1, .write d2, .write d3, .write d4, .write d5, .sum []]
  simp [Model.SM3.run, Model.SM3.step, Spec.SM3.runHistory] at this
  simpa using this.2.2.2.2.2

/-! ### ZA -/

/-- the id is too long for the 16-bit ENTL exactly from 8192 bytes on -/
theorem entl_overflow_iff (id : Bytes) : id.length * 8 ≥ 65536 ↔ 8192 ≤ id.length := by omega

/-- below that, the two ENTL bytes hold the bit length of the id -/
theorem entl_faithful (v : Nat) (h : v < 65536) : Bytes.toNatBE (Bytes.ofNatBE 2 v) = v := by
  have h1 : (UInt8.ofNat (v / 256 % 256)).toNat = v / 256 % 256 := by
    simp
  have h2 : (UInt8.ofNat (v % 256)).toNat = v % 256 := by
    simp
  have : Bytes.ofNatBE 2 v = [UInt8.ofNat (v / 256 % 256), UInt8.ofNat (v % 256)] := by
    simp [Bytes.ofNatBE, List.range_succ]
  rw [this]
  simp only [Bytes.toNatBE, List.foldl_cons, List.foldl_nil, h1, h2]
  omega

theorem za_spec (X : Ctx α β) (hsm3 : ∀ ops, Model.SM3.run X.tt ops = Spec.SM3.runHistory ops)
    (hz : X.zBytes = Bytes.ofNatBE 32 Spec.SM2.a ++ Bytes.ofNatBE 32 Spec.SM2.b
      ++ Bytes.ofNatBE 32 Spec.SM2.Gx ++ Bytes.ofNatBE 32 Spec.SM2.Gy)
    (id px py : Bytes) :
    za X id px py =
      (match Spec.SM2.za id px py with
       | some z => .ok z
       | none => .err) := by
  by_cases h : id.length * 8 ≥ 65536
  · simp [za, Spec.SM2.za, h]
  · simp only [za, Spec.SM2.za, h, if_false]
    rw [sum_five X.tt hsm3, hz]
    simp [List.append_assoc]

theorem za_err_iff (X : Ctx α β) (id px py : Bytes) : za X id px py = .err ↔ 8192 ≤ id.length := by
  rw [← entl_overflow_iff]
  by_cases h : id.length * 8 ≥ 65536
  · simp [za, h]
  · simp [za, h]

/-! ### e = SM3(ZA ‖ M) and the entry points built on it -/

theorem hashZaMsg_spec (X : Ctx α β) (hsm3 : ∀ ops, Model.SM3.run X.tt ops = Spec.SM3.runHistory ops)
    (z msg : Bytes) : hashZaMsg X z msg = Spec.SM2.digest z msg := by
  rw [hashZaMsg, Spec.SM2.digest]
  exact sum_two X.tt hsm3 z msg

theorem signZa_eq (X : Ctx α β) (hsm3 : ∀ ops, Model.SM3.run X.tt ops = Spec.SM3.runHistory ops)
    (sc : Script) (priv z msg : Bytes) :
    signZa X sc priv z msg = signHashed X sc priv (Spec.SM2.digest z msg) := by
  rw [signZa, hashZaMsg_spec X hsm3]

theorem verifyZa_eq (X : Ctx α β) (hsm3 : ∀ ops, Model.SM3.run X.tt ops = Spec.SM3.runHistory ops)
    (px py z msg r s : Bytes) :
    verifyZa X px py z msg r s = verifyHashed X px py (Spec.SM2.digest z msg) r s := by
  rw [verifyZa, hashZaMsg_spec X hsm3]

theorem sign_eq_signHashed (X : Ctx α β) (hsm3 : ∀ ops, Model.SM3.run X.tt ops = Spec.SM3.runHistory ops)
    (hz : X.zBytes = Bytes.ofNatBE 32 Spec.SM2.a ++ Bytes.ofNatBE 32 Spec.SM2.b
      ++ Bytes.ofNatBE 32 Spec.SM2.Gx ++ Bytes.ofNatBE 32 Spec.SM2.Gy)
    (id px py : Bytes) (sc : Script) (priv msg : Bytes) :
    sign X id px py sc priv msg =
      (match Spec.SM2.za id px py with
       | some z => signHashed X sc priv (Spec.SM2.digest z msg)
       | none => .err) := by
  rw [sign, za_spec X hsm3 hz]
  cases Spec.SM2.za id px py with
  | none => rfl
  | some z => exact signZa_eq X hsm3 sc priv z msg

theorem verify_eq_verifyHashed (X : Ctx α β) (hsm3 : ∀ ops, Model.SM3.run X.tt ops = Spec.SM3.runHistory ops)
    (hz : X.zBytes = Bytes.ofNatBE 32 Spec.SM2.a ++ Bytes.ofNatBE 32 Spec.SM2.b
      ++ Bytes.ofNatBE 32 Spec.SM2.Gx ++ Bytes.ofNatBE 32 Spec.SM2.Gy)
    (id px py msg r s : Bytes) :
    verify X id px py msg r s =
      (match Spec.SM2.za id px py with
       | some z => verifyHashed X px py (Spec.SM2.digest z msg) r s
       | none => .ok false) := by
  rw [verify, za_spec X hsm3 hz]
  cases Spec.SM2.za id px py with
  | none => rfl
  | some z => exact verifyZa_eq X hsm3 px py z msg r s

/-- refusal of an over-long id needs no hypothesis at all -/
theorem sign_long_id (X : Ctx α β) (id px py : Bytes) (sc : Script) (priv msg : Bytes) (h : 8192 ≤ id.length) :
    sign X id px py sc priv msg = .err := by
  rw [sign, (za_err_iff X id px py).mpr h]; rfl

theorem verify_long_id (X : Ctx α β) (id px py msg r s : Bytes) (h : 8192 ≤ id.length) :
    verify X id px py msg r s = .ok false := by
  rw [verify, (za_err_iff X id px py).mpr h]

end SMGo.Proofs.SM2ZA
