import SMGo.Proofs.ISAValOpenCmp5
set_option linter.unusedSimpArgs false
namespace SMGo.Proofs.ISAVal
open SMGo.Model.ISAVal SMGo.Model.GCM SMGo.Proofs.GCM SMGo.Proofs.ISATouch
open SMGo.Model.ISA (Reg Opd Instr)

/-- the memory of `openAsm` with the 32-byte scratch buffer split into the scratch block `t` and the expected-tag block `d` -/
def M2o (rk dst nonce ct aad : List Nat) (d t : List Nat) : List Region := fmem "cipher" false rk dst nonce ct aad (t ++ d)

theorem drop_take_left (a b : List Nat) (off n : Nat) (h : off + n ≤ a.length) : ((a ++ b).drop off).take n = (a.drop off).take n := by
  rw [List.drop_append_of_le_length (by omega), List.take_append_of_le_length (by rw [List.length_drop]; omega)]

theorem drop_take_right (a b : List Nat) (off n : Nat) : ((a ++ b).drop (a.length + off)).take n = (b.drop off).take n := by
  rw [List.drop_append, List.drop_eq_nil_of_le (by omega), List.nil_append, Nat.add_sub_cancel_left]

theorem splice_left (a b : List Nat) (off : Nat) (bs : List Nat) (h : off + bs.length ≤ a.length) :
    (a ++ b).take off ++ bs ++ (a ++ b).drop (off + bs.length) = (a.take off ++ bs ++ a.drop (off + bs.length)) ++ b := by
  rw [List.take_append_of_le_length (by omega), List.drop_append_of_le_length (by omega)]
  simp only [List.append_assoc]

theorem splice_right (a b : List Nat) (off : Nat) (bs : List Nat) :
    (a ++ b).take (a.length + off) ++ bs ++ (a ++ b).drop (a.length + off + bs.length) = a ++ (b.take off ++ bs ++ b.drop (off + bs.length)) := by
  rw [List.take_append, List.drop_append, List.take_of_length_le (by omega), List.drop_eq_nil_of_le (by omega)]
  simp only [List.nil_append, List.append_assoc]
  congr 3
  · congr 1; omega
  · congr 1; omega

theorem mem2o (rk dst nonce ct aad : List Nat) :
    Mem2L (M2o rk dst nonce ct aad) (94489280512 + 16) 16 94489280512 16 := by
  refine ⟨fun dc hdc => ⟨?_, ?_⟩, fun tc htc => ⟨?_, ?_⟩, ?_, fun dc tc => fmem_sym_shuffle1 .., fun dc tc => fmem_sym_shuffle2 ..⟩
  · intro b off n hb hn
    show readMem (fmem "cipher" false rk dst nonce ct aad (b ++ dc)) _ _ = _
    rw [fmem_read_tmp _ _ _ _ _ _ _ _ off n (by rw [List.length_append]; omega) (by omega), drop_take_left b dc off n (by omega)]
  · intro b off bs hb hn
    show writeMem (fmem "cipher" false rk dst nonce ct aad (b ++ dc)) _ _ = .ok (fmem "cipher" false rk dst nonce ct aad (_ ++ dc))
    rw [fmem_write_tmp _ _ _ _ _ _ _ _ off bs (by rw [List.length_append]; omega) (by omega), splice_left b dc off bs (by omega)]
  · intro b off n hb hn
    show readMem (fmem "cipher" false rk dst nonce ct aad (tc ++ b)) _ _ = _
    rw [Nat.add_assoc, fmem_read_tmp _ _ _ _ _ _ _ _ (16 + off) n (by rw [List.length_append]; omega) (by omega), ← htc,
      drop_take_right tc b off n]
  · intro b off bs hb hn
    show writeMem (fmem "cipher" false rk dst nonce ct aad (tc ++ b)) _ _ = .ok (fmem "cipher" false rk dst nonce ct aad (tc ++ _))
    rw [Nat.add_assoc, fmem_write_tmp _ _ _ _ _ _ _ _ (16 + off) bs (by rw [List.length_append]; omega) (by omega), ← htc,
      splice_right tc b off bs]
  · intro dc tc hdc htc off n hn
    show readMem (fmem "cipher" false rk dst nonce ct aad (tc ++ dc)) _ _ = _
    rw [fmem_read_tmp _ _ _ _ _ _ _ _ off n (by rw [List.length_append]; omega) (by omega), drop_take_left tc dc off n hn]

end SMGo.Proofs.ISAVal
