import SMGo.Proofs.ISAValFusedBody
import SMGo.Proofs.ISAValGhashSpec
set_option linter.unusedSimpArgs false
namespace SMGo.Proofs.ISAVal
open SMGo.Model.ISAVal SMGo.Model.GCM SMGo.Proofs.GCM SMGo.Proofs.ISATouch
open SMGo.Model.ISA (Reg Opd Instr)

theorem body1_nc (p cnt Acc : Nat) : (body1Code p cnt Acc).all (fun i => !i.mn.isControl) = true := by
  simp [body1Code, load1Code, rbCode, gh1Code, mulRedCode, mulCode, redCode, ins, Mn.isControl]
theorem body4_nc (p cnt Acc : Nat) : (body4Code p cnt Acc).all (fun i => !i.mn.isControl) = true := by
  simp [body4Code, load4Code, rbCode, gh4Code, mulRedCode, mulCode, redCode, ins, Mn.isControl]
theorem body1_len (p cnt Acc : Nat) : (body1Code p cnt Acc).length = 29 := by
  simp [body1Code, load1Code, rbCode, gh1Code, mulRedCode, mulCode, redCode]
theorem body4_len (p cnt Acc : Nat) : (body4Code p cnt Acc).length = 33 := by
  simp [body4Code, load4Code, rbCode, gh4Code, mulRedCode, mulCode, redCode]

/-- how the data behind a pointer is read -/
def DataAt (mem : List Region) (dp : Nat) (d : List Nat) : Prop :=
  ∀ off n, off + n ≤ d.length → readMem mem (dp + off) n = .ok ((d.drop off).take n)

theorem DataAt.drop {mem : List Region} {dp : Nat} {d : List Nat} (h : DataAt mem dp d) (k : Nat) (hk : k ≤ d.length) :
    DataAt mem (dp + k) (d.drop k) := by
  intro off n hn
  rw [List.length_drop] at hn
  rw [Nat.add_assoc, h (k + off) n (by omega), List.drop_drop]

/-- **the by-1 GHASH loop**: `n ≥ 1` blocks, one at a time -/
theorem gh_loop1 (r : Routine) (k1 p cnt Acc p1 : Nat) (hi : loopInst p cnt Acc)
    (hs : Slice r k1 (body1Code p cnt Acc ++ [jcc .JGT p1])) (hl : findPc r p1 = some (r.drop k1)) (h : Nat) :
    ∀ (n : Nat) (s : State) (dp y : Nat) (d : List Nat), GhCtx h s → greg s p = dp → greg s cnt = n → vreg s Acc = y →
      y < 2 ^ 128 → 1 ≤ n → n < 2 ^ 63 → dp + 16 * n < 2 ^ 64 → 16 * n ≤ d.length → (∀ x ∈ d, x < 2 ^ 8) → DataAt s.mem dp d →
      ∃ s', Reach r k1 s (k1 + 30) s' (30 * n) ∧ GhCtx h s' ∧ vreg s' Acc = ghN h n y d ∧ vreg s' Acc < 2 ^ 128 ∧
        greg s' p = dp + 16 * n ∧ greg s' cnt = 0 ∧ Keeps (bodyKeepG p cnt) (bodyKeepV Acc) (List.range 8) s s' := by
  intro n
  induction n with
  | zero => intro s dp y d _ _ _ _ _ h1; omega
  | succ n ih =>
    intro s dp y d c hgp hgc hy hylt _ hn63 hdp hlen hdb hdat
    have hrd := hdat 0 16 (by omega)
    rw [Nat.add_zero, List.drop_zero] at hrd
    obtain ⟨s1, hr1, c1, g1p, g1c, v1, lt1, fl1, kp1⟩ := body1_spec p cnt Acc hi s h c dp (n + 1) y (d.take 16) hgp hgc hy hylt
      (by omega) (by omega) hn63 hrd (by rw [List.length_take]; omega) (fun x hx => hdb x (List.mem_of_mem_take hx))
    have rA : Reach r k1 s (k1 + 29) s1 29 := by
      have := reach_seg hs.left (body1_nc p cnt Acc) hr1
      rw [body1_len] at this; exact this
    have hsJ : Slice r (k1 + 29) [jcc .JGT p1] := by
      have := hs.right; rw [body1_len] at this; exact this
    have hcnd : Model.ISAVal.cond .JGT s1.flags = .ok (decide (0 < n + 1 - 1)) := by
      rw [fl1]; exact cond_jgt (n + 1 - 1) 0 (by omega) (by decide)
    have rJ := reach_jcc (r := r) (k := k1 + 29) (idx := k1) hsJ rfl hl hcnd
    by_cases hn0 : n = 0
    · subst hn0
      simp only [Nat.add_sub_cancel, Nat.lt_irrefl, decide_false, Bool.false_eq_true, if_false] at rJ
      refine ⟨s1, (rA.trans rJ).cast rfl (by omega), c1, ?_, lt1, by rw [g1p], g1c, kp1⟩
      rw [v1]; simp [ghN]
    · have hpos : 0 < n + 1 - 1 := by omega
      simp only [hpos, decide_true, if_true] at rJ
      obtain ⟨s2, hr2, c2, v2, lt2, g2p, g2c, kp2⟩ := ih s1 (dp + 16) _ (d.drop 16) c1 g1p (by rw [g1c]; omega) v1 (by rw [← v1]; exact lt1) (by omega) (by omega)
        (by omega) (by rw [List.length_drop]; omega) (fun x hx => hdb x (List.mem_of_mem_drop hx))
        (by rw [kp1.mem]; exact hdat.drop 16 (by omega))
      refine ⟨s2, ((rA.trans rJ).trans hr2).cast rfl (by omega), c2, ?_, lt2, by rw [g2p]; omega, g2c, kp1.trans kp2⟩
      rw [v2]; rfl

/-- **the by-4 GHASH loop**: `m ≥ 1` groups of four blocks while more than 3 remain -/
theorem gh_loop4 (r : Routine) (k4 p cnt Acc p4 : Nat) (hi : loopInst p cnt Acc)
    (hs : Slice r k4 (body4Code p cnt Acc ++ [jcc .JGT p4])) (hl : findPc r p4 = some (r.drop k4)) (h : Nat) :
    ∀ (m : Nat) (s : State) (dp y rr : Nat) (d : List Nat), GhCtx h s → greg s p = dp → greg s cnt = 4 * m + rr → rr < 4 → vreg s Acc = y →
      y < 2 ^ 128 → 1 ≤ m → 4 * m + rr < 2 ^ 63 → dp + 64 * m < 2 ^ 64 → 64 * m ≤ d.length → (∀ x ∈ d, x < 2 ^ 8) → DataAt s.mem dp d →
      ∃ s', Reach r k4 s (k4 + 34) s' (34 * m) ∧ GhCtx h s' ∧ vreg s' Acc = ghN4 h m y d ∧ vreg s' Acc < 2 ^ 128 ∧
        greg s' p = dp + 64 * m ∧ greg s' cnt = rr ∧ s'.flags = (subF 8 rr 3).2 ∧
        Keeps (bodyKeepG p cnt) (bodyKeepV Acc) (List.range 8) s s' := by
  intro m
  induction m with
  | zero => intro s dp y rr d _ _ _ _ _ _ h1; omega
  | succ m ih =>
    intro s dp y rr d c hgp hgc hrr hy hylt _ hn63 hdp hlen hdb hdat
    have hrd := hdat 0 64 (by omega)
    rw [Nat.add_zero, List.drop_zero] at hrd
    obtain ⟨s1, hr1, c1, g1p, g1c, v1, lt1, fl1, kp1⟩ := body4_spec p cnt Acc hi s h c dp (4 * (m + 1) + rr) y (d.take 64) hgp hgc hy hylt
      (by omega) (by omega) hn63 hrd (by rw [List.length_take]; omega) (fun x hx => hdb x (List.mem_of_mem_take hx))
    have rA : Reach r k4 s (k4 + 33) s1 33 := by
      have := reach_seg hs.left (body4_nc p cnt Acc) hr1
      rw [body4_len] at this; exact this
    have hsJ : Slice r (k4 + 33) [jcc .JGT p4] := by
      have := hs.right; rw [body4_len] at this; exact this
    have e1 : 4 * (m + 1) + rr - 4 = 4 * m + rr := by omega
    rw [e1] at g1c fl1
    have hcnd : Model.ISAVal.cond .JGT s1.flags = .ok (decide (3 < 4 * m + rr)) := by
      rw [fl1]; exact cond_jgt (4 * m + rr) 3 (by omega) (by decide)
    have rJ := reach_jcc (r := r) (k := k4 + 33) (idx := k4) hsJ rfl hl hcnd
    by_cases hm0 : m = 0
    · subst hm0
      have : ¬ (3 < 4 * 0 + rr) := by omega
      simp only [this, decide_false, Bool.false_eq_true, if_false] at rJ
      refine ⟨s1, (rA.trans rJ).cast rfl (by omega), c1, ?_, lt1, by rw [g1p], by rw [g1c]; omega, ?_, kp1⟩
      · rw [v1]; simp [ghN4]
      · rw [fl1]; congr 2; omega
    · have hpos : 3 < 4 * m + rr := by omega
      simp only [hpos, decide_true, if_true] at rJ
      obtain ⟨s2, hr2, c2, v2, lt2, g2p, g2c, f2, kp2⟩ := ih s1 (dp + 64) _ rr (d.drop 64) c1 g1p g1c hrr v1 (by rw [← v1]; exact lt1) (by omega) (by omega)
        (by omega) (by rw [List.length_drop]; omega) (fun x hx => hdb x (List.mem_of_mem_drop hx))
        (by rw [kp1.mem]; exact hdat.drop 64 (by omega))
      refine ⟨s2, ((rA.trans rJ).trans hr2).cast rfl (by omega), c2, ?_, lt2, by rw [g2p]; omega, g2c, f2, kp1.trans kp2⟩
      rw [v2]; rfl


theorem ghLoops_eq (p cnt Acc p4 p1 pe : Nat) :
    ghLoopsCode p cnt Acc p4 p1 pe = [ins .CMPQ [G cnt, .imm 8] 0] ++ ([jcc .JLT p1] ++ ((body4Code p cnt Acc ++ [jcc .JGT p4]) ++
      ([ins .CMPQ [G cnt, .imm 0] 0] ++ ([jcc .JEQ pe] ++ (body1Code p cnt Acc ++ [jcc .JGT p1]))))) := by
  simp [ghLoopsCode, body4Code, body1Code, List.append_assoc]

/-- **the block loops of `CalculateSPre` / `CalculateSMid` / `calculateJ0Branch2`** on `n ≥ 1` whole blocks: the result is
    `ghAllN` (the value of the model's `ghBlocks`, see `ghAllN_eq`) -/
theorem ghLoops_reach (r : Routine) (k p cnt Acc p4 p1 pe : Nat) (hi : loopInst p cnt Acc)
    (hs : Slice r k (ghLoopsCode p cnt Acc p4 p1 pe)) (hl4 : findPc r p4 = some (r.drop (k + 2)))
    (hl1 : findPc r p1 = some (r.drop (k + 38))) (hle : findPc r pe = some (r.drop (k + 68))) (h : Nat)
    (n : Nat) (s : State) (dp y : Nat) (d : List Nat) (c : GhCtx h s) (hgp : greg s p = dp) (hgc : greg s cnt = n) (hy : vreg s Acc = y)
    (hylt : y < 2 ^ 128) (hn : 1 ≤ n) (hn63 : n < 2 ^ 63) (hdp : dp + 16 * n < 2 ^ 64) (hlen : 16 * n ≤ d.length)
    (hdb : ∀ x ∈ d, x < 2 ^ 8) (hdat : DataAt s.mem dp d) :
    ∃ s' N, N ≤ 34 * n + 4 ∧ Reach r k s (k + 68) s' N ∧ GhCtx h s' ∧ vreg s' Acc = ghAllN h n y d ∧ vreg s' Acc < 2 ^ 128 ∧
      greg s' p = dp + 16 * n ∧ Keeps (bodyKeepG p cnt) (bodyKeepV Acc) (List.range 8) s s' := by
  obtain ⟨lp, lc, hne, gi, hkV, hkV'⟩ := loopInst_facts hi
  rw [ghLoops_eq] at hs
  have sC8 : Slice r k [ins .CMPQ [G cnt, .imm 8] 0] := hs.left
  have sJ1 : Slice r (k + 1) [jcc .JLT p1] := hs.right.left
  have sB4 : Slice r (k + 2) (body4Code p cnt Acc ++ [jcc .JGT p4]) := hs.right.right.left
  have sC0 : Slice r (k + 36) [ins .CMPQ [G cnt, .imm 0] 0] := by
    have := hs.right.right.right.left
    simp only [List.length_cons, List.length_nil, List.length_append, body4_len] at this
    exact this
  have sJE : Slice r (k + 37) [jcc .JEQ pe] := by
    have := hs.right.right.right.right.left
    simp only [List.length_cons, List.length_nil, List.length_append, body4_len] at this
    exact this
  have sB1 : Slice r (k + 38) (body1Code p cnt Acc ++ [jcc .JGT p1]) := by
    have := hs.right.right.right.right.right
    simp only [List.length_cons, List.length_nil, List.length_append, body4_len] at this
    exact this
  -- CMPQ cnt, $8
  let s0 := setFlags s (subF 8 n 8).2
  have hx0 : execList [ins .CMPQ [G cnt, .imm 8] 0] s = .ok s0 := by
    apply exec_step (s1 := s0)
    · have := a_cmpq_imm s 8 cnt (by rw [c.lenG]; exact lc)
      rw [hgc, show imm64 8 = 8 from by decide +kernel] at this; exact this
    rfl
  have r0 : Reach r k s (k + 1) s0 1 := reach_seg sC8 (by rfl) hx0
  have k0 : Keeps (bodyKeepG p cnt) (bodyKeepV Acc) (List.range 8) s s0 :=
    ⟨rfl, rfl, rfl, fun _ _ => rfl, fun _ _ => rfl, fun _ _ => rfl, rfl, rfl, rfl⟩
  have c0 : GhCtx h s0 := c.of_keeps k0 hkV
  have hcnd : Model.ISAVal.cond .JLT s0.flags = .ok (decide (n < 8)) := cond_jlt n 8 hn63 (by decide)
  have rJ := reach_jcc (r := r) (k := k + 1) (idx := k + 38) sJ1 rfl hl1 hcnd
  by_cases hn8 : n < 8
  · -- fewer than 8 blocks: one at a time
    simp only [hn8, decide_true, if_true] at rJ
    obtain ⟨s1, r1, c1, v1, lt1, g1p, _, kp1⟩ := gh_loop1 r (k + 38) p cnt Acc p1 hi sB1 hl1 h n s0 dp y d c0 hgp hgc hy hylt hn hn63 hdp
      hlen hdb hdat
    refine ⟨s1, 1 + 1 + 30 * n, by omega, ((r0.trans rJ).trans r1).cast rfl rfl, c1, ?_, lt1, g1p, k0.trans kp1⟩
    rw [v1]; unfold ghAllN; rw [if_pos hn8]
  · -- four at a time, then the rest
    simp only [hn8, decide_false, Bool.false_eq_true, if_false] at rJ
    have hm : 1 ≤ n / 4 := by omega
    obtain ⟨s1, r1, c1, v1, lt1, g1p, g1c, f1, kp1⟩ := gh_loop4 r (k + 2) p cnt Acc p4 hi sB4 hl4 h (n / 4) s0 dp y (n % 4) d c0 hgp
      (by show greg s cnt = _; rw [hgc]; omega) (Nat.mod_lt _ (by decide)) hy hylt hm (by omega) (by omega) (by omega) hdb hdat
    -- CMPQ cnt, $0; JEQ pe
    let s2 := setFlags s1 (subF 8 (n % 4) 0).2
    have hx2 : execList [ins .CMPQ [G cnt, .imm 0] 0] s1 = .ok s2 := by
      apply exec_step (s1 := s2)
      · have := a_cmpq_imm s1 0 cnt (by rw [c1.lenG]; exact lc)
        rw [g1c, imm64_0] at this; exact this
      rfl
    have r2 : Reach r (k + 36) s1 (k + 37) s2 1 := reach_seg sC0 (by rfl) hx2
    have k2 : Keeps (bodyKeepG p cnt) (bodyKeepV Acc) (List.range 8) s1 s2 :=
      ⟨rfl, rfl, rfl, fun _ _ => rfl, fun _ _ => rfl, fun _ _ => rfl, rfl, rfl, rfl⟩
    have c2 : GhCtx h s2 := c1.of_keeps k2 hkV
    have hcnd2 : Model.ISAVal.cond .JEQ s2.flags = .ok (decide (n % 4 = 0)) := cond_jeq (n % 4) 0 (by omega) (by decide)
    have rJ2 := reach_jcc (r := r) (k := k + 37) (idx := k + 68) sJE rfl hle hcnd2
    by_cases hr0 : n % 4 = 0
    · simp only [hr0, decide_true, if_true] at rJ2
      refine ⟨s2, 1 + 1 + 34 * (n / 4) + 1 + 1, by omega, ((((r0.trans rJ).trans (r1.cast (by omega) rfl)).trans r2).trans rJ2).cast rfl rfl,
        c2, ?_, lt1, ?_, (k0.trans kp1).trans k2⟩
      · show vreg s1 Acc = _
        rw [v1]; unfold ghAllN; rw [if_neg hn8, hr0]; rfl
      · show greg s1 p = _
        rw [g1p]; omega
    · simp only [hr0, decide_false, Bool.false_eq_true, if_false] at rJ2
      obtain ⟨s3, r3, c3, v3, lt3, g3p, _, kp3⟩ := gh_loop1 r (k + 38) p cnt Acc p1 hi sB1 hl1 h (n % 4) s2 (dp + 64 * (n / 4)) _
        (d.drop (64 * (n / 4))) c2 g1p g1c v1 (by rw [← v1]; exact lt1) (by omega) (by omega) (by omega) (by rw [List.length_drop]; omega)
        (fun x hx => hdb x (List.mem_of_mem_drop hx))
        (by show DataAt s1.mem _ _; rw [kp1.mem]; exact hdat.drop _ (by omega))
      refine ⟨s3, 1 + 1 + 34 * (n / 4) + 1 + 1 + 30 * (n % 4), by omega,
        (((((r0.trans rJ).trans (r1.cast (by omega) rfl)).trans r2).trans rJ2).trans r3).cast rfl rfl, c3, ?_, lt3, ?_,
        ((k0.trans kp1).trans k2).trans kp3⟩
      · rw [v3]; unfold ghAllN; rw [if_neg hn8]
      · rw [g3p]; omega

end SMGo.Proofs.ISAVal
