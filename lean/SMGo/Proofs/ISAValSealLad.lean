import SMGo.Proofs.ISAValLadder
import SMGo.Proofs.ISAValSealPrefix12
set_option linter.unusedSimpArgs false
namespace SMGo.Proofs.ISAVal
open SMGo.Model.ISAVal SMGo.Model.GCM SMGo.Proofs.GCM SMGo.Proofs.ISATouch
open SMGo.Model.ISA (Reg Opd Instr)

theorem gcmPrefix_len : gcmPrefixCode.length = 1499 := by
  rw [prefix_eq]
  simp only [List.length_append, len_prep, len_one, len_ghPre, j0_len, len_sPre, rkArgCode, nonceArgsCode, aadArgsCode, List.length_cons,
    List.length_nil]

theorem x0_len (b : Nat) : (ladX0Code b).length = 651 := by
  rw [x0_eq]
  simp only [List.length_append, x0In_len, kern1_len, x0Out_len, x0Hash_len, fill1Code, xsTCode, clrSetCode, clrLoopCode, List.length_cons,
    List.length_nil]

theorem ladder_len (b : Nat) : (ladderCode b).length = 3771 := by
  unfold ladderCode
  simp only [List.length_append, x16_len, x8_len, x4_len, x2_len, x1_len, x0_len, show (ladHeadCode b).length = 17 from rfl]

theorem sPost_len (d a b c e f : Nat) : (sPostCode d a b c e f).length = 80 := by
  rw [sPost_eq]
  simp only [List.length_append, copy_len, lenBlkCode, tagOutCode, rbCode, gh1_len, List.length_cons, List.length_nil]

/-- the memories of the fused routines as a two-buffer family (destination, scratch) -/
theorem ladMem_fmem (nm : String) (w : Bool) (rk nonce inp aad : List Nat) (dlen : Nat) (hrk : rk.length = 32) (hdl : dlen < 2 ^ 32)
    (hil : inp.length < 2 ^ 32) :
    LadMem (fun d t => fmem nm w rk d nonce inp aad t) 77309411328 dlen 94489280512 rk inp 85899345920 :=
  ⟨⟨fun dc hdc => ⟨fun b off n hb hn => fmem_read_tmp nm w rk dc nonce inp aad b off n (by omega) (by omega),
        fun b off bs hb hn => fmem_write_tmp nm w rk dc nonce inp aad b off bs (by omega) (by omega)⟩,
     fun tc htc => ⟨fun b off n hb hn => fmem_read_dst nm w rk b nonce inp aad tc off n (by omega) (by omega),
        fun b off bs hb hn => fmem_write_dst nm w rk b nonce inp aad tc off bs (by omega) (by omega)⟩,
     fun dc tc hdc htc off n hn => fmem_read_tmp nm w rk dc nonce inp aad tc off n hn (by omega),
     fun dc tc => fmem_sym_shuffle1 .., fun dc tc => fmem_sym_shuffle2 ..⟩,
   fun dc tc i hdc htc hi => fmem_read_rk nm w rk dc nonce inp aad tc hrk i hi,
   fun dc tc o n bs hdc htc hbs hle _ =>
     SrcFrom.ofData (fun off n hn => fmem_read_inp nm w rk _ nonce inp aad tc off n hn (by omega)) _⟩

/-- the input region is readable whatever destination and scratch hold -/
theorem srcFrom_fmem (nm : String) (w : Bool) (rk dc nonce inp aad tc : List Nat) (hil : inp.length < 2 ^ 32) (o : Nat) :
    SrcFrom (fmem nm w rk dc nonce inp aad tc) 85899345920 inp o :=
  SrcFrom.ofData (fun off n hn => fmem_read_inp nm w rk dc nonce inp aad tc off n hn (by omega)) o

end SMGo.Proofs.ISAVal
namespace SMGo.Proofs.ISAVal
open SMGo.Model.ISAVal SMGo.Model.GCM SMGo.Proofs.GCM SMGo.Proofs.ISATouch
open SMGo.Model.ISA (Reg Opd Instr)

def sealArgsCode : List DInstr :=
  [ins .MOVQ [.frame "dst" 24, G 13] 0, ins .MOVQ [.frame "plaintext" 56, G 10] 0, ins .MOVQ [.frame "plainLen" 64, G 9] 0,
   ins .MOVQ [.imm 1, G 0] 0]
def sealPostArgsCode : List DInstr :=
  [ins .MOVQ [.frame "dst" 24, G 13] 0, ins .MOVQ [.frame "aLen" 88, G 7] 0, ins .MOVQ [.frame "plainLen" 64, G 9] 0,
   ins .ADDQ [G 9, G 13] 0, ins .MOVQ [.frame "tagSize" 16, G 14] 0, ins .MOVQ [.frame "tmp" 104, G 6] 0]

structure SealSlices : Prop where
  args : Slice sealR 1499 sealArgsCode
  lad : Slice sealR 1503 (ladderCode 8878)
  post : Slice sealR 5274 sealPostArgsCode
  sPost : Slice sealR 5280 (sPostCode 13 31834 31861 31888 31917 31944)
  ret : Slice sealR 5360 [ins .RET [] 0]

theorem seal_slices' : SealSlices := by
  have h := Slice.whole seal_scheme
  unfold sealCode at h
  have h1 := h.left.left.left.left.right
  have h2 := h.left.left.left.right
  have h3 := h.left.left.right
  have h4 := h.left.right
  have h5 := h.right
  simp only [List.length_append, gcmPrefix_len, ladder_len, sPost_len, List.length_cons, List.length_nil] at h1 h2 h3 h4 h5
  exact ⟨h1.cast (by omega) rfl, h2.cast (by omega) rfl, h3.cast (by omega) rfl, h4.cast (by omega) rfl, h5.cast (by omega) rfl⟩

theorem seal_ladLabels : LadLabels sealR 1503 8878 :=
  ⟨label_findPc seal_labels (name := "loopX16") (by decide), label_findPc seal_labels (name := "X16Done") (by decide),
   label_findPc seal_labels (name := "loopX8") (by decide), label_findPc seal_labels (name := "X8Done") (by decide),
   label_findPc seal_labels (name := "loopX4") (by decide), label_findPc seal_labels (name := "X4Done") (by decide),
   label_findPc seal_labels (name := "loopX2") (by decide), label_findPc seal_labels (name := "X2Done") (by decide),
   label_findPc seal_labels (name := "loopX1") (by decide), label_findPc seal_labels (name := "X1Done") (by decide),
   label_findPc seal_labels (name := "loopX0") (by decide),
   ⟨label_findPc seal_labels (name := "X0.copyIn8") (by decide), label_findPc seal_labels (name := "X0.copyIn4") (by decide),
    label_findPc seal_labels (name := "X0.copyIn2") (by decide), label_findPc seal_labels (name := "X0.copyIn1") (by decide),
    label_findPc seal_labels (name := "X0.copyInEnd") (by decide), label_findPc seal_labels (name := "X0.clearLoop") (by decide),
    label_findPc seal_labels (name := "X0.clearEnd") (by decide), label_findPc seal_labels (name := "X0.copyOut8") (by decide),
    label_findPc seal_labels (name := "X0.copyOut4") (by decide), label_findPc seal_labels (name := "X0.copyOut2") (by decide),
    label_findPc seal_labels (name := "X0.copyOut1") (by decide), label_findPc seal_labels (name := "X0.copyOutEnd") (by decide),
    label_findPc seal_labels (name := "cryptoBlocksDone") (by decide)⟩⟩

end SMGo.Proofs.ISAVal
