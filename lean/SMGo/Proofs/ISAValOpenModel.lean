import SMGo.Proofs.ISAValOpenRun
set_option linter.unusedSimpArgs false
namespace SMGo.Proofs.ISAVal
open SMGo SMGo.Model.ISAVal SMGo.Model.GCM SMGo.Proofs.GCM SMGo.Spec.GCM SMGo.Proofs.ISATouch
open SMGo.Model.ISA (Reg Opd Instr)

theorem nat_xor_eq_zero (x y : Nat) : x ^^^ y = 0 ↔ x = y := by
  constructor
  · intro h
    apply Nat.eq_of_testBit_eq
    intro i
    have := congrArg (fun n => n.testBit i) h
    simp only [Nat.testBit_xor, Nat.zero_testBit] at this
    cases hx : x.testBit i <;> cases hy : y.testBit i <;> simp [hx, hy] at this ⊢
  · intro h; subst h; exact Nat.xor_self x

theorem orBytes_xorN_eq_zero : ∀ (a b : List Nat), a.length = b.length → (orBytes (xorN a b) = 0 ↔ a = b) := by
  intro a
  induction a with
  | nil => intro b h; cases b with
    | nil => simp [xorN, orBytes]
    | cons y ys => simp at h
  | cons x xs ih =>
    intro b h
    cases b with
    | nil => simp at h
    | cons y ys =>
      have h' : xs.length = ys.length := by simpa using h
      show orBytes ((x ^^^ y) :: xorN xs ys) = 0 ↔ _
      rw [orBytes_cons, Nat.or_eq_zero_iff, ih ys h', nat_xor_eq_zero]
      simp

/-- the output bytes of the ladder depend neither on the hash flag nor on the GHASH value -/
theorem ladN_fst_indep (rk jb : List Nat) (h : Nat) : ∀ (fuel c hf hf' y y' : Nat) (src : List Nat),
    (ladN rk jb h hf fuel c y src).1 = (ladN rk jb h hf' fuel c y' src).1 := by
  intro fuel
  induction fuel with
  | zero => intro c hf hf' y y' src; rfl
  | succ f ih =>
    intro c hf hf' y y' src
    by_cases h16 : src.length < 16
    · rw [ladN_small rk jb h hf f c y src h16, ladN_small rk jb h hf' f c y' src h16]
    · have hcf := class_facts src.length
      have hn0 : classOf src.length ≠ 0 := fun h0 => by have := hcf.2.1 h0; omega
      rw [ladN_class rk jb h hf f c y src _ rfl hn0, ladN_class rk jb h hf' f c y' src _ rfl hn0]
      simp only []
      rw [ih _ hf hf' _ _]

theorem toB_inj (a b : List Nat) (ha : ∀ x ∈ a, x < 2 ^ 8) (hb : ∀ x ∈ b, x < 2 ^ 8) (h : toB a = toB b) : a = b := by
  rw [← toNat_toB a ha, ← toNat_toB b hb, h]

/-- **what `openAsm` decides and writes is `Model.GCM.open`**, given that `jb` is the pre-counter block of the nonce -/
theorem open_modelJ (rk jb nonce ct aad : List Nat) (t fuel : Nat) (hjb : jb.length = 16) (hjbb : ∀ x ∈ jb, x < 2 ^ 8)
    (hj : calculateJ0 (hPowers (encE rk (List.replicate 16 0))) (toB nonce) = blockToNat (toB jb))
    (hcb : ∀ x ∈ ct, x < 2 ^ 8) (hab : ∀ x ∈ aad, x < 2 ^ 8) (ht : t ≤ 16) (htc : t ≤ ct.length) (hfuel : fuelNeed (ct.length - t) ≤ fuel) :
    Model.GCM.open (encE rk) t (toB nonce) (toB ct) (toB aad)
      = if orBytes (xorN ((openTagJ rk jb ct aad t).take t) (ct.drop (ct.length - t))) = 0
        then some (toB (openOutJ rk jb ct t fuel)) else none := by
  have hE := encE_length rk
  have hH := H_lt hE
  have hh := hPowers_h hE
  have hP := powOK_hPowers (hE (List.replicate 16 0))
  have hBl := hE (List.replicate 16 0)
  obtain ⟨nC, hnC⟩ : ∃ nC, nC = ct.length - t := ⟨_, rfl⟩
  unfold Model.GCM.open openTagJ openOutJ cryptoBlocks
  simp only [toB_length]
  rw [if_neg (by omega), hKey_eq, ← hnC]
  generalize encE rk (List.replicate 16 0) = hB at *
  have hj0 := hj
  have hCb : ∀ x ∈ ct.take nC, x < 2 ^ 8 := fun x hx => hcb x (List.mem_of_mem_take hx)
  have hy0 := ghUpdN_eq hB 0 aad hab
  have hy1 := ghUpdN_eq hB (ghUpdate (hPowers hB) 0 (toB aad)) (ct.take nC) hCb
  have r1 := ghUpdate_rep gmulOK hH hh hP Rep_zero (toB aad)
  have r2 := ghUpdate_rep gmulOK hH hh hP r1 (toB (ct.take nC))
  have hCl : (ct.take nC).length = nC := by rw [List.length_take]; omega
  -- the expected tag
  have hetag := tagN_eq rk (jb) hB _ aad.length nC t r2.1 (loadR_lt hBl)
  rw [← toB_take, ← toB_drop, hy0, hy1, hj0, natToBlock_blockToNat (by rw [toB_length]; exact hjb), ← hetag]
  -- the plaintext
  have hl := ladN_eq rk (jb) hjb hjbb hB (nC / 16 + 1) 0 0 (ct.take nC) hCb
  rw [show laneAdd (blockToNat (toB (jb))) 0 = blockToNat (toB (jb)) from by
    rw [laneAdd_eq]; exact ctrAdd_zero _] at hl
  have hfst : (cryptoBlocksAux (encE rk) (hPowers hB) false ((toB (ct.take nC)).length / 16 + 1) (blockToNat (toB (jb))) 0
      (toB (ct.take nC))).1 = toB (ladN rk (jb) (loadR hB) 0 fuel 0 0 (ct.take nC)).1 := by
    rw [toB_length, hCl, cryptoBlocksAux_fst hE (hPowers hB) false _ _ _ _ (nC / 16 + 1) (by rw [toB_length, hCl]; omega) (by rw [toB_length, hCl]; omega),
      ← cryptoBlocksAux_fst hE (hPowers hB) true (nC / 16 + 1) _ 0 _ (nC / 16 + 1) (by rw [toB_length, hCl]; omega) (by rw [toB_length, hCl]; omega),
      ← hl.1, ladN_fst_indep rk _ (loadR hB) (nC / 16 + 1) 0 1 0 0 0,
      ladN_fuel rk _ (loadR hB) 0 (nC / 16 + 1) fuel 0 0 _ (by rw [hCl]; exact fuelNeed_le16 _) (by rw [hCl, hnC]; exact hfuel)]
  rw [hfst]
  -- the comparison
  have hTb : ∀ x ∈ (lanes 8 16 (tagN (loadR hB) (ghUpdate (hPowers hB) (ghUpdate (hPowers hB) 0 (toB aad)) (toB (ct.take nC)))
      (unlanes 8 (encB rk (jb))) aad.length nC)).take t, x < 2 ^ 8 :=
    fun x hx => mem_lanes_lt 8 16 _ x (List.mem_of_mem_take hx)
  have hDb : ∀ x ∈ ct.drop nC, x < 2 ^ 8 := fun x hx => hcb x (List.mem_of_mem_drop hx)
  have hlen : ((lanes 8 16 (tagN (loadR hB) (ghUpdate (hPowers hB) (ghUpdate (hPowers hB) 0 (toB aad)) (toB (ct.take nC)))
      (unlanes 8 (encB rk (jb))) aad.length nC)).take t).length = (ct.drop nC).length := by
    rw [List.length_take, lanes_length, List.length_drop]; omega
  by_cases heq : (lanes 8 16 (tagN (loadR hB) (ghUpdate (hPowers hB) (ghUpdate (hPowers hB) 0 (toB aad)) (toB (ct.take nC)))
      (unlanes 8 (encB rk (jb))) aad.length nC)).take t = ct.drop nC
  · rw [if_pos ((orBytes_xorN_eq_zero _ _ hlen).mpr heq), if_pos ((ctEqual_iff _ _).mpr (by rw [heq]))]
  · rw [if_neg (fun h => heq ((orBytes_xorN_eq_zero _ _ hlen).mp h)), if_neg (fun h => heq (by
      have := (ctEqual_iff _ _).mp h
      exact (toB_inj _ _ hDb hTb this).symm))]

end SMGo.Proofs.ISAVal
