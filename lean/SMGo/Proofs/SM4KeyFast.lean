/-
  `Spec.SM4.keyScheduleFast` (tabulated S-box; what the driver runs for `sm4.wrap.spec`) is the
  specification's key schedule.
-/
import SMGo.Spec.SM4KeyFast
import SMGo.Proofs.SM4Fast
namespace SMGo.Proofs.SM4Fast
open SMGo SMGo.Spec.SM4

theorem keyStepF_fun : keyStepF = keyStep := by
  funext s i
  obtain ⟨⟨k0, k1, k2, k3⟩, rks⟩ := s
  simp [keyStepF, keyStep, T', tauF_eq]

/-- the key schedule the driver runs is the specification's -/
theorem keyScheduleFast_eq (key : Bytes) : keyScheduleFast key = keySchedule key := by
  simp [keyScheduleFast, keySchedule, keyStepF_fun]

end SMGo.Proofs.SM4Fast

#print axioms SMGo.Proofs.SM4Fast.keyScheduleFast_eq
