/-
  Heap-level lemmas for the arm64 Go glue (`SMGo.Model.GCMGlueA64`): what the Go statements used
  there do to the slice heap — kernel loads/stores through `&s[0]`, `copy`, `s[i] = v`, reslicing,
  local arrays — and how `UnchangedOutside` composes along a sequence of such statements.
  Core Lean only.
-/
import SMGo.Model.GCMGlueArm64
import SMGo.Proofs.Slice
import SMGo.Proofs.GCMGlue
import SMGo.Proofs.GCMGlueContract
namespace SMGo.Proofs.GCMGlueA64
open SMGo SMGo.Model SMGo.Model.Mem SMGo.Model.GCMGlueA64 SMGo.Proofs.Slice
open SMGo.Proofs.GCMGlue (UnchangedOutside InRegion Nowhere fresh unchanged_refl unchanged_append
  unchanged_poke WF_of_unchanged)

/-! ### sub-slices -/

/-- `s[k:]` -/
def dropS (s : Slice) (k : Nat) : Slice :=
  { arr := s.arr, off := s.off + k, len := s.len - k, cap := s.cap - k }

/-- `s[:k]` -/
def takeS (s : Slice) (k : Nat) : Slice := { s with len := k }

/-- the bytes a slice shows, as a region -/
def Reg (s : Slice) : Nat → Nat → Prop := InRegion s 0 s.len

theorem sliceFrom_ok (s : Slice) (k : Nat) (hk : k ≤ s.len) (hc : s.len ≤ s.cap) :
    sliceFrom s k = .ok (dropS s k) := by
  simp [sliceFrom, reslice, hk, hc, dropS]

theorem sliceTo_ok (s : Slice) (b : Nat) (hb : b ≤ s.cap) : sliceTo s b = .ok (takeS s b) := by
  simp [sliceTo, reslice, hb, takeS]

theorem dropS_dropS (s : Slice) (a b : Nat) : dropS (dropS s a) b = dropS s (a + b) := by
  simp [dropS, Nat.add_assoc, Nat.sub_sub]

theorem dropS_zero (s : Slice) : dropS s 0 = s := by
  cases s; simp [dropS]

theorem WF_dropS (h : Heap) (s : Slice) (k : Nat) (hwf : WF h s) (hk : k ≤ s.len) :
    WF h (dropS s k) := by
  obtain ⟨arr, o, len, cap⟩ := s
  cases arr with
  | none =>
    obtain ⟨h1, h2, h3⟩ := hwf
    simp at h1 h2 h3 hk
    have : k = 0 := by omega
    subst this
    exact ⟨by simp [dropS]; omega, by simp [dropS, h2], by simp [dropS, h3]⟩
  | some a =>
    obtain ⟨h1, h2, h3⟩ := hwf
    simp at h1 h3 hk
    exact ⟨by simp [dropS]; omega, h2, by simp [dropS]; omega⟩

theorem WF_takeS (h : Heap) (s : Slice) (b : Nat) (hwf : WF h s) (hb : b ≤ s.cap) :
    WF h (takeS s b) := by
  obtain ⟨arr, o, len, cap⟩ := s
  exact ⟨hb, hwf.2⟩

theorem read_takeS (h : Heap) (s : Slice) (b : Nat) (hb : b ≤ s.len) :
    read h (takeS s b) = (read h s).take b := by
  obtain ⟨arr, o, len, cap⟩ := s
  cases arr with
  | none => simp [Mem.read, takeS]
  | some a =>
    simp only [Mem.read, takeS, List.take_take]
    simp at hb
    rw [Nat.min_eq_left hb]

theorem read_dropS (h : Heap) (s : Slice) (k : Nat) :
    read h (dropS s k) = (read h s).drop k := by
  obtain ⟨arr, o, len, cap⟩ := s
  cases arr with
  | none => simp [Mem.read, dropS]
  | some a =>
    simp only [Mem.read, dropS, List.drop_take, List.drop_drop]

/-- a slice shows its first `k` bytes followed by the rest -/
theorem read_split (h : Heap) (s : Slice) (k : Nat) (hk : k ≤ s.len) :
    read h s = read h (takeS s k) ++ read h (dropS s k) := by
  rw [read_takeS h s k hk, read_dropS, List.take_append_drop]

/-! ### `UnchangedOutside` along a sequence of statements -/

theorem UO_trans {h0 h1 h2 : Heap} {R R' : Nat → Nat → Prop}
    (h01 : UnchangedOutside h0 h1 R) (h12 : UnchangedOutside h1 h2 R')
    (hsub : ∀ a i, a < h0.length → R' a i → R a i) : UnchangedOutside h0 h2 R := by
  obtain ⟨l1, a1, b1⟩ := h01
  obtain ⟨l2, a2, b2⟩ := h12
  refine ⟨Nat.le_trans l1 l2, ?_, ?_⟩
  · intro a ha; rw [a2 a (Nat.lt_of_lt_of_le ha l1), a1 a ha]
  · intro a i ha hR
    rw [b2 a i (Nat.lt_of_lt_of_le ha l1) (fun h' => hR (hsub a i ha h')), b1 a i ha hR]

theorem UO_mono {h0 h1 : Heap} {R R' : Nat → Nat → Prop} (h01 : UnchangedOutside h0 h1 R)
    (hsub : ∀ a i, a < h0.length → R a i → R' a i) : UnchangedOutside h0 h1 R' :=
  ⟨h01.1, h01.2.1, fun a i ha hR => h01.2.2 a i ha (fun h' => hR (hsub a i ha h'))⟩

/-- a slice none of whose bytes lies in the region shows the same bytes afterwards -/
theorem read_of_UO {h h' : Heap} {R : Nat → Nat → Prop} (hu : UnchangedOutside h h' R)
    (s : Slice) (hwf : WF h s)
    (hav : ∀ a i, s.arr = some a → s.off ≤ i → i < s.off + s.len → ¬ R a i) :
    read h' s = read h s := by
  obtain ⟨arr, o, len, cap⟩ := s
  cases arr with
  | none => rfl
  | some a =>
    obtain ⟨h1, h2, h3⟩ := hwf
    simp at h1 h3
    simp only [Mem.read]
    apply List.ext_getElem?
    intro i
    simp only [List.getElem?_take, List.getElem?_drop]
    by_cases hi : i < len
    · simp only [hi, if_true]
      have := hu.2.2 a (o + i) h2 (hav a (o + i) rfl (by simp) (by simp; omega))
      exact this
    · simp [hi]

/-- a slice in an array that did not exist in `h0` is invisible from `h0` -/
theorem Reg_new {h0 : Heap} {s : Slice} {n : Nat} (hs : s.arr = some n) (hn : h0.length ≤ n)
    (R : Nat → Nat → Prop) (k m : Nat) : ∀ a i, a < h0.length → InRegion s k m a i → R a i := by
  intro a i ha ⟨h1, _, _⟩
  rw [hs] at h1
  injection h1 with h1
  omega

/-! ### local arrays -/

theorem localArray_eq (h : Heap) (n : Nat) :
    localArray h n = (h ++ [List.replicate n 0], fresh h n) := rfl

theorem WF_fresh (h : Heap) (n : Nat) : WF (h ++ [List.replicate n 0]) (fresh h n) := by
  refine ⟨Nat.le_refl _, by simp, ?_⟩
  show 0 + n ≤ (arrayOf _ h.length).length
  rw [arrayOf_append_new]; simp

theorem read_fresh (h : Heap) (n : Nat) :
    read (h ++ [List.replicate n 0]) (fresh h n) = List.replicate n 0 := by
  show ((arrayOf _ h.length).drop 0).take n = _
  rw [arrayOf_append_new]; simp

/-- a well-formed slice lives in an array of the heap -/
theorem arr_lt_of_WF {h : Heap} {s : Slice} {a : Nat} (hwf : WF h s) (hs : s.arr = some a) :
    a < h.length := by
  obtain ⟨arr, o, len, cap⟩ := s
  simp at hs; subst hs
  exact hwf.2.1

/-! ### stores -/

/-- reading exactly the stored range gives the stored bytes -/
theorem read_poke_exact (h : Heap) (a off : Nat) (bs : Bytes) (c : Nat) (ha : a < h.length)
    (hb : off + bs.length ≤ (arrayOf h a).length) :
    read (poke h a off bs) { arr := some a, off := off, len := bs.length, cap := c } = bs := by
  have := read_poke_extend h a bs { arr := some a, off := off, len := 0, cap := c } rfl ha
    (by simpa using hb)
  simp only [Nat.add_zero, Nat.zero_add] at this
  rw [this]
  simp [Mem.read]

theorem load_ok (h : Heap) (s : Slice) (n : Nat) (hwf : WF h s) (h0 : 0 < s.len) (hn : n ≤ s.len) :
    load h s n = .ok ((read h s).take n) := by
  obtain ⟨a, hs, ha, hcap⟩ := arr_of_cap_pos h s hwf (by have := hwf.1; omega)
  have hl := hwf.1
  unfold load
  rw [addrOf_ok s a 0 hs h0]
  simp only [Outcome.bind_ok, Nat.add_zero]
  by_cases hn0 : n = 0
  · subst hn0; simp [readPtr]
  · have hin : a < h.length ∧ s.off + n ≤ (arrayOf h a).length := ⟨ha, by omega⟩
    simp only [readPtr, hn0, if_false, hin, and_self, if_true]
    congr 1
    obtain ⟨arr, o, len, cap⟩ := s
    simp at hs; subst hs
    simp only [Mem.read, List.take_take]
    simp at hn
    rw [Nat.min_eq_left hn]

/-- a kernel store through `&s[0]` of at most `len(s)` bytes: the poke, explicitly -/
theorem store_ok (h : Heap) (s : Slice) (bs : Bytes) (hwf : WF h s) (h0 : 0 < bs.length)
    (hn : bs.length ≤ s.len) :
    ∃ a, s.arr = some a ∧ a < h.length ∧ s.off + s.cap ≤ (arrayOf h a).length ∧
      store h s bs = .ok (poke h a s.off bs) := by
  obtain ⟨a, hs, ha, hcap⟩ := arr_of_cap_pos h s hwf (by have := hwf.1; omega)
  have hl := hwf.1
  refine ⟨a, hs, ha, hcap, ?_⟩
  unfold store
  rw [addrOf_ok s a 0 hs (by omega)]
  simp only [Outcome.bind_ok, Nat.add_zero]
  have hne : bs.isEmpty = false := by
    cases bs with
    | nil => simp at h0
    | cons => rfl
  have hin : a < h.length ∧ s.off + bs.length ≤ (arrayOf h a).length := ⟨ha, by omega⟩
  simp only [writePtr, hne, writeAt, hin, and_self, if_true, Bool.false_eq_true, if_false]

/-- the same as a contract: only the first `|bs|` bytes of `s` change, and they show `bs` -/
theorem store_spec (h : Heap) (s : Slice) (bs : Bytes) (hwf : WF h s) (h0 : 0 < bs.length)
    (hn : bs.length ≤ s.len) :
    ∃ h', store h s bs = .ok h' ∧ UnchangedOutside h h' (InRegion s 0 bs.length) ∧
      read h' (takeS s bs.length) = bs := by
  obtain ⟨a, hs, ha, hcap, e⟩ := store_ok h s bs hwf h0 hn
  have hl := hwf.1
  have hb : s.off + bs.length ≤ (arrayOf h a).length := by omega
  refine ⟨_, e, ?_, ?_⟩
  · apply unchanged_poke h a _ _ ha hb
    intro i h1 h2
    exact ⟨hs, by simpa using h1, by simpa using h2⟩
  · obtain ⟨arr, o, len, cap⟩ := s
    simp at hs; subst hs
    exact read_poke_exact h a o bs cap ha hb

theorem setIndex_ok (h : Heap) (s : Slice) (i : Nat) (v : UInt8) (hwf : WF h s) (hi : i < s.len) :
    ∃ a, s.arr = some a ∧ a < h.length ∧ s.off + s.cap ≤ (arrayOf h a).length ∧
      setIndex h s i v = .ok (poke h a (s.off + i) [v]) := by
  obtain ⟨a, hs, ha, hcap⟩ := arr_of_cap_pos h s hwf (by have := hwf.1; omega)
  have hl := hwf.1
  refine ⟨a, hs, ha, hcap, ?_⟩
  have hin : a < h.length ∧ s.off + i + 1 ≤ (arrayOf h a).length := ⟨ha, by omega⟩
  simp [setIndex, hi, hs, writeAt, hin]

/-! ### copy -/

theorem copy_zero (h : Heap) (dst src : Slice) (hz : min dst.len src.len = 0) :
    (copy h dst src).1 = h := by
  unfold copy
  cases dst.arr <;> simp [hz]

theorem copy_ok (h : Heap) (dst src : Slice) (hwd : WF h dst) (hpos : 0 < min dst.len src.len) :
    ∃ a, dst.arr = some a ∧ a < h.length ∧ dst.off + dst.cap ≤ (arrayOf h a).length ∧
      (copy h dst src).1 = poke h a dst.off ((read h src).take (min dst.len src.len)) := by
  obtain ⟨a, hs, ha, hcap⟩ := arr_of_cap_pos h dst hwd (by have := hwd.1; omega)
  refine ⟨a, hs, ha, hcap, ?_⟩
  have : ¬ min dst.len src.len = 0 := by omega
  simp [copy, hs, this]

/-- a store into the array just allocated -/
theorem poke_append_new (h : Heap) (x : Bytes) (off : Nat) (bs : Bytes) :
    poke (h ++ [x]) h.length off bs = h ++ [splice x off bs] := by
  simp [poke, arrayOf_append_new]

end SMGo.Proofs.GCMGlueA64
