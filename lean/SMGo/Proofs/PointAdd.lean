/-
  C15, the heart: over F_p the Renes–Costello–Batina closed forms (`PointAlgebra.lean`) compute the
  group law of the SM2 curve on *every* pair of inputs.

  `PRep X Y Z Q`: the projective triple (X : Y : Z) over F_p represents the affine point `Q` of the
  specification: either Z = 0, X = 0, Y ≠ 0 and Q = O, or Z ≠ 0 and Q = (x, y) is a valid point
  with X = x·Z, Y = y·Z (so the triple satisfies the projective curve equation).

  `add_prep`, `dbl_prep`, `neg_prep`: complete correctness, all cases: generic chord, doubling
  through `Add` (P = Q), inverse points (P = −Q), either or both operands at infinity, any projective
  representatives.  Non-vanishing of Z₃ in the chord case is Z₃ = (x₂ − x₁)³ · y(P − Q) together
  with "no point of order 2"; in the inverse case the middle coordinate is ψ₄/(2y), which cannot
  vanish because the double of a point of order 4 would have order 2.
-/
import SMGo.Proofs.CurveGroupTwoTorsion
import SMGo.Proofs.PointAlgebra

namespace SMGo.Proofs.PointAdd
open SMGo.Spec.SM2 SMGo.Proofs.CurveGroup SMGo.Proofs.PointAlgebra
open WeierstrassCurve WeierstrassCurve.Affine

/-- the base field (`CurveGroup.Fp`) -/
abbrev K : Type := ZMod p

/-- the coefficient b in F_p -/
abbrev bK : K := ((b : Nat) : K)

/-! ### facts about the curve in polynomial form -/

theorem curve_eq_of_equation {x y : K} (h : E.Equation x y) : y ^ 2 = x ^ 3 - 3 * x + bK := by
  have := (equation_iff_E x y).mp h
  rw [a_cast] at this
  linear_combination this

theorem equation_of_curve_eq {x y : K} (h : y ^ 2 = x ^ 3 - 3 * x + bK) : E.Equation x y := by
  rw [equation_iff_E, a_cast]
  linear_combination h

theorem curve_eq_of_valid {x y : Nat} (h : Valid (some (x, y))) :
    (y : K) ^ 2 = (x : K) ^ 3 - 3 * (x : K) + bK :=
  curve_eq_of_equation ((onCurve_iff x y).mp h.2.2)

/-- no point of the curve has y = 0 -/
theorem y_ne_zero_of_curve_eq {x y : K} (h : y ^ 2 = x ^ 3 - 3 * x + bK) : y ≠ 0 := by
  rintro rfl
  apply no_two_torsion x
  linear_combination -h

theorem natCast_ne_zero_of_lt {n : Nat} (h0 : 0 < n) (h : n < p) : ((n : Nat) : K) ≠ 0 := by
  intro hc
  rw [ZMod.natCast_eq_zero_iff] at hc
  exact absurd (Nat.le_of_dvd h0 hc) (Nat.not_le.mpr h)

theorem two_ne_zero' : (2 : K) ≠ 0 := by
  have := natCast_ne_zero_of_lt (n := 2) (by decide) (by decide)
  exact_mod_cast this

theorem eight_ne_zero' : (8 : K) ≠ 0 := by
  have := natCast_ne_zero_of_lt (n := 8) (by decide) (by decide)
  exact_mod_cast this

/-- ψ₄/(2y) does not vanish on the curve: there is no point of order 4 -/
theorem psi_ne_zero {x y : K} (h : y ^ 2 = x ^ 3 - 3 * x + bK) : psi bK x ≠ 0 := by
  intro h0
  have hy := y_ne_zero_of_curve_eq h
  have hZ : (8 * y ^ 3 : K) ≠ 0 := mul_ne_zero eight_ne_zero' (pow_ne_zero 3 hy)
  have hc := psi_curve bK x y h
  rw [h0] at hc
  generalize hA : 2 * y * (x ^ 4 + 6 * x ^ 2 + 9 - 8 * bK * x) = A at hc
  generalize hZd : (8 * y ^ 3 : K) = Z at hc hZ
  have hz : Z * Z⁻¹ = 1 := mul_inv_cancel₀ hZ
  have hz2 : Z ^ 2 * Z⁻¹ ^ 2 = 1 := by rw [← mul_pow, hz, one_pow]
  have hz3 : Z ^ 3 * Z⁻¹ ^ 3 = 1 := by rw [← mul_pow, hz, one_pow]
  have hE : A ^ 3 - 3 * A * Z ^ 2 + bK * Z ^ 3 = 0 := by linear_combination -hc
  apply no_two_torsion (A * Z⁻¹)
  linear_combination (Z⁻¹ ^ 3) * hE + (3 * A * Z⁻¹) * hz2 - bK * hz3

/-! ### the affine RCB formulas against Mathlib's group-law formulas -/

/-- For two affine points of the curve, the closed forms at Z₁ = Z₂ = 1 give either
    (0 : ≠0 : 0) when the points are inverse to each other, or a finite point whose affine
    coordinates are Mathlib's `addX`, `addY` of the slope. -/
theorem affine_add_cases {x1 y1 x2 y2 : K} (h1 : y1 ^ 2 = x1 ^ 3 - 3 * x1 + bK)
    (h2 : y2 ^ 2 = x2 ^ 3 - 3 * x2 + bK) :
    (x1 = x2 ∧ y1 = E.negY x2 y2 ∧ addX bK x1 y1 1 x2 y2 1 = 0 ∧ addZ bK x1 y1 1 x2 y2 1 = 0 ∧
      addY bK x1 y1 1 x2 y2 1 ≠ 0) ∨
    (¬(x1 = x2 ∧ y1 = E.negY x2 y2) ∧ addZ bK x1 y1 1 x2 y2 1 ≠ 0 ∧
      addX bK x1 y1 1 x2 y2 1 = E.addX x1 x2 (E.slope x1 x2 y1 y2) * addZ bK x1 y1 1 x2 y2 1 ∧
      addY bK x1 y1 1 x2 y2 1 = E.addY x1 x2 y1 (E.slope x1 x2 y1 y2) * addZ bK x1 y1 1 x2 y2 1) := by
  by_cases hx : x1 = x2
  · by_cases hy : y1 = E.negY x2 y2
    · left
      rw [negY_E] at hy
      subst hx
      have hy2 : y2 = -y1 := by rw [hy]; ring
      obtain ⟨a1, a2, a3⟩ := add_inverse bK x1 y1 h1
      rw [hy2]
      refine ⟨rfl, by rw [negY_E, neg_neg], a1, a3, ?_⟩
      rw [a2]
      exact psi_ne_zero h1
    · right
      have hyne : y1 ≠ -y2 := by rwa [negY_E] at hy
      subst hx
      -- the two points are equal
      have hyy : y1 = y2 := by
        have hprod : (y1 - y2) * (y1 + y2) = 0 := by linear_combination h1 - h2
        rcases mul_eq_zero.mp hprod with h | h
        · exact sub_eq_zero.mp h
        · exact absurd (eq_neg_of_add_eq_zero_left h) hyne
      subst hyy
      have hy0 := y_ne_zero_of_curve_eq h1
      have h2y : (2 * y1 : K) ≠ 0 := mul_ne_zero two_ne_zero' hy0
      have hyi : 2 * y1 * (2 * y1)⁻¹ = 1 := mul_inv_cancel₀ h2y
      have hs : E.slope x1 x1 y1 y1 = (3 * x1 * x1 - 3) * (2 * y1)⁻¹ := by
        rw [slope_E_of_Y_ne rfl hyne, a_cast]; ring
      have hZ := add_tangent_Z bK x1 y1 h1
      refine ⟨fun h => hy h.2, ?_, ?_, ?_⟩
      · rw [hZ]; exact mul_ne_zero eight_ne_zero' (pow_ne_zero 3 hy0)
      · rw [addX_E, hs]; exact add_tangent_X bK x1 y1 _ h1 hyi
      · rw [addY_E, hs]; exact add_tangent_Y bK x1 y1 _ h1 hyi
  · right
    have hd0 : x2 - x1 ≠ 0 := sub_ne_zero.mpr (Ne.symm hx)
    have hd : (x2 - x1) * (x2 - x1)⁻¹ = 1 := mul_inv_cancel₀ hd0
    have hs : E.slope x1 x2 y1 y2 = (y2 - y1) * (x2 - x1)⁻¹ := slope_E_of_X_ne hx
    refine ⟨fun h => hx h.1, ?_, ?_, ?_⟩
    · -- Z₃ = (x₂ − x₁)³ · y(P − Q), and P − Q is a finite point of the curve
      rw [add_chord_Z bK x1 y1 x2 y2 _ h1 h2 hd]
      apply mul_ne_zero (pow_ne_zero 3 hd0)
      have e1 : E.Equation x1 y1 := equation_of_curve_eq h1
      have e2 : E.Equation x2 (-y2) := by
        apply equation_of_curve_eq; linear_combination h2
      have e3 := Affine.equation_add e1 e2 (fun h => hx h.1)
      rw [slope_E_of_X_ne hx, addX_E, addY_E] at e3
      exact y_ne_zero_of_curve_eq (curve_eq_of_equation e3)
    · rw [addX_E, hs]; exact add_chord_X bK x1 y1 x2 y2 _ h1 h2 hd
    · rw [addY_E, hs]; exact add_chord_Y bK x1 y1 x2 y2 _ h1 h2 hd

/-! ### projective representation -/

/-- the triple (X : Y : Z) over F_p represents the specification's affine point Q -/
def PRep (X Y Z : K) (Q : Spec.SM2.Point) : Prop :=
  (Z = 0 ∧ X = 0 ∧ Y ≠ 0 ∧ Q = none) ∨
  (Z ≠ 0 ∧ ∃ x y : Nat, Q = some (x, y) ∧ Valid (some (x, y)) ∧ X = (x : K) * Z ∧ Y = (y : K) * Z)

theorem PRep.valid {X Y Z : K} {Q : Spec.SM2.Point} (h : PRep X Y Z Q) : Valid Q := by
  rcases h with ⟨_, _, _, rfl⟩ | ⟨_, x, y, rfl, hv, _, _⟩
  · exact valid_none
  · exact hv

/-- every represented triple satisfies the projective curve equation Y²Z = X³ − 3XZ² + bZ³ -/
theorem PRep.curve {X Y Z : K} {Q : Spec.SM2.Point} (h : PRep X Y Z Q) :
    Y ^ 2 * Z = X ^ 3 - 3 * X * Z ^ 2 + bK * Z ^ 3 := by
  rcases h with ⟨rfl, rfl, _, _⟩ | ⟨_, x, y, _, hv, rfl, rfl⟩
  · ring
  · linear_combination Z ^ 3 * curve_eq_of_valid hv

/-- a triple represents at most one point -/
theorem PRep.unique {X Y Z : K} {Q Q' : Spec.SM2.Point} (h : PRep X Y Z Q) (h' : PRep X Y Z Q') :
    Q = Q' := by
  rcases h with ⟨hz, _, _, rfl⟩ | ⟨hz, x, y, rfl, hv, hX, hY⟩
  · rcases h' with ⟨_, _, _, rfl⟩ | ⟨hz', _⟩
    · rfl
    · exact absurd hz hz'
  · rcases h' with ⟨hz', _⟩ | ⟨_, x', y', rfl, hv', hX', hY'⟩
    · exact absurd hz' hz
    · have ex : (x : K) = (x' : K) := mul_right_cancel₀ hz (hX.symm.trans hX')
      have ey : (y : K) = (y' : K) := mul_right_cancel₀ hz (hY.symm.trans hY')
      rw [(cast_inj hv.1 hv'.1).mp ex, (cast_inj hv.2.1 hv'.2.1).mp ey]

theorem prep_inf {Y : K} (hY : Y ≠ 0) : PRep 0 Y 0 none := Or.inl ⟨rfl, rfl, hY, rfl⟩

theorem prep_affine {x y : Nat} (hv : Valid (some (x, y))) : PRep (x : K) (y : K) 1 (some (x, y)) :=
  Or.inr ⟨one_ne_zero, x, y, rfl, hv, by rw [mul_one], by rw [mul_one]⟩

/-- **complete addition**: the closed forms of `Add` compute `Spec.SM2.add` on all inputs -/
theorem add_prep {X1 Y1 Z1 X2 Y2 Z2 : K} {P Q : Spec.SM2.Point}
    (hP : PRep X1 Y1 Z1 P) (hQ : PRep X2 Y2 Z2 Q) :
    PRep (addX bK X1 Y1 Z1 X2 Y2 Z2) (addY bK X1 Y1 Z1 X2 Y2 Z2) (addZ bK X1 Y1 Z1 X2 Y2 Z2)
      (Spec.SM2.add P Q) := by
  rcases hP with ⟨rfl, rfl, hY1, rfl⟩ | ⟨hZ1, x1, y1, rfl, hv1, rfl, rfl⟩
  · -- O + Q: the result is Q scaled by Y1²·Y2
    obtain ⟨eX, eY, eZ⟩ := add_inf_left bK Y1 X2 Y2 Z2
    rw [add_none_left, eX, eY, eZ]
    rcases hQ with ⟨rfl, rfl, hY2, rfl⟩ | ⟨hZ2, x2, y2, rfl, hv2, rfl, rfl⟩
    · left
      exact ⟨by ring, by ring, mul_ne_zero (mul_ne_zero (pow_ne_zero 2 hY1) hY2) hY2, rfl⟩
    · right
      have hy2 : (y2 : K) ≠ 0 := y_ne_zero_of_curve_eq (curve_eq_of_valid hv2)
      have hμ : Y1 ^ 2 * ((y2 : K) * Z2) ≠ 0 :=
        mul_ne_zero (pow_ne_zero 2 hY1) (mul_ne_zero hy2 hZ2)
      exact ⟨mul_ne_zero hμ hZ2, x2, y2, rfl, hv2, by ring, by ring⟩
  · rcases hQ with ⟨rfl, rfl, hY2, rfl⟩ | ⟨hZ2, x2, y2, rfl, hv2, rfl, rfl⟩
    · -- P + O
      obtain ⟨eX, eY, eZ⟩ := add_inf_right bK ((x1 : K) * Z1) ((y1 : K) * Z1) Z1 Y2
      rw [add_none_right, eX, eY, eZ]
      right
      have hy1 : (y1 : K) ≠ 0 := y_ne_zero_of_curve_eq (curve_eq_of_valid hv1)
      have hμ : Y2 ^ 2 * ((y1 : K) * Z1) ≠ 0 :=
        mul_ne_zero (pow_ne_zero 2 hY2) (mul_ne_zero hy1 hZ1)
      exact ⟨mul_ne_zero hμ hZ1, x1, y1, rfl, hv1, by ring, by ring⟩
    · -- both finite: reduce to Z1 = Z2 = 1 by bihomogeneity
      obtain ⟨eX, eY, eZ⟩ := add_homog bK (x1 : K) (y1 : K) Z1 (x2 : K) (y2 : K) Z2
      rw [eX, eY, eZ]
      have hs : Z1 ^ 2 * Z2 ^ 2 ≠ 0 := mul_ne_zero (pow_ne_zero 2 hZ1) (pow_ne_zero 2 hZ2)
      have c1 := curve_eq_of_valid hv1
      have c2 := curve_eq_of_valid hv2
      have hvsum := add_valid hv1 hv2
      rcases affine_add_cases c1 c2 with ⟨ex, ey, aX, aZ, aY⟩ | ⟨hne, aZ, aX, aY⟩
      · -- inverse points
        rcases add_some_some_cases hv1 hv2 with ⟨hnone, _, _⟩ | ⟨_, _, _, _, _, hxy, _, _⟩
        · rw [hnone, aX, aZ]
          left
          exact ⟨by ring, by ring, mul_ne_zero hs aY, rfl⟩
        · exact absurd ⟨ex, ey⟩ hxy
      · rcases add_some_some_cases hv1 hv2 with ⟨_, ex, ey⟩ | ⟨x3, y3, hsome, hx3, hy3, _, eX3, eY3⟩
        · exact absurd ⟨ex, ey⟩ hne
        · rw [hsome] at hvsum ⊢
          right
          refine ⟨mul_ne_zero hs aZ, x3, y3, rfl, hvsum, ?_, ?_⟩
          · rw [aX, eX3]; ring
          · rw [aY, eY3]; ring

/-- **doubling**: the closed forms of `Double` compute `Spec.SM2.add P P` on all inputs -/
theorem dbl_prep {X Y Z : K} {P : Spec.SM2.Point} (hP : PRep X Y Z P) :
    PRep (dblX bK X Y Z) (dblY bK X Y Z) (dblZ bK X Y Z) (Spec.SM2.add P P) := by
  rcases hP with ⟨rfl, rfl, hY, rfl⟩ | ⟨hZ, x, y, rfl, hv, rfl, rfl⟩
  · obtain ⟨eX, eY, eZ⟩ := dbl_inf bK Y
    rw [add_none_left, eX, eY, eZ]
    exact prep_inf (pow_ne_zero 4 hY)
  · obtain ⟨eX, eY, eZ⟩ := dbl_homog bK (x : K) (y : K) Z
    rw [eX, eY, eZ]
    have hs : Z ^ 4 ≠ 0 := pow_ne_zero 4 hZ
    have c := curve_eq_of_valid hv
    have hy0 : (y : K) ≠ 0 := y_ne_zero_of_curve_eq c
    have h2y : (2 * (y : K)) ≠ 0 := mul_ne_zero two_ne_zero' hy0
    have hyi : 2 * (y : K) * (2 * (y : K))⁻¹ = 1 := mul_inv_cancel₀ h2y
    have hyne : (y : K) ≠ -(y : K) := by
      intro h
      apply h2y
      linear_combination h
    have hvsum := add_valid hv hv
    rcases add_some_some_cases hv hv with ⟨_, _, ey⟩ | ⟨x3, y3, hsome, hx3, hy3, _, eX3, eY3⟩
    · rw [negY_E] at ey; exact absurd ey hyne
    · rw [hsome] at hvsum ⊢
      have hsl : E.slope (x : K) (x : K) (y : K) (y : K) = (3 * (x : K) * x - 3) * (2 * (y : K))⁻¹ := by
        rw [slope_E_of_Y_ne rfl hyne, a_cast]; ring
      rw [hsl, addX_E] at eX3
      rw [hsl, addY_E] at eY3
      have hZd : dblZ bK (x : K) (y : K) 1 ≠ 0 := by
        rw [dbl_tangent_Z]; exact mul_ne_zero eight_ne_zero' (pow_ne_zero 3 hy0)
      right
      refine ⟨mul_ne_zero hs hZd, x3, y3, rfl, hvsum, ?_, ?_⟩
      · rw [dbl_tangent_X bK (x : K) (y : K) _ c hyi, eX3]; ring
      · rw [dbl_tangent_Y bK (x : K) (y : K) _ c hyi, eY3]; ring

/-- **negation** -/
theorem neg_prep {X Y Z : K} {P : Spec.SM2.Point} (hP : PRep X Y Z P) :
    PRep X (-Y) Z (Spec.SM2.neg P) := by
  rcases hP with ⟨rfl, rfl, hY, rfl⟩ | ⟨hZ, x, y, rfl, hv, rfl, rfl⟩
  · exact prep_inf (neg_ne_zero.mpr hY)
  · right
    have hvn : Valid (some (x, (p - y) % p)) := neg_valid hv
    refine ⟨hZ, x, (p - y) % p, rfl, hvn, rfl, ?_⟩
    rw [ZMod.natCast_mod, cast_p_sub hv.2.1.le]
    ring

end SMGo.Proofs.PointAdd
