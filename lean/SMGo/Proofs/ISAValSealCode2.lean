import SMGo.Proofs.ISAValSealCode
namespace SMGo.Proofs.ISAVal
open SMGo.Model.ISAVal SMGo.Model.ISA

/-! ## `cryptoBlocksAsm`: the length ladder 256 / 128 / 64 / 32 / 16 / tail with the fused GHASH

  `b` = byte offset of the first instruction (`MOVL $0, blockCount`): the macro is expanded at different offsets in
  `sealAsm` and `openAsm`; all branch targets are relative to it. -/

/-- `MOVL $0, blockCount; broadcastJ0(); CMPQ len, $64; JL loopX2` -/
def ladHeadCode (b : Nat) : List DInstr :=
  [ins .MOVL [.imm 0, G 12] 0,
   ins .VMOVDQA64 [R 14, R 6] 16,
   ins .VMOVDQA64 [R 14, R 7] 16,
   ins .VMOVDQA64 [R 14, R 8] 16,
   ins .VMOVDQA64 [R 14, R 0] 16,
   ins .VMOVDQA64 [R 6, R 1] 16,
   ins .VMOVDQA64 [R 7, R 2] 16,
   ins .VMOVDQA64 [R 8, R 3] 16,
   ins .VALIGND [.imm 4, R 0, R 1, R 1] 32,
   ins .VPADDD [R 0, R 1, R 0] 32,
   ins .VALIGND [.imm 4, R 2, R 3, R 3] 32,
   ins .VPADDD [R 2, R 3, R 2] 32,
   ins .VALIGND [.imm 8, R 0, R 2, R 2] 64,
   ins .VPADDD [R 0, R 2, R 14] 64,
   ins .VPSHUFB [R 12, R 14, R 14] 64,
   ins .CMPQ [G 9, .imm 64] 0,
   ins .JLT [.target (b + 11872)] 0]

/-- `loopX16`: 16 counter blocks (four per 128-bit lane group), 32 rounds on Z registers, xor with 256 input bytes,
    store, then (hashFlag) four aggregated GHASH steps over the 256 output bytes -/
def ladX16Code (b : Nat) : List DInstr :=
  [ins .CMPQ [G 9, .imm 256] 0,
   ins .JLT [.target (b + 4387)] 0,
   ins .VPADDD [R 14, R 16, R 6] 64,
   ins .VPADDD [R 6, R 17, R 7] 64,
   ins .VPADDD [R 7, R 17, R 8] 64,
   ins .VPADDD [R 8, R 17, R 9] 64,
   ins .VPADDD [R 17, R 17, R 0] 64,
   ins .VPADDD [R 0, R 0, R 1] 64,
   ins .VPADDD [R 14, R 1, R 14] 64]
  ++ transposeCode 64 6 7 8 9 ++ rounds32Code 64 15 1 2 11 12 6 7 8 9 ++ transposeCode 64 9 8 7 6 ++ rev4Code 64 ++
  [ins .VMOVDQU32 [M 10 0, R 0] 64,
   ins .VMOVDQU32 [M 10 64, R 1] 64,
   ins .VMOVDQU32 [M 10 128, R 2] 64,
   ins .VMOVDQU32 [M 10 192, R 3] 64,
   ins .VPXORD [R 9, R 0, R 9] 64,
   ins .VPXORD [R 8, R 1, R 8] 64,
   ins .VPXORD [R 7, R 2, R 7] 64,
   ins .VPXORD [R 6, R 3, R 6] 64,
   ins .VMOVDQU32 [R 9, M 13 0] 64,
   ins .VMOVDQU32 [R 8, M 13 64] 64,
   ins .VMOVDQU32 [R 7, M 13 128] 64,
   ins .VMOVDQU32 [R 6, M 13 192] 64,
   ins .CMPQ [G 0, .imm 0] 0,
   ins .JEQ [.target (b + 4361)] 0,
   ins .MOVQ [.imm 16, G 1] 0]
  ++ rbCode 64 9 0 1 ++ rbCode 64 8 0 1 ++ rbCode 64 7 0 1 ++ rbCode 64 6 0 1
  ++ gh4Code 9 21 ++ [ins .SUBQ [.imm 4, G 1] 0] ++ gh4Code 8 21 ++ [ins .SUBQ [.imm 4, G 1] 0]
  ++ gh4Code 7 21 ++ [ins .SUBQ [.imm 4, G 1] 0] ++ gh4Code 6 21 ++ [ins .SUBQ [.imm 4, G 1] 0] ++
  [ins .NOP [] 0,
   ins .ADDQ [.imm 256, G 13] 0,
   ins .ADDQ [.imm 256, G 10] 0,
   ins .SUBQ [.imm 256, G 9] 0,
   ins .JMP [.target (b + 99)] 0]

/-- `loopX8`: 8 counter blocks on Y registers; the four 32-byte results are concatenated into two Z registers -/
def ladX8Code (b : Nat) : List DInstr :=
  [ins .CMPQ [G 9, .imm 128] 0,
   ins .JLT [.target (b + 8234)] 0,
   ins .VPADDD [R 14, R 16, R 6] 32,
   ins .VPADDD [R 6, R 18, R 7] 32,
   ins .VPADDD [R 7, R 18, R 8] 32,
   ins .VPADDD [R 8, R 18, R 9] 32,
   ins .VPADDD [R 18, R 18, R 0] 32,
   ins .VPADDD [R 0, R 0, R 1] 32,
   ins .VPADDD [R 14, R 1, R 14] 32]
  ++ transposeCode 32 6 7 8 9 ++ rounds32Code 32 15 1 2 11 12 6 7 8 9 ++ transposeCode 32 9 8 7 6 ++ rev4Code 32 ++
  [ins .VMOVDQU32 [M 10 0, R 1] 32,
   ins .VMOVDQU32 [M 10 32, R 2] 32,
   ins .VMOVDQU32 [M 10 64, R 3] 32,
   ins .VMOVDQU32 [M 10 96, R 4] 32,
   ins .VPXORD [R 1, R 9, R 9] 32,
   ins .VPXORD [R 2, R 8, R 8] 32,
   ins .VPXORD [R 3, R 7, R 7] 32,
   ins .VPXORD [R 4, R 6, R 6] 32,
   ins .VMOVDQA64 [R 9, R 2] 32,
   ins .VMOVDQA64 [R 8, R 3] 32,
   ins .VALIGND [.imm 8, R 2, R 3, R 3] 64,
   ins .VPADDD [R 2, R 3, R 9] 64,
   ins .VMOVDQA64 [R 7, R 2] 32,
   ins .VMOVDQA64 [R 6, R 3] 32,
   ins .VALIGND [.imm 8, R 2, R 3, R 3] 64,
   ins .VPADDD [R 2, R 3, R 7] 64,
   ins .VMOVDQU32 [R 9, M 13 0] 64,
   ins .VMOVDQU32 [R 7, M 13 64] 64,
   ins .CMPQ [G 0, .imm 0] 0,
   ins .JEQ [.target (b + 8208)] 0,
   ins .MOVQ [.imm 8, G 1] 0]
  ++ rbCode 64 9 0 1 ++ rbCode 64 7 0 1
  ++ gh4Code 9 21 ++ [ins .SUBQ [.imm 4, G 1] 0] ++ gh4Code 7 21 ++ [ins .SUBQ [.imm 4, G 1] 0] ++
  [ins .NOP [] 0,
   ins .ADDQ [.imm 128, G 13] 0,
   ins .ADDQ [.imm 128, G 10] 0,
   ins .SUBQ [.imm 128, G 9] 0,
   ins .JMP [.target (b + 4387)] 0]

/-- `loopX4`: 4 counter blocks on X registers, concatenated into one Z register -/
def ladX4Code (b : Nat) : List DInstr :=
  [ins .CMPQ [G 9, .imm 64] 0,
   ins .JLT [.target (b + 11872)] 0,
   ins .VPADDD [R 14, R 16, R 6] 16,
   ins .VPADDD [R 6, R 16, R 7] 16,
   ins .VPADDD [R 7, R 16, R 8] 16,
   ins .VPADDD [R 8, R 16, R 9] 16,
   ins .VMOVDQA64 [R 9, R 14] 16]
  ++ transposeCode 16 6 7 8 9 ++ rounds32Code 16 15 1 2 11 12 6 7 8 9 ++ transposeCode 16 9 8 7 6 ++ rev4Code 16 ++
  [ins .VMOVDQU32 [M 10 0, R 1] 16,
   ins .VMOVDQU32 [M 10 16, R 2] 16,
   ins .VMOVDQU32 [M 10 32, R 3] 16,
   ins .VMOVDQU32 [M 10 48, R 4] 16,
   ins .VPXORD [R 1, R 9, R 9] 16,
   ins .VPXORD [R 2, R 8, R 8] 16,
   ins .VPXORD [R 3, R 7, R 7] 16,
   ins .VPXORD [R 4, R 6, R 6] 16,
   ins .VMOVDQA64 [R 9, R 0] 16,
   ins .VMOVDQA64 [R 8, R 1] 16,
   ins .VMOVDQA64 [R 7, R 2] 16,
   ins .VMOVDQA64 [R 6, R 3] 16,
   ins .VALIGND [.imm 4, R 0, R 1, R 1] 32,
   ins .VPADDD [R 0, R 1, R 0] 32,
   ins .VALIGND [.imm 4, R 2, R 3, R 3] 32,
   ins .VPADDD [R 2, R 3, R 2] 32,
   ins .VALIGND [.imm 8, R 0, R 2, R 2] 64,
   ins .VPADDD [R 0, R 2, R 9] 64,
   ins .VMOVDQU32 [R 9, M 13 0] 64,
   ins .CMPQ [G 0, .imm 0] 0,
   ins .JEQ [.target (b + 11855)] 0,
   ins .MOVQ [.imm 4, G 1] 0]
  ++ rbCode 64 9 0 1 ++ gh4Code 9 21 ++ [ins .SUBQ [.imm 4, G 1] 0] ++
  [ins .NOP [] 0,
   ins .ADDQ [.imm 64, G 13] 0,
   ins .ADDQ [.imm 64, G 10] 0,
   ins .SUBQ [.imm 64, G 9] 0,
   ins .JMP [.target (b + 8234)] 0]

/-- `loopX2`: 2 counter blocks -/
def ladX2Code (b : Nat) : List DInstr :=
  [ins .CMPQ [G 9, .imm 32] 0,
   ins .JLT [.target (b + 15501)] 0,
   ins .VPADDD [R 14, R 16, R 6] 16,
   ins .VPADDD [R 6, R 16, R 7] 16,
   ins .VMOVDQA64 [R 7, R 14] 16,
   ins .VPUNPCKHDQ [R 7, R 6, R 8] 16,
   ins .VPUNPCKLDQ [R 7, R 6, R 6] 16,
   ins .VPUNPCKHQDQ [R 6, R 6, R 7] 16,
   ins .VPUNPCKHQDQ [R 6, R 8, R 9] 16]
  ++ rounds32Code 16 15 1 2 11 12 6 7 8 9 ++
  [ins .VPUNPCKLDQ [R 8, R 9, R 0] 16,
   ins .VPUNPCKLDQ [R 6, R 7, R 1] 16,
   ins .VPUNPCKLQDQ [R 1, R 0, R 9] 16,
   ins .VPUNPCKHQDQ [R 1, R 0, R 8] 16,
   ins .VPSHUFB [R 12, R 9, R 9] 16,
   ins .VPSHUFB [R 12, R 8, R 8] 16,
   ins .VMOVDQU32 [M 10 0, R 1] 16,
   ins .VMOVDQU32 [M 10 16, R 2] 16,
   ins .VPXORD [R 1, R 9, R 9] 16,
   ins .VPXORD [R 2, R 8, R 8] 16,
   ins .VMOVDQU32 [R 9, M 13 0] 16,
   ins .VMOVDQU32 [R 8, M 13 16] 16,
   ins .CMPQ [G 0, .imm 0] 0,
   ins .JEQ [.target (b + 15484)] 0]
  ++ rbCode 16 9 0 1 ++ rbCode 16 8 0 1 ++ [ins .MOVQ [.imm 2, G 1] 0]
  ++ gh1Code 9 21 ++ [ins .SUBQ [.imm 1, G 1] 0] ++ gh1Code 8 21 ++ [ins .SUBQ [.imm 1, G 1] 0] ++
  [ins .NOP [] 0,
   ins .ADDQ [.imm 32, G 13] 0,
   ins .ADDQ [.imm 32, G 10] 0,
   ins .SUBQ [.imm 32, G 9] 0,
   ins .JMP [.target (b + 11872)] 0]

/-- `loopX1`: 1 counter block -/
def ladX1Code (b : Nat) : List DInstr :=
  [ins .CMPQ [G 9, .imm 16] 0,
   ins .JLT [.target (b + 18937)] 0,
   ins .VPADDD [R 14, R 16, R 6] 16,
   ins .VMOVDQA64 [R 6, R 14] 16,
   ins .VPUNPCKLDQ [R 6, R 6, R 0] 16,
   ins .VPUNPCKHDQ [R 6, R 6, R 8] 16,
   ins .VPUNPCKHDQ [R 0, R 0, R 7] 16,
   ins .VPUNPCKHDQ [R 8, R 8, R 9] 16]
  ++ rounds32Code 16 15 1 2 11 12 6 7 8 9 ++
  [ins .VPUNPCKLDQ [R 8, R 9, R 0] 16,
   ins .VPUNPCKLDQ [R 6, R 7, R 1] 16,
   ins .VPUNPCKLQDQ [R 1, R 0, R 9] 16,
   ins .VPSHUFB [R 12, R 9, R 9] 16,
   ins .VMOVDQU32 [M 10 0, R 0] 16,
   ins .VPXORD [R 0, R 9, R 9] 16,
   ins .VMOVDQU32 [R 9, M 13 0] 16,
   ins .CMPQ [G 0, .imm 0] 0,
   ins .JEQ [.target (b + 18920)] 0,
   ins .MOVQ [.imm 1, G 1] 0]
  ++ rbCode 16 9 0 1 ++ gh1Code 9 21 ++ [ins .SUBQ [.imm 1, G 1] 0] ++
  [ins .NOP [] 0,
   ins .ADDQ [.imm 16, G 13] 0,
   ins .ADDQ [.imm 16, G 10] 0,
   ins .SUBQ [.imm 16, G 9] 0,
   ins .JMP [.target (b + 15501)] 0]

/-- `loopX0`: the 1..15 remaining bytes: copied into the zeroed scratch block, one counter block, xor in the scratch
    block, `clearRight`, copied to the destination, then (hashFlag) one GHASH step over the scratch block -/
def ladX0Code (b : Nat) : List DInstr :=
  [ins .CMPQ [G 9, .imm 0] 0,
   ins .JLE [.target (b + 22642)] 0,
   ins .VPADDD [R 14, R 16, R 6] 16,
   ins .VMOVDQA64 [R 6, R 14] 16,
   ins .MOVQ [.imm 0, M 6 0] 0,
   ins .MOVQ [.imm 0, M 6 8] 0,
   ins .MOVQ [G 9, G 2] 0]
  ++ copyCode 6 10 9 11 (b + 18977) (b + 19003) (b + 19029) (b + 19057) (b + 19083) ++
  [ins .SUBQ [G 2, G 6] 0,
   ins .MOVQ [G 2, G 9] 0,
   ins .VPUNPCKLDQ [R 6, R 6, R 0] 16,
   ins .VPUNPCKHDQ [R 6, R 6, R 8] 16,
   ins .VPUNPCKHDQ [R 0, R 0, R 7] 16,
   ins .VPUNPCKHDQ [R 8, R 8, R 9] 16]
  ++ rounds32Code 16 15 1 2 11 12 6 7 8 9 ++
  [ins .VPUNPCKLDQ [R 8, R 9, R 0] 16,
   ins .VPUNPCKLDQ [R 6, R 7, R 1] 16,
   ins .VPUNPCKLQDQ [R 1, R 0, R 9] 16,
   ins .VPSHUFB [R 12, R 9, R 9] 16,
   ins .VMOVDQU32 [M 6 0, R 0] 16,
   ins .VPXORD [R 0, R 9, R 9] 16,
   ins .VMOVDQU32 [R 9, M 6 0] 16,
   ins .MOVQ [G 6, G 2] 0,
   ins .ADDQ [G 9, G 2] 0,
   ins .MOVQ [.imm 16, G 11] 0,
   ins .SUBQ [G 9, G 11] 0,
   ins .CMPQ [G 11, .imm 0] 0,
   ins .JLE [.target (b + 22344)] 0,
   ins .MOVB [.imm 0, M 2 0] 0,
   ins .ADDQ [.imm 1, G 2] 0,
   ins .SUBQ [.imm 1, G 11] 0,
   ins .JMP [.target (b + 22325)] 0,
   ins .NOP [] 0,
   ins .MOVQ [G 9, G 2] 0]
  ++ copyCode 13 6 9 11 (b + 22347) (b + 22374) (b + 22401) (b + 22430) (b + 22457) ++
  [ins .SUBQ [G 2, G 6] 0,
   ins .CMPQ [G 0, .imm 0] 0,
   ins .JEQ [.target (b + 22642)] 0,
   ins .MOVQ [.imm 1, G 11] 0,
   ins .VMOVDQU32 [M 6 0, R 9] 16]
  ++ rbCode 16 9 0 1 ++ gh1Code 9 21 ++ [ins .SUBQ [.imm 1, G 11] 0, ins .NOP [] 0]

def ladderCode (b : Nat) : List DInstr :=
  ladHeadCode b ++ ladX16Code b ++ ladX8Code b ++ ladX4Code b ++ ladX2Code b ++ ladX1Code b ++ ladX0Code b

/-- `CalculateSPost(tag, aLen, cLen, tmp, …)`: the length block 8·aLen ‖ 8·cLen, one GHASH step, the tag reflected back,
    xored with the mask E(J0), stored in the scratch block and copied (`tagSize` bytes) to `G dst`;
    `p8 p4 p2 p1 pe` = byte offsets of the loops of the final `copyAsm` -/
def sPostCode (dst p8 p4 p2 p1 pe : Nat) : List DInstr :=
  [ins .SHLQ [.imm 3, G 7] 0,
   ins .SHLQ [.imm 3, G 9] 0,
   ins .LEAQ [.sym "Shuffle1" 0, G 12] 0,
   ins .LEAQ [.sym "Shuffle2" 0, G 1] 0,
   ins .VMOVDQU32 [M 12 0, R 0] 16,
   ins .VMOVDQU32 [M 1 0, R 1] 16,
   ins .MOVQ [G 7, R 2] 16,
   ins .MOVQ [G 9, R 3] 16,
   ins .MOVQ [.imm 255, G 12] 0,
   ins .KMOVW [G 12, K 1] 0,
   ins .VPSHUFB [R 1, R 3, R 20] 16,
   ins .VPSHUFB [R 0, R 2, K 1, R 20] 16]
  ++ rbCode 16 20 0 1 ++ [ins .MOVQ [.imm 1, G 12] 0] ++ gh1Code 20 21 ++ [ins .SUBQ [.imm 1, G 12] 0]
  ++ rbCode 16 21 1 2 ++
  [ins .VPXORD [R 21, R 15, R 21] 16,
   ins .VMOVDQU32 [R 21, M 6 0] 16]
  ++ copyCode dst 6 14 12 p8 p4 p2 p1 pe

/-! ## the two routines -/

/-- **`sealAsm`** -/
def sealCode : List DInstr :=
  gcmPrefixCode ++
  [ins .MOVQ [.frame "dst" 24, G 13] 0,
   ins .MOVQ [.frame "plaintext" 56, G 10] 0,
   ins .MOVQ [.frame "plainLen" 64, G 9] 0,
   ins .MOVQ [.imm 1, G 0] 0]
  ++ ladderCode 8878 ++
  [ins .MOVQ [.frame "dst" 24, G 13] 0,
   ins .MOVQ [.frame "aLen" 88, G 7] 0,
   ins .MOVQ [.frame "plainLen" 64, G 9] 0,
   ins .ADDQ [G 9, G 13] 0,
   ins .MOVQ [.frame "tagSize" 16, G 14] 0,
   ins .MOVQ [.frame "tmp" 104, G 6] 0]
  ++ sPostCode 13 31834 31861 31888 31917 31944 ++ [ins .RET [] 0]

/-- `CalculateSMid`: GHASH of the ciphertext (without the tag) continuing VxTag -/
def sMidCode : List DInstr :=
  [ins .MOVQ [G 9, G 12] 0,
   ins .MOVQ [G 9, G 11] 0,
   ins .ANDQ [.imm 15, G 11] 0,
   ins .SHRQ [.imm 4, G 12] 0,
   ins .CMPQ [G 9, .imm 16] 0,
   ins .JLT [.target 9314] 0]
  ++ ghLoopsCode 10 12 21 8913 9133 9314 ++
  [ins .CMPQ [G 11, .imm 0] 0,
   ins .JEQ [.target 9626] 0]
  ++ tailCopyCode 10 11 9342 9368 9393 9420 9445 ++
  load1Code 6 ++ [ins .MOVQ [.imm 1, G 12] 0] ++ gh1Code 20 21 ++ [ins .SUBQ [.imm 1, G 12] 0]

/-- `constantTimeCompare(x, y, l, …)`: the expected tag in the scratch block is xored with the received tag in place,
    the OR of all bytes ends up in the low byte of `G2` -/
def ctCmpCode : List DInstr :=
  [ins .MOVQ [.imm 0, G 1] 0,
   ins .MOVQ [.imm 0, G 2] 0,
   ins .CMPQ [G 14, .imm 8] 0,
   ins .JLT [.target 10121] 0,
   ins .MOVQ [M 10 0, G 13] 0,
   ins .XORQ [G 13, M 0 0] 0,
   ins .ORQ [M 0 0, G 1] 0,
   ins .ADDQ [.imm 8, G 10] 0,
   ins .ADDQ [.imm 8, G 0] 0,
   ins .SUBQ [.imm 8, G 14] 0,
   ins .JMP [.target 10092] 0,
   ins .CMPQ [G 14, .imm 1] 0,
   ins .JLT [.target 10149] 0,
   ins .MOVB [M 10 0, G 13] 0,
   ins .XORB [G 13, M 0 0] 0,
   ins .ORB [M 0 0, G 2] 0,
   ins .ADDQ [.imm 1, G 10] 0,
   ins .ADDQ [.imm 1, G 0] 0,
   ins .SUBQ [.imm 1, G 14] 0,
   ins .JMP [.target 10121] 0,
   ins .ORB [G 1, G 2] 0,
   ins .SHRQ [.imm 8, G 1] 0,
   ins .ORB [G 1, G 2] 0,
   ins .SHRQ [.imm 8, G 1] 0,
   ins .ORB [G 1, G 2] 0,
   ins .SHRQ [.imm 8, G 1] 0,
   ins .ORB [G 1, G 2] 0,
   ins .SHRQ [.imm 8, G 1] 0,
   ins .ORB [G 1, G 2] 0,
   ins .SHRQ [.imm 8, G 1] 0,
   ins .ORB [G 1, G 2] 0,
   ins .SHRQ [.imm 8, G 1] 0,
   ins .ORB [G 1, G 2] 0,
   ins .SHRQ [.imm 8, G 1] 0,
   ins .ORB [G 1, G 2] 0]

/-- **`openAsm`** -/
def openCode : List DInstr :=
  gcmPrefixCode ++
  [ins .MOVQ [.frame "cipher" 56, G 10] 0,
   ins .MOVQ [.frame "cipherLen" 64, G 9] 0,
   ins .MOVQ [.frame "tagSize" 16, G 14] 0,
   ins .SUBQ [G 14, G 9] 0,
   ins .MOVQ [.frame "tmp" 104, G 6] 0]
  ++ sMidCode ++
  [ins .MOVQ [.frame "aLen" 88, G 7] 0,
   ins .MOVQ [.frame "cipherLen" 64, G 9] 0,
   ins .MOVQ [.frame "tagSize" 16, G 14] 0,
   ins .SUBQ [G 14, G 9] 0,
   ins .MOVQ [.frame "tmp" 104, G 6] 0,
   ins .MOVQ [G 6, G 0] 0,
   ins .ADDQ [.imm 16, G 0] 0]
  ++ sPostCode 0 9942 9968 9994 10022 10048 ++
  [ins .MOVQ [.frame "tmp" 104, G 0] 0,
   ins .ADDQ [.imm 16, G 0] 0,
   ins .MOVQ [.frame "cipher" 56, G 10] 0,
   ins .MOVQ [.frame "cipherLen" 64, G 9] 0,
   ins .MOVQ [.frame "tagSize" 16, G 14] 0,
   ins .SUBQ [G 14, G 9] 0,
   ins .ADDQ [G 9, G 10] 0]
  ++ ctCmpCode ++
  [ins .CMPQ [G 2, .imm 0] 0,
   ins .JNE [.target 32891] 0,
   ins .MOVQ [.imm 1, .frame "ret1" 112] 0,
   ins .MOVQ [.frame "dst" 24, G 13] 0,
   ins .MOVQ [.frame "cipher" 56, G 10] 0,
   ins .MOVQ [.frame "cipherLen" 64, G 9] 0,
   ins .MOVQ [.frame "tagSize" 16, G 14] 0,
   ins .SUBQ [G 14, G 9] 0,
   ins .MOVQ [.frame "tmp" 104, G 6] 0,
   ins .MOVQ [.imm 0, G 0] 0]
  ++ ladderCode 10247 ++
  [ins .JMP [.target 32900] 0,
   ins .MOVQ [.imm 0, .frame "ret1" 112] 0,
   ins .RET [] 0]

end SMGo.Proofs.ISAVal
