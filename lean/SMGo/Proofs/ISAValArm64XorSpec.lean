/-
  **The arm64 listings of `xor256 / xor128 / xor64 / xor32 / xor16` compute dst[i] = src1[i] xor src2[i] for all i < N**
  on the three entry states of SMGo/Model/ISAValArm64Gcm.lean (buffers disjoint; dst = src1; dst = src2) — under the
  arm64 value semantics of SMGo/Model/ISAValArm64.lean (UNVALIDATED transcription of the Arm ARM).
-/
import SMGo.Proofs.ISAValArm64Xor
namespace SMGo.Proofs.ISAValArm64
open SMGo SMGo.Model.ISAValArm64 SMGo.Model.ISA
open SMGo.Model.ISAVal (lane lanes unlanes Region readMem writeMem lookup regionBase)

theorem xdst_after (g' v' : List Nat) (mem : List Region) (sy fr : List (String × Nat)) (bs : List Nat)
    (h0 : mem[0]? = some ⟨"SBox", Gen.AsmData.arm64_SBox, false⟩) (h1 : mem[1]? = some ⟨"FK", Gen.AsmData.arm64_FK, false⟩)
    (h2 : mem[2]? = some ⟨"CK", Gen.AsmData.arm64_CK, false⟩) (h3 : 3 < mem.length) :
    regionBytes ⟨g', v', mem.set 3 ⟨"dst", bs, true⟩, sy, fr⟩ "dst" = some bs := by
  match mem, h0, h1, h2, h3 with
  | m0 :: m1 :: m2 :: m3 :: rest, h0, h1, h2, _ =>
    simp only [List.getElem?_cons_zero, List.getElem?_cons_succ, Option.some.injEq] at h0 h1 h2
    subst h0 h1 h2
    simp [regionBytes, List.find?]

def xframe (d a b : Nat) : List (String × Nat) := [("dst", arg d), ("src1", arg a), ("src2", arg b)]
theorem xframe_dst (d a b : Nat) : lookup (xframe d a b) "dst" = some (regionBase (3 + d)) := by
  simp [xframe, lookup, arg, nsyms]
theorem xframe_src1 (d a b : Nat) : lookup (xframe d a b) "src1" = some (regionBase (3 + a)) := by
  simp [xframe, lookup, arg, nsyms]
theorem xframe_src2 (d a b : Nat) : lookup (xframe d a b) "src2" = some (regionBase (3 + b)) := by
  simp [xframe, lookup, arg, nsyms]

theorem rb_lt (k N : Nat) (hk : k < 16) (hN : N ≤ 256) : regionBase k + N < 2 ^ 64 := by
  unfold regionBase; omega

/-- the environment of the disjoint call -/
theorem xs_env (N : Nat) (hN : N ≤ 256) (g v d0 a b : List Nat) (hg : g.length = 31) (hv : v.length = 32)
    (ha : a.length = N) (hb : b.length = N) :
    XorEnv (xorState g v d0 a b) N a b (regionBase 3) (regionBase 4) (regionBase 5) where
  hG := hg
  hV := hv
  fD := xframe_dst 0 1 2
  f1 := xframe_src1 0 1 2
  f2 := xframe_src2 0 1 2
  rd1 := fun off len h => read_region _ 4 ⟨"src1", a, false⟩ off len rfl (by simp only [ha]; omega) (by omega)
  rd2 := fun off len h => read_region _ 5 ⟨"src2", b, false⟩ off len rfl (by simp only [hb]; omega) (by omega)
  w1 := rb_lt 4 N (by decide) hN
  w2 := rb_lt 5 N (by decide) hN
  wD := rb_lt 3 N (by decide) hN

/-- dst = src1 -/
theorem xs1_env (N : Nat) (hN : N ≤ 256) (g v a b : List Nat) (hg : g.length = 31) (hv : v.length = 32)
    (ha : a.length = N) (hb : b.length = N) :
    XorEnv (xorStateDst1 g v a b) N a b (regionBase 3) (regionBase 3) (regionBase 4) where
  hG := hg
  hV := hv
  fD := xframe_dst 0 0 1
  f1 := xframe_src1 0 0 1
  f2 := xframe_src2 0 0 1
  rd1 := fun off len h => read_region _ 3 ⟨"dst", a, true⟩ off len rfl (by simp only [ha]; omega) (by omega)
  rd2 := fun off len h => read_region _ 4 ⟨"src2", b, false⟩ off len rfl (by simp only [hb]; omega) (by omega)
  w1 := rb_lt 3 N (by decide) hN
  w2 := rb_lt 4 N (by decide) hN
  wD := rb_lt 3 N (by decide) hN

/-- dst = src2 -/
theorem xs2_env (N : Nat) (hN : N ≤ 256) (g v a b : List Nat) (hg : g.length = 31) (hv : v.length = 32)
    (ha : a.length = N) (hb : b.length = N) :
    XorEnv (xorStateDst2 g v a b) N a b (regionBase 3) (regionBase 4) (regionBase 3) where
  hG := hg
  hV := hv
  fD := xframe_dst 0 1 0
  f1 := xframe_src1 0 1 0
  f2 := xframe_src2 0 1 0
  rd1 := fun off len h => read_region _ 4 ⟨"src1", a, false⟩ off len rfl (by simp only [ha]; omega) (by omega)
  rd2 := fun off len h => read_region _ 3 ⟨"dst", b, true⟩ off len rfl (by simp only [hb]; omega) (by omega)
  w1 := rb_lt 4 N (by decide) hN
  w2 := rb_lt 3 N (by decide) hN
  wD := rb_lt 3 N (by decide) hN

/-- **`xor16`**: the destination receives the bytewise xor of the two sources — buffers disjoint, dst = src1, dst = src2 -/
theorem xor16_eq (g v d0 a b : List Nat) (hg : g.length = 31) (hv : v.length = 32) (hd : d0.length = 16)
    (ha : a.length = 16) (hb : b.length = 16) (hab : ∀ x ∈ a, x < 2 ^ 8) (hbb : ∀ x ∈ b, x < 2 ^ 8) :
    runDst Gen.ListArm64Gcm.xor16 Gen.ListArm64GcmArr.xor16_arr (xorState g v d0 a b) = .ok (List.zipWith (· ^^^ ·) a b)
    ∧ runDst Gen.ListArm64Gcm.xor16 Gen.ListArm64GcmArr.xor16_arr (xorStateDst1 g v a b) = .ok (List.zipWith (· ^^^ ·) a b)
    ∧ runDst Gen.ListArm64Gcm.xor16 Gen.ListArm64GcmArr.xor16_arr (xorStateDst2 g v a b) = .ok (List.zipWith (· ^^^ ·) a b) := by
  refine ⟨?_, ?_, ?_⟩
  · obtain ⟨s', hrun, hm⟩ := xor16_generic _ a b d0 _ _ 3 (xs_env 16 (by decide) g v d0 a b hg hv ha hb) ⟨rfl, hd⟩ ha hb hab hbb
    unfold runDst
    rw [hrun]
    obtain ⟨g3, v3, m3, sy3, fr3⟩ := s'
    simp only at hm
    subst hm
    simp only [ok_bind]
    rw [xdst_after g3 v3 _ sy3 fr3 _ rfl rfl rfl (by show (3 : Nat) < 6; decide)]
    rfl
  · obtain ⟨s', hrun, hm⟩ := xor16_generic _ a b a _ _ 3 (xs1_env 16 (by decide) g v a b hg hv ha hb) ⟨rfl, ha⟩ ha hb hab hbb
    unfold runDst
    rw [hrun]
    obtain ⟨g3, v3, m3, sy3, fr3⟩ := s'
    simp only at hm
    subst hm
    simp only [ok_bind]
    rw [xdst_after g3 v3 _ sy3 fr3 _ rfl rfl rfl (by show (3 : Nat) < 5; decide)]
    rfl
  · obtain ⟨s', hrun, hm⟩ := xor16_generic _ a b b _ _ 3 (xs2_env 16 (by decide) g v a b hg hv ha hb) ⟨rfl, hb⟩ ha hb hab hbb
    unfold runDst
    rw [hrun]
    obtain ⟨g3, v3, m3, sy3, fr3⟩ := s'
    simp only at hm
    subst hm
    simp only [ok_bind]
    rw [xdst_after g3 v3 _ sy3 fr3 _ rfl rfl rfl (by show (3 : Nat) < 5; decide)]
    rfl

/-- **`xor32`**: the destination receives the bytewise xor of the two sources — buffers disjoint, dst = src1, dst = src2 -/
theorem xor32_eq (g v d0 a b : List Nat) (hg : g.length = 31) (hv : v.length = 32) (hd : d0.length = 32)
    (ha : a.length = 32) (hb : b.length = 32) (hab : ∀ x ∈ a, x < 2 ^ 8) (hbb : ∀ x ∈ b, x < 2 ^ 8) :
    runDst Gen.ListArm64Gcm.xor32 Gen.ListArm64GcmArr.xor32_arr (xorState g v d0 a b) = .ok (List.zipWith (· ^^^ ·) a b)
    ∧ runDst Gen.ListArm64Gcm.xor32 Gen.ListArm64GcmArr.xor32_arr (xorStateDst1 g v a b) = .ok (List.zipWith (· ^^^ ·) a b)
    ∧ runDst Gen.ListArm64Gcm.xor32 Gen.ListArm64GcmArr.xor32_arr (xorStateDst2 g v a b) = .ok (List.zipWith (· ^^^ ·) a b) := by
  refine ⟨?_, ?_, ?_⟩
  · obtain ⟨s', hrun, hm⟩ := xor32_generic _ a b d0 _ _ 3 (xs_env 32 (by decide) g v d0 a b hg hv ha hb) ⟨rfl, hd⟩ ha hb hab hbb
    unfold runDst
    rw [hrun]
    obtain ⟨g3, v3, m3, sy3, fr3⟩ := s'
    simp only at hm
    subst hm
    simp only [ok_bind]
    rw [xdst_after g3 v3 _ sy3 fr3 _ rfl rfl rfl (by show (3 : Nat) < 6; decide)]
    rfl
  · obtain ⟨s', hrun, hm⟩ := xor32_generic _ a b a _ _ 3 (xs1_env 32 (by decide) g v a b hg hv ha hb) ⟨rfl, ha⟩ ha hb hab hbb
    unfold runDst
    rw [hrun]
    obtain ⟨g3, v3, m3, sy3, fr3⟩ := s'
    simp only at hm
    subst hm
    simp only [ok_bind]
    rw [xdst_after g3 v3 _ sy3 fr3 _ rfl rfl rfl (by show (3 : Nat) < 5; decide)]
    rfl
  · obtain ⟨s', hrun, hm⟩ := xor32_generic _ a b b _ _ 3 (xs2_env 32 (by decide) g v a b hg hv ha hb) ⟨rfl, hb⟩ ha hb hab hbb
    unfold runDst
    rw [hrun]
    obtain ⟨g3, v3, m3, sy3, fr3⟩ := s'
    simp only at hm
    subst hm
    simp only [ok_bind]
    rw [xdst_after g3 v3 _ sy3 fr3 _ rfl rfl rfl (by show (3 : Nat) < 5; decide)]
    rfl

/-- **`xor64`**: the destination receives the bytewise xor of the two sources — buffers disjoint, dst = src1, dst = src2 -/
theorem xor64_eq (g v d0 a b : List Nat) (hg : g.length = 31) (hv : v.length = 32) (hd : d0.length = 64)
    (ha : a.length = 64) (hb : b.length = 64) (hab : ∀ x ∈ a, x < 2 ^ 8) (hbb : ∀ x ∈ b, x < 2 ^ 8) :
    runDst Gen.ListArm64Gcm.xor64 Gen.ListArm64GcmArr.xor64_arr (xorState g v d0 a b) = .ok (List.zipWith (· ^^^ ·) a b)
    ∧ runDst Gen.ListArm64Gcm.xor64 Gen.ListArm64GcmArr.xor64_arr (xorStateDst1 g v a b) = .ok (List.zipWith (· ^^^ ·) a b)
    ∧ runDst Gen.ListArm64Gcm.xor64 Gen.ListArm64GcmArr.xor64_arr (xorStateDst2 g v a b) = .ok (List.zipWith (· ^^^ ·) a b) := by
  refine ⟨?_, ?_, ?_⟩
  · obtain ⟨s', hrun, hm⟩ := xor64_generic _ a b d0 _ _ 3 (xs_env 64 (by decide) g v d0 a b hg hv ha hb) ⟨rfl, hd⟩ ha hb hab hbb
    unfold runDst
    rw [hrun]
    obtain ⟨g3, v3, m3, sy3, fr3⟩ := s'
    simp only at hm
    subst hm
    simp only [ok_bind]
    rw [xdst_after g3 v3 _ sy3 fr3 _ rfl rfl rfl (by show (3 : Nat) < 6; decide)]
    rfl
  · obtain ⟨s', hrun, hm⟩ := xor64_generic _ a b a _ _ 3 (xs1_env 64 (by decide) g v a b hg hv ha hb) ⟨rfl, ha⟩ ha hb hab hbb
    unfold runDst
    rw [hrun]
    obtain ⟨g3, v3, m3, sy3, fr3⟩ := s'
    simp only at hm
    subst hm
    simp only [ok_bind]
    rw [xdst_after g3 v3 _ sy3 fr3 _ rfl rfl rfl (by show (3 : Nat) < 5; decide)]
    rfl
  · obtain ⟨s', hrun, hm⟩ := xor64_generic _ a b b _ _ 3 (xs2_env 64 (by decide) g v a b hg hv ha hb) ⟨rfl, hb⟩ ha hb hab hbb
    unfold runDst
    rw [hrun]
    obtain ⟨g3, v3, m3, sy3, fr3⟩ := s'
    simp only at hm
    subst hm
    simp only [ok_bind]
    rw [xdst_after g3 v3 _ sy3 fr3 _ rfl rfl rfl (by show (3 : Nat) < 5; decide)]
    rfl

/-- **`xor128`**: the destination receives the bytewise xor of the two sources — buffers disjoint, dst = src1, dst = src2 -/
theorem xor128_eq (g v d0 a b : List Nat) (hg : g.length = 31) (hv : v.length = 32) (hd : d0.length = 128)
    (ha : a.length = 128) (hb : b.length = 128) (hab : ∀ x ∈ a, x < 2 ^ 8) (hbb : ∀ x ∈ b, x < 2 ^ 8) :
    runDst Gen.ListArm64Gcm.xor128 Gen.ListArm64GcmArr.xor128_arr (xorState g v d0 a b) = .ok (List.zipWith (· ^^^ ·) a b)
    ∧ runDst Gen.ListArm64Gcm.xor128 Gen.ListArm64GcmArr.xor128_arr (xorStateDst1 g v a b) = .ok (List.zipWith (· ^^^ ·) a b)
    ∧ runDst Gen.ListArm64Gcm.xor128 Gen.ListArm64GcmArr.xor128_arr (xorStateDst2 g v a b) = .ok (List.zipWith (· ^^^ ·) a b) := by
  refine ⟨?_, ?_, ?_⟩
  · obtain ⟨s', hrun, hm⟩ := xor128_generic _ a b d0 _ _ 3 (xs_env 128 (by decide) g v d0 a b hg hv ha hb) ⟨rfl, hd⟩ ha hb hab hbb
    unfold runDst
    rw [hrun]
    obtain ⟨g3, v3, m3, sy3, fr3⟩ := s'
    simp only at hm
    subst hm
    simp only [ok_bind]
    rw [xdst_after g3 v3 _ sy3 fr3 _ rfl rfl rfl (by show (3 : Nat) < 6; decide)]
    rfl
  · obtain ⟨s', hrun, hm⟩ := xor128_generic _ a b a _ _ 3 (xs1_env 128 (by decide) g v a b hg hv ha hb) ⟨rfl, ha⟩ ha hb hab hbb
    unfold runDst
    rw [hrun]
    obtain ⟨g3, v3, m3, sy3, fr3⟩ := s'
    simp only at hm
    subst hm
    simp only [ok_bind]
    rw [xdst_after g3 v3 _ sy3 fr3 _ rfl rfl rfl (by show (3 : Nat) < 5; decide)]
    rfl
  · obtain ⟨s', hrun, hm⟩ := xor128_generic _ a b b _ _ 3 (xs2_env 128 (by decide) g v a b hg hv ha hb) ⟨rfl, hb⟩ ha hb hab hbb
    unfold runDst
    rw [hrun]
    obtain ⟨g3, v3, m3, sy3, fr3⟩ := s'
    simp only at hm
    subst hm
    simp only [ok_bind]
    rw [xdst_after g3 v3 _ sy3 fr3 _ rfl rfl rfl (by show (3 : Nat) < 5; decide)]
    rfl

/-- **`xor256`**: the destination receives the bytewise xor of the two sources — buffers disjoint, dst = src1, dst = src2 -/
theorem xor256_eq (g v d0 a b : List Nat) (hg : g.length = 31) (hv : v.length = 32) (hd : d0.length = 256)
    (ha : a.length = 256) (hb : b.length = 256) (hab : ∀ x ∈ a, x < 2 ^ 8) (hbb : ∀ x ∈ b, x < 2 ^ 8) :
    runDst Gen.ListArm64Gcm.xor256 Gen.ListArm64GcmArr.xor256_arr (xorState g v d0 a b) = .ok (List.zipWith (· ^^^ ·) a b)
    ∧ runDst Gen.ListArm64Gcm.xor256 Gen.ListArm64GcmArr.xor256_arr (xorStateDst1 g v a b) = .ok (List.zipWith (· ^^^ ·) a b)
    ∧ runDst Gen.ListArm64Gcm.xor256 Gen.ListArm64GcmArr.xor256_arr (xorStateDst2 g v a b) = .ok (List.zipWith (· ^^^ ·) a b) := by
  refine ⟨?_, ?_, ?_⟩
  · obtain ⟨s', hrun, hm⟩ := xor256_generic _ a b d0 _ _ 3 (xs_env 256 (by decide) g v d0 a b hg hv ha hb) ⟨rfl, hd⟩ ha hb hab hbb
    unfold runDst
    rw [hrun]
    obtain ⟨g3, v3, m3, sy3, fr3⟩ := s'
    simp only at hm
    subst hm
    simp only [ok_bind]
    rw [xdst_after g3 v3 _ sy3 fr3 _ rfl rfl rfl (by show (3 : Nat) < 6; decide)]
    rfl
  · obtain ⟨s', hrun, hm⟩ := xor256_generic _ a b a _ _ 3 (xs1_env 256 (by decide) g v a b hg hv ha hb) ⟨rfl, ha⟩ ha hb hab hbb
    unfold runDst
    rw [hrun]
    obtain ⟨g3, v3, m3, sy3, fr3⟩ := s'
    simp only at hm
    subst hm
    simp only [ok_bind]
    rw [xdst_after g3 v3 _ sy3 fr3 _ rfl rfl rfl (by show (3 : Nat) < 5; decide)]
    rfl
  · obtain ⟨s', hrun, hm⟩ := xor256_generic _ a b b _ _ 3 (xs2_env 256 (by decide) g v a b hg hv ha hb) ⟨rfl, hb⟩ ha hb hab hbb
    unfold runDst
    rw [hrun]
    obtain ⟨g3, v3, m3, sy3, fr3⟩ := s'
    simp only at hm
    subst hm
    simp only [ok_bind]
    rw [xdst_after g3 v3 _ sy3 fr3 _ rfl rfl rfl (by show (3 : Nat) < 5; decide)]
    rfl

/-- **all five routines**: for N ∈ {16, 32, 64, 128, 256} the listing of `xorN` leaves `a[i] xor b[i]` in dst[i] for all
    i < N, in the three calling shapes -/
theorem xorN_eq (n : Nat) (l : List Instr) (arr : List (List String)) (hl : xorListing n = some (l, arr))
    (g v d0 a b : List Nat) (hg : g.length = 31) (hv : v.length = 32) (hd : d0.length = n)
    (ha : a.length = n) (hb : b.length = n) (hab : ∀ x ∈ a, x < 2 ^ 8) (hbb : ∀ x ∈ b, x < 2 ^ 8) :
    runDst l arr (xorState g v d0 a b) = .ok (List.zipWith (· ^^^ ·) a b)
    ∧ runDst l arr (xorStateDst1 g v a b) = .ok (List.zipWith (· ^^^ ·) a b)
    ∧ runDst l arr (xorStateDst2 g v a b) = .ok (List.zipWith (· ^^^ ·) a b) := by
  unfold xorListing at hl
  split at hl
  all_goals first
    | (simp only [Option.some.injEq, Prod.mk.injEq] at hl; obtain ⟨rfl, rfl⟩ := hl)
    | (exact absurd hl (by simp))
  · exact xor256_eq g v d0 a b hg hv hd ha hb hab hbb
  · exact xor128_eq g v d0 a b hg hv hd ha hb hab hbb
  · exact xor64_eq g v d0 a b hg hv hd ha hb hab hbb
  · exact xor32_eq g v d0 a b hg hv hd ha hb hab hbb
  · exact xor16_eq g v d0 a b hg hv hd ha hb hab hbb

/-- element form: byte `i` of the result -/
theorem zipWith_xor_getD (a b : List Nat) (i : Nat) (hi : i < a.length) (hb : a.length = b.length) :
    (List.zipWith (· ^^^ ·) a b).getD i 0 = a.getD i 0 ^^^ b.getD i 0 := by
  simp [List.getD_eq_getElem?_getD, List.getElem?_zipWith, List.getElem?_eq_getElem hi,
    List.getElem?_eq_getElem (hb ▸ hi)]

end SMGo.Proofs.ISAValArm64

#print axioms SMGo.Proofs.ISAValArm64.xorN_eq
