/-
  Facts about the SP 800-38D transcription `Spec.GCM` alone (no model): GCTR as the xor with a key
  stream of consecutive counter blocks, `inc32` iterated = addition on the low 32-bit word with wrap,
  lengths, GCTR is an involution, and the decision rule of Algorithm 5 (`openGCM`).
-/
import SMGo.Spec.GCM
namespace SMGo.Proofs.GCM
open SMGo
open SMGo.Spec.GCM

/-! ### xorBytes -/

theorem xorBytes_length (a b : Bytes) : (xorBytes a b).length = min a.length b.length := by
  simp [xorBytes, List.length_zipWith]

@[simp] theorem xorBytes_nil_left (b : Bytes) : xorBytes [] b = [] := by simp [xorBytes]
@[simp] theorem xorBytes_nil_right (a : Bytes) : xorBytes a [] = [] := by simp [xorBytes]

theorem xorBytes_cons (a : UInt8) (as : Bytes) (b : UInt8) (bs : Bytes) :
    xorBytes (a :: as) (b :: bs) = (a ^^^ b) :: xorBytes as bs := by simp [xorBytes]

/-- xor with a concatenated key stream splits at the length of the first part -/
theorem xorBytes_append_right (x k s : Bytes) :
    xorBytes x (k ++ s) = xorBytes (x.take k.length) k ++ xorBytes (x.drop k.length) s := by
  induction k generalizing x with
  | nil => simp
  | cons b k ih =>
    cases x with
    | nil => simp
    | cons a x => simp [xorBytes_cons, ih]

/-- a key stream longer than the data may be cut -/
theorem xorBytes_append_right_of_le (x k s : Bytes) (h : x.length ≤ k.length) :
    xorBytes x (k ++ s) = xorBytes x k := by
  rw [xorBytes_append_right, List.take_of_length_le h, List.drop_of_length_le h]; simp

theorem xorBytes_append (a b k s : Bytes) (h : a.length = k.length) :
    xorBytes (a ++ b) (k ++ s) = xorBytes a k ++ xorBytes b s := by
  simp [xorBytes, List.zipWith_append h]

theorem xorBytes_take (n : Nat) (a b : Bytes) : (xorBytes a b).take n = xorBytes (a.take n) (b.take n) := by
  simp [xorBytes, List.take_zipWith]

/-- xoring twice with the same (long enough) key stream gives the data back -/
theorem xorBytes_cancel (x k : Bytes) (h : x.length ≤ k.length) : xorBytes (xorBytes x k) k = x := by
  induction x generalizing k with
  | nil => simp
  | cons a x ih =>
    cases k with
    | nil => simp at h
    | cons b k =>
      simp only [xorBytes_cons]
      rw [ih k (by simpa using h), UInt8.xor_assoc, UInt8.xor_self, UInt8.xor_zero]

/-! ### counters: `inc32` iterated is addition on the low 32-bit word, with wrap -/

/-- the counter block `k` steps after `j`: the upper 96 bits stay, the low word is `(w + k) mod 2^32` -/
def ctrAdd (j k : Nat) : Nat := j / 2 ^ 32 * 2 ^ 32 + (j % 2 ^ 32 + k) % 2 ^ 32

theorem ctrAdd_zero (j : Nat) : ctrAdd j 0 = j := by unfold ctrAdd; omega
theorem inc32_eq_ctrAdd (j : Nat) : inc32 j = ctrAdd j 1 := rfl
theorem ctrAdd_ctrAdd (j a b : Nat) : ctrAdd (ctrAdd j a) b = ctrAdd j (a + b) := by unfold ctrAdd; omega

/-- (iv) `inc32` applied `k` times, including the wrap of the low 32-bit word -/
theorem inc32_iterate (k j : Nat) : Nat.repeat inc32 k j = ctrAdd j k := by
  induction k with
  | zero => simp [Nat.repeat, ctrAdd_zero]
  | succ k ih => rw [Nat.repeat, ih, inc32_eq_ctrAdd, ctrAdd_ctrAdd]

/-- the wrap: 2^32 steps come back to the same block -/
theorem ctrAdd_wrap (j k : Nat) : ctrAdd j (k + 2 ^ 32) = ctrAdd j k := by unfold ctrAdd; omega

theorem ctrAdd_lt {j : Nat} (h : j < 2 ^ 128) (k : Nat) : ctrAdd j k < 2 ^ 128 := by unfold ctrAdd; omega

/-! ### GCTR as the xor with a key stream -/

/-- the key stream E(CB) ‖ E(inc32 CB) ‖ … of `n` blocks -/
def stream (E : Bytes → Bytes) : Nat → Nat → Bytes
  | _, 0 => []
  | cb, n + 1 => E (natToBlock cb) ++ stream E (inc32 cb) n

theorem stream_length {E : Bytes → Bytes} (hE : ∀ b, (E b).length = 16) (cb n : Nat) :
    (stream E cb n).length = 16 * n := by
  induction n generalizing cb with
  | zero => rfl
  | succ n ih => simp [stream, hE, ih]; omega

theorem stream_add (E : Bytes → Bytes) (cb n m : Nat) :
    stream E cb (n + m) = stream E cb n ++ stream E (ctrAdd cb n) m := by
  induction n generalizing cb with
  | zero => simp [stream, ctrAdd_zero]
  | succ n ih =>
    rw [Nat.add_right_comm, stream, ih, stream, inc32_eq_ctrAdd, ctrAdd_ctrAdd, Nat.add_comm 1 n,
      List.append_assoc]

theorem gctrAux_eq_xor {E : Bytes → Bytes} (hE : ∀ b, (E b).length = 16) (fuel cb : Nat) (x : Bytes) :
    gctrAux E fuel cb x = xorBytes x (stream E cb fuel) := by
  induction fuel generalizing cb x with
  | zero => simp [gctrAux, stream]
  | succ fuel ih =>
    rw [gctrAux, stream]
    by_cases hx : x.isEmpty = true
    · have : x = [] := by simpa using hx
      simp [this]
    · simp only [hx, if_false, Bool.false_eq_true]
      rw [ih, xorBytes_append_right, hE]

/-- the key stream may be taken longer than needed -/
theorem xorBytes_stream_mono {E : Bytes → Bytes} (hE : ∀ b, (E b).length = 16) (x : Bytes) (cb n m : Nat)
    (hn : x.length ≤ 16 * n) (hm : n ≤ m) : xorBytes x (stream E cb m) = xorBytes x (stream E cb n) := by
  obtain ⟨d, rfl⟩ := Nat.exists_eq_add_of_le hm
  rw [stream_add, xorBytes_append_right_of_le]
  rw [stream_length hE]; exact hn

/-- GCTR is the xor with any long enough prefix of the key stream -/
theorem gctr_eq_xor {E : Bytes → Bytes} (hE : ∀ b, (E b).length = 16) (icb : Nat) (x : Bytes) (n : Nat)
    (hn : x.length ≤ 16 * n) : gctr E icb x = xorBytes x (stream E icb n) := by
  unfold gctr
  rw [gctrAux_eq_xor hE]
  by_cases h : n ≤ x.length / 16 + 1
  · exact xorBytes_stream_mono hE x icb n _ hn h
  · exact (xorBytes_stream_mono hE x icb _ n (by omega) (by omega)).symm

theorem gctr_length {E : Bytes → Bytes} (hE : ∀ b, (E b).length = 16) (icb : Nat) (x : Bytes) :
    (gctr E icb x).length = x.length := by
  rw [gctr_eq_xor hE icb x (x.length / 16 + 1) (by omega), xorBytes_length, stream_length hE]
  omega

/-- GCTR with the same initial counter block is an involution -/
theorem gctr_gctr {E : Bytes → Bytes} (hE : ∀ b, (E b).length = 16) (icb : Nat) (x : Bytes) :
    gctr E icb (gctr E icb x) = x := by
  have hl := gctr_length hE icb x
  rw [gctr_eq_xor hE icb (gctr E icb x) (x.length / 16 + 1) (by omega),
    gctr_eq_xor hE icb x (x.length / 16 + 1) (by omega)]
  apply xorBytes_cancel
  rw [stream_length hE]; omega

/-! ### the tag and the decision rule of Algorithm 5 -/

theorem natToBlock_length (n : Nat) : (natToBlock n).length = 16 := by
  simp [natToBlock, Bytes.ofNatBE]

theorem tagOf_eq {E : Bytes → Bytes} (hE : ∀ b, (E b).length = 16) (h j : Nat) (aad c : Bytes) (t : Nat) :
    tagOf E h j aad c t
      = (xorBytes (natToBlock (ghash h (pad16 aad ++ pad16 c ++ be64 (8 * aad.length) ++ be64 (8 * c.length))))
          (E (natToBlock j))).take t := by
  unfold tagOf
  simp only
  rw [gctr_eq_xor hE j _ 1 (by simp [natToBlock_length])]
  simp [stream]

theorem tagOf_length {E : Bytes → Bytes} (hE : ∀ b, (E b).length = 16) (h j : Nat) (aad c : Bytes) {t : Nat}
    (ht : t ≤ 16) : (tagOf E h j aad c t).length = t := by
  rw [tagOf_eq hE, List.length_take, xorBytes_length, natToBlock_length, hE]; omega

theorem sealGCM_length {E : Bytes → Bytes} (hE : ∀ b, (E b).length = 16) {t : Nat} (ht : t ≤ 16)
    (iv pt aad : Bytes) : (sealGCM E t iv pt aad).length = pt.length + t := by
  simp only [sealGCM, List.length_append, gctr_length hE, tagOf_length hE _ _ _ _ ht]

/-- ciphertexts shorter than the tag are rejected -/
theorem openGCM_short (E : Bytes → Bytes) (t : Nat) (iv ct aad : Bytes) (h : ct.length < t) :
    openGCM E t iv ct aad = none := by
  simp [openGCM, h]

/-- the exact decision rule of Algorithm 5: plaintext is returned iff the input is at least one tag
    long and the tag recomputed over (aad, ciphertext part) equals the supplied one; the plaintext is then
    GCTR of the ciphertext part -/
theorem openGCM_eq_some_iff (E : Bytes → Bytes) (t : Nat) (iv ct aad p : Bytes) :
    openGCM E t iv ct aad = some p ↔
      t ≤ ct.length ∧
      tagOf E (blockToNat (E (List.replicate 16 0))) (j0 (blockToNat (E (List.replicate 16 0))) iv) aad
          (ct.take (ct.length - t)) t = ct.drop (ct.length - t) ∧
      p = gctr E (inc32 (j0 (blockToNat (E (List.replicate 16 0))) iv)) (ct.take (ct.length - t)) := by
  unfold openGCM
  dsimp only
  by_cases h : ct.length < t
  · rw [if_pos h]
    constructor
    · intro h'; cases h'
    · intro h'; omega
  · rw [if_neg h]
    split
    · rename_i h2
      constructor
      · intro h'; cases h'; exact ⟨by omega, h2, rfl⟩
      · intro h'; rw [h'.2.2]
    · rename_i h2
      constructor
      · intro h'; cases h'
      · intro h'; exact absurd h'.2.1 h2

theorem openGCM_eq_none_iff (E : Bytes → Bytes) (t : Nat) (iv ct aad : Bytes) :
    openGCM E t iv ct aad = none ↔
      ct.length < t ∨
      tagOf E (blockToNat (E (List.replicate 16 0))) (j0 (blockToNat (E (List.replicate 16 0))) iv) aad
          (ct.take (ct.length - t)) t ≠ ct.drop (ct.length - t) := by
  unfold openGCM
  dsimp only
  by_cases h : ct.length < t
  · rw [if_pos h]; simp [h]
  · rw [if_neg h]
    split
    · rename_i h2
      constructor
      · intro h'; cases h'
      · intro h'; rcases h' with h' | h'
        · exact absurd h' h
        · exact absurd h2 h'
    · rename_i h2
      exact ⟨fun _ => Or.inr h2, fun _ => rfl⟩

/-- a ciphertext part followed by a `t`-byte string that is not the tag of (aad, ciphertext part) is rejected -/
theorem openGCM_wrong_tag (E : Bytes → Bytes) (t : Nat) (iv c tag aad : Bytes) (hl : tag.length = t)
    (hne : tag ≠ tagOf E (blockToNat (E (List.replicate 16 0))) (j0 (blockToNat (E (List.replicate 16 0))) iv) aad c t) :
    openGCM E t iv (c ++ tag) aad = none := by
  rw [openGCM_eq_none_iff]
  right
  have : (c ++ tag).length - t = c.length := by simp [hl]
  rw [this, List.take_left, List.drop_left]
  exact fun h => hne h.symm

/-- Algorithm 5 undoes Algorithm 4 -/
theorem openGCM_sealGCM {E : Bytes → Bytes} (hE : ∀ b, (E b).length = 16) {t : Nat} (ht : t ≤ 16)
    (iv pt aad : Bytes) : openGCM E t iv (sealGCM E t iv pt aad) aad = some pt := by
  rw [openGCM_eq_some_iff]
  have hlen := sealGCM_length hE ht iv pt aad
  have hc : (sealGCM E t iv pt aad).length - t = pt.length := by omega
  have hcl : (gctr E (inc32 (j0 (blockToNat (E (List.replicate 16 0))) iv)) pt).length = pt.length :=
    gctr_length hE _ _
  refine ⟨by omega, ?_, ?_⟩
  · rw [hc]
    simp only [sealGCM]
    rw [← hcl, List.take_left, List.drop_left]
  · rw [hc]
    simp only [sealGCM]
    rw [← hcl, List.take_left, gctr_gctr hE]

end SMGo.Proofs.GCM
