import SMGo.Proofs.ISAValFusedKern
set_option linter.unusedSimpArgs false
namespace SMGo.Proofs.ISAVal
open SMGo.Model.ISAVal SMGo.Model.GCM SMGo.Proofs.GCM SMGo.Proofs.ISATouch
open SMGo.Model.ISA (Reg Opd Instr)

/-- dword `t` of the concatenation `b : a` (`a` of `n` dwords) -/
theorem lane32_concat (n t a b : Nat) (ha : a < 2 ^ (32 * n)) :
    lane 32 t (b * 2 ^ (32 * n) + a) = if t < n then lane 32 t a else lane 32 (t - n) b := by
  unfold lane
  simp only [Nat.shiftRight_eq_div_pow]
  split
  · rename_i h
    have e : 32 * n = 32 * t + 32 * (n - t) := by omega
    rw [e, Nat.pow_add, ← Nat.mul_assoc, Nat.mul_comm b, Nat.mul_assoc, Nat.mul_add_div (Nat.pow_pos (by decide))]
    have : 2 ^ (32 * (n - t)) = 2 ^ 32 * 2 ^ (32 * (n - t - 1)) := by
      rw [← Nat.pow_add]; congr 1; omega
    rw [this, Nat.mul_comm (2 ^ 32), ← Nat.mul_assoc, Nat.add_comm, Nat.add_mul_mod_self_right]
  · rename_i h
    have e : 32 * t = 32 * n + 32 * (t - n) := by omega
    rw [e, Nat.pow_add, ← Nat.div_div_eq_div_mul, Nat.add_comm, Nat.add_mul_div_right _ _ (Nat.pow_pos (by decide)),
      Nat.div_eq_of_lt ha, Nat.zero_add]

/-- dword `j` of VALIGND $i a b on `vl` bytes -/
theorem lane32_valignd (vl i a b j : Nat) (hj : j < vl / 4) (hvl : vl % 4 = 0) :
    lane 32 j (((b * 2 ^ (8 * vl) + a % 2 ^ (8 * vl)) >>> (32 * i)) % 2 ^ (8 * vl))
      = if j + i < vl / 4 then lane 32 (j + i) a else lane 32 (j + i - vl / 4) b := by
  rw [lane_mod 32 j (8 * vl) _ (by omega), lane_shift, show 32 * i + 32 * j = 32 * (j + i) from by omega]
  have e : 8 * vl = 32 * (vl / 4) := by omega
  have := lane32_concat (vl / 4) (j + i) (a % 2 ^ (8 * vl)) b (by rw [← e]; exact Nat.mod_lt _ (Nat.pow_pos (by decide)))
  rw [← e] at this
  unfold lane at this ⊢
  rw [this]
  split
  · rename_i h
    have := lane_mod 32 (j + i) (8 * vl) a (by omega)
    unfold lane at this
    exact this
  · rfl

theorem lane32_vpaddd (n j a b : Nat) (hj : j < n) : lane 32 j (map2 32 n (fun x y => (y + x) % 2 ^ 32) a b) = (lane 32 j b + lane 32 j a) % 2 ^ 32 :=
  lane_map2 32 n j a b _ hj (fun _ _ _ _ => Nat.mod_lt _ (by decide))

theorem lane32_mod128 (x j : Nat) : lane 32 j (x % 2 ^ (8 * 16)) = if j < 4 then lane 32 j x else 0 := by
  split
  · exact lane_mod 32 j (8 * 16) x (by omega)
  · rename_i h
    unfold lane
    rw [Nat.shiftRight_eq_div_pow, Nat.div_eq_of_lt, Nat.zero_mod]
    exact Nat.lt_of_lt_of_le (Nat.mod_lt _ (by decide)) (Nat.pow_le_pow_right (by decide) (by omega))


theorem lane32_hi_zero (n x j : Nat) (hx : x < 2 ^ (32 * n)) (hj : n ≤ j) : lane 32 j x = 0 := by
  unfold lane
  rw [Nat.shiftRight_eq_div_pow, Nat.div_eq_of_lt, Nat.zero_mod]
  exact Nat.lt_of_lt_of_le hx (Nat.pow_le_pow_right (by decide) (by omega))

theorem vpaddd_lt (n a b : Nat) : map2 32 n (fun x y => (y + x) % 2 ^ 32) a b < 2 ^ (32 * n) :=
  map2_lt 32 n _ a b (fun _ _ _ _ => Nat.mod_lt _ (by decide))

/-- `concatenateX(J, J, J, J)`: the 128-bit value `J` in all four lanes of a Z register -/
def bcast4 (J : Nat) : Nat :=
  let v1 := ((J * 2 ^ (8 * 32) + J % 2 ^ (8 * 32)) >>> (32 * (imm64 4 % 256 % (32 / 4)))) % 2 ^ (8 * 32)
  let v0 := map2 32 (32 / 4) (fun x y => (y + x) % 2 ^ 32) J v1
  let v2 := ((v0 * 2 ^ (8 * 64) + v0 % 2 ^ (8 * 64)) >>> (32 * (imm64 8 % 256 % (64 / 4)))) % 2 ^ (8 * 64)
  map2 32 (64 / 4) (fun x y => (y + x) % 2 ^ 32) v0 v2

theorem imm4_8 : imm64 4 % 256 % (32 / 4) = 4 := by decide +kernel
theorem imm8_16 : imm64 8 % 256 % (64 / 4) = 8 := by decide +kernel

theorem bcast4_lanes (J : Nat) (hJ : J < 2 ^ 128) : ∀ j, j < 16 → lane 32 j (bcast4 J) = lane 32 (j % 4) J := by
  intro j hj
  have hJ0 : ∀ t, 4 ≤ t → lane 32 t J = 0 := fun t ht => lane32_hi_zero 4 J t hJ ht
  unfold bcast4
  simp only [imm4_8, imm8_16]
  -- dwords of v1 and v0
  have d1 : ∀ t, t < 8 → lane 32 t (((J * 2 ^ (8 * 32) + J % 2 ^ (8 * 32)) >>> (32 * 4)) % 2 ^ (8 * 32))
      = if t < 4 then 0 else lane 32 (t - 4) J := by
    intro t ht
    rw [lane32_valignd 32 4 J J t (by omega) (by decide)]
    by_cases h4 : t < 4
    · rw [if_pos (by omega), if_pos h4, hJ0 _ (by omega)]
    · rw [if_neg (by omega), if_neg h4]; congr 1
  have d0 : ∀ t, lane 32 t (map2 32 (32 / 4) (fun x y => (y + x) % 2 ^ 32) J
      (((J * 2 ^ (8 * 32) + J % 2 ^ (8 * 32)) >>> (32 * 4)) % 2 ^ (8 * 32))) = if t < 8 then lane 32 (t % 4) J else 0 := by
    intro t
    by_cases h8 : t < 8
    · rw [if_pos h8, lane32_vpaddd (32 / 4) t _ _ (by omega), d1 t h8]
      by_cases h4 : t < 4
      · rw [if_pos h4, Nat.zero_add, Nat.mod_eq_of_lt (lane_lt 32 t J), Nat.mod_eq_of_lt h4]
      · rw [if_neg h4, hJ0 t (by omega), Nat.add_zero, Nat.mod_eq_of_lt (lane_lt 32 _ J)]
        congr 1; omega
    · rw [if_neg h8]; exact lane32_hi_zero 8 _ t (vpaddd_lt 8 _ _) (by omega)
  rw [lane32_vpaddd (64 / 4) j _ _ (by omega), lane32_valignd 64 8 _ _ j (by omega) (by decide), d0 j]
  by_cases h8 : j < 8
  · rw [if_pos h8, if_pos (by omega), d0 (j + 8), if_neg (by omega), Nat.zero_add, Nat.mod_eq_of_lt (lane_lt 32 _ J)]
  · rw [if_neg h8, if_neg (by omega), d0 (j + 8 - 64 / 4), if_pos (by omega), Nat.add_zero, Nat.mod_eq_of_lt (lane_lt 32 _ J)]
    congr 1; omega

end SMGo.Proofs.ISAVal
