import SMGo.Proofs.ISAValFusedPhase3
set_option linter.unusedSimpArgs false
namespace SMGo.Proofs.ISAVal
open SMGo.Model.ISAVal SMGo.Model.GCM SMGo.Proofs.GCM SMGo.Proofs.ISATouch
open SMGo.Model.ISA (Reg Opd Instr)

theorem pRegs_one15 : ∀ n, n ∈ pRegs → n ∈ oneKeepV 6 15 := by decide
theorem ghRegs_one15 : ∀ n, n ∈ ghRegs → n ∈ oneKeepV 6 15 := by decide

/-- **phase 4: the tag mask E(J0)** -/
theorem phaseT (r : Routine) (ps : PrefixSlices r) (s3 : State) (rk : List Nat) (np tp ap : Nat) (nonce aad : List Nat)
    (pc : PCtx s3) (e : FEnv s3 rk np tp ap nonce aad) (h : Nat) (gc : GhCtx h s3) (g15 : greg s3 15 = 73014444032)
    (hrk : rk.length = 32) (hrkb : ∀ x ∈ rk, x < 2 ^ 32) (jb : List Nat) (hjb : jb.length = 16) (hjbb : ∀ x ∈ jb, x < 2 ^ 8)
    (v6 : vreg s3 6 = unlanes 8 jb) :
    ∃ s4, Reach r 823 s3 1353 s4 530 ∧ PCtx s4 ∧ FEnv s4 rk np tp ap nonce aad ∧ GhCtx h s4 ∧ greg s4 15 = 73014444032 ∧
      vreg s4 15 = unlanes 8 (encB rk jb) ∧ vreg s4 14 = vreg s3 14 ∧ greg s4 6 = greg s3 6 ∧ (s4.mem = s3.mem ∧ s4.frame = s3.frame) := by
  obtain ⟨s4, hr, v15, g, kp⟩ := sm4One_spec 6 15 (Or.inr (Or.inl ⟨rfl, rfl⟩)) s3 pc.lenG pc.lenV pc.v10 pc.v11 pc.v12 jb hjb hjbb v6
    rk hrk hrkb 73014444032 g15 (by decide) e.rkR
  have rr : Reach r 823 s3 1353 s4 530 := by
    have := reach_seg ps.tEnc (one_nc 6 15) hr
    rw [len_one] at this; exact this
  exact ⟨s4, rr, pc.of_keeps kp pRegs_one15, e.of_keeps kp, gc.of_keeps kp ghRegs_one15, g, v15, kp.v 14 (by decide), kp.g 6 (by decide), ⟨kp.mem, kp.frame⟩⟩

def sPreHeadCode : List DInstr :=
  [ins .VPXORD [R 21, R 21, R 21] 16, ins .MOVQ [G 7, G 12] 0, ins .MOVQ [G 7, G 11] 0, ins .ANDQ [.imm 15, G 11] 0,
   ins .SHRQ [.imm 4, G 12] 0, ins .CMPQ [G 7, .imm 16] 0]

theorem sPre_head : (sPreCode.drop 0).take sPreHeadCode.length = sPreHeadCode := by decide +kernel
theorem sPre_jlt : (sPreCode.drop 6).take 1 = [jcc .JLT 8544] := by decide +kernel
theorem sPre_loops : (sPreCode.drop 7).take (ghLoopsCode 8 12 21 8143 8363 8544).length = ghLoopsCode 8 12 21 8143 8363 8544 := by
  decide +kernel
theorem sPre_cmp0 : (sPreCode.drop 75).take 1 = [ins .CMPQ [G 11, .imm 0] 0] := by decide +kernel
theorem sPre_jeq : (sPreCode.drop 76).take 1 = [jcc .JEQ 8856] := by decide +kernel
theorem sPre_nop : (sPreCode.drop 143).take 1 = [ins .NOP [] 0] := by decide +kernel
theorem ghLoops_len (p cnt Acc p4 p1 pe : Nat) : (ghLoopsCode p cnt Acc p4 p1 pe).length = 68 := by
  rw [ghLoops_eq]
  simp only [List.length_append, List.length_cons, List.length_nil, body4_len, body1_len]

theorem kAArgs : writesNone aadArgsCode ((List.range 16).filter (fun n => !([8, 7].contains n))) (List.range 32) (List.range 8) = true := by
  decide +kernel
theorem kSPreHead : writesNone sPreHeadCode ((List.range 16).filter (fun n => !([12, 11].contains n)))
    ((List.range 32).filter (fun n => !([21].contains n))) (List.range 8) = true := by decide +kernel


theorem pRegs_body21 : ∀ n, n ∈ pRegs → n ∈ bodyKeepV 21 := by decide
theorem ghRegs_all : ∀ n, n ∈ ghRegs → n ∈ List.range 32 := by decide
theorem pRegs_all : ∀ n, n ∈ pRegs → n ∈ List.range 32 := by decide

/-- labels of `CalculateSPre` -/
structure SPreLabels (r : Routine) : Prop where
  l4 : findPc r 8143 = some (r.drop 1364)
  l1 : findPc r 8363 = some (r.drop 1400)
  lRem : findPc r 8544 = some (r.drop 1430)
  lEnd : findPc r 8856 = some (r.drop 1498)

set_option maxRecDepth 100000 in
set_option maxHeartbeats 1000000 in
/-- **phase 5 when the additional data is a whole number of blocks: GHASH of the additional data** -/
theorem phaseA_whole (r : Routine) (ps : PrefixSlices r) (lb : SPreLabels r) (s4 : State) (rk : List Nat) (np tp ap : Nat)
    (nonce aad : List Nat) (pc : PCtx s4) (e : FEnv s4 rk np tp ap nonce aad) (h : Nat) (gc : GhCtx h s4)
    (hal : aad.length % 16 = 0) (hab : ∀ x ∈ aad, x < 2 ^ 8) (hap : ap + aad.length < 2 ^ 63) :
    ∃ s5 N, N ≤ 34 * (aad.length / 16) + 16 ∧ Reach r 1353 s4 1499 s5 N ∧ PCtx s5 ∧ FEnv s5 rk np tp ap nonce aad ∧ GhCtx h s5 ∧
      vreg s5 21 = (if aad.length < 16 then 0 else ghAllN h (aad.length / 16) 0 aad) ∧ vreg s5 21 < 2 ^ 128 ∧
      Keeps ((List.range 16).filter (fun n => !([7, 8, 11, 12].contains n))) (bodyKeepV 21) (List.range 8) s4 s5 := by
  have hG := pc.lenG
  -- the two arguments
  let sa1 := setGreg s4 8 ap
  let sa2 := setGreg sa1 7 aad.length
  have hxa : execList aadArgsCode s4 = .ok sa2 := by
    apply exec_step (a_movq_frame s4 "aData" 80 8 _ e.fAData (by rw [hG]; decide))
    apply exec_step (a_movq_frame sa1 "aLen" 88 7 _ e.fALen (by simp [sa1, hG]))
    rfl
  have ka := keeps_of_exec _ kAArgs hxa
  have ra : Reach r 1353 s4 1355 sa2 2 := reach_seg ps.aArgs (by rfl) hxa
  have pa := pc.of_keeps ka pRegs_all
  have g8 : greg sa2 8 = ap := by
    show greg (setGreg sa1 7 _) 8 = _
    rw [greg_setGreg_ne _ _ _ _ (by decide)]; exact greg_setGreg_eq s4 8 _ (by rw [hG]; decide)
  have g7 : greg sa2 7 = aad.length := greg_setGreg_eq sa1 7 _ (by simp [sa1, hG])
  -- VxTag := 0, block count and remainder, CMPQ aLen, $16
  obtain ⟨f1, hf1⟩ := alu_and15 aad.length (setGreg (setGreg (setVreg sa2 21 (map2 32 (16 / 4) (fun a b => b ^^^ a) (vreg sa2 21) (vreg sa2 21))) 12 (greg sa2 7)) 11 (greg sa2 7)).flags
  let sb1 := setVreg sa2 21 (map2 32 (16 / 4) (fun a b => b ^^^ a) (vreg sa2 21) (vreg sa2 21))
  let sb2 := setGreg sb1 12 (greg sa2 7)
  let sb3 := setGreg sb2 11 (greg sa2 7)
  let sb4 := setFlags (setGreg sb3 11 (aad.length % 16)) f1
  obtain ⟨f2, hf2⟩ := alu_shr4 aad.length sb4.flags
  let sb5 := setFlags (setGreg sb4 12 (aad.length / 16)) f2
  let sb6 := setFlags sb5 (subF 8 aad.length 16).2
  have hxb : execList sPreHeadCode sa2 = .ok sb6 := by
    apply exec_step (a_vec3 sa2 .VPXORD 16 21 21 21 _ 32 rfl rfl (by rw [pa.lenV]; decide) (by rw [pa.lenV]; decide)
      (by rw [pa.lenV]; decide) rfl)
    apply exec_step (s1 := sb2) (a_movq_rr sb1 7 12 (by simp [sb1, pa.lenG]) (by simp [sb1, pa.lenG]))
    apply exec_step (s1 := sb3) (by
      have := a_movq_rr sb2 7 11 (by simp [sb1, sb2, pa.lenG]) (by simp [sb1, sb2, pa.lenG])
      rw [show greg sb2 7 = greg sa2 7 from by
        show greg (setGreg (setVreg sa2 21 _) 12 _) 7 = _
        rw [greg_setGreg_ne _ _ _ _ (by decide), greg_setVreg]] at this
      exact this)
    apply exec_step (s1 := sb4) (a_alu_imm sb3 .ANDQ 15 11 _ f1 (by simp) (by simp [sb1, sb2, sb3, pa.lenG]) (by
      rw [show greg sb3 11 = aad.length from by
        show greg (setGreg sb2 11 _) 11 = _
        rw [greg_setGreg_eq sb2 11 _ (by simp [sb1, sb2, pa.lenG])]; exact g7]
      exact hf1))
    apply exec_step (s1 := sb5) (a_alu_imm sb4 .SHRQ 4 12 _ f2 (by simp) (by simp [sb1, sb2, sb3, sb4, pa.lenG]) (by
      rw [show greg sb4 12 = aad.length from by
        show greg (setFlags (setGreg (setGreg (setGreg sb1 12 _) 11 _) 11 _) _) 12 = _
        rw [greg_setFlags, greg_setGreg_ne _ _ _ _ (by decide), greg_setGreg_ne _ _ _ _ (by decide),
          greg_setGreg_eq sb1 12 _ (by simp [sb1, pa.lenG])]; exact g7]
      exact hf2))
    apply exec_step (s1 := sb6) (by
      have := a_cmpq_imm sb5 16 7 (by simp [sb1, sb2, sb3, sb4, sb5, pa.lenG])
      rw [show greg sb5 7 = aad.length from by
        show greg (setFlags (setGreg (setFlags (setGreg (setGreg (setGreg (setVreg sa2 21 _) 12 _) 11 _) 11 _) _) 12 _) _) 7 = _
        rw [greg_setFlags, greg_setGreg_ne _ _ _ _ (by decide), greg_setFlags, greg_setGreg_ne _ _ _ _ (by decide),
          greg_setGreg_ne _ _ _ _ (by decide), greg_setGreg_ne _ _ _ _ (by decide), greg_setVreg]; exact g7,
        show imm64 16 = 16 from by decide +kernel] at this
      exact this)
    rfl
  have kb := keeps_of_exec _ kSPreHead hxb
  have rb : Reach r 1355 sa2 1361 sb6 6 := reach_seg (ps.sPre.sub 0 sPreHeadCode sPre_head (by rw [len_sPre]; decide)) (by rfl) hxb
  have pb := pa.of_keeps kb (by decide)
  have eb := (e.of_keeps ka).of_keeps kb
  have gb := (gc.of_keeps ka ghRegs_all).of_keeps kb (by decide)
  have b21 : vreg sb6 21 = 0 := by
    show vreg (setFlags (setFlags (setGreg (setFlags (setGreg (setGreg (setGreg sb1 12 _) 11 _) 11 _) _) 12 _) _) _) 21 = _
    rw [vreg_setFlags, vreg_setFlags, vreg_setGreg, vreg_setFlags, vreg_setGreg, vreg_setGreg, vreg_setGreg,
      vreg_setVreg_eq sa2 21 _ (by rw [pa.lenV]; decide)]
    exact zero_xor 16 _
  have b8 : greg sb6 8 = ap := by rw [kb.g 8 (by decide)]; exact g8
  have b12 : greg sb6 12 = aad.length / 16 := by
    show greg (setFlags (setFlags (setGreg sb4 12 _) _) _) 12 = _
    rw [greg_setFlags, greg_setFlags, greg_setGreg_eq sb4 12 _ (by simp [sb1, sb2, sb3, sb4, pa.lenG])]
  have b11 : greg sb6 11 = aad.length % 16 := by
    show greg (setFlags (setFlags (setGreg (setFlags (setGreg sb3 11 _) _) 12 _) _) _) 11 = _
    rw [greg_setFlags, greg_setFlags, greg_setGreg_ne _ _ _ _ (by decide), greg_setFlags,
      greg_setGreg_eq sb3 11 _ (by simp [sb1, sb2, sb3, pa.lenG])]
  -- JL withRemain
  have hcnd : Model.ISAVal.cond .JLT sb6.flags = .ok (decide (aad.length < 16)) := cond_jlt aad.length 16 (by omega) (by decide)
  have rj := reach_jcc (r := r) (k := 1361) (idx := 1430) (ps.sPre.sub 6 [jcc .JLT 8544] sPre_jlt (by rw [len_sPre]; decide)) rfl lb.lRem hcnd
  -- the tail: CMPQ remain, $0; JE endSPre; NOP
  have tail : ∀ (t : State), PCtx t → greg t 11 = 0 →
      Reach r 1430 t 1499 (setFlags t (subF 8 0 0).2) 3 := by
    intro t pt t11
    have hx1 : execList [ins .CMPQ [G 11, .imm 0] 0] t = .ok (setFlags t (subF 8 0 0).2) := by
      apply exec_step (s1 := setFlags t (subF 8 0 0).2)
      · have := a_cmpq_imm t 0 11 (by rw [pt.lenG]; decide)
        rw [t11, imm64_0] at this; exact this
      rfl
    have r1 : Reach r 1430 t 1431 (setFlags t (subF 8 0 0).2) 1 :=
      reach_seg (ps.sPre.sub 75 [ins .CMPQ [G 11, .imm 0] 0] sPre_cmp0 (by rw [len_sPre]; decide)) (by rfl) hx1
    have hc2 : Model.ISAVal.cond .JEQ (setFlags t (subF 8 0 0).2).flags = .ok (decide (0 = 0)) := cond_jeq 0 0 (by decide) (by decide)
    have r2 := reach_jcc (r := r) (k := 1431) (idx := 1498) (ps.sPre.sub 76 [jcc .JEQ 8856] sPre_jeq (by rw [len_sPre]; decide)) rfl lb.lEnd hc2
    simp only [decide_true, if_true] at r2
    have r3 : Reach r 1498 (setFlags t (subF 8 0 0).2) 1499 (setFlags t (subF 8 0 0).2) 1 :=
      reach_seg (ps.sPre.sub 143 [ins .NOP [] 0] sPre_nop (by rw [len_sPre]; decide)) (by rfl) (by rfl)
    exact ((r1.trans r2).trans r3).cast rfl rfl
  have kF : ∀ t : State, Keeps ((List.range 16).filter (fun n => !([7, 8, 11, 12].contains n))) (bodyKeepV 21) (List.range 8) t
      (setFlags t (subF 8 0 0).2) := fun t => ⟨rfl, rfl, rfl, fun _ _ => rfl, fun _ _ => rfl, fun _ _ => rfl, rfl, rfl, rfl⟩
  have kab : Keeps ((List.range 16).filter (fun n => !([7, 8, 11, 12].contains n))) (bodyKeepV 21) (List.range 8) s4 sb6 :=
    (ka.mono (by decide) (by decide) (fun _ h => h)).trans (kb.mono (by decide) (by decide) (fun _ h => h))
  by_cases hlt : aad.length < 16
  · -- no whole block
    simp only [hlt, decide_true, if_true] at rj
    have h0 : aad.length = 0 := by omega
    have r3 := tail sb6 pb (by rw [b11, h0])
    refine ⟨_, 2 + 6 + 1 + 3, by omega, (((ra.trans rb).trans rj).trans r3).cast rfl rfl, pb.of_keeps (kF sb6) pRegs_body21,
      eb.of_keeps (kF sb6), gb.of_keeps (kF sb6) (by decide), ?_, ?_, kab.trans (kF sb6)⟩
    · rw [vreg_setFlags, b21, if_pos hlt]
    · rw [vreg_setFlags, b21]; decide
  · -- whole blocks
    simp only [hlt, decide_false, Bool.false_eq_true, if_false] at rj
    obtain ⟨sc, N, hN, rc, gcc, v21, lt21, _, kc⟩ := ghLoops_reach r 1362 8 12 21 8143 8363 8544 (Or.inr (Or.inl ⟨rfl, rfl, rfl⟩))
      ((ps.sPre.sub 7 _ sPre_loops (by rw [len_sPre, ghLoops_len]; decide)).cast rfl rfl) lb.l4 lb.l1 lb.lRem h (aad.length / 16) sb6 ap 0 aad gb
      b8 b12 b21 (by decide) (by omega) (by omega) (by omega) (by omega) hab eb.dAad
    have pcc := pb.of_keeps kc pRegs_body21
    have r3 := tail sc pcc (by rw [kc.g 11 (by decide), b11]; omega)
    refine ⟨_, 2 + 6 + 1 + N + 3, by omega, ((((ra.trans rb).trans rj).trans rc).trans r3).cast rfl rfl, pcc.of_keeps (kF sc) pRegs_body21,
      (eb.of_keeps kc).of_keeps (kF sc), gcc.of_keeps (kF sc) (by decide), ?_, ?_,
      (kab.trans (kc.mono (by decide) (fun _ h => h) (fun _ h => h))).trans (kF sc)⟩
    · rw [vreg_setFlags, v21, if_neg hlt]
    · rw [vreg_setFlags]; exact lt21

end SMGo.Proofs.ISAVal
