import SMGo.Proofs.ISAValLadHash
set_option linter.unusedSimpArgs false
namespace SMGo.Proofs.ISAVal
open SMGo.Model.ISAVal SMGo.Model.GCM SMGo.Proofs.GCM SMGo.Proofs.ISATouch
open SMGo.Model.ISA (Reg Opd Instr)

theorem vpxord_bytes (vl : Nat) (blk ks : List Nat) (x : Nat) (hvl : vl % 4 = 0) (hblk : blk.length = vl) (hbb : ∀ b ∈ blk, b < 2 ^ 8)
    (hx : x < 2 ^ (8 * vl)) (hks : lanes 8 vl x = ks) :
    map2 32 (vl / 4) (fun p q => q ^^^ p) x (unlanes 8 blk) = unlanes 8 (xorN blk ks) ∧
    map2 32 (vl / 4) (fun p q => q ^^^ p) (unlanes 8 blk) x = unlanes 8 (xorN blk ks) := by
  have hU : unlanes 8 blk < 2 ^ (8 * vl) := by have := unlanes_lt 8 blk hbb; rw [hblk] at this; exact this
  have e : 32 * (vl / 4) = 8 * vl := by omega
  have key : unlanes 8 blk ^^^ x = unlanes 8 (xorN blk ks) := by
    have hlt : unlanes 8 blk ^^^ x < 2 ^ (8 * vl) := Nat.xor_lt_two_pow hU hx
    rw [← Nat.mod_eq_of_lt hlt, ← unlanes_lanes 8 vl, lanes8_xor, lanes_unlanes 8 vl blk hbb hblk, hks]
  refine ⟨?_, ?_⟩
  · rw [vpxord_whole, e, key, ← key]; exact Nat.mod_eq_of_lt (Nat.xor_lt_two_pow hU hx)
  · rw [vpxord_whole, e, Nat.xor_comm, key, ← key]; exact Nat.mod_eq_of_lt (Nat.xor_lt_two_pow hU hx)

theorem lanes_xorN (vl : Nat) (blk ks : List Nat) (hblk : blk.length = vl) (hks : ks.length = vl) (hbb : ∀ b ∈ blk, b < 2 ^ 8)
    (hkb : ∀ b ∈ ks, b < 2 ^ 8) : lanes 8 vl (unlanes 8 (xorN blk ks)) = xorN blk ks :=
  lanes_unlanes 8 vl _ (xorN_bytes _ _ hbb hkb) (by rw [xorN_length, hblk, hks]; exact Nat.min_self vl)

theorem ea_nat (a d : Nat) (h : a + d < 2 ^ 64) : (a + 0 + imm64 (d : Int)) % 2 ^ 64 = a + d := by
  rw [imm64_natCast d (by omega), Nat.add_zero]; exact Nat.mod_eq_of_lt h

end SMGo.Proofs.ISAVal
