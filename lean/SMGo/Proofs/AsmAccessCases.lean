/-
  C11 (memory safety, PARTIAL): the finite case lists of the bounded tie between the GENERATED listings and
  the hand-written access models, and the Boolean checks evaluated by `decide +kernel` in
  `SMGo.Proofs.AsmAccessTie*`.

  A check = run the address interpreter on the resolved listing with the frame valuation of the case, and
  compare its access list with the model's, element by element (same order, same multiplicities).

  EVALUATED RANGES (this is a bounded computational check; the unbounded statement is
  `SMGo.Proofs.AsmAccessBounds`, about the model):
    sealAsm   plaintext 0..303 (tag 16, nonce 12, aad 0)            — every kernel class 256/128/64/32/16/tail
              aad 0..161 (plaintext 33, tag 16, nonce 12)            — GHASH by 1, by 4 (≥ 8 blocks), partial block
              nonce 0..40 and 127,128,129,143,144,200 (plaintext 17, aad 5, tag 12) — J0 both branches, by 4
              tags 12..16 × plaintext {0,1,15,16,17,47,300} × aad {0,7}
              plaintext {511,512,513,767,768,1023,1024,1025,1100} (aad 129, tag 13) and
              aad {191,192,193,255,256,257} (plaintext 5, tag 13)    — two and more X16 iterations, long GHASH
    openAsm   the same lists with ciphertext = plaintext length + tag, tag comparison succeeding;
              plaintext 0..303 (tag 13, aad 3) with the comparison failing; the tag and long lists with both outcomes
    gHashBlocks count 0..40; copyAsm len 0..100; constantTimeCompareAsm l 0..40; the fixed-size routines once.
-/
import SMGo.Proofs.AsmAccessProgs

namespace SMGo.Proofs.AsmAccessCases
open SMGo.Model.AsmAccess SMGo.Model.AsmAccessModel SMGo.Proofs.AsmAccessProgs SMGo.Gen

/-- interpreter fuel (instructions executed per run; the longest run above needs < 3000) -/
def fuel : Nat := 20000

structure GcmCase where
  tag : Nat
  nl : Nat
  len : Nat      -- plaintext length
  al : Nat
  ok : Bool      -- open: outcome of the tag comparison (ignored by seal)
deriving DecidableEq, Repr

def sealCheck (c : GcmCase) : Bool :=
  matchesModel sealProg (sealFrame c.tag c.nl c.len c.al) ListAmd64Gcm.sealAsm_argBytes [] fuel
    (sealModel c.tag c.nl c.len c.al)

/-- the one data-dependent branch of openAsm is `JNE tagUnMatch`: taken iff the tags differ -/
def openCheck (c : GcmCase) : Bool :=
  matchesModel openProg (openFrame c.tag c.nl (c.len + c.tag) c.al) ListAmd64Gcm.openAsm_argBytes [!c.ok] fuel
    (openModel c.tag c.nl (c.len + c.tag) c.al c.ok)

def rangeFrom (a n : Nat) : List Nat := (List.range n).map (· + a)

/-- plaintext lengths 76k .. 76k+75 -/
def plGroup (k : Nat) : List GcmCase := (rangeFrom (76 * k) 76).map (fun pl => ⟨16, 12, pl, 0, true⟩)
/-- plaintext lengths 76k .. 76k+75, tag comparison failing -/
def plBadGroup (k : Nat) : List GcmCase := (rangeFrom (76 * k) 76).map (fun pl => ⟨13, 12, pl, 3, false⟩)
/-- aad lengths 81k .. 81k+80 -/
def aadGroup (k : Nat) : List GcmCase := (rangeFrom (81 * k) 81).map (fun al => ⟨16, 12, 33, al, true⟩)
def nonceGroup : List GcmCase :=
  (List.range 41 ++ [127, 128, 129, 143, 144, 200]).map (fun nl => ⟨12, nl, 17, 5, true⟩)
def tagGroup (ok : Bool) : List GcmCase :=
  (rangeFrom 12 5).flatMap (fun t => [0, 1, 15, 16, 17, 47, 300].flatMap (fun pl => [0, 7].map (fun al =>
    ⟨t, 12, pl, al, ok⟩)))
def bigGroup (ok : Bool) : List GcmCase :=
  [511, 512, 513, 767, 768, 1023, 1024, 1025, 1100].map (fun pl => ⟨13, 12, pl, 129, ok⟩) ++
  [191, 192, 193, 255, 256, 257].map (fun al => ⟨13, 12, 5, al, ok⟩)

def sealCases : List GcmCase :=
  plGroup 0 ++ plGroup 1 ++ plGroup 2 ++ plGroup 3 ++ aadGroup 0 ++ aadGroup 1 ++ nonceGroup ++
  tagGroup true ++ bigGroup true

def openCases : List GcmCase :=
  plGroup 0 ++ plGroup 1 ++ plGroup 2 ++ plGroup 3 ++
  plBadGroup 0 ++ plBadGroup 1 ++ plBadGroup 2 ++ plBadGroup 3 ++
  aadGroup 0 ++ aadGroup 1 ++ nonceGroup ++ tagGroup true ++ tagGroup false ++ bigGroup true ++ bigGroup false

/-! ### The other routines -/

def gHashCheck (count : Nat) : Bool :=
  matchesModel gHashProg (gHashFrame count) ListAmd64Gcm.gHashBlocks_argBytes [] fuel (gHashModel count)
def copyCheck (len : Nat) : Bool :=
  matchesModel copyProg (copyFrame len) ListAmd64Helper.copyAsm_argBytes [] fuel (copyModel len)
def ctCompareCheck (l : Nat) : Bool :=
  matchesModel ctCompareProg (ctCompareFrame l) ListAmd64Helper.constantTimeCompareAsm_argBytes [] fuel
    (ctCompareModel l)

/-- the routines without integer arguments: (program, frame, argBytes, model) -/
def fixedCases : List (Prog × List (Nat × Val) × Nat × List Access) :=
  [(expandKeyProg, kernelFrame, ListAmd64Asm.expandKeyAsm_argBytes, expandKeyModel),
   (blockProg, kernelFrame, ListAmd64Asm.cryptoBlockAsm_argBytes, blockModel),
   (blockX2Prog, kernelFrame, ListAmd64Asm.cryptoBlockAsmX2_argBytes, blockX2Model),
   (blockX4Prog, kernelFrame, ListAmd64Asm.cryptoBlockAsmX4_argBytes, blockX4Model),
   (blockX8Prog, kernelFrame, ListAmd64Asm.cryptoBlockAsmX8_argBytes, blockX8Model),
   (blockX16Prog, kernelFrame, ListAmd64Asm.cryptoBlockAsmX16_argBytes, blockX16Model),
   (needExpandProg, needExpandFrame 3 10 5, ListAmd64Helper.needExpand_argBytes, needExpandModel),
   (needExpandProg, needExpandFrame 3 10 8, ListAmd64Helper.needExpand_argBytes, needExpandModel),
   (transpose4x4Prog, twoPtrFrame, ListAmd64Helper.transpose4x4_argBytes, transposeModel),
   (transpose2x4Prog, twoPtrFrame, ListAmd64Helper.transpose2x4_argBytes, transposeModel),
   (transpose1x4Prog, twoPtrFrame, ListAmd64Helper.transpose1x4_argBytes, transposeModel),
   (concatXProg, concatXFrame, ListAmd64Helper.concatenateX_argBytes, concatXModel),
   (concatYProg, twoPtrFrame, ListAmd64Helper.concatenateY_argBytes, concatYModel)]

def fixedCheck (c : Prog × List (Nat × Val) × Nat × List Access) : Bool :=
  matchesModel c.1 c.2.1 c.2.2.1 [] fuel c.2.2.2

/-! ### From the Boolean checks to statements -/

theorem all_append_of {α : Type} {p : α → Bool} {l m : List α} (hl : l.all p = true) (hm : m.all p = true) :
    (l ++ m).all p = true := by
  rw [List.all_append, hl, hm]; rfl

theorem of_all {α : Type} {p : α → Bool} {l : List α} (h : l.all p = true) : ∀ x ∈ l, p x = true :=
  List.all_eq_true.mp h

end SMGo.Proofs.AsmAccessCases
