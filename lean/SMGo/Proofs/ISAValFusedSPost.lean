import SMGo.Proofs.ISAValFusedLenBlk2
set_option linter.unusedSimpArgs false
namespace SMGo.Proofs.ISAVal
open SMGo.Model.ISAVal SMGo.Model.GCM SMGo.Proofs.GCM SMGo.Proofs.ISATouch
open SMGo.Model.ISA (Reg Opd Instr)

def tagOutCode : List DInstr := [ins .VPXORD [R 21, R 15, R 21] 16, ins .VMOVDQU32 [R 21, M 6 0] 16]

theorem sPost_eq (dst p8 p4 p2 p1 pe : Nat) : sPostCode dst p8 p4 p2 p1 pe =
    lenBlkCode ++ (rbCode 16 20 0 1 ++ ([ins .MOVQ [.imm 1, G 12] 0] ++ (gh1Code 20 21 ++ ([ins .SUBQ [.imm 1, G 12] 0] ++
      (rbCode 16 21 1 2 ++ (tagOutCode ++ copyCode dst 6 14 12 p8 p4 p2 p1 pe)))))) := by
  simp [sPostCode, lenBlkCode, tagOutCode, List.append_assoc]

/-- a family of memories that differ in the destination buffer and in the scratch buffer -/
structure Mem2L (M2 : List Nat → List Nat → List Region) (dbase dlen tp tl : Nat) : Prop where
  bufT : ∀ dc, dc.length = dlen → Buf (fun t => M2 dc t) tp tl
  bufD : ∀ tc, tc.length = tl → Buf (fun d => M2 d tc) dbase dlen
  rdT : ∀ dc tc, dc.length = dlen → tc.length = tl → DataAt (M2 dc tc) tp tc
  sh1 : ∀ dc tc, readMem (M2 dc tc) 64424509440 16 = .ok Gen.AsmData.amd64_Shuffle1
  sh2 : ∀ dc tc, readMem (M2 dc tc) 68719476736 16 = .ok Gen.AsmData.amd64_Shuffle2

/-- the family with the 32-byte scratch buffer of the Go wrappers -/
abbrev Mem2 (M2 : List Nat → List Nat → List Region) (dbase dlen tp : Nat) : Prop := Mem2L M2 dbase dlen tp 32

theorem kLenBlk : writesNone lenBlkCode ((List.range 16).filter (fun n => !([7, 9, 12, 1].contains n)))
    ((List.range 32).filter (fun n => !([0, 1, 2, 3, 20].contains n))) [0, 2, 3, 4, 5, 6, 7] = true := by decide +kernel
theorem kRb20 : writesNone (rbCode 16 20 0 1) (List.range 16) ((List.range 32).filter (fun n => !([0, 1, 20].contains n))) (List.range 8) = true := by
  decide +kernel
theorem kRb21 : writesNone (rbCode 16 21 1 2) (List.range 16) ((List.range 32).filter (fun n => !([1, 2, 21].contains n))) (List.range 8) = true := by
  decide +kernel

theorem DataAt.take {mem : List Region} {p : Nat} {d : List Nat} (h : DataAt mem p d) (n : Nat) : DataAt mem p (d.take n) := by
  intro off m hm
  rw [List.length_take] at hm
  rw [h off m (by omega)]
  congr 1
  apply List.ext_getElem?
  intro i
  simp only [List.getElem?_take, List.getElem?_drop]
  split
  · rw [if_pos (by omega)]
  · rfl

/-- the tag: reflected back, masked -/
def tagN (h y tmask a c : Nat) : Nat :=
  rb128 (gmulR h (y ^^^ rb128 (unlanes 8 (be64N (8 * a) ++ be64N (8 * c))))) ^^^ tmask

def sPostKeepV : List Nat := [10, 11, 12, 14, 15, 16, 17, 18, 19, 22, 23, 24, 25, 26, 29, 30, 31]

def sPostKeepG (dst : Nat) : List Nat := (List.range 16).filter (fun n => !([7, 9, 12, 1, dst, 6, 14].contains n))

set_option maxRecDepth 100000 in
set_option maxHeartbeats 2000000 in
/-- **`CalculateSPost`**: the length block is hashed, the tag reflected back, xored with the mask E(J0), stored in the scratch
    block and its first `tagSize` bytes copied to the tag pointer -/
theorem sPost_reach (r : Routine) (k dst p8 p4 p2 p1 pe : Nat) (hdst : dst = 13 ∨ dst = 0)
    (hs : Slice r k (sPostCode dst p8 p4 p2 p1 pe)) (l8 : findPc r p8 = some (r.drop (k + 47))) (l4 : findPc r p4 = some (r.drop (k + 55)))
    (l2 : findPc r p2 = some (r.drop (k + 63))) (l1 : findPc r p1 = some (r.drop (k + 71))) (le : findPc r pe = some (r.drop (k + 79)))
    (M2 : List Nat → List Nat → List Region) (dbase dlen tp tl : Nat) (htl : 16 ≤ tl) (m2 : Mem2L M2 dbase dlen tp tl)
    (hdb : dbase + dlen < 2 ^ 63) (htp : tp + tl < 2 ^ 63)
    (s : State) (h : Nat) (gc : GhCtx h s) (hsy : s.syms = symTab) (dc tc : List Nat) (hdc : dc.length = dlen) (htc : tc.length = tl)
    (hm : s.mem = M2 dc tc) (a c ts doff y tmask : Nat) (h7 : greg s 7 = a) (h9 : greg s 9 = c) (ha : a < 2 ^ 61) (hc : c < 2 ^ 61)
    (hgd : greg s dst = dbase + doff) (h14 : greg s 14 = ts) (hts : ts ≤ 16) (hdo : doff + ts ≤ dlen) (h6 : greg s 6 = tp)
    (hy : vreg s 21 = y) (hylt : y < 2 ^ 128) (h15 : vreg s 15 = tmask) (htm : tmask < 2 ^ 128) :
    ∃ s' N tc', N ≤ 120 ∧ Reach r k s (k + 80) s' N ∧
      s'.mem = M2 (spliceAt dc doff ((lanes 8 16 (tagN h y tmask a c)).take ts)) tc' ∧ tc'.length = tl ∧
      KeepsM (sPostKeepG dst) sPostKeepV [] s s' ∧ vreg s' 21 < 2 ^ 128 := by
  rw [sPost_eq] at hs
  have sA := hs.left
  have sB : Slice r (k + 12) (rbCode 16 20 0 1) := hs.right.left
  have sC : Slice r (k + 18) [ins .MOVQ [.imm 1, G 12] 0] := hs.right.right.left
  have sD : Slice r (k + 19) (gh1Code 20 21) := hs.right.right.right.left
  have sE : Slice r (k + 38) [ins .SUBQ [.imm 1, G 12] 0] := hs.right.right.right.right.left
  have sF : Slice r (k + 39) (rbCode 16 21 1 2) := hs.right.right.right.right.right.left
  have sG : Slice r (k + 45) tagOutCode := hs.right.right.right.right.right.right.left
  have sH : Slice r (k + 47) (copyCode dst 6 14 12 p8 p4 p2 p1 pe) := hs.right.right.right.right.right.right.right
  -- the length block
  obtain ⟨s1, hx1, v120⟩ := lenBlk_spec s gc.lenG gc.lenV gc.lenK hsy (by rw [hm]; exact m2.sh1 dc tc) (by rw [hm]; exact m2.sh2 dc tc)
    a c h7 h9 ha hc
  have k1 := keeps_of_exec _ kLenBlk hx1
  have r1 : Reach r k s (k + 12) s1 12 := reach_seg sA (by rfl) hx1
  have c1 := gc.of_keeps k1 (by decide)
  -- reflected
  obtain ⟨s2, hx2, _, lt2, ln2⟩ := rb_spec 16 20 0 1 (by decide) (Or.inr ⟨by decide, rfl, rfl⟩) s1 c1.lenV c1.v22 c1.v23 c1.v24
  have k2 := keeps_of_exec _ kRb20 hx2
  have r2 : Reach r (k + 12) s1 (k + 18) s2 6 := reach_seg sB (by rfl) hx2
  have c2 := c1.of_keeps k2 (by decide)
  have hlb : unlanes 8 (be64N (8 * a) ++ be64N (8 * c)) < 2 ^ 128 := by
    have := unlanes_lt 8 (be64N (8 * a) ++ be64N (8 * c)) (by
      intro x hx
      simp only [be64N, List.cons_append, List.nil_append, List.mem_cons, List.not_mem_nil, or_false] at hx
      rcases hx with rfl | rfl | rfl | rfl | rfl | rfl | rfl | rfl | rfl | rfl | rfl | rfl | rfl | rfl | rfl | rfl <;> exact lane_lt _ _ _)
    simpa [be64N] using this
  have v220 : lane 128 0 (vreg s2 20) = rb128 (unlanes 8 (be64N (8 * a) ++ be64N (8 * c))) := by
    rw [ln2 0 (by decide), v120, lane128_0_of_lt _ hlb]
  -- MOVQ $1; the GHASH step; SUBQ $1
  let s3 := setGreg s2 12 (imm64 1)
  have hx3 : execList [ins .MOVQ [.imm 1, G 12] 0] s2 = .ok s3 := by
    apply exec_step (a_movq_imm s2 1 12 (by rw [c2.lenG]; decide)); exact execList_nil _
  have k3 := keeps_of_exec _ kMov12 hx3
  have r3 : Reach r (k + 18) s2 (k + 19) s3 1 := reach_seg sC (by rfl) hx3
  have c3 := c2.of_keeps k3 (by decide)
  have y3 : vreg s3 21 = y := by rw [k3.v 21 (by decide), k2.v 21 (by decide), k1.v 21 (by decide)]; exact hy
  obtain ⟨s4, hx4, lt4, v4⟩ := gh1_spec 20 21 ⟨by decide, Or.inr rfl⟩ s3 c3.lenV h c3.hc y y3 hylt
  have k4 := keeps_of_exec _ (gh1_writes 20 21) hx4
  have r4 : Reach r (k + 19) s3 (k + 38) s4 19 := reach_seg sD (by rfl) hx4
  have c4 := c3.of_keeps k4 (by decide)
  let s5 := setFlags (setGreg s4 12 (subF 8 (greg s4 12) (imm64 1)).1) (subF 8 (greg s4 12) (imm64 1)).2
  have hx5 : execList [ins .SUBQ [.imm 1, G 12] 0] s4 = .ok s5 := by
    apply exec_step (a_subq_imm s4 1 12 (by rw [c4.lenG]; decide)); exact execList_nil _
  have k5 := keeps_of_exec _ kSub12 hx5
  have r5 : Reach r (k + 38) s4 (k + 39) s5 1 := reach_seg sE (by rfl) hx5
  have c5 := c4.of_keeps k5 (by decide)
  have v521 : vreg s5 21 = gmulR h (y ^^^ rb128 (unlanes 8 (be64N (8 * a) ++ be64N (8 * c)))) := by
    rw [k5.v 21 (by decide), v4, show vreg s3 20 = vreg s2 20 from k3.v 20 (by decide), v220]
  -- the tag reflected back
  obtain ⟨s6, hx6, _, lt6, ln6⟩ := rb_spec 16 21 1 2 (by decide) (Or.inl ⟨by decide, rfl, rfl⟩) s5 c5.lenV c5.v22 c5.v23 c5.v24
  have k6 := keeps_of_exec _ kRb21 hx6
  have r6 : Reach r (k + 39) s5 (k + 45) s6 6 := reach_seg sF (by rfl) hx6
  have c6 := c5.of_keeps k6 (by decide)
  have v621 : vreg s6 21 = rb128 (gmulR h (y ^^^ rb128 (unlanes 8 (be64N (8 * a) ++ be64N (8 * c))))) := by
    have := ln6 0 (by decide)
    rw [lane128_0_of_lt _ lt6, v521, lane128_0_of_lt _ (gmulR_lt c5.hc.hlt (Nat.xor_lt_two_pow hylt (rb128_lt _)))] at this
    exact this
  -- xor with the mask, store in the scratch block
  have kAll15 : vreg s6 15 = tmask := by
    rw [k6.v 15 (by decide), k5.v 15 (by decide), k4.v 15 (by decide), k3.v 15 (by decide), k2.v 15 (by decide), k1.v 15 (by decide)]
    exact h15
  have g66 : greg s6 6 = tp := by
    rw [k6.g 6 (by decide), k5.g 6 (by decide), k4.g 6 (by decide), k3.g 6 (by decide), k2.g 6 (by decide), k1.g 6 (by decide)]; exact h6
  have m6 : s6.mem = M2 dc tc := by rw [k6.mem, k5.mem, k4.mem, k3.mem, k2.mem, k1.mem]; exact hm
  let T := tagN h y tmask a c
  have hT : map2 32 (16 / 4) (fun x y => y ^^^ x) (vreg s6 21) (vreg s6 15) = T := by
    rw [vpxord_whole, v621, kAll15, Nat.xor_comm]
    exact Nat.mod_eq_of_lt (Nat.xor_lt_two_pow (rb128_lt _) htm)
  let s7 := setVreg s6 21 T
  have x7 : execD s6 (ins .VPXORD [R 21, R 15, R 21] 16) = .ok s7 :=
    a_vec3 s6 .VPXORD 16 21 15 21 T 32 rfl rfl (by rw [c6.lenV]; decide) (by rw [c6.lenV]; decide) (by rw [c6.lenV]; decide)
      (by show some (map2 32 (16 / 4) (fun x y => y ^^^ x) (vreg s6 21) (vreg s6 15), 32) = _; rw [hT])
  let tc1 := spliceAt tc 0 (lanes 8 16 T)
  let s8 := setMem s7 (M2 dc tc1)
  have x8 : execD s7 (ins .VMOVDQU32 [R 21, M 6 0] 16) = .ok s8 := by
    apply a_vmov_store s7 16 21 6 0 _ rfl (by simp [s7]; rw [c6.lenG]; decide) (by simp [s7]; rw [c6.lenV]; decide)
    rw [show greg s7 6 = tp from g66, ea00 _ (by omega), vreg_setVreg_eq s6 21 T (by rw [c6.lenV]; decide)]
    show writeMem s6.mem _ _ = _
    rw [m6]
    have := (m2.bufT dc hdc).wr tc 0 (lanes 8 16 T) htc (by simp [lanes_length]; omega)
    rw [Nat.add_zero] at this
    exact this
  have hx78 : execList tagOutCode s6 = .ok s8 := by
    apply exec_step x7; apply exec_step x8; exact execList_nil _
  have r7 : Reach r (k + 45) s6 (k + 47) s8 2 := reach_seg sG (by rfl) hx78
  have htc1 : tc1.length = tl := by
    show (spliceAt tc 0 (lanes 8 16 T)).length = tl
    rw [spliceAt_length _ _ _ (by simp [lanes_length, htc]; omega)]; exact htc
  -- copy the tag
  have cr : CopyRegs dst 6 14 12 := by
    rcases hdst with rfl | rfl <;> exact ⟨by decide, by decide, by decide, by decide, by decide, by decide, by decide, by decide, by decide, by decide⟩
  have hG8 : s8.gpr.length = 16 := by show s6.gpr.length = 16; exact c6.lenG
  have g8d : greg s8 dst = dbase + doff := by
    show greg s6 dst = _
    rw [k6.g dst (by rcases hdst with rfl | rfl <;> decide), k5.g dst (by rcases hdst with rfl | rfl <;> decide),
      k4.g dst (by rcases hdst with rfl | rfl <;> decide), k3.g dst (by rcases hdst with rfl | rfl <;> decide),
      k2.g dst (by rcases hdst with rfl | rfl <;> decide), k1.g dst (by rcases hdst with rfl | rfl <;> decide)]
    exact hgd
  have g814 : greg s8 14 = ts := by
    show greg s6 14 = _
    rw [k6.g 14 (by decide), k5.g 14 (by decide), k4.g 14 (by decide), k3.g 14 (by decide), k2.g 14 (by decide), k1.g 14 (by decide)]
    exact h14
  have htk : tc1.take 16 = lanes 8 16 T := by
    show (spliceAt tc 0 (lanes 8 16 T)).take 16 = _
    unfold spliceAt
    rw [List.take_zero, List.nil_append, List.take_append_of_le_length (by simp [lanes_length]),
      List.take_of_length_le (by simp [lanes_length])]
  obtain ⟨s9, N9, hN9, r9, m9, _, _, _, k9⟩ := copy_reach r (k + 47) dst 6 14 12 p8 p4 p2 p1 pe cr sH l8 (by rw [Nat.add_assoc]; exact l4)
    (by rw [Nat.add_assoc]; exact l2) (by rw [Nat.add_assoc]; exact l1) (by rw [Nat.add_assoc]; exact le) (fun d => M2 d tc1) dbase dlen
    (m2.bufD tc1 htc1) (lanes 8 16 T) tp (fun b hb => by rw [← htk]; exact (m2.rdT b tc1 hb htc1).take 16)
    (fun x hx => mem_lanes_lt 8 16 T x hx)
    hdb (by simp [lanes_length]; omega) ts s8 dc 0 doff hG8 hdc rfl g814 (by omega) (by show greg s6 6 = tp + 0; exact g66) g8d
    (by simp [lanes_length]; omega) hdo
  refine ⟨s9, 12 + 6 + 1 + 19 + 1 + 6 + 2 + N9, tc1, by omega,
    (((((((r1.trans r2).trans r3).trans r4).trans r5).trans r6).trans r7).trans (r9.cast (by omega) rfl)).cast rfl rfl, ?_, htc1, ?_, ?_⟩
  rotate_right
  · rw [vreg_of_vec k9.vec 21]
    show vreg (setVreg s6 21 T) 21 < _
    rw [vreg_setVreg_eq s6 21 T (by rw [c6.lenV]; decide)]
    exact Nat.xor_lt_two_pow (rb128_lt _) htm
  · rw [m9, List.drop_zero]
  · have e78 : KeepsM (sPostKeepG dst) sPostKeepV [] s6 s8 :=
      ⟨rfl, by simp [s8, s7], rfl, fun _ _ => rfl,
        fun n hn => vreg_setVreg_ne s6 21 T n (by intro e; subst e; revert hn; decide), fun _ h => (by cases h), rfl, rfl⟩
    have hsub : ∀ n, n ∈ sPostKeepG dst → n ≠ 7 ∧ n ≠ 9 ∧ n ≠ 12 ∧ n ≠ 1 ∧ n ≠ dst ∧ n ≠ 6 ∧ n ≠ 14 ∧ n < 16 := by
      intro n hn
      simp [sPostKeepG] at hn
      exact ⟨hn.2.1, hn.2.2.1, hn.2.2.2.1, hn.2.2.2.2.1, hn.2.2.2.2.2.1, hn.2.2.2.2.2.2.1, hn.2.2.2.2.2.2.2, hn.1⟩
    have mk : ∀ {G V K : List Nat} {x x' : State}, Keeps G V K x x' → (∀ n, n ∈ sPostKeepG dst → n ∈ G) → (∀ n, n ∈ sPostKeepV → n ∈ V) →
        KeepsM (sPostKeepG dst) sPostKeepV [] x x' :=
      fun kk hg hv => kk.toM.mono hg hv (fun _ h => by cases h)
    refine (((((((mk k1 ?_ (by decide)).trans (mk k2 ?_ (by decide))).trans (mk k3 ?_ (by decide))).trans (mk k4 ?_ (by decide))).trans
      (mk k5 ?_ (by decide))).trans (mk k6 ?_ (by decide))).trans e78).trans
      ((k9.toM sPostKeepV []).mono ?_ (fun _ h => h) (fun _ h => h))
    all_goals
      intro n hn
      obtain ⟨a1, a2, a3, a4, a5, a6, a7, a8⟩ := hsub n hn
      first
        | (simp [copyKeepG]; omega)
        | (simp; omega)
        | exact List.mem_range.mpr a8

end SMGo.Proofs.ISAVal
