/-
  Lemmas for property C05, part 3: the key schedule.  `expandKey` updates k0..k3 in place, four round
  keys per loop pass, and writes `dec[31-i] = enc[i]`; the specification slides a window over K_i.
-/
import SMGo.Proofs.SM4Block
namespace SMGo.Proofs.SM4
open SMGo

theorem foldl_congr_mem {σ β : Type} (f g : σ → β → σ) (l : List β) (h : ∀ s, ∀ b ∈ l, f s b = g s b) (s : σ) :
    l.foldl f s = l.foldl g s := by
  induction l generalizing s with
  | nil => rfl
  | cons a l ih =>
    simp only [List.foldl_cons]
    rw [h s a (List.mem_cons_self), ih (fun s b hb => h s b (List.mem_cons_of_mem _ hb))]

/-- one pass of the loop of `expandKey` is four steps of the specification's key schedule -/
theorem expandStep_eq (s : (W32 × W32 × W32 × W32) × List W32) (g : Nat) (hg : g < 8) :
    Model.SM4.expandStep Model.SM4.genTables s g
      = Spec.SM4.keyStep (Spec.SM4.keyStep (Spec.SM4.keyStep (Spec.SM4.keyStep s (4 * g)) (4 * g + 1)) (4 * g + 2))
          (4 * g + 3) := by
  obtain ⟨⟨k0, k1, k2, k3⟩, enc⟩ := s
  have c0 := ck_getD (4 * g) (by omega)
  have c1 := ck_getD (4 * g + 1) (by omega)
  have c2 := ck_getD (4 * g + 2) (by omega)
  have c3 := ck_getD (4 * g + 3) (by omega)
  have hck : Model.SM4.genTables.ck = Gen.SM4Const.ck := rfl
  simp only [Model.SM4.expandStep, Spec.SM4.keyStep, transTPrime_eq, Model.SM4.tbl, hck,
    c0, c1, c2, c3, List.append_assoc, List.cons_append, List.nil_append]

theorem fk_getD : ∀ i, i < 4 →
    Model.SM4.tbl Model.SM4.genTables.fk i = Spec.SM4.FK.getD i 0 := by
  decide

/-- Go's `expandKey` over the generated constants yields rk_0..rk_31 and the same list reversed -/
theorem expandKey_eq (key : Bytes) :
    Model.SM4.expandKey Model.SM4.genTables key
      = (Spec.SM4.keySchedule key, (Spec.SM4.keySchedule key).reverse) := by
  have h : ∀ s, (List.range 8).foldl (Model.SM4.expandStep Model.SM4.genTables) s
      = (List.range 32).foldl Spec.SM4.keyStep s := by
    intro s
    rw [show 32 = 4 * 8 from rfl, foldl_range_mul4]
    apply foldl_congr_mem
    intro s g hg
    exact expandStep_eq s g (List.mem_range.mp hg)
  simp only [Model.SM4.expandKey, Spec.SM4.keySchedule, h, fk_getD 0 (by decide), fk_getD 1 (by decide),
    fk_getD 2 (by decide), fk_getD 3 (by decide)]

theorem foldl_keyStep_length (l : List Nat) (s : (W32 × W32 × W32 × W32) × List W32) :
    (l.foldl Spec.SM4.keyStep s).2.length = s.2.length + l.length := by
  induction l generalizing s with
  | nil => rfl
  | cons i l ih =>
    obtain ⟨⟨k0, k1, k2, k3⟩, rks⟩ := s
    simp only [List.foldl_cons, ih, Spec.SM4.keyStep, List.length_append, List.length_cons, List.length_nil]
    omega

/-- the key schedule yields 32 round keys -/
theorem keySchedule_length (key : Bytes) : (Spec.SM4.keySchedule key).length = 32 := by
  simp only [Spec.SM4.keySchedule, foldl_keyStep_length, List.length_range, List.length_nil]

end SMGo.Proofs.SM4
