/-
  Property C18, SM2 part — summary: every entry of every SM2 base-point table (combs 4-2-32-0,
  5-3-17-1, 6-3-14-4, 7-3-12-4 with their remainder tables; 30+93+189+381 = 693 points of the first
  tables and 1+15+15 = 31 of the remainder tables) is the stated multiple of G in the stated
  representation, and the generated curve parameters are those of the specification.

  * `TablesCheck.lean`   the incremental checkers (one `Spec.SM2.add` per entry), core Lean;
  * `TablesSound.lean`   their soundness from the group laws (`CurveGroup.lean`);
  * `Tables_<scheme>.lean` kernel evaluation (`decide +kernel`) of the checkers on the GENERATED tables;
  * `TablesParams.lean`  `params_eq`, `zBytes_eq`.

  `EntryOK x y m` (TablesSound.lean) says about a stored entry: `x`, `y` have four limbs, all limbs
  `< 2^64`, `limbsToNat x < p`, `limbsToNat y < p` (canonical Montgomery residues), the affine point
  `entryAffine x y = some (limbsToNat x · R⁻¹ mod p, limbsToNat y · R⁻¹ mod p)` is on the curve and equals
  `Spec.SM2.smul m Spec.SM2.G`.
-/
import SMGo.Proofs.TablesSound
import SMGo.Proofs.TablesParams
import SMGo.Proofs.Tables_4_2_32
import SMGo.Proofs.Tables_5_3_17
import SMGo.Proofs.Tables_6_3_14
import SMGo.Proofs.Tables_7_3_12
import SMGo.Model.SM2Inst
namespace SMGo.Proofs.Tables
open SMGo SMGo.Spec.SM2 SMGo.Model.Field SMGo.Proofs.CurveBits SMGo.Gen.SM2Tables
set_option maxRecDepth 100000

/-! ### the representation: `entryAffine` is `fromMontgomery ∘ ofRaw` of the field model -/

theorem pParams_rinv :
    Model.SM2.pParams.rinv = Spec.SM2.invMod (2 ^ 256) Gen.SM2Params.param_P := rfl

theorem pParams_m : Model.SM2.pParams.m = Gen.SM2Params.param_P := rfl

theorem rinv_eq_pParams : rinv = Model.SM2.pParams.rinv := by
  rw [pParams_rinv, params_eq.1]; exact rinv_eq

theorem entryAffine_eq_model (x y : List Nat) :
    entryAffine x y = some (Model.SM2.Fp.fromMontgomery (Model.SM2.Fp.ofRaw x),
      Model.SM2.Fp.fromMontgomery (Model.SM2.Fp.ofRaw y)) := by
  have h : ∀ v : Nat, Model.SM2.Fp.fromMontgomery v = v * Model.SM2.pParams.rinv % Model.SM2.pParams.m :=
    fun _ => rfl
  have h2 : ∀ l : List Nat, Model.SM2.Fp.ofRaw l = limbsToNat l := fun _ => rfl
  rw [h, h, h2, h2, ← rinv_eq_pParams, pParams_m, params_eq.1]; rfl

/-! ### the four combs (general form) -/

theorem first_4_2_32 : FirstValid sm2Precomputed_4_2_32 4 2 32 0 :=
  first_valid _ 4 2 32 0 (by decide) shape_4_2_32 sub_4_2_32

theorem first_5_3_17 : FirstValid sm2Precomputed_5_3_17 5 3 17 1 :=
  first_valid _ 5 3 17 1 (by decide) shape_5_3_17 sub_5_3_17

theorem second_5_3_17 : SecondValid sm2Precomputed_5_3_17_Remainder 1 :=
  second_valid _ 1 shapeR_5_3_17 rem_5_3_17

theorem first_6_3_14 : FirstValid sm2Precomputed_6_3_14 6 3 14 4 :=
  first_valid _ 6 3 14 4 (by decide) shape_6_3_14 sub_6_3_14

theorem second_6_3_14 : SecondValid sm2Precomputed_6_3_14_Remainder 4 :=
  second_valid _ 4 shapeR_6_3_14 rem_6_3_14

theorem first_7_3_12 : FirstValid sm2Precomputed_7_3_12 7 3 12 4 :=
  first_valid _ 7 3 12 4 (by decide) shape_7_3_12 sub_7_3_12

theorem second_7_3_12 : SecondValid sm2Precomputed_7_3_12_Remainder 4 :=
  second_valid _ 4 shapeR_7_3_12 rem_7_3_12

/-! ### the comb the library uses (6-3-14-4), written out for the tables of the model context -/

/-- first table of `Model.SM2.ctx`: 3 sub-tables of 63 entries; entry `idx - 1` of sub-table `j` is
    `[combMultiplier 6 3 14 4 j idx]G` -/
theorem first_6_3_14_valid :
    Model.SM2.ctx.first.length = 3 ∧
    ∀ j, j < 3 →
      (Model.SM2.ctx.first.getD j []).length = 2 ∧
      ((Model.SM2.ctx.first.getD j []).getD 0 []).length = 2 ^ 6 - 1 ∧
      ((Model.SM2.ctx.first.getD j []).getD 1 []).length = 2 ^ 6 - 1 ∧
      ∀ idx, 1 ≤ idx → idx < 2 ^ 6 →
        EntryOK (((Model.SM2.ctx.first.getD j []).getD 0 []).getD (idx - 1) [])
          (((Model.SM2.ctx.first.getD j []).getD 1 []).getD (idx - 1) [])
          (combMultiplier 6 3 14 4 j idx) :=
  first_6_3_14

/-- remainder table of `Model.SM2.ctx`: 15 entries; entry `idx - 1` is `[idx]G` -/
theorem second_6_3_14_valid :
    Model.SM2.ctx.second.length = 2 ∧
    (Model.SM2.ctx.second.getD 0 []).length = 2 ^ 4 - 1 ∧
    (Model.SM2.ctx.second.getD 1 []).length = 2 ^ 4 - 1 ∧
    ∀ idx, 1 ≤ idx → idx < 2 ^ 4 →
      EntryOK ((Model.SM2.ctx.second.getD 0 []).getD (idx - 1) [])
        ((Model.SM2.ctx.second.getD 1 []).getD (idx - 1) []) idx :=
  second_6_3_14

/-- the value equation alone, in the form of the property text -/
theorem first_6_3_14_val (j idx : Nat) (hj : j < 3) (h1 : 1 ≤ idx) (h2 : idx < 2 ^ 6) :
    entryAffine (((sm2Precomputed_6_3_14.getD j []).getD 0 []).getD (idx - 1) [])
        (((sm2Precomputed_6_3_14.getD j []).getD 1 []).getD (idx - 1) [])
      = Spec.SM2.smul (combMultiplier 6 3 14 4 j idx) Spec.SM2.G :=
  ((first_6_3_14.2 j hj).2.2.2 idx h1 h2).val

theorem second_6_3_14_val (idx : Nat) (h1 : 1 ≤ idx) (h2 : idx < 2 ^ 4) :
    entryAffine ((sm2Precomputed_6_3_14_Remainder.getD 0 []).getD (idx - 1) [])
        ((sm2Precomputed_6_3_14_Remainder.getD 1 []).getD (idx - 1) [])
      = Spec.SM2.smul idx Spec.SM2.G :=
  (second_6_3_14.2.2.2 idx h1 h2).val

end SMGo.Proofs.Tables

open SMGo.Proofs.Tables
#print axioms rinv_eq
#print axioms rinv_eq_pParams
#print axioms entryAffine_eq_model
#print axioms params_eq
#print axioms zBytesLen_eq
#print axioms zBytes_eq
#print axioms checkSub_sound
#print axioms checkRem_sound
#print axioms first_valid
#print axioms second_valid
#print axioms first_4_2_32
#print axioms first_5_3_17
#print axioms second_5_3_17
#print axioms first_6_3_14
#print axioms second_6_3_14
#print axioms first_7_3_12
#print axioms second_7_3_12
#print axioms first_6_3_14_valid
#print axioms second_6_3_14_valid
#print axioms first_6_3_14_val
#print axioms second_6_3_14_val
