/-
  Value-level lemmas for the arm64 Go glue: what the kernels compute when they are instantiated
  with the specification (`KSpec`), the counter blocks `fillCounterN` writes as `inc32` iterated
  (with the 32-bit wrap), the length block of `gHashFinish`, and the bit operations of the Go text
  (`l >> 4`, `l & 15`, `blocks & n`) as `/`, `%`, `≤`.  Core Lean only.
-/
import SMGo.Model.GCMGlueArm64
import SMGo.Proofs.GCMSpec
import SMGo.Proofs.GCMBytes
import SMGo.Proofs.GCMField
import SMGo.Proofs.GCMHash
import SMGo.Proofs.GCMGlueSpec
namespace SMGo.Proofs.GCMGlueA64
open SMGo SMGo.Model SMGo.Model.GCMGlueA64
open SMGo.Spec.GCM
open SMGo.Proofs.GCM (ctrAdd ctrAdd_ctrAdd ctrAdd_lt stream stream_length ghFold ghFold_nil
  ghFold_cons_append ghFold_append ghFold_block toNatBE_inj toNatBE_append toNatBE_lt
  toNatBE_ofNatBE toNatBE_ofNatBE_mod ofNatBE_length blockToNat_lt blockToNat_natToBlock
  natToBlock_blockToNat natToBlock_length mulGF_lt inc32_eq_ctrAdd)

/-- the kernels are the specification's: 16-byte blocks out of `E`, byte-wise XOR, and
    `(tag ⊕ block) • H` -/
structure KSpec (k : Kernels) : Prop where
  E_len : ∀ b, (k.E b).length = 16
  xor_eq : k.xor = xorBytes
  gh_eq : k.gh = specGh

theorem kspec_spec (rk : List W32) : KSpec (specKernels rk) where
  E_len := GCMGlue.length_cryptFast rk
  xor_eq := rfl
  gh_eq := rfl

/-! ### bit operations of the Go text -/

theorem shr4 (l : Nat) : l >>> 4 = l / 16 := by
  rw [Nat.shiftRight_eq_div_pow]

theorem and15 (l : Nat) : l &&& 15 = l % 16 := by
  have := Nat.and_two_pow_sub_one_eq_mod l 4
  simpa using this

theorem bit8 : ∀ r, r < 16 → (r &&& 8 ≠ 0 ↔ 8 ≤ r) := by decide
theorem bit4 : ∀ r, r < 8 → (r &&& 4 ≠ 0 ↔ 4 ≤ r) := by decide
theorem bit2 : ∀ r, r < 4 → (r &&& 2 ≠ 0 ↔ 2 ≤ r) := by decide
theorem bit1 : ∀ r, r < 2 → (r &&& 1 ≠ 0 ↔ 1 ≤ r) := by decide

/-! ### SM4 on `n` blocks -/

theorem blocksE_length {E : Bytes → Bytes} (hE : ∀ b, (E b).length = 16) (n : Nat) (bs : Bytes) :
    (blocksE E n bs).length = 16 * n := by
  induction n generalizing bs with
  | zero => rfl
  | succ n ih => simp [blocksE, hE, ih]; omega

/-- the counter blocks J+c, J+c+1, …, J+c+n-1 (low 32-bit word with wrap) -/
def ctrBlocks (j : Nat) : Nat → Nat → Bytes
  | _, 0 => []
  | c, n + 1 => natToBlock (ctrAdd j c) ++ ctrBlocks j (c + 1) n

theorem ctrBlocks_length (j c n : Nat) : (ctrBlocks j c n).length = 16 * n := by
  induction n generalizing c with
  | zero => rfl
  | succ n ih => simp [ctrBlocks, natToBlock_length, ih]; omega

theorem ctrBlocks_snoc (j c n : Nat) :
    ctrBlocks j c (n + 1) = ctrBlocks j c n ++ natToBlock (ctrAdd j (c + n)) := by
  induction n generalizing c with
  | zero => simp [ctrBlocks]
  | succ n ih =>
    rw [ctrBlocks, ih (c + 1), ctrBlocks, List.append_assoc,
      show c + 1 + n = c + (n + 1) by omega]

/-- the n-block kernel on the counter blocks gives the key stream of the specification -/
theorem blocksE_ctrBlocks (E : Bytes → Bytes) (j c n : Nat) :
    blocksE E n (ctrBlocks j c n) = stream E (ctrAdd j c) n := by
  induction n generalizing c with
  | zero => rfl
  | succ n ih =>
    rw [ctrBlocks, blocksE, stream]
    have hl := natToBlock_length (ctrAdd j c)
    rw [← hl, List.take_left, List.drop_left, ih (c + 1), inc32_eq_ctrAdd, ctrAdd_ctrAdd]

/-- one lane of `fillCounterN`: the first 12 bytes of J0 followed by the low word plus `k`
    modulo 2^32 is the block `k` steps of `inc32` after J0 -/
theorem lane_block (b : Bytes) (hb : b.length = 16) (k : Nat) :
    b.take 12 ++ Bytes.ofNatBE 4 ((Bytes.toNatBE (b.drop 12) + k) % 2 ^ 32)
      = natToBlock (ctrAdd (blockToNat b) k) := by
  have h256 : (256 : Nat) ^ 4 = 4294967296 := by decide
  have hlo : Bytes.toNatBE (b.drop 12) < 4294967296 := by
    have := toNatBE_lt (b.drop 12)
    rw [List.length_drop, hb, h256] at this
    exact this
  have hsplit : blockToNat b = Bytes.toNatBE (b.take 12) * 4294967296 + Bytes.toNatBE (b.drop 12) := by
    unfold blockToNat
    conv => lhs; rw [← List.take_append_drop 12 b]
    rw [toNatBE_append, List.length_drop, hb, h256]
  apply toNatBE_inj
  · rw [List.length_append, List.length_take, ofNatBE_length, natToBlock_length, hb]
    omega
  · rw [toNatBE_append, ofNatBE_length, h256, toNatBE_ofNatBE (by rw [h256]; omega)]
    show _ = blockToNat (natToBlock _)
    rw [blockToNat_natToBlock (ctrAdd_lt (blockToNat_lt hb) k), hsplit]
    unfold ctrAdd
    omega

/-! ### GHASH -/

theorem ghFold_lt {H : Nat} (hH : H < 2 ^ 128) {Y : Nat} (hY : Y < 2 ^ 128) (x : Bytes) :
    ghFold H Y x < 2 ^ 128 := by
  unfold ghFold
  generalize blocksOf x = l
  induction l generalizing Y with
  | nil => exact hY
  | cons a l ih => exact ih (mulGF_lt hH)

theorem specGh_length (H t b : Bytes) : (specGh H t b).length = 16 := natToBlock_length _

/-- `gHashBlocks` with the specification's step is the specification's GHASH fold, resumed from the
    value of the tag -/
theorem ghBlocks_spec (Hb : Bytes) (hH : Hb.length = 16) :
    ∀ (n : Nat) (t d : Bytes), t.length = 16 → 16 * n ≤ d.length →
      ghBlocks specGh Hb n t d
        = natToBlock (ghFold (blockToNat Hb) (blockToNat t) (d.take (16 * n))) := by
  intro n
  induction n with
  | zero =>
    intro t d ht _
    simp [ghBlocks, ghFold_nil, natToBlock_blockToNat ht]
  | succ n ih =>
    intro t d ht hd
    rw [ghBlocks, ih _ _ (specGh_length _ _ _) (by rw [List.length_drop]; omega)]
    congr 1
    have h16 : (d.take 16).length = 16 := by rw [List.length_take]; omega
    have hsplit : d.take (16 * (n + 1)) = d.take 16 ++ (d.drop 16).take (16 * n) := by
      rw [show 16 * (n + 1) = 16 + 16 * n by omega, List.take_add]
    rw [hsplit, ghFold_cons_append _ _ _ _ h16]
    congr 1
    unfold specGh
    rw [blockToNat_natToBlock (mulGF_lt (blockToNat_lt hH))]

/-- the zero-padded remainder block `gHashUpdate` builds in `tmp` -/
theorem pad16_short (d : Bytes) (h0 : 0 < d.length) (h : d.length < 16) :
    pad16 d = d ++ List.replicate (16 - d.length) 0 := by
  unfold pad16
  rw [Nat.mod_eq_of_lt h, Nat.mod_eq_of_lt (by omega)]

/-- `gHashUpdate` on the values: whole blocks, then the padded remainder, is the fold over the
    padded string -/
theorem ghFold_pad16 (H Y : Nat) (X : Bytes) :
    ghFold H Y (pad16 X) =
      if X.length % 16 = 0 then ghFold H Y (X.take (16 * (X.length / 16)))
      else ghFold H (ghFold H Y (X.take (16 * (X.length / 16))))
        (X.drop (X.length - X.length % 16) ++ List.replicate (16 - X.length % 16) 0) := by
  have hq : 16 * (X.length / 16) ≤ X.length := by omega
  have htl : (X.take (16 * (X.length / 16))).length = 16 * (X.length / 16) := by
    rw [List.length_take]; omega
  rw [GCM.pad16_split X (X.length / 16) hq, ghFold_append H _ Y _ _ htl]
  have hdl : (X.drop (16 * (X.length / 16))).length = X.length % 16 := by
    rw [List.length_drop]; omega
  by_cases hr : X.length % 16 = 0
  · rw [if_pos hr]
    have : X.drop (16 * (X.length / 16)) = [] := List.length_eq_zero_iff.mp (by omega)
    rw [this]
    rfl
  · rw [if_neg hr, pad16_short _ (by omega) (by omega), hdl]
    congr 3
    omega

theorem pad16_length' (d : Bytes) : (pad16 d).length = 16 * ((d.length + 15) / 16) := by
  unfold pad16
  rw [List.length_append, List.length_replicate]; omega

/-- the length block: `PutUint64(tmp[:8], aadLen<<3); PutUint64(tmp[8:], plainLen<<3)` in uint64 -/
theorem be64_shift (n : Nat) : Bytes.ofNatBE 8 ((n <<< 3) % 2 ^ 64) = be64 (8 * n) := by
  unfold be64
  apply toNatBE_inj
  · rw [ofNatBE_length, ofNatBE_length]
  · rw [toNatBE_ofNatBE_mod, toNatBE_ofNatBE_mod, Nat.shiftLeft_eq]
    have : (256 : Nat) ^ 8 = 2 ^ 64 := by decide
    rw [this]
    omega

theorem blockToNat_zero : blockToNat (List.replicate 16 0) = 0 := by decide

end SMGo.Proofs.GCMGlueA64
