import SMGo.Proofs.ISAValLadX0Mid
set_option linter.unusedSimpArgs false
namespace SMGo.Proofs.ISAVal
open SMGo.Model.ISAVal SMGo.Model.GCM SMGo.Proofs.GCM SMGo.Proofs.ISATouch
open SMGo.Model.ISA (Reg Opd Instr)

theorem a_movb_imm_store (s : State) (v : Int) (b : Nat) (disp : Int) (mem' : List Region) (hb : b < s.gpr.length)
    (hstore : writeMem s.mem ((greg s b + 0 + imm64 disp) % 2 ^ 64) (lanes 8 1 (imm64 v)) = .ok mem') :
    execD s (ins .MOVB [.imm v, M b disp] 0) = .ok (setMem s mem') := by
  obtain ⟨g, vv, k, fl, mem, syms, frame⟩ := s
  have hgb := getElem?_getD g b hb
  simp only [greg, Nat.add_zero] at hstore
  simp only [execD, ins, M, exMov, aluWidth, effAddr, getG, hgb, ok_bind, pure_eq_ok, Nat.add_zero, storeLE, hstore,
    Except.map, setMem, or_true, if_true]

theorem lenG_sf (s : State) (d r : Nat) (f : Flags) : (setFlags (setGreg s d r) f).gpr.length = s.gpr.length := by
  simp [setFlags, setGreg]

theorem lanes_zero1 : lanes 8 1 (imm64 0) = [0] := by decide +kernel

/-- `clearRight`: the loop that zeroes `G11` bytes from `G2` on -/
def clrLoopCode (pSelf pEnd : Nat) : List DInstr :=
  [ins .CMPQ [G 11, .imm 0] 0, ins .JLE [.target pEnd] 0, ins .MOVB [.imm 0, M 2 0] 0, ins .ADDQ [.imm 1, G 2] 0,
   ins .SUBQ [.imm 1, G 11] 0, ins .JMP [.target pSelf] 0]

def clrKeepG : List Nat := [0, 1, 3, 4, 5, 6, 7, 8, 9, 10, 12, 13, 14, 15]

theorem imm64_1 : imm64 1 = 1 := by decide +kernel

set_option maxHeartbeats 1000000 in
theorem clr_reach (r : Routine) (k pSelf pEnd : Nat) (hs : Slice r k (clrLoopCode pSelf pEnd))
    (lS : findPc r pSelf = some (r.drop k)) (lE : findPc r pEnd = some (r.drop (k + 6)))
    (Mf : List Nat → List Region) (tbase : Nat) (bf : Buf Mf tbase 32) (htb : tbase + 32 < 2 ^ 63) :
    ∀ (m : Nat) (s : State) (b : List Nat) (off : Nat), s.gpr.length = 16 → b.length = 32 → s.mem = Mf b → greg s 11 = m →
      greg s 2 = tbase + off → off + m ≤ 32 →
      ∃ s', Reach r k s (k + 6) s' (6 * m + 2) ∧ s'.mem = Mf (spliceAt b off (List.replicate m 0)) ∧ RegsKeep clrKeepG s s' := by
  have sG : Slice r k [ins .CMPQ [G 11, .imm 0] 0, ins .JLE [.target pEnd] 0] :=
    Slice.left (a := [_, _]) (b := [_, _, _, _]) hs
  have sB : Slice r (k + 2) [ins .MOVB [.imm 0, M 2 0] 0, ins .ADDQ [.imm 1, G 2] 0, ins .SUBQ [.imm 1, G 11] 0] :=
    Slice.left (a := [_, _, _]) (b := [_]) (Slice.right (a := [_, _]) (b := [_, _, _, _]) hs)
  have sJ : Slice r (k + 2 + 3) [ins .JMP [.target pSelf] 0] :=
    Slice.right (a := [_, _, _]) (b := [_]) (Slice.right (a := [_, _]) (b := [_, _, _, _]) hs)
  intro m
  induction m with
  | zero =>
    intro s b off hG hb hm h11 h2 ho
    have r0 := guard_reach (idx := k + 6) sG rfl lE s (by omega) 0 0 h11 imm64_0' true (by rw [cond_jle _ _ (by decide) (by decide)]; rfl)
    simp only [if_true] at r0
    refine ⟨_, r0.cast rfl rfl, ?_, ⟨rfl, fun _ _ => rfl, rfl, rfl, rfl, rfl⟩⟩
    show s.mem = _
    rw [hm]; congr 1
    unfold spliceAt
    simp
  | succ m ih =>
    intro s b off hG hb hm h11 h2 ho
    obtain ⟨n, hn⟩ : ∃ n, n = m + 1 := ⟨_, rfl⟩
    rw [← hn] at h11 ho
    have r0 := guard_reach (idx := k + 6) sG rfl lE s (by omega) n 0 h11 imm64_0' false
      (by rw [cond_jle _ _ (by omega) (by decide)]; simp; omega)
    simp only [Bool.false_eq_true, if_false] at r0
    let s0 := setFlags s (subF 8 n 0).2
    -- the body
    let s1 := setMem s0 (Mf (spliceAt b off [0]))
    have x1 : execD s0 (ins .MOVB [.imm 0, M 2 0] 0) = .ok s1 := by
      apply a_movb_imm_store s0 0 2 0 _ (by simp [s0]; omega)
      rw [show greg s0 2 = tbase + off from h2, ea00 _ (by omega), lanes_zero1]
      show writeMem s.mem _ _ = _
      rw [hm, bf.wr b off [0] hb (by simp; omega)]
      rfl
    have hG1 : s1.gpr.length = 16 := by simp [s1, s0]; exact hG
    have x2 := a_addq_imm s1 1 2 (by omega)
    let s2 := setFlags (setGreg s1 2 (addF 8 (greg s1 2) (imm64 1)).1) (addF 8 (greg s1 2) (imm64 1)).2
    have hG2 : s2.gpr.length = 16 := (lenG_sf s1 2 _ _).trans hG1
    have x3 := a_subq_imm s2 1 11 (by omega)
    let s3 := setFlags (setGreg s2 11 (subF 8 (greg s2 11) (imm64 1)).1) (subF 8 (greg s2 11) (imm64 1)).2
    have hxB : execList [ins .MOVB [.imm 0, M 2 0] 0, ins .ADDQ [.imm 1, G 2] 0, ins .SUBQ [.imm 1, G 11] 0] s0 = .ok s3 := by
      apply exec_step x1
      apply exec_step x2
      apply exec_step x3
      exact execList_nil _
    have r1 : Reach r (k + 2) s0 (k + 2 + 3) s3 3 := reach_seg sB (by rfl) hxB
    have r2 : Reach r (k + 2 + 3) s3 k s3 1 := reach_jmp sJ lS s3
    have g12 : greg s1 2 = tbase + off := h2
    have g32 : greg s3 2 = tbase + (off + 1) := by
      show greg (setFlags (setGreg s2 11 _) _) 2 = _
      rw [greg_setFlags, greg_setGreg_ne s2 11 _ 2 (by decide)]
      show greg (setFlags (setGreg s1 2 _) _) 2 = _
      rw [greg_setFlags, greg_setGreg_eq s1 2 _ (by omega), addF_fst, g12, imm64_1]; omega
    have g311 : greg s3 11 = m := by
      show greg (setFlags (setGreg s2 11 _) _) 11 = _
      rw [greg_setFlags, greg_setGreg_eq s2 11 _ (by omega), subF_fst, imm64_1]
      have : greg s2 11 = n := by
        show greg (setFlags (setGreg s1 2 _) _) 11 = _
        rw [greg_setFlags, greg_setGreg_ne s1 2 _ 11 (by decide)]; exact h11
      rw [this]; omega
    have hb1 : (spliceAt b off [0]).length = 32 := by rw [spliceAt_length _ _ _ (by simp; omega)]; exact hb
    obtain ⟨s', r3, m3, k3⟩ := ih s3 (spliceAt b off [0]) (off + 1) ((lenG_sf s2 11 _ _).trans hG2) hb1 rfl g311 g32 (by omega)
    refine ⟨s', (((r0.trans r1).trans r2).trans r3).cast rfl (by omega), ?_, ?_⟩
    · rw [m3]; congr 1
      have := spliceAt_spliceAt b off [0] (List.replicate m 0) (by simp; omega)
      rw [show ([0] : List Nat).length = 1 from rfl] at this
      rw [this]; rfl
    · refine RegsKeep.trans ⟨((lenG_sf s2 11 _ _).trans hG2).trans hG.symm, ?_, rfl, rfl, rfl, rfl⟩ k3
      intro n hn
      have hn2 : n ≠ 2 ∧ n ≠ 11 := by
        simp only [clrKeepG, List.mem_cons, List.not_mem_nil, or_false] at hn; omega
      show greg (setFlags (setGreg s2 11 _) _) n = _
      rw [greg_setFlags, greg_setGreg_ne s2 11 _ n hn2.2]
      show greg (setFlags (setGreg s1 2 _) _) n = _
      rw [greg_setFlags, greg_setGreg_ne s1 2 _ n hn2.1]
      rfl

end SMGo.Proofs.ISAVal
