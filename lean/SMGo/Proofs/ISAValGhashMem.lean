import SMGo.Proofs.ISAValGhashCode
import SMGo.Proofs.ISAValX1
namespace SMGo.Proofs.ISAVal
open SMGo.Model.ISAVal SMGo.Model.ISA SMGo.Model.GCM SMGo.Proofs.GCM

/-! ### projections of the state updates -/
section proj
variable (s : State) (d r : Nat) (f : Flags) (m : List Region)
@[simp] theorem gpr_setVreg : (setVreg s d r).gpr = s.gpr := rfl
@[simp] theorem kreg_setVreg : (setVreg s d r).kreg = s.kreg := rfl
@[simp] theorem mem_setVreg : (setVreg s d r).mem = s.mem := rfl
@[simp] theorem syms_setVreg : (setVreg s d r).syms = s.syms := rfl
@[simp] theorem frame_setVreg : (setVreg s d r).frame = s.frame := rfl
@[simp] theorem flags_setVreg : (setVreg s d r).flags = s.flags := rfl
@[simp] theorem vec_setGreg : (setGreg s d r).vec = s.vec := rfl
@[simp] theorem kreg_setGreg : (setGreg s d r).kreg = s.kreg := rfl
@[simp] theorem mem_setGreg : (setGreg s d r).mem = s.mem := rfl
@[simp] theorem syms_setGreg : (setGreg s d r).syms = s.syms := rfl
@[simp] theorem frame_setGreg : (setGreg s d r).frame = s.frame := rfl
@[simp] theorem flags_setGreg : (setGreg s d r).flags = s.flags := rfl
@[simp] theorem vec_setKreg : (setKreg s d r).vec = s.vec := rfl
@[simp] theorem gpr_setKreg : (setKreg s d r).gpr = s.gpr := rfl
@[simp] theorem mem_setKreg : (setKreg s d r).mem = s.mem := rfl
@[simp] theorem syms_setKreg : (setKreg s d r).syms = s.syms := rfl
@[simp] theorem frame_setKreg : (setKreg s d r).frame = s.frame := rfl
@[simp] theorem flags_setKreg : (setKreg s d r).flags = s.flags := rfl
@[simp] theorem vec_setFlags : (setFlags s f).vec = s.vec := rfl
@[simp] theorem gpr_setFlags : (setFlags s f).gpr = s.gpr := rfl
@[simp] theorem kreg_setFlags : (setFlags s f).kreg = s.kreg := rfl
@[simp] theorem mem_setFlags : (setFlags s f).mem = s.mem := rfl
@[simp] theorem syms_setFlags : (setFlags s f).syms = s.syms := rfl
@[simp] theorem frame_setFlags : (setFlags s f).frame = s.frame := rfl
@[simp] theorem flags_setFlags : (setFlags s f).flags = f := rfl
@[simp] theorem vec_setMem : (setMem s m).vec = s.vec := rfl
@[simp] theorem gpr_setMem : (setMem s m).gpr = s.gpr := rfl
@[simp] theorem kreg_setMem : (setMem s m).kreg = s.kreg := rfl
@[simp] theorem mem_setMem : (setMem s m).mem = m := rfl
@[simp] theorem kregD_setVreg (n : Nat) : kregD (setVreg s d r) n = kregD s n := rfl
@[simp] theorem kregD_setGreg (n : Nat) : kregD (setGreg s d r) n = kregD s n := rfl
@[simp] theorem kregD_setFlags (n : Nat) : kregD (setFlags s f) n = kregD s n := rfl
@[simp] theorem kregD_setKreg_ne (n : Nat) (h : n ≠ d) : kregD (setKreg s d r) n = kregD s n := getD_set_ne _ _ _ _ h
theorem kregD_setKreg_eq (h : d < s.kreg.length) : kregD (setKreg s d r) d = r := getD_set_eq _ _ _ h
end proj

/-! ### the memory of `ghashState` -/

def gmem (h tag data : List Nat) : List Region := (ghashState [] [] [] h tag data 0).mem

theorem gs_mem (g v k h tag data : List Nat) (c : Nat) : (ghashState g v k h tag data c).mem = gmem h tag data := rfl
theorem gs_syms (g v k h tag data : List Nat) (c : Nat) : (ghashState g v k h tag data c).syms = symTab := rfl
theorem gs_frame (g v k h tag data : List Nat) (c : Nat) :
    (ghashState g v k h tag data c).frame = [("h", arg 0), ("tag", arg 1), ("data", arg 2), ("count", c)] := rfl
theorem gs_gpr (g v k h tag data : List Nat) (c : Nat) : (ghashState g v k h tag data c).gpr = g := rfl
theorem gs_vec (g v k h tag data : List Nat) (c : Nat) : (ghashState g v k h tag data c).vec = v := rfl
theorem gs_kreg (g v k h tag data : List Nat) (c : Nat) : (ghashState g v k h tag data c).kreg = k := rfl

theorem gframe_h (c : Nat) : lookup [("h", arg 0), ("tag", arg 1), ("data", arg 2), ("count", c)] "h" = some 73014444032 := by
  simp [lookup, arg0]
theorem gframe_tag (c : Nat) : lookup [("h", arg 0), ("tag", arg 1), ("data", arg 2), ("count", c)] "tag" = some 77309411328 := by
  simp [lookup, arg1]
theorem gframe_data (c : Nat) : lookup [("h", arg 0), ("tag", arg 1), ("data", arg 2), ("count", c)] "data" = some 81604378624 := by
  simp [lookup, arg2]
theorem gframe_count (c : Nat) : lookup [("h", arg 0), ("tag", arg 1), ("data", arg 2), ("count", c)] "count" = some c := by
  simp [lookup]

theorem symTab_and : lookup symTab "AND_MASK" = some 25769803776 := by decide +kernel
theorem symTab_lower : lookup symTab "LOWER_MASK" = some 47244640256 := by decide +kernel
theorem symTab_poly : lookup symTab "GCM_POLY" = some 42949672960 := by decide +kernel
theorem symTab_idx : lookup symTab "SHUFFLE_X_LANES" = some 60129542144 := by decide +kernel
theorem symTab_h01 : lookup symTab "MERGE_H01" = some 51539607552 := by decide +kernel
theorem symTab_h23 : lookup symTab "MERGE_H23" = some 55834574848 := by decide +kernel

section
variable (h tag data : List Nat)
theorem gm_read_and : readMem (gmem h tag data) 25769803776 8 = .ok (Gen.AsmData.amd64_AND_MASK.take 8) := rfl
theorem gm_read_lower : readMem (gmem h tag data) 47244640256 16 = .ok Gen.AsmData.amd64_LOWER_MASK := rfl
theorem gm_read_poly : readMem (gmem h tag data) 42949672960 8 = .ok (Gen.AsmData.amd64_GCM_POLY.take 8) := rfl
set_option maxRecDepth 10000 in
theorem gm_read_idx : readMem (gmem h tag data) 60129542144 64 = .ok Gen.AsmData.amd64_SHUFFLE_X_LANES := rfl
theorem gm_read_h01 : readMem (gmem h tag data) 51539607552 32 = .ok Gen.AsmData.amd64_MERGE_H01 := rfl
set_option maxRecDepth 10000 in
theorem gm_read_h23 : readMem (gmem h tag data) 55834574848 64 = .ok Gen.AsmData.amd64_MERGE_H23 := rfl

theorem gm_h : (gmem h tag data)[16]? = some ⟨"h", h, false⟩ := rfl
theorem gm_tag : (gmem h tag data)[17]? = some ⟨"tag", tag, true⟩ := rfl
theorem gm_data : (gmem h tag data)[18]? = some ⟨"data", data, false⟩ := rfl

theorem gm_read_h (hh : h.length = 16) : readMem (gmem h tag data) 73014444032 16 = .ok h := by
  unfold readMem
  have h1 : 73014444032 / 2 ^ 32 = 17 := by decide
  have h2 : 73014444032 % 2 ^ 32 = 0 := by decide
  simp only [h1, h2, Nat.reduceSub, gm_h]
  simp [hh]
  exact List.take_of_length_le (Nat.le_of_eq hh)

theorem gm_read_tag (ht : tag.length = 16) : readMem (gmem h tag data) 77309411328 16 = .ok tag := by
  unfold readMem
  have h1 : 77309411328 / 2 ^ 32 = 18 := by decide
  have h2 : 77309411328 % 2 ^ 32 = 0 := by decide
  simp only [h1, h2, Nat.reduceSub, gm_tag]
  simp [ht]
  exact List.take_of_length_le (Nat.le_of_eq ht)

theorem gm_read_data (off n : Nat) (hoff : off + n ≤ data.length) (hlt : off < 2 ^ 32) :
    readMem (gmem h tag data) (81604378624 + off) n = .ok ((data.drop off).take n) := by
  unfold readMem
  have h1 : (81604378624 + off) / 2 ^ 32 = 19 := by omega
  have h2 : (81604378624 + off) % 2 ^ 32 = off := by omega
  simp only [h1, h2, Nat.reduceSub, gm_data]
  simp [hoff]

theorem gm_write_tag (bs : List Nat) (hb : bs.length = tag.length) :
    writeMem (gmem h tag data) 77309411328 bs = .ok (gmem h bs data) := by
  unfold writeMem
  have h1 : 77309411328 / 2 ^ 32 = 18 := by decide
  have h2 : 77309411328 % 2 ^ 32 = 0 := by decide
  simp only [h1, h2, Nat.reduceSub, gm_tag]
  simp [hb]
  rfl

theorem gm_region_tag (g' v' k' : List Nat) (fl' : Flags) (sy fr : List (String × Nat)) :
    regionBytes ⟨g', v', k', fl', gmem h tag data, sy, fr⟩ "tag" = some tag := by
  simp [regionBytes, gmem, ghashState, mkState, symbols, List.find?]
end

end SMGo.Proofs.ISAVal
