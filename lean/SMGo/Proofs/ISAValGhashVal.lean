/-
  Value-level lemmas for the GHASH instructions of sm4/gcm_amd64.s under the semantics of
  SMGo/Model/ISAVal.lean: VPCLMULQDQ is the model's carry-less product, the macro `mul`+`reduce` on a 128-bit
  lane is `Model.GCM.gmulR`, the macro `reverseBits` reverses the bits of every byte.
-/
import SMGo.Proofs.ISAValRoundL
import SMGo.Proofs.GCMClmul
namespace SMGo.Proofs.ISAVal
open SMGo.Model.ISAVal SMGo.Model.GCM SMGo.Proofs.GCM


theorem lane_xor (w i a b : Nat) : lane w i (a ^^^ b) = lane w i a ^^^ lane w i b := by
  simp [lane, Nat.shiftRight_xor_distrib, Nat.xor_mod_two_pow]

theorem lane_and (w i a b : Nat) : lane w i (a &&& b) = lane w i a &&& lane w i b := by
  simp [lane, Nat.shiftRight_and_distrib, Nat.and_mod_two_pow]

theorem map2_whole (w n : Nat) (f F : Nat → Nat → Nat) (hf : ∀ a b i, lane w i (F a b) = f (lane w i a) (lane w i b))
    (a b : Nat) : map2 w n f a b = F a b % 2 ^ (w * n) := by
  unfold map2
  rw [← unlanes_lanes]
  congr 1
  apply List.ext_getElem
  · simp [lanes_length]
  · intro i h1 h2
    rw [List.getElem_zipWith, getElem_lanes, getElem_lanes, getElem_lanes, hf]

/-- VPXORD a, b: the whole-register xor, truncated to the vector length -/
theorem vpxord_whole (n a b : Nat) : map2 32 n (fun x y => y ^^^ x) a b = (b ^^^ a) % 2 ^ (32 * n) :=
  map2_whole 32 n _ (fun a b => b ^^^ a) (fun a b i => lane_xor 32 i b a) a b

theorem vpandd_whole (n a b : Nat) : map2 32 n (fun x y => y &&& x) a b = (b &&& a) % 2 ^ (32 * n) :=
  map2_whole 32 n _ (fun a b => b &&& a) (fun a b i => lane_and 32 i b a) a b

/-- lane `i` (any width `W` whose lanes lie inside the vector) of VPXORD -/
theorem laneW_vpxord (W i n a b : Nat) (h : W * (i + 1) ≤ 32 * n) :
    lane W i (map2 32 n (fun x y => y ^^^ x) a b) = lane W i b ^^^ lane W i a := by
  rw [vpxord_whole, lane_mod W i _ _ h, lane_xor]

theorem laneW_vpandd (W i n a b : Nat) (h : W * (i + 1) ≤ 32 * n) :
    lane W i (map2 32 n (fun x y => y &&& x) a b) = lane W i b &&& lane W i a := by
  rw [vpandd_whole, lane_mod W i _ _ h, lane_and]

theorem map2_lt (w n : Nat) (f : Nat → Nat → Nat) (a b : Nat) (hf : ∀ x y, x < 2 ^ w → y < 2 ^ w → f x y < 2 ^ w) :
    map2 w n f a b < 2 ^ (w * n) := by
  have := unlanes_lt w (List.zipWith f (lanes w n a) (lanes w n b)) (by
    intro x hx
    obtain ⟨j, hj, rfl⟩ := List.mem_iff_getElem.mp hx
    rw [List.getElem_zipWith, getElem_lanes, getElem_lanes]
    exact hf _ _ (lane_lt _ _ _) (lane_lt _ _ _))
  simpa [map2, lanes_length] using this

/-- two numbers below 2^(w·n) with the same `n` lanes are equal -/
theorem eq_of_lanes (w n a b : Nat) (ha : a < 2 ^ (w * n)) (hb : b < 2 ^ (w * n))
    (h : ∀ i, i < n → lane w i a = lane w i b) : a = b := by
  rw [← Nat.mod_eq_of_lt ha, ← Nat.mod_eq_of_lt hb, ← unlanes_lanes, ← unlanes_lanes, lanes_congr w n a b h]


theorem bit_eq_one_iff (x i : Nat) : (bit x i = 1) ↔ x.testBit i = true := by
  unfold bit
  rw [Nat.testBit, Nat.shiftRight_eq_div_pow]
  simp [Nat.one_and_eq_mod_two, Nat.and_comm]
  
theorem foldl_range_xsum (n : Nat) (f : Nat → Nat) :
    (List.range n).foldl (fun r i => r ^^^ f i) 0 = xsum n f := by
  induction n with
  | zero => rfl
  | succ n ih => rw [List.range_succ, List.foldl_append, ih]; rfl

/-- the interpreter's VPCLMULQDQ product is the model's carry-less product (operands swapped) -/
theorem clmul_eq (a b : Nat) : clmul a b = clmul64 b a := by
  unfold clmul clmul64
  rw [← foldl_range_xsum]
  congr 1
  funext r i
  by_cases h : b.testBit i = true
  · simp [h, (bit_eq_one_iff b i).mpr h]
  · have : ¬ bit b i = 1 := fun hb => h ((bit_eq_one_iff b i).mp hb)
    simp [h, this]


theorem clmul64_poly_basis : ∀ i, i < 64 → clmul64 0x87 (2 ^ i) = clmul64 (2 ^ i) 0x87 := by decide +kernel

theorem clmul64_poly_comm {v : Nat} (hv : v < 2 ^ 64) : clmul64 poly v = clmul64 v poly := by
  have h := IsLin.ext_of_basis (isLin_clmulN_right 64 0x87) (isLin_clmulN_left 64 0x87) (n := 64)
    (fun i hi => clmul64_poly_basis i hi) hv
  exact h


/-- VPCLMULQDQ $imm, a, b on one 128-bit lane -/
def clmulL (imm a b : Nat) : Nat := clmul (lane 64 (bit imm 0) b) (lane 64 (bit imm 4) a)

theorem lane64_0 (v : Nat) : lane 64 0 v = lo64 v := by simp [lane, lo64]
theorem lane64_1 (v : Nat) : lane 64 1 v = hi64 v := by simp [lane, hi64, Nat.shiftRight_eq_div_pow]

theorem clmulL_00 (a b : Nat) : clmulL 0 a b = clmul64 (lo64 a) (lo64 b) := by
  simp [clmulL, bit, clmul_eq, lane64_0]
theorem clmulL_17 (a b : Nat) : clmulL 17 a b = clmul64 (hi64 a) (hi64 b) := by
  have h0 : bit 17 0 = 1 := by decide
  have h4 : bit 17 4 = 1 := by decide
  simp [clmulL, h0, h4, clmul_eq, lane64_1]
theorem clmulL_01 (a b : Nat) : clmulL 1 a b = clmul64 (lo64 a) (hi64 b) := by
  have h0 : bit 1 0 = 1 := by decide
  have h4 : bit 1 4 = 0 := by decide
  simp [clmulL, h0, h4, clmul_eq, lane64_1, lane64_0]

/-- `mul` + `reduce` of gcm_amd64.s on one 128-bit lane, instruction by instruction (Go operand order) -/
def mulRedLane (h hs x red : Nat) : Nat :=
  let lo := clmulL 0 x h
  let t0 := (x >>> 64) ^^^ x
  let mid := clmulL 0 t0 hs
  let hi := clmulL 17 x h
  let t1 := lo ^^^ hi
  let mid := t1 ^^^ mid
  let t2 := mid >>> 64
  let t3 := (mid <<< 64) % 2 ^ 128
  let hi := t2 ^^^ hi
  let lo := t3 ^^^ lo
  let r0 := clmulL 0 red hi
  let r1 := clmulL 1 red hi
  let r2 := (r1 <<< 64) % 2 ^ 128
  let r0 := r0 ^^^ r2
  let lo := lo ^^^ r0
  let r3 := clmulL 1 red r1
  lo ^^^ r3

theorem shl64_mod (m : Nat) : (m <<< 64) % 2 ^ 128 = m % 2 ^ 64 * 2 ^ 64 := by
  rw [Nat.shiftLeft_eq, show (2:Nat) ^ 128 = 2 ^ 64 * 2 ^ 64 from by decide, Nat.mul_mod_mul_right]

theorem lo64_shr_xor (x : Nat) : lo64 ((x >>> 64) ^^^ x) = lo64 x ^^^ hi64 x := by
  unfold lo64 hi64
  rw [Nat.xor_mod_two_pow, Nat.shiftRight_eq_div_pow, Nat.xor_comm]

/-- the instruction sequence computes the model's multiplier -/
theorem mulRedLane_eq (h hs x red : Nat) (hhs : lo64 hs = lo64 h ^^^ hi64 h) (hred : lo64 red = poly) :
    mulRedLane h hs x red = gmulR h x := by
  unfold mulRedLane gmulR karatsuba reduce
  simp only [clmulL_00, clmulL_17, clmulL_01, hhs, hred, lo64_shr_xor, shl64_mod]
  simp only [Nat.shiftRight_eq_div_pow]
  rw [clmul64_poly_comm (lo64_lt _), clmul64_poly_comm (hi64_lt _), clmul64_poly_comm (hi64_lt _)]
  simp only [lo64]
  ac_rfl


theorem pshufbByte_lt (tbl : List Nat) (h : ∀ x ∈ tbl, x < 256) (i : Nat) : pshufbByte tbl i < 256 := by
  unfold pshufbByte
  split
  · decide
  · rw [List.getD_eq_getElem?_getD]
    cases hh : tbl[i % 16]? with
    | none => simp
    | some x => exact h x (List.mem_of_getElem? hh)

/-- byte `J` of VPSHUFB idx, tbl at vector length `vl` -/
theorem byte_vpshufb (vl idx tbl J : Nat) (hvl : vl % 16 = 0) (hJ : J < vl) :
    lane 8 J (vpshufb vl idx tbl) = pshufbByte (lanes 8 16 (lane 128 (J / 16) tbl)) (lane 8 J idx) := by
  have hl : J / 16 < vl / 16 := by omega
  have hJJ : 16 * (J / 16) + J % 16 = J := by omega
  have e : lane 8 J (vpshufb vl idx tbl) = lane 8 (J % 16) (lane 128 (J / 16) (vpshufb vl idx tbl)) := by
    rw [lane_lane' 128 8 16 (J % 16) (J / 16) _ (by decide) (by omega), hJJ]
  rw [e]
  unfold vpshufb
  rw [lane_map2 128 (vl / 16) (J / 16) idx tbl _ hl]
  · rw [lane_map1 8 16 (J % 16) _ _ (by omega)]
    · rw [lane_lane' 128 8 16 (J % 16) (J / 16) _ (by decide) (by omega), hJJ]
    · intro x _
      exact pshufbByte_lt _ (fun y hy => mem_lanes_lt 8 16 _ y hy) x
  · intro a b _ _
    exact map1_lt 8 16 a _ (fun x _ => pshufbByte_lt _ (fun y hy => mem_lanes_lt 8 16 _ y hy) x)

/-- nibble view of VPSRLW $4: the low nibble of byte `J` of the result is the high nibble of byte `J` of the source -/
theorem nibble_vpsrlw4 (n x J : Nat) (hJ : J < 2 * n) :
    lane 4 (2 * J) (map1 16 n (fun w => w >>> 4) x) = lane 4 (2 * J + 1) x := by
  have hk : J / 2 < n := by omega
  have e1 : 2 * J = 4 * (J / 2) + 2 * (J % 2) := by omega
  have e2 : 2 * J + 1 = 4 * (J / 2) + (2 * (J % 2) + 1) := by omega
  rw [e1, ← lane_lane' 16 4 4 (2 * (J % 2)) (J / 2) _ (by decide) (by omega),
    lane_map1 16 n (J / 2) x _ hk (fun w hw => Nat.lt_of_le_of_lt (Nat.shiftRight_le _ _) hw),
    Nat.add_assoc, ← lane_lane' 16 4 4 (2 * (J % 2) + 1) (J / 2) _ (by decide) (by omega), lane_shift]
  unfold lane
  congr 2
  omega

theorem byte_low_nibble (J v : Nat) : 15 &&& lane 8 J v = lane 4 (2 * J) v := by
  rw [Nat.and_comm, show (15 : Nat) = 2 ^ 4 - 1 from rfl, Nat.and_two_pow_sub_one_eq_mod]
  unfold lane
  rw [show (2:Nat) ^ 8 = 2 ^ 4 * 2 ^ 4 from rfl, Nat.mod_mul_right_mod, ← Nat.mul_assoc]

theorem byte_high_nibble (J v : Nat) : lane 4 (2 * J + 1) v = lane 8 J v / 16 := by
  unfold lane
  rw [Nat.mul_add, Nat.mul_one, ← Nat.mul_assoc, Nat.shiftRight_add, Nat.shiftRight_eq_div_pow (v >>> (4 * 2 * J)) 4,
    show (2 : Nat) ^ 8 = 2 ^ 4 * 2 ^ 4 from rfl, Nat.mod_mul_right_div_self]


/-- `reverseBits` of gcm_amd64.s on one byte: HIGHER_MASK[low nibble] ⊕ LOWER_MASK[high nibble] -/
def rev8N (b : Nat) : Nat := (revNibble (b % 16) <<< 4) ^^^ revNibble (b / 16)

/-- the macro `reverseBits(V, And, Higher, Lower, T0, T1)` on a register of `vl` bytes, instruction by instruction -/
def revBitsV (vl x am lo hi : Nat) : Nat :=
  let t0 := map1 16 (vl / 2) (fun w => w >>> 4) x
  let t1 := map2 32 (vl / 4) (fun x y => y &&& x) x am
  let t0 := map2 32 (vl / 4) (fun x y => y &&& x) t0 am
  let t1 := vpshufb vl t1 hi
  let t0 := vpshufb vl t0 lo
  map2 32 (vl / 4) (fun x y => y ^^^ x) t0 t1

theorem lower_tbl : ∀ n, n < 16 → pshufbByte Gen.AsmData.amd64_LOWER_MASK n = revNibble n := by decide +kernel
theorem higher_tbl : ∀ n, n < 16 →
    pshufbByte (Gen.AsmData.amd64_LOWER_MASK.map (· * 16)) n = revNibble n <<< 4 := by decide +kernel

theorem byte_revBitsV (vl x am lo hi J : Nat) (hvl : vl % 16 = 0) (hJ : J < vl) (hA : lane 8 J am = 15)
    (hlo : lanes 8 16 (lane 128 (J / 16) lo) = Gen.AsmData.amd64_LOWER_MASK)
    (hhi : lanes 8 16 (lane 128 (J / 16) hi) = Gen.AsmData.amd64_LOWER_MASK.map (· * 16)) :
    lane 8 J (revBitsV vl x am lo hi) = rev8N (lane 8 J x) := by
  have h8 : 8 * (J + 1) ≤ 32 * (vl / 4) := by omega
  have hb : lane 8 J x < 256 := lane_lt 8 J x
  unfold revBitsV
  simp only []
  rw [laneW_vpxord 8 J _ _ _ h8, byte_vpshufb vl _ _ J hvl hJ, byte_vpshufb vl _ _ J hvl hJ, hlo, hhi,
    laneW_vpandd 8 J _ _ _ h8, laneW_vpandd 8 J _ _ _ h8, hA, byte_low_nibble, byte_low_nibble,
    nibble_vpsrlw4 (vl / 2) x J (by omega), byte_high_nibble, ← byte_low_nibble, ← hA]
  have e : lane 8 J am &&& lane 8 J x = lane 8 J x % 16 := by
    rw [hA, Nat.and_comm, show (15 : Nat) = 2 ^ 4 - 1 from rfl, Nat.and_two_pow_sub_one_eq_mod]
  rw [e, higher_tbl _ (Nat.mod_lt _ (by decide)), lower_tbl _ (by omega)]
  rfl

end SMGo.Proofs.ISAVal
