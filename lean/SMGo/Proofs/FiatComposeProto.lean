/-
  Gap X1, part 3: the protocol layer (`Model/SM2Proto.lean`).  For two related contexts (`CtxRel`:
  related coordinate and scalar fields, the same programs, tables, `n`, `zBytes`, SM3 constants, tables
  of canonical entries) every entry point returns THE SAME result: at this level the outputs are bytes,
  booleans and outcomes, so the refinement relation becomes equality.  Core Lean only.
-/
import SMGo.Proofs.FiatComposeCurve
set_option linter.unusedVariables false
namespace SMGo.Proofs.FiatCompose
open SMGo SMGo.Model SMGo.Model.Field SMGo.Proofs.Fiat
open SMGo.Model.Point (Pt)

/-- a limb-level context `XL` and a residue-level context `XN` that differ only in the representation
    of field elements: `mp`, `mn` are the two moduli -/
structure CtxRel (mp mn : Nat) (XL : SM2.Ctx (List Nat) (List Nat)) (XN : SM2.Ctx Nat Nat) : Prop where
  C : PRel mp XL.C XN.C
  S : FRel mn XL.S XN.S
  first : XL.first = XN.first
  second : XL.second = XN.second
  n : XL.n = XN.n
  zBytes : XL.zBytes = XN.zBytes
  tt : XL.tt = XN.tt
  firstOK : ∀ t ∈ XN.first, TableOK mp t
  secondOK : TableOK mp XN.second
  secondLen : (XN.second.getD 0 []).length ≤ 255

section proto
variable {mp mn : Nat} {XL : SM2.Ctx (List Nat) (List Nat)} {XN : SM2.Ctx Nat Nat}

/-- `ScalarBaseMult` (6-3-14-4 comb) of the two contexts: related points -/
theorem scalarBaseMult_ctx (h : CtxRel mp mn XL XN) (k : Bytes) :
    ORel (RelPt mp) (SM2.scalarBaseMult XL k) (SM2.scalarBaseMult XN k) := by
  unfold SM2.scalarBaseMult
  rw [h.first, h.second]
  exact scalarBaseMult_rel (pointOps_rel h.C) k _ _ 6 3 14 4 h.firstOK h.secondOK h.secondLen

theorem nBytes_eq (h : CtxRel mp mn XL XN) : SM2.nBytes XL = SM2.nBytes XN := by
  unfold SM2.nBytes; rw [h.n]
theorem nBytes33_eq (h : CtxRel mp mn XL XN) : SM2.nBytes33 XL = SM2.nBytes33 XN := by
  unfold SM2.nBytes33; rw [nBytes_eq h]
theorem nMinus1Bytes_eq (h : CtxRel mp mn XL XN) : SM2.nMinus1Bytes XL = SM2.nMinus1Bytes XN := by
  unfold SM2.nMinus1Bytes; rw [h.n]

theorem testPrivateKey_eq (h : CtxRel mp mn XL XN) :
    SM2.testPrivateKey XL = SM2.testPrivateKey XN := by
  funext priv
  unfold SM2.testPrivateKey
  rw [nMinus1Bytes_eq h]

theorem derivePublic_eq (h : CtxRel mp mn XL XN) (priv : Bytes) :
    SM2.derivePublic XL priv = SM2.derivePublic XN priv := by
  unfold SM2.derivePublic
  refine ORel.map_eq (scalarBaseMult_ctx h priv) (fun a b hab => ?_)
  rw [bytes_rel h.C hab true]

theorem genKeyLoop_eq (h : CtxRel mp mn XL XN) : SM2.genKeyLoop XL = SM2.genKeyLoop XN := by
  funext fuel
  induction fuel with
  | zero => rfl
  | succ f ih =>
    funext sc
    simp only [SM2.genKeyLoop, testPrivateKey_eq h, ih]

theorem generateKey_eq (h : CtxRel mp mn XL XN) (rand : Option SM2.Script) :
    SM2.generateKey XL rand = SM2.generateKey XN rand := by
  cases rand with
  | none => rfl
  | some sc =>
    unfold SM2.generateKey
    rw [genKeyLoop_eq h]
    refine ORel.map_eq (ORel.refl _) (fun a b hab => ?_)
    subst hab
    obtain ⟨priv, sc'⟩ := a
    dsimp only
    refine ORel.map_eq (scalarBaseMult_ctx h priv) (fun P Q hPQ => ?_)
    rw [bytes_rel h.C hPQ true]

theorem checkOnCurve_eq (h : CtxRel mp mn XL XN) (x y : Bytes) :
    SM2.checkOnCurve XL x y = SM2.checkOnCurve XN x y := by
  unfold SM2.checkOnCurve
  have hx := h.C.F.setBytes x
  have hy := h.C.F.setBytes y
  revert hx hy
  cases Field.setBytes XL.C.F x <;> cases Field.setBytes XN.C.F x <;>
    cases Field.setBytes XL.C.F y <;> cases Field.setBytes XN.C.F y <;>
    intro hx hy <;> first | exact hx.elim | exact hy.elim | rfl | exact checkOnCurve_rel h.C hx hy

theorem za_eq (h : CtxRel mp mn XL XN) : SM2.za XL = SM2.za XN := by
  funext id pubx puby
  unfold SM2.za
  rw [h.tt, h.zBytes]

theorem hashZaMsg_eq (h : CtxRel mp mn XL XN) : SM2.hashZaMsg XL = SM2.hashZaMsg XN := by
  funext z msg
  unfold SM2.hashZaMsg
  rw [h.tt]

theorem signLoop_eq (h : CtxRel mp mn XL XN) (priv e : Bytes) :
    ∀ (fuel : Nat) (sc : SM2.Script), SM2.signLoop XL priv e fuel sc = SM2.signLoop XN priv e fuel sc := by
  intro fuel
  induction fuel with
  | zero => intro sc; rfl
  | succ f ih =>
    intro sc
    unfold SM2.signLoop
    rw [nBytes_eq h, nBytes33_eq h, h.n]
    obtain ⟨o, sc'⟩ := SM2.readFull sc 32 []
    cases o with
    | none => rfl
    | some K =>
      dsimp only
      cases Utils.constantTimeCmp (some K) (some (SM2.nBytes XN)) 32 with
      | err => rfl
      | panic => rfl
      | ok c =>
        dsimp only
        by_cases hc : c ≥ 0 ∨ K.all (· == 0)
        · rw [if_pos hc, if_pos hc]; exact ih sc'
        rw [if_neg hc, if_neg hc]
        have hsb := scalarBaseMult_ctx h K
        revert hsb
        cases SM2.scalarBaseMult XL K <;> cases SM2.scalarBaseMult XN K <;> intro hsb <;>
          first | exact hsb.elim | rfl | skip
        dsimp only
        rw [getAffineX_rel h.C hsb]
        rw [ih sc']
        generalize (Point.getAffineX XN.C _ + e.toNatBE) % XN.n = rInt
        by_cases hr0 : rInt = 0
        · rw [if_pos hr0, if_pos hr0]
        rw [if_neg hr0, if_neg hr0]
        cases SM2.fillBytes 33 (rInt + K.toNatBE) with
        | err => rfl
        | panic => rfl
        | ok rkBuf =>
          dsimp only
          cases Utils.constantTimeCmp (some rkBuf) (some (SM2.nBytes33 XN)) 33 with
          | err => rfl
          | panic => rfl
          | ok c33 =>
            dsimp only
            by_cases hc33 : c33 = 0
            · rw [if_pos hc33, if_pos hc33]
            rw [if_neg hc33, if_neg hc33]
            cases SM2.fillBytes 32 (priv.toNatBE + 1) with
            | err => rfl
            | panic => rfl
            | ok buf =>
              dsimp only
              have hs := h.S.scalarSetBytes buf
              revert hs
              cases scalarSetBytes XL.S buf <;> cases scalarSetBytes XN.S buf <;> intro hs <;>
                first | exact hs.elim | rfl | skip
              dsimp only
              rw [h.S.toNat (h.S.invert _ _ hs)]

theorem signLoop_fun_eq (h : CtxRel mp mn XL XN) : SM2.signLoop XL = SM2.signLoop XN := by
  funext priv e fuel sc
  exact signLoop_eq h priv e fuel sc

theorem signHashed_eq (h : CtxRel mp mn XL XN) : SM2.signHashed XL = SM2.signHashed XN := by
  funext sc priv e
  unfold SM2.signHashed
  rw [testPrivateKey_eq h, signLoop_fun_eq h]

theorem signZa_eq (h : CtxRel mp mn XL XN) : SM2.signZa XL = SM2.signZa XN := by
  funext sc priv z msg
  unfold SM2.signZa
  rw [signHashed_eq h, hashZaMsg_eq h]

theorem sign_eq (h : CtxRel mp mn XL XN) : SM2.sign XL = SM2.sign XN := by
  funext id pubx puby sc priv msg
  unfold SM2.sign
  rw [za_eq h, signZa_eq h]

theorem verifyHashed_eq (h : CtxRel mp mn XL XN) : SM2.verifyHashed XL = SM2.verifyHashed XN := by
  funext pubx puby e r s
  unfold SM2.verifyHashed
  rw [h.n, h.first, h.second]
  by_cases h1 : pubx.length ≠ 32 ∨ puby.length ≠ 32 ∨ e.length ≠ 32 ∨ r.length ≠ 32 ∨ s.length ≠ 32
  · rw [if_pos h1, if_pos h1]
  rw [if_neg h1, if_neg h1]
  dsimp only
  by_cases h2 : r.toNatBE < 1 ∨ s.toNatBE < 1 ∨ r.toNatBE ≥ XN.n ∨ s.toNatBE ≥ XN.n
  · rw [if_pos h2, if_pos h2]
  rw [if_neg h2, if_neg h2]
  by_cases h3 : (r.toNatBE + s.toNatBE) % XN.n = 0
  · rw [if_pos h3, if_pos h3]
  rw [if_neg h3, if_neg h3]
  have hp := setBytes_rel h.C ([4] ++ pubx ++ puby)
  revert hp
  cases Point.setBytes XL.C ([4] ++ pubx ++ puby) <;> cases Point.setBytes XN.C ([4] ++ pubx ++ puby) <;>
    intro hp <;> first | exact hp.elim | rfl | skip
  dsimp only
  have hm := scalarMixedMult_rel (pointOps_rel h.C) s hp
    (SM2.ensure32 ((r.toNatBE + s.toNatBE) % XN.n)) XN.first XN.second h.firstOK h.secondOK
  revert hm
  cases Curve.scalarMixedMult (Curve.pointOps XL.C) s _ _ XN.first XN.second <;>
    cases Curve.scalarMixedMult (Curve.pointOps XN.C) s _ _ XN.first XN.second <;>
    intro hm <;> first | exact hm.elim | rfl | skip
  dsimp only
  rw [bytes_rel h.C hm false, getAffineXUnsafe_rel h.C hm]

theorem verifyZa_eq (h : CtxRel mp mn XL XN) : SM2.verifyZa XL = SM2.verifyZa XN := by
  funext pubx puby z msg r s
  unfold SM2.verifyZa
  rw [verifyHashed_eq h, hashZaMsg_eq h]

theorem verify_eq (h : CtxRel mp mn XL XN) : SM2.verify XL = SM2.verify XN := by
  funext id pubx puby msg r s
  unfold SM2.verify
  rw [za_eq h, verifyZa_eq h]

end proto
end SMGo.Proofs.FiatCompose

#print axioms SMGo.Proofs.FiatCompose.signHashed_eq
#print axioms SMGo.Proofs.FiatCompose.verifyHashed_eq
#print axioms SMGo.Proofs.FiatCompose.generateKey_eq
#print axioms SMGo.Proofs.FiatCompose.sign_eq
#print axioms SMGo.Proofs.FiatCompose.verify_eq
