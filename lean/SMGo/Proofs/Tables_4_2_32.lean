/-
  Property C18, SM2 part — kernel evaluation of the table checkers of `TablesCheck.lean` on the
  GENERATED tables of the 4-2-32-0 comb (`Gen/SM2Tables.lean`, regenerated from
  sm2/internal/sm2_tables.go on every check run).  Core Lean only.
-/
import SMGo.Proofs.TablesCheck
import SMGo.Gen.SM2Tables
namespace SMGo.Proofs.Tables
open SMGo.Gen.SM2Tables
set_option maxRecDepth 100000

/-- shape of the first table: 2 sub-tables, x and y lists of 2^4 − 1 vectors of four limbs < 2^64,
    values < p -/
theorem shape_4_2_32 : firstOK sm2Precomputed_4_2_32 4 2 = true := by decide +kernel

theorem sub_4_2_32_0 : checkSub sm2Precomputed_4_2_32 4 2 32 0 0 = true := by decide +kernel

theorem sub_4_2_32_1 : checkSub sm2Precomputed_4_2_32 4 2 32 0 1 = true := by decide +kernel

theorem sub_4_2_32 : ∀ j, j < 2 → checkSub sm2Precomputed_4_2_32 4 2 32 0 j = true
  | 0, _ => sub_4_2_32_0
  | 1, _ => sub_4_2_32_1
  | j + 2, h => absurd h (by omega)

end SMGo.Proofs.Tables
