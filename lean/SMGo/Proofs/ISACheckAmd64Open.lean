/-
  C09: kernel-evaluated taint certificates (`certify`, see SMGo/Model/ISA.lean) for the amd64 routines below.
  Each `cert_*` is decided by `decide +kernel`: the kernel computes the invariant (`computeInv`) of the
  macro-expanded listing and checks it instruction by instruction (`checkInv`); nothing is trusted but the kernel.
-/
import SMGo.Proofs.ISASound
import SMGo.Gen.ListAmd64Gcm

namespace SMGo.Proofs.ISACheck
open SMGo.Model.ISA SMGo.Proofs.ISASound SMGo.Gen
set_option maxRecDepth 100000

/-- exactly one branch of openAsm is declassified: the `JNE tagUnMatch` after `ORB …; CMPQ r, $0` -/
theorem declass_openAsm_amd64 : (declassOf ListAmd64Gcm.openAsm).length = 1 := by decide +kernel

/-- printed at build time: (pc, mnemonic, source line of gcm_amd64.s) of the declassified branch -/
def declassInfo : List (Nat × String × Nat) :=
  (ListAmd64Gcm.openAsm.filter fun i => (declassOf ListAmd64Gcm.openAsm).contains i.pc).map fun i => (i.pc, i.mn, i.line)
#eval declassInfo

theorem cert_openAsm_amd64 : certify ListAmd64Gcm.openAsm (declassOf ListAmd64Gcm.openAsm) = true := by decide +kernel

/-- without the declassification openAsm does NOT pass: the tag verdict really is a data-dependent branch -/
theorem openAsm_amd64_needs_declass : certify ListAmd64Gcm.openAsm [] = false := by decide +kernel

theorem ct_openAsm_amd64 : checkInv ListAmd64Gcm.openAsm (invOf ListAmd64Gcm.openAsm) (declassOf ListAmd64Gcm.openAsm) = true := (certify_spec cert_openAsm_amd64).1

end SMGo.Proofs.ISACheck
