import SMGo.Model.ISAValInst
namespace SMGo.Proofs.ISAVal
open SMGo.Model.ISAVal SMGo.Model.ISA

/-- a straight-line block of decoded instructions -/
def execList (code : List DInstr) (s : State) : Except String State :=
  match code with
  | [] => .ok s
  | i :: rest =>
    match execD s i with
    | .ok s' => execList rest s'
    | .error e => .error e

theorem execList_append (a b : List DInstr) (s : State) :
    execList (a ++ b) s = match execList a s with | .ok s' => execList b s' | .error e => .error e := by
  induction a generalizing s with
  | nil => rfl
  | cons i rest ih =>
    simp only [List.cons_append, execList]
    cases execD s i with
    | error e => rfl
    | ok s' => exact ih s'

theorem execList_append_ok {a b : List DInstr} {s s' s'' : State}
    (ha : execList a s = .ok s') (hb : execList b s' = .ok s'') : execList (a ++ b) s = .ok s'' := by
  rw [execList_append, ha]; exact hb

theorem stepD_of_not_control (s : State) (i : DInstr) (h : i.mn.isControl = false) :
    stepD s i = (execD s i).map (fun s' => (s', Next.fall)) := by
  simp [stepD, h]

/-- running a straight-line block that ends in RET -/
theorem runFrom_straight (r : Routine) (code : List DInstr) (ret : DInstr) (tail : List DInstr)
    (hc : ∀ i ∈ code, i.mn.isControl = false) (hret : ret.mn = .RET) (hops : ret.ops = [])
    (fuel : Nat) (hfuel : code.length < fuel) (s s' : State) (h : execList code s = .ok s') :
    runFrom r fuel (code ++ ret :: tail) s = .ok s' := by
  induction code generalizing s fuel with
  | nil =>
    cases fuel with
    | zero => simp at hfuel
    | succ f =>
      simp only [execList] at h
      have hs : s = s' := by injection h
      subst hs
      have : stepD s ret = .ok (s, .ret) := by
        cases ret with
        | mk pc mn ops vw => simp only at hret hops; subst hret hops; rfl
      simp [runFrom, this]
  | cons i rest ih =>
    cases fuel with
    | zero => simp at hfuel
    | succ f =>
      have hi := hc i (by simp)
      simp only [execList] at h
      cases hE : execD s i with
      | error e => simp [hE] at h
      | ok s1 =>
        rw [hE] at h
        have hstep : stepD s i = .ok (s1, .fall) := by
          rw [stepD_of_not_control s i hi, hE]; rfl
        simp only [List.cons_append, runFrom, hstep]
        exact ih (fun j hj => hc j (by simp [hj])) f (by simpa using hfuel) s1 h

/-- `execD` does not look at the byte offset -/
theorem execD_pc (s : State) (i : DInstr) (pc : Nat) : execD s { i with pc := pc } = execD s i := rfl

def erasePc (i : DInstr) : DInstr := { i with pc := 0 }

theorem execList_erase (code : List DInstr) (s : State) : execList (code.map erasePc) s = execList code s := by
  induction code generalizing s with
  | nil => rfl
  | cons i rest ih =>
    simp only [List.map_cons, execList]
    rw [show execD s (erasePc i) = execD s i from rfl]
    cases execD s i with
    | error e => rfl
    | ok s' => exact ih s'

end SMGo.Proofs.ISAVal
