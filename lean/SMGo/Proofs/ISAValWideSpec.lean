import SMGo.Proofs.ISAValWideEpi
namespace SMGo.Proofs.ISAVal
open SMGo.Model.ISAVal SMGo.Model.ISA SMGo

theorem bswap32_unlanes (a b c d : Nat) (ha : a < 256) (hb : b < 256) (hc : c < 256) (hd : d < 256) :
    bswap32 (unlanes 8 [a, b, c, d]) = beWord a b c d := by
  have hbb : ∀ x ∈ [a, b, c, d], x < 2 ^ 8 := by
    intro x hx; simp only [List.mem_cons, List.not_mem_nil, or_false] at hx
    rcases hx with rfl | rfl | rfl | rfl <;> assumption
  unfold bswap32 beWord
  rw [lane_unlanes 8 _ hbb 0 (by simp), lane_unlanes 8 _ hbb 1 (by simp), lane_unlanes 8 _ hbb 2 (by simp),
    lane_unlanes 8 _ hbb 3 (by simp)]
  simp only [List.getElem_cons_succ, List.getElem_cons_zero]

set_option maxRecDepth 10000 in
/-- the output bytes of one block against the specification -/
theorem encQ_block (rk : List Nat) (hrkb : ∀ x ∈ rk, x < 2 ^ 32)
    (s0 s1 s2 s3 s4 s5 s6 s7 s8 s9 s10 s11 s12 s13 s14 s15 : Nat)
    (hsb : ∀ x ∈ [s0, s1, s2, s3, s4, s5, s6, s7, s8, s9, s10, s11, s12, s13, s14, s15], x < 2 ^ 8) :
    encQ (rk.foldl stepN (beWord s0 s1 s2 s3, beWord s4 s5 s6 s7, beWord s8 s9 s10 s11, beWord s12 s13 s14 s15))
      = (Spec.SM4.crypt (rk.map (BitVec.ofNat 32))
          ([s0, s1, s2, s3, s4, s5, s6, s7, s8, s9, s10, s11, s12, s13, s14, s15].map UInt8.ofNat)).map (·.toNat) := by
  have h := fun x hx => hsb x hx
  simp only [List.mem_cons, List.not_mem_nil, or_false] at h
  have hb0 : Bnd (beWord s0 s1 s2 s3, beWord s4 s5 s6 s7, beWord s8 s9 s10 s11, beWord s12 s13 s14 s15) :=
    ⟨beWord_lt _ _ _ _ (h s0 (by simp)) (h s1 (by simp)) (h s2 (by simp)) (h s3 (by simp)),
      beWord_lt _ _ _ _ (h s4 (by simp)) (h s5 (by simp)) (h s6 (by simp)) (h s7 (by simp)),
      beWord_lt _ _ _ _ (h s8 (by simp)) (h s9 (by simp)) (h s10 (by simp)) (h s11 (by simp)),
      beWord_lt _ _ _ _ (h s12 (by simp)) (h s13 (by simp)) (h s14 (by simp)) (h s15 (by simp))⟩
  obtain ⟨hbX, hWX⟩ := foldl_stepN rk hrkb _ hb0
  generalize rk.foldl stepN (beWord s0 s1 s2 s3, beWord s4 s5 s6 s7, beWord s8 s9 s10 s11, beWord s12 s13 s14 s15) = X at hbX hWX
  have hw0 := ofNat_beWord s0 s1 s2 s3 (h s0 (by simp)) (h s1 (by simp)) (h s2 (by simp)) (h s3 (by simp))
  have hw1 := ofNat_beWord s4 s5 s6 s7 (h s4 (by simp)) (h s5 (by simp)) (h s6 (by simp)) (h s7 (by simp))
  have hw2 := ofNat_beWord s8 s9 s10 s11 (h s8 (by simp)) (h s9 (by simp)) (h s10 (by simp)) (h s11 (by simp))
  have hw3 := ofNat_beWord s12 s13 s14 s15 (h s12 (by simp)) (h s13 (by simp)) (h s14 (by simp)) (h s15 (by simp))
  simp only [Spec.SM4.crypt, List.map_cons, List.map_nil, wordsBE, List.getD_cons_zero, List.getD_cons_succ]
  simp only [toW, hw0, hw1, hw2, hw3] at hWX
  rw [← hWX]
  obtain ⟨xa, xb, xc, xd⟩ := X
  obtain ⟨ha, hb, hc, hd⟩ := hbX
  simp only at ha hb hc hd
  simp only [encQ, List.map_append, w32Bytes_ofNat _ ha, w32Bytes_ofNat _ hb, w32Bytes_ofNat _ hc, w32Bytes_ofNat _ hd,
    List.append_assoc]

/-- the four big-endian words of block `β` of a byte string -/
def Wblk (src : List Nat) (β : Nat) : Nat × Nat × Nat × Nat :=
  (wordAt src (16 * β), wordAt src (16 * β + 4), wordAt src (16 * β + 8), wordAt src (16 * β + 12))

theorem X0w_eq (vl : Nat) (src : List Nat) (j : Nat) : X0w vl src j = Wblk src (blockOf vl j) := rfl

/-- block `β` of a byte string -/
def blockAt (src : List Nat) (β : Nat) : List Nat := (src.drop (16 * β)).take 16

theorem wordAt_block (src : List Nat) (β k : Nat) (hk : k < 4) :
    wordAt src (16 * β + 4 * k) = bswap32 (unlanes 8 (((blockAt src β).drop (4 * k)).take 4)) := by
  unfold wordAt blockAt
  rw [drop_take_sub src (16 * β) 16 k (by omega)]

set_option maxRecDepth 10000 in
theorem encQ_eq_spec (rk src : List Nat) (hrkb : ∀ x ∈ rk, x < 2 ^ 32) (hsb : ∀ x ∈ src, x < 2 ^ 8) (β : Nat)
    (hβ : 16 * β + 16 ≤ src.length) :
    encQ (rk.foldl stepN (Wblk src β))
      = (Spec.SM4.crypt (rk.map (BitVec.ofNat 32)) ((blockAt src β).map UInt8.ofNat)).map (·.toNat) := by
  have hlen : (blockAt src β).length = 16 := by unfold blockAt; rw [List.length_take, List.length_drop]; omega
  have hbb : ∀ x ∈ blockAt src β, x < 2 ^ 8 := fun x hx => hsb x (List.mem_of_mem_drop (List.mem_of_mem_take hx))
  have e0 := wordAt_block src β 0 (by decide)
  have e1 := wordAt_block src β 1 (by decide)
  have e2 := wordAt_block src β 2 (by decide)
  have e3 := wordAt_block src β 3 (by decide)
  obtain ⟨s0, s1, s2, s3, s4, s5, s6, s7, s8, s9, s10, s11, s12, s13, s14, s15, hblk⟩ := list16 _ hlen
  rw [hblk] at e0 e1 e2 e3 hbb ⊢
  have h := fun x hx => hbb x hx
  simp only [List.mem_cons, List.not_mem_nil, or_false] at h
  simp only [Nat.mul_zero, Nat.add_zero, Nat.mul_one, Nat.reduceMul, List.drop_zero, List.drop_succ_cons, List.take_succ_cons,
    List.take_zero] at e0 e1 e2 e3
  rw [bswap32_unlanes _ _ _ _ (h s0 (by simp)) (h s1 (by simp)) (h s2 (by simp)) (h s3 (by simp))] at e0
  rw [bswap32_unlanes _ _ _ _ (h s4 (by simp)) (h s5 (by simp)) (h s6 (by simp)) (h s7 (by simp))] at e1
  rw [bswap32_unlanes _ _ _ _ (h s8 (by simp)) (h s9 (by simp)) (h s10 (by simp)) (h s11 (by simp))] at e2
  rw [bswap32_unlanes _ _ _ _ (h s12 (by simp)) (h s13 (by simp)) (h s14 (by simp)) (h s15 (by simp))] at e3
  unfold Wblk
  rw [e0, e1, e2, e3]
  exact encQ_block rk hrkb s0 s1 s2 s3 s4 s5 s6 s7 s8 s9 s10 s11 s12 s13 s14 s15 hbb


/-- the blocks of the specification, one after the other: `n` blocks of `src` through the block function -/
def cryptBlocks (rk src : List Nat) (n : Nat) : List Nat :=
  (List.range n).flatMap (fun β => (Spec.SM4.crypt (rk.map (BitVec.ofNat 32)) ((blockAt src β).map UInt8.ofNat)).map (·.toNat))

/-- the straight-line body of the wide kernels at vector length `vl` (16, 32, 64): prologue, 32 rounds, epilogue -/
theorem wide_body_spec (vl : Nat) (hvl : validVl vl = true) (g v k rk dst0 src : List Nat)
    (hg : g.length = 16) (hv : v.length = 32) (hrk : rk.length = 32) (hrkb : ∀ x ∈ rk, x < 2 ^ 32)
    (hsrc : src.length = 4 * vl) (hsb : ∀ x ∈ src, x < 2 ^ 8) (hdst : dst0.length = 4 * vl) :
    ∃ s', execList (wideCode vl) (kernelState g v k rk dst0 src) = .ok s' ∧
      regionBytes s' "dst" = some (cryptBlocks rk src (vl / 4)) := by
  have hvl' : vl = 16 ∨ vl = 32 ∨ vl = 64 := by
    simpa only [validVl, Bool.or_eq_true, beq_iff_eq, or_assoc] using hvl
  obtain ⟨s1, hrun1, hr1⟩ := wpro_spec vl hvl g v k rk dst0 src hg hv hsrc hsb
  obtain ⟨s2, hrun2, hr2⟩ := readyL_rounds vl hvl (kmem rk dst0 src) symTab frameTab 73014444032 77309411328 (SHUFvl vl)
    (fun i => lanes 8 4 (rk.getD i 0)) (by decide) (fun i hi => kmem_read_rk rk dst0 src hrk i hi)
    (fun i _ => by rw [unlanes_lanes]; exact Nat.mod_lt _ (by decide)) _ s1 hr1 32 (Nat.le_refl _)
  have hkw : (fun i => unlanes 8 (lanes 8 4 (rk.getD i 0))) = (fun i => rk.getD i 0) := by
    funext i
    rw [unlanes_lanes]; exact Nat.mod_eq_of_lt (getD_lt rk hrkb i)
  have hX : (fun j => iterN (fun i => unlanes 8 (lanes 8 4 (rk.getD i 0))) (X0w vl src j) 32)
      = (fun j => (fun β => rk.foldl stepN (Wblk src β)) (blockOf vl j)) := by
    funext j
    rw [hkw, iterN_take rk _ 32 (by omega), List.take_of_length_le (by omega), X0w_eq]
  rw [hX] at hr2
  obtain ⟨s3, hrun3, hmem3⟩ := wepi_spec vl hvl rk dst0 src (fun β => rk.foldl stepN (Wblk src β)) s2 hdst hr2
  refine ⟨s3, ?_, ?_⟩
  · unfold wideCode; exact execList_append_ok (execList_append_ok hrun1 hrun2) hrun3
  · obtain ⟨g3, v3, k3, fl3, m3, sy3, fr3⟩ := s3
    simp only at hmem3
    subst hmem3
    rw [kmem_region_dst]
    refine congrArg some ?_
    unfold cryptBlocks
    apply flatMap_range_congr
    intro β hβ
    exact encQ_eq_spec rk src hrkb hsb β (by omega)

theorem wide_run (l : List Instr) (vl : Nat)
    (hd : (Routine.ofListing l).toOption.map (fun r => r.map erasePc) = some (wideCode vl ++ [ins .RET [] 0]))
    (hnc : (wideCode vl).all (fun i => !i.mn.isControl) = true) (hlen : (wideCode vl).length = 585)
    (hvl : validVl vl = true) (g v k rk dst0 src : List Nat)
    (hg : g.length = 16) (hv : v.length = 32) (hrk : rk.length = 32) (hrkb : ∀ x ∈ rk, x < 2 ^ 32)
    (hsrc : src.length = 4 * vl) (hsb : ∀ x ∈ src, x < 2 ^ 8) (hdst : dst0.length = 4 * vl) :
    runDst l 2000 (kernelState g v k rk dst0 src) = .ok (cryptBlocks rk src (vl / 4)) := by
  obtain ⟨s', hrun, hdstv⟩ := wide_body_spec vl hvl g v k rk dst0 src hg hv hrk hrkb hsrc hsb hdst
  unfold runDst
  rw [run_of_decode l (wideCode vl) hd hnc 2000 (by rw [hlen]; decide) _ s' hrun]
  simp only [ok_bind, hdstv]
  rfl

/-- **the listing of `cryptoBlockAsmX4` computes the SM4 block function of the specification on each of the four
    blocks**, for every round-key array, every input, whatever the registers and the destination hold at entry -/
theorem kernelX4_eq_spec (g v k rk dst0 src : List Nat)
    (hg : g.length = 16) (hv : v.length = 32) (hrk : rk.length = 32) (hrkb : ∀ x ∈ rk, x < 2 ^ 32)
    (hsrc : src.length = 64) (hsb : ∀ x ∈ src, x < 2 ^ 8) (hdst : dst0.length = 64) :
    runDst Gen.ListAmd64Asm.cryptoBlockAsmX4 2000 (kernelState g v k rk dst0 src) = .ok (cryptBlocks rk src 4) :=
  wide_run _ 16 wide_decode.1 wide_noControl.1 wide_length.1 (by decide) g v k rk dst0 src hg hv hrk hrkb hsrc hsb hdst

/-- the same for `cryptoBlockAsmX8` (eight blocks, 256-bit vectors) -/
theorem kernelX8_eq_spec (g v k rk dst0 src : List Nat)
    (hg : g.length = 16) (hv : v.length = 32) (hrk : rk.length = 32) (hrkb : ∀ x ∈ rk, x < 2 ^ 32)
    (hsrc : src.length = 128) (hsb : ∀ x ∈ src, x < 2 ^ 8) (hdst : dst0.length = 128) :
    runDst Gen.ListAmd64Asm.cryptoBlockAsmX8 2000 (kernelState g v k rk dst0 src) = .ok (cryptBlocks rk src 8) :=
  wide_run _ 32 wide_decode.2.1 wide_noControl.2.1 wide_length.2.1 (by decide) g v k rk dst0 src hg hv hrk hrkb hsrc hsb hdst

/-- the same for `cryptoBlockAsmX16` (sixteen blocks, 512-bit vectors) -/
theorem kernelX16_eq_spec (g v k rk dst0 src : List Nat)
    (hg : g.length = 16) (hv : v.length = 32) (hrk : rk.length = 32) (hrkb : ∀ x ∈ rk, x < 2 ^ 32)
    (hsrc : src.length = 256) (hsb : ∀ x ∈ src, x < 2 ^ 8) (hdst : dst0.length = 256) :
    runDst Gen.ListAmd64Asm.cryptoBlockAsmX16 2000 (kernelState g v k rk dst0 src) = .ok (cryptBlocks rk src 16) :=
  wide_run _ 64 wide_decode.2.2 wide_noControl.2.2 wide_length.2.2 (by decide) g v k rk dst0 src hg hv hrk hrkb hsrc hsb hdst

end SMGo.Proofs.ISAVal
