import SMGo.Proofs.ISAValLadX0Clr
set_option linter.unusedSimpArgs false
namespace SMGo.Proofs.ISAVal
open SMGo.Model.ISAVal SMGo.Model.GCM SMGo.Proofs.GCM SMGo.Proofs.ISATouch
open SMGo.Model.ISA (Reg Opd Instr)

/-- `loopX0`: the first `G9` bytes of the scratch block are copied to the destination -/
def x0OutCode (p8 p4 p2 p1 pe : Nat) : List DInstr :=
  [ins .NOP [] 0, ins .MOVQ [G 9, G 2] 0] ++ (copyCode 13 6 9 11 p8 p4 p2 p1 pe ++ [ins .SUBQ [G 2, G 6] 0])

def x0OutKeepG : List Nat := [0, 1, 3, 4, 5, 7, 8, 10, 12, 14, 15]

set_option maxHeartbeats 1000000 in
theorem x0out_reach (r : Routine) (k p8 p4 p2 p1 pe : Nat)
    (hs : Slice r k (x0OutCode p8 p4 p2 p1 pe)) (l8 : findPc r p8 = some (r.drop (k + 2)))
    (l4 : findPc r p4 = some (r.drop (k + 10))) (l2 : findPc r p2 = some (r.drop (k + 18))) (l1 : findPc r p1 = some (r.drop (k + 26)))
    (le : findPc r pe = some (r.drop (k + 34))) (Mf : List Nat → List Region) (dbase dlen : Nat) (bf : Buf Mf dbase dlen)
    (d : List Nat) (sp : Nat) (hsrc : ∀ b, b.length = dlen → DataAt (Mf b) sp d) (hdb : ∀ x ∈ d, x < 2 ^ 8)
    (hbase : dbase + dlen < 2 ^ 63) (hsp : sp + d.length < 2 ^ 63)
    (n : Nat) (s : State) (b : List Nat) (so doff : Nat) (hG : s.gpr.length = 16) (hb : b.length = dlen)
    (hm : s.mem = Mf b) (hrem : greg s 9 = n) (hn63 : n < 2 ^ 63) (hp : greg s 6 = sp + so) (h13 : greg s 13 = dbase + doff)
    (hso : so + n ≤ d.length) (hdo : doff + n ≤ dlen) :
    ∃ s' N, N ≤ n + 44 ∧ Reach r k s (k + 36) s' N ∧ s'.mem = Mf (spliceAt b doff ((d.drop so).take n)) ∧
      greg s' 6 = sp + so ∧ RegsKeep x0OutKeepG s s' := by
  have cr := cr_out
  have sA : Slice r k [ins .NOP [] 0, ins .MOVQ [G 9, G 2] 0] := hs.left
  have sC : Slice r (k + 2) (copyCode 13 6 9 11 p8 p4 p2 p1 pe) := hs.right.left
  have sS : Slice r (k + 35) [ins .SUBQ [G 2, G 6] 0] := by
    have := hs.right.right; rw [copy_len] at this; exact this
  let s3 := setGreg s 2 n
  have x3 : execD s (ins .MOVQ [G 9, G 2] 0) = .ok s3 := by
    have := a_movq_rr s 9 2 (by omega) (by omega)
    rw [hrem] at this; exact this
  have hxA : execList [ins .NOP [] 0, ins .MOVQ [G 9, G 2] 0] s = .ok s3 := by
    apply exec_step (s1 := s)
    · rfl
    apply exec_step x3
    exact execList_nil _
  have rA : Reach r k s (k + 2) s3 2 := reach_seg sA (by rfl) hxA
  have hG3 : s3.gpr.length = 16 := by simp [s3]; exact hG
  obtain ⟨s4, N, hN, rC, m4, _, g4p, g46, k4⟩ := copy_reach r (k + 2) 13 6 9 11 p8 p4 p2 p1 pe cr sC l8 (by rw [Nat.add_assoc]; exact l4)
    (by rw [Nat.add_assoc]; exact l2) (by rw [Nat.add_assoc]; exact l1) (by rw [Nat.add_assoc]; exact le) Mf dbase dlen bf d sp hsrc hdb
    hbase hsp n s3 b so doff hG3 hb hm
    (by show greg (setGreg s 2 n) 9 = _; rw [greg_setGreg_ne s 2 n 9 (by decide)]; exact hrem) hn63
    (by show greg (setGreg s 2 n) 6 = _; rw [greg_setGreg_ne s 2 n 6 (by decide)]; exact hp)
    (by show greg (setGreg s 2 n) 13 = _; rw [greg_setGreg_ne s 2 n 13 (by decide)]; exact h13) hso hdo
  have g42 : greg s4 2 = n := by
    rw [k4.g 2 (by decide)]; exact greg_setGreg_eq s 2 n (by omega)
  have hG4 : s4.gpr.length = 16 := by rw [k4.lenG]; exact hG3
  have x5 := a_subq_rr s4 2 6 (by omega) (by omega) (by rw [g42]; omega) (by rw [g4p]; omega)
  rw [g42, g4p, show (sp + so + n + 2 ^ 64 - n) % 2 ^ 64 = sp + so from by omega] at x5
  have r5 : Reach r (k + 35) s4 (k + 36) _ 1 := reach_seg sS (by rfl) (by apply exec_step x5; exact execList_nil _)
  refine ⟨_, 2 + N + 1, by omega, ((rA.trans (rC.cast (by omega) rfl)).trans r5).cast rfl rfl, ?_, ?_, ?_⟩
  · show s4.mem = _
    exact m4
  · rw [greg_setFlags, greg_setGreg_eq s4 6 _ (by omega)]
  · refine ⟨(lenG_sf s4 6 _ _).trans (hG4.trans hG.symm), ?_, ?_, ?_, ?_, ?_⟩
    · intro m hm'
      have hm2 : m ≠ 13 ∧ m ≠ 6 ∧ m ≠ 9 ∧ m ≠ 11 ∧ m ≠ 2 ∧ m < 16 := by
        simp only [x0OutKeepG, List.mem_cons, List.not_mem_nil, or_false] at hm'
        omega
      rw [greg_setFlags, greg_setGreg_ne s4 6 _ m hm2.2.1, k4.g m (by simp [copyKeepG]; omega)]
      exact greg_setGreg_ne s 2 n m hm2.2.2.2.2.1
    · show s4.vec = _; rw [k4.vec]; rfl
    · show s4.kreg = _; rw [k4.kreg]; rfl
    · show s4.syms = _; rw [k4.syms]; rfl
    · show s4.frame = _; rw [k4.frame]; rfl

end SMGo.Proofs.ISAVal
