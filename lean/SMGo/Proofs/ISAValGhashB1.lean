import SMGo.Proofs.ISAValGhashPro
namespace SMGo.Proofs.ISAVal
open SMGo.Model.ISAVal SMGo.Model.ISA SMGo.Model.GCM SMGo.Proofs.GCM

/-- the registers the GHASH loops only read -/
def keepers : List Nat := [19, 22, 23, 24, 25, 26, 29, 30, 31]

/-- `s'` agrees with `s` on everything the loops only read -/
structure Same (s s' : State) : Prop where
  lenG : s'.gpr.length = s.gpr.length
  lenV : s'.vec.length = s.vec.length
  lenK : s'.kreg.length = s.kreg.length
  mem : s'.mem = s.mem
  syms : s'.syms = s.syms
  g3 : greg s' 3 = greg s 3
  v : ∀ n, n ∈ keepers → vreg s' n = vreg s n

theorem Same.refl (s : State) : Same s s := ⟨rfl, rfl, rfl, rfl, rfl, rfl, fun _ _ => rfl⟩

theorem Same.trans {a b c : State} (h1 : Same a b) (h2 : Same b c) : Same a c :=
  ⟨h2.lenG.trans h1.lenG, h2.lenV.trans h1.lenV, h2.lenK.trans h1.lenK, h2.mem.trans h1.mem, h2.syms.trans h1.syms,
    h2.g3.trans h1.g3, fun n hn => (h2.v n hn).trans (h1.v n hn)⟩

theorem Same.setVreg (s : State) (d r : Nat) (hd : d ∉ keepers) : Same s (setVreg s d r) :=
  ⟨rfl, by simp, rfl, rfl, rfl, rfl, fun n hn => vreg_setVreg_ne s d r n (fun e => hd (e ▸ hn))⟩

theorem Same.setGreg (s : State) (d r : Nat) (hd : d ≠ 3) : Same s (setGreg s d r) :=
  ⟨by simp, rfl, rfl, rfl, rfl, greg_setGreg_ne s d r 3 (Ne.symm hd), fun _ _ => rfl⟩

theorem Same.setFlags (s : State) (f : Flags) : Same s (setFlags s f) := ⟨rfl, rfl, rfl, rfl, rfl, rfl, fun _ _ => rfl⟩

theorem keepers_sub : ∀ n, n ∈ keepers → n ∈ persistent := by decide

theorem Same.ofVecOnly {o : Nat} {s s' : State} (h : VecOnly o s s') (hV : s.vec.length = 32) (ho : o ∉ keepers) : Same s s' :=
  ⟨by rw [h.gpr], by rw [h.lenV, hV], by rw [h.kreg], h.mem, h.syms, by show s'.gpr.getD 3 0 = _; rw [h.gpr]; rfl,
    fun n hn => h.keep n (keepers_sub n hn) (fun e => ho (e ▸ hn))⟩

theorem Ctx.same {mem : List Region} {tp h : Nat} {s s' : State} (c : Ctx mem tp h s) (hs : Same s s') : Ctx mem tp h s' where
  lenG := hs.lenG.trans c.lenG
  lenV := hs.lenV.trans c.lenV
  lenK := hs.lenK.trans c.lenK
  hmem := hs.mem.trans c.hmem
  hsyms := hs.syms.trans c.hsyms
  g3 := hs.g3.trans c.g3
  v19 := (hs.v 19 (by decide)).trans c.v19
  hlt := c.hlt
  v22 := (hs.v 22 (by decide)).trans c.v22
  v23 := (hs.v 23 (by decide)).trans c.v23
  v24 := (hs.v 24 (by decide)).trans c.v24
  v25 := by rw [hs.v 25 (by decide)]; exact c.v25
  v26 := (hs.v 26 (by decide)).trans c.v26

theorem imm64_16 : imm64 16 = 16 := by decide +kernel
theorem imm64_64 : imm64 64 = 64 := by decide +kernel
theorem imm64_1' : imm64 1 = 1 := by decide +kernel
theorem imm64_0 : imm64 0 = 0 := by decide +kernel
theorem imm64_3 : imm64 3 = 3 := by decide +kernel
theorem imm64_4' : imm64 4 = 4 := by decide +kernel

theorem addF_fst (a b : Nat) : (addF 8 a b).1 = (a + b) % 2 ^ 64 := rfl
theorem subF_fst (a b : Nat) : (subF 8 a b).1 = (a + 2 ^ 64 - b) % 2 ^ 64 := rfl

/-- one iteration of `loopBy1` (with the `CMPQ count, $0` that follows): Y := (Y ⊕ X)·H on the reflected operands -/
theorem ghB1_spec (mem : List Region) (tp h : Nat) (s : State) (ctx : Ctx mem tp h s) (dp n y : Nat) (blk : List Nat)
    (hg1 : greg s 1 = dp) (hg2 : greg s 2 = n) (hv21 : vreg s 21 = y) (hy : y < 2 ^ 128)
    (hdp : dp + 16 < 2 ^ 64) (hn : 1 ≤ n) (hn63 : n < 2 ^ 63)
    (hrd : readMem mem dp 16 = .ok blk) (hblk : blk.length = 16) (hbb : ∀ x ∈ blk, x < 2 ^ 8) :
    ∃ s', execList b1Code s = .ok s' ∧ Ctx mem tp h s' ∧ greg s' 1 = dp + 16 ∧ greg s' 2 = n - 1 ∧
      vreg s' 21 = gmulR h (y ^^^ rb128 (unlanes 8 blk)) ∧ s'.flags = (subF 8 (n - 1) 0).2 := by
  have hxlt : unlanes 8 blk < 2 ^ 128 := by have := unlanes_lt 8 blk hbb; rwa [hblk] at this
  -- load and pointer increment
  let sA := setVreg s 20 (unlanes 8 blk)
  let sB := setFlags (setGreg sA 1 (addF 8 (greg sA 1) (imm64 16)).1) (addF 8 (greg sA 1) (imm64 16)).2
  have hrunAB : execList [ins .VMOVDQU32 [M 1 0, R 20] 16, ins .ADDQ [.imm 16, G 1] 0] s = .ok sB := by
    apply exec_step (s1 := sA)
    · exact a_vmov_load s 16 1 0 20 blk rfl (by rw [ctx.lenG]; decide) (by rw [ctx.lenV]; decide)
        (by rw [ctx.hmem, hg1, imm64_0, Nat.add_zero, Nat.mod_eq_of_lt (by omega)]; exact hrd)
    apply exec_step (s1 := sB)
    · exact a_addq_imm sA 16 1 (by simp [sA, ctx.lenG])
    rfl
  have sameB : Same s sB :=
    ((Same.setVreg s 20 _ (by decide)).trans (Same.setGreg sA 1 _ (by decide))).trans (Same.setFlags _ _)
  have ctxB := ctx.same sameB
  have hB20 : vreg sB 20 = unlanes 8 blk := by
    show vreg (setFlags (setGreg sA 1 _) _) 20 = _
    rw [vreg_setFlags, vreg_setGreg]; exact vreg_setVreg_eq s 20 _ (by rw [ctx.lenV]; decide)
  have hB21 : vreg sB 21 = y := by
    show vreg (setFlags (setGreg sA 1 _) _) 21 = _
    rw [vreg_setFlags, vreg_setGreg, vreg_setVreg_ne s 20 _ 21 (by decide)]; exact hv21
  have hB1 : greg sB 1 = dp + 16 := by
    show greg (setFlags (setGreg sA 1 _) _) 1 = _
    rw [greg_setFlags, greg_setGreg_eq _ _ _ (by simp [sA, ctx.lenG]), addF_fst, imm64_16]
    show (greg (setVreg s 20 _) 1 + 16) % 2 ^ 64 = _
    rw [greg_setVreg, hg1, Nat.mod_eq_of_lt (by omega)]
  have hB2 : greg sB 2 = n := by
    show greg (setFlags (setGreg sA 1 _) _) 2 = _
    rw [greg_setFlags, greg_setGreg_ne _ _ _ _ (by decide)]; exact hg2
  -- reverseBits of the block
  obtain ⟨s2, hrun2, vo2, lt2, val2⟩ := rb_spec 16 20 0 1 rfl (Or.inr ⟨by decide, rfl, rfl⟩) sB ctxB.lenV ctxB.v22 ctxB.v23 ctxB.v24
  have same2 : Same sB s2 := Same.ofVecOnly vo2 ctxB.lenV (by decide)
  have ctx2 := ctxB.same same2
  have h2_20 : vreg s2 20 = rb128 (unlanes 8 blk) := by
    rw [← lane128_0_of_lt _ lt2, val2 0 (by decide), hB20, lane128_0_of_lt _ hxlt]
  have h2_21 : vreg s2 21 = y := by rw [vo2.keep 21 mem21 (by decide)]; exact hB21
  -- xor with the running value
  let x := map2 32 (16 / 4) (fun a b => b ^^^ a) (vreg s2 21) (vreg s2 20)
  let s3 := setVreg s2 20 x
  have hrun3 : execList [ins .VPXORD [R 21, R 20, R 20] 16] s2 = .ok s3 := by
    apply exec_step (s1 := s3)
    · exact a_vec3 s2 .VPXORD 16 21 20 20 x 32 rfl rfl (by rw [ctx2.lenV]; decide) (by rw [ctx2.lenV]; decide)
        (by rw [ctx2.lenV]; decide) rfl
    rfl
  have same3 : Same s2 s3 := Same.setVreg s2 20 x (by decide)
  have ctx3 := ctx2.same same3
  have hxval : x = rb128 (unlanes 8 blk) ^^^ y := by
    show map2 32 (16 / 4) (fun a b => b ^^^ a) (vreg s2 21) (vreg s2 20) = _
    rw [vpxord_whole, h2_20, h2_21]
    exact Nat.mod_eq_of_lt (Nat.xor_lt_two_pow (rb128_lt _) hy)
  have h3_20 : vreg s3 20 = rb128 (unlanes 8 blk) ^^^ y := by
    rw [← hxval]; exact vreg_setVreg_eq s2 20 x (by rw [ctx2.lenV]; decide)
  -- multiply and reduce
  obtain ⟨s4, hrun4, vo4, lt4, val4⟩ := mulRed_spec 16 19 25 20 21 rfl
    (Or.inl ⟨rfl, rfl⟩) (by decide) (by decide) s3 ctx3.lenV
    (by intro l hl; have : l = 0 := by omega
        subst this; rw [ctx3.v19, lane128_0_of_lt _ ctx3.hlt]; exact ctx3.v25)
    (by intro l hl; rw [ctx3.v26]; exact poly64_lanes l (by omega))
  have same4 : Same s3 s4 := Same.ofVecOnly vo4 ctx3.lenV (by decide)
  have ctx4 := ctx3.same same4
  have h4_21 : vreg s4 21 = gmulR h (y ^^^ rb128 (unlanes 8 blk)) := by
    rw [← lane128_0_of_lt _ lt4, val4 0 (by decide), ctx3.v19, lane128_0_of_lt _ ctx3.hlt, h3_20,
      lane128_0_of_lt _ (Nat.xor_lt_two_pow (rb128_lt _) hy), Nat.xor_comm]
  have h4g1 : greg s4 1 = dp + 16 := by
    show s4.gpr.getD 1 0 = _
    rw [vo4.gpr]; show greg (setVreg s2 20 x) 1 = _
    rw [greg_setVreg]; show s2.gpr.getD 1 0 = _; rw [vo2.gpr]; exact hB1
  have h4g2 : greg s4 2 = n := by
    show s4.gpr.getD 2 0 = _
    rw [vo4.gpr]; show greg (setVreg s2 20 x) 2 = _
    rw [greg_setVreg]; show s2.gpr.getD 2 0 = _; rw [vo2.gpr]; exact hB2
  -- count decrement and comparison
  let s5 := setFlags (setGreg s4 2 (subF 8 (greg s4 2) (imm64 1)).1) (subF 8 (greg s4 2) (imm64 1)).2
  let s6 := setFlags s5 (subF 8 (greg s5 2) (imm64 0)).2
  have hrun5 : execList [ins .SUBQ [.imm 1, G 2] 0, ins .CMPQ [G 2, .imm 0] 0] s4 = .ok s6 := by
    apply exec_step (s1 := s5)
    · exact a_subq_imm s4 1 2 (by rw [ctx4.lenG]; decide)
    apply exec_step (s1 := s6)
    · exact a_cmpq_imm s5 0 2 (by simp [s5, ctx4.lenG])
    rfl
  have h5g2 : greg s5 2 = n - 1 := by
    show greg (setFlags (setGreg s4 2 _) _) 2 = _
    rw [greg_setFlags, greg_setGreg_eq _ _ _ (by rw [ctx4.lenG]; decide), subF_fst, h4g2, imm64_1']
    omega
  have same6 : Same s4 s6 := ((Same.setGreg s4 2 _ (by decide)).trans (Same.setFlags _ _)).trans (Same.setFlags _ _)
  refine ⟨s6, ?_, ctx4.same same6, ?_, ?_, ?_, ?_⟩
  · have hcode : b1Code = [ins .VMOVDQU32 [M 1 0, R 20] 16, ins .ADDQ [.imm 16, G 1] 0] ++ (rbCode 16 20 0 1 ++
        ([ins .VPXORD [R 21, R 20, R 20] 16] ++ (mulRedCode 16 19 25 20 21 ++
          [ins .SUBQ [.imm 1, G 2] 0, ins .CMPQ [G 2, .imm 0] 0]))) := by decide +kernel
    rw [hcode]
    exact execList_append_ok hrunAB (execList_append_ok hrun2 (execList_append_ok hrun3 (execList_append_ok hrun4 hrun5)))
  · show greg (setFlags (setFlags (setGreg s4 2 _) _) _) 1 = _
    rw [greg_setFlags, greg_setFlags, greg_setGreg_ne _ _ _ _ (by decide)]; exact h4g1
  · show greg (setFlags s5 _) 2 = _
    rw [greg_setFlags]; exact h5g2
  · show vreg (setFlags (setFlags (setGreg s4 2 _) _) _) 21 = _
    rw [vreg_setFlags, vreg_setFlags, vreg_setGreg]; exact h4_21
  · show (setFlags s5 (subF 8 (greg s5 2) (imm64 0)).2).flags = _
    rw [flags_setFlags, h5g2, imm64_0]

end SMGo.Proofs.ISAVal
