/-
  C08, part E: what the checker still REJECTS, with two-secret witnesses.

  * `(*SM2Point).GetAffineX_Unsafe` (sm2/internal/sm2_point.go:230) and `(*SM2Point).bytes(out, false)`
    behind `Bytes_Unsafe` (sm2_point.go:174) invert the projective Z with `big.Int.ModInverse`
    (a leaking external call).  They are NOT constant time and must not see secret-dependent points.
    After the repairs they are called only by `VerifyHashed` (sm2/sm2.go:355, 359) on [s]G + [t]P, which
    is computed from the signature and the public key: public data, outside the scope of C08.
    No function reachable from SignHashed, GenerateKey or DerivePublic calls them any more
    (`ct_SignHashed`, `ct_GenerateKey`, `ct_DerivePublic` in part D).

  Documentation of the former violations (found by this check on the tree before the repairs; the
  theorems `reject_SetBytes_n`, `reject_SignHashed`, `reject_GenerateKey`, `reject_DerivePublic`,
  `witness_SetBytes_n` were proved against that tree and are superseded by the positive theorems):
    1. `(*SM2ScalarElement).SetBytes` compared its input with n-1 by an early-exit loop (the number of
       iterations depended on the secret 1+d); witness: 1 against FFFFFFFEFFFFFFFFFFFFFFFFFFFFFFFF00…00,
       traces of 99 and 211 events.  Repaired by 9cead3d (utils.ConstantTimeCmp).
    2. `SignHashed` took x([k]G) with `GetAffineX_Unsafe`, `GenerateKey` / `DerivePublic` converted [d]G
       with `Bytes_Unsafe`: `big.Int.ModInverse` of the secret-dependent Z.  Repaired by 233fd1f
       (GetAffineX / Bytes: inversion by the addition chain).
    3. `utils.ConstantTimeCmp` computed its -1/0/1 result by branching on borrow and diff, so the control
       flow revealed the three-way result where callers need a two-way verdict (in SignHashed's test
       r + k = n: whether k < n - r).  Repaired by 9a85a34 (branch-free result); the verdict sites are now
       the callers' tests only.
    4. `SignHashed` tested `len(rkBytes) == 32 && ConstantTimeCmp(rkBytes, nBytes, 32) == 0` on
       `rkBytes = (r+k).Bytes()` and copied `(1+d).Bytes()` to `buf[32-len(d1Bytes):]`: the byte lengths of
       r + k and 1 + d steered control flow and a slice bound (the comparison was skipped when
       r + k >= 2^256, revealing whether k >= 2^256 - r).  The checker accepted this only under the shape
       hypothesis on math/big results (`OracleRel`); the two-secret harness showed the 99-event difference.
       Repaired by 3579533 (`big.Int.FillBytes` into fixed 33- and 32-byte buffers: an external call whose
       result has the shape of its buffer argument, so the hypothesis holds by construction there).
-/
import SMGo.Gen.CTIRProg
open SMGo.Model.CTIR SMGo.Gen.CTIRProg
set_option maxRecDepth 1000000
namespace SMGo.Proofs.CTIRCheck

theorem reject_GetAffineX_Unsafe : check (slice prog f_internal_SM2Point_GetAffineX_Unsafe) sigs f_internal_SM2Point_GetAffineX_Unsafe = false := by decide +kernel
theorem reject_Bytes_Unsafe : check (slice prog f_internal_SM2Point_Bytes_Unsafe) sigs f_internal_SM2Point_Bytes_Unsafe = false := by decide +kernel
theorem reject_bytes_safe_false : check (slice prog f_internal_SM2Point_bytes_safe_false) sigs f_internal_SM2Point_bytes_safe_false = false := by decide +kernel

/-- the functions of a program that do not respect their signature -/
def failing (P : Prog) (S : Sigs) : List Nat :=
  (List.range P.length).filter (fun g => match P[g]? with
    | some fn => !checkFn P S g fn
    | none => false)

theorem failing_GetAffineX_Unsafe : failing (slice prog f_internal_SM2Point_GetAffineX_Unsafe) sigs = [f_internal_SM2Point_GetAffineX_Unsafe] := by decide +kernel
theorem failing_Bytes_Unsafe : failing (slice prog f_internal_SM2Point_Bytes_Unsafe) sigs = [f_internal_SM2Point_bytes_safe_false] := by decide +kernel

/-- in the whole generated program (every function of the C08 scope and everything the entry points
    reach) exactly the `_Unsafe` conversions fail — `bytes` is the unspecialised body containing both
    variants — and nothing that passes calls them -/
theorem failing_prog : failing prog sigs =
    [f_internal_SM2Point_GetAffineX_Unsafe, f_internal_SM2Point_bytes, f_internal_SM2Point_bytes_safe_false] := by decide +kernel
theorem callers_of_modinverse_conversions :
    (List.range prog.length).filter (fun g => match prog[g]? with
      | some fn => (calleesS fn.body).any (fun c => c == f_internal_SM2Point_GetAffineX_Unsafe ||
          c == f_internal_SM2Point_Bytes_Unsafe || c == f_internal_SM2Point_bytes_safe_false || c == f_internal_SM2Point_bytes)
      | none => false) = [f_internal_SM2Point_Bytes_Unsafe] := by decide +kernel

/-! ## two-secret witnesses -/

/-- both runs terminate, declassify the same verdicts, and leak different traces -/
def tracesDiffer (P : Prog) (G : Nat → Val) (X : Oracle) (fuel g : Nat) (a1 a2 : List Val) : Bool :=
  match run P G X fuel g a1, run P G X fuel g a2 with
  | some (_, t1), some (_, t2) => decide (declassOf t1 = declassOf t2) && (traceDigest t1 != traceDigest t2)
  | _, _ => false

theorem tracesDiffer_spec {P : Prog} {G : Nat → Val} {X : Oracle} {fuel g : Nat} {a1 a2 : List Val}
    (h : tracesDiffer P G X fuel g a1 a2 = true) :
    ∃ c1 t1 c2 t2, run P G X fuel g a1 = some (c1, t1) ∧ run P G X fuel g a2 = some (c2, t2) ∧
      declassOf t1 = declassOf t2 ∧ t1 ≠ t2 := by
  unfold tracesDiffer at h
  split at h
  · rename_i c1 t1 c2 t2 h1 h2
    simp only [Bool.and_eq_true, decide_eq_true_eq, bne_iff_ne, ne_eq] at h
    exact ⟨c1, t1, c2, t2, h1, h2, h.1, fun e => h.2 (by rw [e])⟩
  · cases h

/-- the external world of the witnesses: the concrete model of the math/big calls (SMGo/Model/CTIR.lean),
    the one for which `OracleRel` is proved (SMGo/Proofs/CTIROracle.lean) -/
def bigX : Oracle := stdOracle extKinds (fun _ _ => 0)

def el (a : Nat) : Val := .arr [.arr [.int (Int.ofNat a), .int 0, .int 0, .int 0]]
/-- two projective points that differ only in Z (raw Montgomery limbs) -/
def pointA : Val := .arr [el 5, el 7, el 1]
def pointB : Val := .arr [el 5, el 7, el 2]

theorem witness_GetAffineX_Unsafe :
    tracesDiffer (slice prog f_internal_SM2Point_GetAffineX_Unsafe) globals bigX 100000
      f_internal_SM2Point_GetAffineX_Unsafe [pointA] [pointB] = true := by decide +kernel

theorem witness_Bytes_Unsafe :
    tracesDiffer (slice prog f_internal_SM2Point_Bytes_Unsafe) globals bigX 100000
      f_internal_SM2Point_Bytes_Unsafe [pointA] [pointB] = true := by decide +kernel

end SMGo.Proofs.CTIRCheck
