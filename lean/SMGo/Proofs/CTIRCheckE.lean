/-
  C08, part E: what the checker REJECTS on the current sources, and two-secret witnesses.

  * `(*SM2ScalarElement).SetBytes` (sm2/internal/fiat/sm2_scalar_element.go:95) compares its input with
    n-1 by an early-exit loop: the number of iterations depends on the (secret) value.
  * `(*SM2Point).GetAffineX_Unsafe` (sm2/internal/sm2_point.go:226) and `(*SM2Point).bytes(out, false)`
    behind `Bytes_Unsafe` (sm2_point.go:141) invert the secret-dependent projective Z with
    `big.Int.ModInverse` (a leaking external call).
  * `SignHashed`, `GenerateKey`, `DerivePublic` (sm2/sm2.go) are rejected exactly because they call
    those (`failing_*`: every other function they reach passes).
  Each witness runs the concrete interpreter on two secrets of the same shape with the same
  declassified verdicts and finds two different leakage traces.
-/
import SMGo.Gen.CTIRProg
open SMGo.Model.CTIR SMGo.Gen.CTIRProg
set_option maxRecDepth 1000000
namespace SMGo.Proofs.CTIRCheck

theorem reject_SetBytes_n : check (slice prog f_fiat_SM2ScalarElement_SetBytes) sigs f_fiat_SM2ScalarElement_SetBytes = false := by decide +kernel
theorem reject_GetAffineX_Unsafe : check (slice prog f_internal_SM2Point_GetAffineX_Unsafe) sigs f_internal_SM2Point_GetAffineX_Unsafe = false := by decide +kernel
theorem reject_Bytes_Unsafe : check (slice prog f_internal_SM2Point_Bytes_Unsafe) sigs f_internal_SM2Point_Bytes_Unsafe = false := by decide +kernel
theorem reject_bytes_unsafe : check (slice prog f_internal_SM2Point_bytes_safe_false) sigs f_internal_SM2Point_bytes_safe_false = false := by decide +kernel
theorem reject_DerivePublic : check (slice prog f_sm2_DerivePublic) sigs f_sm2_DerivePublic = false := by decide +kernel
theorem reject_GenerateKey : check (slice prog f_sm2_GenerateKey) sigs f_sm2_GenerateKey = false := by decide +kernel
theorem reject_SignHashed : check (slice prog f_sm2_SignHashed) sigs f_sm2_SignHashed = false := by decide +kernel

/-- the functions of a program that do not respect their signature -/
def failing (P : Prog) (S : Sigs) : List Nat :=
  (List.range P.length).filter (fun g => match P[g]? with
    | some fn => !checkFn P S g fn
    | none => false)

/-- the entry points fail only through the three rejected callees -/
theorem failing_SignHashed : failing (slice prog f_sm2_SignHashed) sigs =
    [f_fiat_SM2ScalarElement_SetBytes, f_internal_SM2Point_GetAffineX_Unsafe] := by decide +kernel
theorem failing_GenerateKey : failing (slice prog f_sm2_GenerateKey) sigs = [f_internal_SM2Point_bytes_safe_false] := by decide +kernel
theorem failing_DerivePublic : failing (slice prog f_sm2_DerivePublic) sigs = [f_internal_SM2Point_bytes_safe_false] := by decide +kernel
theorem failing_SetBytes_n : failing (slice prog f_fiat_SM2ScalarElement_SetBytes) sigs = [f_fiat_SM2ScalarElement_SetBytes] := by decide +kernel
theorem failing_GetAffineX_Unsafe : failing (slice prog f_internal_SM2Point_GetAffineX_Unsafe) sigs = [f_internal_SM2Point_GetAffineX_Unsafe] := by decide +kernel
theorem failing_Bytes_Unsafe : failing (slice prog f_internal_SM2Point_Bytes_Unsafe) sigs = [f_internal_SM2Point_bytes_safe_false] := by decide +kernel

/-! ## two-secret witnesses -/

/-- both runs terminate, declassify the same verdicts, and leak different traces -/
def tracesDiffer (P : Prog) (G : Nat → Val) (X : Oracle) (fuel g : Nat) (a1 a2 : List Val) : Bool :=
  match run P G X fuel g a1, run P G X fuel g a2 with
  | some (_, t1), some (_, t2) => decide (declassOf t1 = declassOf t2) && (traceDigest t1 != traceDigest t2)
  | _, _ => false

theorem tracesDiffer_spec {P : Prog} {G : Nat → Val} {X : Oracle} {fuel g : Nat} {a1 a2 : List Val}
    (h : tracesDiffer P G X fuel g a1 a2 = true) :
    ∃ c1 t1 c2 t2, run P G X fuel g a1 = some (c1, t1) ∧ run P G X fuel g a2 = some (c2, t2) ∧
      declassOf t1 = declassOf t2 ∧ t1 ≠ t2 := by
  unfold tracesDiffer at h
  split at h
  · rename_i c1 t1 c2 t2 h1 h2
    simp only [Bool.and_eq_true, decide_eq_true_eq, bne_iff_ne, ne_eq] at h
    exact ⟨c1, t1, c2, t2, h1, h2, h.1, fun e => h.2 (by rw [e])⟩
  · cases h

def bytesNat (l : List Val) : Nat :=
  l.foldl (fun n v => match v with | .int b => n * 256 + b.toNat | _ => n) 0

/-- external world for the witnesses: `big.Int.SetBytes` is exact, `big.Int.Bytes` returns the empty
    encoding, everything else zeros of the declared arity (the leaked arguments are in the trace before the result is used) -/
def bigX : Oracle := fun name args =>
  if name = x_big_Int_SetBytes then
    match args with
    | [.arr b] => [.int (Int.ofNat (bytesNat b))]
    | _ => [.int 0]
  else if name = x_big_Int_Bytes then [.arr []]
  else (sigs.ext.getD name []).map (fun _ => .int 0)

def scalarZero : Val := .arr [.arr [.int 0, .int 0, .int 0, .int 0]]

/-- 1 (the loop of SetBytes leaves at its first byte) -/
def secretA : Val := natBytes 32 1
/-- 0xFFFFFFFEFFFFFFFFFFFFFFFFFFFFFFFF00…00 (agrees with n-1 on 16 bytes: 17 iterations) -/
def secretB : Val := natBytes 32 0xFFFFFFFEFFFFFFFFFFFFFFFFFFFFFFFF00000000000000000000000000000000

theorem witness_SetBytes_n :
    tracesDiffer (slice prog f_fiat_SM2ScalarElement_SetBytes) globals bigX 100000
      f_fiat_SM2ScalarElement_SetBytes [scalarZero, secretA] [scalarZero, secretB] = true := by decide +kernel

def el (a : Nat) : Val := .arr [.arr [.int (Int.ofNat a), .int 0, .int 0, .int 0]]
/-- two projective points that differ only in Z (raw Montgomery limbs) -/
def pointA : Val := .arr [el 5, el 7, el 1]
def pointB : Val := .arr [el 5, el 7, el 2]

theorem witness_GetAffineX_Unsafe :
    tracesDiffer (slice prog f_internal_SM2Point_GetAffineX_Unsafe) globals bigX 100000
      f_internal_SM2Point_GetAffineX_Unsafe [pointA] [pointB] = true := by decide +kernel

theorem witness_Bytes_Unsafe :
    tracesDiffer (slice prog f_internal_SM2Point_Bytes_Unsafe) globals bigX 100000
      f_internal_SM2Point_Bytes_Unsafe [pointA] [pointB] = true := by decide +kernel

end SMGo.Proofs.CTIRCheck
