/-
  **The arm64 listing of `cryptoBlockAsmX4` = four SM4 block functions of the specification**, for all round keys,
  all four blocks, any register / destination contents — under the UNVALIDATED arm64 semantics of
  SMGo/Model/ISAValArm64.lean.  The listing decodes to prologue ++ 32 × (key load, VDUP, `subRoundX4`) ++ epilogue.
-/
import SMGo.Proofs.ISAValArm64X4
namespace SMGo.Proofs.ISAValArm64
open SMGo.Model.ISAValArm64 SMGo.Model.ISA SMGo
open SMGo.Model.ISAVal (lane lanes unlanes Region readMem writeMem lookup regionBase)
open SMGo.Proofs.ISAVal (list16 stepN iterN beBytes iterN_take getD_lt unlanes_lanes lanes_length)

/-- the specification on block `e` of a byte string, as numbers -/
def specBlock (rk src : List Nat) (e : Nat) : List Nat :=
  (Spec.SM4.crypt (rk.map (BitVec.ofNat 32)) ((blockAt src e).map UInt8.ofNat)).map (·.toNat)

structure X4Env (S : State) (rk src : List Nat) (aRk aSrc : Nat) (rDst : Nat) (dst0 : List Nat) : Prop where
  hG : S.gpr.length = 31
  hV : S.vec.length = 32
  sbox : lookup S.syms "SBox" = some 4294967296
  sb0 : readMem S.mem 4294967296 64 = .ok (sbQuarter 0)
  sb1 : readMem S.mem 4294967360 64 = .ok (sbQuarter 1)
  sb2 : readMem S.mem 4294967424 64 = .ok (sbQuarter 2)
  sb3 : readMem S.mem 4294967488 64 = .ok (sbQuarter 3)
  fSrc : lookup S.frame "src" = some aSrc
  srcR : readMem S.mem aSrc 64 = .ok src
  fRk : lookup S.frame "rk" = some aRk
  rkLt : aRk + 4 * 32 < 2 ^ 64
  rkR : ∀ i, i < 32 → readMem S.mem (aRk + 4 * i) 4 = .ok (lanes 8 4 (rk.getD i 0))
  fDst : lookup S.frame "dst" = some (regionBase rDst)
  dstM : S.mem[rDst]? = some ⟨"dst", dst0, true⟩
  dstLen : dst0.length = 64

def x4Code : List DInstr := pro4Code ++ roundsCodeL .S4 32 ++ epi4Code

theorem outBytes_length (X : Nat × Nat × Nat × Nat) : (outBytes X).length = 16 := by simp [outBytes, beBytes]

theorem blockAt_length (src : List Nat) (hsrc : src.length = 64) (e : Nat) (he : e < 4) : (blockAt src e).length = 16 := by
  simp only [blockAt, List.length_take, List.length_drop, hsrc]; omega

theorem blockAt_lt (src : List Nat) (hsb : ∀ x ∈ src, x < 256) (e : Nat) : ∀ x ∈ blockAt src e, x < 256 :=
  fun x hx => hsb x (List.mem_of_mem_drop (List.mem_of_mem_take hx))

set_option maxRecDepth 10000 in
theorem x4_body_generic (S : State) (rk src : List Nat) (aRk aSrc rDst : Nat) (dst0 : List Nat)
    (env : X4Env S rk src aRk aSrc rDst dst0)
    (hrk : rk.length = 32) (hrkb : ∀ x ∈ rk, x < 2 ^ 32) (hsrc : src.length = 64) (hsb : ∀ x ∈ src, x < 256) :
    ∃ s', execList x4Code S = .ok s' ∧
      s'.mem = S.mem.set rDst ⟨"dst", specBlock rk src 0 ++ (specBlock rk src 1 ++ (specBlock rk src 2 ++ specBlock rk src 3)), true⟩ := by
  obtain ⟨s1', hrun1, hr1⟩ := prologue4_spec S env.hG env.hV aSrc aRk (regionBase rDst) src hsb
    env.sbox env.sb0 env.sb1 env.sb2 env.sb3 env.fSrc env.srcR env.fRk env.fDst
  obtain ⟨s2', hrun2, hr2⟩ := readyL_rounds .S4 (Or.inl rfl) S.mem S.syms S.frame aRk (regionBase rDst)
    (fun i => lanes 8 4 (rk.getD i 0)) env.rkLt env.rkR
    (fun i _ => by rw [unlanes_lanes]; exact Nat.mod_lt _ (by decide)) _ s1' hr1 32 (Nat.le_refl _)
  have hkw : (fun i => unlanes 8 (lanes 8 4 (rk.getD i 0))) = (fun i => rk.getD i 0) := by
    funext i
    rw [unlanes_lanes]; exact Nat.mod_eq_of_lt (getD_lt rk hrkb i)
  simp only [hkw, iterN_take rk _ 32 (by omega), List.take_of_length_le (Nat.le_of_eq hrk)] at hr2
  -- the store
  have hlen : (outBytes (rk.foldl stepN (blockWords (blockAt src 0))) ++ (outBytes (rk.foldl stepN (blockWords (blockAt src 1)))
      ++ (outBytes (rk.foldl stepN (blockWords (blockAt src 2))) ++ outBytes (rk.foldl stepN (blockWords (blockAt src 3)))))).length = 64 := by
    simp only [List.length_append, outBytes_length]
  have hw := write_region S.mem rDst "dst" dst0 0 _ env.dstM (by rw [hlen, env.dstLen]; decide) (by decide)
  rw [Nat.add_zero, hlen, List.take_zero, List.nil_append, Nat.zero_add,
    List.drop_of_length_le (Nat.le_of_eq env.dstLen), List.append_nil] at hw
  obtain ⟨s3', hrun3, hmem3⟩ := epilogue4_spec S.mem S.syms S.frame _ _ _ s2' _ hr2 hw
  refine ⟨s3', execList_append_ok (execList_append_ok hrun1 hrun2) hrun3, ?_⟩
  rw [hmem3]
  simp only [specBlock,
    ← block_spec rk _ hrkb (blockAt_length src hsrc 0 (by decide)) (blockAt_lt src hsb 0),
    ← block_spec rk _ hrkb (blockAt_length src hsrc 1 (by decide)) (blockAt_lt src hsb 1),
    ← block_spec rk _ hrkb (blockAt_length src hsrc 2 (by decide)) (blockAt_lt src hsb 2),
    ← block_spec rk _ hrkb (blockAt_length src hsrc 3 (by decide)) (blockAt_lt src hsb 3)]

theorem x4_decode :
    (zipDecode Gen.ListArm64Asm.cryptoBlockAsmX4 Gen.ListArm64AsmArr.cryptoBlockAsmX4_arr).toOption.map
        (fun r => r.map erasePc) = some (x4Code ++ [retI]) := by decide +kernel

theorem x4_noRet : x4Code.all (fun i => i.mn != .RET) = true := by decide +kernel

theorem run_x4 (s s' : State) (h : execList x4Code s = .ok s') :
    run Gen.ListArm64Asm.cryptoBlockAsmX4 Gen.ListArm64AsmArr.cryptoBlockAsmX4_arr s = .ok s' :=
  run_of_decode _ _ x4Code x4_decode x4_noRet s s' h

theorem ks4_env (g v rk dst0 src : List Nat) (hg : g.length = 31) (hv : v.length = 32) (hrk : rk.length = 32)
    (hsrc : src.length = 64) (hdst : dst0.length = 64) :
    X4Env (kernelState g v rk dst0 src) rk src (regionBase 3) (regionBase 5) 4 dst0 where
  hG := hg
  hV := hv
  sbox := symTab_sbox
  sb0 := read_sbox _ rfl 0 (by decide)
  sb1 := read_sbox _ rfl 1 (by decide)
  sb2 := read_sbox _ rfl 2 (by decide)
  sb3 := read_sbox _ rfl 3 (by decide)
  fSrc := frame_src
  srcR := by
    have := read_region (kernelState g v rk dst0 src).mem 5 ⟨"src", src, false⟩ 0 64 rfl (by simp only [hsrc]; omega) (by decide)
    rw [Nat.add_zero, List.drop_zero, List.take_of_length_le (Nat.le_of_eq hsrc)] at this
    exact this
  fRk := frame_rk
  rkLt := by decide
  rkR := fun i hi => read_rk _ 3 rk rfl hrk i hi
  fDst := frame_dst
  dstM := rfl
  dstLen := hdst

/-- **the arm64 listing of `cryptoBlockAsmX4` computes the SM4 block function of the specification on each of
    its four blocks**, for every round-key array, whatever the registers and the destination buffer hold at entry -/
theorem kernelX4_eq_spec (g v rk dst0 src : List Nat)
    (hg : g.length = 31) (hv : v.length = 32) (hrk : rk.length = 32) (hrkb : ∀ x ∈ rk, x < 2 ^ 32)
    (hsrc : src.length = 64) (hsb : ∀ x ∈ src, x < 256) (hdst : dst0.length = 64) :
    runDst Gen.ListArm64Asm.cryptoBlockAsmX4 Gen.ListArm64AsmArr.cryptoBlockAsmX4_arr (kernelState g v rk dst0 src)
      = .ok (specBlock rk src 0 ++ (specBlock rk src 1 ++ (specBlock rk src 2 ++ specBlock rk src 3))) := by
  have env := ks4_env g v rk dst0 src hg hv hrk hsrc hdst
  obtain ⟨s', hrun, hmem⟩ := x4_body_generic _ rk src _ _ _ _ env hrk hrkb hsrc hsb
  unfold runDst
  rw [run_x4 _ s' hrun]
  obtain ⟨g3, v3, m3, sy3, fr3⟩ := s'
  simp only at hmem
  subst hmem
  simp only [ok_bind]
  rw [dst_after g3 v3 _ sy3 fr3 _ rfl rfl rfl _ rfl (by show (4 : Nat) < 6; decide)]
  rfl

end SMGo.Proofs.ISAValArm64

#print axioms SMGo.Proofs.ISAValArm64.kernelX4_eq_spec
