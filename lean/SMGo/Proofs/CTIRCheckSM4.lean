/-
  C09 (Go glue): the CT-IR label checker evaluated by the kernel on the generated programs of the SM4 / GCM
  glue (SMGo/Gen/CTIRProgSM4.lean), one program per architecture.  `check (slice prog f) sigs f = true`:
  every function reachable from `f` respects its label signature (key material, nonce, plaintext,
  ciphertext, additional data, tag and counter BYTES are secret; lengths, capacities, tag and nonce
  sizes, block counts are public).  The assembly routines are external calls; `framed`: each call of a
  routine directly follows a leaking record of the routine and all its non-pointer arguments, which
  the checker therefore forces to be public.
-/
import SMGo.Gen.CTIRProgSM4
open SMGo.Model.CTIR
set_option maxRecDepth 1000000
namespace SMGo.Proofs.CTIRCheckSM4

namespace Arm64
open SMGo.Gen.CTIRProgSM4.Arm64

theorem ct_Seal : check (slice prog f_sm4_sm4GcmAsm_Seal) sigs f_sm4_sm4GcmAsm_Seal = true := by decide +kernel
theorem ct_Encrypt : check (slice prog f_sm4_sm4CipherAsm_Encrypt) sigs f_sm4_sm4CipherAsm_Encrypt = true := by decide +kernel
theorem ct_calculateFirstCounter : check (slice prog f_sm4_sm4GcmAsm_calculateFirstCounter) sigs f_sm4_sm4GcmAsm_calculateFirstCounter = true := by decide +kernel
theorem ct_gHashUpdate : check (slice prog f_sm4_sm4GcmAsm_gHashUpdate) sigs f_sm4_sm4GcmAsm_gHashUpdate = true := by decide +kernel
theorem ct_gHashFinish : check (slice prog f_sm4_sm4GcmAsm_gHashFinish) sigs f_sm4_sm4GcmAsm_gHashFinish = true := by decide +kernel
theorem ct_ensureCapacity : check (slice prog f_sm4_ensureCapacity) sigs f_sm4_ensureCapacity = true := by decide +kernel
theorem ct_cryptoBlocks : check (slice prog f_sm4_sm4GcmAsm_cryptoBlocks) sigs f_sm4_sm4GcmAsm_cryptoBlocks = true := by decide +kernel
theorem ct_fillCounter256 : check (slice prog f_sm4_fillCounter256) sigs f_sm4_fillCounter256 = true := by decide +kernel
theorem ct_fillSingleBlock : check (slice prog f_sm4_fillSingleBlock) sigs f_sm4_fillSingleBlock = true := by decide +kernel
theorem ct_fillCounter128 : check (slice prog f_sm4_fillCounter128) sigs f_sm4_fillCounter128 = true := by decide +kernel
theorem ct_fillCounter64 : check (slice prog f_sm4_fillCounter64) sigs f_sm4_fillCounter64 = true := by decide +kernel
theorem ct_fillCounter32 : check (slice prog f_sm4_fillCounter32) sigs f_sm4_fillCounter32 = true := by decide +kernel
theorem ct_fillCounter16 : check (slice prog f_sm4_fillCounter16) sigs f_sm4_fillCounter16 = true := by decide +kernel
theorem ct_Open : check (slice prog f_sm4_sm4GcmAsm_Open) sigs f_sm4_sm4GcmAsm_Open = true := by decide +kernel
theorem ct_init_errOpen : check (slice prog f_init_sm4_errOpen) sigs f_init_sm4_errOpen = true := by decide +kernel
theorem ct_Decrypt : check (slice prog f_sm4_sm4CipherAsm_Decrypt) sigs f_sm4_sm4CipherAsm_Decrypt = true := by decide +kernel
theorem ct_NewGCM : check (slice prog f_sm4_sm4CipherAsm_NewGCM) sigs f_sm4_sm4CipherAsm_NewGCM = true := by decide +kernel
theorem ct_newCipher : check (slice prog f_sm4_newCipher) sigs f_sm4_newCipher = true := by decide +kernel

/-- every declassification in the whole program: site 0 only, used once — the tag-match verdict of Open -/
theorem sites_all : prog.flatMap (fun fn => sitesS fn.body) = [0] := by decide +kernel
theorem sites_Open : sitesOf prog f_sm4_sm4GcmAsm_Open = [0] := by decide +kernel
theorem sites_Seal : sitesOf prog f_sm4_sm4GcmAsm_Seal = [] := by decide +kernel
/-- the frame discipline: every routine call follows the leaking record of its non-pointer arguments -/
theorem frames : framed prog asmSpecs frameExt = true := by decide +kernel
/-- result arities of the routines agree with the declared labels -/
theorem specs_ok : specsOk asmSpecs sigs.ext = true := by decide +kernel
theorem prog_length : prog.length = 18 := by decide +kernel

end Arm64

namespace Amd64
open SMGo.Gen.CTIRProgSM4.Amd64

theorem ct_Seal : check (slice prog f_sm4_sm4GcmAsm_Seal) sigs f_sm4_sm4GcmAsm_Seal = true := by decide +kernel
theorem ct_ensureCapacity : check (slice prog f_sm4_ensureCapacity) sigs f_sm4_ensureCapacity = true := by decide +kernel
theorem ct_Open : check (slice prog f_sm4_sm4GcmAsm_Open) sigs f_sm4_sm4GcmAsm_Open = true := by decide +kernel
theorem ct_init_errOpen : check (slice prog f_init_sm4_errOpen) sigs f_init_sm4_errOpen = true := by decide +kernel
theorem ct_Encrypt : check (slice prog f_sm4_sm4CipherAsm_Encrypt) sigs f_sm4_sm4CipherAsm_Encrypt = true := by decide +kernel
theorem ct_Decrypt : check (slice prog f_sm4_sm4CipherAsm_Decrypt) sigs f_sm4_sm4CipherAsm_Decrypt = true := by decide +kernel
theorem ct_NewGCM : check (slice prog f_sm4_sm4CipherAsm_NewGCM) sigs f_sm4_sm4CipherAsm_NewGCM = true := by decide +kernel
theorem ct_newCipher : check (slice prog f_sm4_newCipher) sigs f_sm4_newCipher = true := by decide +kernel

/-- every declassification in the whole program: site 0 only, used once — the tag-match verdict of Open -/
theorem sites_all : prog.flatMap (fun fn => sitesS fn.body) = [0] := by decide +kernel
theorem sites_Open : sitesOf prog f_sm4_sm4GcmAsm_Open = [0] := by decide +kernel
theorem sites_Seal : sitesOf prog f_sm4_sm4GcmAsm_Seal = [] := by decide +kernel
/-- the frame discipline: every routine call follows the leaking record of its non-pointer arguments -/
theorem frames : framed prog asmSpecs frameExt = true := by decide +kernel
/-- result arities of the routines agree with the declared labels -/
theorem specs_ok : specsOk asmSpecs sigs.ext = true := by decide +kernel
theorem prog_length : prog.length = 8 := by decide +kernel

end Amd64

end SMGo.Proofs.CTIRCheckSM4
