/-
  Lemmas for property C19, signing half: the loop of `SignHashed` sees the randomness script only
  through its complete 32-byte candidates (`Spec.SM2.candidates`), and returns an error when they are
  exhausted (failure or end of the stream, before the first draw, in the middle of one, or after any
  number of rejected candidates).  `signStep` is the body of the loop for one complete draw.
  Core Lean only; no facts about the curve are used.
-/
import SMGo.Model.SM2Proto
import SMGo.Spec.SM2Proto
import SMGo.Proofs.UtilsCmp
import SMGo.Proofs.SM2Reader
import SMGo.Proofs.SM2Key
namespace SMGo.Proofs.SM2ReaderSign
open SMGo SMGo.Model SMGo.Model.SM2 SMGo.Proofs.SM2Reader
open SMGo.Spec.SM2 (candidates)

variable {α β : Type}

/-- the body of the loop of `SignHashed` for one completely filled nonce buffer `K`:
    `none` = `continue` (draw again), `some o` = the call returns `o` -/
def signStep (X : Ctx α β) (priv e K : Bytes) : Option (Outcome (Bytes × Bytes)) :=
  match Utils.constantTimeCmp (some K) (some (nBytes X)) 32 with
  | .ok c =>
    if c ≥ 0 ∨ K.all (· == 0) then none else
    match scalarBaseMult X K with
    | .ok kG =>
      let x := Point.getAffineX X.C kG
      let eInt := Bytes.toNatBE e
      let rInt := (x + eInt) % X.n
      if rInt = 0 then none else
      let k := Bytes.toNatBE K
      let rkInt := rInt + k
      match fillBytes 33 rkInt with
      | .ok rkBuf =>
        match Utils.constantTimeCmp (some rkBuf) (some (nBytes33 X)) 33 with
        | .ok c33 =>
          if c33 = 0 then none else
          let dInt := Bytes.toNatBE priv
          let d1Int := dInt + 1
          match fillBytes 32 d1Int with
          | .ok buf =>
            match Field.scalarSetBytes X.S buf with
            | .ok d1 =>
              let d1Inv := Field.invert X.S d1
              let sInt := (rkInt * Field.toNat X.S d1Inv + (X.n - rInt % X.n)) % X.n
              if sInt = 0 then none else
              some (.ok (ensure32 rInt, ensure32 sInt))
            | _ => some .panic
          | _ => some .panic
        | _ => some .panic
      | _ => some .panic
    | .err => some .err
    | .panic => some .panic
  | _ => some .panic

/-- one iteration of the model's loop, in terms of `readFull` and `signStep` -/
theorem signLoop_succ (X : Ctx α β) (priv e : Bytes) (f : Nat) (sc : Script) :
    signLoop X priv e (f + 1) sc =
      match readFull sc 32 [] with
      | (none, _) => .err
      | (some K, sc') =>
        match signStep X priv e K with
        | none => signLoop X priv e f sc'
        | some (.ok rs) => .ok (rs, sc')
        | some .err => .err
        | some .panic => .panic := by
  rw [signLoop]
  rcases readFull sc 32 [] with ⟨_ | K, sc'⟩
  · rfl
  · simp only [signStep]
    cases Utils.constantTimeCmp (some K) (some (nBytes X)) 32 with
    | err => rfl
    | panic => rfl
    | ok c =>
      simp only
      split
      · rfl
      · cases scalarBaseMult X K with
        | err => rfl
        | panic => rfl
        | ok kG =>
          simp only
          split
          · rfl
          · cases fillBytes 33 ((Point.getAffineX X.C kG + Bytes.toNatBE e) % X.n + Bytes.toNatBE K) with
            | err => rfl
            | panic => rfl
            | ok rkBuf =>
              simp only
              cases Utils.constantTimeCmp (some rkBuf) (some (nBytes33 X)) 33 with
              | err => rfl
              | panic => rfl
              | ok c33 =>
                simp only
                split
                · rfl
                · cases fillBytes 32 (Bytes.toNatBE priv + 1) with
                  | err => rfl
                  | panic => rfl
                  | ok buf =>
                    simp only
                    cases Field.scalarSetBytes X.S buf with
                    | err => rfl
                    | panic => rfl
                    | ok d1 =>
                      simp only
                      split
                      · rfl
                      · rfl

/-- the loop over a list of candidates: result and index of the candidate used -/
def signOver (X : Ctx α β) (priv e : Bytes) : List Bytes → Nat → Outcome ((Bytes × Bytes) × Nat)
  | [], _ => .err
  | K :: ks, j =>
    match signStep X priv e K with
    | none => signOver X priv e ks (j + 1)
    | some (.ok rs) => .ok (rs, j)
    | some .err => .err
    | some .panic => .panic

/-- the loop of the model against the loop over the candidate list, for sufficient fuel -/
theorem signLoop_spec (X : Ctx α β) (priv e : Bytes) : ∀ (f : Nat) (sc : Script) (j0 : Nat),
    (candidates sc []).length < f →
    match signOver X priv e (candidates sc []) j0 with
    | .ok (rs, j) => ∃ sc', signLoop X priv e f sc = .ok (rs, sc') ∧ avail sc + 32 * j0 = avail sc' + 32 * (j + 1)
    | .err => signLoop X priv e f sc = .err
    | .panic => signLoop X priv e f sc = .panic := by
  intro f
  induction f with
  | zero => intro sc j0 h; omega
  | succ f ih =>
    intro sc j0 hf
    rw [signLoop_succ]
    rcases readFull_cases sc with ⟨K, sc', hread, hc, hK, hav⟩ | ⟨sc', hread, hc⟩
    · rw [hread, hc]
      simp only [signOver]
      cases hstep : signStep X priv e K with
      | none =>
        simp only
        have hlen : (candidates sc' []).length < f := by rw [hc] at hf; simpa using hf
        have := ih sc' (j0 + 1) hlen
        cases hover : signOver X priv e (candidates sc' []) (j0 + 1) with
        | err => rw [hover] at this; exact this
        | panic => rw [hover] at this; exact this
        | ok p =>
          rw [hover] at this
          obtain ⟨rs, j⟩ := p
          obtain ⟨sc'', h1, h2⟩ := this
          exact ⟨sc'', h1, by omega⟩
      | some o =>
        cases o with
        | err => rfl
        | panic => rfl
        | ok rs => exact ⟨sc', rfl, by omega⟩
    · rw [hread, hc]
      rfl

/-- even without enough fuel: when every candidate is rejected the loop returns an error -/
theorem signLoop_err_of_exhausted (X : Ctx α β) (priv e : Bytes) : ∀ (f : Nat) (sc : Script),
    (∀ K ∈ candidates sc [], signStep X priv e K = none) → signLoop X priv e f sc = .err := by
  intro f
  induction f with
  | zero => intro sc _; rfl
  | succ f ih =>
    intro sc h
    rw [signLoop_succ]
    rcases readFull_cases sc with ⟨K, sc', hread, hc, hK, hav⟩ | ⟨sc', hread, hc⟩
    · rw [hread]
      rw [hc] at h
      simp only [h K (List.mem_cons_self ..)]
      exact ih sc' (fun K' hK' => h K' (List.mem_cons_of_mem _ hK'))
    · rw [hread]

theorem signOver_err_of_exhausted (X : Ctx α β) (priv e : Bytes) : ∀ (l : List Bytes) (j : Nat),
    (∀ K ∈ l, signStep X priv e K = none) → signOver X priv e l j = .err := by
  intro l
  induction l with
  | nil => intro j _; rfl
  | cons K ks ih =>
    intro j h
    simp only [signOver, h K (List.mem_cons_self ..)]
    exact ih (j + 1) (fun K' hK' => h K' (List.mem_cons_of_mem _ hK'))

/-- `SignHashed` as a function of the candidate list only: key test, then the first candidate that
    is not rejected; 32 bytes are consumed per candidate tried -/
theorem signHashed_eq_signOver (X : Ctx α β) (sc : Script) (priv e : Bytes) :
    signHashed X sc priv e =
      (testPrivateKey X priv >>= fun test =>
        if test ≠ 0 then .err else
        signOver X priv e (candidates sc []) 0 >>= fun p => pure (p.1, 32 * (p.2 + 1))) := by
  unfold signHashed
  cases testPrivateKey X priv with
  | err => rfl
  | panic => rfl
  | ok test =>
    simp only [Outcome.bind_ok]
    split
    · rfl
    · have hfuel : (candidates sc []).length < avail sc / 32 + 1 := by
        have := candidates_length_le sc; omega
      have := signLoop_spec X priv e (avail sc / 32 + 1) sc 0 hfuel
      cases hover : signOver X priv e (candidates sc []) 0 with
      | err => rw [hover] at this; simp only at this; rw [this]; rfl
      | panic => rw [hover] at this; simp only at this; rw [this]; rfl
      | ok p =>
        rw [hover] at this
        obtain ⟨rs, j⟩ := p
        obtain ⟨sc', h1, h2⟩ := this
        rw [h1]
        have : avail sc - avail sc' = 32 * (j + 1) := by omega
        simp [this]

/-- short reads: scripts delivering the same bytes before their first failure sign identically -/
theorem signHashed_congr (X : Ctx α β) (sc₁ sc₂ : Script) (priv e : Bytes)
    (h : dataBefore sc₁ = dataBefore sc₂) : signHashed X sc₁ priv e = signHashed X sc₂ priv e := by
  rw [signHashed_eq_signOver, signHashed_eq_signOver, candidates_congr sc₁ sc₂ h]

/-- the stream fails or ends before an acceptable nonce: an error, never a signature -/
theorem signHashed_err_of_exhausted (X : Ctx α β) (hn : X.n = Spec.SM2.n) (sc : Script) (priv e : Bytes)
    (h : ∀ K ∈ candidates sc [], signStep X priv e K = none) : signHashed X sc priv e = .err := by
  rw [signHashed_eq_signOver, signOver_err_of_exhausted X priv e _ 0 h, SM2Key.testPrivateKey_total X hn priv]
  simp only [Outcome.bind_ok, Outcome.bind_err, ite_self]

/-- an invalid private key is refused before anything is read -/
theorem signHashed_err_of_bad_key (X : Ctx α β) (hn : X.n = Spec.SM2.n) (sc : Script) (priv e : Bytes)
    (h : ¬ (priv.length ≤ 32 ∧ Spec.SM2.validKey (Bytes.toNatBE priv) = true)) :
    signHashed X sc priv e = .err := by
  have hne : testPrivateKey X priv ≠ .ok 0 := fun h0 => h ((SM2Key.testPrivateKey_accepts_iff X hn priv).mp h0)
  rw [signHashed_eq_signOver]
  rw [SM2Key.testPrivateKey_total X hn priv] at hne ⊢
  simp only [Outcome.bind_ok]
  rw [if_pos]
  intro h0
  exact hne (by rw [h0])

/-! ### out-of-range nonces are rejected -/

theorem ofNatMin_n : Bytes.ofNatMin Spec.SM2.n = Bytes.ofNatBE 32 Spec.SM2.n := by
  decide +kernel

theorem toNatBE_n : Bytes.toNatBE (Bytes.ofNatBE 32 Spec.SM2.n) = Spec.SM2.n := by
  decide +kernel

/-- a 32-byte draw whose value is 0 or ≥ n is rejected (`continue`) without any curve computation -/
theorem signStep_out_of_range (X : Ctx α β) (hn : X.n = Spec.SM2.n) (priv e K : Bytes) (hK : K.length = 32)
    (h : Bytes.toNatBE K = 0 ∨ Spec.SM2.n ≤ Bytes.toNatBE K) : signStep X priv e K = none := by
  have hlen : (nBytes X).length = 32 := by rw [nBytes, hn, ofNatMin_n, SM2Key.ofNatBE_length]
  have hval : Bytes.toNatBE (nBytes X) = Spec.SM2.n := by rw [nBytes, hn, ofNatMin_n, toNatBE_n]
  have hcmp : Utils.constantTimeCmp (some K) (some (nBytes X)) 32 = .ok (Spec.Utils.lexCmp K (nBytes X)) := by
    have := UtilsCmp.cmp_ok K (nBytes X) 32 (by omega) (by omega)
    rw [List.take_of_length_le (by omega), List.take_of_length_le (by omega)] at this
    exact this
  have hlt := UtilsCmp.lexCmp_lt_iff_toNat K (nBytes X) (by omega)
  rw [hval] at hlt
  simp only [signStep, hcmp]
  rw [if_pos]
  rcases h with h | h
  · exact Or.inr ((SM2Key.all_zero_iff K).mpr h)
  · left
    have hnot : ¬ Spec.Utils.lexCmp K (nBytes X) = -1 := fun hc => by have := hlt.mp hc; omega
    rcases UtilsCmp.lexCmp_range K (nBytes X) with h1 | h1 | h1
    · exact absurd h1 hnot
    · omega
    · omega

end SMGo.Proofs.SM2ReaderSign
