/-
  Refinement, closing file: the theorems of
    SMGo/Proofs/CTIRRefineComb.lean   (schedules modulo callees),
    SMGo/Proofs/CTIRRefinePointB.lean (selection / transformation discharged: `ir_scalarMult_pointOps`,
                                       `ir_scalarBaseMult_pointOps`; inversion, GetAffineX, Bytes modulo the primitives),
    SMGo/Proofs/CTIRRefinePointA.lean (NewSM2Point, Set, Add, Double, … modulo the six Fiat primitives `FiatPrims`),
    SMGo/Proofs/CTIRRefineField.lean  (element wrappers Bytes, IsZero, Equal, SetBytes modulo `BytesPrims`, `SetBytesPrims`),
    SMGo/Proofs/CTIRRefineFiat.lean   (the Fiat primitives of `prog` = the regenerated let-chains `Gen.FiatP.*`)
  COMPOSED into closed corollaries.  This file contains no reasoning about IR statements: every proof is an application
  of theorems of those files (plus four kernel evaluations of globals and four of table shapes).

  PART 1 (section 1; abstract carrier `α`, encoding `enc`, any `Model.Point.Ctx α`):
    `ir_scalarMult_eq_model_closed`, `ir_scalarBaseMult_eq_model_closed`: the conclusions of the two schedule theorems
    with the callee hypotheses `hnew hdbl hadd hset` discharged by PointA.  What remains: the bundle `FiatPrims` of PointA
    (the six Fiat primitives on `Out4` destinations), `CtxOk` (`EncOk`, `enc zero = [0,0,0,0]`, globals 0 and 6,
    `C.addProg = Gen.PointSLP.add` …) and the domain / table side conditions of the schedule theorems.
    `ir_Invert_closed`, `ir_GetAffineX_closed`, `ir_PointBytes_closed`: PointB's theorems from `FiatPrims` and `AffineOk`
    (chain = generated chain, global 2, `BytesPrims` at every element).
    Every bundle is satisfiable for `prog`: `fiatPrims4`, `ctxOk4`, `affineOk4` below are the proofs.

  PART 2 (sections 2, 3; fully closed): the carrier `Limbs = {l // Out4 l}` of well-formed limb vectors, `fiatP4` =
    `Model.SM2.fiatP` restricted to it (`fiatP4_*_val`, all `rfl`), `pointCtx4`; the bundles as theorems
    (`fiatPrims4`, `encOk4`, `bytesPrims4`, `setBytesPrims4`), the globals of the generated program (`globals_0`,
    `globals_1`, `globals_2`, `globals_6`: the kernel runs the init functions; `globals_7`, `globals_8`: `rfl`), and
      `ir_scalarMult_eq_model_fiat`, `ir_scalarBaseMult_eq_model_fiat`, `ir_scalarBaseMult_6_3_14_fiat` (the generated
      6-3-14 tables, all table side conditions discharged), `ir_Invert_fiat`, `ir_GetAffineX_fiat`, `ir_PointBytes_fiat`,
      and the functions below them (`ir_PointAdd_fiat`, …, `ir_Bytes_fiat`, `ir_SetBytes_fiat`, …)
    with NO `Computes` hypothesis.  Remaining hypotheses, all about the external world `X`, all true of the executable
    oracle `stdOracle extKinds tape` (`…_std` variants have no hypothesis at all):
      * `hX : ∃ v, X 10 […] = [v]`  (`fmt.Errorf`, external 10, returns one value; used on the error path `len(k) ≠ 32`);
      * `hX : ∀ b, X 7 [bytesV b] = [Bytes.toNatBE b]`  (`big.Int.SetBytes`, GetAffineX only).

  PART 3 (section 4; transfer to the model of SMGo/Props/SM2Fiat.lean): `pointCtx4` is `Model.SM2.pointCtxFiat` on the
    sub-carrier; every operation commutes with `Subtype.val` (`grel4`, through the generic simulation lemmas of
    SMGo/Proofs/FiatComposeCurve.lean), so the closed statements are restated over `Model.SM2.pointCtxFiat` /
    `Model.SM2.ctxFiat` (carrier `List Nat`, points with `Out4` coordinates, encoding `ptV id`):
      `ir_scalarMult_eq_pointCtxFiat`, `ir_scalarBaseMult_eq_ctxFiat_std` (= `Model.SM2.scalarBaseMult ctxFiat k`,
      no hypothesis at all), `ir_GetAffineX_eq_pointCtxFiat_std`, `ir_PointBytes_eq_pointCtxFiat`.

  HISTORY of a mismatch (found while composing, fixed at the source, nothing left): PointA's `FiatPrims` quantified over
  destinations `o` with `o.length = 4` only, PointB's `hsq`/`hmul` over EVERY `o` (false for `prog`:
  `runT prog globals noX 30000 f_fiat_sm2Square [limbsV [], limbsV [1,2,3,4]]` is stuck, `o = [0,0,0,0,7]` returns five
  limbs), while CTIRRefineFiat proves the primitives for `Out4 o`.  Both files now take `Out4 o →`.
-/
import SMGo.Proofs.CTIRRefineField
import SMGo.Proofs.CTIRRefineComb
import SMGo.Proofs.CTIRRefinePointA
import SMGo.Proofs.CTIRRefinePointB
import SMGo.Proofs.CTIRRefineFiat
import SMGo.Model.SM2InstFiat
import SMGo.Model.Curve
import SMGo.Proofs.FiatComposeCurve
open SMGo SMGo.Model.CTIR SMGo.Gen.CTIRProg SMGo.Proofs.CTIRRefineUtils SMGo.Proofs.CTIRRefineField
open SMGo.Proofs.CTIRRefinePointA hiding ptV evalV_coord
open SMGo.Proofs.CTIRRefinePointB (EncOk TableOk ptV computes_comb fuelTP fuelXY fuelSelectPoints Table)
open SMGo.Proofs.CTIRRefineFiat (fuelFiat)
open SMGo.Model.Curve (pointOps)
set_option linter.unusedSimpArgs false
set_option linter.unusedVariables false

namespace SMGo.Proofs.CTIRRefineClosed

/-! ## 0. Bridges between the copies of the encodings -/

/-- the two copies of `ptV` (PointA, PointB) are the same function -/
theorem ptV_A {α : Type} (enc : α → List Nat) (p : Model.Point.Pt α) : CTIRRefinePointA.ptV enc p = ptV enc p := rfl

theorem ptV_raw {α : Type} (enc : α → List Nat) (p : Model.Point.Pt α) :
    ptV enc p = ptRawV (enc p.x) (enc p.y) (enc p.z) := rfl

/-- HYPOTHESES on the point context, its encoding and the globals of the program: the encoding is by four limbs
    below 2^64 (`EncOk`), the Go zero value encodes `F.zero`, global 0 (`internal.sm2ElementOne`) holds the one,
    global 6 (`internal.sm2B`) the curve coefficient, the straight-line programs of the model are the generated ones -/
structure CtxOk {α : Type} (G : Nat → Val) (C : Model.Point.Ctx α) (enc : α → List Nat) : Prop where
  encOk : EncOk C.F enc
  zero : enc C.F.zero = [0, 0, 0, 0]
  one : G 0 = elemV (enc C.F.setOne)
  b : G 6 = elemV (enc C.b)
  addProg : C.addProg = Gen.PointSLP.add
  addOut : C.addOut = Gen.PointSLP.add_out
  dblProg : C.dblProg = Gen.PointSLP.double
  dblOut : C.dblOut = Gen.PointSLP.double_out

/-- the four point functions called by the schedules compute the model (the callee hypotheses
    `hnew hdbl hadd hset` of `ir_scalarMult_pointOps` / `ir_scalarBaseMult_pointOps`) -/
structure PointFns {α : Type} (G : Nat → Val) (X : Oracle) (C : Model.Point.Ctx α) (enc : α → List Nat)
    (Fnew Fdbl Fadd Fset : Nat) : Prop where
  new : CTIRRefineComb.Computes prog G X 73 Fnew [] [ptV enc (pointOps C).infinity]
  dbl : ∀ q a, CTIRRefineComb.Computes prog G X 79 Fdbl [ptV enc q, ptV enc a]
      [ptV enc ((pointOps C).double a), ptV enc ((pointOps C).double a)]
  add : ∀ q a b, CTIRRefineComb.Computes prog G X 78 Fadd [ptV enc q, ptV enc a, ptV enc b]
      [ptV enc ((pointOps C).add a b), ptV enc ((pointOps C).add a b)]
  set : ∀ q a, CTIRRefineComb.Computes prog G X 75 Fset [ptV enc q, ptV enc a] [ptV enc a, ptV enc a]

/-! ## 1. PART 1: the schedules from PointA's bundle `FiatPrims` (pure composition) -/

section Part1
variable {α : Type} {G : Nat → Val} {X : Oracle} {C : Model.Point.Ctx α} {enc : α → List Nat}
  {Fmul Fsq Fadd Fsub Fopp Fone : Nat}

/-- fuel of NewSM2Point from the fuel of sm2SetOne -/
def fuelNew (Fone : Nat) : Nat := fuelW Fone + 4

/-- fuel of (*SM2Point).Set -/
def fuelSet : Nat := 26

/-- NewSM2Point, Double, Add, Set of `prog` from PointA's theorems -/
theorem pointFns_of_prims (hp : FiatPrims prog G X C.F enc Fmul Fsq Fadd Fsub Fopp Fone) (hc : CtxOk G C enc) :
    PointFns G X C enc (fuelNew Fone) (fuelPtDouble Fmul Fadd Fsub Fsq) (fuelPtAdd Fmul Fadd Fsub Fsq) fuelSet where
  new := computes_comb (NewSM2Point_computes prog_hasPointFns hp hc.zero)
  dbl := fun q a => computes_comb
    (PointDouble_computes prog_hasPointFns hp hc.b hc.dblProg hc.dblOut (enc q.x) (enc q.y) (enc q.z) a)
  add := fun q a b => computes_comb
    (PointAdd_computes prog_hasPointFns hp hc.b hc.addProg hc.addOut (enc q.x) (enc q.y) (enc q.z) a b)
  set := fun q a => computes_comb
    (PointSet_computes prog_hasPointFns (enc q.x) (enc q.y) (enc q.z) (enc a.x) (enc a.y) (enc a.z))

/-- fuel of ScalarMult for a scalar of `n` bytes, from the fuels of the Fiat primitives -/
def fuelScalarMult (n Fmul Fsq Fadd Fsub Fone : Nat) : Nat :=
  CTIRRefineComb.SM.fuelSM n (fuelNew Fone) (fuelPtDouble Fmul Fadd Fsub Fsq) (fuelPtAdd Fmul Fadd Fsub Fsq)
    (fuelTP 15) (fuelXY 15)

/-- fuel of scalarBaseMult_SkipBitExtration, from the fuels of the Fiat primitives; `W` bounds the table widths -/
def fuelScalarBaseMult (window subTableCount iterations W Fmul Fsq Fadd Fsub Fone : Nat) : Nat :=
  CTIRRefineComb.fuelComb window subTableCount iterations (fuelNew Fone) (fuelPtDouble Fmul Fadd Fsub Fsq)
    (fuelPtAdd Fmul Fadd Fsub Fsq) fuelSet (fuelSelectPoints W)

/-- ScalarMult, given the four point functions -/
theorem ir_scalarMult_of_pointFns {Fnew Fdbl Fa Fset : Nat} (hc : CtxOk G C enc)
    (hf : PointFns G X C enc Fnew Fdbl Fa Fset) (Pt : Model.Point.Pt α) (scalar : Bytes) (hlen : scalar.length < 2 ^ 63) :
    match Model.Curve.scalarMult (pointOps C) Pt scalar with
    | .ok r => ∀ f, CTIRRefineComb.SM.fuelSM scalar.length Fnew Fdbl Fa (fuelTP 15) (fuelXY 15) ≤ f →
        runV prog G X f f_internal_ScalarMult [ptV enc Pt, bytesV scalar] = .ret [ptV enc r, .int 0]
    | .panic =>
        (∃ F, ∀ f, F ≤ f → runV prog G X f f_internal_ScalarMult [ptV enc Pt, bytesV scalar] = .panic) ∨
        (∀ f, runV prog G X f f_internal_ScalarMult [ptV enc Pt, bytesV scalar] = .stuck)
    | .err => False :=
  CTIRRefinePointB.ir_scalarMult_pointOps hc.encOk hc.one Pt scalar hlen hf.new hf.dbl hf.add

/-- scalarBaseMult_SkipBitExtration, given the four point functions -/
theorem ir_scalarBaseMult_of_pointFns {Fnew Fdbl Fa Fset W : Nat} (hc : CtxOk G C enc)
    (hf : PointFns G X C enc Fnew Fdbl Fa Fset) (k : Bytes) (first : List Table) (second : Table)
    (window subTableCount iterations remainder : Nat)
    (hW : W < 9223372036854775808)
    (hT : ∀ tbl w, CTIRRefineComb.SelUsed ⟨k, first, second, window, subTableCount, iterations, remainder⟩ tbl w →
      (tbl.getD 0 []).length = w → w ≤ W ∧ TableOk tbl false w)
    (hX : ∃ v, X 10 [.int (k.length : Int), .int 32] = [v])
    (hprod : window * subTableCount * iterations + remainder < 2 ^ 63)
    (hlen : subTableCount ≤ first.length) (hsec : 1 ≤ remainder → second ≠ []) :
    match Model.Curve.scalarBaseMult (pointOps C) k first second window subTableCount iterations remainder with
    | .ok r => ∀ f, CTIRRefineComb.fuelComb window subTableCount iterations Fnew Fdbl Fa Fset (fuelSelectPoints W) ≤ f →
        runV prog G X f f_internal_scalarBaseMult_SkipBitExtration
          [bytesV k, .arr (first.map CTIRRefineComb.encT), CTIRRefineComb.encT second, .int (window : Int), .int (subTableCount : Int),
            .int (iterations : Int), .int (remainder : Int)] = .ret [ptV enc r, .int 0]
    | .err => ∀ f, 20 ≤ f →
        runV prog G X f f_internal_scalarBaseMult_SkipBitExtration
          [bytesV k, .arr (first.map CTIRRefineComb.encT), CTIRRefineComb.encT second, .int (window : Int), .int (subTableCount : Int),
            .int (iterations : Int), .int (remainder : Int)] = .ret [CTIRRefineComb.nilPointV, .int 1]
    | .panic =>
        (∃ F, ∀ f, F ≤ f → runV prog G X f f_internal_scalarBaseMult_SkipBitExtration
          [bytesV k, .arr (first.map CTIRRefineComb.encT), CTIRRefineComb.encT second, .int (window : Int), .int (subTableCount : Int),
            .int (iterations : Int), .int (remainder : Int)] = .panic) ∨
        (∀ f, runV prog G X f f_internal_scalarBaseMult_SkipBitExtration
          [bytesV k, .arr (first.map CTIRRefineComb.encT), CTIRRefineComb.encT second, .int (window : Int), .int (subTableCount : Int),
            .int (iterations : Int), .int (remainder : Int)] = .stuck) :=
  CTIRRefinePointB.ir_scalarBaseMult_pointOps hc.encOk hc.one k first second window subTableCount iterations remainder
    hf.new hf.dbl hf.add hf.set hW hT hX hprod hlen hsec

/-- **ScalarMult = `Model.Curve.scalarMult (pointOps C)`**, only the six Fiat primitives (`FiatPrims`) and the facts
    about the context (`CtxOk`) left as hypotheses (both satisfiable for `prog`: `fiatPrims4`, `ctxOk4`); `hlen`: the
    length of a Go slice is an `int` -/
theorem ir_scalarMult_eq_model_closed (hp : FiatPrims prog G X C.F enc Fmul Fsq Fadd Fsub Fopp Fone) (hc : CtxOk G C enc)
    (Pt : Model.Point.Pt α) (scalar : Bytes) (hlen : scalar.length < 2 ^ 63) :
    match Model.Curve.scalarMult (pointOps C) Pt scalar with
    | .ok r => ∀ f, fuelScalarMult scalar.length Fmul Fsq Fadd Fsub Fone ≤ f →
        runV prog G X f f_internal_ScalarMult [ptV enc Pt, bytesV scalar] = .ret [ptV enc r, .int 0]
    | .panic =>
        (∃ F, ∀ f, F ≤ f → runV prog G X f f_internal_ScalarMult [ptV enc Pt, bytesV scalar] = .panic) ∨
        (∀ f, runV prog G X f f_internal_ScalarMult [ptV enc Pt, bytesV scalar] = .stuck)
    | .err => False :=
  ir_scalarMult_of_pointFns hc (pointFns_of_prims hp hc) Pt scalar hlen

/-- **scalarBaseMult_SkipBitExtration = `Model.Curve.scalarBaseMult (pointOps C)`**, only the six Fiat primitives, the
    facts about the context and the table / domain side conditions of `ir_scalarBaseMult_pointOps` left.
    All hypotheses are satisfiable for `prog`: `hp` by `fiatPrims4`, `hc` by `ctxOk4`; `hW`, `hT` (every table that is
    used has rows x, y with `width ≤ W` entries of four limbs: Go's types), `hprod`, `hlen`, `hsec` are discharged for
    the generated 6-3-14 tables in `ir_scalarBaseMult_6_3_14_fiat`; `hX` (external 10 = `fmt.Errorf` returns one value)
    holds for `stdOracle extKinds tape` (`stdOracle_errorf`). -/
theorem ir_scalarBaseMult_eq_model_closed {W : Nat} (hp : FiatPrims prog G X C.F enc Fmul Fsq Fadd Fsub Fopp Fone)
    (hc : CtxOk G C enc) (k : Bytes) (first : List Table) (second : Table)
    (window subTableCount iterations remainder : Nat)
    (hW : W < 9223372036854775808)
    (hT : ∀ tbl w, CTIRRefineComb.SelUsed ⟨k, first, second, window, subTableCount, iterations, remainder⟩ tbl w →
      (tbl.getD 0 []).length = w → w ≤ W ∧ TableOk tbl false w)
    (hX : ∃ v, X 10 [.int (k.length : Int), .int 32] = [v])
    (hprod : window * subTableCount * iterations + remainder < 2 ^ 63)
    (hlen : subTableCount ≤ first.length) (hsec : 1 ≤ remainder → second ≠ []) :
    match Model.Curve.scalarBaseMult (pointOps C) k first second window subTableCount iterations remainder with
    | .ok r => ∀ f, fuelScalarBaseMult window subTableCount iterations W Fmul Fsq Fadd Fsub Fone ≤ f →
        runV prog G X f f_internal_scalarBaseMult_SkipBitExtration
          [bytesV k, .arr (first.map CTIRRefineComb.encT), CTIRRefineComb.encT second, .int (window : Int), .int (subTableCount : Int),
            .int (iterations : Int), .int (remainder : Int)] = .ret [ptV enc r, .int 0]
    | .err => ∀ f, 20 ≤ f →
        runV prog G X f f_internal_scalarBaseMult_SkipBitExtration
          [bytesV k, .arr (first.map CTIRRefineComb.encT), CTIRRefineComb.encT second, .int (window : Int), .int (subTableCount : Int),
            .int (iterations : Int), .int (remainder : Int)] = .ret [CTIRRefineComb.nilPointV, .int 1]
    | .panic =>
        (∃ F, ∀ f, F ≤ f → runV prog G X f f_internal_scalarBaseMult_SkipBitExtration
          [bytesV k, .arr (first.map CTIRRefineComb.encT), CTIRRefineComb.encT second, .int (window : Int), .int (subTableCount : Int),
            .int (iterations : Int), .int (remainder : Int)] = .panic) ∨
        (∀ f, runV prog G X f f_internal_scalarBaseMult_SkipBitExtration
          [bytesV k, .arr (first.map CTIRRefineComb.encT), CTIRRefineComb.encT second, .int (window : Int), .int (subTableCount : Int),
            .int (iterations : Int), .int (remainder : Int)] = .stuck) :=
  ir_scalarBaseMult_of_pointFns hc (pointFns_of_prims hp hc) k first second window subTableCount iterations remainder
    hW hT hX hprod hlen hsec

/-! ### Inversion, affine x, encoding: PointB's theorems from `FiatPrims` and `BytesPrims` -/

/-- HYPOTHESES for the affine conversions: the inversion chain of the model is the generated one, global 2
    (`fiat.sm2ZeroEncoding`) holds the encoding of zero, and sm2FromMontgomery / sm2ToBytes compute the model at
    every element (`BytesPrims` of CTIRRefineField, fuels `Fm`, `Ft`) -/
structure AffineOk {α : Type} (G : Nat → Val) (X : Oracle) (C : Model.Point.Ctx α) (enc : α → List Nat) (Fm Ft : Nat) : Prop where
  chain : C.F.chain = SMGo.Gen.AddChain.fieldInverse
  chainRegs : C.F.chainRegs = SMGo.Gen.AddChain.fieldInverse_regs
  zeroEnc : G 2 = bytesV (Model.Field.bytes C.F C.F.zero)
  bytes : ∀ e, BytesPrims prog G X C.F enc Fm Ft e

variable {Fm Ft : Nat}

/-- **(*SM2Element).Invert = `Model.Field.invert`** (the generated addition chain), receiver with any `Out4` limbs -/
theorem ir_Invert_closed (hp : FiatPrims prog G X C.F enc Fmul Fsq Fadd Fsub Fopp Fone)
    (hchain : C.F.chain = SMGo.Gen.AddChain.fieldInverse) (hregs : C.F.chainRegs = SMGo.Gen.AddChain.fieldInverse_regs)
    (z0 : List Nat) (hz0 : Out4 z0) (x : α) :
    ∀ f, CTIRRefinePointB.fuelInvert Fsq Fmul ≤ f →
      runV prog G X f f_fiat_SM2Element_Invert [elemV z0, elemV (enc x)]
        = .ret [elemV (enc (Model.Field.invert C.F x)), elemV (enc (Model.Field.invert C.F x))] :=
  CTIRRefinePointB.ir_Invert hp.enc_out4 hp.square hp.mul hchain hregs z0 hz0 x

/-- **(*SM2Point).GetAffineX = `Model.Point.getAffineX`**; `hX`: the external `big.Int.SetBytes` (external 7) returns
    the value of the big-endian byte string -/
theorem ir_GetAffineX_closed (hp : FiatPrims prog G X C.F enc Fmul Fsq Fadd Fsub Fopp Fone)
    (ha : AffineOk G X C enc Fm Ft)
    (hX : ∀ b : Bytes, X 7 [bytesV b] = [.int ((Bytes.toNatBE b : Nat) : Int)]) (p : Model.Point.Pt α) :
    ∀ f, CTIRRefinePointB.fuelGetAffineX Fsq Fmul Fm Ft ≤ f →
      runV prog G X f f_internal_SM2Point_GetAffineX [ptV enc p] = .ret [.int ((Model.Point.getAffineX C p : Nat) : Int)] :=
  CTIRRefinePointB.ir_GetAffineX hp.enc_out4 hp.square hp.mul ha.chain ha.chainRegs ha.bytes ha.zeroEnc hX p

/-- **(*SM2Point).Bytes = `Model.Point.bytes C p true`** (the constant-time variant) -/
theorem ir_PointBytes_closed (hp : FiatPrims prog G X C.F enc Fmul Fsq Fadd Fsub Fopp Fone)
    (ha : AffineOk G X C enc Fm Ft) (p : Model.Point.Pt α) :
    ∀ f, CTIRRefinePointB.fuelPointBytes Fsq Fmul Fm Ft ≤ f →
      runV prog G X f f_internal_SM2Point_Bytes [ptV enc p] = .ret [bytesV (Model.Point.bytes C p true)] :=
  CTIRRefinePointB.ir_PointBytes hp.enc_out4 hp.square hp.mul ha.chain ha.chainRegs ha.bytes ha.zeroEnc p

end Part1


/-! ## 2. PART 2: the carrier of well-formed limb vectors and the generated Fiat functions on it

  The bundles quantify over ALL elements of the carrier (`∀ e, Out4 (enc e)`), the generated functions of
  `Model.SM2.fiatP` live on `List Nat`: the carrier is the subtype `Limbs` of the lists of four limbs below 2^64, with
  `encL = Subtype.val`.  `fiatP4` is `Model.SM2.fiatP` restricted to it (`fiatP4_*_val`, all by `rfl`); closure is the
  `Out4` conjunct of the theorems of CTIRRefineFiat (true for any `G`, `X`).  Two operations of `FieldOps` take an
  argument outside the carrier and need a default:
    * `fromBytesLE b`: `Gen.FiatP.sm2FromBytes` on 32 bytes (the Go function takes a `*[32]uint8`; CTIRRefineFiat
      gives `Out4` for 32 bytes), the zero element for any other length (never used: `Model.Field.setBytes` checks
      the length first);
    * `ofRaw l`: `l` if `Out4 l` (the Go type `*[4]uint64`), the zero element otherwise. -/

/-- four limbs below 2^64 -/
abbrev Limbs : Type := {l : List Nat // Out4 l}

/-- the limb encoding of the carrier `Limbs`: the limbs themselves -/
def encL : Limbs → List Nat := Subtype.val

/-- `Out4`, decided -/
def isOut4 : List Nat → Bool
  | [a, b, c, d] => decide (a < 18446744073709551616) && decide (b < 18446744073709551616) &&
      decide (c < 18446744073709551616) && decide (d < 18446744073709551616)
  | _ => false

theorem out4_of_isOut4 {l : List Nat} (h : isOut4 l = true) : Out4 l := by
  unfold isOut4 at h
  split at h
  · simp only [Bool.and_eq_true, decide_eq_true_eq] at h
    exact ⟨_, _, _, _, rfl, h.1.1.1, h.1.1.2, h.1.2, h.2⟩
  · exact absurd h (by simp)

theorem isOut4_of_out4 {l : List Nat} (h : Out4 l) : isOut4 l = true := by
  obtain ⟨a, b, c, d, rfl, ha, hb, hc, hd⟩ := h
  simp [isOut4, ha, hb, hc, hd]

theorem out4_natToLimbs (v : Nat) : Out4 (Model.Field.natToLimbs v) :=
  ⟨_, _, _, _, rfl, Nat.mod_lt _ (by decide), Nat.mod_lt _ (by decide), Nat.mod_lt _ (by decide), Nat.mod_lt _ (by decide)⟩

/-! ### Closure of the generated functions (the `Out4` conjuncts of CTIRRefineFiat, at a dummy `G`, `X`) -/

theorem out4_setOne : Out4 Gen.FiatP.sm2SetOne :=
  (CTIRRefineFiat.ir_sm2SetOne_eq_gen (G := fun _ => .int 0) (X := fun _ _ => []) [0, 0, 0, 0] out4_zero).2
theorem out4_add {a b : List Nat} (ha : Out4 a) (hb : Out4 b) : Out4 (Gen.FiatP.sm2Add a b) :=
  (CTIRRefineFiat.ir_sm2Add_eq_gen (G := fun _ => .int 0) (X := fun _ _ => []) [0, 0, 0, 0] a b out4_zero ha hb).2
theorem out4_sub {a b : List Nat} (ha : Out4 a) (hb : Out4 b) : Out4 (Gen.FiatP.sm2Sub a b) :=
  (CTIRRefineFiat.ir_sm2Sub_eq_gen (G := fun _ => .int 0) (X := fun _ _ => []) [0, 0, 0, 0] a b out4_zero ha hb).2
theorem out4_opp {a : List Nat} (ha : Out4 a) : Out4 (Gen.FiatP.sm2Opp a) :=
  (CTIRRefineFiat.ir_sm2Opp_eq_gen (G := fun _ => .int 0) (X := fun _ _ => []) [0, 0, 0, 0] a out4_zero ha).2
theorem out4_mul {a b : List Nat} (ha : Out4 a) (hb : Out4 b) : Out4 (Gen.FiatP.sm2Mul a b) :=
  (CTIRRefineFiat.ir_sm2Mul_eq_gen (G := fun _ => .int 0) (X := fun _ _ => []) [0, 0, 0, 0] a b out4_zero ha hb).2
theorem out4_square {a : List Nat} (ha : Out4 a) : Out4 (Gen.FiatP.sm2Square a) :=
  (CTIRRefineFiat.ir_sm2Square_eq_gen (G := fun _ => .int 0) (X := fun _ _ => []) [0, 0, 0, 0] a out4_zero ha).2
theorem out4_fromMontgomery {a : List Nat} (ha : Out4 a) : Out4 (Gen.FiatP.sm2FromMontgomery a) :=
  (CTIRRefineFiat.ir_sm2FromMontgomery_eq_gen (G := fun _ => .int 0) (X := fun _ _ => []) [0, 0, 0, 0] a out4_zero ha).2
theorem out4_toMontgomery {a : List Nat} (ha : Out4 a) : Out4 (Gen.FiatP.sm2ToMontgomery a) :=
  (CTIRRefineFiat.ir_sm2ToMontgomery_eq_gen (G := fun _ => .int 0) (X := fun _ _ => []) [0, 0, 0, 0] a out4_zero ha).2
theorem out4_fromBytes {b : Bytes} (hb : b.length = 32) : Out4 (Gen.FiatP.sm2FromBytes (b.map UInt8.toNat)) :=
  (CTIRRefineFiat.ir_sm2FromBytes_eq_gen (G := fun _ => .int 0) (X := fun _ _ => []) [0, 0, 0, 0] b out4_zero hb).2
theorem length_toBytes {a : List Nat} (ha : Out4 a) : ((Gen.FiatP.sm2ToBytes a).map UInt8.ofNat).length = 32 :=
  (CTIRRefineFiat.ir_sm2ToBytes_eq_gen (G := fun _ => .int 0) (X := fun _ _ => []) (List.replicate 32 0) a (by simp) ha).2

/-- the zero value of the Go struct -/
def zeroL : Limbs := ⟨[0, 0, 0, 0], out4_zero⟩

/-- **the coordinate field of the Go code**: `Model.SM2.fiatP` (the generated functions `Gen.FiatP.*`, the generated
    inversion chain) on the carrier of well-formed limb vectors -/
def fiatP4 : Model.Field.FieldOps Limbs :=
  { modulus := Gen.SM2Params.param_P
    zero := zeroL
    setOne := ⟨Gen.FiatP.sm2SetOne, out4_setOne⟩
    add := fun a b => ⟨Gen.FiatP.sm2Add a.val b.val, out4_add a.2 b.2⟩
    sub := fun a b => ⟨Gen.FiatP.sm2Sub a.val b.val, out4_sub a.2 b.2⟩
    opp := fun a => ⟨Gen.FiatP.sm2Opp a.val, out4_opp a.2⟩
    mul := fun a b => ⟨Gen.FiatP.sm2Mul a.val b.val, out4_mul a.2 b.2⟩
    square := fun a => ⟨Gen.FiatP.sm2Square a.val, out4_square a.2⟩
    fromMontgomery := fun a => ⟨Gen.FiatP.sm2FromMontgomery a.val, out4_fromMontgomery a.2⟩
    toMontgomery := fun a => ⟨Gen.FiatP.sm2ToMontgomery a.val, out4_toMontgomery a.2⟩
    toBytesLE := fun a => (Gen.FiatP.sm2ToBytes a.val).map UInt8.ofNat
    fromBytesLE := fun b =>
      if h : b.length = 32 then ⟨Gen.FiatP.sm2FromBytes (b.map UInt8.toNat), out4_fromBytes h⟩ else zeroL
    raw := Subtype.val
    ofRaw := fun l => if h : isOut4 l = true then ⟨l, out4_of_isOut4 h⟩ else zeroL
    chain := Gen.AddChain.fieldInverse
    chainRegs := Gen.AddChain.fieldInverse_regs }

/-! ### `fiatP4` is `Model.SM2.fiatP` on the underlying limbs -/

theorem fiatP4_modulus : fiatP4.modulus = Model.SM2.fiatP.modulus := rfl
theorem fiatP4_zero_val : fiatP4.zero.val = Model.SM2.fiatP.zero := rfl
theorem fiatP4_setOne_val : fiatP4.setOne.val = Model.SM2.fiatP.setOne := rfl
theorem fiatP4_add_val (a b : Limbs) : (fiatP4.add a b).val = Model.SM2.fiatP.add a.val b.val := rfl
theorem fiatP4_sub_val (a b : Limbs) : (fiatP4.sub a b).val = Model.SM2.fiatP.sub a.val b.val := rfl
theorem fiatP4_opp_val (a : Limbs) : (fiatP4.opp a).val = Model.SM2.fiatP.opp a.val := rfl
theorem fiatP4_mul_val (a b : Limbs) : (fiatP4.mul a b).val = Model.SM2.fiatP.mul a.val b.val := rfl
theorem fiatP4_square_val (a : Limbs) : (fiatP4.square a).val = Model.SM2.fiatP.square a.val := rfl
theorem fiatP4_fromMontgomery_val (a : Limbs) :
    (fiatP4.fromMontgomery a).val = Model.SM2.fiatP.fromMontgomery a.val := rfl
theorem fiatP4_toMontgomery_val (a : Limbs) : (fiatP4.toMontgomery a).val = Model.SM2.fiatP.toMontgomery a.val := rfl
theorem fiatP4_toBytesLE (a : Limbs) : fiatP4.toBytesLE a = Model.SM2.fiatP.toBytesLE a.val := rfl
theorem fiatP4_fromBytesLE_val (b : Bytes) (h : b.length = 32) :
    (fiatP4.fromBytesLE b).val = Model.SM2.fiatP.fromBytesLE b := by
  show (if h : b.length = 32 then (⟨Gen.FiatP.sm2FromBytes (b.map UInt8.toNat), out4_fromBytes h⟩ : Limbs) else zeroL).val = _
  rw [dif_pos h]
  rfl
theorem fiatP4_raw (a : Limbs) : fiatP4.raw a = Model.SM2.fiatP.raw a.val := rfl
theorem fiatP4_ofRaw_val (l : List Nat) (h : Out4 l) : (fiatP4.ofRaw l).val = Model.SM2.fiatP.ofRaw l := by
  show (if h : isOut4 l = true then (⟨l, out4_of_isOut4 h⟩ : Limbs) else zeroL).val = _
  rw [dif_pos (isOut4_of_out4 h)]
  rfl
theorem fiatP4_chain : fiatP4.chain = Model.SM2.fiatP.chain := rfl
theorem fiatP4_chainRegs : fiatP4.chainRegs = Model.SM2.fiatP.chainRegs := rfl

/-- `Model.Field.bytes` of `fiatP4` is that of `fiatP` -/
theorem fiatP4_bytes (a : Limbs) : Model.Field.bytes fiatP4 a = Model.Field.bytes Model.SM2.fiatP a.val := rfl

theorem out4_bLimbs : Out4 Model.SM2.bLimbs := out4_toMontgomery (out4_natToLimbs _)

/-- **the point layer of the Go code**: `Model.SM2.pointCtxFiat` on the carrier `Limbs` -/
def pointCtx4 : Model.Point.Ctx Limbs :=
  { F := fiatP4, b := ⟨Model.SM2.bLimbs, out4_bLimbs⟩,
    addProg := Gen.PointSLP.add, addOut := Gen.PointSLP.add_out,
    dblProg := Gen.PointSLP.double, dblOut := Gen.PointSLP.double_out }

theorem pointCtx4_b_val : pointCtx4.b.val = Model.SM2.pointCtxFiat.b := rfl

/-! ### The hypothesis bundles are theorems for `fiatP4` -/

section Bundles4
variable {G : Nat → Val} {X : Oracle}

/-- **the six Fiat primitives of `prog` compute `fiatP4`** (CTIRRefineFiat), any globals, any oracle -/
theorem fiatPrims4 : FiatPrims prog G X fiatP4 encL fuelFiat fuelFiat fuelFiat fuelFiat fuelFiat fuelFiat where
  enc_out4 := fun e => e.2
  mul := fun o a b ho => (CTIRRefineFiat.ir_sm2Mul_eq_gen o a.val b.val ho a.2 b.2).1
  square := fun o a ho => (CTIRRefineFiat.ir_sm2Square_eq_gen o a.val ho a.2).1
  add := fun o a b ho => (CTIRRefineFiat.ir_sm2Add_eq_gen o a.val b.val ho a.2 b.2).1
  sub := fun o a b ho => (CTIRRefineFiat.ir_sm2Sub_eq_gen o a.val b.val ho a.2 b.2).1
  opp := fun o a ho => (CTIRRefineFiat.ir_sm2Opp_eq_gen o a.val ho a.2).1
  one := fun o ho => (CTIRRefineFiat.ir_sm2SetOne_eq_gen o ho).1

/-- the encoding `encL` of `fiatP4` satisfies `EncOk` -/
theorem encOk4 : EncOk fiatP4 encL where
  out4 := fun e => e.2
  raw := fun _ => rfl
  ofRaw := fun l h => fiatP4_ofRaw_val l h

/-- sm2FromMontgomery and sm2ToBytes of `prog` at every element (`BytesPrims` of CTIRRefineField) -/
theorem bytesPrims4 (e : Limbs) : BytesPrims prog G X fiatP4 encL fuelFiat fuelFiat e where
  fm := (CTIRRefineFiat.ir_sm2FromMontgomery_eq_gen [0, 0, 0, 0] e.val out4_zero e.2).1
  tb := (CTIRRefineFiat.ir_sm2ToBytes_eq_gen (List.replicate 32 0) (fiatP4.fromMontgomery e).val (by simp)
    (fiatP4.fromMontgomery e).2).1
  len := length_toBytes (fiatP4.fromMontgomery e).2

/-- sm2FromBytes and sm2ToMontgomery of `prog` (`SetBytesPrims` of CTIRRefineField), for a receiver holding `Out4`
    limbs and an input of 32 bytes (for another length the model's `fromBytesLE` is the default, and `SetBytes` does
    not reach the primitives) -/
theorem setBytesPrims4 (old : List Nat) (hold : Out4 old) (v : Bytes) (hv : v.length = 32) :
    SetBytesPrims prog G X fiatP4 encL fuelFiat fuelFiat old v := by
  have hr : v.reverse.length = 32 := by rw [List.length_reverse, hv]
  have e : encL (fiatP4.fromBytesLE v.reverse) = Gen.FiatP.sm2FromBytes (v.reverse.map UInt8.toNat) :=
    fiatP4_fromBytesLE_val v.reverse hr
  refine ⟨?_, ?_⟩
  · rw [e]
    exact (CTIRRefineFiat.ir_sm2FromBytes_eq_gen [0, 0, 0, 0] v.reverse out4_zero hr).1
  · exact (CTIRRefineFiat.ir_sm2ToMontgomery_eq_gen old (fiatP4.fromBytesLE v.reverse).val hold
      (fiatP4.fromBytesLE v.reverse).2).1

end Bundles4

/-! ### The globals of the generated program

  `globals` of SMGo/Gen/CTIRProg.lean are COMPUTED: `g_0 = internal.sm2ElementOne` is the result of running the init
  function `f_init_internal_sm2ElementOne` of `prog` with the interpreter, `g_6 = internal.sm2B` the result of
  `new(SM2Element).SetBytes(b)`, `g_1`, `g_2` the results of the init functions of the two encodings.  The equations
  below are checked by the kernel, which runs the interpreter (`kernel_rfl`: `Eq.refl`, like `decide +kernel`). -/

set_option maxRecDepth 100000 in
/-- global 0 = `internal.sm2ElementOne` holds the one of `fiatP4` -/
theorem globals_0 : globals 0 = elemV (encL fiatP4.setOne) := by kernel_rfl

set_option maxRecDepth 100000 in
/-- global 6 = `internal.sm2B` holds the curve coefficient of `pointCtx4` (`Model.SM2.bLimbs`) -/
theorem globals_6 : globals 6 = elemV (encL pointCtx4.b) := by kernel_rfl

set_option maxRecDepth 100000 in
/-- global 2 = `fiat.sm2ZeroEncoding` holds the encoding of zero -/
theorem globals_2 : globals 2 = bytesV (Model.Field.bytes fiatP4 fiatP4.zero) := by kernel_rfl

set_option maxRecDepth 100000 in
/-- global 1 = `fiat.sm2MinusOneEncoding` holds the encoding of -1 -/
theorem globals_1 : globals 1 = bytesV (Model.Field.minusOneEncoding fiatP4) := by kernel_rfl

/-- the facts about the context hold for `pointCtx4` and the generated globals -/
theorem ctxOk4 : CtxOk globals pointCtx4 encL :=
  ⟨encOk4, rfl, globals_0, globals_6, rfl, rfl, rfl, rfl⟩


/-! ## 3. PART 2: the fully closed corollaries (no `Computes` hypothesis)

  `G = globals` (the generated globals), any oracle `X` (the schedules call one external, number 10, whose result
  must be a single value: `hX`), carrier `Limbs`, context `pointCtx4`.  Fuel: the fuel functions of section 1 at
  `fuelFiat = 900` for every primitive. -/

section Closed4
variable {X : Oracle}

/-- NewSM2Point, Double, Add, Set of `prog` compute the point operations of `pointCtx4`: no hypothesis -/
theorem pointFns4 : PointFns globals X pointCtx4 encL (fuelNew fuelFiat) (fuelPtDouble fuelFiat fuelFiat fuelFiat fuelFiat)
    (fuelPtAdd fuelFiat fuelFiat fuelFiat fuelFiat) fuelSet :=
  pointFns_of_prims (X := X) (C := pointCtx4) fiatPrims4 ctxOk4

/-- **ScalarMult of `prog` = `Model.Curve.scalarMult` over the generated Fiat functions** (`pointCtx4`), for every
    point on `Limbs` and every scalar of fewer than 2^63 bytes; fully closed -/
theorem ir_scalarMult_eq_model_fiat (Pt : Model.Point.Pt Limbs) (scalar : Bytes) (hlen : scalar.length < 2 ^ 63) :
    match Model.Curve.scalarMult (pointOps pointCtx4) Pt scalar with
    | .ok r => ∀ f, fuelScalarMult scalar.length fuelFiat fuelFiat fuelFiat fuelFiat fuelFiat ≤ f →
        runV prog globals X f f_internal_ScalarMult [ptV encL Pt, bytesV scalar] = .ret [ptV encL r, .int 0]
    | .panic =>
        (∃ F, ∀ f, F ≤ f → runV prog globals X f f_internal_ScalarMult [ptV encL Pt, bytesV scalar] = .panic) ∨
        (∀ f, runV prog globals X f f_internal_ScalarMult [ptV encL Pt, bytesV scalar] = .stuck)
    | .err => False := by
  -- (the two `match`es are compiled to different auxiliary matchers: go through the cases)
  have key := ir_scalarMult_eq_model_closed (X := X) (C := pointCtx4) fiatPrims4 ctxOk4 Pt scalar hlen
  cases h : Model.Curve.scalarMult (pointOps pointCtx4) Pt scalar with
  | ok r => rw [h] at key; exact key
  | err => rw [h] at key; exact key
  | panic => rw [h] at key; exact key

/-- **scalarBaseMult_SkipBitExtration of `prog` = `Model.Curve.scalarBaseMult` over the generated Fiat functions**,
    any tables and scheme; what remains are the table / domain side conditions of `ir_scalarBaseMult_pointOps` and the
    shape of the result of external 10 -/
theorem ir_scalarBaseMult_eq_model_fiat {W : Nat} (k : Bytes) (first : List Table) (second : Table)
    (window subTableCount iterations remainder : Nat)
    (hW : W < 9223372036854775808)
    (hT : ∀ tbl w, CTIRRefineComb.SelUsed ⟨k, first, second, window, subTableCount, iterations, remainder⟩ tbl w →
      (tbl.getD 0 []).length = w → w ≤ W ∧ TableOk tbl false w)
    (hX : ∃ v, X 10 [.int (k.length : Int), .int 32] = [v])
    (hprod : window * subTableCount * iterations + remainder < 2 ^ 63)
    (hlen : subTableCount ≤ first.length) (hsec : 1 ≤ remainder → second ≠ []) :
    match Model.Curve.scalarBaseMult (pointOps pointCtx4) k first second window subTableCount iterations remainder with
    | .ok r => ∀ f, fuelScalarBaseMult window subTableCount iterations W fuelFiat fuelFiat fuelFiat fuelFiat fuelFiat ≤ f →
        runV prog globals X f f_internal_scalarBaseMult_SkipBitExtration
          [bytesV k, .arr (first.map CTIRRefineComb.encT), CTIRRefineComb.encT second, .int (window : Int), .int (subTableCount : Int),
            .int (iterations : Int), .int (remainder : Int)] = .ret [ptV encL r, .int 0]
    | .err => ∀ f, 20 ≤ f →
        runV prog globals X f f_internal_scalarBaseMult_SkipBitExtration
          [bytesV k, .arr (first.map CTIRRefineComb.encT), CTIRRefineComb.encT second, .int (window : Int), .int (subTableCount : Int),
            .int (iterations : Int), .int (remainder : Int)] = .ret [CTIRRefineComb.nilPointV, .int 1]
    | .panic =>
        (∃ F, ∀ f, F ≤ f → runV prog globals X f f_internal_scalarBaseMult_SkipBitExtration
          [bytesV k, .arr (first.map CTIRRefineComb.encT), CTIRRefineComb.encT second, .int (window : Int), .int (subTableCount : Int),
            .int (iterations : Int), .int (remainder : Int)] = .panic) ∨
        (∀ f, runV prog globals X f f_internal_scalarBaseMult_SkipBitExtration
          [bytesV k, .arr (first.map CTIRRefineComb.encT), CTIRRefineComb.encT second, .int (window : Int), .int (subTableCount : Int),
            .int (iterations : Int), .int (remainder : Int)] = .stuck) := by
  have key := ir_scalarBaseMult_eq_model_closed (X := X) (W := W) (C := pointCtx4) fiatPrims4 ctxOk4 k first second window
    subTableCount iterations remainder hW hT hX hprod hlen hsec
  cases h : Model.Curve.scalarBaseMult (pointOps pointCtx4) k first second window subTableCount iterations remainder with
  | ok r => rw [h] at key; exact key
  | err => rw [h] at key; exact key
  | panic => rw [h] at key; exact key

/-- the hypotheses of the affine conversions hold for `pointCtx4` and the generated globals -/
theorem affineOk4 : AffineOk globals X pointCtx4 encL fuelFiat fuelFiat :=
  ⟨rfl, rfl, globals_2, bytesPrims4⟩

/-- **(*SM2Element).Invert of `prog` = the generated addition chain over the generated sm2Square / sm2Mul**; fully closed -/
theorem ir_Invert_fiat (z0 : List Nat) (hz0 : Out4 z0) (x : Limbs) :
    ∀ f, CTIRRefinePointB.fuelInvert fuelFiat fuelFiat ≤ f →
      runV prog globals X f f_fiat_SM2Element_Invert [elemV z0, elemV (encL x)]
        = .ret [elemV (encL (Model.Field.invert fiatP4 x)), elemV (encL (Model.Field.invert fiatP4 x))] :=
  ir_Invert_closed (X := X) (C := pointCtx4) fiatPrims4 rfl rfl z0 hz0 x

/-- **(*SM2Point).GetAffineX of `prog` = `Model.Point.getAffineX pointCtx4`**; the only hypothesis is the meaning of the
    external `big.Int.SetBytes` (external 7) -/
theorem ir_GetAffineX_fiat (hX : ∀ b : Bytes, X 7 [bytesV b] = [.int ((Bytes.toNatBE b : Nat) : Int)])
    (p : Model.Point.Pt Limbs) :
    ∀ f, CTIRRefinePointB.fuelGetAffineX fuelFiat fuelFiat fuelFiat fuelFiat ≤ f →
      runV prog globals X f f_internal_SM2Point_GetAffineX [ptV encL p]
        = .ret [.int ((Model.Point.getAffineX pointCtx4 p : Nat) : Int)] :=
  ir_GetAffineX_closed (X := X) (C := pointCtx4) fiatPrims4 affineOk4 hX p

/-- **(*SM2Point).GetAffineX of `prog`** with the standard external world (`stdOracle`): no hypothesis -/
theorem ir_GetAffineX_fiat_std (tape : Nat → Nat → Nat) (p : Model.Point.Pt Limbs) :
    ∀ f, CTIRRefinePointB.fuelGetAffineX fuelFiat fuelFiat fuelFiat fuelFiat ≤ f →
      runV prog globals (stdOracle extKinds tape) f f_internal_SM2Point_GetAffineX [ptV encL p]
        = .ret [.int ((Model.Point.getAffineX pointCtx4 p : Nat) : Int)] :=
  ir_GetAffineX_fiat (CTIRRefinePointB.stdOracle_setBytes tape) p

/-- **(*SM2Point).Bytes of `prog` = `Model.Point.bytes pointCtx4 p true`**; no hypothesis -/
theorem ir_PointBytes_fiat (p : Model.Point.Pt Limbs) :
    ∀ f, CTIRRefinePointB.fuelPointBytes fuelFiat fuelFiat fuelFiat fuelFiat ≤ f →
      runV prog globals X f f_internal_SM2Point_Bytes [ptV encL p] = .ret [bytesV (Model.Point.bytes pointCtx4 p true)] :=
  ir_PointBytes_closed (X := X) (C := pointCtx4) fiatPrims4 affineOk4 p

/-! ### The layers below, closed (one corollary per theorem of PointA / PointB / Field that had a Fiat hypothesis) -/

/-- (*SM2Element).Mul / Square / Add / Sub / Opp / One of `prog` = the generated Fiat functions; receiver: any `Out4` limbs -/
theorem ir_Mul_fiat (o : List Nat) (ho : Out4 o) (a b : Limbs) :
    ∀ f, fuelW fuelFiat ≤ f → runV prog globals X f f_fiat_SM2Element_Mul [elemV o, elemV (encL a), elemV (encL b)]
      = .ret [elemV (Gen.FiatP.sm2Mul a.val b.val), elemV (Gen.FiatP.sm2Mul a.val b.val)] :=
  ir_Mul (X := X) fiatPrims4 o ho a b
theorem ir_Square_fiat (o : List Nat) (ho : Out4 o) (a : Limbs) :
    ∀ f, fuelW fuelFiat ≤ f → runV prog globals X f f_fiat_SM2Element_Square [elemV o, elemV (encL a)]
      = .ret [elemV (Gen.FiatP.sm2Square a.val), elemV (Gen.FiatP.sm2Square a.val)] :=
  ir_Square (X := X) fiatPrims4 o ho a
theorem ir_Add_fiat (o : List Nat) (ho : Out4 o) (a b : Limbs) :
    ∀ f, fuelW fuelFiat ≤ f → runV prog globals X f f_fiat_SM2Element_Add [elemV o, elemV (encL a), elemV (encL b)]
      = .ret [elemV (Gen.FiatP.sm2Add a.val b.val), elemV (Gen.FiatP.sm2Add a.val b.val)] :=
  ir_Add (X := X) fiatPrims4 o ho a b
theorem ir_Sub_fiat (o : List Nat) (ho : Out4 o) (a b : Limbs) :
    ∀ f, fuelW fuelFiat ≤ f → runV prog globals X f f_fiat_SM2Element_Sub [elemV o, elemV (encL a), elemV (encL b)]
      = .ret [elemV (Gen.FiatP.sm2Sub a.val b.val), elemV (Gen.FiatP.sm2Sub a.val b.val)] :=
  ir_Sub (X := X) fiatPrims4 o ho a b
theorem ir_Opp_fiat (o : List Nat) (ho : Out4 o) (a : Limbs) :
    ∀ f, fuelW fuelFiat ≤ f → runV prog globals X f f_fiat_SM2Element_Opp [elemV o, elemV (encL a)]
      = .ret [elemV (Gen.FiatP.sm2Opp a.val), elemV (Gen.FiatP.sm2Opp a.val)] :=
  ir_Opp (X := X) fiatPrims4 o ho a
theorem ir_One_fiat (o : List Nat) (ho : Out4 o) :
    ∀ f, fuelW fuelFiat ≤ f → runV prog globals X f f_fiat_SM2Element_One [elemV o]
      = .ret [elemV Gen.FiatP.sm2SetOne, elemV Gen.FiatP.sm2SetOne] :=
  ir_One (X := X) fiatPrims4 o ho

/-- (*SM2Element).Bytes / IsZero / Equal of `prog` -/
theorem ir_Bytes_fiat (x : Limbs) :
    ∀ f, fuelBytes32 fuelFiat fuelFiat ≤ f →
      runV prog globals X f f_fiat_SM2Element_Bytes [elemV (encL x)] = .ret [bytesV (Model.Field.bytes fiatP4 x)] :=
  ir_Bytes (bytesPrims4 x)
theorem ir_IsZero_fiat (x : Limbs) :
    ∀ f, fuelIsZero fuelFiat fuelFiat ≤ f →
      runV prog globals X f f_fiat_SM2Element_IsZero [elemV (encL x)] = .ret [.int ((Model.Field.isZero fiatP4 x : Nat) : Int)] :=
  ir_IsZero (bytesPrims4 x) globals_2
theorem ir_Equal_fiat (x t : Limbs) :
    ∀ f, fuelEqual fuelFiat fuelFiat ≤ f →
      runV prog globals X f f_fiat_SM2Element_Equal [elemV (encL x), elemV (encL t)]
        = .ret [.int ((Model.Field.equal fiatP4 x t : Nat) : Int)] :=
  ir_Equal (bytesPrims4 x) (bytesPrims4 t)

theorem minusOne_length : (Model.Field.minusOneEncoding fiatP4).length = 32 := by
  show (fiatP4.toBytesLE (fiatP4.fromMontgomery (fiatP4.sub fiatP4.zero fiatP4.setOne))).reverse.length = 32
  rw [List.length_reverse]
  exact length_toBytes (fiatP4.fromMontgomery (fiatP4.sub fiatP4.zero fiatP4.setOne)).2

/-- **(*SM2Element).SetBytes of `prog` = `Model.Field.setBytes fiatP4`**, receiver with any `Out4` limbs, any input:
    success stores the element, failure (length ≠ 32 or value above p - 1) leaves the receiver; the model never panics -/
theorem ir_SetBytes_fiat (old : List Nat) (hold : Out4 old) (v : Bytes) :
    (∀ e', Model.Field.setBytes fiatP4 v = .ok e' → ∀ f, fuelSetBytes fuelFiat fuelFiat ≤ f →
      runV prog globals X f f_fiat_SM2Element_SetBytes [elemV old, bytesV v] = .ret [elemV (encL e'), elemV (encL e'), .int 0]) ∧
    (Model.Field.setBytes fiatP4 v = .err → ∀ f, 404 ≤ f →
      runV prog globals X f f_fiat_SM2Element_SetBytes [elemV old, bytesV v] = .ret [elemV old, elemV [0, 0, 0, 0], .int 1]) ∧
    Model.Field.setBytes fiatP4 v ≠ .panic := by
  refine ⟨fun e' h => ?_, fun h => ir_SetBytes_err globals_1 old v h,
    setBytes_ne_panic fiatP4 v (by rw [minusOne_length]; exact Nat.le_refl _)⟩
  have hv : v.length = 32 := by
    apply Classical.byContradiction
    intro hne
    simp [Model.Field.setBytes, hne] at h
  exact ir_SetBytes_ok globals_1 old v e' h (setBytesPrims4 old hold v hv)

/-- NewSM2Point, NewFromXY, Negate, Add, Double of `prog` over `pointCtx4` -/
theorem ir_NewSM2Point_fiat :
    ∀ f, fuelNew fuelFiat ≤ f → runV prog globals X f f_internal_NewSM2Point [] = .ret [ptV encL (Model.Point.infinity pointCtx4)] :=
  ir_NewSM2Point (X := X) (C := pointCtx4) fiatPrims4 rfl

theorem ir_NewFromXY_fiat (x y : List Nat) (hx : Out4 x) (hy : Out4 y) :
    ∀ f, fuelW fuelFiat + 20 ≤ f → runV prog globals X f f_internal_NewFromXY [limbsV x, limbsV y]
      = .ret [ptV encL (Model.Point.fromXY pointCtx4 x y)] :=
  ir_NewFromXY (X := X) (C := pointCtx4) fiatPrims4 x y hx.length hy.length (fiatP4_ofRaw_val x hx) (fiatP4_ofRaw_val y hy)

theorem ir_Negate_fiat (qa qb qc : List Nat) (hqb : Out4 qb) (p : Model.Point.Pt Limbs) :
    ∀ f, fuelW fuelFiat + 22 ≤ f → runV prog globals X f f_internal_SM2Point_Negate [ptRawV qa qb qc, ptV encL p]
      = .ret [ptV encL (Model.Point.negate pointCtx4 p), ptV encL (Model.Point.negate pointCtx4 p)] :=
  ir_Negate (X := X) (C := pointCtx4) fiatPrims4 qa qb qc hqb p

/-- **(*SM2Point).Add of `prog` = `Model.Point.add pointCtx4`**: the complete addition formula (the generated
    straight-line program) over the generated Fiat functions; the receiver holds any point -/
theorem ir_PointAdd_fiat (qa qb qc : List Nat) (p1 p2 : Model.Point.Pt Limbs) :
    ∀ f, fuelPtAdd fuelFiat fuelFiat fuelFiat fuelFiat ≤ f →
      runV prog globals X f f_internal_SM2Point_Add [ptRawV qa qb qc, ptV encL p1, ptV encL p2]
        = .ret [ptV encL (Model.Point.add pointCtx4 p1 p2), ptV encL (Model.Point.add pointCtx4 p1 p2)] :=
  ir_PointAdd (X := X) (C := pointCtx4) fiatPrims4 globals_6 rfl rfl qa qb qc p1 p2

/-- **(*SM2Point).Double of `prog` = `Model.Point.double pointCtx4`** -/
theorem ir_PointDouble_fiat (qa qb qc : List Nat) (p : Model.Point.Pt Limbs) :
    ∀ f, fuelPtDouble fuelFiat fuelFiat fuelFiat fuelFiat ≤ f →
      runV prog globals X f f_internal_SM2Point_Double [ptRawV qa qb qc, ptV encL p]
        = .ret [ptV encL (Model.Point.double pointCtx4 p), ptV encL (Model.Point.double pointCtx4 p)] :=
  ir_PointDouble (X := X) (C := pointCtx4) fiatPrims4 globals_6 rfl rfl qa qb qc p

end Closed4

/-! ### The table side conditions for the generated 6-3-14 tables -/

/-- `RowsOk`, decided on the first `n` entries -/
def rowsOkB (row : List (List Nat)) (n : Nat) : Bool :=
  decide (n ≤ row.length) && (row.take n).all (fun r => decide (4 ≤ r.length))

/-- `TableOk tbl false w`, decided -/
def tableOkB (tbl : Table) (w : Nat) : Bool :=
  decide (2 ≤ tbl.length) && rowsOkB (tbl.getD 0 []) w && rowsOkB (tbl.getD 1 []) w

theorem rowsOk_of_B {row : List (List Nat)} {n : Nat} (h : rowsOkB row n = true) : RowsOk row n := by
  simp only [rowsOkB, Bool.and_eq_true, decide_eq_true_eq, List.all_eq_true] at h
  intro j hj
  have hjl : j < row.length := by omega
  refine ⟨row[j], List.getElem?_eq_getElem hjl, h.2 _ ?_⟩
  rw [List.mem_take_iff_getElem]
  exact ⟨j, by omega, rfl⟩

theorem tableOk_of_B {tbl : Table} {w : Nat} (h : tableOkB tbl w = true) : TableOk tbl false w := by
  simp only [tableOkB, Bool.and_eq_true, decide_eq_true_eq] at h
  exact ⟨by simpa using h.1.1, rowsOk_of_B h.1.2, rowsOk_of_B h.2, fun h => by cases h⟩

set_option maxRecDepth 100000 in
theorem first_6_3_14_ok : Gen.SM2Tables.sm2Precomputed_6_3_14.all (fun t => tableOkB t 63) = true := by decide +kernel

set_option maxRecDepth 100000 in
theorem second_6_3_14_ok : tableOkB Gen.SM2Tables.sm2Precomputed_6_3_14_Remainder 15 = true := by decide +kernel

set_option maxRecDepth 100000 in
theorem first_6_3_14_length : Gen.SM2Tables.sm2Precomputed_6_3_14.length = 3 := by decide +kernel

set_option maxRecDepth 100000 in
theorem second_6_3_14_width : (Gen.SM2Tables.sm2Precomputed_6_3_14_Remainder.getD 0 []).length = 15 := by decide +kernel

/-- **the fixed-base multiplication of the Go code** (`scalarBaseMult_SkipBitExtration` on the generated 6-3-14
    tables, window 6, 3 sub-tables, 14 iterations, remainder 4) **= the model over the generated Fiat functions**;
    the only hypothesis is that external 10 returns one value -/
theorem ir_scalarBaseMult_6_3_14_fiat {X : Oracle} (k : Bytes) (hX : ∃ v, X 10 [.int (k.length : Int), .int 32] = [v]) :
    match Model.Curve.scalarBaseMult (pointOps pointCtx4) k Gen.SM2Tables.sm2Precomputed_6_3_14
        Gen.SM2Tables.sm2Precomputed_6_3_14_Remainder 6 3 14 4 with
    | .ok r => ∀ f, fuelScalarBaseMult 6 3 14 63 fuelFiat fuelFiat fuelFiat fuelFiat fuelFiat ≤ f →
        runV prog globals X f f_internal_scalarBaseMult_SkipBitExtration
          [bytesV k, .arr (Gen.SM2Tables.sm2Precomputed_6_3_14.map CTIRRefineComb.encT),
            CTIRRefineComb.encT Gen.SM2Tables.sm2Precomputed_6_3_14_Remainder, .int ((6 : Nat) : Int), .int ((3 : Nat) : Int),
            .int ((14 : Nat) : Int), .int ((4 : Nat) : Int)] = .ret [ptV encL r, .int 0]
    | .err => ∀ f, 20 ≤ f →
        runV prog globals X f f_internal_scalarBaseMult_SkipBitExtration
          [bytesV k, .arr (Gen.SM2Tables.sm2Precomputed_6_3_14.map CTIRRefineComb.encT),
            CTIRRefineComb.encT Gen.SM2Tables.sm2Precomputed_6_3_14_Remainder, .int ((6 : Nat) : Int), .int ((3 : Nat) : Int),
            .int ((14 : Nat) : Int), .int ((4 : Nat) : Int)] = .ret [CTIRRefineComb.nilPointV, .int 1]
    | .panic =>
        (∃ F, ∀ f, F ≤ f → runV prog globals X f f_internal_scalarBaseMult_SkipBitExtration
          [bytesV k, .arr (Gen.SM2Tables.sm2Precomputed_6_3_14.map CTIRRefineComb.encT),
            CTIRRefineComb.encT Gen.SM2Tables.sm2Precomputed_6_3_14_Remainder, .int ((6 : Nat) : Int), .int ((3 : Nat) : Int),
            .int ((14 : Nat) : Int), .int ((4 : Nat) : Int)] = .panic) ∨
        (∀ f, runV prog globals X f f_internal_scalarBaseMult_SkipBitExtration
          [bytesV k, .arr (Gen.SM2Tables.sm2Precomputed_6_3_14.map CTIRRefineComb.encT),
            CTIRRefineComb.encT Gen.SM2Tables.sm2Precomputed_6_3_14_Remainder, .int ((6 : Nat) : Int), .int ((3 : Nat) : Int),
            .int ((14 : Nat) : Int), .int ((4 : Nat) : Int)] = .stuck) := by
  refine ir_scalarBaseMult_eq_model_fiat (W := 63) k _ _ 6 3 14 4 (by decide) ?_ hX (by decide) ?_ ?_
  · intro tbl w hu _
    rcases hu with ⟨hm, hw⟩ | ⟨ht, hw⟩
    · have hw' : w = 63 := hw
      subst hw'
      exact ⟨Nat.le_refl _, tableOk_of_B ((List.all_eq_true.mp first_6_3_14_ok) tbl hm)⟩
    · have hw' : w = 15 := hw.trans second_6_3_14_width
      have ht' : tbl = Gen.SM2Tables.sm2Precomputed_6_3_14_Remainder := ht
      subst hw' ht'
      exact ⟨by decide, tableOk_of_B second_6_3_14_ok⟩
  · rw [first_6_3_14_length]; decide
  · intro _ h
    have := second_6_3_14_width
    rw [h] at this
    cases this

/-- the two tables are globals 7 and 8 of the generated program -/
theorem globals_7 : globals 7 = .arr (Gen.SM2Tables.sm2Precomputed_6_3_14.map CTIRRefineComb.encT) := rfl
theorem globals_8 : globals 8 = CTIRRefineComb.encT Gen.SM2Tables.sm2Precomputed_6_3_14_Remainder := rfl



/-! ### The standard external world

  `stdOracle extKinds tape` (SMGo/Model/CTIR.lean, the executable model of the external calls of `prog`) satisfies
  the two hypotheses on `X`: external 10 (`fmt.Errorf`) returns `[1]`, external 7 (`big.Int.SetBytes`) the value of the
  bytes (`CTIRRefinePointB.stdOracle_setBytes`).  So the `_std` corollaries have no hypothesis besides the domain. -/

theorem stdOracle_errorf (tape : Nat → Nat → Nat) (args : List Val) : stdOracle extKinds tape 10 args = [.int 1] := rfl

/-- **the fixed-base multiplication of the Go code, standard external world: NO hypothesis** -/
theorem ir_scalarBaseMult_6_3_14_fiat_std (tape : Nat → Nat → Nat) (k : Bytes) :
    match Model.Curve.scalarBaseMult (pointOps pointCtx4) k Gen.SM2Tables.sm2Precomputed_6_3_14
        Gen.SM2Tables.sm2Precomputed_6_3_14_Remainder 6 3 14 4 with
    | .ok r => ∀ f, fuelScalarBaseMult 6 3 14 63 fuelFiat fuelFiat fuelFiat fuelFiat fuelFiat ≤ f →
        runV prog globals (stdOracle extKinds tape) f f_internal_scalarBaseMult_SkipBitExtration
          [bytesV k, globals 7, globals 8, .int 6, .int 3, .int 14, .int 4] = .ret [ptV encL r, .int 0]
    | .err => ∀ f, 20 ≤ f →
        runV prog globals (stdOracle extKinds tape) f f_internal_scalarBaseMult_SkipBitExtration
          [bytesV k, globals 7, globals 8, .int 6, .int 3, .int 14, .int 4] = .ret [CTIRRefineComb.nilPointV, .int 1]
    | .panic =>
        (∃ F, ∀ f, F ≤ f → runV prog globals (stdOracle extKinds tape) f f_internal_scalarBaseMult_SkipBitExtration
          [bytesV k, globals 7, globals 8, .int 6, .int 3, .int 14, .int 4] = .panic) ∨
        (∀ f, runV prog globals (stdOracle extKinds tape) f f_internal_scalarBaseMult_SkipBitExtration
          [bytesV k, globals 7, globals 8, .int 6, .int 3, .int 14, .int 4] = .stuck) := by
  have key := ir_scalarBaseMult_6_3_14_fiat (X := stdOracle extKinds tape) k ⟨_, stdOracle_errorf tape _⟩
  rw [globals_7, globals_8]
  cases h : Model.Curve.scalarBaseMult (pointOps pointCtx4) k Gen.SM2Tables.sm2Precomputed_6_3_14
      Gen.SM2Tables.sm2Precomputed_6_3_14_Remainder 6 3 14 4 with
  | ok r => rw [h] at key; exact key
  | err => rw [h] at key; exact key
  | panic => rw [h] at key; exact key

/-- the fuels of the closed statements, as numbers -/
theorem fuelScalarBaseMult_6_3_14 :
    fuelScalarBaseMult 6 3 14 63 fuelFiat fuelFiat fuelFiat fuelFiat fuelFiat = 2278031 := by decide
theorem fuelScalarMult_32 : fuelScalarMult 32 fuelFiat fuelFiat fuelFiat fuelFiat fuelFiat = 11097949 := by decide
theorem fuelInvert_fiat : CTIRRefinePointB.fuelInvert fuelFiat fuelFiat = 242954 := by decide
theorem fuelGetAffineX_fiat : CTIRRefinePointB.fuelGetAffineX fuelFiat fuelFiat fuelFiat fuelFiat = 247858 := by decide
theorem fuelPointBytes_fiat : CTIRRefinePointB.fuelPointBytes fuelFiat fuelFiat fuelFiat fuelFiat = 250766 := by decide

/-! ## 4. Transfer to `Model.SM2.pointCtxFiat` (carrier `List Nat`)

  `pointCtx4` is `Model.SM2.pointCtxFiat` on the sub-carrier `Limbs`: every operation commutes with `Subtype.val`
  (`valPt`), hence (generic simulation lemmas `scalarMult_rel`, `scalarBaseMult_rel` of
  SMGo/Proofs/FiatComposeCurve.lean, at the relation `q = valPt p` and the trivial modulus 2^256, for which `Canon` is
  `Out4`) the schedules, GetAffineX and Bytes over `pointCtx4` return what they return over `pointCtxFiat` on the
  underlying limbs.  The closed statements of section 3 are restated for `pointCtxFiat`, the model of
  SMGo/Props/SM2Fiat.lean; points are encoded by `ptV id` and must have `Out4` coordinates (`Out4Pt`). -/

section Transfer
open SMGo.Proofs.FiatCompose (GRel ORel All2 TableOK scalarMult_rel scalarBaseMult_rel)
open SMGo.Proofs.Fiat (Canon)
open SMGo.Model.SM2 (fiatP pointCtxFiat)

/-- the underlying point on limb lists -/
def valPt (p : Model.Point.Pt Limbs) : Model.Point.Pt (List Nat) := ⟨p.x.val, p.y.val, p.z.val⟩

/-- the encodings agree -/
theorem ptV_valPt (p : Model.Point.Pt Limbs) : ptV encL p = ptV id (valPt p) := rfl

/-- a point on limb lists with well-formed coordinates -/
structure Out4Pt (p : Model.Point.Pt (List Nat)) : Prop where
  x : Out4 p.x
  y : Out4 p.y
  z : Out4 p.z

/-- the point of `Limbs` over a well-formed point -/
def liftPt (p : Model.Point.Pt (List Nat)) (h : Out4Pt p) : Model.Point.Pt Limbs := ⟨⟨p.x, h.x⟩, ⟨p.y, h.y⟩, ⟨p.z, h.z⟩⟩

theorem valPt_liftPt (p : Model.Point.Pt (List Nat)) (h : Out4Pt p) : valPt (liftPt p h) = p := rfl

theorem out4Pt_valPt (p : Model.Point.Pt Limbs) : Out4Pt (valPt p) := ⟨p.x.2, p.y.2, p.z.2⟩

/-- the trivial modulus: `Canon M256 l ↔ Out4 l` -/
def M256 : Nat := 115792089237316195423570985008687907853269984665640564039457584007913129639936

theorem canon_of_out4 {l : List Nat} (h : Out4 l) : Canon M256 l := by
  obtain ⟨a, b, c, d, rfl, ha, hb, hc, hd⟩ := h
  exact SMGo.Proofs.Fiat.canon_mk ha hb hc hd (by unfold M256; omega)

theorem out4_of_canon {m : Nat} {l : List Nat} (h : Canon m l) : Out4 l := by
  obtain ⟨hl, hb, _⟩ := h
  obtain ⟨a, b, c, d, rfl⟩ := len4 l hl
  have e : (2 : Nat) ^ 64 = 18446744073709551616 := by decide
  rw [e] at hb
  exact ⟨a, b, c, d, rfl, hb a (by simp), hb b (by simp), hb c (by simp), hb d (by simp)⟩

/-! ### the straight-line programs -/

def valEnv (e : Model.SLP.Env Limbs) : Model.SLP.Env (List Nat) := e.map (fun kv => (kv.1, kv.2.val))

theorem get_valEnv (e : Model.SLP.Env Limbs) (r : String) :
    Model.SLP.Env.get fiatP.zero (valEnv e) r = (Model.SLP.Env.get fiatP4.zero e r).val := by
  induction e with
  | nil => rfl
  | cons kv e ih =>
    unfold Model.SLP.Env.get at ih ⊢
    simp only [valEnv, List.map_cons, List.find?_cons] at ih ⊢
    by_cases h : (kv.1 == r) = true
    · simp only [h]
    · simp only [h]
      exact ih

theorem step_valEnv (e : Model.SLP.Env Limbs) (i : Model.SLP.Instr) :
    Model.SLP.step (Model.Point.slpOps fiatP) (valEnv e) i = valEnv (Model.SLP.step (Model.Point.slpOps fiatP4) e i) := by
  have ha := get_valEnv e i.a
  have hb := get_valEnv e i.b
  unfold Model.SLP.step
  show (i.dst, _) :: valEnv e = (i.dst, _) :: valEnv e
  congr 2
  show (match i.op with
    | .mul => fiatP.mul (Model.SLP.Env.get fiatP.zero (valEnv e) i.a) (Model.SLP.Env.get fiatP.zero (valEnv e) i.b)
    | .add => fiatP.add (Model.SLP.Env.get fiatP.zero (valEnv e) i.a) (Model.SLP.Env.get fiatP.zero (valEnv e) i.b)
    | .sub => fiatP.sub (Model.SLP.Env.get fiatP.zero (valEnv e) i.a) (Model.SLP.Env.get fiatP.zero (valEnv e) i.b)
    | .square => fiatP.square (Model.SLP.Env.get fiatP.zero (valEnv e) i.a)) = _
  rw [ha, hb]
  cases i.op <;> rfl

theorem eval_valEnv (prog : List Model.SLP.Instr) : ∀ e : Model.SLP.Env Limbs,
    Model.SLP.eval (Model.Point.slpOps fiatP) prog (valEnv e) = valEnv (Model.SLP.eval (Model.Point.slpOps fiatP4) prog e) := by
  induction prog with
  | nil => intro e; rfl
  | cons i prog ih =>
    intro e
    show Model.SLP.eval _ prog (Model.SLP.step _ (valEnv e) i) = valEnv (Model.SLP.eval _ prog (Model.SLP.step _ e i))
    rw [step_valEnv, ih]

/-! ### the point operations commute with `valPt` -/

theorem infinity_val : Model.Point.infinity pointCtxFiat = valPt (Model.Point.infinity pointCtx4) := rfl

theorem negate_val (p : Model.Point.Pt Limbs) :
    Model.Point.negate pointCtxFiat (valPt p) = valPt (Model.Point.negate pointCtx4 p) := rfl

theorem add_val (a c : Model.Point.Pt Limbs) :
    Model.Point.add pointCtxFiat (valPt a) (valPt c) = valPt (Model.Point.add pointCtx4 a c) := by
  have e0 : ([("p1.x", (valPt a).x), ("p1.y", (valPt a).y), ("p1.z", (valPt a).z), ("p2.x", (valPt c).x), ("p2.y", (valPt c).y),
      ("p2.z", (valPt c).z), ("sm2B", pointCtxFiat.b)] : Model.SLP.Env (List Nat))
      = valEnv [("p1.x", a.x), ("p1.y", a.y), ("p1.z", a.z), ("p2.x", c.x), ("p2.y", c.y), ("p2.z", c.z), ("sm2B", pointCtx4.b)] := rfl
  unfold Model.Point.add
  show ({ x := Model.SLP.Env.get fiatP.zero (Model.SLP.eval (Model.Point.slpOps fiatP) Gen.PointSLP.add _) _,
          y := Model.SLP.Env.get fiatP.zero (Model.SLP.eval (Model.Point.slpOps fiatP) Gen.PointSLP.add _) _,
          z := Model.SLP.Env.get fiatP.zero (Model.SLP.eval (Model.Point.slpOps fiatP) Gen.PointSLP.add _) _ } : Model.Point.Pt (List Nat)) = _
  rw [e0, eval_valEnv, get_valEnv, get_valEnv, get_valEnv]
  rfl

theorem double_val (a : Model.Point.Pt Limbs) :
    Model.Point.double pointCtxFiat (valPt a) = valPt (Model.Point.double pointCtx4 a) := by
  have e0 : ([("p.x", (valPt a).x), ("p.y", (valPt a).y), ("p.z", (valPt a).z), ("sm2B", pointCtxFiat.b)] : Model.SLP.Env (List Nat))
      = valEnv [("p.x", a.x), ("p.y", a.y), ("p.z", a.z), ("sm2B", pointCtx4.b)] := rfl
  unfold Model.Point.double
  show ({ x := Model.SLP.Env.get fiatP.zero (Model.SLP.eval (Model.Point.slpOps fiatP) Gen.PointSLP.double _) _,
          y := Model.SLP.Env.get fiatP.zero (Model.SLP.eval (Model.Point.slpOps fiatP) Gen.PointSLP.double _) _,
          z := Model.SLP.Env.get fiatP.zero (Model.SLP.eval (Model.Point.slpOps fiatP) Gen.PointSLP.double _) _ } : Model.Point.Pt (List Nat)) = _
  rw [e0, eval_valEnv, get_valEnv, get_valEnv, get_valEnv]
  rfl

theorem pointCtx4_F : pointCtx4.F = fiatP4 := rfl
theorem pointCtxFiat_F : pointCtxFiat.F = fiatP := rfl

theorem ofRaw_msl_val (pre : List (List Nat)) (width bits : Nat) (fb : List Nat) (fc : Nat) :
    (fiatP4.ofRaw (Model.Field.multiSelectLimbs pre width bits fb fc)).val
      = fiatP.ofRaw (Model.Field.multiSelectLimbs pre width bits fb fc) :=
  fiatP4_ofRaw_val _ (CTIRRefinePointB.multiSelectLimbs_out4 pre width bits fb fc)

theorem select_val (a b : Limbs) (c : Nat) : (Model.Field.select a b c).val = Model.Field.select a.val b.val c := by
  unfold Model.Field.select; split <;> rfl

theorem multiSelect_val (q : Model.Point.Pt Limbs) (t : Table) (hasZ : Bool) (w bits : Nat) :
    ORel (fun p r => r = valPt p) (Model.Point.multiSelect pointCtx4 q t hasZ w bits)
      (Model.Point.multiSelect pointCtxFiat (valPt q) t hasZ w bits) := by
  unfold Model.Point.multiSelect
  by_cases h : (t.getD 0 []).length ≠ w
  · simp only [if_pos h]; exact trivial
  · simp only [if_neg h]
    show (_ : Model.Point.Pt (List Nat)) = valPt _
    cases hasZ
    · simp only [valPt, pointCtx4_F, pointCtxFiat_F, Bool.false_eq_true, if_false, ofRaw_msl_val, select_val]
      rfl
    · simp only [valPt, pointCtx4_F, pointCtxFiat_F, if_true, ofRaw_msl_val]
      rfl

theorem all2_val : ∀ (l1 : List (Model.Point.Pt Limbs)) (l2 : List (Model.Point.Pt (List Nat))),
    All2 (fun p r => r = valPt p) l1 l2 → l2 = l1.map valPt := by
  intro l1 l2 h
  induction h with
  | nil => rfl
  | cons hab _ ih => rw [hab, ih]; rfl

/-- the point operations of `pointCtx4` and of `pointCtxFiat` are related by `valPt` -/
theorem grel4 : GRel M256 (fun p r => r = valPt p) (pointOps pointCtx4) (pointOps pointCtxFiat) where
  infinity := infinity_val
  add := fun a b c d h1 h2 => by subst h1 h2; exact add_val a c
  double := fun a b h1 => by subst h1; exact double_val a
  negate := fun a b h1 => by subst h1; exact negate_val a
  selectXY := fun t w bits _ _ => multiSelect_val (Model.Point.infinity pointCtx4) t false w bits
  selectXYZ := fun t w bits _ _ => multiSelect_val (Model.Point.infinity pointCtx4) t true w bits
  fromXY := fun x y hx hy => by
    show Model.Point.fromXY pointCtxFiat x y = valPt (Model.Point.fromXY pointCtx4 x y)
    simp only [Model.Point.fromXY, valPt, pointCtx4_F, pointCtxFiat_F, fiatP4_ofRaw_val x (out4_of_canon hx),
      fiatP4_ofRaw_val y (out4_of_canon hy)]
    rfl
  transform := fun l1 l2 h => by
    rw [all2_val l1 l2 h]
    refine ⟨?_, ?_⟩
    · show Model.Point.transformPrecomputed pointCtx4 l1 = Model.Point.transformPrecomputed pointCtxFiat (l1.map valPt)
      simp only [Model.Point.transformPrecomputed, List.map_map]
      rfl
    · show TableOK M256 (Model.Point.transformPrecomputed pointCtx4 l1)
      intro c hc e he
      simp only [Model.Point.transformPrecomputed, List.mem_cons, List.not_mem_nil, or_false] at hc
      rcases hc with rfl | rfl | rfl <;>
      · obtain ⟨p, _, rfl⟩ := List.mem_map.mp he
        exact canon_of_out4 (Subtype.property _)

/-- ScalarMult over `pointCtx4` and over `pointCtxFiat` return the same outcome on the underlying limbs -/
theorem scalarMult_val (P : Model.Point.Pt Limbs) (scalar : Bytes) :
    ORel (fun p r => r = valPt p) (Model.Curve.scalarMult (pointOps pointCtx4) P scalar)
      (Model.Curve.scalarMult (pointOps pointCtxFiat) (valPt P) scalar) :=
  scalarMult_rel grel4 rfl scalar

/-- the comb over `pointCtx4` and over `pointCtxFiat`, tables of `Out4` entries, second table of at most 255 entries -/
theorem scalarBaseMult_val (k : Bytes) (first : List Table) (second : Table) (window sub it rem : Nat)
    (hf : ∀ t ∈ first, ∀ c ∈ t, ∀ e ∈ c, Out4 e) (hs : ∀ c ∈ second, ∀ e ∈ c, Out4 e)
    (hl : (second.getD 0 []).length ≤ 255) :
    ORel (fun p r => r = valPt p) (Model.Curve.scalarBaseMult (pointOps pointCtx4) k first second window sub it rem)
      (Model.Curve.scalarBaseMult (pointOps pointCtxFiat) k first second window sub it rem) :=
  scalarBaseMult_rel grel4 k first second window sub it rem
    (fun t ht c hc e he => canon_of_out4 (hf t ht c hc e he)) (fun c hc e he => canon_of_out4 (hs c hc e he)) hl

/-! ### inversion, affine x and encoding commute with `valPt` -/

theorem getD_map_val (r : List Limbs) (i : Nat) :
    (r.map Subtype.val).getD i fiatP.zero = (r.getD i fiatP4.zero).val := by
  simp only [List.getD_eq_getElem?_getD, List.getElem?_map]
  cases r[i]? <;> rfl

theorem opStep_val (r : List Limbs) (op : SMGo.Model.AddChain.Op) :
    (CTIRRefinePointB.opStep fiatP4 r op).map Subtype.val = CTIRRefinePointB.opStep fiatP (r.map Subtype.val) op := by
  cases op with
  | sq d s => simp only [CTIRRefinePointB.opStep, List.map_set, getD_map_val]; rfl
  | mul d a b => simp only [CTIRRefinePointB.opStep, List.map_set, getD_map_val]; rfl

theorem foldl_opStep_val (ops : List SMGo.Model.AddChain.Op) : ∀ r : List Limbs,
    (ops.foldl (CTIRRefinePointB.opStep fiatP4) r).map Subtype.val
      = ops.foldl (CTIRRefinePointB.opStep fiatP) (r.map Subtype.val) := by
  induction ops with
  | nil => intro r; rfl
  | cons op ops ih => intro r; rw [List.foldl_cons, List.foldl_cons, ih, opStep_val]

/-- the Fermat inversion (the generated addition chain) commutes with `Subtype.val` -/
theorem invert_val (x : Limbs) : (Model.Field.invert fiatP4 x).val = Model.Field.invert fiatP x.val := by
  rw [CTIRRefinePointB.invert_eq fiatP4 x rfl rfl, CTIRRefinePointB.invert_eq fiatP x.val rfl rfl, ← getD_map_val,
    foldl_opStep_val]
  rfl

theorem isZero_val (a : Limbs) : Model.Field.isZero fiatP4 a = Model.Field.isZero fiatP a.val := rfl
theorem toNat_val (a : Limbs) : Model.Field.toNat fiatP4 a = Model.Field.toNat fiatP a.val := rfl

theorem getAffineX_val (p : Model.Point.Pt Limbs) :
    Model.Point.getAffineX pointCtxFiat (valPt p) = Model.Point.getAffineX pointCtx4 p := by
  unfold Model.Point.getAffineX
  simp only [pointCtx4_F, pointCtxFiat_F, valPt, isZero_val, toNat_val, fiatP4_mul_val, invert_val]
  rfl

theorem pointBytes_val (p : Model.Point.Pt Limbs) :
    Model.Point.bytes pointCtxFiat (valPt p) true = Model.Point.bytes pointCtx4 p true := by
  unfold Model.Point.bytes
  simp only [pointCtx4_F, pointCtxFiat_F, valPt, isZero_val, fiatP4_bytes, fiatP4_mul_val, invert_val, if_true]

/-! ### The closed statements over `Model.SM2.pointCtxFiat` -/

variable {X : Oracle}

/-- **ScalarMult of `prog` = `Model.Curve.scalarMult (pointOps Model.SM2.pointCtxFiat)`**, for every point with `Out4`
    coordinates and every scalar of fewer than 2^63 bytes; the result has `Out4` coordinates.  Fully closed. -/
theorem ir_scalarMult_eq_pointCtxFiat (Pt : Model.Point.Pt (List Nat)) (hPt : Out4Pt Pt) (scalar : Bytes)
    (hlen : scalar.length < 2 ^ 63) :
    match Model.Curve.scalarMult (pointOps pointCtxFiat) Pt scalar with
    | .ok r => Out4Pt r ∧ ∀ f, fuelScalarMult scalar.length fuelFiat fuelFiat fuelFiat fuelFiat fuelFiat ≤ f →
        runV prog globals X f f_internal_ScalarMult [ptV id Pt, bytesV scalar] = .ret [ptV id r, .int 0]
    | .panic =>
        (∃ F, ∀ f, F ≤ f → runV prog globals X f f_internal_ScalarMult [ptV id Pt, bytesV scalar] = .panic) ∨
        (∀ f, runV prog globals X f f_internal_ScalarMult [ptV id Pt, bytesV scalar] = .stuck)
    | .err => False := by
  have key := ir_scalarMult_eq_model_fiat (X := X) (liftPt Pt hPt) scalar hlen
  have tr := scalarMult_val (liftPt Pt hPt) scalar
  rw [valPt_liftPt] at tr
  cases h4 : Model.Curve.scalarMult (pointOps pointCtx4) (liftPt Pt hPt) scalar with
  | ok a =>
    cases hL : Model.Curve.scalarMult (pointOps pointCtxFiat) Pt scalar with
    | ok b =>
      rw [h4, hL] at tr
      have tr' : b = valPt a := tr
      subst tr'
      rw [h4] at key
      exact ⟨out4Pt_valPt a, key⟩
    | err => rw [h4, hL] at tr; exact tr.elim
    | panic => rw [h4, hL] at tr; exact tr.elim
  | err => rw [h4] at key; exact key.elim
  | panic =>
    cases hL : Model.Curve.scalarMult (pointOps pointCtxFiat) Pt scalar with
    | ok b => rw [h4, hL] at tr; exact tr.elim
    | err => rw [h4, hL] at tr; exact tr.elim
    | panic => rw [h4] at key; exact key

theorem tables_6_3_14_out4 :
    (∀ t ∈ Gen.SM2Tables.sm2Precomputed_6_3_14, ∀ c ∈ t, ∀ e ∈ c, Out4 e) ∧
      (∀ c ∈ Gen.SM2Tables.sm2Precomputed_6_3_14_Remainder, ∀ e ∈ c, Out4 e) := by
  have h1 : Gen.SM2Tables.sm2Precomputed_6_3_14.all (fun t => t.all (fun c => c.all isOut4)) = true := by decide +kernel
  have h2 : Gen.SM2Tables.sm2Precomputed_6_3_14_Remainder.all (fun c => c.all isOut4) = true := by decide +kernel
  refine ⟨fun t ht c hc e he => out4_of_isOut4 ?_, fun c hc e he => out4_of_isOut4 ?_⟩
  · exact List.all_eq_true.mp (List.all_eq_true.mp (List.all_eq_true.mp h1 t ht) c hc) e he
  · exact List.all_eq_true.mp (List.all_eq_true.mp h2 c hc) e he

/-- **the fixed-base multiplication of the Go code = `Model.SM2.scalarBaseMult Model.SM2.ctxFiat`** (the comb 6-3-14-4 over
    the generated tables and the generated Fiat functions), standard external world: NO hypothesis.  `.ok r`: the run
    returns the point `r` (`Out4` coordinates) and a nil error; `.err` (`len(k) ≠ 32`): a nil point and an error;
    `.panic` does not happen on the generated tables (`Props/SM2Fiat.lean`), the statement covers it anyway. -/
theorem ir_scalarBaseMult_eq_ctxFiat_std (tape : Nat → Nat → Nat) (k : Bytes) :
    match Model.SM2.scalarBaseMult Model.SM2.ctxFiat k with
    | .ok r => Out4Pt r ∧ ∀ f, 2278031 ≤ f →
        runV prog globals (stdOracle extKinds tape) f f_internal_scalarBaseMult_SkipBitExtration
          [bytesV k, globals 7, globals 8, .int 6, .int 3, .int 14, .int 4] = .ret [ptV id r, .int 0]
    | .err => ∀ f, 20 ≤ f →
        runV prog globals (stdOracle extKinds tape) f f_internal_scalarBaseMult_SkipBitExtration
          [bytesV k, globals 7, globals 8, .int 6, .int 3, .int 14, .int 4] = .ret [CTIRRefineComb.nilPointV, .int 1]
    | .panic =>
        (∃ F, ∀ f, F ≤ f → runV prog globals (stdOracle extKinds tape) f f_internal_scalarBaseMult_SkipBitExtration
          [bytesV k, globals 7, globals 8, .int 6, .int 3, .int 14, .int 4] = .panic) ∨
        (∀ f, runV prog globals (stdOracle extKinds tape) f f_internal_scalarBaseMult_SkipBitExtration
          [bytesV k, globals 7, globals 8, .int 6, .int 3, .int 14, .int 4] = .stuck) := by
  have key := ir_scalarBaseMult_6_3_14_fiat_std tape k
  have tr := scalarBaseMult_val k Gen.SM2Tables.sm2Precomputed_6_3_14 Gen.SM2Tables.sm2Precomputed_6_3_14_Remainder 6 3 14 4
    tables_6_3_14_out4.1 tables_6_3_14_out4.2 (by rw [second_6_3_14_width]; decide)
  rw [fuelScalarBaseMult_6_3_14] at key
  have e : Model.SM2.scalarBaseMult Model.SM2.ctxFiat k = Model.Curve.scalarBaseMult (pointOps pointCtxFiat) k
      Gen.SM2Tables.sm2Precomputed_6_3_14 Gen.SM2Tables.sm2Precomputed_6_3_14_Remainder 6 3 14 4 := rfl
  rw [e]
  cases h4 : Model.Curve.scalarBaseMult (pointOps pointCtx4) k Gen.SM2Tables.sm2Precomputed_6_3_14
      Gen.SM2Tables.sm2Precomputed_6_3_14_Remainder 6 3 14 4 with
  | ok a =>
    cases hL : Model.Curve.scalarBaseMult (pointOps pointCtxFiat) k Gen.SM2Tables.sm2Precomputed_6_3_14
        Gen.SM2Tables.sm2Precomputed_6_3_14_Remainder 6 3 14 4 with
    | ok b =>
      rw [h4, hL] at tr
      have tr' : b = valPt a := tr
      subst tr'
      rw [h4] at key
      exact ⟨out4Pt_valPt a, key⟩
    | err => rw [h4, hL] at tr; exact tr.elim
    | panic => rw [h4, hL] at tr; exact tr.elim
  | err =>
    cases hL : Model.Curve.scalarBaseMult (pointOps pointCtxFiat) k Gen.SM2Tables.sm2Precomputed_6_3_14
        Gen.SM2Tables.sm2Precomputed_6_3_14_Remainder 6 3 14 4 with
    | ok b => rw [h4, hL] at tr; exact tr.elim
    | err => rw [h4] at key; exact key
    | panic => rw [h4, hL] at tr; exact tr.elim
  | panic =>
    cases hL : Model.Curve.scalarBaseMult (pointOps pointCtxFiat) k Gen.SM2Tables.sm2Precomputed_6_3_14
        Gen.SM2Tables.sm2Precomputed_6_3_14_Remainder 6 3 14 4 with
    | ok b => rw [h4, hL] at tr; exact tr.elim
    | err => rw [h4, hL] at tr; exact tr.elim
    | panic => rw [h4] at key; exact key

/-- **(*SM2Point).GetAffineX of `prog` = `Model.Point.getAffineX Model.SM2.pointCtxFiat`**, standard external world -/
theorem ir_GetAffineX_eq_pointCtxFiat_std (tape : Nat → Nat → Nat) (p : Model.Point.Pt (List Nat)) (hp : Out4Pt p) :
    ∀ f, 247858 ≤ f →
      runV prog globals (stdOracle extKinds tape) f f_internal_SM2Point_GetAffineX [ptV id p]
        = .ret [.int ((Model.Point.getAffineX pointCtxFiat p : Nat) : Int)] := by
  have key := ir_GetAffineX_fiat_std tape (liftPt p hp)
  rw [← getAffineX_val, valPt_liftPt, fuelGetAffineX_fiat] at key
  exact key

/-- **(*SM2Point).Bytes of `prog` = `Model.Point.bytes Model.SM2.pointCtxFiat p true`**, any external world -/
theorem ir_PointBytes_eq_pointCtxFiat (p : Model.Point.Pt (List Nat)) (hp : Out4Pt p) :
    ∀ f, 250766 ≤ f →
      runV prog globals X f f_internal_SM2Point_Bytes [ptV id p] = .ret [bytesV (Model.Point.bytes pointCtxFiat p true)] := by
  have key := ir_PointBytes_fiat (X := X) (liftPt p hp)
  rw [← pointBytes_val, valPt_liftPt, fuelPointBytes_fiat] at key
  exact key

end Transfer

#print axioms ir_scalarMult_eq_model_closed
#print axioms ir_scalarBaseMult_eq_model_closed
#print axioms fiatPrims4
#print axioms encOk4
#print axioms bytesPrims4
#print axioms setBytesPrims4
#print axioms ctxOk4
#print axioms ir_scalarMult_eq_model_fiat
#print axioms ir_scalarBaseMult_eq_model_fiat
#print axioms ir_scalarBaseMult_6_3_14_fiat
#print axioms ir_Invert_closed
#print axioms ir_GetAffineX_closed
#print axioms ir_PointBytes_closed
#print axioms ir_Invert_fiat
#print axioms ir_GetAffineX_fiat
#print axioms ir_GetAffineX_fiat_std
#print axioms ir_PointBytes_fiat
#print axioms ir_scalarBaseMult_6_3_14_fiat_std
#print axioms ir_SetBytes_fiat
#print axioms ir_PointAdd_fiat
#print axioms ir_PointDouble_fiat
#print axioms grel4
#print axioms ir_scalarMult_eq_pointCtxFiat
#print axioms ir_scalarBaseMult_eq_ctxFiat_std
#print axioms ir_GetAffineX_eq_pointCtxFiat_std
#print axioms ir_PointBytes_eq_pointCtxFiat

end SMGo.Proofs.CTIRRefineClosed
