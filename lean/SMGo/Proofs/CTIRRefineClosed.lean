/-
  Refinement, closing file: the theorems of
    SMGo/Proofs/CTIRRefineComb.lean   (schedules modulo callees),
    SMGo/Proofs/CTIRRefinePointB.lean (selection / transformation discharged: `ir_scalarMult_pointOps`,
                                       `ir_scalarBaseMult_pointOps`),
    SMGo/Proofs/CTIRRefinePointA.lean (NewSM2Point, Set, Add, Double modulo the Fiat primitives),
    SMGo/Proofs/CTIRRefineFiat.lean   (the Fiat primitives of `prog` = the regenerated let-chains `Gen.FiatP.*`)
  COMPOSED into closed corollaries.  Nothing here looks at an IR statement except the local re-derivations of
  section 2 (copies of PointA's generic SLP lemma with a weaker hypothesis, see MISMATCH below).

  PART 1 (abstract carrier `α`, encoding `enc`, any `Model.Point.Ctx α`): `ir_scalarMult_eq_model_closed`,
  `ir_scalarBaseMult_eq_model_closed`: the conclusions of the two schedule theorems with the callee hypotheses
  `hnew hdbl hadd hset` discharged.  What remains: the bundle `FiatPrims` of PointA (six Fiat primitives), `CtxOk`
  (`EncOk`, `enc zero = [0,0,0,0]`, globals 0 and 6, `C.addProg = Gen.PointSLP.add` …) and the domain / table side
  conditions of the schedule theorems.  `…_closedW`: the same from the weaker bundle `FiatPrimsW` (receivers `Out4`).

  PART 2 (fully closed): the carrier `Limbs = {l // Out4 l}` of well-formed limb vectors, `fiatP4` = `Model.SM2.fiatP`
  restricted to it (`fiatP4_*_val`, all `rfl`), `pointCtx4`; `fiatPrimsW4`, `encOk4`, `bytesPrims4`,
  `setBytesPrims4`, the globals of the generated program (`globals_0`, `globals_6`, … by kernel evaluation of the init
  functions), and `ir_scalarMult_eq_model_fiat`, `ir_scalarBaseMult_eq_model_fiat` with NO `Computes` hypothesis.

  MISMATCH found (reported, not papered over):
  * PointA's `FiatPrims.mul` (etc.) quantifies over every destination `o` with `o.length = 4` (limbs unbounded);
    CTIRRefineFiat proves the primitives for `Out4 o` (the mirror evaluator needs every argument within its word
    size).  The IR does return the same result for unbounded `o` (evaluated), but that is not what is proved.  PointA
    only ever instantiates `o` with `[0,0,0,0]` or `enc _`.  Hence `FiatPrims prog G X fiatP4 …` is NOT derivable
    from CTIRRefineFiat; this file defines `FiatPrimsW` (`Out4 o →`) and re-derives NewSM2Point / Add / Double from it
    (section 2: `slp_stepW`, `slp_foldW` are PointA's `slp_step`, `slp_fold` with `Out4` receivers).
  * PointB's `hsq : ∀ o a, Computes … [limbsV o, limbsV (enc a)] …`, `hmul` (Invert, GetAffineX, (*SM2Point).Bytes)
    have NO condition on `o` and the receiver `z0` of Invert is arbitrary: FALSE for `prog`
    (`runT prog globals noX 30000 f_fiat_sm2Square [limbsV [], limbsV [1,2,3,4]]` is stuck; `o = [0,0,0,0,7]` returns
    five limbs).  Section 5 re-derives the inversion chain, Invert, GetAffineX and Bytes with `Out4` receivers.
-/
import SMGo.Proofs.CTIRRefineField
import SMGo.Proofs.CTIRRefineComb
import SMGo.Proofs.CTIRRefinePointA
import SMGo.Proofs.CTIRRefinePointB
import SMGo.Proofs.CTIRRefineFiat
import SMGo.Model.SM2InstFiat
import SMGo.Model.Curve
open SMGo SMGo.Model.CTIR SMGo.Gen.CTIRProg SMGo.Proofs.CTIRRefineUtils SMGo.Proofs.CTIRRefineField
open SMGo.Proofs.CTIRRefinePointA hiding ptV evalV_coord
open SMGo.Proofs.CTIRRefinePointB (EncOk TableOk ptV computes_comb fuelTP fuelXY fuelSelectPoints Table)
open SMGo.Proofs.CTIRRefineFiat (fuelFiat)
open SMGo.Model.Curve (pointOps)
set_option linter.unusedSimpArgs false
set_option linter.unusedVariables false

namespace SMGo.Proofs.CTIRRefineClosed

/-! ## 0. Bridges between the copies of the encodings -/

/-- the two copies of `ptV` (PointA, PointB) are the same function -/
theorem ptV_A {α : Type} (enc : α → List Nat) (p : Model.Point.Pt α) : CTIRRefinePointA.ptV enc p = ptV enc p := rfl

theorem ptV_raw {α : Type} (enc : α → List Nat) (p : Model.Point.Pt α) :
    ptV enc p = ptRawV (enc p.x) (enc p.y) (enc p.z) := rfl

theorem out4_zero : Out4 [0, 0, 0, 0] := ⟨0, 0, 0, 0, rfl, by decide, by decide, by decide, by decide⟩

/-- HYPOTHESES on the point context, its encoding and the globals of the program: the encoding is by four limbs
    below 2^64 (`EncOk`), the Go zero value encodes `F.zero`, global 0 (`internal.sm2ElementOne`) holds the one,
    global 6 (`internal.sm2B`) the curve coefficient, the straight-line programs of the model are the generated ones -/
structure CtxOk {α : Type} (G : Nat → Val) (C : Model.Point.Ctx α) (enc : α → List Nat) : Prop where
  encOk : EncOk C.F enc
  zero : enc C.F.zero = [0, 0, 0, 0]
  one : G 0 = elemV (enc C.F.setOne)
  b : G 6 = elemV (enc C.b)
  addProg : C.addProg = Gen.PointSLP.add
  addOut : C.addOut = Gen.PointSLP.add_out
  dblProg : C.dblProg = Gen.PointSLP.double
  dblOut : C.dblOut = Gen.PointSLP.double_out

/-- the four point functions called by the schedules compute the model (the callee hypotheses
    `hnew hdbl hadd hset` of `ir_scalarMult_pointOps` / `ir_scalarBaseMult_pointOps`) -/
structure PointFns {α : Type} (G : Nat → Val) (X : Oracle) (C : Model.Point.Ctx α) (enc : α → List Nat)
    (Fnew Fdbl Fadd Fset : Nat) : Prop where
  new : CTIRRefineComb.Computes prog G X 73 Fnew [] [ptV enc (pointOps C).infinity]
  dbl : ∀ q a, CTIRRefineComb.Computes prog G X 79 Fdbl [ptV enc q, ptV enc a]
      [ptV enc ((pointOps C).double a), ptV enc ((pointOps C).double a)]
  add : ∀ q a b, CTIRRefineComb.Computes prog G X 78 Fadd [ptV enc q, ptV enc a, ptV enc b]
      [ptV enc ((pointOps C).add a b), ptV enc ((pointOps C).add a b)]
  set : ∀ q a, CTIRRefineComb.Computes prog G X 75 Fset [ptV enc q, ptV enc a] [ptV enc a, ptV enc a]

/-! ## 1. PART 1: the schedules from PointA's bundle `FiatPrims` (pure composition) -/

section Part1
variable {α : Type} {G : Nat → Val} {X : Oracle} {C : Model.Point.Ctx α} {enc : α → List Nat}
  {Fmul Fsq Fadd Fsub Fopp Fone : Nat}

/-- fuel of NewSM2Point from the fuel of sm2SetOne -/
def fuelNew (Fone : Nat) : Nat := fuelW Fone + 4

/-- fuel of (*SM2Point).Set -/
def fuelSet : Nat := 26

/-- NewSM2Point, Double, Add, Set of `prog` from PointA's theorems -/
theorem pointFns_of_prims (hp : FiatPrims prog G X C.F enc Fmul Fsq Fadd Fsub Fopp Fone) (hc : CtxOk G C enc) :
    PointFns G X C enc (fuelNew Fone) (fuelPtDouble Fmul Fadd Fsub Fsq) (fuelPtAdd Fmul Fadd Fsub Fsq) fuelSet where
  new := computes_comb (NewSM2Point_computes prog_hasPointFns hp hc.zero)
  dbl := fun q a => computes_comb
    (PointDouble_computes prog_hasPointFns hp hc.b hc.dblProg hc.dblOut (enc q.x) (enc q.y) (enc q.z) a)
  add := fun q a b => computes_comb
    (PointAdd_computes prog_hasPointFns hp hc.b hc.addProg hc.addOut (enc q.x) (enc q.y) (enc q.z) a b)
  set := fun q a => computes_comb
    (PointSet_computes prog_hasPointFns (enc q.x) (enc q.y) (enc q.z) (enc a.x) (enc a.y) (enc a.z))

/-- fuel of ScalarMult for a scalar of `n` bytes, from the fuels of the Fiat primitives -/
def fuelScalarMult (n Fmul Fsq Fadd Fsub Fone : Nat) : Nat :=
  CTIRRefineComb.SM.fuelSM n (fuelNew Fone) (fuelPtDouble Fmul Fadd Fsub Fsq) (fuelPtAdd Fmul Fadd Fsub Fsq)
    (fuelTP 15) (fuelXY 15)

/-- fuel of scalarBaseMult_SkipBitExtration, from the fuels of the Fiat primitives; `W` bounds the table widths -/
def fuelScalarBaseMult (window subTableCount iterations W Fmul Fsq Fadd Fsub Fone : Nat) : Nat :=
  CTIRRefineComb.fuelComb window subTableCount iterations (fuelNew Fone) (fuelPtDouble Fmul Fadd Fsub Fsq)
    (fuelPtAdd Fmul Fadd Fsub Fsq) fuelSet (fuelSelectPoints W)

/-- ScalarMult, given the four point functions -/
theorem ir_scalarMult_of_pointFns {Fnew Fdbl Fa Fset : Nat} (hc : CtxOk G C enc)
    (hf : PointFns G X C enc Fnew Fdbl Fa Fset) (Pt : Model.Point.Pt α) (scalar : Bytes) (hlen : scalar.length < 2 ^ 63) :
    match Model.Curve.scalarMult (pointOps C) Pt scalar with
    | .ok r => ∀ f, CTIRRefineComb.SM.fuelSM scalar.length Fnew Fdbl Fa (fuelTP 15) (fuelXY 15) ≤ f →
        runV prog G X f f_internal_ScalarMult [ptV enc Pt, bytesV scalar] = .ret [ptV enc r, .int 0]
    | .panic =>
        (∃ F, ∀ f, F ≤ f → runV prog G X f f_internal_ScalarMult [ptV enc Pt, bytesV scalar] = .panic) ∨
        (∀ f, runV prog G X f f_internal_ScalarMult [ptV enc Pt, bytesV scalar] = .stuck)
    | .err => False :=
  CTIRRefinePointB.ir_scalarMult_pointOps hc.encOk hc.one Pt scalar hlen hf.new hf.dbl hf.add

/-- scalarBaseMult_SkipBitExtration, given the four point functions -/
theorem ir_scalarBaseMult_of_pointFns {Fnew Fdbl Fa Fset W : Nat} (hc : CtxOk G C enc)
    (hf : PointFns G X C enc Fnew Fdbl Fa Fset) (k : Bytes) (first : List Table) (second : Table)
    (window subTableCount iterations remainder : Nat)
    (hW : W < 9223372036854775808)
    (hT : ∀ tbl w, CTIRRefineComb.SelUsed ⟨k, first, second, window, subTableCount, iterations, remainder⟩ tbl w →
      (tbl.getD 0 []).length = w → w ≤ W ∧ TableOk tbl false w)
    (hX : ∃ v, X 10 [.int (k.length : Int), .int 32] = [v])
    (hprod : window * subTableCount * iterations + remainder < 2 ^ 63)
    (hlen : subTableCount ≤ first.length) (hsec : 1 ≤ remainder → second ≠ []) :
    match Model.Curve.scalarBaseMult (pointOps C) k first second window subTableCount iterations remainder with
    | .ok r => ∀ f, CTIRRefineComb.fuelComb window subTableCount iterations Fnew Fdbl Fa Fset (fuelSelectPoints W) ≤ f →
        runV prog G X f f_internal_scalarBaseMult_SkipBitExtration
          [bytesV k, .arr (first.map CTIRRefineComb.encT), CTIRRefineComb.encT second, .int (window : Int), .int (subTableCount : Int),
            .int (iterations : Int), .int (remainder : Int)] = .ret [ptV enc r, .int 0]
    | .err => ∀ f, 20 ≤ f →
        runV prog G X f f_internal_scalarBaseMult_SkipBitExtration
          [bytesV k, .arr (first.map CTIRRefineComb.encT), CTIRRefineComb.encT second, .int (window : Int), .int (subTableCount : Int),
            .int (iterations : Int), .int (remainder : Int)] = .ret [CTIRRefineComb.nilPointV, .int 1]
    | .panic =>
        (∃ F, ∀ f, F ≤ f → runV prog G X f f_internal_scalarBaseMult_SkipBitExtration
          [bytesV k, .arr (first.map CTIRRefineComb.encT), CTIRRefineComb.encT second, .int (window : Int), .int (subTableCount : Int),
            .int (iterations : Int), .int (remainder : Int)] = .panic) ∨
        (∀ f, runV prog G X f f_internal_scalarBaseMult_SkipBitExtration
          [bytesV k, .arr (first.map CTIRRefineComb.encT), CTIRRefineComb.encT second, .int (window : Int), .int (subTableCount : Int),
            .int (iterations : Int), .int (remainder : Int)] = .stuck) :=
  CTIRRefinePointB.ir_scalarBaseMult_pointOps hc.encOk hc.one k first second window subTableCount iterations remainder
    hf.new hf.dbl hf.add hf.set hW hT hX hprod hlen hsec

/-- **ScalarMult = `Model.Curve.scalarMult (pointOps C)`**, only the six Fiat primitives (`FiatPrims`) and the facts
    about the context (`CtxOk`) left as hypotheses -/
theorem ir_scalarMult_eq_model_closed (hp : FiatPrims prog G X C.F enc Fmul Fsq Fadd Fsub Fopp Fone) (hc : CtxOk G C enc)
    (Pt : Model.Point.Pt α) (scalar : Bytes) (hlen : scalar.length < 2 ^ 63) :
    match Model.Curve.scalarMult (pointOps C) Pt scalar with
    | .ok r => ∀ f, fuelScalarMult scalar.length Fmul Fsq Fadd Fsub Fone ≤ f →
        runV prog G X f f_internal_ScalarMult [ptV enc Pt, bytesV scalar] = .ret [ptV enc r, .int 0]
    | .panic =>
        (∃ F, ∀ f, F ≤ f → runV prog G X f f_internal_ScalarMult [ptV enc Pt, bytesV scalar] = .panic) ∨
        (∀ f, runV prog G X f f_internal_ScalarMult [ptV enc Pt, bytesV scalar] = .stuck)
    | .err => False :=
  ir_scalarMult_of_pointFns hc (pointFns_of_prims hp hc) Pt scalar hlen

/-- **scalarBaseMult_SkipBitExtration = `Model.Curve.scalarBaseMult (pointOps C)`**, only the six Fiat primitives, the
    facts about the context and the table / domain side conditions of `ir_scalarBaseMult_pointOps` left -/
theorem ir_scalarBaseMult_eq_model_closed {W : Nat} (hp : FiatPrims prog G X C.F enc Fmul Fsq Fadd Fsub Fopp Fone)
    (hc : CtxOk G C enc) (k : Bytes) (first : List Table) (second : Table)
    (window subTableCount iterations remainder : Nat)
    (hW : W < 9223372036854775808)
    (hT : ∀ tbl w, CTIRRefineComb.SelUsed ⟨k, first, second, window, subTableCount, iterations, remainder⟩ tbl w →
      (tbl.getD 0 []).length = w → w ≤ W ∧ TableOk tbl false w)
    (hX : ∃ v, X 10 [.int (k.length : Int), .int 32] = [v])
    (hprod : window * subTableCount * iterations + remainder < 2 ^ 63)
    (hlen : subTableCount ≤ first.length) (hsec : 1 ≤ remainder → second ≠ []) :
    match Model.Curve.scalarBaseMult (pointOps C) k first second window subTableCount iterations remainder with
    | .ok r => ∀ f, fuelScalarBaseMult window subTableCount iterations W Fmul Fsq Fadd Fsub Fone ≤ f →
        runV prog G X f f_internal_scalarBaseMult_SkipBitExtration
          [bytesV k, .arr (first.map CTIRRefineComb.encT), CTIRRefineComb.encT second, .int (window : Int), .int (subTableCount : Int),
            .int (iterations : Int), .int (remainder : Int)] = .ret [ptV enc r, .int 0]
    | .err => ∀ f, 20 ≤ f →
        runV prog G X f f_internal_scalarBaseMult_SkipBitExtration
          [bytesV k, .arr (first.map CTIRRefineComb.encT), CTIRRefineComb.encT second, .int (window : Int), .int (subTableCount : Int),
            .int (iterations : Int), .int (remainder : Int)] = .ret [CTIRRefineComb.nilPointV, .int 1]
    | .panic =>
        (∃ F, ∀ f, F ≤ f → runV prog G X f f_internal_scalarBaseMult_SkipBitExtration
          [bytesV k, .arr (first.map CTIRRefineComb.encT), CTIRRefineComb.encT second, .int (window : Int), .int (subTableCount : Int),
            .int (iterations : Int), .int (remainder : Int)] = .panic) ∨
        (∀ f, runV prog G X f f_internal_scalarBaseMult_SkipBitExtration
          [bytesV k, .arr (first.map CTIRRefineComb.encT), CTIRRefineComb.encT second, .int (window : Int), .int (subTableCount : Int),
            .int (iterations : Int), .int (remainder : Int)] = .stuck) :=
  ir_scalarBaseMult_of_pointFns hc (pointFns_of_prims hp hc) k first second window subTableCount iterations remainder
    hW hT hX hprod hlen hsec

end Part1


/-! ## 2. The point layer from the weaker bundle `FiatPrimsW` (destinations `Out4`)

  `FiatPrimsW` is PointA's `FiatPrims` with `Out4 o →` instead of `o.length = 4 →` (this is what CTIRRefineFiat
  proves) and `Out4 (enc e)` instead of `(enc e).length = 4`.  `slp_stepW` / `slp_foldW` are PointA's `slp_step` /
  `slp_fold` for `OpsOkW`; the receivers that occur are `[0,0,0,0]` (`mkE`) and `enc _`.  Everything else (the
  statement lists, the side-condition checker `slpOk`, `inv_write`, `tail_ok`, the wrappers on raw limbs) is PointA's. -/

/-- HYPOTHESES: the six straight-line Fiat primitives compute the operations of `F` on the encodings, for every
    destination of four limbs below 2^64 -/
structure FiatPrimsW {α : Type} (P : Prog) (G : Nat → Val) (X : Oracle) (F : Model.Field.FieldOps α) (enc : α → List Nat)
    (Fmul Fsq Fadd Fsub Fopp Fone : Nat) : Prop where
  enc_out4 : ∀ e, Out4 (enc e)
  mul : ∀ (o : List Nat) (a b : α), Out4 o →
    Computes P G X f_fiat_sm2Mul Fmul [limbsV o, limbsV (enc a), limbsV (enc b)] [limbsV (enc (F.mul a b))]
  square : ∀ (o : List Nat) (a : α), Out4 o →
    Computes P G X f_fiat_sm2Square Fsq [limbsV o, limbsV (enc a)] [limbsV (enc (F.square a))]
  add : ∀ (o : List Nat) (a b : α), Out4 o →
    Computes P G X f_fiat_sm2Add Fadd [limbsV o, limbsV (enc a), limbsV (enc b)] [limbsV (enc (F.add a b))]
  sub : ∀ (o : List Nat) (a b : α), Out4 o →
    Computes P G X f_fiat_sm2Sub Fsub [limbsV o, limbsV (enc a), limbsV (enc b)] [limbsV (enc (F.sub a b))]
  opp : ∀ (o : List Nat) (a : α), Out4 o →
    Computes P G X f_fiat_sm2Opp Fopp [limbsV o, limbsV (enc a)] [limbsV (enc (F.opp a))]
  one : ∀ (o : List Nat), Out4 o →
    Computes P G X f_fiat_sm2SetOne Fone [limbsV o] [limbsV (enc F.setOne)]

/-- PointA's bundle implies the weaker one (given that encodings are `Out4`) -/
theorem FiatPrims.toW {α : Type} {P : Prog} {G : Nat → Val} {X : Oracle} {F : Model.Field.FieldOps α} {enc : α → List Nat}
    {Fmul Fsq Fadd Fsub Fopp Fone : Nat} (hp : FiatPrims P G X F enc Fmul Fsq Fadd Fsub Fopp Fone)
    (ho : ∀ e, Out4 (enc e)) : FiatPrimsW P G X F enc Fmul Fsq Fadd Fsub Fopp Fone :=
  ⟨ho, fun o a b h => hp.mul o a b h.length, fun o a h => hp.square o a h.length, fun o a b h => hp.add o a b h.length,
    fun o a b h => hp.sub o a b h.length, fun o a h => hp.opp o a h.length, fun o h => hp.one o h.length⟩

section WrappersW
variable {α : Type} {P : Prog} {G : Nat → Val} {X : Oracle} {F : Model.Field.FieldOps α} {enc : α → List Nat}
  {Fmul Fsq Fadd Fsub Fopp Fone : Nat}

/-- **(*SM2Element).Mul** = `F.mul`; the receiver holds any `Out4` limbs -/
theorem Mul_computesW (hw : HasPointFns P) (hp : FiatPrimsW P G X F enc Fmul Fsq Fadd Fsub Fopp Fone)
    (o : List Nat) (ho : Out4 o) (a b : α) :
    Computes P G X f_fiat_SM2Element_Mul (fuelW Fmul) [elemV o, elemV (enc a), elemV (enc b)]
      [elemV (enc (F.mul a b)), elemV (enc (F.mul a b))] :=
  wrap3_computes (by rw [← fn_22_eq]; exact hw.h22) _ _ _ _ (hp.mul o a b ho)

theorem Add_computesW (hw : HasPointFns P) (hp : FiatPrimsW P G X F enc Fmul Fsq Fadd Fsub Fopp Fone)
    (o : List Nat) (ho : Out4 o) (a b : α) :
    Computes P G X f_fiat_SM2Element_Add (fuelW Fadd) [elemV o, elemV (enc a), elemV (enc b)]
      [elemV (enc (F.add a b)), elemV (enc (F.add a b))] :=
  wrap3_computes (by rw [← fn_16_eq]; exact hw.h16) _ _ _ _ (hp.add o a b ho)

theorem Sub_computesW (hw : HasPointFns P) (hp : FiatPrimsW P G X F enc Fmul Fsq Fadd Fsub Fopp Fone)
    (o : List Nat) (ho : Out4 o) (a b : α) :
    Computes P G X f_fiat_SM2Element_Sub (fuelW Fsub) [elemV o, elemV (enc a), elemV (enc b)]
      [elemV (enc (F.sub a b)), elemV (enc (F.sub a b))] :=
  wrap3_computes (by rw [← fn_18_eq]; exact hw.h18) _ _ _ _ (hp.sub o a b ho)

theorem Square_computesW (hw : HasPointFns P) (hp : FiatPrimsW P G X F enc Fmul Fsq Fadd Fsub Fopp Fone)
    (o : List Nat) (ho : Out4 o) (a : α) :
    Computes P G X f_fiat_SM2Element_Square (fuelW Fsq) [elemV o, elemV (enc a)]
      [elemV (enc (F.square a)), elemV (enc (F.square a))] :=
  wrap2_computes (by rw [← fn_24_eq]; exact hw.h24) _ _ _ (hp.square o a ho)

theorem Opp_computesW (hw : HasPointFns P) (hp : FiatPrimsW P G X F enc Fmul Fsq Fadd Fsub Fopp Fone)
    (o : List Nat) (ho : Out4 o) (a : α) :
    Computes P G X f_fiat_SM2Element_Opp (fuelW Fopp) [elemV o, elemV (enc a)]
      [elemV (enc (F.opp a)), elemV (enc (F.opp a))] :=
  wrap2_computes (by rw [← fn_20_eq]; exact hw.h20) _ _ _ (hp.opp o a ho)

theorem One_computesW (hw : HasPointFns P) (hp : FiatPrimsW P G X F enc Fmul Fsq Fadd Fsub Fopp Fone)
    (o : List Nat) (ho : Out4 o) :
    Computes P G X f_fiat_SM2Element_One (fuelW Fone) [elemV o] [elemV (enc F.setOne), elemV (enc F.setOne)] :=
  wrap1_computes (by rw [← fn_13_eq]; exact hw.h13) _ _ (hp.one o ho)

end WrappersW

section SLPW
variable {α : Type}

/-- PointA's `OpsOk` with `Out4` receivers -/
structure OpsOkW (P : Prog) (G : Nat → Val) (X : Oracle) (ops : Model.SLP.Ops α) (enc : α → List Nat)
    (wr fu : Model.SLP.OpK → Nat) : Prop where
  enc_out4 : ∀ e, Out4 (enc e)
  op : ∀ (k : Model.SLP.OpK) (o : List Nat) (a b : α), Out4 o →
    Computes P G X (wr k) (fu k) (elemV o :: opArgVals k (elemV (enc a)) (elemV (enc b)))
      [elemV (enc (opVal ops k a b)), elemV (enc (opVal ops k a b))]

variable {P : Prog} {G : Nat → Val} {X : Oracle} {ops : Model.SLP.Ops α} {enc : α → List Nat}
  {wr fu : Model.SLP.OpK → Nat} {reg : String → Loc} {np sc : Nat}

/-- one instruction (PointA's `slp_step` for `OpsOkW`) -/
theorem slp_stepW (hops : OpsOkW P G X ops enc wr fu) {env0 env : Env} {senv : Model.SLP.Env α}
    (s : Model.SLP.Instr × Option Nat) (hinv : SInv G reg enc ops.zero np env0 env senv)
    (hok : stepOk reg np sc (senv.map Prod.fst) s = true) :
    ∃ env', Pre P G X (fu s.1.op + 4) env (stepStmts reg wr sc s) env' ∧
      SInv G reg enc ops.zero np env0 env' (Model.SLP.step ops senv s.1) := by
  obtain ⟨i, fr⟩ := s
  rw [step_eq]
  generalize hx : Model.SLP.Env.get ops.zero senv i.a = x
  generalize hy : Model.SLP.Env.get ops.zero senv i.b = y
  cases fr with
  | some t =>
    simp only [stepOk, Bool.and_eq_true] at hok
    obtain ⟨⟨⟨hvar, hla⟩, hlb⟩, hlive, hnp⟩ := hok
    obtain ⟨d, hd⟩ : ∃ d, reg i.dst = .var d := by
      cases h : reg i.dst with
      | var d => exact ⟨d, rfl⟩
      | fld p k => rw [h] at hvar; simp [Loc.isVar] at hvar
      | glob k => rw [h] at hvar; simp [Loc.isVar] at hvar
    have hvo : (reg i.dst).varOf = d := by rw [hd]; rfl
    have hA : evalV G env (reg i.a).expr = some (elemV (enc x)) := by
      rw [← hx]; exact hinv.regs i.a (by simpa using hla)
    have hB : evalV G env (reg i.b).expr = some (elemV (enc y)) := by
      rw [← hy]; exact hinv.regs i.b (by simpa using hlb)
    generalize hR : elemV (enc (opVal ops i.op x y)) = R
    have hcomp := hops.op i.op [0, 0, 0, 0] x y out4_zero
    rw [hR] at hcomp
    have c1 : EvIn P G X (fu i.op + 1) env (.call [sc, t] (wr i.op) (mkE :: opArgs reg i)) ((env.set sc R).set t R) .norm :=
      hcomp.call (evalVs_opArgs (evalV_mkE _) hA hB) rfl
    have c2 : EvIn P G X 1 ((env.set sc R).set t R) (.assign d [] (.var t)) (((env.set sc R).set t R).set d R) .norm :=
      EvIn.assign (by rw [evalV_var, Env.set_same])
    refine ⟨((env.set sc R).set t R).set d R, ?_, ?_⟩
    · simp only [stepStmts, hvo]
      exact (Pre.cons c1 (Pre.cons c2 (Pre.nil _))).mono (by omega)
    · rw [hvo] at hlive hnp
      refine inv_write (ws := [d, sc, t]) hinv ?_ hlive hnp ?_
      · intro z hz
        simp only [List.mem_cons, List.not_mem_nil, or_false, not_or] at hz
        rw [Env.set_other _ _ hz.1, Env.set_other _ _ hz.2.2, Env.set_other _ _ hz.2.1]
      · rw [hd, ← hR]
        simp only [Loc.expr, evalV_var, Env.set_same, hR]
  | none =>
    simp only [stepOk, Bool.and_eq_true] at hok
    obtain ⟨⟨⟨hvar, hla⟩, hlb⟩, hld, hlive, hnp⟩ := hok
    obtain ⟨d, hd⟩ : ∃ d, reg i.dst = .var d := by
      cases h : reg i.dst with
      | var d => exact ⟨d, rfl⟩
      | fld p k => rw [h] at hvar; simp [Loc.isVar] at hvar
      | glob k => rw [h] at hvar; simp [Loc.isVar] at hvar
    have hvo : (reg i.dst).varOf = d := by rw [hd]; rfl
    have hA : evalV G env (reg i.a).expr = some (elemV (enc x)) := by
      rw [← hx]; exact hinv.regs i.a (by simpa using hla)
    have hB : evalV G env (reg i.b).expr = some (elemV (enc y)) := by
      rw [← hy]; exact hinv.regs i.b (by simpa using hlb)
    have hD : evalV G env (.var d) = some (elemV (enc (Model.SLP.Env.get ops.zero senv i.dst))) := by
      have := hinv.regs i.dst (by simpa using hld)
      rw [hd] at this
      exact this
    generalize hR : elemV (enc (opVal ops i.op x y)) = R
    have hcomp := hops.op i.op (enc (Model.SLP.Env.get ops.zero senv i.dst)) x y (hops.enc_out4 _)
    rw [hR] at hcomp
    have c1 : EvIn P G X (fu i.op + 1) env (.call [d, sc] (wr i.op) (.var d :: opArgs reg i)) ((env.set d R).set sc R) .norm :=
      hcomp.call (evalVs_opArgs hD hA hB) rfl
    refine ⟨(env.set d R).set sc R, ?_, ?_⟩
    · simp only [stepStmts, hvo]
      exact (Pre.cons c1 (Pre.nil _)).mono (by omega)
    · rw [hvo] at hlive hnp
      refine inv_write (ws := [d, sc]) hinv ?_ hlive hnp ?_
      · intro z hz
        simp only [List.mem_cons, List.not_mem_nil, or_false, not_or] at hz
        rw [Env.set_other _ _ hz.2, Env.set_other _ _ hz.1]
      · rw [hd]
        simp only [Loc.expr, evalV_var]
        by_cases h : d = sc
        · subst h; rw [Env.set_same, hR]
        · rw [Env.set_other _ _ h, Env.set_same, hR]

/-- the generic lemma (PointA's `slp_fold` for `OpsOkW`) -/
theorem slp_foldW (hops : OpsOkW P G X ops enc wr fu) {env0 : Env} : ∀ (ss : List (Model.SLP.Instr × Option Nat))
    (env : Env) (senv : Model.SLP.Env α), SInv G reg enc ops.zero np env0 env senv →
    slpOk reg np sc (senv.map Prod.fst) ss = true →
    ∃ env', Pre P G X (slpFuel fu ss) env (slpStmts reg wr sc ss) env' ∧
      SInv G reg enc ops.zero np env0 env' (Model.SLP.eval ops (ss.map Prod.fst) senv) := by
  intro ss
  induction ss with
  | nil => intro env senv hinv _; exact ⟨env, Pre.nil _, hinv⟩
  | cons s ss ih =>
    intro env senv hinv hok
    simp only [slpOk, Bool.and_eq_true] at hok
    obtain ⟨env1, p1, hinv1⟩ := slp_stepW (wr := wr) (sc := sc) hops s hinv hok.1
    have hk : (Model.SLP.step ops senv s.1).map Prod.fst = s.1.dst :: senv.map Prod.fst := rfl
    obtain ⟨env2, p2, hinv2⟩ := ih env1 _ hinv1 (by rw [hk]; exact hok.2)
    exact ⟨env2, Pre.append p1 p2, hinv2⟩

end SLPW

theorem opsOkW_of_prims {α : Type} {P : Prog} {G : Nat → Val} {X : Oracle} {F : Model.Field.FieldOps α} {enc : α → List Nat}
    {Fmul Fsq Fadd Fsub Fopp Fone : Nat} (hw : HasPointFns P) (hp : FiatPrimsW P G X F enc Fmul Fsq Fadd Fsub Fopp Fone) :
    OpsOkW P G X (Model.Point.slpOps F) enc wrOf (fuOf Fmul Fadd Fsub Fsq) := by
  refine ⟨hp.enc_out4, ?_⟩
  intro k o a b ho
  cases k
  · exact Mul_computesW hw hp o ho a b
  · exact Add_computesW hw hp o ho a b
  · exact Sub_computesW hw hp o ho a b
  · exact Square_computesW hw hp o ho a

section PointW
variable {α : Type} {P : Prog} {G : Nat → Val} {X : Oracle} {enc : α → List Nat} {C : Model.Point.Ctx α}
  {Fmul Fsq Fadd Fsub Fopp Fone : Nat}

/-- **NewSM2Point** = `Model.Point.infinity` (PointA's proof, the receiver of `One` is `[0,0,0,0]`) -/
theorem NewSM2Point_computesW (hw : HasPointFns P) (hp : FiatPrimsW P G X C.F enc Fmul Fsq Fadd Fsub Fopp Fone)
    (hz : enc C.F.zero = [0, 0, 0, 0]) :
    Computes P G X f_internal_NewSM2Point (fuelW Fone + 4) [] [ptV enc (Model.Point.infinity C)] := by
  let e0 : Env := Env.ofList []
  let e1 := (e0.set 0 (elemV (enc C.F.setOne))).set 1 (elemV (enc C.F.setOne))
  have c1 : EvIn P G X (fuelW Fone + 1) e0 (.call [0, 1] 13 [mkE]) e1 .norm := by
    refine (One_computesW hw hp [0, 0, 0, 0] out4_zero).call ?_ rfl
    simp only [evalVs_cons, evalVs_nil, evalV_mkE]
  have sr : evalVs G e1 [(.cat (.mk (.lit 1) mkE) (.cat (.mk (.lit 1) (.var 1)) (.mk (.lit 1) mkE)))]
      = some [ptV enc (Model.Point.infinity C)] := by
    have q := evalV_mkPoint (G := G) (env := e1) (ea := mkE) (eb := .var 1) (ec := mkE) (a := elemV [0, 0, 0, 0])
      (b := elemV (enc C.F.setOne)) (c := elemV [0, 0, 0, 0]) (evalV_mkE _) (by simp [e1, Env.set]) (evalV_mkE _)
    simp only [evalVs_cons, evalVs_nil, q, ptV, Model.Point.infinity, hz]
  refine Computes.of_body hw.h73 rfl rfl (env' := e1) ?_
  rw [fn_73_body]
  exact ((Pre.cons c1 (Pre.nil _) _).1 _ _ _ (EvIn.seq_stop (EvIn.ret sr) (by simp))).mono (by omega)

/-- **NewFromXY** = `Model.Point.fromXY`, for limbs that the encoding reproduces -/
theorem NewFromXY_computesW (hw : HasPointFns P) (hp : FiatPrimsW P G X C.F enc Fmul Fsq Fadd Fsub Fopp Fone)
    (x y : List Nat) (hx : x.length = 4) (hy : y.length = 4) (hrx : enc (C.F.ofRaw x) = x) (hry : enc (C.F.ofRaw y) = y) :
    Computes P G X f_internal_NewFromXY (fuelW Fone + 20) [limbsV x, limbsV y] [ptV enc (Model.Point.fromXY C x y)] := by
  have := NewFromXY_raw (P := P) (G := G) (X := X) hw x y (enc C.F.setOne) hx hy (One_computesW hw hp [0, 0, 0, 0] out4_zero)
  simpa only [ptV, ptRawV, Model.Point.fromXY, hrx, hry] using this

/-- **(*SM2Point).Negate** = `Model.Point.negate`; the `y` coordinate of the receiver holds `Out4` limbs -/
theorem Negate_computesW (hw : HasPointFns P) (hp : FiatPrimsW P G X C.F enc Fmul Fsq Fadd Fsub Fopp Fone)
    (qa qb qc : List Nat) (hqb : Out4 qb) (p : Model.Point.Pt α) :
    Computes P G X f_internal_SM2Point_Negate (fuelW Fopp + 22) [ptRawV qa qb qc, ptV enc p]
      [ptV enc (Model.Point.negate C p), ptV enc (Model.Point.negate C p)] :=
  Negate_raw hw qa qb qc (enc p.x) (enc p.y) (enc p.z) _ (Opp_computesW hw hp qb hqb p.y)

/-- **(*SM2Point).Add** = `Model.Point.add` (PointA's proof over `slp_foldW`) -/
theorem PointAdd_computesW (hw : HasPointFns P) (hp : FiatPrimsW P G X C.F enc Fmul Fsq Fadd Fsub Fopp Fone)
    (hB : G 6 = elemV (enc C.b)) (hprog : C.addProg = Gen.PointSLP.add) (hout : C.addOut = Gen.PointSLP.add_out)
    (qa qb qc : List Nat) (p1 p2 : Model.Point.Pt α) :
    Computes P G X f_internal_SM2Point_Add (fuelPtAdd Fmul Fadd Fsub Fsq) [ptRawV qa qb qc, ptV enc p1, ptV enc p2]
      [ptV enc (Model.Point.add C p1 p2), ptV enc (Model.Point.add C p1 p2)] := by
  let e0 : Env := Env.ofList [ptRawV qa qb qc, ptV enc p1, ptV enc p2]
  have h1 : e0 1 = .arr [elemV (enc p1.x), elemV (enc p1.y), elemV (enc p1.z)] := rfl
  have h2 : e0 2 = .arr [elemV (enc p2.x), elemV (enc p2.y), elemV (enc p2.z)] := rfl
  have hinv0 : SInv G addReg enc (Model.Point.slpOps C.F).zero 3 e0 e0 (addEnv0 C p1 p2) := by
    refine ⟨?_, fun _ _ => rfl⟩
    intro r hr
    simp only [addEnv0, List.map_cons, List.map_nil, List.mem_cons, List.not_mem_nil, or_false] at hr
    rcases hr with rfl | rfl | rfl | rfl | rfl | rfl | rfl
    · exact CTIRRefinePointA.evalV_coord (G := G) h1 (k := 0) rfl
    · exact CTIRRefinePointA.evalV_coord (G := G) h1 (k := 1) rfl
    · exact CTIRRefinePointA.evalV_coord (G := G) h1 (k := 2) rfl
    · exact CTIRRefinePointA.evalV_coord (G := G) h2 (k := 0) rfl
    · exact CTIRRefinePointA.evalV_coord (G := G) h2 (k := 1) rfl
    · exact CTIRRefinePointA.evalV_coord (G := G) h2 (k := 2) rfl
    · exact (evalV_glob G e0 6).trans (congrArg some hB)
  obtain ⟨e1, ppre, hinv1⟩ := slp_foldW (wr := wrOf) (sc := 3) (opsOkW_of_prims hw hp) addSteps e0 _ hinv0 add_check
  generalize hfin : Model.SLP.eval (Model.Point.slpOps C.F) (addSteps.map Prod.fst) (addEnv0 C p1 p2) = fin at hinv1
  have hkeys : fin.map Prod.fst = ((addSteps.map Prod.fst).map (·.dst)).reverse ++ (addEnv0 C p1 p2).map Prod.fst := by
    rw [← hfin, eval_keys]
  have hx : e1 15 = elemV (enc (Model.SLP.Env.get C.F.zero fin "x3")) :=
    Option.some.inj (hinv1.regs "x3" (by rw [hkeys]; exact List.mem_append_left _ (by decide)))
  have hy : e1 17 = elemV (enc (Model.SLP.Env.get C.F.zero fin "y3")) :=
    Option.some.inj (hinv1.regs "y3" (by rw [hkeys]; exact List.mem_append_left _ (by decide)))
  have hz : e1 19 = elemV (enc (Model.SLP.Env.get C.F.zero fin "z3")) :=
    Option.some.inj (hinv1.regs "z3" (by rw [hkeys]; exact List.mem_append_left _ (by decide)))
  have h0 : e1 0 = ptRawV qa qb qc := hinv1.frame 0 (by decide)
  obtain ⟨e2, ptail, g⟩ := tail_ok (P := P) (G := G) (X := X) hw.h15 (sc := 3) (vx := 15) (vy := 17) (vz := 19) (t0 := 20) (t1 := 21)
    (t2 := 22) h0 hx hy hz (by decide) (by decide) (by decide) (by decide) (by decide) (by decide)
  have hres : ptV enc (Model.Point.add C p1 p2) = ptRawV (enc (Model.SLP.Env.get C.F.zero fin "x3"))
      (enc (Model.SLP.Env.get C.F.zero fin "y3")) (enc (Model.SLP.Env.get C.F.zero fin "z3")) := by
    rw [add_model C p1 p2 hprog hout, hfin]
    rfl
  rw [hres]
  have sr : evalVs G e2 [(.var 0), (.var 0)] = some [e2 0, e2 0] := by
    simp only [evalVs_cons, evalVs_nil, evalV_var]
  rw [g] at sr
  refine Computes.of_body hw.h78 rfl rfl (env' := e2) ?_
  rw [fn_78_body]
  exact ((Pre.append ppre ptail _).1 _ _ _ (EvIn.seq_stop (EvIn.ret sr) (by simp))).mono (by simp only [fuelPtAdd]; omega)

/-- **(*SM2Point).Double** = `Model.Point.double` (PointA's proof over `slp_foldW`) -/
theorem PointDouble_computesW (hw : HasPointFns P) (hp : FiatPrimsW P G X C.F enc Fmul Fsq Fadd Fsub Fopp Fone)
    (hB : G 6 = elemV (enc C.b)) (hprog : C.dblProg = Gen.PointSLP.double) (hout : C.dblOut = Gen.PointSLP.double_out)
    (qa qb qc : List Nat) (p : Model.Point.Pt α) :
    Computes P G X f_internal_SM2Point_Double (fuelPtDouble Fmul Fadd Fsub Fsq) [ptRawV qa qb qc, ptV enc p]
      [ptV enc (Model.Point.double C p), ptV enc (Model.Point.double C p)] := by
  let e0 : Env := Env.ofList [ptRawV qa qb qc, ptV enc p]
  have h1 : e0 1 = .arr [elemV (enc p.x), elemV (enc p.y), elemV (enc p.z)] := rfl
  have hinv0 : SInv G dblReg enc (Model.Point.slpOps C.F).zero 2 e0 e0 (dblEnv0 C p) := by
    refine ⟨?_, fun _ _ => rfl⟩
    intro r hr
    simp only [dblEnv0, List.map_cons, List.map_nil, List.mem_cons, List.not_mem_nil, or_false] at hr
    rcases hr with rfl | rfl | rfl | rfl
    · exact CTIRRefinePointA.evalV_coord (G := G) h1 (k := 0) rfl
    · exact CTIRRefinePointA.evalV_coord (G := G) h1 (k := 1) rfl
    · exact CTIRRefinePointA.evalV_coord (G := G) h1 (k := 2) rfl
    · exact (evalV_glob G e0 6).trans (congrArg some hB)
  obtain ⟨e1, ppre, hinv1⟩ := slp_foldW (wr := wrOf) (sc := 2) (opsOkW_of_prims hw hp) dblSteps e0 _ hinv0 dbl_check
  generalize hfin : Model.SLP.eval (Model.Point.slpOps C.F) (dblSteps.map Prod.fst) (dblEnv0 C p) = fin at hinv1
  have hkeys : fin.map Prod.fst = ((dblSteps.map Prod.fst).map (·.dst)).reverse ++ (dblEnv0 C p).map Prod.fst := by
    rw [← hfin, eval_keys]
  have hx : e1 16 = elemV (enc (Model.SLP.Env.get C.F.zero fin "x3")) :=
    Option.some.inj (hinv1.regs "x3" (by rw [hkeys]; exact List.mem_append_left _ (by decide)))
  have hy : e1 14 = elemV (enc (Model.SLP.Env.get C.F.zero fin "y3")) :=
    Option.some.inj (hinv1.regs "y3" (by rw [hkeys]; exact List.mem_append_left _ (by decide)))
  have hz : e1 12 = elemV (enc (Model.SLP.Env.get C.F.zero fin "z3")) :=
    Option.some.inj (hinv1.regs "z3" (by rw [hkeys]; exact List.mem_append_left _ (by decide)))
  have h0 : e1 0 = ptRawV qa qb qc := hinv1.frame 0 (by decide)
  obtain ⟨e2, ptail, g⟩ := tail_ok (P := P) (G := G) (X := X) hw.h15 (sc := 2) (vx := 16) (vy := 14) (vz := 12) (t0 := 17) (t1 := 18)
    (t2 := 19) h0 hx hy hz (by decide) (by decide) (by decide) (by decide) (by decide) (by decide)
  have hres : ptV enc (Model.Point.double C p) = ptRawV (enc (Model.SLP.Env.get C.F.zero fin "x3"))
      (enc (Model.SLP.Env.get C.F.zero fin "y3")) (enc (Model.SLP.Env.get C.F.zero fin "z3")) := by
    rw [double_model C p hprog hout, hfin]
    rfl
  rw [hres]
  have sr : evalVs G e2 [(.var 0), (.var 0)] = some [e2 0, e2 0] := by
    simp only [evalVs_cons, evalVs_nil, evalV_var]
  rw [g] at sr
  refine Computes.of_body hw.h79 rfl rfl (env' := e2) ?_
  rw [fn_79_body]
  exact ((Pre.append ppre ptail _).1 _ _ _ (EvIn.seq_stop (EvIn.ret sr) (by simp))).mono (by simp only [fuelPtDouble]; omega)

end PointW

section Part1W
variable {α : Type} {G : Nat → Val} {X : Oracle} {C : Model.Point.Ctx α} {enc : α → List Nat}
  {Fmul Fsq Fadd Fsub Fopp Fone : Nat}

/-- NewSM2Point, Double, Add, Set of `prog` from the weaker bundle -/
theorem pointFns_of_primsW (hp : FiatPrimsW prog G X C.F enc Fmul Fsq Fadd Fsub Fopp Fone) (hc : CtxOk G C enc) :
    PointFns G X C enc (fuelNew Fone) (fuelPtDouble Fmul Fadd Fsub Fsq) (fuelPtAdd Fmul Fadd Fsub Fsq) fuelSet where
  new := computes_comb (NewSM2Point_computesW prog_hasPointFns hp hc.zero)
  dbl := fun q a => computes_comb
    (PointDouble_computesW prog_hasPointFns hp hc.b hc.dblProg hc.dblOut (enc q.x) (enc q.y) (enc q.z) a)
  add := fun q a b => computes_comb
    (PointAdd_computesW prog_hasPointFns hp hc.b hc.addProg hc.addOut (enc q.x) (enc q.y) (enc q.z) a b)
  set := fun q a => computes_comb
    (PointSet_computes prog_hasPointFns (enc q.x) (enc q.y) (enc q.z) (enc a.x) (enc a.y) (enc a.z))

/-- **ScalarMult = `Model.Curve.scalarMult (pointOps C)`** from `FiatPrimsW` -/
theorem ir_scalarMult_eq_model_closedW (hp : FiatPrimsW prog G X C.F enc Fmul Fsq Fadd Fsub Fopp Fone) (hc : CtxOk G C enc)
    (Pt : Model.Point.Pt α) (scalar : Bytes) (hlen : scalar.length < 2 ^ 63) :
    match Model.Curve.scalarMult (pointOps C) Pt scalar with
    | .ok r => ∀ f, fuelScalarMult scalar.length Fmul Fsq Fadd Fsub Fone ≤ f →
        runV prog G X f f_internal_ScalarMult [ptV enc Pt, bytesV scalar] = .ret [ptV enc r, .int 0]
    | .panic =>
        (∃ F, ∀ f, F ≤ f → runV prog G X f f_internal_ScalarMult [ptV enc Pt, bytesV scalar] = .panic) ∨
        (∀ f, runV prog G X f f_internal_ScalarMult [ptV enc Pt, bytesV scalar] = .stuck)
    | .err => False :=
  ir_scalarMult_of_pointFns hc (pointFns_of_primsW hp hc) Pt scalar hlen

/-- **scalarBaseMult_SkipBitExtration = `Model.Curve.scalarBaseMult (pointOps C)`** from `FiatPrimsW` -/
theorem ir_scalarBaseMult_eq_model_closedW {W : Nat} (hp : FiatPrimsW prog G X C.F enc Fmul Fsq Fadd Fsub Fopp Fone)
    (hc : CtxOk G C enc) (k : Bytes) (first : List Table) (second : Table)
    (window subTableCount iterations remainder : Nat)
    (hW : W < 9223372036854775808)
    (hT : ∀ tbl w, CTIRRefineComb.SelUsed ⟨k, first, second, window, subTableCount, iterations, remainder⟩ tbl w →
      (tbl.getD 0 []).length = w → w ≤ W ∧ TableOk tbl false w)
    (hX : ∃ v, X 10 [.int (k.length : Int), .int 32] = [v])
    (hprod : window * subTableCount * iterations + remainder < 2 ^ 63)
    (hlen : subTableCount ≤ first.length) (hsec : 1 ≤ remainder → second ≠ []) :
    match Model.Curve.scalarBaseMult (pointOps C) k first second window subTableCount iterations remainder with
    | .ok r => ∀ f, fuelScalarBaseMult window subTableCount iterations W Fmul Fsq Fadd Fsub Fone ≤ f →
        runV prog G X f f_internal_scalarBaseMult_SkipBitExtration
          [bytesV k, .arr (first.map CTIRRefineComb.encT), CTIRRefineComb.encT second, .int (window : Int), .int (subTableCount : Int),
            .int (iterations : Int), .int (remainder : Int)] = .ret [ptV enc r, .int 0]
    | .err => ∀ f, 20 ≤ f →
        runV prog G X f f_internal_scalarBaseMult_SkipBitExtration
          [bytesV k, .arr (first.map CTIRRefineComb.encT), CTIRRefineComb.encT second, .int (window : Int), .int (subTableCount : Int),
            .int (iterations : Int), .int (remainder : Int)] = .ret [CTIRRefineComb.nilPointV, .int 1]
    | .panic =>
        (∃ F, ∀ f, F ≤ f → runV prog G X f f_internal_scalarBaseMult_SkipBitExtration
          [bytesV k, .arr (first.map CTIRRefineComb.encT), CTIRRefineComb.encT second, .int (window : Int), .int (subTableCount : Int),
            .int (iterations : Int), .int (remainder : Int)] = .panic) ∨
        (∀ f, runV prog G X f f_internal_scalarBaseMult_SkipBitExtration
          [bytesV k, .arr (first.map CTIRRefineComb.encT), CTIRRefineComb.encT second, .int (window : Int), .int (subTableCount : Int),
            .int (iterations : Int), .int (remainder : Int)] = .stuck) :=
  ir_scalarBaseMult_of_pointFns hc (pointFns_of_primsW hp hc) k first second window subTableCount iterations remainder
    hW hT hX hprod hlen hsec

end Part1W


/-! ## 3. PART 2: the carrier of well-formed limb vectors and the generated Fiat functions on it

  The bundles quantify over ALL elements of the carrier (`∀ e, Out4 (enc e)`), the generated functions of
  `Model.SM2.fiatP` live on `List Nat`: the carrier is the subtype `Limbs` of the lists of four limbs below 2^64, with
  `encL = Subtype.val`.  `fiatP4` is `Model.SM2.fiatP` restricted to it (`fiatP4_*_val`, all by `rfl`); closure is the
  `Out4` conjunct of the theorems of CTIRRefineFiat (true for any `G`, `X`).  Two operations of `FieldOps` take an
  argument outside the carrier and need a default:
    * `fromBytesLE b`: `Gen.FiatP.sm2FromBytes` on 32 bytes (the Go function takes a `*[32]uint8`; CTIRRefineFiat
      gives `Out4` for 32 bytes), the zero element for any other length (never used: `Model.Field.setBytes` checks
      the length first);
    * `ofRaw l`: `l` if `Out4 l` (the Go type `*[4]uint64`), the zero element otherwise. -/

/-- four limbs below 2^64 -/
abbrev Limbs : Type := {l : List Nat // Out4 l}

/-- the limb encoding of the carrier `Limbs`: the limbs themselves -/
def encL : Limbs → List Nat := Subtype.val

/-- `Out4`, decided -/
def isOut4 : List Nat → Bool
  | [a, b, c, d] => decide (a < 18446744073709551616) && decide (b < 18446744073709551616) &&
      decide (c < 18446744073709551616) && decide (d < 18446744073709551616)
  | _ => false

theorem out4_of_isOut4 {l : List Nat} (h : isOut4 l = true) : Out4 l := by
  unfold isOut4 at h
  split at h
  · simp only [Bool.and_eq_true, decide_eq_true_eq] at h
    exact ⟨_, _, _, _, rfl, h.1.1.1, h.1.1.2, h.1.2, h.2⟩
  · exact absurd h (by simp)

theorem isOut4_of_out4 {l : List Nat} (h : Out4 l) : isOut4 l = true := by
  obtain ⟨a, b, c, d, rfl, ha, hb, hc, hd⟩ := h
  simp [isOut4, ha, hb, hc, hd]

theorem out4_natToLimbs (v : Nat) : Out4 (Model.Field.natToLimbs v) :=
  ⟨_, _, _, _, rfl, Nat.mod_lt _ (by decide), Nat.mod_lt _ (by decide), Nat.mod_lt _ (by decide), Nat.mod_lt _ (by decide)⟩

/-! ### Closure of the generated functions (the `Out4` conjuncts of CTIRRefineFiat, at a dummy `G`, `X`) -/

theorem out4_setOne : Out4 Gen.FiatP.sm2SetOne :=
  (CTIRRefineFiat.ir_sm2SetOne_eq_gen (G := fun _ => .int 0) (X := fun _ _ => []) [0, 0, 0, 0] out4_zero).2
theorem out4_add {a b : List Nat} (ha : Out4 a) (hb : Out4 b) : Out4 (Gen.FiatP.sm2Add a b) :=
  (CTIRRefineFiat.ir_sm2Add_eq_gen (G := fun _ => .int 0) (X := fun _ _ => []) [0, 0, 0, 0] a b out4_zero ha hb).2
theorem out4_sub {a b : List Nat} (ha : Out4 a) (hb : Out4 b) : Out4 (Gen.FiatP.sm2Sub a b) :=
  (CTIRRefineFiat.ir_sm2Sub_eq_gen (G := fun _ => .int 0) (X := fun _ _ => []) [0, 0, 0, 0] a b out4_zero ha hb).2
theorem out4_opp {a : List Nat} (ha : Out4 a) : Out4 (Gen.FiatP.sm2Opp a) :=
  (CTIRRefineFiat.ir_sm2Opp_eq_gen (G := fun _ => .int 0) (X := fun _ _ => []) [0, 0, 0, 0] a out4_zero ha).2
theorem out4_mul {a b : List Nat} (ha : Out4 a) (hb : Out4 b) : Out4 (Gen.FiatP.sm2Mul a b) :=
  (CTIRRefineFiat.ir_sm2Mul_eq_gen (G := fun _ => .int 0) (X := fun _ _ => []) [0, 0, 0, 0] a b out4_zero ha hb).2
theorem out4_square {a : List Nat} (ha : Out4 a) : Out4 (Gen.FiatP.sm2Square a) :=
  (CTIRRefineFiat.ir_sm2Square_eq_gen (G := fun _ => .int 0) (X := fun _ _ => []) [0, 0, 0, 0] a out4_zero ha).2
theorem out4_fromMontgomery {a : List Nat} (ha : Out4 a) : Out4 (Gen.FiatP.sm2FromMontgomery a) :=
  (CTIRRefineFiat.ir_sm2FromMontgomery_eq_gen (G := fun _ => .int 0) (X := fun _ _ => []) [0, 0, 0, 0] a out4_zero ha).2
theorem out4_toMontgomery {a : List Nat} (ha : Out4 a) : Out4 (Gen.FiatP.sm2ToMontgomery a) :=
  (CTIRRefineFiat.ir_sm2ToMontgomery_eq_gen (G := fun _ => .int 0) (X := fun _ _ => []) [0, 0, 0, 0] a out4_zero ha).2
theorem out4_fromBytes {b : Bytes} (hb : b.length = 32) : Out4 (Gen.FiatP.sm2FromBytes (b.map UInt8.toNat)) :=
  (CTIRRefineFiat.ir_sm2FromBytes_eq_gen (G := fun _ => .int 0) (X := fun _ _ => []) [0, 0, 0, 0] b out4_zero hb).2
theorem length_toBytes {a : List Nat} (ha : Out4 a) : ((Gen.FiatP.sm2ToBytes a).map UInt8.ofNat).length = 32 :=
  (CTIRRefineFiat.ir_sm2ToBytes_eq_gen (G := fun _ => .int 0) (X := fun _ _ => []) (List.replicate 32 0) a (by simp) ha).2

/-- the zero value of the Go struct -/
def zeroL : Limbs := ⟨[0, 0, 0, 0], out4_zero⟩

/-- **the coordinate field of the Go code**: `Model.SM2.fiatP` (the generated functions `Gen.FiatP.*`, the generated
    inversion chain) on the carrier of well-formed limb vectors -/
def fiatP4 : Model.Field.FieldOps Limbs :=
  { modulus := Gen.SM2Params.param_P
    zero := zeroL
    setOne := ⟨Gen.FiatP.sm2SetOne, out4_setOne⟩
    add := fun a b => ⟨Gen.FiatP.sm2Add a.val b.val, out4_add a.2 b.2⟩
    sub := fun a b => ⟨Gen.FiatP.sm2Sub a.val b.val, out4_sub a.2 b.2⟩
    opp := fun a => ⟨Gen.FiatP.sm2Opp a.val, out4_opp a.2⟩
    mul := fun a b => ⟨Gen.FiatP.sm2Mul a.val b.val, out4_mul a.2 b.2⟩
    square := fun a => ⟨Gen.FiatP.sm2Square a.val, out4_square a.2⟩
    fromMontgomery := fun a => ⟨Gen.FiatP.sm2FromMontgomery a.val, out4_fromMontgomery a.2⟩
    toMontgomery := fun a => ⟨Gen.FiatP.sm2ToMontgomery a.val, out4_toMontgomery a.2⟩
    toBytesLE := fun a => (Gen.FiatP.sm2ToBytes a.val).map UInt8.ofNat
    fromBytesLE := fun b =>
      if h : b.length = 32 then ⟨Gen.FiatP.sm2FromBytes (b.map UInt8.toNat), out4_fromBytes h⟩ else zeroL
    raw := Subtype.val
    ofRaw := fun l => if h : isOut4 l = true then ⟨l, out4_of_isOut4 h⟩ else zeroL
    chain := Gen.AddChain.fieldInverse
    chainRegs := Gen.AddChain.fieldInverse_regs }

/-! ### `fiatP4` is `Model.SM2.fiatP` on the underlying limbs -/

theorem fiatP4_modulus : fiatP4.modulus = Model.SM2.fiatP.modulus := rfl
theorem fiatP4_zero_val : fiatP4.zero.val = Model.SM2.fiatP.zero := rfl
theorem fiatP4_setOne_val : fiatP4.setOne.val = Model.SM2.fiatP.setOne := rfl
theorem fiatP4_add_val (a b : Limbs) : (fiatP4.add a b).val = Model.SM2.fiatP.add a.val b.val := rfl
theorem fiatP4_sub_val (a b : Limbs) : (fiatP4.sub a b).val = Model.SM2.fiatP.sub a.val b.val := rfl
theorem fiatP4_opp_val (a : Limbs) : (fiatP4.opp a).val = Model.SM2.fiatP.opp a.val := rfl
theorem fiatP4_mul_val (a b : Limbs) : (fiatP4.mul a b).val = Model.SM2.fiatP.mul a.val b.val := rfl
theorem fiatP4_square_val (a : Limbs) : (fiatP4.square a).val = Model.SM2.fiatP.square a.val := rfl
theorem fiatP4_fromMontgomery_val (a : Limbs) :
    (fiatP4.fromMontgomery a).val = Model.SM2.fiatP.fromMontgomery a.val := rfl
theorem fiatP4_toMontgomery_val (a : Limbs) : (fiatP4.toMontgomery a).val = Model.SM2.fiatP.toMontgomery a.val := rfl
theorem fiatP4_toBytesLE (a : Limbs) : fiatP4.toBytesLE a = Model.SM2.fiatP.toBytesLE a.val := rfl
theorem fiatP4_fromBytesLE_val (b : Bytes) (h : b.length = 32) :
    (fiatP4.fromBytesLE b).val = Model.SM2.fiatP.fromBytesLE b := by
  show (if h : b.length = 32 then (⟨Gen.FiatP.sm2FromBytes (b.map UInt8.toNat), out4_fromBytes h⟩ : Limbs) else zeroL).val = _
  rw [dif_pos h]
  rfl
theorem fiatP4_raw (a : Limbs) : fiatP4.raw a = Model.SM2.fiatP.raw a.val := rfl
theorem fiatP4_ofRaw_val (l : List Nat) (h : Out4 l) : (fiatP4.ofRaw l).val = Model.SM2.fiatP.ofRaw l := by
  show (if h : isOut4 l = true then (⟨l, out4_of_isOut4 h⟩ : Limbs) else zeroL).val = _
  rw [dif_pos (isOut4_of_out4 h)]
  rfl
theorem fiatP4_chain : fiatP4.chain = Model.SM2.fiatP.chain := rfl
theorem fiatP4_chainRegs : fiatP4.chainRegs = Model.SM2.fiatP.chainRegs := rfl

/-- `Model.Field.bytes` of `fiatP4` is that of `fiatP` -/
theorem fiatP4_bytes (a : Limbs) : Model.Field.bytes fiatP4 a = Model.Field.bytes Model.SM2.fiatP a.val := rfl

theorem out4_bLimbs : Out4 Model.SM2.bLimbs := out4_toMontgomery (out4_natToLimbs _)

/-- **the point layer of the Go code**: `Model.SM2.pointCtxFiat` on the carrier `Limbs` -/
def pointCtx4 : Model.Point.Ctx Limbs :=
  { F := fiatP4, b := ⟨Model.SM2.bLimbs, out4_bLimbs⟩,
    addProg := Gen.PointSLP.add, addOut := Gen.PointSLP.add_out,
    dblProg := Gen.PointSLP.double, dblOut := Gen.PointSLP.double_out }

theorem pointCtx4_b_val : pointCtx4.b.val = Model.SM2.pointCtxFiat.b := rfl

/-! ### The hypothesis bundles are theorems for `fiatP4` -/

section Bundles4
variable {G : Nat → Val} {X : Oracle}

/-- **the six Fiat primitives of `prog` compute `fiatP4`** (CTIRRefineFiat), any globals, any oracle -/
theorem fiatPrimsW4 : FiatPrimsW prog G X fiatP4 encL fuelFiat fuelFiat fuelFiat fuelFiat fuelFiat fuelFiat where
  enc_out4 := fun e => e.2
  mul := fun o a b ho => (CTIRRefineFiat.ir_sm2Mul_eq_gen o a.val b.val ho a.2 b.2).1
  square := fun o a ho => (CTIRRefineFiat.ir_sm2Square_eq_gen o a.val ho a.2).1
  add := fun o a b ho => (CTIRRefineFiat.ir_sm2Add_eq_gen o a.val b.val ho a.2 b.2).1
  sub := fun o a b ho => (CTIRRefineFiat.ir_sm2Sub_eq_gen o a.val b.val ho a.2 b.2).1
  opp := fun o a ho => (CTIRRefineFiat.ir_sm2Opp_eq_gen o a.val ho a.2).1
  one := fun o ho => (CTIRRefineFiat.ir_sm2SetOne_eq_gen o ho).1

/-- the encoding `encL` of `fiatP4` satisfies `EncOk` -/
theorem encOk4 : EncOk fiatP4 encL where
  out4 := fun e => e.2
  raw := fun _ => rfl
  ofRaw := fun l h => fiatP4_ofRaw_val l h

/-- sm2FromMontgomery and sm2ToBytes of `prog` at every element (`BytesPrims` of CTIRRefineField) -/
theorem bytesPrims4 (e : Limbs) : BytesPrims prog G X fiatP4 encL fuelFiat fuelFiat e where
  fm := (CTIRRefineFiat.ir_sm2FromMontgomery_eq_gen [0, 0, 0, 0] e.val out4_zero e.2).1
  tb := (CTIRRefineFiat.ir_sm2ToBytes_eq_gen (List.replicate 32 0) (fiatP4.fromMontgomery e).val (by simp)
    (fiatP4.fromMontgomery e).2).1
  len := length_toBytes (fiatP4.fromMontgomery e).2

/-- sm2FromBytes and sm2ToMontgomery of `prog` (`SetBytesPrims` of CTIRRefineField), for a receiver holding `Out4`
    limbs and an input of 32 bytes (for another length the model's `fromBytesLE` is the default, and `SetBytes` does
    not reach the primitives) -/
theorem setBytesPrims4 (old : List Nat) (hold : Out4 old) (v : Bytes) (hv : v.length = 32) :
    SetBytesPrims prog G X fiatP4 encL fuelFiat fuelFiat old v := by
  have hr : v.reverse.length = 32 := by rw [List.length_reverse, hv]
  have e : encL (fiatP4.fromBytesLE v.reverse) = Gen.FiatP.sm2FromBytes (v.reverse.map UInt8.toNat) :=
    fiatP4_fromBytesLE_val v.reverse hr
  refine ⟨?_, ?_⟩
  · rw [e]
    exact (CTIRRefineFiat.ir_sm2FromBytes_eq_gen [0, 0, 0, 0] v.reverse out4_zero hr).1
  · exact (CTIRRefineFiat.ir_sm2ToMontgomery_eq_gen old (fiatP4.fromBytesLE v.reverse).val hold
      (fiatP4.fromBytesLE v.reverse).2).1

end Bundles4

/-! ### The globals of the generated program

  `globals` of SMGo/Gen/CTIRProg.lean are COMPUTED: `g_0 = internal.sm2ElementOne` is the result of running the init
  function `f_init_internal_sm2ElementOne` of `prog` with the interpreter, `g_6 = internal.sm2B` the result of
  `new(SM2Element).SetBytes(b)`, `g_1`, `g_2` the results of the init functions of the two encodings.  The equations
  below are checked by the kernel, which runs the interpreter (`kernel_rfl`: `Eq.refl`, like `decide +kernel`). -/

set_option maxRecDepth 100000 in
/-- global 0 = `internal.sm2ElementOne` holds the one of `fiatP4` -/
theorem globals_0 : globals 0 = elemV (encL fiatP4.setOne) := by kernel_rfl

set_option maxRecDepth 100000 in
/-- global 6 = `internal.sm2B` holds the curve coefficient of `pointCtx4` (`Model.SM2.bLimbs`) -/
theorem globals_6 : globals 6 = elemV (encL pointCtx4.b) := by kernel_rfl

set_option maxRecDepth 100000 in
/-- global 2 = `fiat.sm2ZeroEncoding` holds the encoding of zero -/
theorem globals_2 : globals 2 = bytesV (Model.Field.bytes fiatP4 fiatP4.zero) := by kernel_rfl

set_option maxRecDepth 100000 in
/-- global 1 = `fiat.sm2MinusOneEncoding` holds the encoding of -1 -/
theorem globals_1 : globals 1 = bytesV (Model.Field.minusOneEncoding fiatP4) := by kernel_rfl

/-- the facts about the context hold for `pointCtx4` and the generated globals -/
theorem ctxOk4 : CtxOk globals pointCtx4 encL :=
  ⟨encOk4, rfl, globals_0, globals_6, rfl, rfl, rfl, rfl⟩


/-! ## 4. PART 2: the fully closed corollaries (no `Computes` hypothesis)

  `G = globals` (the generated globals), any oracle `X` (the schedules call one external, number 10, whose result
  must be a single value: `hX`), carrier `Limbs`, context `pointCtx4`.  Fuel: the fuel functions of section 1 at
  `fuelFiat = 900` for every primitive. -/

section Closed4
variable {X : Oracle}

/-- NewSM2Point, Double, Add, Set of `prog` compute the point operations of `pointCtx4`: no hypothesis -/
theorem pointFns4 : PointFns globals X pointCtx4 encL (fuelNew fuelFiat) (fuelPtDouble fuelFiat fuelFiat fuelFiat fuelFiat)
    (fuelPtAdd fuelFiat fuelFiat fuelFiat fuelFiat) fuelSet :=
  pointFns_of_primsW (C := pointCtx4) fiatPrimsW4 ctxOk4

/-- **ScalarMult of `prog` = `Model.Curve.scalarMult` over the generated Fiat functions** (`pointCtx4`), for every
    point on `Limbs` and every scalar of fewer than 2^63 bytes; fully closed -/
theorem ir_scalarMult_eq_model_fiat (Pt : Model.Point.Pt Limbs) (scalar : Bytes) (hlen : scalar.length < 2 ^ 63) :
    match Model.Curve.scalarMult (pointOps pointCtx4) Pt scalar with
    | .ok r => ∀ f, fuelScalarMult scalar.length fuelFiat fuelFiat fuelFiat fuelFiat fuelFiat ≤ f →
        runV prog globals X f f_internal_ScalarMult [ptV encL Pt, bytesV scalar] = .ret [ptV encL r, .int 0]
    | .panic =>
        (∃ F, ∀ f, F ≤ f → runV prog globals X f f_internal_ScalarMult [ptV encL Pt, bytesV scalar] = .panic) ∨
        (∀ f, runV prog globals X f f_internal_ScalarMult [ptV encL Pt, bytesV scalar] = .stuck)
    | .err => False :=
  ir_scalarMult_eq_model_closedW (C := pointCtx4) fiatPrimsW4 ctxOk4 Pt scalar hlen

/-- **scalarBaseMult_SkipBitExtration of `prog` = `Model.Curve.scalarBaseMult` over the generated Fiat functions**,
    any tables and scheme; what remains are the table / domain side conditions of `ir_scalarBaseMult_pointOps` and the
    shape of the result of external 10 -/
theorem ir_scalarBaseMult_eq_model_fiat {W : Nat} (k : Bytes) (first : List Table) (second : Table)
    (window subTableCount iterations remainder : Nat)
    (hW : W < 9223372036854775808)
    (hT : ∀ tbl w, CTIRRefineComb.SelUsed ⟨k, first, second, window, subTableCount, iterations, remainder⟩ tbl w →
      (tbl.getD 0 []).length = w → w ≤ W ∧ TableOk tbl false w)
    (hX : ∃ v, X 10 [.int (k.length : Int), .int 32] = [v])
    (hprod : window * subTableCount * iterations + remainder < 2 ^ 63)
    (hlen : subTableCount ≤ first.length) (hsec : 1 ≤ remainder → second ≠ []) :
    match Model.Curve.scalarBaseMult (pointOps pointCtx4) k first second window subTableCount iterations remainder with
    | .ok r => ∀ f, fuelScalarBaseMult window subTableCount iterations W fuelFiat fuelFiat fuelFiat fuelFiat fuelFiat ≤ f →
        runV prog globals X f f_internal_scalarBaseMult_SkipBitExtration
          [bytesV k, .arr (first.map CTIRRefineComb.encT), CTIRRefineComb.encT second, .int (window : Int), .int (subTableCount : Int),
            .int (iterations : Int), .int (remainder : Int)] = .ret [ptV encL r, .int 0]
    | .err => ∀ f, 20 ≤ f →
        runV prog globals X f f_internal_scalarBaseMult_SkipBitExtration
          [bytesV k, .arr (first.map CTIRRefineComb.encT), CTIRRefineComb.encT second, .int (window : Int), .int (subTableCount : Int),
            .int (iterations : Int), .int (remainder : Int)] = .ret [CTIRRefineComb.nilPointV, .int 1]
    | .panic =>
        (∃ F, ∀ f, F ≤ f → runV prog globals X f f_internal_scalarBaseMult_SkipBitExtration
          [bytesV k, .arr (first.map CTIRRefineComb.encT), CTIRRefineComb.encT second, .int (window : Int), .int (subTableCount : Int),
            .int (iterations : Int), .int (remainder : Int)] = .panic) ∨
        (∀ f, runV prog globals X f f_internal_scalarBaseMult_SkipBitExtration
          [bytesV k, .arr (first.map CTIRRefineComb.encT), CTIRRefineComb.encT second, .int (window : Int), .int (subTableCount : Int),
            .int (iterations : Int), .int (remainder : Int)] = .stuck) :=
  ir_scalarBaseMult_eq_model_closedW (C := pointCtx4) fiatPrimsW4 ctxOk4 k first second window subTableCount iterations
    remainder hW hT hX hprod hlen hsec

end Closed4

/-! ### The table side conditions for the generated 6-3-14 tables -/

/-- `RowsOk`, decided on the first `n` entries -/
def rowsOkB (row : List (List Nat)) (n : Nat) : Bool :=
  decide (n ≤ row.length) && (row.take n).all (fun r => decide (4 ≤ r.length))

/-- `TableOk tbl false w`, decided -/
def tableOkB (tbl : Table) (w : Nat) : Bool :=
  decide (2 ≤ tbl.length) && rowsOkB (tbl.getD 0 []) w && rowsOkB (tbl.getD 1 []) w

theorem rowsOk_of_B {row : List (List Nat)} {n : Nat} (h : rowsOkB row n = true) : RowsOk row n := by
  simp only [rowsOkB, Bool.and_eq_true, decide_eq_true_eq, List.all_eq_true] at h
  intro j hj
  have hjl : j < row.length := by omega
  refine ⟨row[j], List.getElem?_eq_getElem hjl, h.2 _ ?_⟩
  rw [List.mem_take_iff_getElem]
  exact ⟨j, by omega, rfl⟩

theorem tableOk_of_B {tbl : Table} {w : Nat} (h : tableOkB tbl w = true) : TableOk tbl false w := by
  simp only [tableOkB, Bool.and_eq_true, decide_eq_true_eq] at h
  exact ⟨by simpa using h.1.1, rowsOk_of_B h.1.2, rowsOk_of_B h.2, fun h => by cases h⟩

set_option maxRecDepth 100000 in
theorem first_6_3_14_ok : Gen.SM2Tables.sm2Precomputed_6_3_14.all (fun t => tableOkB t 63) = true := by decide +kernel

set_option maxRecDepth 100000 in
theorem second_6_3_14_ok : tableOkB Gen.SM2Tables.sm2Precomputed_6_3_14_Remainder 15 = true := by decide +kernel

set_option maxRecDepth 100000 in
theorem first_6_3_14_length : Gen.SM2Tables.sm2Precomputed_6_3_14.length = 3 := by decide +kernel

set_option maxRecDepth 100000 in
theorem second_6_3_14_width : (Gen.SM2Tables.sm2Precomputed_6_3_14_Remainder.getD 0 []).length = 15 := by decide +kernel

/-- **the fixed-base multiplication of the Go code** (`scalarBaseMult_SkipBitExtration` on the generated 6-3-14
    tables, window 6, 3 sub-tables, 14 iterations, remainder 4) **= the model over the generated Fiat functions**;
    the only hypothesis is that external 10 returns one value -/
theorem ir_scalarBaseMult_6_3_14_fiat {X : Oracle} (k : Bytes) (hX : ∃ v, X 10 [.int (k.length : Int), .int 32] = [v]) :
    match Model.Curve.scalarBaseMult (pointOps pointCtx4) k Gen.SM2Tables.sm2Precomputed_6_3_14
        Gen.SM2Tables.sm2Precomputed_6_3_14_Remainder 6 3 14 4 with
    | .ok r => ∀ f, fuelScalarBaseMult 6 3 14 63 fuelFiat fuelFiat fuelFiat fuelFiat fuelFiat ≤ f →
        runV prog globals X f f_internal_scalarBaseMult_SkipBitExtration
          [bytesV k, .arr (Gen.SM2Tables.sm2Precomputed_6_3_14.map CTIRRefineComb.encT),
            CTIRRefineComb.encT Gen.SM2Tables.sm2Precomputed_6_3_14_Remainder, .int ((6 : Nat) : Int), .int ((3 : Nat) : Int),
            .int ((14 : Nat) : Int), .int ((4 : Nat) : Int)] = .ret [ptV encL r, .int 0]
    | .err => ∀ f, 20 ≤ f →
        runV prog globals X f f_internal_scalarBaseMult_SkipBitExtration
          [bytesV k, .arr (Gen.SM2Tables.sm2Precomputed_6_3_14.map CTIRRefineComb.encT),
            CTIRRefineComb.encT Gen.SM2Tables.sm2Precomputed_6_3_14_Remainder, .int ((6 : Nat) : Int), .int ((3 : Nat) : Int),
            .int ((14 : Nat) : Int), .int ((4 : Nat) : Int)] = .ret [CTIRRefineComb.nilPointV, .int 1]
    | .panic =>
        (∃ F, ∀ f, F ≤ f → runV prog globals X f f_internal_scalarBaseMult_SkipBitExtration
          [bytesV k, .arr (Gen.SM2Tables.sm2Precomputed_6_3_14.map CTIRRefineComb.encT),
            CTIRRefineComb.encT Gen.SM2Tables.sm2Precomputed_6_3_14_Remainder, .int ((6 : Nat) : Int), .int ((3 : Nat) : Int),
            .int ((14 : Nat) : Int), .int ((4 : Nat) : Int)] = .panic) ∨
        (∀ f, runV prog globals X f f_internal_scalarBaseMult_SkipBitExtration
          [bytesV k, .arr (Gen.SM2Tables.sm2Precomputed_6_3_14.map CTIRRefineComb.encT),
            CTIRRefineComb.encT Gen.SM2Tables.sm2Precomputed_6_3_14_Remainder, .int ((6 : Nat) : Int), .int ((3 : Nat) : Int),
            .int ((14 : Nat) : Int), .int ((4 : Nat) : Int)] = .stuck) := by
  refine ir_scalarBaseMult_eq_model_fiat (W := 63) k _ _ 6 3 14 4 (by decide) ?_ hX (by decide) ?_ ?_
  · intro tbl w hu _
    rcases hu with ⟨hm, hw⟩ | ⟨ht, hw⟩
    · have hw' : w = 63 := hw
      subst hw'
      exact ⟨Nat.le_refl _, tableOk_of_B ((List.all_eq_true.mp first_6_3_14_ok) tbl hm)⟩
    · have hw' : w = 15 := hw.trans second_6_3_14_width
      have ht' : tbl = Gen.SM2Tables.sm2Precomputed_6_3_14_Remainder := ht
      subst hw' ht'
      exact ⟨by decide, tableOk_of_B second_6_3_14_ok⟩
  · rw [first_6_3_14_length]; decide
  · intro _ h
    have := second_6_3_14_width
    rw [h] at this
    cases this

/-- the two tables are globals 7 and 8 of the generated program -/
theorem globals_7 : globals 7 = .arr (Gen.SM2Tables.sm2Precomputed_6_3_14.map CTIRRefineComb.encT) := rfl
theorem globals_8 : globals 8 = CTIRRefineComb.encT Gen.SM2Tables.sm2Precomputed_6_3_14_Remainder := rfl

#print axioms ir_scalarMult_eq_model_closed
#print axioms ir_scalarBaseMult_eq_model_closed
#print axioms ir_scalarMult_eq_model_closedW
#print axioms ir_scalarBaseMult_eq_model_closedW
#print axioms fiatPrimsW4
#print axioms encOk4
#print axioms bytesPrims4
#print axioms setBytesPrims4
#print axioms ctxOk4
#print axioms ir_scalarMult_eq_model_fiat
#print axioms ir_scalarBaseMult_eq_model_fiat
#print axioms ir_scalarBaseMult_6_3_14_fiat

end SMGo.Proofs.CTIRRefineClosed
