import SMGo.Proofs.ISAValRoles
import SMGo.Gen.ListAmd64Gcm
namespace SMGo.Proofs.ISATouch
open SMGo.Gen

/-- every instruction instance of ListAmd64Gcm (gHashBlocks, sealAsm, openAsm): `roleOk`, by evaluation in the kernel -/
theorem ok_ListAmd64Gcm : allOk ListAmd64Gcm.routines = true := by decide +kernel

end SMGo.Proofs.ISATouch
