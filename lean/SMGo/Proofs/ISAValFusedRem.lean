import SMGo.Proofs.ISAValFusedTail
set_option linter.unusedSimpArgs false
namespace SMGo.Proofs.ISAVal
open SMGo.Model.ISAVal SMGo.Model.GCM SMGo.Proofs.GCM SMGo.Proofs.ISATouch
open SMGo.Model.ISA (Reg Opd Instr)

theorem vreg_of_vec {s s' : State} (h : s'.vec = s.vec) (n : Nat) : vreg s' n = vreg s n := by unfold vreg; rw [h]

theorem GhCtx.of_regsKeep {h : Nat} {G : List Nat} {s s' : State} (c : GhCtx h s) (k : RegsKeep G s s') : GhCtx h s' :=
  ⟨k.lenG.trans c.lenG, by rw [k.vec]; exact c.lenV, by rw [k.kreg]; exact c.lenK, (vreg_of_vec k.vec 22).trans c.v22,
    (vreg_of_vec k.vec 23).trans c.v23, (vreg_of_vec k.vec 24).trans c.v24,
    ⟨c.hc.hlt, (vreg_of_vec k.vec 19).trans c.hc.v19, by rw [vreg_of_vec k.vec 25]; exact c.hc.v25, (vreg_of_vec k.vec 26).trans c.hc.v26,
      ⟨fun l hl => by rw [vreg_of_vec k.vec 29]; exact c.hc.c4.v29 l hl, fun l hl => by rw [vreg_of_vec k.vec 30]; exact c.hc.c4.v30 l hl,
        (vreg_of_vec k.vec 31).trans c.hc.c4.v31⟩⟩⟩

theorem PCtx.of_regsKeep {G : List Nat} {s s' : State} (c : PCtx s) (k : RegsKeep G s s') : PCtx s' :=
  ⟨k.lenG.trans c.lenG, by rw [k.vec]; exact c.lenV, by rw [k.kreg]; exact c.lenK, k.syms.trans c.syms,
    (vreg_of_vec k.vec 10).trans c.v10, (vreg_of_vec k.vec 11).trans c.v11, (vreg_of_vec k.vec 12).trans c.v12,
    (vreg_of_vec k.vec 16).trans c.v16, (vreg_of_vec k.vec 17).trans c.v17, (vreg_of_vec k.vec 18).trans c.v18,
    (vreg_of_vec k.vec 22).trans c.v22, (vreg_of_vec k.vec 23).trans c.v23, (vreg_of_vec k.vec 24).trans c.v24⟩

/-- the remainder of `CalculateSPre` / `CalculateSMid`: `CMPQ remain, $0; JE end`, the tail through the scratch block,
    `load1X(tmp)`, one GHASH step -/
def remCode (p pEnd p8 p4 p2 p1 pe : Nat) : List DInstr :=
  [ins .CMPQ [G 11, .imm 0] 0, jcc .JEQ pEnd] ++ (tailCopyCode p 11 p8 p4 p2 p1 pe ++ (load1Code 6 ++
    ([ins .MOVQ [.imm 1, G 12] 0] ++ (gh1Code 20 21 ++ [ins .SUBQ [.imm 1, G 12] 0]))))

theorem tail_len (p rem p8 p4 p2 p1 pe : Nat) : (tailCopyCode p rem p8 p4 p2 p1 pe).length = 37 := rfl
theorem load1_len (p : Nat) : (load1Code p).length = 8 := rfl
theorem gh1_len (D Acc : Nat) : (gh1Code D Acc).length = 19 := rfl

theorem kLoad6 : writesNone (load1Code 6) ((List.range 16).filter (fun n => !([6].contains n)))
    ((List.range 32).filter (fun n => !([0, 1, 20].contains n))) (List.range 8) = true := by decide +kernel
theorem kMov12 : writesNone [ins .MOVQ [.imm 1, G 12] 0] ((List.range 16).filter (fun n => !([12].contains n))) (List.range 32) (List.range 8) = true := by
  decide +kernel
theorem kSub12 : writesNone [ins .SUBQ [.imm 1, G 12] 0] ((List.range 16).filter (fun n => !([12].contains n))) (List.range 32) (List.range 8) = true := by
  decide +kernel


/-- `Keeps` without the clause on memory: what a block that writes memory leaves alone -/
structure KeepsM (G V K : List Nat) (s s' : State) : Prop where
  lenG : s'.gpr.length = s.gpr.length
  lenV : s'.vec.length = s.vec.length
  lenK : s'.kreg.length = s.kreg.length
  g : ∀ n, n ∈ G → greg s' n = greg s n
  v : ∀ n, n ∈ V → vreg s' n = vreg s n
  k : ∀ n, n ∈ K → kregD s' n = kregD s n
  syms : s'.syms = s.syms
  frame : s'.frame = s.frame

theorem Keeps.toM {G V K : List Nat} {s s' : State} (h : Keeps G V K s s') : KeepsM G V K s s' :=
  ⟨h.lenG, h.lenV, h.lenK, h.g, h.v, h.k, h.syms, h.frame⟩

theorem RegsKeep.toM {G : List Nat} {s s' : State} (h : RegsKeep G s s') (V K : List Nat) : KeepsM G V K s s' :=
  ⟨h.lenG, by rw [h.vec], by rw [h.kreg], h.g, fun n _ => vreg_of_vec h.vec n, fun n _ => by unfold kregD; rw [h.kreg], h.syms, h.frame⟩

theorem KeepsM.trans {G V K : List Nat} {a b c : State} (h1 : KeepsM G V K a b) (h2 : KeepsM G V K b c) : KeepsM G V K a c :=
  ⟨h2.lenG.trans h1.lenG, h2.lenV.trans h1.lenV, h2.lenK.trans h1.lenK,
   fun n hn => (h2.g n hn).trans (h1.g n hn), fun n hn => (h2.v n hn).trans (h1.v n hn),
   fun n hn => (h2.k n hn).trans (h1.k n hn), h2.syms.trans h1.syms, h2.frame.trans h1.frame⟩

theorem KeepsM.mono {G V K G' V' K' : List Nat} {s s' : State} (h : KeepsM G V K s s')
    (hG : ∀ n, n ∈ G' → n ∈ G) (hV : ∀ n, n ∈ V' → n ∈ V) (hK : ∀ n, n ∈ K' → n ∈ K) : KeepsM G' V' K' s s' :=
  ⟨h.lenG, h.lenV, h.lenK, fun n hn => h.g n (hG n hn), fun n hn => h.v n (hV n hn), fun n hn => h.k n (hK n hn), h.syms, h.frame⟩

theorem KeepsM.rfl' (G V K : List Nat) (s : State) : KeepsM G V K s s :=
  ⟨rfl, rfl, rfl, fun _ _ => rfl, fun _ _ => rfl, fun _ _ => rfl, rfl, rfl⟩

theorem GhCtx.of_keepsM {h : Nat} {G V K : List Nat} {s s' : State} (c : GhCtx h s) (k : KeepsM G V K s s')
    (hV : ∀ n, n ∈ ghRegs → n ∈ V) : GhCtx h s' :=
  ⟨k.lenG.trans c.lenG, k.lenV.trans c.lenV, k.lenK.trans c.lenK, (k.v 22 (hV 22 (by decide))).trans c.v22,
    (k.v 23 (hV 23 (by decide))).trans c.v23, (k.v 24 (hV 24 (by decide))).trans c.v24,
    ⟨c.hc.hlt, (k.v 19 (hV 19 (by decide))).trans c.hc.v19, by rw [k.v 25 (hV 25 (by decide))]; exact c.hc.v25,
      (k.v 26 (hV 26 (by decide))).trans c.hc.v26,
      ⟨fun l hl => by rw [k.v 29 (hV 29 (by decide))]; exact c.hc.c4.v29 l hl,
       fun l hl => by rw [k.v 30 (hV 30 (by decide))]; exact c.hc.c4.v30 l hl, (k.v 31 (hV 31 (by decide))).trans c.hc.c4.v31⟩⟩⟩

theorem PCtx.of_keepsM {G V K : List Nat} {s s' : State} (c : PCtx s) (k : KeepsM G V K s s') (hV : ∀ n, n ∈ pRegs → n ∈ V) : PCtx s' :=
  ⟨k.lenG.trans c.lenG, k.lenV.trans c.lenV, k.lenK.trans c.lenK, k.syms.trans c.syms,
    (k.v 10 (hV 10 (by decide))).trans c.v10, (k.v 11 (hV 11 (by decide))).trans c.v11, (k.v 12 (hV 12 (by decide))).trans c.v12,
    (k.v 16 (hV 16 (by decide))).trans c.v16, (k.v 17 (hV 17 (by decide))).trans c.v17, (k.v 18 (hV 18 (by decide))).trans c.v18,
    (k.v 22 (hV 22 (by decide))).trans c.v22, (k.v 23 (hV 23 (by decide))).trans c.v23, (k.v 24 (hV 24 (by decide))).trans c.v24⟩

def remKeepG (p : Nat) : List Nat := (List.range 16).filter (fun n => !([6, p, 11, 1, 2, 12].contains n))

theorem rem_eq_tailKeep (p : Nat) : ∀ n, n ∈ remKeepG p → n ∈ tailKeepG p 11 := by
  intro n hn
  simp [remKeepG] at hn
  simp [tailKeepG]
  exact ⟨hn.1, hn.2.1, hn.2.2.1, hn.2.2.2.1, hn.2.2.2.2.1, hn.2.2.2.2.2.1⟩

set_option maxRecDepth 100000 in
set_option maxHeartbeats 2000000 in
/-- **the remainder of the additional data / of the ciphertext**: nothing when `remain = 0`, otherwise one GHASH step over
    the zero-padded remainder read back from the scratch block (the scratch pointer advances by 16) -/
theorem rem_reach (r : Routine) (k p pEnd p8 p4 p2 p1 pe : Nat) (hp : p = 8 ∨ p = 10)
    (hs : Slice r k (remCode p pEnd p8 p4 p2 p1 pe)) (lEnd : findPc r pEnd = some (r.drop (k + 68)))
    (l8 : findPc r p8 = some (r.drop (k + 5))) (l4 : findPc r p4 = some (r.drop (k + 13)))
    (l2 : findPc r p2 = some (r.drop (k + 21))) (l1 : findPc r p1 = some (r.drop (k + 29)))
    (le : findPc r pe = some (r.drop (k + 37))) (Mf : List Nat → List Region) (tbase : Nat) (bf : Buf Mf tbase 32)
    (d : List Nat) (sp : Nat) (hsrc : ∀ b, b.length = 32 → DataAt (Mf b) sp d) (hdb : ∀ x ∈ d, x < 2 ^ 8)
    (hbase : tbase + 32 < 2 ^ 63) (hsp : sp + d.length < 2 ^ 63) (h : Nat)
    (s : State) (b : List Nat) (so toff n y : Nat) (hto : toff = 0 ∨ toff = 16) (c : GhCtx h s) (hb : b.length = 32) (hm : s.mem = Mf b)
    (h11 : greg s 11 = n) (hn15 : n ≤ 15) (hgp : greg s p = sp + so) (h6 : greg s 6 = tbase + toff) (hso : so + n ≤ d.length)
    (hy : vreg s 21 = y) (hylt : y < 2 ^ 128) :
    ∃ s' N b', N ≤ 120 ∧ Reach r k s (k + 68) s' N ∧ s'.mem = Mf b' ∧ b'.length = 32 ∧ GhCtx h s' ∧
      vreg s' 21 = (if n = 0 then y else gmulR h (y ^^^ rb128 (unlanes 8 (padTo16 ((d.drop so).take n))))) ∧ vreg s' 21 < 2 ^ 128 ∧
      greg s' 6 = (if n = 0 then tbase + toff else tbase + toff + 16) ∧
      KeepsM (remKeepG p) (bodyKeepV 21) (List.range 8) s s' := by
  have hti : tailInst p 11 := by rcases hp with rfl | rfl <;> simp [tailInst]
  unfold remCode at hs
  have sC : Slice r k [ins .CMPQ [G 11, .imm 0] 0, jcc .JEQ pEnd] := hs.left
  have sT : Slice r (k + 2) (tailCopyCode p 11 p8 p4 p2 p1 pe) := hs.right.left
  have sL : Slice r (k + 39) (load1Code 6) := by
    have := hs.right.right.left; rw [tail_len] at this; exact this
  have sM : Slice r (k + 47) [ins .MOVQ [.imm 1, G 12] 0] := by
    have := hs.right.right.right.left; rw [tail_len, load1_len] at this; exact this
  have sG : Slice r (k + 48) (gh1Code 20 21) := by
    have := hs.right.right.right.right.left; rw [tail_len, load1_len] at this; exact this
  have sS : Slice r (k + 67) [ins .SUBQ [.imm 1, G 12] 0] := by
    have := hs.right.right.right.right.right; rw [tail_len, load1_len, gh1_len] at this; exact this
  -- CMPQ remain, $0; JE end
  let s0 := setFlags s (subF 8 n 0).2
  have hx0 : execList [ins .CMPQ [G 11, .imm 0] 0] s = .ok s0 := by
    apply exec_step (s1 := s0)
    · have := a_cmpq_imm s 0 11 (by rw [c.lenG]; decide)
      rw [h11, imm64_0] at this; exact this
    rfl
  have r0 : Reach r k s (k + 1) s0 1 := reach_seg (sC.sub 0 [ins .CMPQ [G 11, .imm 0] 0] rfl (by simp)) (by rfl) hx0
  have hcnd : Model.ISAVal.cond .JEQ s0.flags = .ok (decide (n = 0)) := cond_jeq n 0 (by omega) (by decide)
  have rJ := reach_jcc (r := r) (k := k + 1) (idx := k + 68) (sC.sub 1 [jcc .JEQ pEnd] rfl (by simp)) rfl lEnd hcnd
  have k0 : KeepsM (remKeepG p) (bodyKeepV 21) (List.range 8) s s0 :=
    ⟨rfl, rfl, rfl, fun _ _ => rfl, fun _ _ => rfl, fun _ _ => rfl, rfl, rfl⟩
  by_cases hn0 : n = 0
  · simp only [hn0, decide_true, if_true] at rJ
    refine ⟨s0, 2, b, by omega, (r0.trans rJ).cast rfl rfl, hm, hb, c.of_keepsM k0 (by decide), ?_, ?_, ?_, k0⟩
    · rw [if_pos hn0]; exact hy
    · show vreg s 21 < _; rw [hy]; exact hylt
    · rw [if_pos hn0]; exact h6
  · simp only [hn0, decide_false, Bool.false_eq_true, if_false] at rJ
    -- the tail through the scratch block
    obtain ⟨s1, N1, hN1, r1, m1, g16, g1p, k1⟩ := tail_reach r (k + 2) p 11 p8 p4 p2 p1 pe hti sT (by rw [Nat.add_assoc]; exact l8)
      (by rw [Nat.add_assoc]; exact l4) (by rw [Nat.add_assoc]; exact l2) (by rw [Nat.add_assoc]; exact l1) (by rw [Nat.add_assoc]; exact le)
      Mf tbase bf d sp hsrc hdb hbase hsp n s0 b so toff hto c.lenG hb hm h11 (by omega) hn15 hgp h6 hso
    have c1 : GhCtx h s1 := (c.of_keepsM k0 (by decide)).of_regsKeep k1
    have hpl : ((d.drop so).take n).length = n := by rw [List.length_take, List.length_drop]; omega
    have hb1 : (spliceAt b toff (padTo16 ((d.drop so).take n))).length = 32 := by
      rw [spliceAt_length _ _ _ (by rw [padTo16_length _ (by omega), hb]; rcases hto with rfl | rfl <;> omega)]; exact hb
    -- load1X(tmp)
    have hrd : readMem s1.mem (tbase + toff) 16 = .ok (padTo16 ((d.drop so).take n)) := by
      rw [m1, bf.rd _ toff 16 hb1 (by rcases hto with rfl | rfl <;> omega)]
      congr 1
      unfold spliceAt
      rw [List.drop_append, List.drop_append]
      have e1 : (List.take toff b).length = toff := by rw [List.length_take, hb]; rcases hto with rfl | rfl <;> omega
      rw [e1, List.drop_eq_nil_of_le (by omega), Nat.sub_self, List.drop_zero, List.nil_append, List.take_append,
        padTo16_length _ (by omega), Nat.sub_self, List.take_zero, List.append_nil, List.take_of_length_le (by rw [padTo16_length _ (by omega)]; exact Nat.le_refl _)]
    obtain ⟨s2, hx2, g26, v2⟩ := load_spec 16 6 (Or.inr rfl) (by decide) s1 h c1 (tbase + toff) _ g16 (by omega) hrd
      (padTo16_length _ (by omega)) (by
        intro x hx
        unfold padTo16 at hx
        rw [List.mem_append] at hx
        rcases hx with h1 | h1
        · exact hdb x (List.mem_of_mem_drop (List.mem_of_mem_take h1))
        · rw [List.eq_of_mem_replicate h1]; decide)
    rw [← load1_eq] at hx2
    have k2 := keeps_of_exec _ kLoad6 hx2
    have r2 : Reach r (k + 39) s1 (k + 47) s2 8 := reach_seg sL (by rfl) hx2
    have c2 := c1.of_keeps k2 (by decide)
    -- MOVQ $1, blockCount
    let s3 := setGreg s2 12 (imm64 1)
    have hx3 : execList [ins .MOVQ [.imm 1, G 12] 0] s2 = .ok s3 := by
      apply exec_step (a_movq_imm s2 1 12 (by rw [c2.lenG]; decide)); exact execList_nil _
    have k3 := keeps_of_exec _ kMov12 hx3
    have r3 : Reach r (k + 47) s2 (k + 48) s3 1 := reach_seg sM (by rfl) hx3
    have c3 := c2.of_keeps k3 (by decide)
    -- the GHASH step
    have y3 : vreg s3 21 = y := by
      show vreg (setGreg s2 12 (imm64 1)) 21 = y
      rw [vreg_setGreg, k2.v 21 (by decide), vreg_of_vec k1.vec 21]; exact hy
    obtain ⟨s4, hx4, lt4, v4⟩ := gh1_spec 20 21 ⟨by decide, Or.inr rfl⟩ s3 c3.lenV h c3.hc y y3 hylt
    have k4 := keeps_of_exec _ (gh1_writes 20 21) hx4
    have r4 : Reach r (k + 48) s3 (k + 67) s4 19 := reach_seg sG (by rfl) hx4
    have c4 := c3.of_keeps k4 (by decide)
    -- SUBQ $1, blockCount
    let s5 := setFlags (setGreg s4 12 (subF 8 (greg s4 12) (imm64 1)).1) (subF 8 (greg s4 12) (imm64 1)).2
    have hx5 : execList [ins .SUBQ [.imm 1, G 12] 0] s4 = .ok s5 := by
      apply exec_step (a_subq_imm s4 1 12 (by rw [c4.lenG]; decide)); exact execList_nil _
    have k5 := keeps_of_exec _ kSub12 hx5
    have r5 : Reach r (k + 67) s4 (k + 68) s5 1 := reach_seg sS (by rfl) hx5
    refine ⟨s5, 1 + 1 + N1 + 8 + 1 + 19 + 1, spliceAt b toff (padTo16 ((d.drop so).take n)), by omega,
      ((((((r0.trans rJ).trans (r1.cast (by omega) rfl)).trans r2).trans r3).trans r4).trans r5).cast rfl rfl, ?_, hb1,
      c4.of_keeps k5 (by decide), ?_, ?_, ?_, ?_⟩
    · rw [k5.mem, k4.mem, k3.mem, k2.mem]; exact m1
    · rw [if_neg hn0, k5.v 21 (by decide), v4, show vreg s3 20 = vreg s2 20 from vreg_setGreg s2 12 _ 20, v2 0 (by decide)]
      unfold blkR
      rw [Nat.mul_zero, List.drop_zero, List.take_of_length_le (by rw [padTo16_length _ (by omega)]; exact Nat.le_refl _)]
    · rw [k5.v 21 (by decide)]; exact lt4
    · rw [if_neg hn0, k5.g 6 (by decide), k4.g 6 (by decide), k3.g 6 (by decide)]; exact g26
    · exact (((((k0.trans ((k1.toM (bodyKeepV 21) (List.range 8)).mono (rem_eq_tailKeep p) (fun _ h => h) (fun _ h => h))).trans
        (k2.toM.mono (by rcases hp with rfl | rfl <;> decide) (by decide) (fun _ h => h))).trans
        (k3.toM.mono (by rcases hp with rfl | rfl <;> decide) (by decide) (fun _ h => h))).trans
        (k4.toM.mono (by rcases hp with rfl | rfl <;> decide) (by decide) (fun _ h => h))).trans
        (k5.toM.mono (by rcases hp with rfl | rfl <;> decide) (by decide) (fun _ h => h)))

end SMGo.Proofs.ISAVal
