import SMGo.Proofs.ISAValRounds
import SMGo.Proofs.ISAValBytes
namespace SMGo.Proofs.ISAVal
open SMGo.Model.ISAVal SMGo.Model.ISA

/-- the prologue of `cryptoBlockAsm`: constants, input block, byte order, 1×4 transpose -/
def proCode : List DInstr :=
  [ins .LEAQ [.sym "Shuffle" 0, G 1] 0,
   ins .VMOVDQU32 [M 1 0, R 12] 16,
   ins .MOVQ [.frame "src" 24, G 1] 0,
   ins .VMOVDQU32 [M 1 0, R 6] 16,
   ins .LEAQ [.sym "PreAffineMatrix" 0, G 0] 0,
   ins .LEAQ [.sym "PostAffineMatrix" 0, G 3] 0,
   ins .VBROADCASTI32X2 [M 0 0, R 10] 16,
   ins .VBROADCASTI32X2 [M 3 0, R 11] 16,
   ins .MOVQ [.frame "rk" 8, G 0] 0,
   ins .MOVQ [.frame "dst" 16, G 3] 0,
   ins .VPSHUFB [R 12, R 6, R 6] 16,
   ins .VPUNPCKLDQ [R 6, R 6, R 0] 16,
   ins .VPUNPCKHDQ [R 6, R 6, R 8] 16,
   ins .VPUNPCKHDQ [R 0, R 0, R 7] 16,
   ins .VPUNPCKHDQ [R 8, R 8, R 9] 16]

/-- big-endian word from four bytes, as a number -/
def beWord (a b c d : Nat) : Nat := unlanes 8 [d, c, b, a]

set_option maxRecDepth 10000 in
theorem prologue_spec (s : State) (hG : s.gpr.length = 16) (hV : s.vec.length = 32)
    (aS aPre aPost aSrc aRk aDst : Nat)
    (s0 s1 s2 s3 s4 s5 s6 s7 s8 s9 s10 s11 s12 s13 s14 s15 : Nat)
    (hb : ∀ x ∈ [s0, s1, s2, s3, s4, s5, s6, s7, s8, s9, s10, s11, s12, s13, s14, s15], x < 2 ^ 8)
    (hS : lookup s.syms "Shuffle" = some aS) (hS' : aS < 2 ^ 64)
    (hSr : readMem s.mem aS 16 = .ok Gen.AsmData.amd64_Shuffle)
    (hPre : lookup s.syms "PreAffineMatrix" = some aPre) (hPre' : aPre < 2 ^ 64)
    (hPrer : readMem s.mem aPre 8 = .ok Gen.AsmData.amd64_PreAffineMatrix)
    (hPost : lookup s.syms "PostAffineMatrix" = some aPost) (hPost' : aPost < 2 ^ 64)
    (hPostr : readMem s.mem aPost 8 = .ok Gen.AsmData.amd64_PostAffineMatrix)
    (hSrc : lookup s.frame "src" = some aSrc) (hSrc' : aSrc < 2 ^ 64)
    (hSrcr : readMem s.mem aSrc 16 = .ok [s0, s1, s2, s3, s4, s5, s6, s7, s8, s9, s10, s11, s12, s13, s14, s15])
    (hRk : lookup s.frame "rk" = some aRk) (hDst : lookup s.frame "dst" = some aDst) :
    ∃ s', execList proCode s = .ok s' ∧
      Ready s.mem s.syms s.frame aRk aDst SHUFv 0
        (beWord s0 s1 s2 s3, beWord s4 s5 s6 s7, beWord s8 s9 s10 s11, beWord s12 s13 s14 s15) s' := by
  obtain ⟨gpr, vec, k, fl, mem, syms, frame⟩ := s
  simp only at hG hV hS hSr hPre hPrer hPost hPostr hSrc hSrcr hRk hDst
  obtain ⟨a0, a1, a2, a3, a4, a5, a6, a7, a8, a9, a10, a11, a12, a13, a14, a15, rfl⟩ := list16 gpr hG
  obtain ⟨b0, b1, b2, b3, b4, b5, b6, b7, b8, b9, b10, b11, b12, b13, b14, b15, b16, b17, b18, b19, b20, b21, b22, b23, b24, b25, b26, b27, b28, b29, b30, b31, rfl⟩ := list32 vec hV
  apply Exists.intro
  apply And.intro
  · unfold proCode
    apply exec_step
    · exact execD_leaq (hs := hS) (hd := by simp) ..
    apply exec_step
    · exact execD_vmov_load (hvl := by rfl) (hb := by rfl) (hd := by simp)
        (hload := by simpa [imm64, Nat.mod_eq_of_lt hS'] using hSr) ..
    apply exec_step
    · exact execD_movq_frame (hs := hSrc) (hd := by simp) ..
    apply exec_step
    · exact execD_vmov_load (hvl := by rfl) (hb := by rfl) (hd := by simp)
        (hload := by simpa [imm64, Nat.mod_eq_of_lt hSrc'] using hSrcr) ..
    apply exec_step
    · exact execD_leaq (hs := hPre) (hd := by simp) ..
    apply exec_step
    · exact execD_leaq (hs := hPost) (hd := by simp) ..
    apply exec_step
    · exact execD_broadcast_x2 (hvl := by rfl) (hb := by rfl) (hd := by simp)
        (hload := by simpa [imm64, Nat.mod_eq_of_lt hPre'] using hPrer) ..
    apply exec_step
    · exact execD_broadcast_x2 (hvl := by rfl) (hb := by rfl) (hd := by simp)
        (hload := by simpa [imm64, Nat.mod_eq_of_lt hPost'] using hPostr) ..
    apply exec_step
    · exact execD_movq_frame (hs := hRk) (hd := by simp) ..
    apply exec_step
    · exact execD_movq_frame (hs := hDst) (hd := by simp) ..
    xstep; xstep; xstep; xstep; xstep
    exact execList_nil _
  · simp only [List.set_cons_succ, List.set_cons_zero]
    have hrev := x_rev32 s0 s1 s2 s3 s4 s5 s6 s7 s8 s9 s10 s11 s12 s13 s14 s15 hb
    rw [show unlanes 8 Gen.AsmData.amd64_Shuffle = SHUFv from rfl, hrev]
    have hb' : ∀ x ∈ [s3, s2, s1, s0, s7, s6, s5, s4, s11, s10, s9, s8, s15, s14, s13, s12], x < 2 ^ 8 := by
      intro x hx
      apply hb
      simp only [List.mem_cons, List.not_mem_nil, or_false] at hx
      rcases hx with rfl | rfl | rfl | rfl | rfl | rfl | rfl | rfl | rfl | rfl | rfl | rfl | rfl | rfl | rfl | rfl <;> simp
    have hd0 := laneJ_unlanes 32 8 4 0 (by decide) _ hb' (by simp)
    have hd1 := laneJ_unlanes 32 8 4 1 (by decide) _ hb' (by simp)
    have hd2 := laneJ_unlanes 32 8 4 2 (by decide) _ hb' (by simp)
    have hd3 := laneJ_unlanes 32 8 4 3 (by decide) _ hb' (by simp)
    simp only [Nat.reduceMul, List.drop_succ_cons, List.drop_zero, List.take_succ_cons, List.take_zero] at hd0 hd1 hd2 hd3
    have l4 := fun p q r s => lane32_list4 p q r s
    constructor
    · rfl
    · rfl
    · rfl
    · rfl
    · rfl
    · simp [greg]
    · rfl
    · rfl
    · rfl
    · rfl
    · show lane 32 0 (vreg _ 6) = _
      simp only [vreg, List.getD_cons_succ, List.getD_cons_zero]
      exact hd0
    · show lane 32 0 (vreg _ 7) = _
      simp only [vreg, List.getD_cons_succ, List.getD_cons_zero, x_unpckhdq, x_unpckldq]
      rw [(l4 _ _ _ _ (lane_lt _ _ _) (lane_lt _ _ _) (lane_lt _ _ _) (lane_lt _ _ _)).1,
        (l4 _ _ _ _ (lane_lt _ _ _) (lane_lt _ _ _) (lane_lt _ _ _) (lane_lt _ _ _)).2.2.1]
      exact hd1
    · show lane 32 0 (vreg _ 8) = _
      simp only [vreg, List.getD_cons_succ, List.getD_cons_zero, x_unpckhdq, x_unpckldq]
      rw [(l4 _ _ _ _ (lane_lt _ _ _) (lane_lt _ _ _) (lane_lt _ _ _) (lane_lt _ _ _)).1]
      exact hd2
    · show lane 32 0 (vreg _ 9) = _
      simp only [vreg, List.getD_cons_succ, List.getD_cons_zero, x_unpckhdq, x_unpckldq]
      rw [(l4 _ _ _ _ (lane_lt _ _ _) (lane_lt _ _ _) (lane_lt _ _ _) (lane_lt _ _ _)).1,
        (l4 _ _ _ _ (lane_lt _ _ _) (lane_lt _ _ _) (lane_lt _ _ _) (lane_lt _ _ _)).2.2.1]
      exact hd3

/-- the four bytes of a dword, most significant first -/
def beBytes (x : Nat) : List Nat := [lane 8 3 x, lane 8 2 x, lane 8 1 x, lane 8 0 x]

theorem lanes84 (x : Nat) : lanes 8 4 x = [lane 8 0 x, lane 8 1 x, lane 8 2 x, lane 8 3 x] := by
  simp [lanes, List.range, List.range.loop]

theorem unlanes_lanes32 (x : Nat) (hx : x < 2 ^ 32) : unlanes 8 (lanes 8 4 x) = x := by
  rw [unlanes_lanes, Nat.mod_eq_of_lt hx]

/-- four dwords as sixteen bytes -/
theorem words_bytes (p q r t : Nat) (hp : p < 2 ^ 32) (hq : q < 2 ^ 32) (hr : r < 2 ^ 32) (ht : t < 2 ^ 32) :
    unlanes 64 [unlanes 32 [p, q], unlanes 32 [r, t]]
      = unlanes 8 (lanes 8 4 p ++ (lanes 8 4 q ++ (lanes 8 4 r ++ lanes 8 4 t))) := by
  rw [unlanes_append, unlanes_append, unlanes_append, unlanes_lanes32 p hp, unlanes_lanes32 q hq,
    unlanes_lanes32 r hr, unlanes_lanes32 t ht]
  simp only [lanes_length, unlanes_cons, unlanes_nil, Nat.reduceMul, Nat.reducePow]
  omega

theorem epi_value (b6 b7 b8 b9 : Nat) :
    lanes 8 16 (vpshufb 16 SHUFv (map2 128 (16 / 16) unpcklqdq (map2 128 (16 / 16) unpckldq b6 b7)
        (map2 128 (16 / 16) unpckldq b8 b9)))
      = beBytes (lane 32 0 b9) ++ (beBytes (lane 32 0 b8) ++ (beBytes (lane 32 0 b7) ++ beBytes (lane 32 0 b6))) := by
  have h32 : ∀ (p q r t : Nat), p < 2 ^ 32 → q < 2 ^ 32 → r < 2 ^ 32 → t < 2 ^ 32 →
      lane 64 0 (unlanes 32 [p, q, r, t]) = unlanes 32 [p, q] := by
    intro p q r t hp hq hr ht
    exact lane0_unlanes_take' 64 32 2 (by decide) _ (by
      intro x hx; simp at hx; rcases hx with rfl | rfl | rfl | rfl <;> assumption) (by simp)
  rw [x_unpcklqdq, x_unpckldq, x_unpckldq, h32 _ _ _ _ (lane_lt _ _ _) (lane_lt _ _ _) (lane_lt _ _ _) (lane_lt _ _ _),
    h32 _ _ _ _ (lane_lt _ _ _) (lane_lt _ _ _) (lane_lt _ _ _) (lane_lt _ _ _),
    words_bytes _ _ _ _ (lane_lt _ _ _) (lane_lt _ _ _) (lane_lt _ _ _) (lane_lt _ _ _)]
  simp only [lanes84, List.cons_append, List.nil_append]
  rw [x_rev32 _ _ _ _ _ _ _ _ _ _ _ _ _ _ _ _ (by
    intro x hx
    simp only [List.mem_cons, List.not_mem_nil, or_false] at hx
    rcases hx with rfl | rfl | rfl | rfl | rfl | rfl | rfl | rfl | rfl | rfl | rfl | rfl | rfl | rfl | rfl | rfl <;>
      exact lane_lt _ _ _)]
  rw [lanes_unlanes 8 16 _ (by
    intro x hx
    simp only [List.mem_cons, List.not_mem_nil, or_false] at hx
    rcases hx with rfl | rfl | rfl | rfl | rfl | rfl | rfl | rfl | rfl | rfl | rfl | rfl | rfl | rfl | rfl | rfl <;>
      exact lane_lt _ _ _) rfl]
  rfl


/-- the epilogue of `cryptoBlockAsm`: gather the four words in reverse order, byte order, store -/
def epiCode : List DInstr :=
  [ins .VPUNPCKLDQ [R 8, R 9, R 0] 16,
   ins .VPUNPCKLDQ [R 6, R 7, R 1] 16,
   ins .VPUNPCKLQDQ [R 1, R 0, R 9] 16,
   ins .VPSHUFB [R 12, R 9, R 9] 16,
   ins .VMOVDQU32 [R 9, M 3 0] 16]

set_option maxRecDepth 10000 in
theorem epilogue_spec (mem : List Region) (syms frame : List (String × Nat)) (rkBase dstp : Nat)
    (X : Nat × Nat × Nat × Nat) (s : State) (mem' : List Region)
    (h : Ready mem syms frame rkBase dstp SHUFv 32 X s) (hd : dstp < 2 ^ 64)
    (hwrite : writeMem mem dstp (beBytes X.2.2.2 ++ (beBytes X.2.2.1 ++ (beBytes X.2.1 ++ beBytes X.1))) = .ok mem') :
    ∃ s', execList epiCode s = .ok s' ∧ s'.mem = mem' := by
  obtain ⟨hG, hV, hmem, -, -, -, hg3, -, -, h12, hx0, hx1, hx2, hx3⟩ := h
  obtain ⟨gpr, vec, k, fl, mem0, syms0, frame0⟩ := s
  simp only at hG hV hmem
  obtain ⟨a0, a1, a2, a3, a4, a5, a6, a7, a8, a9, a10, a11, a12, a13, a14, a15, rfl⟩ := list16 gpr hG
  obtain ⟨b0, b1, b2, b3, b4, b5, b6, b7, b8, b9, b10, b11, b12, b13, b14, b15, b16, b17, b18, b19, b20, b21, b22, b23, b24, b25, b26, b27, b28, b29, b30, b31, rfl⟩ := list32 vec hV
  simp only [greg, vreg, sreg, Nat.reduceAdd, Nat.reduceMod, List.getD_cons_succ, List.getD_cons_zero] at hg3 h12 hx0 hx1 hx2 hx3
  subst hmem hg3 h12
  rw [← hx0, ← hx1, ← hx2, ← hx3, ← epi_value] at hwrite
  apply Exists.intro
  apply And.intro
  · unfold epiCode
    xstep; xstep; xstep; xstep
    apply exec_step
    · exact execD_vmov_store (hvl := by rfl) (hb := by rfl) (ha := by rfl)
        (hstore := by simpa [imm64, Nat.mod_eq_of_lt hd] using hwrite) ..
    exact execList_nil _
  · rfl

section mem
variable (g v k rk dst0 src : List Nat)

theorem ks_gpr : (kernelState g v k rk dst0 src).gpr = g := rfl
theorem ks_vec : (kernelState g v k rk dst0 src).vec = v := rfl

theorem ks_frame : (kernelState g v k rk dst0 src).frame = [("rk", arg 0), ("dst", arg 1), ("src", arg 2)] := rfl

theorem arg0 : arg 0 = 73014444032 := by decide
theorem arg1 : arg 1 = 77309411328 := by decide
theorem arg2 : arg 2 = 81604378624 := by decide

/-- the symbol table of every state built by `mkState … symbols …` -/
def symTab : List (String × Nat) :=
  (List.range symbols.length).zipWith (fun i (n, _) => (n, regionBase i)) symbols

theorem ks_syms : (kernelState g v k rk dst0 src).syms = symTab := rfl

theorem symTab_shuffle : lookup symTab "Shuffle" = some 4294967296 := by decide +kernel
theorem symTab_pre : lookup symTab "PreAffineMatrix" = some 8589934592 := by decide +kernel
theorem symTab_post : lookup symTab "PostAffineMatrix" = some 12884901888 := by decide +kernel

theorem ks_read_shuffle : readMem (kernelState g v k rk dst0 src).mem 4294967296 16 = .ok Gen.AsmData.amd64_Shuffle := rfl
theorem ks_read_pre : readMem (kernelState g v k rk dst0 src).mem 8589934592 8 = .ok Gen.AsmData.amd64_PreAffineMatrix := rfl
theorem ks_read_post : readMem (kernelState g v k rk dst0 src).mem 12884901888 8 = .ok Gen.AsmData.amd64_PostAffineMatrix := rfl


theorem ks_read_src (s0 s1 s2 s3 s4 s5 s6 s7 s8 s9 s10 s11 s12 s13 s14 s15 : Nat) :
    readMem (kernelState g v k rk dst0 [s0, s1, s2, s3, s4, s5, s6, s7, s8, s9, s10, s11, s12, s13, s14, s15]).mem
      81604378624 16 = .ok [s0, s1, s2, s3, s4, s5, s6, s7, s8, s9, s10, s11, s12, s13, s14, s15] := rfl

theorem ks_mem_rk : (kernelState g v k rk dst0 src).mem[16]? = some ⟨"rk", wordsMem rk, false⟩ := rfl
theorem ks_mem_dst : (kernelState g v k rk dst0 src).mem[17]? = some ⟨"dst", dst0, true⟩ := rfl

theorem drop_take_flatMap (f : Nat → List Nat) (c : Nat) (hf : ∀ x, (f x).length = c) (l : List Nat) (i : Nat)
    (hi : i < l.length) : ((l.flatMap f).drop (c * i)).take c = f (l.getD i 0) := by
  induction l generalizing i with
  | nil => simp at hi
  | cons x xs ih =>
    cases i with
    | zero => simp [List.flatMap_cons, List.take_append_of_le_length, hf]
    | succ i =>
      have : c * (i + 1) = (f x).length + c * i := by rw [hf, Nat.mul_succ, Nat.add_comm]
      rw [List.flatMap_cons, this, ← List.drop_drop, List.drop_left]
      simpa using ih i (by simpa using hi)

theorem wordsMem_length (hrk : rk.length = 32) : (wordsMem rk).length = 128 := by
  unfold wordsMem
  have : ∀ l : List Nat, (l.flatMap (lanes 8 4)).length = 4 * l.length := by
    intro l
    induction l with
    | nil => rfl
    | cons x xs ih => rw [List.flatMap_cons, List.length_append, ih, lanes_length, List.length_cons]; omega
  rw [this, hrk]

theorem ks_read_rk (hrk : rk.length = 32) (i : Nat) (hi : i < 32) :
    readMem (kernelState g v k rk dst0 src).mem (73014444032 + 4 * i) 4 = .ok (lanes 8 4 (rk.getD i 0)) := by
  unfold readMem
  have h1 : (73014444032 + 4 * i) / 2 ^ 32 = 17 := by omega
  have h2 : (73014444032 + 4 * i) % 2 ^ 32 = 4 * i := by omega
  simp only [h1, h2, Nat.reduceSub, ks_mem_rk]
  rw [if_neg (by decide), if_pos (by rw [wordsMem_length rk hrk]; omega)]
  unfold wordsMem
  rw [drop_take_flatMap (lanes 8 4) 4 (fun x => lanes_length 8 4 x) rk i (by omega)]


theorem ks_write_dst (bs : List Nat) (h : bs.length = dst0.length) :
    writeMem (kernelState g v k rk dst0 src).mem 77309411328 bs
      = .ok ((kernelState g v k rk dst0 src).mem.set 17 ⟨"dst", bs, true⟩) := by
  unfold writeMem
  have h1 : 77309411328 / 2 ^ 32 = 18 := by decide
  have h2 : 77309411328 % 2 ^ 32 = 0 := by decide
  simp only [h1, h2, Nat.reduceSub, ks_mem_dst]
  simp [h]

theorem ks_dst_after (bs : List Nat) (g' v' k' : List Nat) (fl' : Flags) (syms' frame' : List (String × Nat)) :
    regionBytes ⟨g', v', k', fl', (kernelState g v k rk dst0 src).mem.set 17 ⟨"dst", bs, true⟩, syms', frame'⟩ "dst"
      = some bs := by
  simp [regionBytes, kernelState, mkState, symbols, List.find?]

end mem
end SMGo.Proofs.ISAVal
