/-
  Property C17 (concurrent use, PARTIAL) — the write sets of the amd64 assembly routines, read off
  C11's hand-written access models (`SMGo.Model.AsmAccessModel`: for every routine the list of its
  memory accesses `(region, offset, width, read|write)` as a function of the lengths).

  `WritesOnlyTo accs A`: every WRITE access of the list goes to a region of the list `A`.
  Proved here FOR ALL LENGTHS, structurally over the models:
    sealAsm, openAsm (tag match and mismatch)     write only  dst (`.arg 24`) and temp (`.arg 104`)
    cryptoBlockAsm, X2, X4, X8, X16               write only  dst (`.arg 16`)
    expandKeyAsm                                  writes only enc, dec (`.arg 16`, `.arg 24`)
    gHashBlocks                                   writes only tag (`.arg 16`)
    copyAsm                                       writes only dst (`.arg 8`)
    needExpand                                    writes nothing
  and the regression: the tag comparison with the operand order of before repair 25081bb,
  `ctCompare aTmp 16 aText …`, has a write access to the ciphertext region `aText`.

  What this file does NOT show (it is C11's part): that these access models are the accesses of
  the assembly listings (`SMGo.Proofs.AsmAccessTie*`, bounded, computational) and that every
  access lies inside its region for all lengths (`SMGo.Proofs.AsmAccessBounds`).  With the bounds,
  `writes_within` below turns the region-level statement into the location-level one the abstract
  machine needs.
  Core Lean only.
-/
import SMGo.Model.AsmAccessModel
import SMGo.Model.Interleave
namespace SMGo.Proofs.InterleaveAsm
open SMGo.Model.AsmAccess SMGo.Model.AsmAccessModel

/-- every write access of `accs` goes to one of the regions in `A` -/
def WritesOnlyTo (accs : List Access) (A : List Region) : Prop :=
  ∀ a ∈ accs, a.write = true → a.region ∈ A

theorem wo_nil (A : List Region) : WritesOnlyTo [] A := by
  intro a ha; cases ha

theorem wo_cons (x : Access) (l : List Access) (A : List Region)
    (hx : x.write = true → x.region ∈ A) (hl : WritesOnlyTo l A) : WritesOnlyTo (x :: l) A := by
  intro a ha hw
  rcases List.mem_cons.mp ha with rfl | ha
  · exact hx hw
  · exact hl a ha hw

theorem wo_append (l1 l2 : List Access) (A : List Region)
    (h1 : WritesOnlyTo l1 A) (h2 : WritesOnlyTo l2 A) : WritesOnlyTo (l1 ++ l2) A := by
  intro a ha hw
  rcases List.mem_append.mp ha with ha | ha
  · exact h1 a ha hw
  · exact h2 a ha hw

theorem wo_flatMap (n : Nat) (f : Nat → List Access) (A : List Region)
    (h : ∀ i, WritesOnlyTo (f i) A) : WritesOnlyTo ((List.range n).flatMap f) A := by
  intro a ha hw
  obtain ⟨i, _, hi⟩ := List.mem_flatMap.mp ha
  exact h i a hi hw

theorem wo_map (n : Nat) (f : Nat → Access) (A : List Region)
    (h : ∀ i, (f i).write = true → (f i).region ∈ A) : WritesOnlyTo ((List.range n).map f) A := by
  intro a ha hw
  obtain ⟨i, _, rfl⟩ := List.mem_map.mp ha
  exact h i hw

theorem wo_ite (c : Prop) [Decidable c] (l1 l2 : List Access) (A : List Region)
    (h1 : WritesOnlyTo l1 A) (h2 : WritesOnlyTo l2 A) : WritesOnlyTo (if c then l1 else l2) A := by
  by_cases hc : c
  · rw [if_pos hc]; exact h1
  · rw [if_neg hc]; exact h2

/-- one structural step; the side conditions (a read is no write; the region of a write is in the
    list) are closed by `simp` -/
macro "wo_step" : tactic => `(tactic| first
  | exact wo_nil _
  | assumption
  | refine wo_cons _ _ _ (by simp [rd, wr] <;> assumption) ?_
  | refine wo_append _ _ _ ?_ ?_
  | refine wo_flatMap _ _ _ (fun _ => ?_)
  | refine wo_map _ _ _ (fun _ => by simp [rd, wr] <;> assumption)
  | refine wo_ite _ _ _ _ ?_ ?_)

/-! ### building blocks -/

theorem rkLoads_wo (rk : Region) (A : List Region) : WritesOnlyTo (rkLoads rk) A := by
  unfold rkLoads
  repeat' wo_step

theorem prepare_wo (A : List Region) : WritesOnlyTo prepare A := by
  unfold prepare
  repeat' wo_step

theorem ghashPre_wo (A : List Region) : WritesOnlyTo ghashPre A := by
  unfold ghashPre
  repeat' wo_step

theorem copyAcc_wo (dst : Region) (d : Nat) (src : Region) (s len : Nat) (A : List Region)
    (hd : dst ∈ A) : WritesOnlyTo (copyAcc dst d src s len) A := by
  unfold copyAcc
  dsimp only
  repeat' wo_step

theorem absorb_wo (data : Region) (len : Nat) (tmp : Region) (A : List Region) (ht : tmp ∈ A) :
    WritesOnlyTo (absorb data len tmp) A := by
  have hc := copyAcc_wo tmp 0 data (16 * (len / 16)) (len % 16) A ht
  unfold absorb
  dsimp only
  repeat' wo_step

theorem j0_wo (nonce : Region) (nl : Nat) (tmp : Region) (A : List Region) (ht : tmp ∈ A) :
    WritesOnlyTo (j0 nonce nl tmp) A := by
  have ha := absorb_wo nonce nl tmp A ht
  unfold j0
  repeat' wo_step

theorem x16_wo (rk dst src : Region) (o : Nat) (A : List Region) (hd : dst ∈ A) :
    WritesOnlyTo (x16 rk dst src o) A := by
  have := rkLoads_wo rk A
  unfold x16
  repeat' wo_step

theorem x8_wo (rk dst src : Region) (o : Nat) (A : List Region) (hd : dst ∈ A) :
    WritesOnlyTo (x8 rk dst src o) A := by
  have := rkLoads_wo rk A
  unfold x8
  repeat' wo_step

theorem x4_wo (rk dst src : Region) (o : Nat) (A : List Region) (hd : dst ∈ A) :
    WritesOnlyTo (x4 rk dst src o) A := by
  have := rkLoads_wo rk A
  unfold x4
  repeat' wo_step

theorem x2_wo (rk dst src : Region) (o : Nat) (A : List Region) (hd : dst ∈ A) :
    WritesOnlyTo (x2 rk dst src o) A := by
  have := rkLoads_wo rk A
  unfold x2
  repeat' wo_step

theorem x1_wo (rk dst src : Region) (o : Nat) (A : List Region) (hd : dst ∈ A) :
    WritesOnlyTo (x1 rk dst src o) A := by
  have := rkLoads_wo rk A
  unfold x1
  repeat' wo_step

theorem tailBlock_wo (rk dst src tmp : Region) (o r t : Nat) (hash : Bool) (A : List Region)
    (hd : dst ∈ A) (ht : tmp ∈ A) : WritesOnlyTo (tailBlock rk dst src tmp o r t hash) A := by
  have h1 := rkLoads_wo rk A
  have h2 := copyAcc_wo tmp t src o r A ht
  have h3 := copyAcc_wo dst o tmp t r A hd
  unfold tailBlock
  repeat' wo_step

theorem kernels_wo (rk dst src tmp : Region) (len t : Nat) (hash : Bool) (A : List Region)
    (hd : dst ∈ A) (ht : tmp ∈ A) : WritesOnlyTo (kernels rk dst src tmp len t hash) A := by
  unfold kernels
  dsimp only
  refine wo_append _ _ _ (wo_append _ _ _ (wo_append _ _ _ (wo_append _ _ _ (wo_append _ _ _
    ?_ ?_) ?_) ?_) ?_) ?_
  · exact wo_flatMap _ _ _ (fun _ => x16_wo rk dst src _ A hd)
  · exact wo_flatMap _ _ _ (fun _ => x8_wo rk dst src _ A hd)
  · exact wo_flatMap _ _ _ (fun _ => x4_wo rk dst src _ A hd)
  · exact wo_flatMap _ _ _ (fun _ => x2_wo rk dst src _ A hd)
  · exact wo_flatMap _ _ _ (fun _ => x1_wo rk dst src _ A hd)
  · exact wo_ite _ _ _ _ (wo_nil _) (tailBlock_wo rk dst src tmp _ _ t hash A hd ht)

theorem post_wo (tagR : Region) (to : Nat) (tmp : Region) (tagSize : Nat) (A : List Region)
    (hr : tagR ∈ A) (ht : tmp ∈ A) : WritesOnlyTo (post tagR to tmp tagSize) A := by
  have := copyAcc_wo tagR to tmp 0 tagSize A hr
  unfold post
  repeat' wo_step

theorem ctCompare_wo (x : Region) (xo : Nat) (y : Region) (yo l : Nat) (A : List Region)
    (hy : y ∈ A) : WritesOnlyTo (ctCompare x xo y yo l) A := by
  unfold ctCompare
  dsimp only
  repeat' wo_step

/-! ### the routines -/

/-- **sealAsm** writes only through `dst` and `temp`, for every tag size and all lengths -/
theorem sealAsm_writes (tagSize nl pl al : Nat) :
    WritesOnlyTo (sealModel tagSize nl pl al) [aDst, aTmp] := by
  unfold sealModel
  refine wo_append _ _ _ (wo_append _ _ _ (wo_append _ _ _ (wo_append _ _ _ (wo_append _ _ _
    (wo_append _ _ _ (wo_append _ _ _ ?_ ?_) ?_) ?_) ?_) ?_) ?_) ?_
  · exact prepare_wo _
  · exact rkLoads_wo _ _
  · exact ghashPre_wo _
  · exact j0_wo _ _ _ _ (by simp)
  · exact rkLoads_wo _ _
  · exact absorb_wo _ _ _ _ (by simp)
  · exact kernels_wo _ _ _ _ _ _ _ _ (by simp) (by simp)
  · exact post_wo _ _ _ _ _ (by simp) (by simp)

/-- **openAsm** writes only through `dst` and `temp`, whether the tags match or not — in
    particular not into the ciphertext (`aText`), the nonce or the additional data -/
theorem openAsm_writes (tagSize nl cl al : Nat) (tagOk : Bool) :
    WritesOnlyTo (openModel tagSize nl cl al tagOk) [aDst, aTmp] := by
  unfold openModel
  refine wo_append _ _ _ (wo_append _ _ _ (wo_append _ _ _ (wo_append _ _ _ (wo_append _ _ _
    (wo_append _ _ _ (wo_append _ _ _ (wo_append _ _ _ (wo_append _ _ _ ?_ ?_) ?_) ?_) ?_) ?_) ?_)
    ?_) ?_) ?_
  · exact prepare_wo _
  · exact rkLoads_wo _ _
  · exact ghashPre_wo _
  · exact j0_wo _ _ _ _ (by simp)
  · exact rkLoads_wo _ _
  · exact absorb_wo _ _ _ _ (by simp)
  · exact absorb_wo _ _ _ _ (by simp)
  · exact post_wo _ _ _ _ _ (by simp) (by simp)
  · exact ctCompare_wo _ _ _ _ _ _ (by simp)
  · cases tagOk
    · exact wo_nil _
    · exact kernels_wo _ _ _ _ _ _ _ _ (by simp) (by simp)

/-- on a tag mismatch openAsm writes only through `temp`: nothing a caller can see -/
theorem openAsm_writes_mismatch (tagSize nl cl al : Nat) :
    WritesOnlyTo (openModel tagSize nl cl al false) [aTmp] := by
  unfold openModel
  refine wo_append _ _ _ (wo_append _ _ _ (wo_append _ _ _ (wo_append _ _ _ (wo_append _ _ _
    (wo_append _ _ _ (wo_append _ _ _ (wo_append _ _ _ (wo_append _ _ _ ?_ ?_) ?_) ?_) ?_) ?_) ?_)
    ?_) ?_) ?_
  · exact prepare_wo _
  · exact rkLoads_wo _ _
  · exact ghashPre_wo _
  · exact j0_wo _ _ _ _ (by simp)
  · exact rkLoads_wo _ _
  · exact absorb_wo _ _ _ _ (by simp)
  · exact absorb_wo _ _ _ _ (by simp)
  · exact post_wo _ _ _ _ _ (by simp) (by simp)
  · exact ctCompare_wo _ _ _ _ _ _ (by simp)
  · exact wo_nil _

/-- **cryptoBlockAsm** (`Block.Encrypt/Decrypt`) and its X2/X4/X8/X16 variants write only
    through `dst` -/
theorem blockAsm_writes :
    WritesOnlyTo blockModel [.arg 16] ∧ WritesOnlyTo blockX2Model [.arg 16] ∧
    WritesOnlyTo blockX4Model [.arg 16] ∧ WritesOnlyTo blockX8Model [.arg 16] ∧
    WritesOnlyTo blockX16Model [.arg 16] := by
  have := rkLoads_wo (.arg 8) [.arg 16]
  refine ⟨?_, ?_, ?_, ?_, ?_⟩
  · unfold blockModel; repeat' wo_step
  · unfold blockX2Model; repeat' wo_step
  · unfold blockX4Model; repeat' wo_step
  · unfold blockX8Model; repeat' wo_step
  · unfold blockX16Model; repeat' wo_step

/-- **expandKeyAsm** writes only the two round-key arrays it is given — the `enc`/`dec` fields of
    the cipher object under construction in `newCipher`, which no other goroutine can have yet -/
theorem expandKeyAsm_writes : WritesOnlyTo expandKeyModel [.arg 16, .arg 24] := by
  unfold expandKeyModel
  repeat' wo_step

/-- gHashBlocks writes only the tag, copyAsm only its destination, needExpand nothing -/
theorem helpers_write (count len : Nat) :
    WritesOnlyTo (gHashModel count) [gTag] ∧ WritesOnlyTo (copyModel len) [.arg 8] ∧
    WritesOnlyTo needExpandModel [] := by
  refine ⟨?_, copyAcc_wo _ _ _ _ _ _ (by simp), wo_nil _⟩
  unfold gHashModel
  repeat' wo_step

/-- the Go method around cryptoBlockAsm (length checks of repair 9d550df): whatever it does, a
    write goes through `dst` -/
theorem blockMethod_writes (lenDst lenSrc : Nat) (accs : List Access)
    (h : blockMethod lenDst lenSrc = .calls accs) : WritesOnlyTo accs [.arg 16] := by
  unfold blockMethod at h
  split at h
  · cases h
  · split at h
    · cases h
    · injection h with h; subst h; exact blockAsm_writes.1

/-- the premise of C17 about the assembly, in one record: every write of sealAsm / openAsm goes
    through its `dst` argument or through the caller-provided scratch `temp` (a stack array of the
    calling goroutine); every write of cryptoBlockAsm* goes through `dst`; expandKeyAsm writes only
    the two round-key arrays it is handed -/
structure AsmWriteSets : Prop where
  sealAsm : ∀ tagSize nl pl al, WritesOnlyTo (sealModel tagSize nl pl al) [aDst, aTmp]
  openAsm : ∀ tagSize nl cl al tagOk, WritesOnlyTo (openModel tagSize nl cl al tagOk) [aDst, aTmp]
  openAsmMismatch : ∀ tagSize nl cl al, WritesOnlyTo (openModel tagSize nl cl al false) [aTmp]
  block : WritesOnlyTo blockModel [.arg 16] ∧ WritesOnlyTo blockX2Model [.arg 16] ∧
    WritesOnlyTo blockX4Model [.arg 16] ∧ WritesOnlyTo blockX8Model [.arg 16] ∧
    WritesOnlyTo blockX16Model [.arg 16]
  expandKey : WritesOnlyTo expandKeyModel [.arg 16, .arg 24]

/-- … discharged for C11's access models -/
theorem asmWriteSets : AsmWriteSets :=
  ⟨sealAsm_writes, openAsm_writes, openAsm_writes_mismatch, blockAsm_writes, expandKeyAsm_writes⟩

/-! ### the regression: the operand order of before repair 25081bb -/

/-- `constantTimeCompare(ETag, Cipher, …)`: the XOR lands in the macro's second operand.  With the
    ciphertext there (the code before 25081bb) there is a write access to the ciphertext region —
    the shared input of concurrent `Open` calls -/
theorem ctCompare_old_writes_ciphertext (cl tagSize : Nat) (ht : 0 < tagSize) :
    ¬ WritesOnlyTo (ctCompare aTmp 16 aText (cl - tagSize) tagSize) [aDst, aTmp] := by
  intro h
  by_cases h8 : 8 ≤ tagSize
  · have hm : wr aText (cl - tagSize + 8 * 0) 8 ∈ ctCompare aTmp 16 aText (cl - tagSize) tagSize := by
      unfold ctCompare
      dsimp only
      apply List.mem_append_left
      apply List.mem_flatMap.mpr
      exact ⟨0, List.mem_range.mpr (by omega), by simp⟩
    have := h _ hm rfl
    simp [wr, aText, aDst, aTmp] at this
  · have hm : wr aText (cl - tagSize + 8 * (tagSize / 8) + 0) 1 ∈
        ctCompare aTmp 16 aText (cl - tagSize) tagSize := by
      unfold ctCompare
      dsimp only
      apply List.mem_append_right
      apply List.mem_flatMap.mpr
      exact ⟨0, List.mem_range.mpr (by omega), by simp⟩
    have := h _ hm rfl
    simp [wr, aText, aDst, aTmp] at this

/-! ### from regions to locations -/

/-- an access placed in memory: region `r` starts at address `place r` -/
def placeAccess (place : Region → Nat) (a : Access) : SMGo.Model.Interleave.PlacedAccess :=
  { base := place a.region, off := a.off, width := a.width, write := a.write }

/-- with C11's bounds (every access inside its region) a region-level write set becomes a
    location-level one: every byte written lies in `[place r, place r + size r)` for some allowed
    region `r` -/
theorem writes_within (accs : List Access) (A : List Region) (size : Region → Nat)
    (place : Region → Nat) (hw : WritesOnlyTo accs A) (hb : ∀ a ∈ accs, a.inBounds size)
    (pa : SMGo.Model.Interleave.PlacedAccess) (hpa : pa ∈ accs.map (placeAccess place))
    (hwr : pa.write = true) (l : Nat) (h1 : pa.base + pa.off ≤ l) (h2 : l < pa.base + pa.off + pa.width) :
    ∃ r ∈ A, place r ≤ l ∧ l < place r + size r := by
  obtain ⟨a, ha, rfl⟩ := List.mem_map.mp hpa
  refine ⟨a.region, hw a ha hwr, ?_, ?_⟩
  · exact Nat.le_trans (Nat.le_add_right _ _) h1
  · have : a.off + a.width ≤ size a.region := hb a ha
    simp only [placeAccess] at h2
    omega

end SMGo.Proofs.InterleaveAsm
