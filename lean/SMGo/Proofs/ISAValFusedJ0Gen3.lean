import SMGo.Proofs.ISAValFusedJ0Gen2
set_option linter.unusedSimpArgs false
namespace SMGo.Proofs.ISAVal
open SMGo.Model.ISAVal SMGo.Model.GCM SMGo.Proofs.GCM SMGo.Proofs.ISATouch
open SMGo.Model.ISA (Reg Opd Instr)

theorem lenG_sf' (s : State) (d r : Nat) (f : Flags) : (setFlags (setGreg s d r) f).gpr.length = s.gpr.length := by
  simp [setFlags, setGreg]

theorem a_vmovreg (s : State) (mn : Mn) (vl a d : Nat) (hmn : mn = .VMOVAPD ∨ mn = .VMOVDQA64) (hvl : validVl vl = true)
    (ha : a < s.vec.length) (hd : d < s.vec.length) :
    execD s (ins mn [R a, R d] vl) = .ok (setVreg s d (vreg s a % 2 ^ (8 * vl))) := by
  obtain ⟨g, v, k, fl, mem, syms, frame⟩ := s
  exact execD_vmovreg g v k fl mem syms frame mn vl a d _ hmn hvl (getElem?_getD v a ha) hd

/-- the 16 bytes of J0 for a nonce that is not 12 bytes long: GHASH(nonce ‖ pad ‖ 0⁶⁴ ‖ 8·len) -/
def j0BytesN (h : Nat) (nonce : List Nat) : List Nat :=
  lanes 8 16 (rb128 (gmulR h (ghUpdN h 0 nonce ^^^ rb128 (unlanes 8 (List.replicate 8 0 ++ be64N (8 * nonce.length))))))

/-- labels of the hash path of `calculateJ0` -/
structure J0Labels (r : Routine) : Prop where
  l4 : findPc r 3892 = some (r.drop 642)
  l1 : findPc r 4113 = some (r.drop 678)
  lRem : findPc r 4295 = some (r.drop 708)
  c8 : findPc r 4323 = some (r.drop 713)
  c4 : findPc r 4350 = some (r.drop 721)
  c2 : findPc r 4376 = some (r.drop 729)
  c1 : findPc r 4404 = some (r.drop 737)
  ce : findPc r 4430 = some (r.drop 745)
  lDone : findPc r 4607 = some (r.drop 775)
  lEnd : findPc r 4882 = some (r.drop 821)

def j0BlkHeadCode : List DInstr :=
  [ins .MOVQ [G 11, G 10] 0, ins .MOVQ [G 11, G 9] 0, ins .ANDQ [.imm 15, G 9] 0, ins .SHRQ [.imm 4, G 10] 0, ins .CMPQ [G 11, .imm 16] 0]
def j0EndCode : List DInstr := [ins .VMOVAPD [R 14, R 6] 16, ins .NOP [] 0]

theorem j0_blkHead : (j0Code.drop 3).take j0BlkHeadCode.length = j0BlkHeadCode := by decide +kernel
theorem j0_jlt : (j0Code.drop 8).take 1 = [jcc .JLT 4295] := by decide +kernel
theorem j0_loops : (j0Code.drop 9).take (ghLoopsCode 12 10 14 3892 4113 4295).length = ghLoopsCode 12 10 14 3892 4113 4295 := by decide +kernel
theorem j0_rem : (j0Code.drop 77).take (remJCode 4607 4323 4350 4376 4404 4430).length = remJCode 4607 4323 4350 4376 4404 4430 := by
  decide +kernel
theorem j0_fin : (j0Code.drop 144).take j0FinCode.length = j0FinCode := by decide +kernel
theorem j0_jmp : (j0Code.drop 182).take 1 = [ins .JMP [.target 4882] 0] := by decide +kernel
theorem j0_end : (j0Code.drop 190).take j0EndCode.length = j0EndCode := by decide +kernel
theorem j0Fin_len : j0FinCode.length = 38 := by decide +kernel
theorem j0Fin_nc : j0FinCode.all (fun i => !i.mn.isControl) = true := by decide +kernel

theorem kJ0BlkHead : writesNone j0BlkHeadCode [0, 1, 2, 3, 4, 5, 6, 7, 8, 11, 12, 13, 14, 15] (List.range 32) (List.range 8) = true := by
  decide +kernel
theorem kJ0End : writesNone j0EndCode (List.range 16) ((List.range 32).filter (fun n => !([6].contains n))) (List.range 8) = true := by
  decide +kernel

end SMGo.Proofs.ISAVal
namespace SMGo.Proofs.ISAVal
open SMGo.Model.ISAVal SMGo.Model.GCM SMGo.Proofs.GCM SMGo.Proofs.ISATouch
open SMGo.Model.ISA (Reg Opd Instr)

set_option maxRecDepth 100000 in
set_option maxHeartbeats 4000000 in
/-- **phase 3 for a nonce that is not 12 bytes long**: J0 = GHASH(nonce ‖ 0-pad ‖ 0⁶⁴ ‖ [8·len]₆₄), in VzJ0 and V6 -/
theorem phaseJ0_gen (r : Routine) (ps : PrefixSlices r) (hlJ : findPc r 4841 = some (r.drop 814)) (jl : J0Labels r) (s2 : State) (rk : List Nat)
    (np tp ap : Nat) (nonce aad : List Nat) (pc : PCtx s2) (e : FEnv s2 rk np tp ap nonce aad) (h : Nat) (gc : GhCtx h s2)
    (g15 : greg s2 15 = 73014444032) (hn : nonce.length ≠ 12) (hnb : ∀ x ∈ nonce, x < 2 ^ 8) (hnp : np + nonce.length < 2 ^ 63)
    (hnl : nonce.length < 2 ^ 61) (Mf : List Nat → List Region) (mf : MemFam Mf tp rk np ap nonce aad) (b2 : List Nat) (hb2 : b2.length = 32)
    (hm2 : s2.mem = Mf b2) (htp : tp + 32 < 2 ^ 63) :
    ∃ s3 N b3, N ≤ 34 * (nonce.length / 16) + 300 ∧ Reach r 628 s2 823 s3 N ∧ PCtx s3 ∧ FEnv s3 rk np tp ap nonce aad ∧ GhCtx h s3 ∧
      greg s3 15 = 73014444032 ∧ vreg s3 14 = unlanes 8 (j0BytesN h nonce) ∧ vreg s3 6 = unlanes 8 (j0BytesN h nonce) ∧ greg s3 6 = tp ∧
      s3.mem = Mf b3 ∧ b3.length = 32 ∧ s3.frame = s2.frame := by
  obtain ⟨nl, hnl'⟩ : ∃ nl, nl = nonce.length := ⟨_, rfl⟩
  -- the three arguments
  let sa1 := setGreg s2 12 np
  let sa2 := setGreg sa1 11 nonce.length
  let sa3 := setGreg sa2 6 tp
  have hxa : execList nonceArgsCode s2 = .ok sa3 := by
    apply exec_step (a_movq_frame s2 "nonce" 32 12 _ e.fNonce (by rw [pc.lenG]; decide))
    apply exec_step (a_movq_frame sa1 "nonceLen" 40 11 _ e.fNonceLen (by simp [sa1, pc.lenG]))
    apply exec_step (a_movq_frame sa2 "tmp" 104 6 _ e.fTmp (by simp [sa1, sa2, pc.lenG]))
    rfl
  have ka := keeps_of_exec _ kNArgs hxa
  have ra : Reach r 628 s2 631 sa3 3 := reach_seg ps.nArgs (by rfl) hxa
  have pa := pc.of_keeps ka (by decide)
  have g12 : greg sa3 12 = np := by
    show greg (setGreg (setGreg sa1 11 _) 6 _) 12 = _
    rw [greg_setGreg_ne _ _ _ _ (by decide), greg_setGreg_ne _ _ _ _ (by decide)]
    exact greg_setGreg_eq s2 12 _ (by rw [pc.lenG]; decide)
  have g11 : greg sa3 11 = nl := by
    show greg (setGreg sa2 6 _) 11 = _
    rw [greg_setGreg_ne _ _ _ _ (by decide), greg_setGreg_eq sa1 11 _ (by simp [sa1, pc.lenG]), hnl']
  have g6 : greg sa3 6 = tp := greg_setGreg_eq sa2 6 _ (by simp [sa1, sa2, pc.lenG])
  -- VPXORD VzJ0; CMPQ nonceLen, $12; JE not taken
  let sb1 := setVreg sa3 14 (map2 32 (64 / 4) (fun a b => b ^^^ a) (vreg sa3 14) (vreg sa3 14))
  let sb2 := setFlags sb1 (subF 8 nl 12).2
  have hxb : execList j0HeadCode sa3 = .ok sb2 := by
    apply exec_step (a_vec3 sa3 .VPXORD 64 14 14 14 _ 32 rfl rfl (by rw [pa.lenV]; decide) (by rw [pa.lenV]; decide)
      (by rw [pa.lenV]; decide) rfl)
    apply exec_step (s1 := sb2)
    · have := a_cmpq_imm sb1 12 11 (by simp [sb1, pa.lenG])
      rw [show greg sb1 11 = nl from g11, show imm64 12 = 12 from by decide +kernel] at this
      exact this
    rfl
  have kb := keeps_of_exec _ kJ0Head hxb
  have rb : Reach r 631 sa3 633 sb2 2 := reach_seg (ps.j0.sub 0 j0HeadCode j0_head (by rw [j0_len]; decide)) (by rfl) hxb
  have hcnd : Model.ISAVal.cond .JEQ sb2.flags = .ok (decide (nl = 12)) := cond_jeq nl 12 (by omega) (by decide)
  have rj := reach_jcc (r := r) (k := 633) (idx := 814) (ps.j0.sub 2 [jcc .JEQ 4841] j0_jeq (by rw [j0_len]; decide)) rfl hlJ hcnd
  have hne : decide (nl = 12) = false := by simp; omega
  rw [hne] at rj
  simp only [Bool.false_eq_true, if_false] at rj
  have pb := pa.of_keeps kb (by decide)
  have gb := (gc.of_keeps ka (by decide)).of_keeps kb (by decide)
  have b14 : vreg sb2 14 = 0 := by
    show vreg (setFlags (setVreg sa3 14 _) _) 14 = 0
    rw [vreg_setFlags, vreg_setVreg_eq sa3 14 _ (by rw [pa.lenV]; decide)]; exact zero_xor 64 _
  have b11 : greg sb2 11 = nl := by rw [kb.g 11 (by decide)]; exact g11
  -- block count and remainder
  let sc1 := setGreg sb2 10 nl
  let sc2 := setGreg sc1 9 nl
  obtain ⟨f1, hf1⟩ := alu_and15 nl sc2.flags
  let sc3 := setFlags (setGreg sc2 9 (nl % 16)) f1
  obtain ⟨f2, hf2⟩ := alu_shr4 nl sc3.flags
  let sc4 := setFlags (setGreg sc3 10 (nl / 16)) f2
  let sc5 := setFlags sc4 (subF 8 nl 16).2
  have hGb := pb.lenG
  have hG1 : sc1.gpr.length = 16 := by simp [sc1]; exact hGb
  have hG2 : sc2.gpr.length = 16 := by simp [sc2]; exact hG1
  have hG3 : sc3.gpr.length = 16 := (lenG_sf' sc2 9 _ _).trans hG2
  have hG4 : sc4.gpr.length = 16 := (lenG_sf' sc3 10 _ _).trans hG3
  have e29 : greg sc2 9 = nl := greg_setGreg_eq sc1 9 _ (by omega)
  have e310 : greg sc3 10 = nl := by
    show greg (setFlags (setGreg sc2 9 _) _) 10 = _
    rw [greg_setFlags, greg_setGreg_ne sc2 9 _ 10 (by decide)]
    show greg (setGreg sc1 9 _) 10 = _
    rw [greg_setGreg_ne sc1 9 _ 10 (by decide)]; exact greg_setGreg_eq sb2 10 _ (by omega)
  have e411 : greg sc4 11 = nl := by
    show greg (setFlags (setGreg sc3 10 _) _) 11 = _
    rw [greg_setFlags, greg_setGreg_ne sc3 10 _ 11 (by decide)]
    show greg (setFlags (setGreg sc2 9 _) _) 11 = _
    rw [greg_setFlags, greg_setGreg_ne sc2 9 _ 11 (by decide)]
    show greg (setGreg sc1 9 _) 11 = _
    rw [greg_setGreg_ne sc1 9 _ 11 (by decide)]
    show greg (setGreg sb2 10 _) 11 = _
    rw [greg_setGreg_ne sb2 10 _ 11 (by decide)]; exact b11
  have hxc : execList j0BlkHeadCode sb2 = .ok sc5 := by
    unfold j0BlkHeadCode
    apply exec_step (s1 := sc1) (by have := a_movq_rr sb2 11 10 (by omega) (by omega); rw [b11] at this; exact this)
    apply exec_step (s1 := sc2) (by
      have := a_movq_rr sc1 11 9 (by omega) (by omega)
      rw [show greg sc1 11 = nl from by rw [greg_setGreg_ne sb2 10 _ 11 (by decide)]; exact b11] at this
      exact this)
    apply exec_step (s1 := sc3) (a_alu_imm sc2 .ANDQ 15 9 _ f1 (by simp) (by omega) (by rw [e29]; exact hf1))
    apply exec_step (s1 := sc4) (a_alu_imm sc3 .SHRQ 4 10 _ f2 (by simp) (by omega) (by rw [e310]; exact hf2))
    apply exec_step (s1 := sc5) (by
      have := a_cmpq_imm sc4 16 11 (by omega)
      rw [e411, show imm64 16 = 16 from by decide +kernel] at this
      exact this)
    rfl
  have kc := keeps_of_exec _ kJ0BlkHead hxc
  have rc : Reach r (631 + 3) sb2 (631 + 3 + 5) sc5 5 := reach_seg (ps.j0.sub 3 j0BlkHeadCode j0_blkHead (by rw [j0_len]; decide)) (by rfl) hxc
  have pcc := pb.of_keeps kc pRegs_all
  have gcc := gb.of_keeps kc ghRegs_all
  have c10 : greg sc5 10 = nl / 16 := by
    show greg (setFlags (setFlags (setGreg sc3 10 _) _) _) 10 = _
    rw [greg_setFlags, greg_setFlags, greg_setGreg_eq sc3 10 _ (by omega)]
  have c9 : greg sc5 9 = nl % 16 := by
    show greg (setFlags (setFlags (setGreg sc3 10 _) _) _) 9 = _
    rw [greg_setFlags, greg_setFlags, greg_setGreg_ne sc3 10 _ 9 (by decide)]
    show greg (setFlags (setGreg sc2 9 _) _) 9 = _
    rw [greg_setFlags, greg_setGreg_eq sc2 9 _ (by omega)]
  have c12 : greg sc5 12 = np := by rw [kc.g 12 (by decide), kb.g 12 (by decide)]; exact g12
  have c6 : greg sc5 6 = tp := by rw [kc.g 6 (by decide), kb.g 6 (by decide)]; exact g6
  have c14 : vreg sc5 14 = 0 := by rw [kc.v 14 (by decide)]; exact b14
  have hmc : sc5.mem = Mf b2 := by rw [kc.mem, kb.mem, ka.mem]; exact hm2
  have hdN : DataAt sc5.mem np nonce := by rw [hmc]; exact (mf.env b2 hb2).dNonce
  -- JL toRemain, the whole blocks
  have hcnd2 : Model.ISAVal.cond .JLT sc5.flags = .ok (decide (nl < 16)) := cond_jlt nl 16 (by omega) (by decide)
  have rj2 := reach_jcc (r := r) (k := 631 + 8) (idx := 708) (ps.j0.sub 8 [jcc .JLT 4295] j0_jlt (by rw [j0_len]; decide)) rfl jl.lRem hcnd2
  obtain ⟨sd, N1, hN1, rd, gd, v14, lt14, g12d, md, kd⟩ : ∃ sd N1, N1 ≤ 34 * (nl / 16) + 5 ∧ Reach r (631 + 8) sc5 708 sd N1 ∧
      GhCtx h sd ∧ vreg sd 14 = (if nl < 16 then 0 else ghAllN h (nl / 16) 0 nonce) ∧ vreg sd 14 < 2 ^ 128 ∧
      greg sd 12 = np + 16 * (nl / 16) ∧ sd.mem = sc5.mem ∧
      Keeps [0, 3, 4, 5, 6, 7, 8, 9, 11, 13, 14, 15] (bodyKeepV 14) (List.range 8) sc5 sd := by
    by_cases hlt : nl < 16
    · simp only [hlt, decide_true, if_true] at rj2
      exact ⟨sc5, 1, by omega, rj2, gcc, by rw [c14, if_pos hlt], by rw [c14]; decide, by rw [c12]; omega, rfl, Keeps.rfl' _ _ _ _⟩
    · simp only [hlt, decide_false, Bool.false_eq_true, if_false] at rj2
      obtain ⟨sd, N, hN, rd, gd, v14, lt14, g12d, kd⟩ := ghLoops_reach r (631 + 9) 12 10 14 3892 4113 4295 (Or.inl ⟨rfl, rfl, rfl⟩)
        (ps.j0.sub 9 _ j0_loops (by rw [j0_len, ghLoops_len]; decide)) jl.l4 jl.l1 jl.lRem h (nl / 16) sc5 np 0 nonce gcc
        c12 c10 c14 (by decide) (by omega) (by omega) (by omega) (by omega) hnb hdN
      exact ⟨sd, 1 + N, by omega, (rj2.trans rd).cast rfl rfl, gd, by rw [v14, if_neg hlt], lt14, g12d, kd.mem,
        kd.mono (by decide) (fun _ h => h) (fun _ h => h)⟩
  -- the remainder
  obtain ⟨se, N2, b3, hN2, re, me, hb3, ge, v14e, lt14e, g6e, ke⟩ := remJ_reach r (631 + 77) 4607 4323 4350 4376 4404 4430
    (ps.j0.sub 77 _ j0_rem (by rw [j0_len, remJ_len]; decide)) jl.lDone jl.c8 jl.c4 jl.c2 jl.c1 jl.ce Mf tp mf.buf nonce np
    (fun b hb => (mf.env b hb).dNonce) hnb htp (by omega) h sd b2 (16 * (nl / 16)) (nl % 16) _ gd hb2 (by rw [md]; exact hmc)
    (by rw [kd.g 9 (by decide)]; exact c9) (by omega) g12d (by rw [kd.g 6 (by decide), c6]; rfl) (by omega) rfl lt14
  -- the length block, the last step, the reflection
  have kde : KeepsM [0, 3, 4, 5, 7, 8, 11, 13, 14, 15] (bodyKeepV 14) (List.range 8) sc5 se :=
    (kd.toM.mono (by decide) (fun _ h => h) (fun _ h => h)).trans (ke.mono (by decide) (fun _ h => h) (fun _ h => h))
  have pe := pcc.of_keepsM kde (by decide)
  obtain ⟨sf, hxf, v14f, kf⟩ := j0Fin_spec se pe h ge (by rw [me]; exact (mf.env b3 hb3).rSh2) nl
    (by rw [kde.g 11 (by decide), kc.g 11 (by decide)]; exact b11) (by omega) _ rfl lt14e
  have rf : Reach r (631 + 144) se (631 + 144 + 38) sf 38 := by
    have := reach_seg (ps.j0.sub 144 j0FinCode j0_fin (by rw [j0_len, j0Fin_len]; decide)) j0Fin_nc hxf
    rw [j0Fin_len] at this; exact this
  have rJ : Reach r (631 + 182) sf 821 sf 1 :=
    reach_jmp (ps.j0.sub 182 [ins .JMP [.target 4882] 0] j0_jmp (by rw [j0_len]; decide)) jl.lEnd sf
  -- VMOVAPD VxJ0, V6
  have hVf : sf.vec.length = 32 := kf.lenV.trans pe.lenV
  let sg := setVreg sf 6 (vreg sf 14 % 2 ^ (8 * 16))
  have hxg : execList j0EndCode sf = .ok sg := by
    apply exec_step (a_vmovreg sf .VMOVAPD 16 14 6 (Or.inl rfl) (by decide) (by rw [hVf]; decide) (by rw [hVf]; decide))
    apply exec_step (s1 := sg)
    · rfl
    exact execList_nil _
  have kg := keeps_of_exec _ kJ0End hxg
  have rg : Reach r (631 + 190) sf (631 + 190 + 2) sg 2 := reach_seg (ps.j0.sub 190 j0EndCode j0_end (by rw [j0_len]; decide)) (by rfl) hxg
  -- the value
  have hgu : ghUpdN h 0 nonce = (if nl % 16 = 0 then (if nl < 16 then 0 else ghAllN h (nl / 16) 0 nonce)
      else gmulR h ((if nl < 16 then 0 else ghAllN h (nl / 16) 0 nonce) ^^^
        rb128 (unlanes 8 (padTo16 ((nonce.drop (16 * (nl / 16))).take (nl % 16)))))) := by
    unfold ghUpdN
    rw [← hnl']
    by_cases h0 : nl % 16 = 0
    · rw [if_pos h0, if_pos h0]
    · rw [if_neg h0, if_neg h0, List.take_of_length_le (by rw [List.length_drop]; omega)]
  have hval : vreg sf 14 = unlanes 8 (j0BytesN h nonce) := by
    rw [v14f, v14e, v14]
    unfold j0BytesN
    rw [unlanes_lanes, Nat.mod_eq_of_lt (rb128_lt _), hgu, ← hnl']
  have kAll : KeepsM [15] [10, 11, 12, 15, 16, 17, 18, 19, 21, 22, 23, 24, 25, 26, 29, 30, 31] (List.range 8) s2 sg :=
    (((ka.toM.mono (by decide) (by decide) (fun _ h => h)).trans (kb.toM.mono (by decide) (by decide) (fun _ h => h))).trans
      (kc.toM.mono (by decide) (by decide) (fun _ h => h))).trans
      ((kde.mono (by decide) (by decide) (fun _ h => h)).trans ((kf.toM.mono (by decide) (by decide) (fun _ h => h)).trans
        (kg.toM.mono (by decide) (by decide) (fun _ h => h))))
  refine ⟨sg, 3 + 2 + 1 + 5 + N1 + N2 + 38 + 1 + 2, b3, by omega,
    ((((((((ra.trans rb).trans rj).trans (rc.cast rfl rfl)).trans rd).trans re).trans (rf.cast (by omega) rfl)).trans rJ).trans rg).cast rfl rfl, ?_, ?_, ?_, ?_, ?_, ?_, ?_, ?_, hb3, kAll.frame⟩
  · exact ⟨kAll.lenG.trans pc.lenG, kAll.lenV.trans pc.lenV, kAll.lenK.trans pc.lenK, kAll.syms.trans pc.syms,
      (kAll.v 10 (by decide)).trans pc.v10, (kAll.v 11 (by decide)).trans pc.v11, (kAll.v 12 (by decide)).trans pc.v12,
      (kAll.v 16 (by decide)).trans pc.v16, (kAll.v 17 (by decide)).trans pc.v17, (kAll.v 18 (by decide)).trans pc.v18,
      (kAll.v 22 (by decide)).trans pc.v22, (kAll.v 23 (by decide)).trans pc.v23, (kAll.v 24 (by decide)).trans pc.v24⟩
  · exact e.remem (by rw [kg.mem, kf.mem, me]; exact mf.env b3 hb3) kAll.syms kAll.frame
  · exact gc.of_keepsM kAll (by decide)
  · rw [kAll.g 15 (by decide)]; exact g15
  · rw [kg.v 14 (by decide)]; exact hval
  · show vreg (setVreg sf 6 _) 6 = _
    rw [vreg_setVreg_eq sf 6 _ (by rw [hVf]; decide), hval]
    exact Nat.mod_eq_of_lt (by
      have := unlanes_lt 8 (j0BytesN h nonce) (fun x hx => mem_lanes_lt 8 16 _ x hx)
      rw [show (j0BytesN h nonce).length = 16 from lanes_length 8 16 _] at this; exact this)
  · rw [kg.g 6 (by decide), kf.g 6 (by decide), g6e]
  · rw [kg.mem, kf.mem]; exact me

end SMGo.Proofs.ISAVal
