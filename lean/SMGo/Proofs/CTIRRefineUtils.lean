/-
  Refinement: the generated IR of utils.ConstantTimeCmp (SMGo/Gen/CTIRProg.lean, `fn_0`) computes the
  hand-written model `Model.Utils.constantTimeCmp` (SMGo/Model/Utils.lean), for all inputs.
-/
import SMGo.Proofs.CTIRRefine
import SMGo.Gen.CTIRProg
import SMGo.Model.Utils
open SMGo SMGo.Model.CTIR SMGo.Gen.CTIRProg

namespace SMGo.Proofs.CTIRRefineUtils

/-! ## Encodings: Go values as IR values -/

/-- a Go `[]byte` (non-nil) -/
def bytesV (a : Bytes) : Val := .arr (a.map (fun x => Val.int (Int.ofNat x.toNat)))
/-- a Go `uint32` held in the model as a 32-bit vector -/
def w32V (w : W32) : Val := .int (Int.ofNat w.toNat)

theorem bytesV_getIdx (a : Bytes) (k : Nat) :
    getIdx (a.map (fun x => Val.int (Int.ofNat x.toNat))) (k : Int) = (a[k]?).map (fun x => Val.int (Int.ofNat x.toNat)) := by
  rw [getIdx_ofNat, List.getElem?_map]

/-! ## Arithmetic of the borrow chain: IR integers vs 32-bit vectors -/

theorem norm_u32_small {n : Nat} (h : n < 4294967296) : norm .u32 (n : Int) = (n : Int) := by
  simp only [norm]; omega

theorem byte_lt (x : UInt8) : x.toNat < 4294967296 := by
  have := x.toNat_lt; omega

theorem sub32d_eq (x y : UInt8) (bo : W32) :
    evalOp3 .sub32d (x.toNat : Int) (y.toNat : Int) (bo.toNat : Int)
      = ((BitVec.ofNat 32 x.toNat - BitVec.ofNat 32 y.toNat - bo).toNat : Int) := by
  have hx := x.toNat_lt; have hy := y.toNat_lt; have hb := bo.isLt
  simp only [evalOp3, BitVec.toNat_sub, BitVec.toNat_ofNat]
  have e1 : x.toNat % 2 ^ 32 = x.toNat := Nat.mod_eq_of_lt (by omega)
  have e2 : y.toNat % 2 ^ 32 = y.toNat := Nat.mod_eq_of_lt (by omega)
  rw [e1, e2]
  omega

theorem sub32b_eq (x y : UInt8) (bo : W32) :
    evalOp3 .sub32b (x.toNat : Int) (y.toNat : Int) (bo.toNat : Int)
      = (((if (BitVec.ofNat 32 x.toNat).toNat < (BitVec.ofNat 32 y.toNat).toNat + bo.toNat then (1 : W32) else 0).toNat : Nat) : Int) := by
  have hx := x.toNat_lt; have hy := y.toNat_lt
  simp only [evalOp3, BitVec.toNat_ofNat]
  have e1 : x.toNat % 2 ^ 32 = x.toNat := Nat.mod_eq_of_lt (by omega)
  have e2 : y.toNat % 2 ^ 32 = y.toNat := Nat.mod_eq_of_lt (by omega)
  rw [e1, e2]
  by_cases h : x.toNat < y.toNat + bo.toNat
  · have h' : (x.toNat : Int) < (y.toNat : Int) + (bo.toNat : Int) := by omega
    simp [h, h']
  · have h' : ¬ (x.toNat : Int) < (y.toNat : Int) + (bo.toNat : Int) := by omega
    simp [h, h']

theorem pat_u32 (w : W32) : pat .u32 (w.toNat : Int) = w.toNat := by
  have := w.isLt
  simp only [pat, Ty.bits]
  omega

theorem or_u32_eq (a b : W32) :
    evalOp2 (.or .u32) (a.toNat : Int) (b.toNat : Int) = some (((a ||| b).toNat : Nat) : Int) := by
  simp only [evalOp2, pat_u32, BitVec.toNat_or]
  rw [norm_u32_small]
  have := (a ||| b).isLt
  simpa [BitVec.toNat_or] using this

theorem and_u32_eq (a b : W32) :
    evalOp2 (.and .u32) (a.toNat : Int) (b.toNat : Int) = some (((a &&& b).toNat : Nat) : Int) := by
  simp only [evalOp2, pat_u32, BitVec.toNat_and]
  rw [norm_u32_small]
  have := (a &&& b).isLt
  simpa [BitVec.toNat_and] using this

theorem neg_u32_eq (a : W32) : evalOp1 (.neg .u32) (a.toNat : Int) = (((0 : W32) - a).toNat : Int) := by
  have := a.isLt
  have h0 : (0 : W32).toNat = 0 := rfl
  simp only [evalOp1, norm, BitVec.toNat_sub, h0]
  omega

theorem sub_u32_eq (a b : W32) :
    evalOp2 (.sub .u32) (a.toNat : Int) (b.toNat : Int) = some (((a - b).toNat : Nat) : Int) := by
  have := a.isLt; have := b.isLt
  simp only [evalOp2, norm, BitVec.toNat_sub]
  congr 1
  omega

theorem shrc_eq (a : W32) (k : Nat) : evalOp1 (.shrc k) (a.toNat : Int) = (((a >>> k).toNat : Nat) : Int) := by
  simp only [evalOp1, BitVec.toNat_ushiftRight]
  rfl


/-! ## The loop of ConstantTimeCmp -/

def condE : Expr := .op2 .ge (.var 7) (.lit 0)
def bodyS : Stmt := seqs [.assign 8 [] (.op1 (.conv .u32) (.idx (.var 0) (.var 7))),
    .assign 9 [] (.op1 (.conv .u32) (.idx (.var 1) (.var 7))),
    .assign 6 [] (.op3 .sub32d (.var 8) (.var 9) (.var 4)),
    .assign 4 [] (.op3 .sub32b (.var 8) (.var 9) (.var 4)),
    .assign 5 [] (.op2 (.or .u32) (.var 5) (.var 6))]
def postS : Stmt := .assign 7 [] (.op2 (.sub .i64) (.var 7) (.lit 1))
def loopS : Stmt := .loop condE bodyS postS
def tailS : Stmt := seqs [.assign 10 [] (.op1 (.shrc 31) (.op2 (.or .u32) (.var 5) (.op1 (.neg .u32) (.var 5)))),
    .ret [(.op2 (.sub .i64) (.op1 (.conv .i64) (.op2 (.and .u32) (.var 10) (.op2 (.sub .u32) (.lit 1) (.var 4)))) (.op1 (.conv .i64) (.var 4)))],
    .panic]

theorem fn_0_body : fn_0.body =
    seqs [.ite (.op2 .lor (.lit 0) (.lit 0)) (.panic) .skip, .assign 4 [] (.lit 0), .assign 5 [] (.lit 0),
      .assign 6 [] (.lit 0), .assign 7 [] (.op2 (.sub .i64) (.var 2) (.lit 1)), loopS,
      .assign 10 [] (.op1 (.shrc 31) (.op2 (.or .u32) (.var 5) (.op1 (.neg .u32) (.var 5)))),
      .ret [(.op2 (.sub .i64) (.op1 (.conv .i64) (.op2 (.and .u32) (.var 10) (.op2 (.sub .u32) (.lit 1) (.var 4)))) (.op1 (.conv .i64) (.var 4)))],
      .panic] := rfl

section Loop
variable {P : Prog} {G : Nat → Val} {X : Oracle}

/-- the state of the loop: the two strings, the index about to be read is `k - 1`, borrow and diff -/
structure Inv (env : Env) (a b : Bytes) (k : Nat) (bo di : W32) : Prop where
  h0 : env 0 = bytesV a
  h1 : env 1 = bytesV b
  h7 : env 7 = .int ((k : Int) - 1)
  h4 : env 4 = w32V bo
  h5 : env 5 = w32V di

/-- one round of the body at index `j` -/
theorem body_round {env : Env} {a b : Bytes} {j : Nat} {bo di : W32} {x y : UInt8}
    (h : Inv env a b (j + 1) bo di) (ha : a[j]? = some x) (hb : b[j]? = some y) :
    ∃ env1, EvIn P G X 9 env bodyS env1 .norm ∧
      Inv env1 a b (j + 1) (Model.Utils.sub32 (BitVec.ofNat 32 x.toNat) (BitVec.ofNat 32 y.toNat) bo).2
        (di ||| (Model.Utils.sub32 (BitVec.ofNat 32 x.toNat) (BitVec.ofNat 32 y.toNat) bo).1) := by
  obtain ⟨h0, h1, h7, h4, h5⟩ := h
  have h7' : env 7 = .int (j : Int) := by rw [h7]; congr 1; omega
  let d := (Model.Utils.sub32 (BitVec.ofNat 32 x.toNat) (BitVec.ofNat 32 y.toNat) bo).1
  let bo' := (Model.Utils.sub32 (BitVec.ofNat 32 x.toNat) (BitVec.ofNat 32 y.toNat) bo).2
  let e1 := env.set 8 (.int (Int.ofNat x.toNat))
  let e2 := e1.set 9 (.int (Int.ofNat y.toNat))
  let e3 := e2.set 6 (w32V d)
  let e4 := e3.set 4 (w32V bo')
  let e5 := e4.set 5 (w32V (di ||| d))
  have s1 : evalV G env (.op1 (.conv .u32) (.idx (.var 0) (.var 7))) = some (.int (Int.ofNat x.toNat)) := by
    simp only [evalV_op1, evalV_idx, evalV_var, h0, h7', bytesV, bytesV_getIdx, ha, Option.map_some, evalOp1]
    rw [show (Int.ofNat x.toNat) = ((x.toNat : Nat) : Int) from rfl, norm_u32_small (byte_lt x)]
  have s2 : evalV G e1 (.op1 (.conv .u32) (.idx (.var 1) (.var 7))) = some (.int (Int.ofNat y.toNat)) := by
    have g1 : e1 1 = bytesV b := by simp [e1, Env.set, h1]
    have g7 : e1 7 = .int (j : Int) := by simp [e1, Env.set, h7']
    simp only [evalV_op1, evalV_idx, evalV_var, g1, g7, bytesV, bytesV_getIdx, hb, Option.map_some, evalOp1]
    rw [show (Int.ofNat y.toNat) = ((y.toNat : Nat) : Int) from rfl, norm_u32_small (byte_lt y)]
  have g8 : e2 8 = .int ((x.toNat : Nat) : Int) := by simp [e2, e1, Env.set]
  have g9 : e2 9 = .int ((y.toNat : Nat) : Int) := by simp [e2, Env.set]
  have g4 : e2 4 = .int ((bo.toNat : Nat) : Int) := by simp [e2, e1, Env.set, h4, w32V]
  have s3 : evalV G e2 (.op3 .sub32d (.var 8) (.var 9) (.var 4)) = some (w32V d) := by
    simp only [evalV_op3, evalV_var, g8, g9, g4, sub32d_eq, w32V, d, Model.Utils.sub32]
    rfl
  have g8' : e3 8 = .int ((x.toNat : Nat) : Int) := by simp [e3, Env.set, g8]
  have g9' : e3 9 = .int ((y.toNat : Nat) : Int) := by simp [e3, Env.set, g9]
  have g4' : e3 4 = .int ((bo.toNat : Nat) : Int) := by simp [e3, Env.set, g4]
  have s4 : evalV G e3 (.op3 .sub32b (.var 8) (.var 9) (.var 4)) = some (w32V bo') := by
    simp only [evalV_op3, evalV_var, g8', g9', g4', sub32b_eq, w32V, bo', Model.Utils.sub32]
    rfl
  have g5 : e4 5 = .int ((di.toNat : Nat) : Int) := by simp [e4, e3, e2, e1, Env.set, h5, w32V]
  have g6 : e4 6 = .int ((d.toNat : Nat) : Int) := by simp [e4, e3, Env.set, w32V]
  have s5 : evalV G e4 (.op2 (.or .u32) (.var 5) (.var 6)) = some (w32V (di ||| d)) := by
    simp only [evalV_op2, evalV_var, g5, g6, or_u32_eq, Option.map_some, w32V]
    rfl
  refine ⟨e5, ?_, ?_⟩
  · exact (EvIn.seq (EvIn.assign s1) (EvIn.seq (EvIn.assign s2) (EvIn.seq (EvIn.assign s3)
      (EvIn.seq (EvIn.assign s4) (EvIn.assign s5))))).mono (by decide)
  · refine ⟨?_, ?_, ?_, ?_, ?_⟩
    · simp [e5, e4, e3, e2, e1, Env.set, h0]
    · simp [e5, e4, e3, e2, e1, Env.set, h1]
    · simp [e5, e4, e3, e2, e1, Env.set, h7]
    · simp [e5, e4, Env.set, bo']
    · simp [e5, Env.set, d]

end Loop


section Loop2
variable {P : Prog} {G : Nat → Val} {X : Oracle}

theorem norm_i64_small {n : Int} (h1 : -9223372036854775808 ≤ n) (h2 : n < 9223372036854775808) :
    norm .i64 n = n := by
  simp only [norm]; omega

theorem cond_true {env : Env} {j : Nat} (h7 : env 7 = .int (j : Int)) :
    evalV G env condE = some (.int 1) := by
  have : (0 : Int) ≤ (j : Int) := by omega
  simp [condE, evalV_op2, evalV_var, evalV_lit, h7, evalOp2, ofBool, this]

theorem cond_false {env : Env} {n : Int} (h7 : env 7 = .int n) (hn : n < 0) :
    evalV G env condE = some (.int 0) := by
  have : ¬ (0 : Int) ≤ n := by omega
  simp [condE, evalV_op2, evalV_var, evalV_lit, h7, evalOp2, ofBool, this]

theorem post_step {env : Env} {a b : Bytes} {j : Nat} {bo di : W32} (h : Inv env a b (j + 1) bo di)
    (hj : (j : Int) < 9223372036854775808) :
    ∃ env2, EvIn P G X 1 env postS env2 .norm ∧ Inv env2 a b j bo di := by
  obtain ⟨h0, h1, h7, h4, h5⟩ := h
  have h7' : env 7 = .int (j : Int) := by rw [h7]; congr 1; omega
  have s : evalV G env (.op2 (.sub .i64) (.var 7) (.lit 1)) = some (.int ((j : Int) - 1)) := by
    simp only [evalV_op2, evalV_var, evalV_lit, h7', evalOp2, Option.map_some]
    rw [norm_i64_small (by omega) (by omega)]
  refine ⟨env.set 7 (.int ((j : Int) - 1)), EvIn.assign s, ?_, ?_, ?_, ?_, ?_⟩ <;> simp [Env.set, *]

/-- the loop computes `cmpLoop` -/
theorem loop_ok (a b : Bytes) : ∀ (k : Nat) (env : Env) (bo di bo' di' : W32),
    Inv env a b k bo di → (k : Int) < 9223372036854775808 →
    Model.Utils.cmpLoop a b k bo di = .ok (bo', di') →
    ∃ env', EvIn P G X (11 * k + 1) env loopS env' .norm ∧ env' 4 = w32V bo' ∧ env' 5 = w32V di' := by
  intro k
  induction k with
  | zero =>
    intro env bo di bo' di' h _ hm
    simp only [Model.Utils.cmpLoop, Outcome.ok.injEq, Prod.mk.injEq] at hm
    obtain ⟨rfl, rfl⟩ := hm
    refine ⟨env, ?_, h.h4, h.h5⟩
    have h7 : env 7 = .int (-1) := by rw [h.h7]; rfl
    exact EvIn.loop_exit (cond_false h7 (by omega)) rfl
  | succ j ih =>
    intro env bo di bo' di' h hk hm
    simp only [Model.Utils.cmpLoop, Outcome.idx] at hm
    cases ha : a[j]? with
    | none => simp [ha] at hm
    | some x =>
      cases hb : b[j]? with
      | none => simp [ha, hb] at hm
      | some y =>
        simp only [ha, hb, Outcome.bind_ok] at hm
        obtain ⟨env1, hbody, hinv1⟩ := body_round (P := P) (G := G) (X := X) h ha hb
        obtain ⟨env2, hpost, hinv2⟩ := post_step (P := P) (G := G) (X := X) hinv1 (by omega)
        obtain ⟨env', hl, h4, h5⟩ := ih env2 _ _ bo' di' hinv2 (by omega) hm
        have h7 : env 7 = .int (j : Int) := by rw [h.h7]; congr 1; omega
        refine ⟨env', ?_, h4, h5⟩
        exact (EvIn.loop_round (cond_true h7) rfl hbody (Or.inl rfl) hpost hl).mono (by omega)

/-- an index out of range in the model is a stuck run -/
theorem loop_stuck (a b : Bytes) : ∀ (k : Nat) (env : Env) (bo di : W32),
    Inv env a b k bo di → (k : Int) < 9223372036854775808 →
    Model.Utils.cmpLoop a b k bo di = .panic → Stuck P G X env loopS := by
  intro k
  induction k with
  | zero =>
    intro env bo di h _ hm
    simp [Model.Utils.cmpLoop] at hm
  | succ j ih =>
    intro env bo di h hk hm
    have h7 : env 7 = .int (j : Int) := by rw [h.h7]; congr 1; omega
    simp only [Model.Utils.cmpLoop, Outcome.idx] at hm
    cases ha : a[j]? with
    | none =>
      apply Stuck.loop_body (cond_true h7) rfl
      apply Stuck.seq_left
      apply Stuck.assign
      simp only [evalV_op1, evalV_idx, evalV_var, h.h0, h7, bytesV, getIdx_ofNat, List.getElem?_map, ha, Option.map_none]
    | some x =>
      cases hb : b[j]? with
      | none =>
        apply Stuck.loop_body (cond_true h7) rfl
        have s1 : evalV G env (.op1 (.conv .u32) (.idx (.var 0) (.var 7))) = some (.int (evalOp1 (.conv .u32) (Int.ofNat x.toNat))) := by
          simp only [evalV_op1, evalV_idx, evalV_var, h.h0, h7, bytesV, getIdx_ofNat, List.getElem?_map, ha, Option.map_some]
        apply Stuck.seq_right (EvIn.assign s1)
        apply Stuck.seq_left
        apply Stuck.assign
        have g1 : (env.set 8 (.int (evalOp1 (.conv .u32) (Int.ofNat x.toNat)))) 1 = bytesV b := by simp [Env.set, h.h1]
        have g7 : (env.set 8 (.int (evalOp1 (.conv .u32) (Int.ofNat x.toNat)))) 7 = .int (j : Int) := by simp [Env.set, h7]
        simp only [evalV_op1, evalV_idx, evalV_var, g1, g7, bytesV, getIdx_ofNat, List.getElem?_map, hb, Option.map_none]
      | some y =>
        simp only [ha, hb, Outcome.bind_ok] at hm
        obtain ⟨env1, hbody, hinv1⟩ := body_round (P := P) (G := G) (X := X) h ha hb
        obtain ⟨env2, hpost, hinv2⟩ := post_step (P := P) (G := G) (X := X) hinv1 (by omega)
        exact Stuck.loop_round (cond_true h7) rfl hbody (Or.inl rfl) hpost (ih env2 _ _ hinv2 (by omega) hm)

end Loop2


/-! ## The whole function -/

section Whole
variable {G : Nat → Val} {X : Oracle}

/-- value of a run as an outcome: results `[.int r]` ↦ `ok r`; a stuck run (index out of range: a Go
    run-time panic) and an explicit `panic` ↦ `panic` -/
def outcomeInt : Ctl → Outcome Int
  | .ret [.int r] => .ok r
  | _ => .panic

/-- fuel that suffices for ConstantTimeCmp on length argument `l` -/
def fuelCmp (l : Int) : Nat := 11 * l.toNat + 40

theorem cmp_unfold (a b : Bytes) (l : Int) :
    Model.Utils.constantTimeCmp (some a) (some b) l =
      (Model.Utils.cmpLoop a b l.toNat 0 0 >>= fun p =>
        Outcome.ok ((((((p.2 ||| (0 - p.2)) >>> 31) &&& (1 - p.1)).toNat : Nat) : Int) - ((p.1.toNat : Nat) : Int))) := rfl

theorem cmpLoop_ne_err (a b : Bytes) : ∀ (k : Nat) (bo di : W32), Model.Utils.cmpLoop a b k bo di ≠ .err := by
  intro k
  induction k with
  | zero => intro bo di; simp [Model.Utils.cmpLoop]
  | succ j ih =>
    intro bo di
    simp only [Model.Utils.cmpLoop, Outcome.idx]
    cases a[j]? <;> cases b[j]? <;> simp [ih]

theorem sub_u32_one (b : W32) : evalOp2 (.sub .u32) 1 (b.toNat : Int) = some ((((1 : W32) - b).toNat : Nat) : Int) :=
  sub_u32_eq 1 b

theorem loop_phase_ok {P : Prog} (a b : Bytes) (l : Int) (hl1 : -9223372036854775808 < l) (hl2 : l < 9223372036854775808)
    (env : Env) (h0 : env 0 = bytesV a) (h1 : env 1 = bytesV b) (h7 : env 7 = .int (l - 1))
    (h4 : env 4 = w32V 0) (h5 : env 5 = w32V 0) (bo' di' : W32)
    (hm : Model.Utils.cmpLoop a b l.toNat 0 0 = .ok (bo', di')) :
    ∃ env', EvIn P G X (11 * l.toNat + 1) env loopS env' .norm ∧ env' 4 = w32V bo' ∧ env' 5 = w32V di' := by
  by_cases hpos : 0 < l
  · have hk : ((l.toNat : Nat) : Int) = l := by omega
    exact loop_ok a b l.toNat env 0 0 bo' di' ⟨h0, h1, by rw [h7, hk], h4, h5⟩ (by omega) hm
  · have hz : l.toNat = 0 := by omega
    rw [hz] at hm ⊢
    simp only [Model.Utils.cmpLoop, Outcome.ok.injEq, Prod.mk.injEq] at hm
    obtain ⟨rfl, rfl⟩ := hm
    exact ⟨env, EvIn.loop_exit (cond_false h7 (by omega)) rfl, h4, h5⟩

theorem loop_phase_stuck {P : Prog} (a b : Bytes) (l : Int) (hl2 : l < 9223372036854775808)
    (env : Env) (h0 : env 0 = bytesV a) (h1 : env 1 = bytesV b) (h7 : env 7 = .int (l - 1))
    (h4 : env 4 = w32V 0) (h5 : env 5 = w32V 0)
    (hm : Model.Utils.cmpLoop a b l.toNat 0 0 = .panic) : Stuck P G X env loopS := by
  by_cases hpos : 0 < l
  · have hk : ((l.toNat : Nat) : Int) = l := by omega
    exact loop_stuck a b l.toNat env 0 0 ⟨h0, h1, by rw [h7, hk], h4, h5⟩ (by omega) hm
  · have hz : l.toNat = 0 := by omega
    rw [hz] at hm
    simp [Model.Utils.cmpLoop] at hm

/-- the state before the loop -/
def envPre (a b : Bytes) (l : Int) : Env :=
  ((((Env.ofList [bytesV a, bytesV b, .int l]).set 4 (.int 0)).set 5 (.int 0)).set 6 (.int 0)).set 7 (.int (l - 1))

theorem prologue {P : Prog} (a b : Bytes) (l : Int) (hl1 : -9223372036854775808 < l) (hl2 : l < 9223372036854775808)
    {rest : Stmt} {env' : Env} {c : Ctl} {F : Nat} (h : EvIn P G X F (envPre a b l) rest env' c) :
    EvIn P G X (F + 20) (Env.ofList [bytesV a, bytesV b, .int l])
      (seqs [.ite (.op2 .lor (.lit 0) (.lit 0)) (.panic) .skip, .assign 4 [] (.lit 0), .assign 5 [] (.lit 0),
        .assign 6 [] (.lit 0), .assign 7 [] (.op2 (.sub .i64) (.var 2) (.lit 1)), rest]) env' c := by
  have hc : evalV G (Env.ofList [bytesV a, bytesV b, .int l]) (.op2 .lor (.lit 0) (.lit 0)) = some (.int 0) := by
    simp [evalV_op2, evalOp2, ofBool]
  have h7 : evalV G ((((Env.ofList [bytesV a, bytesV b, .int l]).set 4 (.int 0)).set 5 (.int 0)).set 6 (.int 0))
      (.op2 (.sub .i64) (.var 2) (.lit 1)) = some (.int (l - 1)) := by
    simp only [evalV_op2, evalV_var, evalV_lit, Env.set, Env.ofList, evalOp2]
    simp [norm_i64_small (n := l - 1) (by omega) (by omega)]
  refine (EvIn.seq (EvIn.ite hc rfl (EvIn.skip _)) (EvIn.seq (EvIn.assign rfl) (EvIn.seq (EvIn.assign rfl)
    (EvIn.seq (EvIn.assign rfl) (EvIn.seq (EvIn.assign h7) h))))).mono (by omega)

theorem prologue_stuck {P : Prog} (a b : Bytes) (l : Int) (hl1 : -9223372036854775808 < l) (hl2 : l < 9223372036854775808)
    {rest : Stmt} (h : Stuck P G X (envPre a b l) rest) :
    Stuck P G X (Env.ofList [bytesV a, bytesV b, .int l])
      (seqs [.ite (.op2 .lor (.lit 0) (.lit 0)) (.panic) .skip, .assign 4 [] (.lit 0), .assign 5 [] (.lit 0),
        .assign 6 [] (.lit 0), .assign 7 [] (.op2 (.sub .i64) (.var 2) (.lit 1)), rest]) := by
  have hc : evalV G (Env.ofList [bytesV a, bytesV b, .int l]) (.op2 .lor (.lit 0) (.lit 0)) = some (.int 0) := by
    simp [evalV_op2, evalOp2, ofBool]
  have h7 : evalV G ((((Env.ofList [bytesV a, bytesV b, .int l]).set 4 (.int 0)).set 5 (.int 0)).set 6 (.int 0))
      (.op2 (.sub .i64) (.var 2) (.lit 1)) = some (.int (l - 1)) := by
    simp only [evalV_op2, evalV_var, evalV_lit, Env.set, Env.ofList, evalOp2]
    simp [norm_i64_small (n := l - 1) (by omega) (by omega)]
  exact Stuck.seq_right (EvIn.ite hc rfl (EvIn.skip _)) (Stuck.seq_right (EvIn.assign rfl) (Stuck.seq_right (EvIn.assign rfl)
    (Stuck.seq_right (EvIn.assign rfl) (Stuck.seq_right (EvIn.assign h7) h))))

/-- the branch-free result after the loop -/
theorem epilogue {P : Prog} (env : Env) (bo di : W32) (h4 : env 4 = w32V bo) (h5 : env 5 = w32V di) :
    ∃ env', EvIn P G X 5 env (seqs [.assign 10 [] (.op1 (.shrc 31) (.op2 (.or .u32) (.var 5) (.op1 (.neg .u32) (.var 5)))),
      .ret [(.op2 (.sub .i64) (.op1 (.conv .i64) (.op2 (.and .u32) (.var 10) (.op2 (.sub .u32) (.lit 1) (.var 4)))) (.op1 (.conv .i64) (.var 4)))],
      .panic]) env'
      (.ret [.int (((((di ||| (0 - di)) >>> 31) &&& (1 - bo)).toNat : Int) - (bo.toNat : Int))]) := by
  let nz : W32 := (di ||| (0 - di)) >>> 31
  have s10 : evalV G env (.op1 (.shrc 31) (.op2 (.or .u32) (.var 5) (.op1 (.neg .u32) (.var 5)))) = some (w32V nz) := by
    simp only [evalV_op1, evalV_op2, evalV_var, h5, w32V, Int.ofNat_eq_natCast, neg_u32_eq, or_u32_eq, Option.map_some, shrc_eq, nz]
  have g10 : (env.set 10 (w32V nz)) 10 = .int ((nz.toNat : Nat) : Int) := by simp [Env.set, w32V]
  have g4 : (env.set 10 (w32V nz)) 4 = .int ((bo.toNat : Nat) : Int) := by simp [Env.set, h4, w32V]
  have sr : evalVs G (env.set 10 (w32V nz))
      [(.op2 (.sub .i64) (.op1 (.conv .i64) (.op2 (.and .u32) (.var 10) (.op2 (.sub .u32) (.lit 1) (.var 4)))) (.op1 (.conv .i64) (.var 4)))]
      = some [.int ((((nz &&& (1 - bo)).toNat : Nat) : Int) - (bo.toNat : Int))] := by
    have hb := bo.isLt
    have hz := (nz &&& (1 - bo)).isLt
    simp only [evalVs_cons, evalVs_nil, evalV_op2, evalV_op1, evalV_var, evalV_lit, g10, g4, sub_u32_one, Option.map_some,
      and_u32_eq]
    simp only [evalOp1, evalOp2, Option.map_some]
    rw [norm_i64_small (n := (((nz &&& (1 - bo)).toNat : Nat) : Int)) (by omega) (by omega),
      norm_i64_small (n := ((bo.toNat : Nat) : Int)) (by omega) (by omega), norm_i64_small (by omega) (by omega)]
  exact ⟨_, (EvIn.seq (EvIn.assign s10) (EvIn.seq_stop (EvIn.ret sr) (by simp))).mono (by omega)⟩

theorem fn0_lookup : prog[f_utils_ConstantTimeCmp]? = some fn_0 := rfl

/-- body level (for callers: `EvIn.call`): the model returns `r` ⇒ the body of the IR function, started on
    the arguments, returns `r` with any fuel ≥ `fuelCmp l - 1`; for ANY program `P` (the body calls nothing) -/
theorem cmp_body_ok {P : Prog} (a b : Bytes) (l : Int) (hl1 : -9223372036854775808 < l) (hl2 : l < 9223372036854775808) (r : Int)
    (h : Model.Utils.constantTimeCmp (some a) (some b) l = .ok r) :
    ∃ env', EvIn P G X (fuelCmp l - 1) (Env.ofList [bytesV a, bytesV b, .int l]) fn_0.body env' (.ret [.int r]) := by
  rw [cmp_unfold] at h
  cases hm : Model.Utils.cmpLoop a b l.toNat 0 0 with
  | err => rw [hm] at h; cases h
  | panic => rw [hm] at h; cases h
  | ok p =>
    obtain ⟨bo', di'⟩ := p
    rw [hm] at h
    simp only [Outcome.bind_ok, Outcome.ok.injEq] at h
    subst h
    have e0 : (envPre a b l) 0 = bytesV a := by simp [envPre, Env.set, Env.ofList]
    have e1 : (envPre a b l) 1 = bytesV b := by simp [envPre, Env.set, Env.ofList]
    have e7 : (envPre a b l) 7 = .int (l - 1) := by simp [envPre, Env.set]
    have e4 : (envPre a b l) 4 = w32V 0 := by simp [envPre, Env.set, w32V]
    have e5 : (envPre a b l) 5 = w32V 0 := by simp [envPre, Env.set, w32V]
    obtain ⟨env1, hloop, h4, h5⟩ := loop_phase_ok (P := P) (G := G) (X := X) a b l hl1 hl2 _ e0 e1 e7 e4 e5 bo' di' hm
    obtain ⟨env2, hep⟩ := epilogue (P := P) (G := G) (X := X) env1 bo' di' h4 h5
    have hbody := prologue (P := P) (G := G) (X := X) a b l hl1 hl2 (EvIn.seq hloop hep)
    exact ⟨env2, by rw [fn_0_body]; exact hbody.mono (by simp only [fuelCmp]; omega)⟩

theorem cmp_body_stuck {P : Prog} (a b : Bytes) (l : Int) (hl1 : -9223372036854775808 < l) (hl2 : l < 9223372036854775808)
    (h : Model.Utils.constantTimeCmp (some a) (some b) l = .panic) :
    Stuck P G X (Env.ofList [bytesV a, bytesV b, .int l]) fn_0.body := by
  rw [cmp_unfold] at h
  cases hm : Model.Utils.cmpLoop a b l.toNat 0 0 with
  | err => rw [hm] at h; cases h
  | ok p => rw [hm] at h; cases h
  | panic =>
    have e0 : (envPre a b l) 0 = bytesV a := by simp [envPre, Env.set, Env.ofList]
    have e1 : (envPre a b l) 1 = bytesV b := by simp [envPre, Env.set, Env.ofList]
    have e7 : (envPre a b l) 7 = .int (l - 1) := by simp [envPre, Env.set]
    have e4 : (envPre a b l) 4 = w32V 0 := by simp [envPre, Env.set, w32V]
    have e5 : (envPre a b l) 5 = w32V 0 := by simp [envPre, Env.set, w32V]
    have hloop := loop_phase_stuck (P := P) (G := G) (X := X) a b l hl2 _ e0 e1 e7 e4 e5 hm
    have hbody := prologue_stuck (P := P) (G := G) (X := X) a b l hl1 hl2
      (rest := .seq loopS tailS) (Stuck.seq_left hloop)
    rw [fn_0_body]; exact hbody

/-- ConstantTimeCmp: the model returns `r` ⇒ every run of the IR with fuel ≥ `fuelCmp l` returns `r` -/
theorem ir_cmp_ok (a b : Bytes) (l : Int) (hl1 : -9223372036854775808 < l) (hl2 : l < 9223372036854775808) (r : Int)
    (h : Model.Utils.constantTimeCmp (some a) (some b) l = .ok r) :
    ∀ f, fuelCmp l ≤ f → runV prog G X f f_utils_ConstantTimeCmp [bytesV a, bytesV b, .int l] = .ret [.int r] := by
  obtain ⟨env', hb⟩ := cmp_body_ok (P := prog) (G := G) (X := X) a b l hl1 hl2 r h
  intro f hf
  exact runV_of_EvIn fn0_lookup rfl rfl hb f (by simp only [fuelCmp] at hf ⊢; omega)

/-- ConstantTimeCmp: the model panics (an index out of range) ⇒ the IR run is stuck with every fuel -/
theorem ir_cmp_panic (a b : Bytes) (l : Int) (hl1 : -9223372036854775808 < l) (hl2 : l < 9223372036854775808)
    (h : Model.Utils.constantTimeCmp (some a) (some b) l = .panic) :
    ∀ f, runV prog G X f f_utils_ConstantTimeCmp [bytesV a, bytesV b, .int l] = .stuck :=
  runV_of_Stuck fn0_lookup (cmp_body_stuck (P := prog) (G := G) (X := X) a b l hl1 hl2 h)

/-- the run of the generated IR of ConstantTimeCmp IS the hand-written model, for all (non-nil) byte
    strings and every length argument of a Go `int` except `math.MinInt64` (see the remark in
    SMGo/Props/C20IR.lean) -/
theorem ir_constantTimeCmp_eq_model (a b : Bytes) (l : Int) (hl1 : -9223372036854775808 < l) (hl2 : l < 9223372036854775808)
    (f : Nat) (hf : fuelCmp l ≤ f) :
    outcomeInt (runV prog G X f f_utils_ConstantTimeCmp [bytesV a, bytesV b, .int l])
      = Model.Utils.constantTimeCmp (some a) (some b) l := by
  cases h : Model.Utils.constantTimeCmp (some a) (some b) l with
  | ok r => rw [ir_cmp_ok a b l hl1 hl2 r h f hf]; rfl
  | panic => rw [ir_cmp_panic a b l hl1 hl2 h f]; rfl
  | err =>
    rw [cmp_unfold] at h
    cases hm : Model.Utils.cmpLoop a b l.toNat 0 0 with
    | err => exact absurd hm (cmpLoop_ne_err a b _ _ _)
    | panic => rw [hm] at h; cases h
    | ok p => rw [hm] at h; cases h

end Whole

end SMGo.Proofs.CTIRRefineUtils
