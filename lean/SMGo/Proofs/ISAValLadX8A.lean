import SMGo.Proofs.ISAValLadXs8
import SMGo.Proofs.ISAValLadX16
set_option linter.unusedSimpArgs false
namespace SMGo.Proofs.ISAVal
open SMGo.Model.ISAVal SMGo.Model.GCM SMGo.Proofs.GCM SMGo.Proofs.ISATouch
open SMGo.Model.ISA (Reg Opd Instr)

def x8ACode : List DInstr := fill8Code ++ (kernCode 32 ++ xs8Code)

theorem fill8_writes : writesNone fill8Code (List.range 16) aKeepV (List.range 8) = true := by decide +kernel
theorem xs8_writesM : writesNoneM xs8Code (List.range 16) (14 :: aKeepV) (List.range 8) = true := by decide +kernel

set_option maxHeartbeats 1000000 in
/-- `loopX8` from `fillCounterX8` to the stores: 128 bytes of counter-mode output -/
theorem x8A_spec (s : State) (pc : PCtx s) (rk jb src : List Nat) (hrk : rk.length = 32) (hrkb : ∀ x ∈ rk, x < 2 ^ 32)
    (hjb : jb.length = 16) (hjbb : ∀ x ∈ jb, x < 2 ^ 8) (hsb : ∀ x ∈ src, x < 2 ^ 8)
    (Mf : List Nat → List Region) (dbase dlen sp : Nat) (bf : Buf Mf dbase dlen)
    (hrd : ∀ b i, b.length = dlen → i < 32 → readMem (Mf b) (73014444032 + 4 * i) 4 = .ok (lanes 8 4 (rk.getD i 0)))
    (b0 : List Nat) (hb0 : b0.length = dlen) (hm : s.mem = Mf b0) (c : Nat) (hsrc : SrcFrom (Mf b0) sp src (16 * c))
    (hctr : ∀ l, l < 2 → quadAt (vreg s 14) l = ctrW (Wblk jb 0) c) (h15 : greg s 15 = 73014444032)
    (h10 : greg s 10 = sp + 16 * c) (h13 : greg s 13 = dbase + 16 * c) (hso : 16 * c + 128 ≤ src.length) (hdo : 16 * c + 128 ≤ dlen)
    (hsp : sp + src.length < 2 ^ 63) (hdb : dbase + dlen < 2 ^ 63) :
    ∃ s', execList x8ACode s = .ok s' ∧
      s'.mem = Mf (spliceAt b0 (16 * c) ((oReg rk jb src c 2 0 ++ oReg rk jb src c 2 1) ++ (oReg rk jb src c 2 2 ++ oReg rk jb src c 2 3))) ∧
      vreg s' 9 = unlanes 8 (oReg rk jb src c 2 0 ++ oReg rk jb src c 2 1) ∧
      vreg s' 7 = unlanes 8 (oReg rk jb src c 2 2 ++ oReg rk jb src c 2 3) ∧
      (∀ l, l < 2 → quadAt (vreg s' 14) l = ctrW (Wblk jb 0) (c + 8)) ∧ greg s' 15 = 73014444032 ∧
      KeepsM aKeepG aKeepV (List.range 8) s s' := by
  obtain ⟨s1, hr1, q, q14⟩ := fill8_spec s pc.lenV pc.v16 pc.v18 (Wblk jb 0) (Wblk_qlt jb 0) c hctr
  have k1 := keeps_of_exec _ fill8_writes hr1
  obtain ⟨s2, hr2, out2, g15, k2⟩ := kern_spec 32 (by decide) s1 (k1.lenG.trans pc.lenG) (k1.lenV.trans pc.lenV)
    ((k1.v 10 (by decide)).trans pc.v10) ((k1.v 11 (by decide)).trans pc.v11) ((k1.v 12 (by decide)).trans pc.v12)
    (fun r l => ctrW (Wblk jb 0) (c + 2 * r + l + 1)) q rk hrk hrkb 73014444032 (by rw [k1.g 15 (by decide)]; exact h15) (by decide)
    (fun i hi => by rw [k1.mem, hm]; exact hrd b0 i hb0 hi)
  have hks : ∀ r, r < 4 → vreg s2 (9 - r) < 2 ^ (8 * 32) ∧ lanes 8 32 (vreg s2 (9 - r)) = ksReg rk jb c 2 r ∧ (ksReg rk jb c 2 r).length = 32 ∧
      ∀ x ∈ ksReg rk jb c 2 r, x < 2 ^ 8 := by
    intro r hr
    refine ⟨(out2 r hr).1, ?_, ksReg_length rk jb c 2 r, ksReg_bytes rk jb c 2 r⟩
    rw [(out2 r hr).2]
    unfold ksReg
    apply flatMap_range_congr
    intro l _
    exact encQ_ctr rk jb hrkb hjb hjbb _
  have hm2 : s2.mem = Mf b0 := by rw [k2.mem, k1.mem]; exact hm
  obtain ⟨s3, hr3, m3, r9, r7⟩ := xs8_spec s2 (k2.lenG.trans (k1.lenG.trans pc.lenG)) (k2.lenV.trans (k1.lenV.trans pc.lenV)) Mf dbase dlen bf src sp
    hsb b0 hb0 hm2 (16 * c) (16 * c) hsrc (by rw [k2.g 10 (by decide), k1.g 10 (by decide)]; exact h10)
    (by rw [k2.g 13 (by decide), k1.g 13 (by decide)]; exact h13) hso hdo hsp hdb (ksReg rk jb c 2) hks
  have k3 := keepsM_of_exec _ xs8_writesM hr3
  refine ⟨s3, execList_append_ok hr1 (execList_append_ok hr2 hr3), m3, r9, r7, ?_, ?_, ?_⟩
  · intro l hl
    rw [k3.v 14 (by decide), k2.v 14 (by decide)]; exact q14 l hl
  · rw [k3.g 15 (by decide)]; exact g15
  · exact ((k1.toM.mono (by decide) (fun _ h => h) (fun _ h => h)).trans (k2.toM.mono (by decide) (by decide) (fun _ h => h))).trans
      (k3.mono (by decide) (by decide) (fun _ h => h))

theorem oReg_length (rk jb src : List Nat) (c n r : Nat) (h : 16 * c + 16 * n * r + 16 * n ≤ src.length) : (oReg rk jb src c n r).length = 16 * n := by
  unfold oReg; rw [xorN_length, ksReg_length, List.length_take, List.length_drop]; omega

theorem oReg_bytes (rk jb src : List Nat) (c n r : Nat) (hsb : ∀ x ∈ src, x < 2 ^ 8) : ∀ x ∈ oReg rk jb src c n r, x < 2 ^ 8 :=
  xorN_bytes _ _ (fun x hx => hsb x (List.mem_of_mem_drop (List.mem_of_mem_take hx))) (ksReg_bytes _ _ _ _ _)

/-- the 128 output bytes of the class -/
theorem x8_out (rk jb src : List Nat) (c : Nat) (hso : 16 * c + 128 ≤ src.length) :
    (oReg rk jb src c 2 0 ++ oReg rk jb src c 2 1) ++ (oReg rk jb src c 2 2 ++ oReg rk jb src c 2 3)
      = xorN ((src.drop (16 * c)).take 128) (ksN rk jb c 8) := by
  have hk := ksN_regs rk jb c 2
  have hc := chunks4g src (16 * c) 32 hso
  have hl : ∀ a, a + 32 ≤ 128 → ((src.drop (16 * c + a)).take 32).length = (ksReg rk jb c 2 0).length := by
    intro a ha; rw [ksReg_length, List.length_take, List.length_drop]; omega
  show _ = xorN ((src.drop (16 * c)).take (4 * 32)) (ksN rk jb c (2 + (2 + (2 + 2))))
  rw [hk, hc, xorN_append _ _ _ _ (by rw [hl 0 (by omega)]),
    xorN_append _ _ _ _ (by rw [hl 32 (by omega), ksReg_length, ksReg_length]),
    xorN_append _ _ _ _ (by rw [hl (2 * 32) (by omega), ksReg_length, ksReg_length]), List.append_assoc]
  rfl

end SMGo.Proofs.ISAVal
