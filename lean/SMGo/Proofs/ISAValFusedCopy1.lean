import SMGo.Proofs.ISAValFusedCopy0
set_option linter.unusedSimpArgs false
namespace SMGo.Proofs.ISAVal
open SMGo.Model.ISAVal SMGo.Proofs.ISATouch
open SMGo.Model.ISA (Reg Opd Instr)

/-- one stage of `copyAsm`: while `len ≥ w` move `w` bytes -/
def stageCode (w dst src len tmp pNext pSelf : Nat) : List DInstr :=
  [ins .CMPQ [G len, .imm (w : Nat)] 0, jcc .JLT pNext, ins (movOf w) [M src 0, G tmp] 0, ins (movOf w) [G tmp, M dst 0] 0,
   ins .ADDQ [.imm (w : Nat), G src] 0, ins .ADDQ [.imm (w : Nat), G dst] 0, ins .SUBQ [.imm (w : Nat), G len] 0, jcc .JMP pSelf]

theorem copy_eq (dst src len tmp p8 p4 p2 p1 pe : Nat) :
    copyCode dst src len tmp p8 p4 p2 p1 pe = stageCode 8 dst src len tmp p4 p8 ++ (stageCode 4 dst src len tmp p2 p4 ++
      (stageCode 2 dst src len tmp p1 p2 ++ (stageCode 1 dst src len tmp pe p1 ++ [ins .NOP [] 0]))) := rfl

/-- registers and tables a memory-writing block leaves alone -/
structure RegsKeep (G : List Nat) (s s' : State) : Prop where
  lenG : s'.gpr.length = s.gpr.length
  g : ∀ n, n ∈ G → greg s' n = greg s n
  vec : s'.vec = s.vec
  kreg : s'.kreg = s.kreg
  syms : s'.syms = s.syms
  frame : s'.frame = s.frame

theorem RegsKeep.rfl' (G : List Nat) (s : State) : RegsKeep G s s := ⟨rfl, fun _ _ => rfl, rfl, rfl, rfl, rfl⟩
theorem RegsKeep.trans {G : List Nat} {a b c : State} (h1 : RegsKeep G a b) (h2 : RegsKeep G b c) : RegsKeep G a c :=
  ⟨h2.lenG.trans h1.lenG, fun n hn => (h2.g n hn).trans (h1.g n hn), h2.vec.trans h1.vec, h2.kreg.trans h1.kreg,
    h2.syms.trans h1.syms, h2.frame.trans h1.frame⟩

/-- the four registers of a `copyAsm`: pairwise different general registers -/
structure CopyRegs (dst src len tmp : Nat) : Prop where
  ld : dst < 16
  ls : src < 16
  ll : len < 16
  lt : tmp < 16
  ds : dst ≠ src
  dl : dst ≠ len
  dt : dst ≠ tmp
  sl : src ≠ len
  st : src ≠ tmp
  lt' : len ≠ tmp

def copyKeepG (dst src len tmp : Nat) : List Nat := (List.range 16).filter (fun n => !([dst, src, len, tmp].contains n))

theorem copyKeepG_ne {dst src len tmp n : Nat} (h : n ∈ copyKeepG dst src len tmp) : n ≠ dst ∧ n ≠ src ∧ n ≠ len ∧ n ≠ tmp := by
  simp [copyKeepG] at h
  exact ⟨h.2.1, h.2.2.1, h.2.2.2.1, h.2.2.2.2⟩


def iterCode (w dst src len tmp : Nat) : List DInstr :=
  [ins (movOf w) [M src 0, G tmp] 0, ins (movOf w) [G tmp, M dst 0] 0,
   ins .ADDQ [.imm (w : Nat), G src] 0, ins .ADDQ [.imm (w : Nat), G dst] 0, ins .SUBQ [.imm (w : Nat), G len] 0]

theorem ea00 (a : Nat) (ha : a < 2 ^ 64) : (a + 0 + imm64 0) % 2 ^ 64 = a := by
  simp only [imm64_0, Nat.add_zero]; exact Nat.mod_eq_of_lt ha

set_option maxHeartbeats 1000000 in
/-- one iteration of a stage of `copyAsm`: `w` bytes from the source pointer to the destination pointer -/
theorem stage_iter (w dst src len tmp : Nat) (hw : isW w) (cr : CopyRegs dst src len tmp) (s : State) (hG : s.gpr.length = 16)
    (Mf : List Nat → List Region) (base blen : Nat) (bf : Buf Mf base blen) (b : List Nat) (hb : b.length = blen) (hm : s.mem = Mf b)
    (bs : List Nat) (hbs : bs.length = w) (hbb : ∀ x ∈ bs, x < 2 ^ 8) (sa doff n : Nat) (hsrc : greg s src = sa) (hsa : sa + w < 2 ^ 63)
    (hrd : readMem s.mem sa w = .ok bs) (hdst : greg s dst = base + doff) (hdo : doff + w ≤ blen) (hbase : base + blen < 2 ^ 63)
    (hlen : greg s len = n) (hn : w ≤ n) (hn63 : n < 2 ^ 63) :
    ∃ s', execList (iterCode w dst src len tmp) s = .ok s' ∧ s'.mem = Mf (spliceAt b doff bs) ∧ greg s' src = sa + w ∧
      greg s' dst = base + doff + w ∧ greg s' len = n - w ∧ RegsKeep (copyKeepG dst src len tmp) s s' := by
  have hw8 : w ≤ 8 := by rcases hw with rfl | rfl | rfl | rfl <;> decide
  obtain ⟨ld, ls, ll, lt, ds, dl, dt, sl, st, lt'⟩ := cr
  -- load
  let s1 := setGreg s tmp (mergeG w (greg s tmp) (unlanes 8 bs))
  have x1 : execD s (ins (movOf w) [M src 0, G tmp] 0) = .ok s1 :=
    a_mov_load_gpr s w src tmp hw bs (by omega) (by omega) (by rw [hsrc, ea00 _ (by omega)]; exact hrd)
  -- store
  have g1t : greg s1 tmp = mergeG w (greg s tmp) (unlanes 8 bs) := greg_setGreg_eq s tmp _ (by omega)
  have g1d : greg s1 dst = base + doff := by rw [greg_setGreg_ne s tmp _ dst dt]; exact hdst
  let s2 := setMem s1 (Mf (spliceAt b doff bs))
  have x2 : execD s1 (ins (movOf w) [G tmp, M dst 0] 0) = .ok s2 := by
    apply a_mov_store_gpr s1 w tmp dst hw _ (by simp [s1]; omega) (by simp [s1]; omega)
    rw [g1d, ea00 _ (by omega), g1t, lanes_mergeG w _ hw bs hbs hbb]
    show writeMem s.mem _ _ = _
    rw [hm]
    have := bf.wr b doff bs hb (by omega)
    rw [this]; rfl
  -- pointers and length
  have x3 := a_addq_imm s2 (w : Nat) src (by simp [s2, s1]; omega)
  have g2s : greg s2 src = sa := by
    show greg (setMem (setGreg s tmp _) _) src = _
    rw [greg_setMem, greg_setGreg_ne s tmp _ src st]; exact hsrc
  rw [g2s, addF_fst, imm64_natCast w (by omega), Nat.mod_eq_of_lt (by omega)] at x3
  let s3 := setFlags (setGreg s2 src (sa + w)) (addF 8 sa w).2
  have x4 := a_addq_imm s3 (w : Nat) dst (by simp [s3, s2, s1]; omega)
  have g3d : greg s3 dst = base + doff := by
    show greg (setFlags (setGreg (setMem (setGreg s tmp _) _) src _) _) dst = _
    rw [greg_setFlags, greg_setGreg_ne _ _ _ _ ds, greg_setMem, greg_setGreg_ne s tmp _ dst dt]; exact hdst
  rw [g3d, addF_fst, imm64_natCast w (by omega), Nat.mod_eq_of_lt (by omega)] at x4
  let s4 := setFlags (setGreg s3 dst (base + doff + w)) (addF 8 (base + doff) w).2
  have x5 := a_subq_imm s4 (w : Nat) len (by simp [s4, s3, s2, s1]; omega)
  have g4l : greg s4 len = n := by
    show greg (setFlags (setGreg (setFlags (setGreg (setMem (setGreg s tmp _) _) src _) _) dst _) _) len = _
    rw [greg_setFlags, greg_setGreg_ne _ _ _ _ (Ne.symm dl), greg_setFlags, greg_setGreg_ne _ _ _ _ (Ne.symm sl), greg_setMem,
      greg_setGreg_ne s tmp _ len lt']; exact hlen
  rw [g4l, subF_fst, imm64_natCast w (by omega), show (n + 2 ^ 64 - w) % 2 ^ 64 = n - w from by omega] at x5
  refine ⟨setFlags (setGreg s4 len (n - w)) (subF 8 n w).2, ?_, ?_, ?_, ?_, ?_, ?_⟩
  · unfold iterCode
    apply exec_step x1
    apply exec_step x2
    apply exec_step x3
    apply exec_step x4
    apply exec_step x5
    exact execList_nil _
  · rfl
  · rw [greg_setFlags, greg_setGreg_ne _ _ _ _ sl, greg_setFlags, greg_setGreg_ne _ _ _ _ (Ne.symm ds), greg_setFlags,
      greg_setGreg_eq s2 src _ (by simp [s2, s1]; omega)]
  · rw [greg_setFlags, greg_setGreg_ne _ _ _ _ dl, greg_setFlags, greg_setGreg_eq s3 dst _ (by simp [s3, s2, s1]; omega)]
  · rw [greg_setFlags, greg_setGreg_eq s4 len _ (by simp [s4, s3, s2, s1]; omega)]
  · refine ⟨by simp [s4, s3, s2, s1], ?_, rfl, rfl, rfl, rfl⟩
    intro m hm'
    obtain ⟨m1, m2, m3, m4⟩ := copyKeepG_ne hm'
    rw [greg_setFlags, greg_setGreg_ne _ _ _ _ m3, greg_setFlags, greg_setGreg_ne _ _ _ _ m1, greg_setFlags,
      greg_setGreg_ne _ _ _ _ m2, greg_setMem, greg_setGreg_ne s tmp _ m m4]


theorem stage_eq (w dst src len tmp pNext pSelf : Nat) :
    stageCode w dst src len tmp pNext pSelf = [ins .CMPQ [G len, .imm (w : Nat)] 0] ++ ([jcc .JLT pNext] ++
      (iterCode w dst src len tmp ++ [jcc .JMP pSelf])) := rfl

theorem spliceAt_nil (b : List Nat) (off : Nat) : spliceAt b off [] = b := by
  simp [spliceAt]

theorem iter_nc (w dst src len tmp : Nat) (hw : isW w) : (iterCode w dst src len tmp).all (fun i => !i.mn.isControl) = true := by
  rcases hw with rfl | rfl | rfl | rfl <;> rfl

set_option maxHeartbeats 1000000 in
/-- **one stage of `copyAsm`**: `n / w` moves of `w` bytes; `n % w` bytes remain -/
theorem stage_reach (r : Routine) (k w dst src len tmp pNext pSelf : Nat) (hw : isW w) (cr : CopyRegs dst src len tmp)
    (hs : Slice r k (stageCode w dst src len tmp pNext pSelf)) (hlS : findPc r pSelf = some (r.drop k))
    (hlN : findPc r pNext = some (r.drop (k + 8))) (Mf : List Nat → List Region) (base blen : Nat) (bf : Buf Mf base blen)
    (d : List Nat) (sp : Nat) (hsrc : ∀ b, b.length = blen → DataAt (Mf b) sp d) (hdb : ∀ x ∈ d, x < 2 ^ 8)
    (hbase : base + blen < 2 ^ 63) (hsp : sp + d.length < 2 ^ 63) :
    ∀ (q n : Nat) (s : State) (b : List Nat) (so doff : Nat), n / w = q → s.gpr.length = 16 → b.length = blen → s.mem = Mf b →
      greg s len = n → n < 2 ^ 63 → greg s src = sp + so → greg s dst = base + doff → so + n ≤ d.length → doff + n ≤ blen →
      ∃ s', Reach r k s (k + 8) s' (8 * q + 2) ∧ s'.mem = Mf (spliceAt b doff ((d.drop so).take (w * q))) ∧ greg s' len = n % w ∧
        greg s' src = sp + so + w * q ∧ greg s' dst = base + doff + w * q ∧ RegsKeep (copyKeepG dst src len tmp) s s' := by
  have hw0 : 0 < w := by rcases hw with rfl | rfl | rfl | rfl <;> decide
  have hw8 : w ≤ 8 := by rcases hw with rfl | rfl | rfl | rfl <;> decide
  rw [stage_eq] at hs
  have sC : Slice r k [ins .CMPQ [G len, .imm (w : Nat)] 0] := hs.left
  have sJ : Slice r (k + 1) [jcc .JLT pNext] := hs.right.left
  have sI : Slice r (k + 2) (iterCode w dst src len tmp) := hs.right.right.left
  have sM : Slice r (k + 7) [jcc .JMP pSelf] := hs.right.right.right
  intro q
  induction q with
  | zero =>
    intro n s b so doff hq hG hb hm hlen hn63 hsr hds hso hdo
    have hnw : n < w := by
      rcases Nat.lt_or_ge n w with h | h
      · exact h
      · have := Nat.div_pos h hw0; omega
    let s0 := setFlags s (subF 8 n w).2
    have hx0 : execList [ins .CMPQ [G len, .imm (w : Nat)] 0] s = .ok s0 := by
      apply exec_step (s1 := s0)
      · have := a_cmpq_imm s (w : Nat) len (by rw [hG]; exact cr.ll)
        rw [hlen, imm64_natCast w (by omega)] at this; exact this
      rfl
    have r0 : Reach r k s (k + 1) s0 1 := reach_seg sC (by rfl) hx0
    have hcnd : Model.ISAVal.cond .JLT s0.flags = .ok (decide (n < w)) := cond_jlt n w hn63 (by omega)
    have rJ := reach_jcc (r := r) (k := k + 1) (idx := k + 8) sJ rfl hlN hcnd
    simp only [hnw, decide_true, if_true] at rJ
    refine ⟨s0, (r0.trans rJ).cast rfl rfl, ?_, ?_, ?_, ?_, ⟨rfl, fun _ _ => rfl, rfl, rfl, rfl, rfl⟩⟩
    · show s.mem = _
      rw [Nat.mul_zero, List.take_zero, spliceAt_nil]; exact hm
    · show greg s len = _
      rw [hlen, Nat.mod_eq_of_lt hnw]
    · show greg s src = _
      rw [hsr]; omega
    · show greg s dst = _
      rw [hds]; omega
  | succ q ih =>
    intro n s b so doff hq hG hb hm hlen hn63 hsr hds hso hdo
    have hnw : w ≤ n := by
      rcases Nat.lt_or_ge n w with h | h
      · rw [Nat.div_eq_of_lt h] at hq; omega
      · exact h
    let s0 := setFlags s (subF 8 n w).2
    have hx0 : execList [ins .CMPQ [G len, .imm (w : Nat)] 0] s = .ok s0 := by
      apply exec_step (s1 := s0)
      · have := a_cmpq_imm s (w : Nat) len (by rw [hG]; exact cr.ll)
        rw [hlen, imm64_natCast w (by omega)] at this; exact this
      rfl
    have r0 : Reach r k s (k + 1) s0 1 := reach_seg sC (by rfl) hx0
    have hcnd : Model.ISAVal.cond .JLT s0.flags = .ok (decide (n < w)) := cond_jlt n w hn63 (by omega)
    have rJ := reach_jcc (r := r) (k := k + 1) (idx := k + 8) sJ rfl hlN hcnd
    have hnlt : ¬ n < w := by omega
    simp only [hnlt, decide_false, Bool.false_eq_true, if_false] at rJ
    -- one move
    have hrd : readMem s0.mem (sp + so) w = .ok ((d.drop so).take w) := by
      show readMem s.mem _ _ = _
      rw [hm]; exact hsrc b hb so w (by omega)
    obtain ⟨s1, hx1, m1, g1s, g1d, g1l, k1⟩ := stage_iter w dst src len tmp hw cr s0 hG Mf base blen bf b hb hm ((d.drop so).take w)
      (by rw [List.length_take, List.length_drop]; omega) (fun x hx => hdb x (List.mem_of_mem_drop (List.mem_of_mem_take hx)))
      (sp + so) doff n hsr (by omega) hrd hds (by omega) hbase hlen hnw hn63
    have r1 : Reach r (k + 2) s0 (k + 7) s1 5 := (reach_seg sI (iter_nc w dst src len tmp hw) hx1).cast (by rfl) (by rfl)
    have r2 := reach_jmp (r := r) (k := k + 7) (idx := k) sM hlS s1
    have hbs : ((d.drop so).take w).length = w := by rw [List.length_take, List.length_drop]; omega
    obtain ⟨s2, r3, m2, g2l, g2s, g2d, k2⟩ := ih (n - w) s1 (spliceAt b doff ((d.drop so).take w)) (so + w) (doff + w)
      (by have := Nat.sub_mul_div n w 1; rw [Nat.mul_one] at this; rw [this]; omega)
      (by rw [k1.lenG]; exact hG) (by rw [spliceAt_length _ _ _ (by omega)]; exact hb) m1 g1l (by omega)
      (by rw [g1s]; omega) (by rw [g1d]; omega) (by omega) (by omega)
    refine ⟨s2, ((((r0.trans rJ).trans r1).trans r2).trans r3).cast rfl (by omega), ?_, ?_, ?_, ?_,
      (show RegsKeep (copyKeepG dst src len tmp) s s0 from ⟨rfl, fun _ _ => rfl, rfl, rfl, rfl, rfl⟩).trans (k1.trans k2)⟩
    · have hq' : (n - w) / w = q := by have := Nat.sub_mul_div n w 1; rw [Nat.mul_one] at this; rw [this]; omega
      have hwq : w * q ≤ n - w := by have := Nat.mul_div_le (n - w) w; rw [hq'] at this; exact this
      have key := spliceAt_spliceAt b doff ((d.drop so).take w) ((d.drop (so + w)).take (w * q))
        (by rw [hbs, List.length_take, List.length_drop, hb, Nat.min_eq_left (by omega)]; omega)
      rw [hbs] at key
      rw [m2, key]
      congr 2
      rw [Nat.mul_succ, Nat.add_comm (w * q) w, List.take_add, List.drop_drop]
    · rw [g2l]
      have : (n - w) % w = n % w := by
        have h1 := Nat.div_add_mod n w
        have h2 := Nat.div_add_mod (n - w) w
        have h3 : (n - w) / w = q := by have := Nat.sub_mul_div n w 1; rw [Nat.mul_one] at this; rw [this]; omega
        rw [h3] at h2; rw [hq, Nat.mul_succ] at h1
        omega
      exact this
    · rw [g2s, Nat.mul_succ]; omega
    · rw [g2d, Nat.mul_succ]; omega

end SMGo.Proofs.ISAVal
