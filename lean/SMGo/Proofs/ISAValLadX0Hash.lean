import SMGo.Proofs.ISAValLadX0Out
set_option linter.unusedSimpArgs false
namespace SMGo.Proofs.ISAVal
open SMGo.Model.ISAVal SMGo.Model.GCM SMGo.Proofs.GCM SMGo.Proofs.ISATouch
open SMGo.Model.ISA (Reg Opd Instr)

/-- `loopX0`: one GHASH step over the scratch block -/
def x0HashCode : List DInstr :=
  [ins .MOVQ [.imm 1, G 11] 0, ins .VMOVDQU32 [M 6 0, R 9] 16] ++ (rbCode 16 9 0 1 ++ (gh1Code 9 21 ++ [ins .SUBQ [.imm 1, G 11] 0]))

def x0hKeepG : List Nat := [0, 1, 2, 3, 4, 5, 6, 7, 8, 9, 10, 12, 13, 14, 15]

theorem x0h_pre_writes : writesNone [ins .MOVQ [.imm 1, G 11] 0, ins .VMOVDQU32 [M 6 0, R 9] 16] x0hKeepG
    ((List.range 32).filter (fun n => !([9].contains n))) (List.range 8) = true := by decide +kernel
theorem sub11_writes : writesNone [ins .SUBQ [.imm 1, G 11] 0] x0hKeepG (List.range 32) (List.range 8) = true := by decide +kernel

set_option maxHeartbeats 1000000 in
theorem x0hash_spec (s : State) (h : Nat) (gc : GhCtx h s) (y : Nat) (hy : vreg s 21 = y) (hylt : y < 2 ^ 128)
    (t : Nat) (h6 : greg s 6 = t) (ht : t + 16 < 2 ^ 63) (blk : List Nat) (hblk : blk.length = 16) (hbb : ∀ x ∈ blk, x < 2 ^ 8)
    (hrd : readMem s.mem t 16 = .ok blk) :
    ∃ s', execList x0HashCode s = .ok s' ∧ vreg s' 21 = gmulR h (y ^^^ rb128 (unlanes 8 blk)) ∧ vreg s' 21 < 2 ^ 128 ∧ GhCtx h s' ∧
      Keeps x0hKeepG hashKeepV (List.range 8) s s' := by
  let s1 := setGreg s 11 (imm64 1)
  have x1 := a_movq_imm s 1 11 (by rw [gc.lenG]; omega)
  have x2 : execD s1 (ins .VMOVDQU32 [M 6 0, R 9] 16) = .ok (setVreg s1 9 (unlanes 8 blk)) := by
    apply a_vmov_load s1 16 6 0 9 blk (by decide) (by simp [s1]; rw [gc.lenG]; omega) (by simp [s1]; rw [gc.lenV]; omega)
    rw [show greg s1 6 = t from by rw [greg_setGreg_ne s 11 _ 6 (by decide)]; exact h6, ea00 _ (by omega)]
    exact hrd
  have hr0 : execList [ins .MOVQ [.imm 1, G 11] 0, ins .VMOVDQU32 [M 6 0, R 9] 16] s = .ok (setVreg s1 9 (unlanes 8 blk)) := by
    apply exec_step x1
    apply exec_step x2
    exact execList_nil _
  have k0 := keeps_of_exec _ x0h_pre_writes hr0
  have c0 := gc.of_keeps k0 (by decide)
  have v09 : vreg (setVreg s1 9 (unlanes 8 blk)) 9 = unlanes 8 blk := vreg_setVreg_eq s1 9 _ (by simp [s1]; rw [gc.lenV]; omega)
  obtain ⟨s2, hr2, l2, k2⟩ := rbReg_spec 16 9 (Or.inr rfl) (by decide) _ h c0 blk hblk hbb v09
  have c2 := c0.of_keeps k2 (ghRegs_rb 9 (by decide))
  have y2 : vreg s2 21 = y := by rw [k2.v 21 (by decide), k0.v 21 (by decide)]; exact hy
  obtain ⟨s3, hr3, lt3, v3⟩ := gh1_spec 9 21 ⟨by decide, Or.inr rfl⟩ s2 c2.lenV h c2.hc y y2 hylt
  have k3 := keeps_of_exec _ (gh1_writes 9 21) hr3
  have hG3 : s3.gpr.length = 16 := k3.lenG.trans c2.lenG
  obtain ⟨s4, hr4⟩ : ∃ s4, execList [ins .SUBQ [.imm 1, G 11] 0] s3 = .ok s4 :=
    ⟨_, exec_step (a_subq_imm s3 1 11 (by omega)) rfl⟩
  have k4 := keeps_of_exec _ sub11_writes hr4
  have mk : ∀ {a b : State} {G V : List Nat}, Keeps G V (List.range 8) a b → (∀ n, n ∈ x0hKeepG → n ∈ G) → (∀ n, n ∈ hashKeepV → n ∈ V) →
      Keeps x0hKeepG hashKeepV (List.range 8) a b := fun k hG hV => k.mono hG hV (fun _ h => h)
  have kA : Keeps x0hKeepG hashKeepV (List.range 8) s s4 :=
    (mk k0 (fun _ h => h) (by decide)).trans ((mk k2 (by decide) (by decide)).trans ((mk k3 (by decide) (by decide)).trans
      (mk k4 (fun _ h => h) (by decide))))
  refine ⟨s4, execList_append_ok hr0 (execList_append_ok hr2 (execList_append_ok hr3 hr4)), ?_, ?_, gc.of_keeps kA (by decide), kA⟩
  · rw [k4.v 21 (by decide), v3, l2 0 (by decide), blkR_one blk hblk]
  · rw [k4.v 21 (by decide)]; exact lt3

/-! ### list facts about the scratch block -/

theorem spliceAt_read (b : List Nat) (off : Nat) (x : List Nat) (h : off + x.length ≤ b.length) :
    ((spliceAt b off x).drop off).take x.length = x := by
  unfold spliceAt
  rw [List.append_assoc, List.drop_left' (by simp; omega), List.take_left' rfl]

/-- zeroing behind the first `n` bytes of a block written at `off` -/
theorem spliceAt_clear (b : List Nat) (off n : Nat) (x z : List Nat) (hn : n ≤ x.length) (hz : n + z.length = x.length)
    (h : off + x.length ≤ b.length) : spliceAt (spliceAt b off x) (off + n) z = spliceAt b off (x.take n ++ z) := by
  have hx : x = x.take n ++ x.drop n := (List.take_append_drop n x).symm
  have h1 : spliceAt b off x = spliceAt (spliceAt b off (x.take n)) (off + n) (x.drop n) := by
    have := spliceAt_spliceAt b off (x.take n) (x.drop n) (by simp; omega)
    rw [List.length_take, Nat.min_eq_left hn] at this
    rw [this, ← hx]
  have hl1 : (spliceAt b off (x.take n)).length = b.length := spliceAt_length _ _ _ (by simp; omega)
  rw [h1, spliceAt_over _ (off + n) (x.drop n) z (by simp; omega) (by rw [hl1]; simp; omega)]
  have : (x.drop n).drop z.length = [] := List.drop_eq_nil_of_le (by simp; omega)
  rw [this, List.append_nil]
  have := spliceAt_spliceAt b off (x.take n) z (by simp; omega)
  rw [List.length_take, Nat.min_eq_left hn] at this
  exact this

end SMGo.Proofs.ISAVal
