/-
  Lemmas for Props/C05Gen.lean, part 2: `cryptoBlock` and `cryptoBlockX2` of the code REGENERATED from
  /repo/sm4/sm4.go (SMGo/Gen/SM4Code.lean: one `let` per Go statement, 32 / 32×4 round statements) are the
  hand-written model's `cryptoBlock` / `cryptoBlockX2` (a fold of eight `group4`s), for all inputs.
  Method: the model's fold is written out (`model_…_unroll`); the generated let-chain is taken apart with
  `extract_lets` (the names below follow the order of the statements in the Go source: if the source changes
  shape these proofs stop building, which is the intended behaviour); each group of four (sixteen) statements is
  one `group4` (`group4X2`) of the model by unfolding both (`s1 … s8`); the big-endian loads and stores are
  `wordsBE` / `w32Bytes`.
-/
import SMGo.Proofs.SM4Gen
namespace SMGo.Proofs.SM4Gen
open SMGo SMGo.Model.GoSM4

/-- initial state of the model: the four words of the input -/
def init4 (x : Bytes) : W32 × W32 × W32 × W32 :=
  ((wordsBE x).getD 0 0, (wordsBE x).getD 1 0, (wordsBE x).getD 2 0, (wordsBE x).getD 3 0)

/-- output of the model: the state in reverse order -/
def out4 (s : W32 × W32 × W32 × W32) : Bytes :=
  w32Bytes s.2.2.2 ++ w32Bytes s.2.2.1 ++ w32Bytes s.2.1 ++ w32Bytes s.1

/-- the model's fold over eight groups, written out -/
theorem model_cryptoBlock_unroll (rk : List W32) (x : Bytes) :
    Model.SM4.cryptoBlock tb rk x
      = out4 (Model.SM4.group4 tb rk (Model.SM4.group4 tb rk (Model.SM4.group4 tb rk (Model.SM4.group4 tb rk
          (Model.SM4.group4 tb rk (Model.SM4.group4 tb rk (Model.SM4.group4 tb rk (Model.SM4.group4 tb rk
            (init4 x) 0) 1) 2) 3) 4) 5) 6) 7) := by
  unfold Model.SM4.cryptoBlock
  rw [show List.range 8 = [0, 1, 2, 3, 4, 5, 6, 7] from rfl]
  simp only [List.foldl_cons, List.foldl_nil]
  rw [show ((wordsBE x).getD 0 0, (wordsBE x).getD 1 0, (wordsBE x).getD 2 0, (wordsBE x).getD 3 0) = init4 x from rfl]
  generalize Model.SM4.group4 tb rk _ 7 = s
  obtain ⟨a, b, c, d⟩ := s
  rfl

/-- one group of the model in the vocabulary of the generated code -/
theorem group4_gen (rk : List W32) (z0 z1 z2 z3 : W32) (i : Nat) :
    Model.SM4.group4 tb rk (z0, z1, z2, z3) i =
      (let t := z1 ^^^ z2 ^^^ z3 ^^^ rk.getD (4*i) 0
       let z0 := z0 ^^^ Gen.SM4Code.ss t
       let t := z2 ^^^ z3 ^^^ rk.getD (4*i+1) 0 ^^^ z0
       let z1 := z1 ^^^ Gen.SM4Code.ss t
       let t := z3 ^^^ rk.getD (4*i+2) 0 ^^^ z0 ^^^ z1
       let z2 := z2 ^^^ Gen.SM4Code.ss t
       let t := rk.getD (4*i+3) 0 ^^^ z0 ^^^ z1 ^^^ z2
       let z3 := z3 ^^^ Gen.SM4Code.ss t
       (z0, z1, z2, z3)) := by
  simp only [Model.SM4.group4, gen_ss_eq_model]

theorem init4_cons (x0 x1 x2 x3 x4 x5 x6 x7 x8 x9 x10 x11 x12 x13 x14 x15 : UInt8) (xr : Bytes) :
    init4 (x0 :: x1 :: x2 :: x3 :: x4 :: x5 :: x6 :: x7 :: x8 :: x9 :: x10 :: x11 :: x12 :: x13 :: x14 :: x15 :: xr)
      = (beUint32 [x0, x1, x2, x3], beUint32 [x4, x5, x6, x7], beUint32 [x8, x9, x10, x11], beUint32 [x12, x13, x14, x15]) := by
  simp only [init4, SM4.wordsBE_cons4, List.getD_cons_zero, List.getD_cons_succ, beUint32_4]

theorem put4 (y0 y1 y2 y3 y4 y5 y6 y7 y8 y9 y10 y11 y12 y13 y14 y15 : UInt8) (yr : Bytes) (a b c d : W32) :
    putUint32 (putUint32 (putUint32 (putUint32
      (y0 :: y1 :: y2 :: y3 :: y4 :: y5 :: y6 :: y7 :: y8 :: y9 :: y10 :: y11 :: y12 :: y13 :: y14 :: y15 :: yr) 0 a) 4 b) 8 c) 12 d
      = w32Bytes a ++ w32Bytes b ++ w32Bytes c ++ w32Bytes d ++ yr := by
  simp only [w32Bytes_eq]; rfl

theorem gen_cryptoBlock_eq_model (x y : Bytes) (rk : List W32) (hx : 16 ≤ x.length) (hy : 16 ≤ y.length) :
    Gen.SM4Code.cryptoBlock x y rk = Model.SM4.cryptoBlock tb rk x ++ y.drop 16 := by
  obtain ⟨x0, x1, x2, x3, x4, x5, x6, x7, x8, x9, x10, x11, x12, x13, x14, x15, xr, rfl⟩ := explicit16 x hx
  obtain ⟨y0, y1, y2, y3, y4, y5, y6, y7, y8, y9, y10, y11, y12, y13, y14, y15, yr, rfl⟩ := explicit16 y hy
  rw [model_cryptoBlock_unroll, init4_cons]
  unfold Gen.SM4Code.cryptoBlock
  extract_lets -merge
    t_ z0_0 z1_0 z2_0 z3_0 ta_1 z0_1 tb_1 z1_1 tc_1 z2_1 td_1 z3_1 ta_2 z0_2 tb_2 z1_2 tc_2 z2_2 td_2 z3_2
    ta_3 z0_3 tb_3 z1_3 tc_3 z2_3 td_3 z3_3 ta_4 z0_4 tb_4 z1_4 tc_4 z2_4 td_4 z3_4 ta_5 z0_5 tb_5 z1_5 tc_5
    z2_5 td_5 z3_5 ta_6 z0_6 tb_6 z1_6 tc_6 z2_6 td_6 z3_6 ta_7 z0_7 tb_7 z1_7 tc_7 z2_7 td_7 z3_7 ta_8 z0_8
    tb_8 z1_8 tc_8 z2_8 td_8 z3_8 y_1 y_2 y_3 y_4
  have s1 : Model.SM4.group4 tb rk (z0_0, z1_0, z2_0, z3_0) 0 = (z0_1, z1_1, z2_1, z3_1) := by
    rw [group4_gen]; rfl
  have s2 : Model.SM4.group4 tb rk (z0_1, z1_1, z2_1, z3_1) 1 = (z0_2, z1_2, z2_2, z3_2) := by
    rw [group4_gen]; rfl
  have s3 : Model.SM4.group4 tb rk (z0_2, z1_2, z2_2, z3_2) 2 = (z0_3, z1_3, z2_3, z3_3) := by
    rw [group4_gen]; rfl
  have s4 : Model.SM4.group4 tb rk (z0_3, z1_3, z2_3, z3_3) 3 = (z0_4, z1_4, z2_4, z3_4) := by
    rw [group4_gen]; rfl
  have s5 : Model.SM4.group4 tb rk (z0_4, z1_4, z2_4, z3_4) 4 = (z0_5, z1_5, z2_5, z3_5) := by
    rw [group4_gen]; rfl
  have s6 : Model.SM4.group4 tb rk (z0_5, z1_5, z2_5, z3_5) 5 = (z0_6, z1_6, z2_6, z3_6) := by
    rw [group4_gen]; rfl
  have s7 : Model.SM4.group4 tb rk (z0_6, z1_6, z2_6, z3_6) 6 = (z0_7, z1_7, z2_7, z3_7) := by
    rw [group4_gen]; rfl
  have s8 : Model.SM4.group4 tb rk (z0_7, z1_7, z2_7, z3_7) 7 = (z0_8, z1_8, z2_8, z3_8) := by
    rw [group4_gen]; rfl
  rw [show (beUint32 [x0, x1, x2, x3], beUint32 [x4, x5, x6, x7], beUint32 [x8, x9, x10, x11],
      beUint32 [x12, x13, x14, x15]) = (z0_0, z1_0, z2_0, z3_0) from rfl, s1, s2, s3, s4, s5, s6, s7, s8]
  exact put4 _ _ _ _ _ _ _ _ _ _ _ _ _ _ _ _ _ _ _ _ _

/-! ### two blocks in 64-bit words -/

/-- initial state of the two-block model: word i of block 0 in the low half, of block 1 in the high half -/
def initX2 (x : Bytes) : W64 × W64 × W64 × W64 :=
  (((wordsBE x).getD 0 0).setWidth 64 ||| (((wordsBE x).getD (0 + 4) 0).setWidth 64 <<< 32),
   ((wordsBE x).getD 1 0).setWidth 64 ||| (((wordsBE x).getD (1 + 4) 0).setWidth 64 <<< 32),
   ((wordsBE x).getD 2 0).setWidth 64 ||| (((wordsBE x).getD (2 + 4) 0).setWidth 64 <<< 32),
   ((wordsBE x).getD 3 0).setWidth 64 ||| (((wordsBE x).getD (3 + 4) 0).setWidth 64 <<< 32))

def out8 (s : W64 × W64 × W64 × W64) : Bytes :=
  w32Bytes (Model.SM4.lo32 s.2.2.2) ++ w32Bytes (Model.SM4.lo32 s.2.2.1) ++ w32Bytes (Model.SM4.lo32 s.2.1)
    ++ w32Bytes (Model.SM4.lo32 s.1) ++ w32Bytes (Model.SM4.hi32 s.2.2.2) ++ w32Bytes (Model.SM4.hi32 s.2.2.1)
    ++ w32Bytes (Model.SM4.hi32 s.2.1) ++ w32Bytes (Model.SM4.hi32 s.1)

theorem model_cryptoBlockX2_unroll (rk : List W32) (x : Bytes) :
    Model.SM4.cryptoBlockX2 tb rk x
      = out8 (Model.SM4.group4X2 tb rk (Model.SM4.group4X2 tb rk (Model.SM4.group4X2 tb rk (Model.SM4.group4X2 tb rk
          (Model.SM4.group4X2 tb rk (Model.SM4.group4X2 tb rk (Model.SM4.group4X2 tb rk (Model.SM4.group4X2 tb rk
            (initX2 x) 0) 1) 2) 3) 4) 5) 6) 7) := by
  unfold Model.SM4.cryptoBlockX2
  rw [show List.range 8 = [0, 1, 2, 3, 4, 5, 6, 7] from rfl]
  simp only [List.foldl_cons, List.foldl_nil, BitVec.zeroExtend_eq_setWidth]
  rw [show (((wordsBE x).getD 0 0).setWidth 64 ||| (((wordsBE x).getD (0 + 4) 0).setWidth 64 <<< 32),
   ((wordsBE x).getD 1 0).setWidth 64 ||| (((wordsBE x).getD (1 + 4) 0).setWidth 64 <<< 32),
   ((wordsBE x).getD 2 0).setWidth 64 ||| (((wordsBE x).getD (2 + 4) 0).setWidth 64 <<< 32),
   ((wordsBE x).getD 3 0).setWidth 64 ||| (((wordsBE x).getD (3 + 4) 0).setWidth 64 <<< 32)) = initX2 x from rfl]
  generalize Model.SM4.group4X2 tb rk _ 7 = s
  obtain ⟨a, b, c, d⟩ := s
  rfl

theorem group4X2_gen (rk : List W32) (z0 z1 z2 z3 : W64) (i : Nat) :
    Model.SM4.group4X2 tb rk (z0, z1, z2, z3) i =
      (let k := (rk.getD (4*i) 0).setWidth 64
       let k := k ||| (k <<< 32)
       let t := z1 ^^^ z2 ^^^ z3 ^^^ k
       let z0 := z0 ^^^ Gen.SM4Code.ssX2 t
       let k := (rk.getD (4*i+1) 0).setWidth 64
       let k := k ||| (k <<< 32)
       let t := z2 ^^^ z3 ^^^ k ^^^ z0
       let z1 := z1 ^^^ Gen.SM4Code.ssX2 t
       let k := (rk.getD (4*i+2) 0).setWidth 64
       let k := k ||| (k <<< 32)
       let t := z3 ^^^ k ^^^ z0 ^^^ z1
       let z2 := z2 ^^^ Gen.SM4Code.ssX2 t
       let k := (rk.getD (4*i+3) 0).setWidth 64
       let k := k ||| (k <<< 32)
       let t := k ^^^ z0 ^^^ z1 ^^^ z2
       let z3 := z3 ^^^ Gen.SM4Code.ssX2 t
       (z0, z1, z2, z3)) := by
  simp only [Model.SM4.group4X2, Model.SM4.dup, gen_ssX2_eq_model, BitVec.zeroExtend_eq_setWidth]

theorem initX2_cons (x0 x1 x2 x3 x4 x5 x6 x7 x8 x9 x10 x11 x12 x13 x14 x15 x16 x17 x18 x19 x20 x21 x22 x23 x24 x25 x26
    x27 x28 x29 x30 x31 : UInt8) (xr : Bytes) :
    initX2 (x0 :: x1 :: x2 :: x3 :: x4 :: x5 :: x6 :: x7 :: x8 :: x9 :: x10 :: x11 :: x12 :: x13 :: x14 :: x15 :: x16 ::
      x17 :: x18 :: x19 :: x20 :: x21 :: x22 :: x23 :: x24 :: x25 :: x26 :: x27 :: x28 :: x29 :: x30 :: x31 :: xr)
      = ((beUint32 [x0, x1, x2, x3]).setWidth 64 ||| ((beUint32 [x16, x17, x18, x19]).setWidth 64 <<< 32),
         (beUint32 [x4, x5, x6, x7]).setWidth 64 ||| ((beUint32 [x20, x21, x22, x23]).setWidth 64 <<< 32),
         (beUint32 [x8, x9, x10, x11]).setWidth 64 ||| ((beUint32 [x24, x25, x26, x27]).setWidth 64 <<< 32),
         (beUint32 [x12, x13, x14, x15]).setWidth 64 ||| ((beUint32 [x28, x29, x30, x31]).setWidth 64 <<< 32)) := by
  simp only [initX2, SM4.wordsBE_cons4, List.getD_cons_zero, List.getD_cons_succ, beUint32_4, Nat.zero_add, Nat.reduceAdd]

theorem lo32_mask (z : W64) : (z &&& 0xffffffff#64).setWidth 32 = Model.SM4.lo32 z := by
  apply BitVec.eq_of_toNat_eq
  simp only [Model.SM4.lo32, BitVec.truncate_eq_setWidth, BitVec.toNat_setWidth, BitVec.toNat_and]
  rw [show (0xffffffff#64).toNat = 2 ^ 32 - 1 from rfl, Nat.and_two_pow_sub_one_eq_mod, Nat.mod_mod]

theorem putUint32_zero' (a b c d : UInt8) (r : Bytes) (v : W32) :
    putUint32 (a :: b :: c :: d :: r) 0 v = byteOf (v >>> 24) :: byteOf (v >>> 16) :: byteOf (v >>> 8) :: byteOf v :: r := rfl

theorem hi32_shift (z : W64) : (z >>> 32).setWidth 32 = Model.SM4.hi32 z := rfl

theorem put8 (y0 y1 y2 y3 y4 y5 y6 y7 y8 y9 y10 y11 y12 y13 y14 y15 y16 y17 y18 y19 y20 y21 y22 y23 y24 y25 y26 y27
    y28 y29 y30 y31 : UInt8) (yr : Bytes) (a b c d e f g h : W32) :
    putUint32 (putUint32 (putUint32 (putUint32 (putUint32 (putUint32 (putUint32 (putUint32
      (y0 :: y1 :: y2 :: y3 :: y4 :: y5 :: y6 :: y7 :: y8 :: y9 :: y10 :: y11 :: y12 :: y13 :: y14 :: y15 :: y16 ::
        y17 :: y18 :: y19 :: y20 :: y21 :: y22 :: y23 :: y24 :: y25 :: y26 :: y27 :: y28 :: y29 :: y30 :: y31 :: yr)
      0 a) 4 b) 8 c) 12 d) 16 e) 20 f) 24 g) 28 h
      = w32Bytes a ++ w32Bytes b ++ w32Bytes c ++ w32Bytes d ++ w32Bytes e ++ w32Bytes f ++ w32Bytes g ++ w32Bytes h
          ++ yr := by
  simp only [w32Bytes_eq, putUint32_zero', putUint32_succ, List.cons_append, List.nil_append]

theorem gen_cryptoBlockX2_eq_model (x y : Bytes) (rk : List W32) (hx : 32 ≤ x.length) (hy : 32 ≤ y.length) :
    Gen.SM4Code.cryptoBlockX2 x y rk = Model.SM4.cryptoBlockX2 tb rk x ++ y.drop 32 := by
  obtain ⟨x0, x1, x2, x3, x4, x5, x6, x7, x8, x9, x10, x11, x12, x13, x14, x15, x16, x17, x18, x19, x20, x21, x22, x23,
    x24, x25, x26, x27, x28, x29, x30, x31, xr, rfl⟩ := explicit32 x hx
  obtain ⟨y0, y1, y2, y3, y4, y5, y6, y7, y8, y9, y10, y11, y12, y13, y14, y15, y16, y17, y18, y19, y20, y21, y22, y23,
    y24, y25, y26, y27, y28, y29, y30, y31, yr, rfl⟩ := explicit32 y hy
  rw [model_cryptoBlockX2_unroll, initX2_cons]
  unfold Gen.SM4Code.cryptoBlockX2
  extract_lets -merge
    z0_i z1_i z2_i z3_i t_ k_ z0_l z1_l z2_l z3_l z0_0 z1_0 z2_0 z3_0 ka_1 kka_1 ta_1 z0_1 kb_1 kkb_1 tb_1
    z1_1 kc_1 kkc_1 tc_1 z2_1 kd_1 kkd_1 td_1 z3_1 ka_2 kka_2 ta_2 z0_2 kb_2 kkb_2 tb_2 z1_2 kc_2 kkc_2 tc_2
    z2_2 kd_2 kkd_2 td_2 z3_2 ka_3 kka_3 ta_3 z0_3 kb_3 kkb_3 tb_3 z1_3 kc_3 kkc_3 tc_3 z2_3 kd_3 kkd_3 td_3
    z3_3 ka_4 kka_4 ta_4 z0_4 kb_4 kkb_4 tb_4 z1_4 kc_4 kkc_4 tc_4 z2_4 kd_4 kkd_4 td_4 z3_4 ka_5 kka_5 ta_5
    z0_5 kb_5 kkb_5 tb_5 z1_5 kc_5 kkc_5 tc_5 z2_5 kd_5 kkd_5 td_5 z3_5 ka_6 kka_6 ta_6 z0_6 kb_6 kkb_6 tb_6
    z1_6 kc_6 kkc_6 tc_6 z2_6 kd_6 kkd_6 td_6 z3_6 ka_7 kka_7 ta_7 z0_7 kb_7 kkb_7 tb_7 z1_7 kc_7 kkc_7 tc_7
    z2_7 kd_7 kkd_7 td_7 z3_7 ka_8 kka_8 ta_8 z0_8 kb_8 kkb_8 tb_8 z1_8 kc_8 kkc_8 tc_8 z2_8 kd_8 kkd_8 td_8
    z3_8 y_1 y_2 y_3 y_4 y_5 y_6 y_7 y_8
  have s1 : Model.SM4.group4X2 tb rk (z0_0, z1_0, z2_0, z3_0) 0 = (z0_1, z1_1, z2_1, z3_1) := by
    rw [group4X2_gen]; rfl
  have s2 : Model.SM4.group4X2 tb rk (z0_1, z1_1, z2_1, z3_1) 1 = (z0_2, z1_2, z2_2, z3_2) := by
    rw [group4X2_gen]; rfl
  have s3 : Model.SM4.group4X2 tb rk (z0_2, z1_2, z2_2, z3_2) 2 = (z0_3, z1_3, z2_3, z3_3) := by
    rw [group4X2_gen]; rfl
  have s4 : Model.SM4.group4X2 tb rk (z0_3, z1_3, z2_3, z3_3) 3 = (z0_4, z1_4, z2_4, z3_4) := by
    rw [group4X2_gen]; rfl
  have s5 : Model.SM4.group4X2 tb rk (z0_4, z1_4, z2_4, z3_4) 4 = (z0_5, z1_5, z2_5, z3_5) := by
    rw [group4X2_gen]; rfl
  have s6 : Model.SM4.group4X2 tb rk (z0_5, z1_5, z2_5, z3_5) 5 = (z0_6, z1_6, z2_6, z3_6) := by
    rw [group4X2_gen]; rfl
  have s7 : Model.SM4.group4X2 tb rk (z0_6, z1_6, z2_6, z3_6) 6 = (z0_7, z1_7, z2_7, z3_7) := by
    rw [group4X2_gen]; rfl
  have s8 : Model.SM4.group4X2 tb rk (z0_7, z1_7, z2_7, z3_7) 7 = (z0_8, z1_8, z2_8, z3_8) := by
    rw [group4X2_gen]; rfl
  rw [show ((beUint32 [x0, x1, x2, x3]).setWidth 64 ||| ((beUint32 [x16, x17, x18, x19]).setWidth 64 <<< 32),
         (beUint32 [x4, x5, x6, x7]).setWidth 64 ||| ((beUint32 [x20, x21, x22, x23]).setWidth 64 <<< 32),
         (beUint32 [x8, x9, x10, x11]).setWidth 64 ||| ((beUint32 [x24, x25, x26, x27]).setWidth 64 <<< 32),
         (beUint32 [x12, x13, x14, x15]).setWidth 64 ||| ((beUint32 [x28, x29, x30, x31]).setWidth 64 <<< 32))
      = (z0_0, z1_0, z2_0, z3_0) from rfl, s1, s2, s3, s4, s5, s6, s7, s8]
  simp only [out8, ← lo32_mask, ← hi32_shift]
  exact put8 _ _ _ _ _ _ _ _ _ _ _ _ _ _ _ _ _ _ _ _ _ _ _ _ _ _ _ _ _ _ _ _ _ _ _ _ _ _ _ _ _
end SMGo.Proofs.SM4Gen
