/-
  What the small routines of the arm64 Go glue do on the slice heap, as contracts
  "no panic, only the destination changes, the destination shows …":
  the kernel calls (`cryptoBlockN`, `xorN`, `gHashBlocks`), `(*sm4CipherAsm).Encrypt`,
  `gHashUpdate`, `gHashFinish`, `calculateFirstCounter`, `ensureCapacity` (arm64).
  Core Lean only.
-/
import SMGo.Proofs.GCMGlueArm64Heap
import SMGo.Proofs.GCMGlueArm64Val
namespace SMGo.Proofs.GCMGlueA64
open SMGo SMGo.Model SMGo.Model.Mem SMGo.Model.GCMGlueA64 SMGo.Proofs.Slice
open SMGo.Spec.GCM
open SMGo.Proofs.GCMGlue (UnchangedOutside InRegion Nowhere fresh unchanged_refl unchanged_append
  unchanged_poke WF_of_unchanged)
open SMGo.Proofs.GCM (ghFold ghFold_nil ghFold_append ghFold_block blockToNat_lt
  blockToNat_natToBlock natToBlock_blockToNat natToBlock_length ofNatBE_length xorBytes_length)

theorem takeS_len (s : Slice) : takeS s s.len = s := by cases s; rfl

theorem Reg_eq (s : Slice) : Reg s = InRegion s 0 s.len := rfl

/-! ### more on stores inside a slice -/

/-- a store inside what `s` shows replaces that piece of what `s` shows -/
theorem read_poke_inside (h : Heap) (a : Nat) (s : Slice) (p : Nat) (bs : Bytes)
    (hs : s.arr = some a) (ha : a < h.length) (hb : s.off + s.len ≤ (arrayOf h a).length)
    (hp : p + bs.length ≤ s.len) :
    read (poke h a (s.off + p) bs) s = splice (read h s) p bs := by
  obtain ⟨arr, o, len, cap⟩ := s
  simp at hs; subst hs
  simp at hb hp
  simp only [Mem.read]
  rw [arrayOf_poke_same h a _ bs ha]
  apply List.ext_getElem?
  intro i
  have hRl : (List.take len (List.drop o (arrayOf h a))).length = len := by
    rw [List.length_take, List.length_drop]; omega
  rw [getElem?_splice _ _ _ (by rw [hRl]; omega)]
  simp only [List.getElem?_take, List.getElem?_drop]
  rw [getElem?_splice _ _ _ (by omega)]
  by_cases hi : i < len
  · simp only [hi, if_true]
    by_cases h1 : i < p
    · have : o + i < o + p := by omega
      simp [h1, this]
    · by_cases h2 : i < p + bs.length
      · have h3 : ¬ o + i < o + p := by omega
        have h4 : o + i < o + p + bs.length := by omega
        have h5 : o + i - (o + p) = i - p := by omega
        simp [h1, h2, h3, h4, h5]
      · have h3 : ¬ o + i < o + p := by omega
        have h4 : ¬ o + i < o + p + bs.length := by omega
        simp [h1, h2, h3, h4]
  · have h1 : ¬ i < p := by omega
    have h2 : ¬ i < p + bs.length := by omega
    simp [hi, h1, h2]

theorem WF_fresh' (h : Heap) (x : Bytes) (n : Nat) (hx : x.length = n) :
    WF (h ++ [x]) (fresh h n) := by
  refine ⟨Nat.le_refl _, by simp, ?_⟩
  show 0 + n ≤ (arrayOf _ h.length).length
  rw [arrayOf_append_new]; omega

theorem read_fresh' (h : Heap) (x : Bytes) (n : Nat) (hx : x.length = n) :
    read (h ++ [x]) (fresh h n) = x := by
  show ((arrayOf _ h.length).drop 0).take n = _
  rw [arrayOf_append_new, ← hx]; simp

theorem copy_zero' (h : Heap) (dst src : Slice) (hz : min dst.len src.len = 0) :
    copy h dst src = (h, 0) := by
  unfold copy
  cases dst.arr <;> simp [hz]

theorem copy_ok' (h : Heap) (dst src : Slice) (hwd : WF h dst) (hpos : 0 < min dst.len src.len) :
    ∃ a, dst.arr = some a ∧ a < h.length ∧ dst.off + dst.cap ≤ (arrayOf h a).length ∧
      copy h dst src =
        (poke h a dst.off ((read h src).take (min dst.len src.len)), min dst.len src.len) := by
  obtain ⟨a, hs, ha, hcap⟩ := arr_of_cap_pos h dst hwd (by have := hwd.1; omega)
  refine ⟨a, hs, ha, hcap, ?_⟩
  have : ¬ min dst.len src.len = 0 := by omega
  simp [copy, hs, this]

/-! ### kernel calls -/

section kernels
variable (k : Kernels) (hk : KSpec k)
include hk

theorem cryptoBlockN_spec (n : Nat) (hn : 0 < n) (h : Heap) (dst src : Slice)
    (hwd : WF h dst) (hws : WF h src) (hd : 16 * n ≤ dst.len) (hs : 16 * n ≤ src.len) :
    ∃ h', cryptoBlockN k n h dst src = .ok h' ∧
      UnchangedOutside h h' (InRegion dst 0 (16 * n)) ∧
      read h' (takeS dst (16 * n)) = blocksE k.E n ((read h src).take (16 * n)) := by
  have hlen : (blocksE k.E n ((read h src).take (16 * n))).length = 16 * n :=
    blocksE_length hk.E_len n _
  obtain ⟨h', e, hu, hr⟩ := store_spec h dst _ hwd (by rw [hlen]; omega) (by rw [hlen]; exact hd)
  rw [hlen] at hu hr
  refine ⟨h', ?_, hu, hr⟩
  unfold cryptoBlockN
  rw [load_ok h src _ hws (by omega) hs]
  exact e

theorem xorN_spec (N : Nat) (hN : 0 < N) (h : Heap) (dst src1 src2 : Slice)
    (hwd : WF h dst) (hw1 : WF h src1) (hw2 : WF h src2)
    (hd : N ≤ dst.len) (h1 : N ≤ src1.len) (h2 : N ≤ src2.len) :
    ∃ h', xorN k N h dst src1 src2 = .ok h' ∧
      UnchangedOutside h h' (InRegion dst 0 N) ∧
      read h' (takeS dst N) = xorBytes ((read h src1).take N) ((read h src2).take N) := by
  have hlen : (xorBytes ((read h src1).take N) ((read h src2).take N)).length = N := by
    rw [xorBytes_length, List.length_take, List.length_take, length_read h src1 hw1,
      length_read h src2 hw2]
    omega
  obtain ⟨h', e, hu, hr⟩ := store_spec h dst _ hwd (by rw [hlen]; omega) (by rw [hlen]; exact hd)
  rw [hlen] at hu hr
  refine ⟨h', ?_, hu, hr⟩
  unfold xorN
  rw [load_ok h src1 _ hw1 (by omega) h1, load_ok h src2 _ hw2 (by omega) h2, hk.xor_eq]
  exact e

/-- `gHashBlocks(&H[0], &tag[0], &data[0], count)`: only the tag changes; it becomes the
    specification's GHASH fold over the `count` blocks, resumed from the old tag -/
theorem gHashBlocks_spec (h : Heap) (H tag data : Slice) (count : Nat) (hc : 0 < count)
    (hwH : WF h H) (hHl : H.len = 16) (hwt : WF h tag) (htl : tag.len = 16)
    (hwd : WF h data) (hdl : 16 * count ≤ data.len) :
    ∃ h', gHashBlocks k h H tag data count = .ok h' ∧
      UnchangedOutside h h' (Reg tag) ∧
      read h' tag = natToBlock (ghFold (blockToNat (read h H)) (blockToNat (read h tag))
        ((read h data).take (16 * count))) := by
  have hHr : (read h H).length = 16 := by rw [length_read h H hwH, hHl]
  have htr : (read h tag).length = 16 := by rw [length_read h tag hwt, htl]
  have hdr : (read h data).length = data.len := length_read h data hwd
  have hval : ghBlocks k.gh (read h H) count (read h tag) ((read h data).take (16 * count))
      = natToBlock (ghFold (blockToNat (read h H)) (blockToNat (read h tag))
          ((read h data).take (16 * count))) := by
    rw [hk.gh_eq, ghBlocks_spec _ hHr count _ _ htr (by rw [List.length_take]; omega),
      List.take_take, Nat.min_self]
  obtain ⟨h', e, hu, hr⟩ := store_spec h tag (natToBlock (ghFold (blockToNat (read h H))
    (blockToNat (read h tag)) ((read h data).take (16 * count)))) hwt
    (by rw [natToBlock_length]; omega) (by rw [natToBlock_length, htl]; omega)
  have ht16 : takeS tag 16 = tag := by rw [← htl]; exact takeS_len tag
  rw [natToBlock_length, ht16] at hr
  rw [natToBlock_length] at hu
  refine ⟨h', ?_, by rw [Reg_eq, htl]; exact hu, hr⟩
  unfold gHashBlocks
  rw [load_ok h H 16 hwH (by omega) (by omega), load_ok h tag 16 hwt (by omega) (by omega),
    load_ok h data _ hwd (by omega) hdl]
  simp only [Outcome.bind_ok]
  rw [List.take_of_length_le (by omega : (read h H).length ≤ 16),
    List.take_of_length_le (by omega : (read h tag).length ≤ 16), hval]
  exact e

/-- `g.cipher.Encrypt(dst, src)` on 16-byte slices -/
theorem cipherEncrypt_spec (h : Heap) (dst src : Slice)
    (hwd : WF h dst) (hdl : dst.len = 16) (hws : WF h src) (hsl : src.len = 16) :
    ∃ h', cipherEncrypt k h dst src = .ok h' ∧
      UnchangedOutside h h' (Reg dst) ∧ read h' dst = k.E (read h src) := by
  obtain ⟨h', e, hu, hr⟩ := cryptoBlockN_spec k hk 1 (by omega) h dst src hwd hws (by omega) (by omega)
  have hsr : (read h src).length = 16 := by rw [length_read h src hws, hsl]
  refine ⟨h', ?_, ?_, ?_⟩
  · unfold cipherEncrypt
    rw [if_neg (by omega), if_neg (by omega)]
    exact e
  · rw [Reg_eq, hdl]; exact hu
  · have : takeS dst (16 * 1) = dst := by rw [← hdl]; simp [takeS_len]
    rw [this] at hr
    rw [hr]
    simp [blocksE, List.take_of_length_le (by omega : (read h src).length ≤ 16)]

/-! ### gHashUpdate -/

/-- the second half of `gHashUpdate`: the zero-padded remainder -/
def ghTail (k : Kernels) (h : Heap) (H tag inp : Slice) : Outcome Heap :=
  if inp.len &&& 15 ≠ 0 then
    sliceFrom inp (inp.len - (inp.len &&& 15)) >>= fun src =>
    gHashBlocks k (copy (h ++ [List.replicate 16 0]) (fresh h 16) src).1 H tag (fresh h 16) 1
  else .ok h

omit hk in
theorem gHashUpdate_eq (h : Heap) (H tag inp : Slice) :
    gHashUpdate k h H tag inp =
      ((if inp.len ≥ 16 then gHashBlocks k h H tag inp (inp.len >>> 4) else .ok h) >>= fun h1 =>
        ghTail k h1 H tag inp) := by
  by_cases hl : inp.len ≥ 16
  · simp only [gHashUpdate, if_pos hl]; rfl
  · simp only [gHashUpdate, if_neg hl]; rfl

theorem gHashUpdate_spec (h : Heap) (H tag inp : Slice)
    (hwH : WF h H) (hHl : H.len = 16) (hwt : WF h tag) (htl : tag.len = 16) (hwi : WF h inp)
    (hHt : H.arr ≠ tag.arr) (hit : inp.arr ≠ tag.arr) :
    ∃ h', gHashUpdate k h H tag inp = .ok h' ∧
      UnchangedOutside h h' (Reg tag) ∧
      read h' tag = natToBlock (ghFold (blockToNat (read h H)) (blockToNat (read h tag))
        (pad16 (read h inp))) := by
  have hHr : (read h H).length = 16 := by rw [length_read h H hwH, hHl]
  have htr : (read h tag).length = 16 := by rw [length_read h tag hwt, htl]
  have hXl : (read h inp).length = inp.len := length_read h inp hwi
  have hHlt := blockToNat_lt hHr
  have hYlt := blockToNat_lt htr
  -- whole blocks
  obtain ⟨h1, e1, u1, r1⟩ : ∃ h1,
      (if inp.len ≥ 16 then gHashBlocks k h H tag inp (inp.len >>> 4) else .ok h) = .ok h1 ∧
      UnchangedOutside h h1 (Reg tag) ∧
      read h1 tag = natToBlock (ghFold (blockToNat (read h H)) (blockToNat (read h tag))
        ((read h inp).take (16 * (inp.len / 16)))) := by
    by_cases hl : inp.len ≥ 16
    · rw [if_pos hl, shr4]
      exact gHashBlocks_spec k hk h H tag inp (inp.len / 16) (by omega) hwH hHl hwt htl hwi (by omega)
    · rw [if_neg hl]
      refine ⟨h, rfl, unchanged_refl h _, ?_⟩
      rw [show inp.len / 16 = 0 by omega]
      simp [ghFold_nil, natToBlock_blockToNat htr]
  -- what the other slices show in h1
  have avoidH : ∀ a i, H.arr = some a → H.off ≤ i → i < H.off + H.len → ¬ Reg tag a i := by
    intro a i ha _ _ ⟨hr, _, _⟩; exact hHt (ha.trans hr.symm)
  have avoidI : ∀ a i, inp.arr = some a → inp.off ≤ i → i < inp.off + inp.len → ¬ Reg tag a i := by
    intro a i ha _ _ ⟨hr, _, _⟩; exact hit (ha.trans hr.symm)
  have rH1 : read h1 H = read h H := read_of_UO u1 H hwH avoidH
  have rI1 : read h1 inp = read h inp := read_of_UO u1 inp hwi avoidI
  have wH1 := WF_of_unchanged h h1 _ u1 H hwH
  have wt1 := WF_of_unchanged h h1 _ u1 tag hwt
  have wi1 := WF_of_unchanged h h1 _ u1 inp hwi
  rw [gHashUpdate_eq, e1, Outcome.bind_ok, GCMGlueA64.ghFold_pad16, hXl]
  unfold ghTail
  rw [and15]
  by_cases hr : inp.len % 16 = 0
  · rw [if_neg (by simpa using hr), if_pos hr]
    exact ⟨h1, rfl, u1, r1⟩
  · rw [if_pos hr, if_neg hr]
    have hil := hwi.1
    rw [sliceFrom_ok inp _ (by omega) hil, Outcome.bind_ok]
    -- the copy into the fresh block
    have wsrc : WF h1 (dropS inp (inp.len - inp.len % 16)) := WF_dropS h1 inp _ wi1 (by omega)
    have wtmp0 := WF_fresh h1 16
    have hmin : min (fresh h1 16).len (dropS inp (inp.len - inp.len % 16)).len = inp.len % 16 := by
      show min 16 (inp.len - (inp.len - inp.len % 16)) = _
      omega
    obtain ⟨a, hsa, _, _, ec⟩ := copy_ok' (h1 ++ [List.replicate 16 0]) (fresh h1 16)
      (dropS inp (inp.len - inp.len % 16)) wtmp0 (by rw [hmin]; omega)
    have ha : a = h1.length := by
      have : (fresh h1 16).arr = some h1.length := rfl
      rw [this] at hsa; injection hsa with hsa; exact hsa.symm
    subst ha
    rw [ec, hmin]
    show ∃ h', gHashBlocks k (poke (h1 ++ [List.replicate 16 0]) h1.length 0 _) H tag (fresh h1 16) 1
      = .ok h' ∧ _
    rw [poke_append_new]
    have hbs : (read (h1 ++ [List.replicate 16 0]) (dropS inp (inp.len - inp.len % 16))).take
        (inp.len % 16) = (read h inp).drop (inp.len - inp.len % 16) := by
      rw [read_append_heap h1 _ _ wsrc, read_dropS, rI1]
      apply List.take_of_length_le
      rw [List.length_drop, hXl]; omega
    rw [hbs]
    have hdl : ((read h inp).drop (inp.len - inp.len % 16)).length = inp.len % 16 := by
      rw [List.length_drop, hXl]; omega
    have hsp : splice (List.replicate 16 (0 : UInt8)) 0 ((read h inp).drop (inp.len - inp.len % 16))
        = (read h inp).drop (inp.len - inp.len % 16) ++ List.replicate (16 - inp.len % 16) 0 := by
      have := splice_replicate_zero ((read h inp).drop (inp.len - inp.len % 16))
        (16 - inp.len % 16) 0
      rw [hdl, show inp.len % 16 + (16 - inp.len % 16) = 16 by omega] at this
      exact this
    rw [hsp]
    have hxl : ((read h inp).drop (inp.len - inp.len % 16)
        ++ List.replicate (16 - inp.len % 16) (0 : UInt8)).length = 16 := by
      rw [List.length_append, List.length_replicate, hdl]; omega
    generalize (read h inp).drop (inp.len - inp.len % 16)
        ++ List.replicate (16 - inp.len % 16) (0 : UInt8) = blk at hxl ⊢
    -- the heap with the padded block
    have wH3 := WF_append_heap h1 blk H wH1
    have wt3 := WF_append_heap h1 blk tag wt1
    have htk : blk.take (16 * 1) = blk := List.take_of_length_le (by rw [hxl]; omega)
    obtain ⟨h4, e4, u4, r4⟩ := gHashBlocks_spec k hk _ H tag (fresh h1 16) 1 (by omega) wH3 hHl wt3 htl
      (WF_fresh' h1 _ 16 hxl) (by show 16 * 1 ≤ 16; omega)
    refine ⟨h4, e4, ?_, ?_⟩
    · exact UO_trans (UO_trans u1 (unchanged_append h1 _ Nowhere) (fun _ _ _ hf => hf.elim)) u4
        (fun _ _ _ hr => hr)
    · rw [r4, read_append_heap h1 _ H wH1, read_append_heap h1 _ tag wt1, rH1, r1,
        read_fresh' h1 _ 16 hxl, blockToNat_natToBlock (ghFold_lt hHlt hYlt _), htk]

/-! ### gHashFinish -/

omit hk in
theorem gHashFinish_eq (h : Heap) (H tag : Slice) (a p : Nat) :
    gHashFinish k h H tag a p =
      (sliceTo (fresh h 16) 8 >>= fun lo =>
       putUint64BE (h ++ [List.replicate 16 0]) lo ((a <<< 3) % 2 ^ 64) >>= fun h1 =>
       sliceFrom (fresh h 16) 8 >>= fun hi =>
       putUint64BE h1 hi ((p <<< 3) % 2 ^ 64) >>= fun h2 =>
       gHashBlocks k h2 H tag (fresh h 16) 1) := rfl

theorem gHashFinish_spec (h : Heap) (H tag : Slice) (aLen pLen : Nat)
    (hwH : WF h H) (hHl : H.len = 16) (hwt : WF h tag) (htl : tag.len = 16) :
    ∃ h', gHashFinish k h H tag aLen pLen = .ok h' ∧
      UnchangedOutside h h' (Reg tag) ∧
      read h' tag = natToBlock (ghFold (blockToNat (read h H)) (blockToNat (read h tag))
        (be64 (8 * aLen) ++ be64 (8 * pLen))) := by
  rw [gHashFinish_eq, sliceTo_ok _ 8 (by show 8 ≤ 16; omega), Outcome.bind_ok]
  -- first store
  have w0 := WF_fresh h 16
  have wlo : WF (h ++ [List.replicate 16 0]) (takeS (fresh h 16) 8) :=
    WF_takeS _ _ 8 w0 (by show 8 ≤ 16; omega)
  obtain ⟨a, hsa, _, _, e1⟩ := store_ok _ (takeS (fresh h 16) 8) (Bytes.ofNatBE 8 ((aLen <<< 3) % 2 ^ 64))
    wlo (by rw [ofNatBE_length]; omega) (by rw [ofNatBE_length]; exact Nat.le_refl 8)
  have ha : a = h.length := by
    have : (takeS (fresh h 16) 8).arr = some h.length := rfl
    rw [this] at hsa; injection hsa with hsa; exact hsa.symm
  subst ha
  have hp1 : putUint64BE (h ++ [List.replicate 16 0]) (takeS (fresh h 16) 8) ((aLen <<< 3) % 2 ^ 64)
      = .ok (h ++ [be64 (8 * aLen) ++ List.replicate 8 0]) := by
    unfold putUint64BE
    rw [if_pos (by show 7 < 8; omega), e1]
    show Outcome.ok (poke (h ++ [List.replicate 16 0]) h.length 0 _) = _
    rw [poke_append_new, be64_shift]
    have := splice_replicate_zero (be64 (8 * aLen)) 8 0
    rw [GCM.be64_length] at this
    rw [this]
  rw [hp1, Outcome.bind_ok, sliceFrom_ok _ 8 (by show 8 ≤ 16; omega) (Nat.le_refl 16), Outcome.bind_ok]
  -- second store
  have hx1 : (be64 (8 * aLen) ++ List.replicate 8 (0 : UInt8)).length = 16 := by
    rw [List.length_append, GCM.be64_length, List.length_replicate]
  have w1 := WF_fresh' h _ 16 hx1
  have whi : WF (h ++ [be64 (8 * aLen) ++ List.replicate 8 0]) (dropS (fresh h 16) 8) :=
    WF_dropS _ _ 8 w1 (by show 8 ≤ 16; omega)
  obtain ⟨a, hsa, _, _, e2⟩ := store_ok _ (dropS (fresh h 16) 8) (Bytes.ofNatBE 8 ((pLen <<< 3) % 2 ^ 64))
    whi (by rw [ofNatBE_length]; omega) (by rw [ofNatBE_length]; exact Nat.le_refl 8)
  have ha : a = h.length := by
    have : (dropS (fresh h 16) 8).arr = some h.length := rfl
    rw [this] at hsa; injection hsa with hsa; exact hsa.symm
  subst ha
  have hp2 : putUint64BE (h ++ [be64 (8 * aLen) ++ List.replicate 8 0]) (dropS (fresh h 16) 8)
      ((pLen <<< 3) % 2 ^ 64) = .ok (h ++ [be64 (8 * aLen) ++ be64 (8 * pLen)]) := by
    unfold putUint64BE
    rw [if_pos (by show 7 < 16 - 8; omega), e2]
    show Outcome.ok (poke (h ++ [_]) h.length (0 + 8) _) = _
    rw [poke_append_new, be64_shift]
    have hsp : splice (be64 (8 * aLen) ++ List.replicate 8 0) (0 + 8) (be64 (8 * pLen))
        = be64 (8 * aLen) ++ be64 (8 * pLen) := by
      have hl1 := GCM.be64_length (8 * aLen)
      have hl2 := GCM.be64_length (8 * pLen)
      simp [splice, hl1, hl2, List.drop_append]
    rw [hsp]
  rw [hp2, Outcome.bind_ok]
  have hx2 : (be64 (8 * aLen) ++ be64 (8 * pLen)).length = 16 := by
    rw [List.length_append, GCM.be64_length, GCM.be64_length]
  obtain ⟨h4, e4, u4, r4⟩ := gHashBlocks_spec k hk _ H tag (fresh h 16) 1 (by omega)
    (WF_append_heap h _ H hwH) hHl (WF_append_heap h _ tag hwt) htl
    (WF_fresh' h _ 16 hx2) (by show 16 * 1 ≤ 16; omega)
  refine ⟨h4, e4, ?_, ?_⟩
  · exact UO_trans (unchanged_append h _ (Reg tag)) u4 (fun _ _ _ hr => hr)
  · rw [r4, read_append_heap h _ H hwH, read_append_heap h _ tag hwt, read_fresh' h _ 16 hx2,
      List.take_of_length_le (by rw [hx2]; omega)]

/-! ### calculateFirstCounter -/

theorem calculateFirstCounter_spec (h : Heap) (nonce J0 H : Slice)
    (hwn : WF h nonce) (hwj : WF h J0) (hjl : J0.len = 16)
    (hj0 : read h J0 = List.replicate 16 0)
    (hwH : WF h H) (hHl : H.len = 16) (hHj : H.arr ≠ J0.arr) (hnj : nonce.arr ≠ J0.arr) :
    ∃ h', calculateFirstCounter k h nonce J0 H = .ok h' ∧
      UnchangedOutside h h' (Reg J0) ∧
      read h' J0 = natToBlock (j0 (blockToNat (read h H)) (read h nonce)) := by
  have hNl : (read h nonce).length = nonce.len := length_read h nonce hwn
  have hHr : (read h H).length = 16 := by rw [length_read h H hwH, hHl]
  unfold calculateFirstCounter j0
  by_cases h12 : nonce.len = 12
  · rw [if_pos h12, if_pos (by rw [hNl]; exact h12)]
    have hmin : min J0.len nonce.len = 12 := by omega
    obtain ⟨a, hsa, ha, hcap, ec⟩ := copy_ok' h J0 nonce hwj (by omega)
    rw [hmin, List.take_of_length_le (by omega : (read h nonce).length ≤ 12)] at ec
    have hjc := hwj.1
    have hb1 : J0.off + 0 + (read h nonce).length ≤ (arrayOf h a).length := by omega
    have hwj1 : WF (poke h a J0.off (read h nonce)) J0 :=
      WF_poke h a J0.off _ J0 (by omega) hwj
    obtain ⟨a', hsa', _, _, es⟩ := setIndex_ok (poke h a J0.off (read h nonce)) J0 15 1 hwj1 (by omega)
    have : a' = a := by rw [hsa] at hsa'; injection hsa' with e; exact e.symm
    subst this
    refine ⟨poke (poke h a' J0.off (read h nonce)) a' (J0.off + 15) [1], ?_, ?_, ?_⟩
    · simp only [ec]
      exact es
    · have u1 : UnchangedOutside h (poke h a' J0.off (read h nonce)) (Reg J0) :=
        unchanged_poke h a' _ _ ha (by omega) _ (fun i h1 h2 => ⟨hsa, by simpa using h1, by simp; omega⟩)
      have hl1 : (arrayOf (poke h a' J0.off (read h nonce)) a').length = (arrayOf h a').length :=
        length_arrayOf_poke h a' a' _ _ (by omega)
      have u2 : UnchangedOutside (poke h a' J0.off (read h nonce))
          (poke (poke h a' J0.off (read h nonce)) a' (J0.off + 15) [1]) (Reg J0) :=
        unchanged_poke _ a' _ _ (by rw [length_poke]; exact ha) (by rw [hl1]; simp; omega) _
          (fun i h1 h2 => ⟨hsa, by simp; omega, by simp at h2 ⊢; omega⟩)
      exact UO_trans u1 u2 (fun _ _ _ hr => hr)
    · have r1 : read (poke h a' J0.off (read h nonce)) J0 = splice (read h J0) 0 (read h nonce) := by
        have := read_poke_inside h a' J0 0 (read h nonce) hsa ha (by omega) (by omega)
        simpa using this
      have hl1 : (arrayOf (poke h a' J0.off (read h nonce)) a').length = (arrayOf h a').length :=
        length_arrayOf_poke h a' a' _ _ (by omega)
      have r2 := read_poke_inside (poke h a' J0.off (read h nonce)) a' J0 15 [1] hsa
        (by rw [length_poke]; exact ha) (by rw [hl1]; omega) (by simp; omega)
      rw [r2, r1, hj0]
      have hsp := splice_replicate_zero (read h nonce) 4 0
      rw [hNl, h12] at hsp
      rw [show (16 : Nat) = 12 + 4 from rfl, hsp]
      have hl16 : (read h nonce ++ [0, 0, 0, 1]).length = 16 := by simp [hNl, h12]
      rw [natToBlock_blockToNat hl16]
      simp [splice, hNl, h12, List.take_append, List.drop_append]
      rw [List.take_of_length_le (by rw [hNl]; omega), List.drop_of_length_le (by rw [hNl]; omega)]
  · rw [if_neg h12, if_neg (by rw [hNl]; exact h12)]
    obtain ⟨h1, e1, u1, r1⟩ := gHashUpdate_spec k hk h H J0 nonce hwH hHl hwj hjl hwn hHj hnj
    have avoidH : ∀ a i, H.arr = some a → H.off ≤ i → i < H.off + H.len → ¬ Reg J0 a i := by
      intro a i ha _ _ ⟨hr, _, _⟩; exact hHj (ha.trans hr.symm)
    have rH1 : read h1 H = read h H := read_of_UO u1 H hwH avoidH
    obtain ⟨h2, e2, u2, r2⟩ := gHashFinish_spec k hk h1 H J0 0 nonce.len
      (WF_of_unchanged h h1 _ u1 H hwH) hHl (WF_of_unchanged h h1 _ u1 J0 hwj) hjl
    refine ⟨h2, ?_, UO_trans u1 u2 (fun _ _ _ hr => hr), ?_⟩
    · rw [e1]; exact e2
    · have hHlt := blockToNat_lt hHr
      rw [r2, rH1, r1, hj0, blockToNat_zero, blockToNat_natToBlock (ghFold_lt hHlt (by decide) _)]
      congr 1
      rw [GCM.ghash_eq_ghFold, List.append_assoc,
        ghFold_append _ _ _ _ _ (pad16_length' (read h nonce)), hNl]
      rfl

end kernels

/-! ### ensureCapacity (arm64) -/

/-- `ensureCapacity(array, asked)` of sm4_gcm_arm64.go: with room (`asked ≤ cap − len`) head is
    `array[:len+asked]`, tail its last `asked` bytes, the heap is untouched; without, head is a new
    array holding `array ‖ asked zero bytes`.  Never a panic. -/
theorem ensureCapacityA64_closed (h : Heap) (s : Slice) (asked : Nat) (hwf : WF h s) :
    ensureCapacityA64 h s asked =
      if asked ≤ s.cap - s.len then
        .ok (h, takeS s (s.len + asked), dropS (takeS s (s.len + asked)) s.len)
      else
        .ok (h ++ [read h s ++ List.replicate asked 0], fresh h (s.len + asked),
             dropS (fresh h (s.len + asked)) s.len) := by
  have hl := hwf.1
  unfold ensureCapacityA64
  by_cases hroom : asked ≤ s.cap - s.len
  · rw [if_pos hroom]
    simp only [hroom, if_true]
    rw [sliceTo_ok s _ (by omega)]
    simp only [Outcome.bind_ok, Outcome.pure_eq]
    rw [sliceFrom_ok _ _ (by show s.len ≤ s.len + asked; omega) (by show s.len + asked ≤ s.cap; omega)]
    rfl
  · rw [if_neg hroom]
    simp only [hroom, if_false]
    have hrl := length_read h s hwf
    have hcopy : copy (h ++ [List.replicate (s.len + asked) 0]) (fresh h (s.len + asked)) s
        = (h ++ [read h s ++ List.replicate asked 0], s.len) := by
      by_cases hz : s.len = 0
      · have hnil : read h s = [] := List.eq_nil_of_length_eq_zero (by omega)
        rw [copy_zero' _ _ _ (by show min (s.len + asked) s.len = 0; omega), hnil, hz]
        simp
      · have hmin : min (fresh h (s.len + asked)).len s.len = s.len := by
          show min (s.len + asked) s.len = s.len; omega
        obtain ⟨a, hsa, _, _, ec⟩ := copy_ok' (h ++ [List.replicate (s.len + asked) 0])
          (fresh h (s.len + asked)) s (WF_fresh h _) (by rw [hmin]; omega)
        have ha : a = h.length := by
          have : (fresh h (s.len + asked)).arr = some h.length := rfl
          rw [this] at hsa; injection hsa with hsa; exact hsa.symm
        subst ha
        rw [ec, hmin, read_append_heap h _ s hwf,
          List.take_of_length_le (by omega : (read h s).length ≤ s.len)]
        show (poke (h ++ [_]) h.length 0 _, _) = _
        rw [poke_append_new, ← hrl, splice_replicate_zero]
    simp only [make, makeCap]
    show ((match copy (h ++ [List.replicate (s.len + asked) 0]) (fresh h (s.len + asked)) s with
      | (h, _) => pure (h, fresh _ (s.len + asked))) >>= _) = _
    rw [hcopy]
    simp only [Outcome.pure_eq, Outcome.bind_ok]
    rw [sliceFrom_ok _ _ (by show s.len ≤ s.len + asked; omega) (Nat.le_refl _)]
    rfl

end SMGo.Proofs.GCMGlueA64
